(* C01_Sampling.v — the deterministic maps of the sampling pipeline (RandMeth.reset_seed), at R:
   inverse-transform sampling of the radii (RNG.sample_dist with the model's analytic ppf) and the
   parametrisation of the unit sphere (RNG.sample_sphere).  The uniform / normal draws themselves are inputs. *)
From Coq Require Import Reals List Lra Lia Arith ZArith Bool.
From GS Require Import Num Loops RInst C01_Model.
Import ListNotations.
Open Scope R_scope.

(* ---------- inverse-transform sampling.
   If cdf is strictly increasing on [0, inf) and ppf is a right inverse of it on [0, 1), then the events
   { ppf U <= r } and { U <= cdf r } coincide: for U uniform on [0,1) the radius ppf(U) has distribution cdf. *)
Theorem inversion_sampling (cdf ppf : R -> R) :
  (forall r s, 0 <= r -> r < s -> cdf r < cdf s) ->
  (forall u, 0 <= u < 1 -> 0 <= ppf u /\ cdf (ppf u) = u) ->
  forall u r, 0 <= u < 1 -> 0 <= r -> (ppf u <= r <-> u <= cdf r).
Proof.
  intros Hinc Hinv u r Hu Hr. destruct (Hinv u Hu) as [Hp Hc]. split.
  - intros Hle. destruct (Rle_lt_or_eq_dec _ _ Hle) as [Hlt|Heq].
    + rewrite <- Hc. left. apply Hinc; assumption.
    + rewrite <- Heq, Hc. lra.
  - intros Hle. destruct (Rle_or_lt (ppf u) r) as [H|H]; [exact H|].
    exfalso. pose proof (Hinc r (ppf u) Hr H). lra.
Qed.

(* reflected form (a "ppf" that is a right inverse of the survival function 1 - cdf on (0, 1], as
   Exponential.spectral_rad_ppf in 2-D was before /repo commit 1a6a5cf): the events { ppf U <= r } and
   { 1 - U <= cdf r } coincide, and 1 - U is uniform too, so the sampled radii have the same distribution *)
Theorem inversion_sampling_reflected (cdf ppf : R -> R) :
  (forall r s, 0 <= r -> r < s -> cdf r < cdf s) ->
  (forall u, 0 < u <= 1 -> 0 <= ppf u /\ cdf (ppf u) = 1 - u) ->
  forall u r, 0 < u <= 1 -> 0 <= r -> (ppf u <= r <-> 1 - u <= cdf r).
Proof.
  intros Hinc Hinv u r Hu Hr.
  assert (Hinv' : forall v, 0 <= v < 1 -> 0 <= ppf (1 - v) /\ cdf (ppf (1 - v)) = v).
  { intros v Hv. replace v with (1 - (1 - v)) at 3 by ring. apply Hinv. lra. }
  pose proof (inversion_sampling cdf (fun v => ppf (1 - v)) Hinc Hinv' (1 - u) r) as H.
  cbv beta in H. replace (1 - (1 - u)) with u in H by ring. apply H; lra.
Qed.

Section Pairs.
  Variable ora : nat -> list R -> R.
  Notation RO := (Rops ora).

  Lemma npow2 x : npow RO x (nofZ RO 2) = x * x.
  Proof. apply Rpow_2. Qed.

  (* ---- Gaussian, dim 2 *)
  Lemma gau2_cdf_eq l r : gau2_cdf RO l r = 1 - exp (- ((r * l / 2) * (r * l / 2))).
  Proof. unfold gau2_cdf. rewrite npow2. reflexivity. Qed.
  Lemma gau2_ppf_eq l u : gau2_ppf RO l u = 2 / l * sqrt (- ln (1 - u)).
  Proof. reflexivity. Qed.

  Lemma gau2_increasing l : 0 < l -> forall r s, 0 <= r -> r < s -> gau2_cdf RO l r < gau2_cdf RO l s.
  Proof.
    intros Hl r s Hr Hrs. rewrite !gau2_cdf_eq.
    assert (H1 : r * l / 2 < s * l / 2) by (apply Rmult_lt_compat_r; [lra|]; apply Rmult_lt_compat_r; lra).
    assert (H0 : 0 <= r * l / 2) by (apply Rmult_le_pos; [apply Rmult_le_pos|]; lra).
    assert (H2 : (r * l / 2) * (r * l / 2) < (s * l / 2) * (s * l / 2)) by (apply Rmult_le_0_lt_compat; lra).
    assert (exp (- (s * l / 2 * (s * l / 2))) < exp (- (r * l / 2 * (r * l / 2)))) by (apply exp_increasing; lra).
    lra.
  Qed.
  Lemma gau2_inverse l : 0 < l -> forall u, 0 <= u < 1 ->
    0 <= gau2_ppf RO l u /\ gau2_cdf RO l (gau2_ppf RO l u) = u.
  Proof.
    intros Hl u Hu. rewrite gau2_cdf_eq, gau2_ppf_eq.
    assert (Hln : 0 <= - ln (1 - u)).
    { assert (ln (1 - u) <= ln 1).
      { destruct (Req_dec u 0) as [->|Hne]; [rewrite Rminus_0_r; lra|]. left. apply ln_increasing; lra. }
      rewrite ln_1 in H. lra. }
    split.
    - apply Rmult_le_pos; [|apply sqrt_pos]. apply Rmult_le_pos; [lra|]. left. now apply Rinv_0_lt_compat.
    - replace (2 / l * sqrt (- ln (1 - u)) * l / 2) with (sqrt (- ln (1 - u))) by (field; lra).
      rewrite sqrt_sqrt by exact Hln. rewrite Ropp_involutive, exp_ln by lra. ring.
  Qed.
  Theorem gau2_inversion l : 0 < l -> forall u r, 0 <= u < 1 -> 0 <= r ->
    (gau2_ppf RO l u <= r <-> u <= gau2_cdf RO l r).
  Proof. intros Hl. apply inversion_sampling; [apply gau2_increasing | apply gau2_inverse]; exact Hl. Qed.

  (* ---- Exponential, dim 1 *)
  Lemma exp1_cdf_eq l r : exp1_cdf RO l r = atan (r * l) * 2 / PI.
  Proof. reflexivity. Qed.
  Lemma exp1_ppf_eq l u : exp1_ppf RO l u = tan (PI / 2 * u) / l.
  Proof. reflexivity. Qed.
  Lemma exp1_increasing l : 0 < l -> forall r s, 0 <= r -> r < s -> exp1_cdf RO l r < exp1_cdf RO l s.
  Proof.
    intros Hl r s Hr Hrs. rewrite !exp1_cdf_eq. pose proof PI_RGT_0.
    assert (atan (r * l) < atan (s * l)) by (apply atan_increasing; apply Rmult_lt_compat_r; lra).
    unfold Rdiv. apply Rmult_lt_compat_r; [now apply Rinv_0_lt_compat | lra].
  Qed.
  Lemma exp1_inverse l : 0 < l -> forall u, 0 <= u < 1 ->
    0 <= exp1_ppf RO l u /\ exp1_cdf RO l (exp1_ppf RO l u) = u.
  Proof.
    intros Hl u Hu. rewrite exp1_cdf_eq, exp1_ppf_eq. pose proof PI_RGT_0 as Hpi.
    assert (Ha : 0 <= PI / 2 * u < PI / 2).
    { split; [apply Rmult_le_pos; lra|]. rewrite <- (Rmult_1_r (PI / 2)) at 2. apply Rmult_lt_compat_l; lra. }
    split.
    - apply Rmult_le_pos; [|left; now apply Rinv_0_lt_compat].
      destruct (Req_dec u 0) as [->|Hne]; [rewrite Rmult_0_r, tan_0; lra|].
      left. apply tan_gt_0; [|lra]. apply Rmult_lt_0_compat; lra.
    - replace (tan (PI / 2 * u) / l * l) with (tan (PI / 2 * u)) by (field; lra).
      rewrite atan_tan by lra. field. lra.
  Qed.
  Theorem exp1_inversion l : 0 < l -> forall u r, 0 <= u < 1 -> 0 <= r ->
    (exp1_ppf RO l u <= r <-> u <= exp1_cdf RO l r).
  Proof. intros Hl. apply inversion_sampling; [apply exp1_increasing | apply exp1_inverse]; exact Hl. Qed.

  (* ---- Exponential, dim 2 *)
  Lemma exp2_cdf_eq l r : exp2_cdf RO l r = 1 - 1 / sqrt (1 + (r * l) * (r * l)).
  Proof. unfold exp2_cdf. rewrite npow2. reflexivity. Qed.
  Lemma exp2_ppf_eq l u : exp2_ppf RO l u = sqrt (1 / ((1 - u) * (1 - u)) - 1) / l.
  Proof. unfold exp2_ppf. rewrite npow2. reflexivity. Qed.
  Lemma exp2_increasing l : 0 < l -> forall r s, 0 <= r -> r < s -> exp2_cdf RO l r < exp2_cdf RO l s.
  Proof.
    intros Hl r s Hr Hrs. rewrite !exp2_cdf_eq.
    assert (H1 : r * l < s * l) by (apply Rmult_lt_compat_r; lra).
    assert (H0 : 0 <= r * l) by (apply Rmult_le_pos; lra).
    assert (H2 : (r * l) * (r * l) < (s * l) * (s * l)) by (apply Rmult_le_0_lt_compat; lra).
    assert (Hp : 0 <= (r * l) * (r * l)) by (apply Rmult_le_pos; lra).
    assert (H3 : sqrt (1 + r * l * (r * l)) < sqrt (1 + s * l * (s * l))) by (apply sqrt_lt_1; lra).
    assert (H4 : 0 < sqrt (1 + r * l * (r * l))) by (apply sqrt_lt_R0; lra).
    assert (1 / sqrt (1 + s * l * (s * l)) < 1 / sqrt (1 + r * l * (r * l))).
    { unfold Rdiv. rewrite !Rmult_1_l. apply Rinv_lt_contravar; [apply Rmult_lt_0_compat; lra | exact H3]. }
    lra.
  Qed.
  Lemma exp2_inverse l : 0 < l -> forall u, 0 <= u < 1 ->
    0 <= exp2_ppf RO l u /\ exp2_cdf RO l (exp2_ppf RO l u) = u.
  Proof.
    intros Hl u Hu. rewrite exp2_cdf_eq, exp2_ppf_eq.
    set (v := 1 - u). assert (Hv : 0 < v <= 1) by (unfold v; lra).
    assert (Hvv : 0 < v * v) by (apply Rmult_lt_0_compat; lra).
    assert (Hq : 0 <= 1 / (v * v) - 1).
    { assert (v * v <= 1) by (replace 1 with (1 * 1) by ring; apply Rmult_le_compat; lra).
      assert (1 <= 1 / (v * v)).
      { unfold Rdiv. rewrite Rmult_1_l. rewrite <- Rinv_1 at 1. apply Rinv_le_contravar; lra. }
      lra. }
    split.
    - apply Rmult_le_pos; [apply sqrt_pos | left; now apply Rinv_0_lt_compat].
    - replace (sqrt (1 / (v * v) - 1) / l * l) with (sqrt (1 / (v * v) - 1)) by (field; lra).
      rewrite sqrt_sqrt by exact Hq.
      replace (1 + (1 / (v * v) - 1)) with ((1 / v) * (1 / v)) by (field; lra).
      rewrite sqrt_square by (left; apply Rdiv_lt_0_compat; lra). unfold v. field. lra.
  Qed.
  Theorem exp2_inversion l : 0 < l -> forall u r, 0 <= u < 1 -> 0 <= r ->
    (exp2_ppf RO l u <= r <-> u <= exp2_cdf RO l r).
  Proof. intros Hl. apply inversion_sampling; [apply exp2_increasing | apply exp2_inverse]; exact Hl. Qed.

  (* ---------- sample_sphere: the generated directions are unit vectors *)
  Theorem sphere2_unit a : cos a * cos a + sin a * sin a = 1.
  Proof. pose proof (sin2_cos2 a) as H. unfold Rsqr in H. lra. Qed.

  Theorem sphere3_unit a1 a2 : -1 <= a2 <= 1 ->
    let '(x, y, z) := sphere3_point RO a1 a2 in x * x + y * y + z * z = 1.
  Proof.
    intros Ha. unfold sphere3_point. rewrite npow2.
    change (nsqrt RO) with sqrt. change (nmul RO) with Rmult. change (nsub RO) with Rminus.
    change (n1 RO) with 1. change (ncos RO) with cos. change (nsin RO) with sin.
    assert (Hq : 0 <= 1 - a2 * a2) by nra.
    set (s := sqrt (1 - a2 * a2)).
    assert (Hs : s * s = 1 - a2 * a2) by (apply sqrt_sqrt; exact Hq).
    pose proof (sphere2_unit a1) as Hu.
    replace (s * cos a1 * (s * cos a1) + s * sin a1 * (s * sin a1) + a2 * a2)
      with ((s * s) * (cos a1 * cos a1 + sin a1 * sin a1) + a2 * a2) by ring.
    rewrite Hs, Hu. ring.
  Qed.

  (* cov_sample = rad * sphere_coord has radius |rad| : |k_j| = rad_j for rad_j >= 0 (2-D case spelled out) *)
  Theorem cov_sample2_radius r a : (r * cos a) * (r * cos a) + (r * sin a) * (r * sin a) = r * r.
  Proof. pose proof (sphere2_unit a). nra. Qed.
End Pairs.
