(* C01_Inst.v — the hypotheses H0..H4 of C01_Prob.v are jointly satisfiable: a finite sample space
   (five fair coins) with Rademacher amplitudes (+-1), a wave number +-kappa (the 1-D "sphere" times a fixed
   radius) and Rademacher nugget noise at two points.  Its correlation function is rho(h) = cos(kappa h).
   A second instance with a constant wave vector shows the hypotheses of the Fourier theorems satisfiable. *)
From Coq Require Import Reals List Lra Lia Arith ZArith Bool.
From GS Require Import Num Loops RInst C01_Model C01_Prob.
Import ListNotations.
Open Scope R_scope.

Definition Om5 : Type := (bool * bool * bool * (bool * bool))%type.
Definition sgn (b : bool) : R := if b then 1 else -1.
Definition sb (f : bool -> R) : R := f true + f false.
Definition E5 (f : Om5 -> R) : R :=
  sb (fun a => sb (fun b => sb (fun c => sb (fun d => sb (fun e => f (a, b, c, (d, e))))))) / 32.

Definition Z1_5 (w : Om5) : list R := let '(a, _, _, _) := w in [sgn a].
Definition Z2_5 (w : Om5) : list R := let '(_, b, _, _) := w in [sgn b].
Definition KS_5 (kf : bool -> R) (w : Om5) : list (list R) := let '(_, _, c, _) := w in [[kf c]].
Definition W_5 (w : Om5) : list R := let '(_, _, _, (d, e)) := w in [sgn d; sgn e].

Lemma E5_H0 : H0_normalised E5.
Proof. unfold H0_normalised, E5, sb. lra. Qed.
Lemma E5_H1 : H1_linear E5.
Proof. unfold H1_linear, E5, sb. intros. field. Qed.

Lemma E5_H2 kf : H2_amplitudes E5 1 (KS_5 kf) Z1_5 Z2_5.
Proof.
  split.
  - intros a b i j G Hi Hj _. assert (i = 0)%nat by lia. assert (j = 0)%nat by lia. subst i j.
    destruct a, b; unfold E5, sb, amp_of, aget, Z1_5, Z2_5, KS_5, sgn; simpl;
      set (g1 := G [[kf true]]); set (g2 := G [[kf false]]); field.
  - intros a i G Hi _. assert (i = 0)%nat by lia. subst i.
    destruct a; unfold E5, sb, amp_of, aget, Z1_5, Z2_5, KS_5, sgn; simpl;
      set (g1 := G [[kf true]]); set (g2 := G [[kf false]]); field.
Qed.

Lemma E5_H4 kf : H4_nugget E5 1 2 (KS_5 kf) Z1_5 Z2_5 W_5.
Proof.
  split; [|split].
  - intros i i' Hi Hi'.
    assert (Ci : i = 0%nat \/ i = 1%nat) by lia. assert (Ci' : i' = 0%nat \/ i' = 1%nat) by lia.
    destruct Ci as [-> | ->]; destruct Ci' as [-> | ->];
      unfold E5, sb, aget, W_5, sgn; simpl; lra.
  - intros i a j G Hi Hj _. assert (j = 0)%nat by lia. subst j.
    assert (Ci : i = 0%nat \/ i = 1%nat) by lia.
    destruct Ci as [-> | ->]; destruct a;
      unfold E5, sb, amp_of, aget, Z1_5, Z2_5, KS_5, W_5, sgn; simpl;
      set (g1 := G [[kf true]]); set (g2 := G [[kf false]]); field.
  - intros i Hi. assert (Ci : i = 0%nat \/ i = 1%nat) by lia.
    destruct Ci as [-> | ->]; unfold E5, sb, aget, W_5, sgn; simpl; lra.
Qed.

Lemma KS5_shape kf : modes_shape 1 (KS_5 kf).
Proof. intros [[[a b] c] [d e]]. reflexivity. Qed.

(* wave number +- kappa: the spectral measure of the correlation rho(h) = cos(kappa h) *)
Definition kpm (kappa : R) (c : bool) : R := kappa * sgn c.
Definition rho_cos (kappa : R) (h : list R) : R := cos (kappa * aget 0 h 0).

Lemma E5_H3 kappa : H3_spectral E5 1 1 (KS_5 (kpm kappa)) (rho_cos kappa).
Proof.
  intros j h Hj _. assert (j = 0)%nat by lia. subst j.
  unfold E5, sb, rho_cos, kdot, rsum, for_, KS_5, kpm, sgn, aget2, arow, aget. simpl.
  replace (0 + kappa * -1 * nth 0 h 0) with (- (kappa * nth 0 h 0)) by ring.
  replace (0 + kappa * 1 * nth 0 h 0) with (kappa * nth 0 h 0) by ring.
  rewrite cos_neg. field.
Qed.

(* all hypotheses of the randomization-method theorems hold together, with N = 1 mode, 2 points, dim 1 *)
Theorem randmeth_hypotheses_satisfiable (kappa : R) :
  H0_normalised E5 /\ H1_linear E5 /\ H2_amplitudes E5 1 (KS_5 (kpm kappa)) Z1_5 Z2_5
  /\ H3_spectral E5 1 1 (KS_5 (kpm kappa)) (rho_cos kappa)
  /\ H4_nugget E5 1 2 (KS_5 (kpm kappa)) Z1_5 Z2_5 W_5 /\ modes_shape 1 (KS_5 (kpm kappa)).
Proof.
  exact (conj E5_H0 (conj E5_H1 (conj (E5_H2 _) (conj (E5_H3 kappa) (conj (E5_H4 _) (KS5_shape _)))))).
Qed.

(* ... and those of the Fourier theorems (constant mode list [[kappa]]) *)
Theorem fourier_hypotheses_satisfiable (kappa : R) :
  H0_normalised E5 /\ H1_linear E5 /\ H2_amplitudes E5 1 (KS_5 (fun _ => kappa)) Z1_5 Z2_5
  /\ H4_nugget E5 1 2 (KS_5 (fun _ => kappa)) Z1_5 Z2_5 W_5 /\ modes_shape 1 (KS_5 (fun _ => kappa))
  /\ (forall w, KS_5 (fun _ => kappa) w = [[kappa]]) /\ shape1 [[kappa]] = 1%nat.
Proof.
  refine (conj E5_H0 (conj E5_H1 (conj (E5_H2 _) (conj (E5_H4 _) (conj (KS5_shape _) (conj _ eq_refl)))))).
  intros [[[a b] c] [d e]]. reflexivity.
Qed.

(* the main theorem applied to the instance: a concrete, non-vacuous consequence *)
Example instance_covariance (ora : nat -> list R -> R) (kappa var nugget x0 x1 : R) :
  0 <= var -> 0 <= nugget ->
  E5 (fun w => rm_field ora var 1 nugget (KS_5 (kpm kappa)) Z1_5 Z2_5 W_5 [[x0; x1]] 0 w
             * rm_field ora var 1 nugget (KS_5 (kpm kappa)) Z1_5 Z2_5 W_5 [[x0; x1]] 1 w)
  = var * cos (kappa * (x0 - x1)).
Proof.
  intros Hv Hn.
  rewrite (randmeth_covariance Om5 E5 ora 1 2 (KS_5 (kpm kappa)) Z1_5 Z2_5 W_5
             E5_H0 E5_H1 (E5_H2 _) (E5_H4 _) (KS5_shape _) [[x0; x1]] eq_refl
             (rho_cos kappa) (E5_H3 kappa) var nugget Hv Hn (le_n 1) 0 1) by lia.
  unfold rho_cos, lag, aget2, arow, aget. simpl. ring.
Qed.
