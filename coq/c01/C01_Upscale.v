(* C01_Upscale.v — (1) the variance upscaling entry of SRF.__call__ (field/upscaling.py + field/srf.py):
     field *= sqrt(upscaling_func(model, point_volumes) / model.sill)      when point_volumes is given,
   with var_no_scaling = model.sill and var_coarse_graining = sill * (l^2 / (l^2 + edge^2 / 4))^(dim / 2),
   edge = point_volumes^(1 / dim);
   (2) exact scale equivariance of the generator: wave vectors k / L on positions L x give the same field, and wave
   vectors that follow the spectral measure of rho, divided by L, follow that of h |-> rho(h / L)
   (S_L(k) = L^d S_1(L k) in terms of densities); the analytic radial ppf / cdf pairs scale accordingly. *)
From Coq Require Import Reals List Lra Lia Arith ZArith Bool.
From GS Require Import Num Loops RInst Summator_gen C15_KernelSpec C15_SummatorProofs C01_Model C01_Prob C01_Sampling.
Import ListNotations.
Open Scope R_scope.

Section UpModel.
  Context {T : Type} (O : NumOps T).
  (* model.sill = var + nugget *)
  Definition sill_of (var nugget : T) : T := nadd O var nugget.
  (* var_no_scaling(model, *args) = model.sill *)
  Definition var_no_scaling (var nugget : T) : T := sill_of var nugget.
  (* edge = point_volumes ** (1.0 / model.dim) *)
  Definition cg_edge (dim : Z) (vol : T) : T := npow O vol (ndiv O (n1 O) (nofZ O dim)).
  (* (len_scale**2 / (len_scale**2 + edge**2 / 4)) ** (dim / 2.0) *)
  Definition cg_factor (dim : Z) (len_scale edge : T) : T :=
    let l2 := npow O len_scale (nofZ O 2) in
    npow O (ndiv O l2 (nadd O l2 (ndiv O (npow O edge (nofZ O 2)) (nofZ O 4)))) (ndiv O (nofZ O dim) (nofZ O 2)).
  Definition var_coarse_graining (dim : Z) (len_scale var nugget vol : T) : T :=
    nmul O (sill_of var nugget) (cg_factor dim len_scale (cg_edge dim vol)).
  (* field *= np.sqrt(scaled_var / self.model.sill) *)
  Definition upscale_factor (scaled_var var nugget : T) : T := nsqrt O (ndiv O scaled_var (sill_of var nugget)).
  Definition upscale_field (field scaled : list T) (var nugget : T) : list T :=
    map (fun p => nmul O (fst p) (upscale_factor (snd p) var nugget)) (combine field scaled).
End UpModel.

Section UpProofs.
  Variable ora : nat -> list R -> R.
  Notation RO := (Rops ora).

  (* upscaling "no_scaling" is the identity on the field, nugget or not *)
  Theorem no_scaling_identity var nugget x : 0 < var + nugget ->
    x * upscale_factor RO (var_no_scaling RO var nugget) var nugget = x.
  Proof.
    intros H. unfold upscale_factor, var_no_scaling, sill_of. simpl.
    replace ((var + nugget) / (var + nugget)) with 1 by (field; lra). rewrite sqrt_1. ring.
  Qed.

  (* the squared factor is the variance ratio: an upscaled field has covariance c_i c_i' Cov and variance scaled_var *)
  Lemma upscale_factor_sq sv var nugget : 0 <= sv -> 0 < var + nugget ->
    upscale_factor RO sv var nugget * upscale_factor RO sv var nugget = sv / (var + nugget).
  Proof.
    intros Hs H. unfold upscale_factor, sill_of. simpl. apply sqrt_sqrt.
    apply Rmult_le_pos; [exact Hs|]. left. now apply Rinv_0_lt_compat.
  Qed.

  (* C's pow on (0, 1] with a positive exponent stays in (0, 1] *)
  Lemma Rpow_unit b y : 0 < b <= 1 -> 0 < y -> 0 < Rpow b y <= 1.
  Proof.
    intros Hb Hy. unfold Rpow. destruct (Req_EM_T y (IZR (Int_part y))) as [E|_].
    - set (n := Int_part y) in *. assert (Hn : (0 < n)%Z) by (apply lt_IZR; rewrite <- E; exact Hy).
      destruct n as [|p|p]; try lia. simpl. split.
      + apply pow_lt. lra.
      + rewrite <- (pow1 (Pos.to_nat p)). apply pow_incr. lra.
    - unfold Rpower. split; [apply exp_pos|].
      rewrite <- exp_0. destruct (Req_dec b 1) as [->|Hne].
      + rewrite ln_1, Rmult_0_r. lra.
      + left. apply exp_increasing. assert (ln b < 0) by (rewrite <- ln_1; apply ln_increasing; lra). nra.
  Qed.

  (* coarse graining: for every edge length, 0 < scaled variance <= sill, with equality at edge 0 *)
  Theorem coarse_graining_bounds (dim : Z) l edge var nugget : (1 <= dim)%Z -> 0 < l -> 0 < var + nugget ->
    0 < sill_of RO var nugget * cg_factor RO dim l edge <= sill_of RO var nugget.
  Proof.
    intros Hd Hl Hs. unfold cg_factor, sill_of. cbv zeta. simpl. rewrite !Rpow_2.
    assert (Hl2 : 0 < l * l) by (apply Rmult_lt_0_compat; lra).
    assert (He : 0 <= edge * edge / 4) by (pose proof (Rle_0_sqr edge) as Q; unfold Rsqr in Q; lra).
    assert (Hb : 0 < l * l / (l * l + edge * edge / 4) <= 1).
    { split; [apply Rdiv_lt_0_compat; lra|]. apply Rmult_le_reg_r with (l * l + edge * edge / 4); [lra|].
      unfold Rdiv at 1. rewrite Rmult_assoc, Rinv_l by lra. lra. }
    assert (Hy : 0 < IZR dim / 2) by (assert (1 <= IZR dim) by (apply IZR_le; lia); lra).
    destruct (Rpow_unit _ _ Hb Hy) as [P1 P2]. split; [apply Rmult_lt_0_compat; lra|]. nra.
  Qed.
  Theorem coarse_graining_zero_edge (dim : Z) l : (1 <= dim)%Z -> 0 < l -> cg_factor RO dim l 0 = 1.
  Proof.
    intros Hd Hl. unfold cg_factor. cbv zeta. simpl. rewrite !Rpow_2.
    replace (l * l / (l * l + 0 * 0 / 4)) with 1 by (field; lra).
    assert (Hy : 0 < IZR dim / 2) by (assert (1 <= IZR dim) by (apply IZR_le; lia); lra).
    unfold Rpow. destruct (Req_EM_T (IZR dim / 2) (IZR (Int_part (IZR dim / 2)))).
    - apply powerRZ_1 || (destruct (Int_part (IZR dim / 2)); simpl; try rewrite pow1; try rewrite Rinv_1; reflexivity).
    - unfold Rpower. rewrite ln_1, Rmult_0_r. apply exp_0.
  Qed.

  (* ---------- exact scale equivariance of the generator *)
  Definition scale_mat (c : R) (M : list (list R)) : list (list R) := map (map (Rmult c)) M.

  Lemma scale_mat_shape0 c M : shape0 (scale_mat c M) = shape0 M.
  Proof. unfold shape0, scale_mat. apply map_length. Qed.
  Lemma scale_mat_shape1 c M : shape1 (scale_mat c M) = shape1 M.
  Proof. unfold shape1, scale_mat. destruct M as [|r M]; simpl; [reflexivity|apply map_length]. Qed.
  Lemma scale_mat_get c M i j : aget2 0 (scale_mat c M) i j = c * aget2 0 M i j.
  Proof.
    unfold aget2, arow, scale_mat.
    assert (E : nth i (map (map (Rmult c)) M) [] = map (Rmult c) (nth i M [])).
    { change (@nil R) with (map (Rmult c) []) at 1. apply map_nth. }
    rewrite E. apply (aget_map0 (Rmult c)). ring.
  Qed.

  Lemma phase_scaled L ks pos j i : L <> 0 ->
    phase_of RO (scale_mat (/ L) ks) (scale_mat L pos) j i = phase_of RO ks pos j i.
  Proof.
    intros HL. unfold phase_of. rewrite scale_mat_shape0. simpl.
    change (for_ 0 (shape0 pos) (fun d ph => ph + aget2 0 (scale_mat (/ L) ks) d j * aget2 0 (scale_mat L pos) d i) 0)
      with (rsum (shape0 pos) (fun d => aget2 0 (scale_mat (/ L) ks) d j * aget2 0 (scale_mat L pos) d i)).
    change (for_ 0 (shape0 pos) (fun d ph => ph + aget2 0 ks d j * aget2 0 pos d i) 0)
      with (rsum (shape0 pos) (fun d => aget2 0 ks d j * aget2 0 pos d i)).
    apply rsum_ext. intros d _. rewrite !scale_mat_get. field. exact HL.
  Qed.

  (* wave vectors k / L evaluated at positions L x: the very same field values, for every amplitude, nugget draw, L <> 0 *)
  Theorem randmeth_scale_equivariant L var (N : Z) nugget ks z1 z2 pos noise : L <> 0 ->
    randmeth_call RO var N nugget (scale_mat (/ L) ks) z1 z2 (scale_mat L pos) noise
    = randmeth_call RO var N nugget ks z1 z2 pos noise.
  Proof.
    intros HL. unfold randmeth_call. cbv zeta.
    assert (E : summate RO (scale_mat (/ L) ks) z1 z2 (scale_mat L pos) = summate RO ks z1 z2 pos).
    { rewrite !summate_refines. unfold summate_spec. rewrite scale_mat_shape1.
      apply map_ext. intros i. unfold summate_point. rewrite scale_mat_shape1.
      apply for_ext. intros j acc _. now rewrite phase_scaled. }
    now rewrite E.
  Qed.

  (* ... and if the wave vectors follow the spectral measure of rho, the scaled ones follow that of rho(. / L) *)
  Theorem spectral_scaling {Om} (E : (Om -> R) -> R) N dim (KS : Om -> list (list R)) rho L : L <> 0 ->
    H3_spectral E N dim KS rho ->
    H3_spectral E N dim (fun w => scale_mat (/ L) (KS w)) (fun h => rho (map (Rmult (/ L)) h)).
  Proof.
    intros HL H3 j h Hj Hh.
    rewrite <- (H3 j (map (Rmult (/ L)) h) Hj) by (now rewrite map_length).
    f_equal. apply FunctionalExtensionality.functional_extensionality. intros w. f_equal.
    unfold kdot. apply rsum_ext. intros d _. rewrite scale_mat_get.
    rewrite (aget_map0 (Rmult (/ L))) by ring. ring.
  Qed.

  (* the analytic radial distributions scale with the length scale: cdf_{L l}(r / L) = cdf_l(r), ppf_{L l}(u) = ppf_l(u) / L *)
  Theorem gau2_scaling L l r u : L <> 0 -> l <> 0 ->
    gau2_cdf RO (L * l) (r / L) = gau2_cdf RO l r /\ gau2_ppf RO (L * l) u = gau2_ppf RO l u / L.
  Proof.
    intros HL Hl. split.
    - rewrite !gau2_cdf_eq. f_equal. f_equal. f_equal. field. exact HL.
    - rewrite !gau2_ppf_eq. field. split; assumption.
  Qed.
  Theorem exp1_scaling L l r u : L <> 0 -> l <> 0 ->
    exp1_cdf RO (L * l) (r / L) = exp1_cdf RO l r /\ exp1_ppf RO (L * l) u = exp1_ppf RO l u / L.
  Proof.
    intros HL Hl. split.
    - rewrite !exp1_cdf_eq. f_equal. f_equal. f_equal. field. exact HL.
    - rewrite !exp1_ppf_eq. field. split; assumption.
  Qed.
  Theorem exp2_scaling L l r u : L <> 0 -> l <> 0 ->
    exp2_cdf RO (L * l) (r / L) = exp2_cdf RO l r /\ exp2_ppf RO (L * l) u = exp2_ppf RO l u / L.
  Proof.
    intros HL Hl. split.
    - rewrite !exp2_cdf_eq. f_equal. f_equal. f_equal. f_equal. field. exact HL.
    - rewrite !exp2_ppf_eq. field. split; assumption.
  Qed.
End UpProofs.

(* variance of an upscaled randomization-method field: with c = sqrt(scaled_var / sill) the pointwise variance is scaled_var *)
Section UpProb.
  Variable Om : Type.
  Variable E : (Om -> R) -> R.
  Variable ora : nat -> list R -> R.
  Variables N P : nat.
  Variable KS : Om -> list (list R).
  Variables Z1 Z2 W : Om -> list R.
  Hypothesis H0 : H0_normalised E.
  Hypothesis H1 : H1_linear E.
  Hypothesis H2 : H2_amplitudes E N KS Z1 Z2.
  Hypothesis H4 : H4_nugget E N P KS Z1 Z2 W.
  Hypothesis HN : modes_shape N KS.

  Lemma E_scaled_product (c c' : R) (f g : Om -> R) :
    E (fun w => (f w * c) * (g w * c')) = c * c' * E (fun w => f w * g w).
  Proof.
    rewrite <- (E_scal Om E H1 (c * c') (fun w => f w * g w)).
    apply (E_ext Om E). intros w. ring.
  Qed.

  Theorem randmeth_upscaled_variance pos rho var nugget sv i :
    shape1 pos = P -> H3_spectral E N (shape0 pos) KS rho ->
    0 <= var -> 0 <= nugget -> 0 < var + nugget -> (1 <= N)%nat -> 0 <= sv -> (i < P)%nat ->
    E (fun w => (rm_field ora var N nugget KS Z1 Z2 W pos i w * upscale_factor (Rops ora) sv var nugget)
              * (rm_field ora var N nugget KS Z1 Z2 W pos i w * upscale_factor (Rops ora) sv var nugget)) = sv.
  Proof.
    intros Hp H3 Hv Hn Hs HN1 Hsv Hi. rewrite E_scaled_product.
    rewrite (randmeth_pointwise_variance Om E ora N P KS Z1 Z2 W H0 H1 H2 H4 HN pos Hp rho H3 var nugget Hv Hn HN1 i Hi).
    rewrite (upscale_factor_sq ora sv var nugget Hsv Hs). field. lra.
  Qed.
End UpProb.

(* ---------- exact VALUE-scale equivariance of the generator formulas: a model with variance s var and nugget s nugget gives
   sqrt(s) times the field of the model with (var, nugget) for the same draws — whatever the magnitude of s > 0
   (no absolute threshold on the nugget or the variance) *)
Section ValueScale.
  Variable ora : nat -> list R -> R.
  Notation RO := (Rops ora).

  Lemma get_nugget_entry nugget noise n i :
    aget 0 (get_nugget RO nugget noise n) i = if Rltb 0 nugget then sqrt nugget * aget 0 noise i else 0.
  Proof.
    unfold get_nugget. change (nltb RO (n0 RO) nugget) with (Rltb 0 nugget).
    destruct (Rltb 0 nugget).
    - change (nmul RO) with Rmult. change (nsqrt RO) with sqrt.
      apply (aget_map0 (fun x => sqrt nugget * x)). ring.
    - apply aget_repeat.
  Qed.

  Lemma Rltb_scale s x : 0 < s -> Rltb 0 (s * x) = Rltb 0 x.
  Proof.
    intros Hs. destruct (Rltb 0 x) eqn:E.
    - apply Rltb_true in E. apply Rltb_true. now apply Rmult_lt_0_compat.
    - apply Rltb_false in E. apply Rltb_false. nra.
  Qed.

  Theorem randmeth_value_scale s var (N : Z) nugget ks z1 z2 pos noise : 0 < s ->
    randmeth_call RO (s * var) N (s * nugget) ks z1 z2 pos noise
    = map (Rmult (sqrt s)) (randmeth_call RO var N nugget ks z1 z2 pos noise).
  Proof.
    intros Hs. unfold randmeth_call. cbv zeta. rewrite map_map. apply map_ext. intros i.
    rewrite !get_nugget_entry, Rltb_scale by exact Hs.
    unfold randmeth_amp. change (nadd RO) with Rplus. change (nmul RO) with Rmult.
    change (nsqrt RO) with sqrt. change (ndiv RO) with Rdiv. change (n0 RO) with 0.
    replace (s * var / nofZ RO N) with (s * (var / nofZ RO N)) by (unfold Rdiv; ring).
    rewrite (sqrt_mult_alt s) by lra.
    destruct (Rltb 0 nugget).
    - rewrite (sqrt_mult_alt s) by lra. ring.
    - ring.
  Qed.

  (* Fourier: the weights sqrt(S(k_j) prod(dk)) of the model with spectrum s S are sqrt(s) times those of the model with spectrum S *)
  Theorem fourier_weights_value_scale s spec dk : 0 < s ->
    fourier_spectrum_factor RO (map (Rmult s) spec) dk = map (Rmult (sqrt s)) (fourier_spectrum_factor RO spec dk).
  Proof.
    intros Hs. unfold fourier_spectrum_factor. rewrite !map_map. apply map_ext. intros a.
    change (nsqrt RO) with sqrt. change (nmul RO) with Rmult.
    rewrite Rmult_assoc. apply sqrt_mult_alt. lra.
  Qed.
End ValueScale.
