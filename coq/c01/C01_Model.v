(* C01_Model.v — Gallina model of the generators' formulas (gstools/field/generator.py) on top of the
   summation kernels translated from summator.pyx (gen/Summator_gen.v), of the sampling maps of
   random/rng.py (sample_sphere, cov_sample = rad * sphere_coord) and of the SRF pipeline
   (field/srf.py + field/base.py: positions are isometrized, the mean is added).
   Written once, generic in the number type: proved about at R (C01_Prob.v, C01_Sampling.v), executed at
   OCaml floats through the extraction and compared with the Python implementation on every check.
   The random draws themselves (numpy RandomState, emcee, scipy rv_continuous) are INPUTS of these functions. *)
From Coq Require Import List Arith ZArith Bool.
From GS Require Import Num Loops Summator_gen C12_Model.
Import ListNotations.

Section Gen.
  Context {T : Type} (O : NumOps T).
  Notation zero := (n0 O).

  (* np.sqrt(self.model.var / self._mode_no)          (RandMeth.__call__, IncomprRandMeth.__call__) *)
  Definition randmeth_amp (var : T) (mode_no : Z) : T := nsqrt O (ndiv O var (nofZ O mode_no)).

  (* get_nugget(shape):  np.sqrt(nugget) * rng.random.normal(size=shape)  if nugget > 0  else 0.0
     [noise] are the standard normal draws (only consumed when nugget > 0) *)
  Definition get_nugget (nugget : T) (noise : list T) (n : nat) : list T :=
    if nltb O zero nugget then map (fun w => nmul O (nsqrt O nugget) w) noise else repeat zero n.

  (* RandMeth.__call__:  np.sqrt(var / mode_no) * summate(cov_sample, z_1, z_2, pos) + nugget *)
  Definition randmeth_call (var : T) (mode_no : Z) (nugget : T) (ks : list (list T)) (z1 z2 : list T)
      (pos : list (list T)) (noise : list T) : list T :=
    let sm := summate O ks z1 z2 pos in
    let ng := get_nugget nugget noise (length sm) in
    let amp := randmeth_amp var mode_no in
    map (fun i => nadd O (nmul O amp (aget zero sm i)) (aget zero ng i)) (seq 0 (length sm)).

  (* Fourier.reset_seed:  np.sqrt(model.spectrum(k_norm) * np.prod(delta_k));  [spec] = model.spectrum(k_norm) *)
  Definition prod_list (l : list T) : T := fold_left (nmul O) l (n1 O).
  Definition fourier_spectrum_factor (spec dk : list T) : list T :=
    map (fun s => nsqrt O (nmul O s (prod_list dk))) spec.
  (* k_norm = np.linalg.norm(self._modes, axis=0) *)
  Definition fourier_k_norm (modes : list (list T)) : list T := col_norms O modes.

  (* Fourier.__call__:  summate_fourier(spectrum_factor, modes, z_1, z_2, pos) + nugget *)
  Definition fourier_call (nugget : T) (sf : list T) (modes : list (list T)) (z1 z2 : list T)
      (pos : list (list T)) (noise : list T) : list T :=
    let sm := summate_fourier O sf modes z1 z2 pos in
    let ng := get_nugget nugget noise (length sm) in
    map (fun i => nadd O (aget zero sm i) (aget zero ng i)) (seq 0 (length sm)).

  (* IncomprRandMeth.__call__:
       mean_u * e1 + mean_u * np.sqrt(var / mode_no) * summate_incompr(...) + nugget      (shape (dim, n)) *)
  Definition get_nugget2 (nugget : T) (noise : list (list T)) (d n : nat) : list (list T) :=
    if nltb O zero nugget then map (map (fun w => nmul O (nsqrt O nugget) w)) noise
    else repeat (repeat zero n) d.
  Definition incompr_call (var : T) (mode_no : Z) (nugget mean_u : T) (ks : list (list T)) (z1 z2 : list T)
      (pos : list (list T)) (noise : list (list T)) : list (list T) :=
    let sm := summate_incompr O ks z1 z2 pos in
    let d := shape0 sm in
    let n := shape1 sm in
    let ng := get_nugget2 nugget noise d n in
    let fac := nmul O mean_u (randmeth_amp var mode_no) in
    map (fun c => map (fun i =>
           nadd O (nadd O (nmul O mean_u (if Nat.eqb c 0 then n1 O else zero))
                          (nmul O fac (aget2 zero sm c i)))
                  (aget2 zero ng c i)) (seq 0 n)) (seq 0 d).

  (* SRF.__call__ (unstructured, no upscaling, identity normalizer, no trend):
       field = generator(model.isometrize(pos)) + mean *)
  Definition srf_randmeth (dim : nat) (angles anis : list T) (mean var : T) (mode_no : Z) (nugget : T)
      (ks : list (list T)) (z1 z2 : list T) (pos : list (list T)) (noise : list T) : list T :=
    map (fun v => nadd O v mean)
        (randmeth_call var mode_no nugget ks z1 z2 (isometrize O dim angles anis pos) noise).
  Definition srf_fourier (dim : nat) (angles anis : list T) (mean nugget : T) (sf : list T)
      (modes : list (list T)) (z1 z2 : list T) (pos : list (list T)) (noise : list T) : list T :=
    map (fun v => nadd O v mean)
        (fourier_call nugget sf modes z1 z2 (isometrize O dim angles anis pos) noise).

  (* ---- RNG.sample_sphere for dim 1, 2, 3, from the uniform draws
       dim 1: choice([-1, 1]);  dim 2: ang1 ~ U(0, 2 pi): (cos, sin);
       dim 3: ang1 ~ U(0, 2 pi), ang2 ~ U(-1, 1): (sqrt(1 - ang2^2) cos ang1, sqrt(1 - ang2^2) sin ang1, ang2) *)
  Definition sphere2 (ang1 : list T) : list (list T) :=
    [map (ncos O) ang1; map (nsin O) ang1].
  Definition sphere3_point (a1 a2 : T) : T * T * T :=
    let s := nsqrt O (nsub O (n1 O) (npow O a2 (nofZ O 2))) in
    (nmul O s (ncos O a1), nmul O s (nsin O a1), a2).
  Definition sphere3 (ang1 ang2 : list T) : list (list T) :=
    let pts := map (fun p => sphere3_point (fst p) (snd p)) (combine ang1 ang2) in
    [map (fun p => fst (fst p)) pts; map (fun p => snd (fst p)) pts; map snd pts].
  (* self._cov_sample = rad * sphere_coord   (broadcast of the radii over the rows) *)
  Definition cov_sample (rad : list T) (sphere : list (list T)) : list (list T) :=
    map (fun row => map (fun p => nmul O (fst p) (snd p)) (combine rad row)) sphere.

  (* ---- analytic radial ppf / cdf pairs used by the inversion path (covmodel/models.py) *)
  (* Gaussian dim 1:  ppf u = 2 / l * erfinv(u)   (erfinv is a scipy oracle) *)
  Definition gau1_ppf (l u : T) : T := nmul O (ndiv O (nofZ O 2) l) (noracle O ORA_ERFINV [u]).
  (* Gaussian dim 2:  cdf r = 1 - exp(-(r l / 2)^2);  ppf u = 2 / l * sqrt(-ln(1 - u)) *)
  Definition gau2_cdf (l r : T) : T :=
    nsub O (n1 O) (nexp O (nneg O (npow O (ndiv O (nmul O r l) (nofZ O 2)) (nofZ O 2)))).
  Definition gau2_ppf (l u : T) : T :=
    nmul O (ndiv O (nofZ O 2) l) (nsqrt O (nneg O (nln O (nsub O (n1 O) u)))).
  (* Exponential dim 1:  cdf r = arctan(r l) * 2 / pi;  ppf u = tan(pi / 2 * u) / l  (tan as sin / cos) *)
  Definition exp1_cdf (l r : T) : T := ndiv O (nmul O (natan O (nmul O r l)) (nofZ O 2)) (npi O).
  Definition exp1_ppf (l u : T) : T :=
    let a := nmul O (ndiv O (npi O) (nofZ O 2)) u in ndiv O (ndiv O (nsin O a) (ncos O a)) l.
  (* Exponential dim 2:  cdf r = 1 - 1 / sqrt(1 + (r l)^2);  ppf u = sqrt(1 / (1 - u)^2 - 1) / l  (1 - u not close to 0) *)
  Definition exp2_cdf (l r : T) : T :=
    nsub O (n1 O) (ndiv O (n1 O) (nsqrt O (nadd O (n1 O) (npow O (nmul O r l) (nofZ O 2))))).
  Definition exp2_ppf (l u : T) : T :=
    ndiv O (nsqrt O (nsub O (ndiv O (n1 O) (npow O (nsub O (n1 O) u) (nofZ O 2))) (n1 O))) l.
End Gen.
