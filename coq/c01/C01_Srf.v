(* C01_Srf.v — the SRF pipeline (field/srf.py + field/base.py): the generator is evaluated at ISOMETRIZED
   positions (model.isometrize: derotate, divide by the anisotropy ratios) and the mean is added.
   Consequence of the generator theorem: the covariance of the field between two locations x, y is
   var * rho(M (x - y)) with M = matrix_isometrize(dim, angles, anis) — the model covariance of the separation
   under anisotropy and rotation (that M is diag(1, 1/anis) * R^T with R a rotation is C12). *)
From Coq Require Import Reals List Lra Lia Arith ZArith Bool.
From GS Require Import Num Loops RInst Summator_gen C15_KernelSpec C15_SummatorProofs C12_Model C01_Model C01_Prob.
Import ListNotations.
Open Scope R_scope.

Section Srf.
  Variable ora : nat -> list R -> R.
  Notation RO := (Rops ora).

  (* matrix * vector, summed in index order like matmul *)
  Definition matvec (A : list (list R)) (v : list R) : list R :=
    map (fun r => rsum (length v) (fun k => aget2 0 A r k * aget 0 v k)) (seq 0 (shape0 A)).

  Lemma mkmat_shape0 {A} r c (f : nat -> nat -> A) : shape0 (mkmat r c f) = r.
  Proof. unfold shape0, mkmat. now rewrite map_length, seq_length. Qed.
  Lemma mkmat_shape1 {A} r c (f : nat -> nat -> A) : (0 < r)%nat -> shape1 (mkmat r c f) = c.
  Proof.
    intros Hr. unfold shape1, mkmat. destruct r as [|r]; [lia|]. simpl. now rewrite map_length, seq_length.
  Qed.
  Lemma mkmat_get (f : nat -> nat -> R) r c i j : (i < r)%nat -> (j < c)%nat -> aget2 0 (mkmat r c f) i j = f i j.
  Proof.
    intros Hi Hj. unfold aget2, arow, mkmat.
    rewrite nth_indep with (d' := map (fun j0 => f 0%nat j0) (seq 0 c)) by (now rewrite map_length, seq_length).
    rewrite (map_nth (fun i0 => map (fun j0 => f i0 j0) (seq 0 c))), seq_nth by exact Hi. simpl.
    apply aget_map_seq. exact Hj.
  Qed.

  Lemma matmul_shape0 A B : shape0 (matmul RO A B) = shape0 A.
  Proof. unfold matmul. apply mkmat_shape0. Qed.
  Lemma matmul_shape1 A B : (0 < shape0 A)%nat -> shape1 (matmul RO A B) = shape1 B.
  Proof. intros H. unfold matmul. now apply mkmat_shape1. Qed.
  Lemma matmul_get A B i j : (i < shape0 A)%nat -> (j < shape1 B)%nat ->
    aget2 0 (matmul RO A B) i j = rsum (shape0 B) (fun k => aget2 0 A i k * aget2 0 B k j).
  Proof. intros Hi Hj. unfold matmul. rewrite mkmat_get by assumption. reflexivity. Qed.

  (* the lag between two columns of A * pos is A * (lag between the columns of pos) *)
  Lemma lag_matmul A pos i i' : (i < shape1 pos)%nat -> (i' < shape1 pos)%nat ->
    lag (matmul RO A pos) i i' = matvec A (lag pos i i').
  Proof.
    intros Hi Hi'. unfold lag at 1, matvec. rewrite matmul_shape0.
    apply map_ext_in. intros r Hr. apply in_seq in Hr.
    rewrite !matmul_get by (try assumption; lia).
    rewrite <- rsum_minus. unfold lag. rewrite map_length, seq_length.
    apply rsum_ext. intros k Hk. rewrite aget_map_seq by exact Hk. ring.
  Qed.

  Lemma isotropify_shape0 dim anis : shape0 (matrix_isotropify RO dim anis) = S (length (set_anis RO dim anis)).
  Proof. unfold matrix_isotropify, diag. rewrite mkmat_shape0. simpl. now rewrite map_length. Qed.
  Lemma isometrize_matrix_shape0 dim angles anis : (0 < shape0 (matrix_isometrize RO dim angles anis))%nat.
  Proof. unfold matrix_isometrize. rewrite matmul_shape0, isotropify_shape0. lia. Qed.
  Lemma isometrize_shape1 dim angles anis pos : shape1 (isometrize RO dim angles anis pos) = shape1 pos.
  Proof. unfold isometrize. apply matmul_shape1, isometrize_matrix_shape0. Qed.

  Variable Om : Type.
  Variable E : (Om -> R) -> R.
  Variables N P : nat.
  Variable KS : Om -> list (list R).
  Variables Z1 Z2 W : Om -> list R.
  Hypothesis H0 : H0_normalised E.
  Hypothesis H1 : H1_linear E.
  Hypothesis H2 : H2_amplitudes E N KS Z1 Z2.
  Hypothesis H4 : H4_nugget E N P KS Z1 Z2 W.
  Hypothesis HN : modes_shape N KS.

  (* what SRF.__call__ returns at point i for outcome w *)
  Definition srf_field (dim : nat) (angles anis : list R) (mean var nugget : R) (pos : list (list R)) (i : nat) (w : Om) : R :=
    aget 0 (srf_randmeth RO dim angles anis mean var (Z.of_nat N) nugget (KS w) (Z1 w) (Z2 w) pos (W w)) i.

  Lemma srf_field_eq dim angles anis mean var nugget pos i w : shape1 pos = P -> (i < P)%nat ->
    srf_field dim angles anis mean var nugget pos i w
    = rm_field ora var N nugget KS Z1 Z2 W (isometrize RO dim angles anis pos) i w + mean.
  Proof.
    intros Hp Hi. unfold srf_field, srf_randmeth, rm_field.
    set (l := randmeth_call RO var (Z.of_nat N) nugget (KS w) (Z1 w) (Z2 w) (isometrize RO dim angles anis pos) (W w)).
    assert (Hl : length l = P).
    { unfold l, randmeth_call. cbv zeta. rewrite map_length, seq_length.
      rewrite summate_refines. unfold summate_spec. rewrite map_length, seq_length.
      rewrite isometrize_shape1. exact Hp. }
    unfold aget. change (nadd RO) with Rplus.
    rewrite (nth_indep _ 0 (0 + mean)) by (rewrite map_length, Hl; exact Hi).
    now rewrite (map_nth (fun v => v + mean)).
  Qed.

  Theorem srf_randmeth_mean dim angles anis mean var nugget pos i : shape1 pos = P -> (i < P)%nat ->
    E (srf_field dim angles anis mean var nugget pos i) = mean.
  Proof.
    intros Hp Hi.
    rewrite (E_ext Om E _ (fun w => 1 * rm_field ora var N nugget KS Z1 Z2 W (isometrize RO dim angles anis pos) i w + mean * 1)).
    2:{ intros w. rewrite srf_field_eq by assumption. ring. }
    rewrite H1.
    rewrite (randmeth_mean_zero Om E ora N P KS Z1 Z2 W H0 H1 H2 H4 HN (isometrize RO dim angles anis pos))
      by (try exact Hi; rewrite isometrize_shape1; exact Hp).
    rewrite H0. ring.
  Qed.

  (* covariance of the SRF between two locations = var * rho(M (x_i - x_i')) (+ nugget on the diagonal),
     M the isometrization matrix; rho is the (isotropic) correlation whose spectral measure the wave vectors follow *)
  Theorem srf_randmeth_covariance dim angles anis mean var nugget pos (rho : list R -> R) :
    shape1 pos = P ->
    H3_spectral E N (shape0 (matrix_isometrize RO dim angles anis)) KS rho ->
    0 <= var -> 0 <= nugget -> (1 <= N)%nat ->
    forall i i', (i < P)%nat -> (i' < P)%nat ->
      E (fun w => (srf_field dim angles anis mean var nugget pos i w - mean)
                * (srf_field dim angles anis mean var nugget pos i' w - mean))
      = var * rho (matvec (matrix_isometrize RO dim angles anis) (lag pos i i'))
        + (if Nat.eqb i i' then nugget else 0).
  Proof.
    intros Hp H3 Hv Hn HN1 i i' Hi Hi'.
    rewrite (E_ext Om E _ (fun w =>
        rm_field ora var N nugget KS Z1 Z2 W (isometrize RO dim angles anis pos) i w
      * rm_field ora var N nugget KS Z1 Z2 W (isometrize RO dim angles anis pos) i' w)).
    2:{ intros w. rewrite !srf_field_eq by assumption. ring. }
    assert (Hs : shape1 (isometrize RO dim angles anis pos) = P) by (rewrite isometrize_shape1; exact Hp).
    assert (Hd : shape0 (isometrize RO dim angles anis pos) = shape0 (matrix_isometrize RO dim angles anis))
      by (unfold isometrize; apply matmul_shape0).
    rewrite (randmeth_covariance Om E ora N P KS Z1 Z2 W H0 H1 H2 H4 HN (isometrize RO dim angles anis pos) Hs rho)
      by (try assumption; rewrite Hd; exact H3).
    unfold isometrize. rewrite lag_matmul by (rewrite Hp; assumption). reflexivity.
  Qed.
End Srf.
