(* C01_Prob.v — second-order statistics of the generated fields, at R.
   The random inputs (amplitudes, wave vectors, nugget noise) are functions on an ABSTRACT sample space Om;
   the expectation is an abstract functional E : (Om -> R) -> R.  Everything that is assumed about them is
   an explicit, named hypothesis (H0 .. H4 below, never an axiom).  What is PROVED is the algebra between
   these hypotheses and the statement of C01 for the code's formulas: the field is the value returned by
   [randmeth_call] / [fourier_call] (C01_Model.v) whose kernel part is the translated summator.pyx
   (replaced by its defining sums through the C15 refinement theorems). *)
From Coq Require Import Reals List Lra Lia Arith ZArith Bool FunctionalExtensionality.
From GS Require Import Num Loops RInst Summator_gen C15_KernelSpec C15_SummatorProofs C12_Model C01_Model.
Import ListNotations.
Open Scope R_scope.

(* ---------- finite sums, written as the left folds the kernels use *)
Definition rsum (n : nat) (f : nat -> R) : R := for_ 0 n (fun j acc => acc + f j) 0.

Lemma for_S {A} n (body : nat -> A -> A) s : for_ 0 (S n) body s = body n (for_ 0 n body s).
Proof. unfold for_. rewrite !Nat.sub_0_r. rewrite seq_S, fold_left_app. reflexivity. Qed.
Lemma rsum_S n f : rsum (S n) f = rsum n f + f n.
Proof. unfold rsum. now rewrite for_S. Qed.
Lemma rsum_ext n f g : (forall j, (j < n)%nat -> f j = g j) -> rsum n f = rsum n g.
Proof.
  induction n as [|n IH]; intros H; [reflexivity|]. rewrite !rsum_S, IH, H by (intros; try apply H; lia). reflexivity.
Qed.
Lemma rsum_scal c n f : rsum n (fun j => c * f j) = c * rsum n f.
Proof. induction n as [|n IH]; [unfold rsum, for_; simpl; ring|]. rewrite !rsum_S, IH. ring. Qed.
Lemma rsum_plus n f g : rsum n (fun j => f j + g j) = rsum n f + rsum n g.
Proof. induction n as [|n IH]; [unfold rsum, for_; simpl; ring|]. rewrite !rsum_S, IH. ring. Qed.
Lemma rsum_minus n f g : rsum n (fun j => f j - g j) = rsum n f - rsum n g.
Proof. induction n as [|n IH]; [unfold rsum, for_; simpl; ring|]. rewrite !rsum_S, IH. ring. Qed.
Lemma rsum_const n c : rsum n (fun _ => c) = INR n * c.
Proof. induction n as [|n IH]; [unfold rsum, for_; simpl; ring|]. rewrite rsum_S, IH, S_INR. ring. Qed.
Lemma rsum_zero n f : (forall j, (j < n)%nat -> f j = 0) -> rsum n f = 0.
Proof. intros H. rewrite (rsum_ext n f (fun _ => 0) H), rsum_const. ring. Qed.
Lemma rsum_mul n m f g : rsum n f * rsum m g = rsum n (fun j => rsum m (fun l => f j * g l)).
Proof.
  induction n as [|n IH]; [unfold rsum at 1 3, for_; simpl; ring|].
  rewrite !rsum_S, Rmult_plus_distr_r, IH, rsum_scal. reflexivity.
Qed.
Lemma rsum_delta n j c : (j < n)%nat ->
  rsum n (fun l => (if Nat.eqb j l then 1 else 0) * c l) = c j.
Proof.
  induction n as [|n IH]; intros H; [lia|]. rewrite rsum_S.
  destruct (Nat.eq_dec j n) as [->|Hne].
  - rewrite Nat.eqb_refl. rewrite rsum_zero; [ring|].
    intros l Hl. destruct (Nat.eqb_spec n l); [lia|ring].
  - rewrite IH by lia. destruct (Nat.eqb_spec j n); [lia|ring].
Qed.

Lemma aget_map0 (f : R -> R) l i : f 0 = 0 -> aget 0 (map f l) i = f (aget 0 l i).
Proof. intros H0. unfold aget. revert i. induction l as [|x l IH]; intros [|i]; simpl; auto. Qed.

Lemma Rabs_cos_le1 x : Rabs (cos x) <= 1.
Proof. apply Rabs_le. pose proof (COS_bound x). lra. Qed.
Lemma Rabs_sin_le1 x : Rabs (sin x) <= 1.
Proof. apply Rabs_le. pose proof (SIN_bound x). lra. Qed.
Lemma Rabs_mul_le1 x y : Rabs x <= 1 -> Rabs y <= 1 -> Rabs (x * y) <= 1.
Proof.
  intros Hx Hy. rewrite Rabs_mult. pose proof (Rabs_pos x). pose proof (Rabs_pos y).
  replace 1 with (1 * 1) by ring. apply Rmult_le_compat; auto.
Qed.

(* ---------- the hypotheses on the random inputs, as named propositions *)
Definition bounded1 {A} (G : A -> R) : Prop := forall k, Rabs (G k) <= 1.

(* H0: E is normalised.  H1: E is linear. *)
Definition H0_normalised {Om} (E : (Om -> R) -> R) : Prop := E (fun _ => 1) = 1.
Definition H1_linear {Om} (E : (Om -> R) -> R) : Prop :=
  forall a b f g, E (fun w => a * f w + b * g w) = a * E f + b * E g.

(* amplitude of mode j: a = true is z_1[j], a = false is z_2[j] *)
Definition amp_of {Om} (Z1 Z2 : Om -> list R) (a : bool) (j : nat) (w : Om) : R :=
  aget 0 ((if a then Z1 else Z2) w) j.

(* H2: the 2N amplitudes are uncorrelated, have unit variance and zero mean, also conditionally on the wave
   vectors (i.e. against every bounded function G of the wave vectors): independent standard normal draws *)
Definition H2_amplitudes {Om} (E : (Om -> R) -> R) (N : nat) (KS : Om -> list (list R)) (Z1 Z2 : Om -> list R) : Prop :=
  (forall a b i j (G : list (list R) -> R), (i < N)%nat -> (j < N)%nat -> bounded1 G ->
     E (fun w => amp_of Z1 Z2 a i w * amp_of Z1 Z2 b j w * G (KS w))
     = (if Bool.eqb a b && Nat.eqb i j then 1 else 0) * E (fun w => G (KS w)))
  /\ (forall a i (G : list (list R) -> R), (i < N)%nat -> bounded1 G ->
     E (fun w => amp_of Z1 Z2 a i w * G (KS w)) = 0).

(* <k_j , h>, summed in index order like the kernel's phase *)
Definition kdot (dim : nat) (ks : list (list R)) (j : nat) (h : list R) : R :=
  rsum dim (fun d => aget2 0 ks d j * aget 0 h d).

(* H3: every wave vector is distributed with the normalised spectral density of the correlation function rho:
   E cos<k_j, h> = rho(h)   (Bochner) *)
Definition H3_spectral {Om} (E : (Om -> R) -> R) (N dim : nat) (KS : Om -> list (list R)) (rho : list R -> R) : Prop :=
  forall j h, (j < N)%nat -> length h = dim -> E (fun w => cos (kdot dim (KS w) j h)) = rho h.

(* H4: the nugget noise has zero mean, unit variance, is uncorrelated between points and with the modes *)
Definition H4_nugget {Om} (E : (Om -> R) -> R) (N P : nat) (KS : Om -> list (list R)) (Z1 Z2 W : Om -> list R) : Prop :=
  (forall i i', (i < P)%nat -> (i' < P)%nat ->
     E (fun w => aget 0 (W w) i * aget 0 (W w) i') = if Nat.eqb i i' then 1 else 0)
  /\ (forall i a j (G : list (list R) -> R), (i < P)%nat -> (j < N)%nat -> bounded1 G ->
     E (fun w => aget 0 (W w) i * (amp_of Z1 Z2 a j w * G (KS w))) = 0)
  /\ (forall i, (i < P)%nat -> E (fun w => aget 0 (W w) i) = 0).

(* the number of modes is the same for every outcome (reset_seed draws mode_no samples) *)
Definition modes_shape {Om} (N : nat) (KS : Om -> list (list R)) : Prop := forall w, shape1 (KS w) = N.

(* separation of two evaluation points (columns i, i' of the (dim, n) position array) *)
Definition lag (pos : list (list R)) (i i' : nat) : list R :=
  map (fun d => aget2 0 pos d i - aget2 0 pos d i') (seq 0 (shape0 pos)).

(* the value of the generated field at point i, for outcome w: what RandMeth.__call__ returns *)
Definition rm_field {Om} (ora : nat -> list R -> R) (var : R) (N : nat) (nugget : R)
    (KS : Om -> list (list R)) (Z1 Z2 W : Om -> list R) (pos : list (list R)) (i : nat) (w : Om) : R :=
  aget 0 (randmeth_call (Rops ora) var (Z.of_nat N) nugget (KS w) (Z1 w) (Z2 w) pos (W w)) i.
(* ... and what Fourier.__call__ returns (modes and spectrum factor are deterministic) *)
Definition fo_field {Om} (ora : nat -> list R -> R) (nugget : R) (sf : list R) (modes : list (list R))
    (Z1 Z2 W : Om -> list R) (pos : list (list R)) (i : nat) (w : Om) : R :=
  aget 0 (fourier_call (Rops ora) nugget sf modes (Z1 w) (Z2 w) pos (W w)) i.

Section Prob.
  Variable Om : Type.
  Variable E : (Om -> R) -> R.
  Variable ora : nat -> list R -> R.
  Variables N P : nat.
  Variable KS : Om -> list (list R).
  Variables Z1 Z2 W : Om -> list R.
  Hypothesis H0 : H0_normalised E.
  Hypothesis H1 : H1_linear E.
  Hypothesis H2 : H2_amplitudes E N KS Z1 Z2.
  Hypothesis H4 : H4_nugget E N P KS Z1 Z2 W.
  Hypothesis HN : modes_shape N KS.

  Notation A := (amp_of Z1 Z2).

  Lemma E_ext f g : (forall w, f w = g w) -> E f = E g.
  Proof. intros H. f_equal. apply functional_extensionality. exact H. Qed.
  Lemma E_plus f g : E (fun w => f w + g w) = E f + E g.
  Proof. rewrite (E_ext _ (fun w => 1 * f w + 1 * g w)) by (intros; ring). rewrite H1. ring. Qed.
  Lemma E_scal c f : E (fun w => c * f w) = c * E f.
  Proof. rewrite (E_ext _ (fun w => c * f w + 0 * f w)) by (intros; ring). rewrite H1. ring. Qed.
  Lemma E_const c : E (fun _ => c) = c.
  Proof. rewrite (E_ext _ (fun w => c * 1)) by (intros; ring). rewrite E_scal, H0. ring. Qed.
  Lemma E_rsum n (f : nat -> Om -> R) : E (fun w => rsum n (fun j => f j w)) = rsum n (fun j => E (f j)).
  Proof.
    induction n as [|n IH].
    - rewrite (E_ext _ (fun _ => 0)) by reflexivity. now rewrite E_const.
    - rewrite (E_ext _ (fun w => rsum n (fun j => f j w) + f n w)) by (intros; apply rsum_S).
      rewrite E_plus, IH, rsum_S. reflexivity.
  Qed.

  (* the key computation: two modes' waves, with phases that are functions of the wave vectors *)
  Lemma E_wave_wave j l (Pf Qf : list (list R) -> R) : (j < N)%nat -> (l < N)%nat ->
    E (fun w => (A true j w * cos (Pf (KS w)) + A false j w * sin (Pf (KS w)))
              * (A true l w * cos (Qf (KS w)) + A false l w * sin (Qf (KS w))))
    = (if Nat.eqb j l then 1 else 0) * E (fun w => cos (Pf (KS w) - Qf (KS w))).
  Proof.
    intros Hj Hl. destruct H2 as [H2a _].
    assert (Bcc : bounded1 (fun k => cos (Pf k) * cos (Qf k))) by (intros k; apply Rabs_mul_le1; auto using Rabs_cos_le1, Rabs_sin_le1).
    assert (Bcs : bounded1 (fun k => cos (Pf k) * sin (Qf k))) by (intros k; apply Rabs_mul_le1; auto using Rabs_cos_le1, Rabs_sin_le1).
    assert (Bsc : bounded1 (fun k => sin (Pf k) * cos (Qf k))) by (intros k; apply Rabs_mul_le1; auto using Rabs_cos_le1, Rabs_sin_le1).
    assert (Bss : bounded1 (fun k => sin (Pf k) * sin (Qf k))) by (intros k; apply Rabs_mul_le1; auto using Rabs_cos_le1, Rabs_sin_le1).
    pose proof (H2a true true j l _ Hj Hl Bcc) as T1.
    pose proof (H2a true false j l _ Hj Hl Bcs) as T2.
    pose proof (H2a false true j l _ Hj Hl Bsc) as T3.
    pose proof (H2a false false j l _ Hj Hl Bss) as T4.
    cbv beta in T1, T2, T3, T4. simpl in T1, T2, T3, T4.
    rewrite (E_ext _ (fun w =>
       (A true j w * A true l w * (cos (Pf (KS w)) * cos (Qf (KS w)))
        + A true j w * A false l w * (cos (Pf (KS w)) * sin (Qf (KS w))))
       + (A false j w * A true l w * (sin (Pf (KS w)) * cos (Qf (KS w)))
        + A false j w * A false l w * (sin (Pf (KS w)) * sin (Qf (KS w)))))) by (intros; ring).
    rewrite !E_plus, T1, T2, T3, T4.
    destruct (Nat.eqb j l).
    - rewrite (E_ext (fun w => cos (Pf (KS w) - Qf (KS w)))
                     (fun w => cos (Pf (KS w)) * cos (Qf (KS w)) + sin (Pf (KS w)) * sin (Qf (KS w))))
        by (intros; apply cos_minus).
      rewrite E_plus. ring.
    - ring.
  Qed.

  Lemma E_wave j (Pf : list (list R) -> R) : (j < N)%nat ->
    E (fun w => A true j w * cos (Pf (KS w)) + A false j w * sin (Pf (KS w))) = 0.
  Proof.
    intros Hj. destruct H2 as [_ H2b]. rewrite E_plus.
    pose proof (H2b true j (fun k => cos (Pf k)) Hj (fun k => Rabs_cos_le1 _)) as T1.
    pose proof (H2b false j (fun k => sin (Pf k)) Hj (fun k => Rabs_sin_le1 _)) as T2.
    cbv beta in T1, T2. rewrite T1, T2. ring.
  Qed.

  Lemma E_noise_wave i j (Pf : list (list R) -> R) : (i < P)%nat -> (j < N)%nat ->
    E (fun w => aget 0 (W w) i * (A true j w * cos (Pf (KS w)) + A false j w * sin (Pf (KS w)))) = 0.
  Proof.
    intros Hi Hj. destruct H4 as [_ [H4b _]].
    pose proof (H4b i true j (fun k => cos (Pf k)) Hi Hj (fun k => Rabs_cos_le1 _)) as T1.
    pose proof (H4b i false j (fun k => sin (Pf k)) Hi Hj (fun k => Rabs_sin_le1 _)) as T2.
    cbv beta in T1, T2.
    rewrite (E_ext _ (fun w => aget 0 (W w) i * (A true j w * cos (Pf (KS w)))
                             + aget 0 (W w) i * (A false j w * sin (Pf (KS w))))) by (intros; ring).
    rewrite E_plus, T1, T2. ring.
  Qed.

  (* ---------- the field value as a plain formula *)
  Variable pos : list (list R).
  Hypothesis Hpos : shape1 pos = P.
  Notation dim := (shape0 pos).
  Notation RO := (Rops ora).

  Definition phase (ks : list (list R)) (j i : nat) : R := phase_of RO ks pos j i.
  Definition modesum (i : nat) (w : Om) : R :=
    rsum N (fun j => A true j w * cos (phase (KS w) j i) + A false j w * sin (phase (KS w) j i)).
  Definition nug_term (nugget : R) (i : nat) (w : Om) : R :=
    if Rltb 0 nugget then sqrt nugget * aget 0 (W w) i else 0.

  Lemma get_nugget_at nugget noise n i :
    aget 0 (get_nugget RO nugget noise n) i = if Rltb 0 nugget then sqrt nugget * aget 0 noise i else 0.
  Proof.
    unfold get_nugget. change (nltb RO (n0 RO) nugget) with (Rltb 0 nugget).
    destruct (Rltb 0 nugget).
    - change (nmul RO) with Rmult. change (nsqrt RO) with sqrt.
      apply (aget_map0 (fun x => sqrt nugget * x)). ring.
    - apply aget_repeat.
  Qed.

  Lemma summate_at w z1 z2 i : (i < P)%nat ->
    aget 0 (summate RO (KS w) z1 z2 pos) i
    = rsum N (fun j => aget 0 z1 j * cos (phase (KS w) j i) + aget 0 z2 j * sin (phase (KS w) j i)).
  Proof.
    intros Hi. rewrite summate_refines. unfold summate_spec. rewrite Hpos.
    change (n0 RO) with 0. rewrite aget_map_seq by exact Hi.
    unfold summate_point. rewrite HN. reflexivity.
  Qed.

  Lemma summate_length w z1 z2 : length (summate RO (KS w) z1 z2 pos) = P.
  Proof. rewrite summate_refines. unfold summate_spec. now rewrite map_length, seq_length. Qed.

  Lemma rm_field_eq var nugget i w : (i < P)%nat ->
    rm_field ora var N nugget KS Z1 Z2 W pos i w
    = sqrt (var / INR N) * modesum i w + nug_term nugget i w.
  Proof.
    intros Hi. unfold rm_field, randmeth_call. cbv zeta. rewrite summate_length.
    change (n0 RO) with 0. rewrite aget_map_seq by exact Hi.
    rewrite get_nugget_at, summate_at by exact Hi.
    unfold randmeth_amp. change (nofZ RO (Z.of_nat N)) with (IZR (Z.of_nat N)). rewrite <- INR_IZR_INZ.
    reflexivity.
  Qed.

  (* difference of two phases = <k_j, x_i - x_i'> *)
  Lemma phase_diff ks j i i' : phase ks j i - phase ks j i' = kdot dim ks j (lag pos i i').
  Proof.
    unfold phase, phase_of, kdot. change (n0 RO) with 0.
    change (for_ 0 dim (fun d ph => nadd RO ph (nmul RO (aget2 0 ks d j) (aget2 0 pos d i))) 0)
      with (rsum dim (fun d => aget2 0 ks d j * aget2 0 pos d i)).
    change (for_ 0 dim (fun d ph => nadd RO ph (nmul RO (aget2 0 ks d j) (aget2 0 pos d i'))) 0)
      with (rsum dim (fun d => aget2 0 ks d j * aget2 0 pos d i')).
    rewrite <- rsum_minus. apply rsum_ext. intros d Hd.
    unfold lag. rewrite aget_map_seq by exact Hd. ring.
  Qed.
  Lemma lag_length i i' : length (lag pos i i') = dim.
  Proof. unfold lag. now rewrite map_length, seq_length. Qed.

  (* E[ S_i * S_i' ] as a sum over modes *)
  Lemma E_modesum_modesum i i' :
    E (fun w => modesum i w * modesum i' w)
    = rsum N (fun j => E (fun w => cos (kdot dim (KS w) j (lag pos i i')))).
  Proof.
    unfold modesum.
    rewrite (E_ext _ (fun w => rsum N (fun j => rsum N (fun l =>
        (A true j w * cos (phase (KS w) j i) + A false j w * sin (phase (KS w) j i))
      * (A true l w * cos (phase (KS w) l i') + A false l w * sin (phase (KS w) l i'))))))
      by (intros; apply rsum_mul).
    rewrite E_rsum. apply rsum_ext. intros j Hj.
    rewrite E_rsum.
    rewrite (rsum_ext N _ (fun l => (if Nat.eqb j l then 1 else 0)
                 * E (fun w => cos (phase (KS w) j i - phase (KS w) l i')))).
    2:{ intros l Hl. apply (E_wave_wave j l (fun k => phase k j i) (fun k => phase k l i')); auto. }
    rewrite (rsum_delta N j (fun l => E (fun w => cos (phase (KS w) j i - phase (KS w) l i')))) by exact Hj.
    apply E_ext. intros w. now rewrite phase_diff.
  Qed.

  Lemma E_modesum i : E (modesum i) = 0.
  Proof.
    unfold modesum. rewrite E_rsum. apply rsum_zero. intros j Hj.
    apply (E_wave j (fun k => phase k j i)); auto.
  Qed.

  Lemma E_noise_modesum i i' : (i < P)%nat -> E (fun w => aget 0 (W w) i * modesum i' w) = 0.
  Proof.
    intros Hi. unfold modesum.
    rewrite (E_ext _ (fun w => rsum N (fun j => aget 0 (W w) i *
       (A true j w * cos (phase (KS w) j i') + A false j w * sin (phase (KS w) j i')))))
      by (intros; now rewrite rsum_scal).
    rewrite E_rsum. apply rsum_zero. intros j Hj.
    apply (E_noise_wave i j (fun k => phase k j i')); auto.
  Qed.

  Lemma E_nug_modesum nugget i i' : (i < P)%nat -> E (fun w => nug_term nugget i w * modesum i' w) = 0.
  Proof.
    intros Hi. unfold nug_term. destruct (Rltb 0 nugget).
    - rewrite (E_ext _ (fun w => sqrt nugget * (aget 0 (W w) i * modesum i' w))) by (intros; ring).
      rewrite E_scal, E_noise_modesum by exact Hi. ring.
    - rewrite (E_ext _ (fun _ => 0)) by (intros; ring). apply E_const.
  Qed.

  Lemma E_nug_nug nugget i i' : 0 <= nugget -> (i < P)%nat -> (i' < P)%nat ->
    E (fun w => nug_term nugget i w * nug_term nugget i' w) = if Nat.eqb i i' then nugget else 0.
  Proof.
    intros Hn Hi Hi'. unfold nug_term. destruct H4 as [H4a _].
    destruct (Rltb 0 nugget) eqn:Eb.
    - rewrite (E_ext _ (fun w => (sqrt nugget * sqrt nugget) * (aget 0 (W w) i * aget 0 (W w) i')))
        by (intros; ring).
      rewrite E_scal, H4a, sqrt_sqrt by auto. destruct (Nat.eqb i i'); ring.
    - apply Rltb_false in Eb. assert (nugget = 0) by lra. subst nugget.
      rewrite (E_ext _ (fun _ => 0)) by (intros; ring). rewrite E_const. now destruct (Nat.eqb i i').
  Qed.

  Lemma E_nug nugget i : (i < P)%nat -> E (nug_term nugget i) = 0.
  Proof.
    intros Hi. unfold nug_term. destruct H4 as [_ [_ H4c]]. destruct (Rltb 0 nugget).
    - rewrite E_scal, H4c by auto. ring.
    - apply E_const.
  Qed.

  (* ---------- randomization method *)
  Section RandMeth.
    Variable rho : list R -> R.
    Hypothesis H3 : H3_spectral E N dim KS rho.
    Variables var nugget : R.
    Hypothesis Hvar : 0 <= var.
    Hypothesis Hnug : 0 <= nugget.
    Hypothesis HNpos : (1 <= N)%nat.

    Notation U := (rm_field ora var N nugget KS Z1 Z2 W pos).

    Theorem randmeth_mean_zero i : (i < P)%nat -> E (U i) = 0.
    Proof.
      intros Hi.
      rewrite (E_ext _ (fun w => sqrt (var / INR N) * modesum i w + 1 * nug_term nugget i w)).
      2:{ intros w. rewrite rm_field_eq by exact Hi. ring. }
      rewrite H1, E_modesum, E_nug by exact Hi. ring.
    Qed.

    Theorem randmeth_covariance i i' : (i < P)%nat -> (i' < P)%nat ->
      E (fun w => U i w * U i' w) = var * rho (lag pos i i') + (if Nat.eqb i i' then nugget else 0).
    Proof.
      intros Hi Hi'.
      assert (HNR : 0 < INR N) by (apply lt_0_INR; lia).
      assert (Hamp : sqrt (var / INR N) * sqrt (var / INR N) = var / INR N).
      { apply sqrt_sqrt. apply Rmult_le_pos; [exact Hvar|]. left. now apply Rinv_0_lt_compat. }
      rewrite (E_ext _ (fun w =>
          ((var / INR N) * (modesum i w * modesum i' w)
           + sqrt (var / INR N) * (nug_term nugget i' w * modesum i w))
          + (sqrt (var / INR N) * (nug_term nugget i w * modesum i' w)
           + nug_term nugget i w * nug_term nugget i' w))).
      2:{ intros w. rewrite !rm_field_eq by assumption. set (a := sqrt (var / INR N)) in *. rewrite <- Hamp. ring. }
      rewrite !E_plus, !E_scal, E_modesum_modesum, !E_nug_modesum, E_nug_nug by assumption.
      rewrite (rsum_ext N _ (fun _ => rho (lag pos i i'))).
      2:{ intros j Hj. apply H3; [exact Hj|apply lag_length]. }
      rewrite rsum_const. field. lra.
    Qed.

    (* rho(0) = 1 follows from H3 and H0 *)
    Lemma kdot_zero_lag ks j i : kdot dim ks j (lag pos i i) = 0.
    Proof.
      unfold kdot. apply rsum_zero. intros d Hd. unfold lag. rewrite aget_map_seq by exact Hd. ring.
    Qed.
    Lemma rho_zero_lag i : rho (lag pos i i) = 1.
    Proof.
      assert (Hj : (0 < N)%nat) by lia.
      rewrite <- (H3 0%nat (lag pos i i) Hj (lag_length i i)).
      rewrite (E_ext _ (fun _ => 1)); [apply E_const|].
      intros w. rewrite kdot_zero_lag. apply cos_0.
    Qed.

    Theorem randmeth_pointwise_variance i : (i < P)%nat ->
      E (fun w => U i w * U i w) = var + nugget.
    Proof.
      intros Hi. rewrite randmeth_covariance by exact Hi. rewrite rho_zero_lag, Nat.eqb_refl. ring.
    Qed.
  End RandMeth.

  (* ---------- Fourier method: deterministic mode grid, weights sqrt(S(|k_j|) * prod(delta_k)) *)
  Section Fourier.
    Variable modes : list (list R).
    Hypothesis Hmodes : forall w, KS w = modes.
    Hypothesis modes_N : shape1 modes = N.
    Variables spec dk : list R.
    Variable nugget : R.
    Hypothesis Hnug : 0 <= nugget.
    Hypothesis Hspec_len : length spec = N.
    Hypothesis Hspec_pos : forall j, (j < N)%nat -> 0 <= aget 0 spec j * prod_list (Rops ora) dk.

    Notation sf := (fourier_spectrum_factor (Rops ora) spec dk).
    Notation F := (fo_field ora nugget sf modes Z1 Z2 W pos).

    Definition fmodesum (i : nat) (w : Om) : R :=
      rsum N (fun j => aget 0 sf j *
          (A true j w * cos (phase (KS w) j i) + A false j w * sin (phase (KS w) j i))).

    Lemma fo_field_eq i w : (i < P)%nat -> F i w = fmodesum i w + nug_term nugget i w.
    Proof.
      intros Hi. unfold fo_field, fourier_call. cbv zeta.
      rewrite summate_fourier_refines. unfold summate_fourier_spec.
      rewrite map_length, seq_length, Hpos.
      change (n0 RO) with 0. rewrite !aget_map_seq by exact Hi.
      rewrite get_nugget_at. unfold summate_fourier_point. rewrite modes_N.
      unfold fmodesum, phase. rewrite Hmodes. reflexivity.
    Qed.

    Lemma E_fmodesum_fmodesum i i' :
      E (fun w => fmodesum i w * fmodesum i' w)
      = rsum N (fun j => aget 0 sf j * aget 0 sf j * cos (kdot dim modes j (lag pos i i'))).
    Proof.
      unfold fmodesum.
      rewrite (E_ext _ (fun w => rsum N (fun j => rsum N (fun l => (aget 0 sf j * aget 0 sf l) *
        ((A true j w * cos (phase (KS w) j i) + A false j w * sin (phase (KS w) j i))
       * (A true l w * cos (phase (KS w) l i') + A false l w * sin (phase (KS w) l i'))))))).
      2:{ intros w. rewrite rsum_mul. apply rsum_ext; intros j _. apply rsum_ext; intros l _. ring. }
      rewrite E_rsum. apply rsum_ext. intros j Hj. rewrite E_rsum.
      rewrite (rsum_ext N _ (fun l => (if Nat.eqb j l then 1 else 0)
                 * (aget 0 sf j * aget 0 sf l * cos (phase modes j i - phase modes l i')))).
      2:{ intros l Hl. rewrite E_scal.
          rewrite (E_wave_wave j l (fun k => phase k j i) (fun k => phase k l i')) by auto.
          rewrite (E_ext _ (fun _ => cos (phase modes j i - phase modes l i'))) by (intros; now rewrite Hmodes).
          rewrite E_const. ring. }
      rewrite (rsum_delta N j (fun l => aget 0 sf j * aget 0 sf l * cos (phase modes j i - phase modes l i'))) by exact Hj.
      now rewrite phase_diff.
    Qed.

    Lemma sf_sq j : (j < N)%nat -> aget 0 sf j * aget 0 sf j = aget 0 spec j * prod_list (Rops ora) dk.
    Proof.
      intros Hj. unfold fourier_spectrum_factor.
      change (nsqrt RO) with sqrt. change (nmul RO) with Rmult.
      unfold aget at 1 2.
      rewrite (nth_indep _ 0 (sqrt (0 * prod_list (Rops ora) dk))) by (now rewrite map_length, Hspec_len).
      rewrite (map_nth (fun s => sqrt (s * prod_list (Rops ora) dk))).
      apply sqrt_sqrt. apply Hspec_pos. exact Hj.
    Qed.

    Lemma E_fmodesum i : E (fmodesum i) = 0.
    Proof.
      unfold fmodesum. rewrite E_rsum. apply rsum_zero. intros j Hj.
      rewrite E_scal. rewrite (E_wave j (fun k => phase k j i)) by auto. ring.
    Qed.

    Lemma E_nug_fmodesum i i' : (i < P)%nat -> E (fun w => nug_term nugget i w * fmodesum i' w) = 0.
    Proof.
      intros Hi. unfold fmodesum.
      rewrite (E_ext _ (fun w => rsum N (fun j => aget 0 sf j * (nug_term nugget i w *
         (A true j w * cos (phase (KS w) j i') + A false j w * sin (phase (KS w) j i')))))).
      2:{ intros w. rewrite <- rsum_scal. apply rsum_ext; intros; ring. }
      rewrite E_rsum. apply rsum_zero. intros j Hj. rewrite E_scal.
      unfold nug_term. destruct (Rltb 0 nugget).
      - rewrite (E_ext _ (fun w => sqrt nugget * (aget 0 (W w) i *
           (A true j w * cos (phase (KS w) j i') + A false j w * sin (phase (KS w) j i'))))) by (intros; ring).
        rewrite E_scal, (E_noise_wave i j (fun k => phase k j i')) by auto. ring.
      - rewrite (E_ext _ (fun _ => 0)) by (intros; ring). rewrite E_const. ring.
    Qed.

    Theorem fourier_mean_zero i : (i < P)%nat -> E (F i) = 0.
    Proof.
      intros Hi. rewrite (E_ext _ (fun w => 1 * fmodesum i w + 1 * nug_term nugget i w)).
      2:{ intros w. rewrite fo_field_eq by exact Hi. ring. }
      rewrite H1, E_fmodesum, E_nug by exact Hi. ring.
    Qed.

    (* covariance of the Fourier field = Riemann sum of the Bochner integral over the mode grid *)
    Theorem fourier_covariance i i' : (i < P)%nat -> (i' < P)%nat ->
      E (fun w => F i w * F i' w)
      = rsum N (fun j => aget 0 spec j * prod_list (Rops ora) dk * cos (kdot dim modes j (lag pos i i')))
        + (if Nat.eqb i i' then nugget else 0).
    Proof.
      intros Hi Hi'.
      rewrite (E_ext _ (fun w =>
          (fmodesum i w * fmodesum i' w + nug_term nugget i' w * fmodesum i w)
          + (nug_term nugget i w * fmodesum i' w + nug_term nugget i w * nug_term nugget i' w))).
      2:{ intros w. rewrite !fo_field_eq by assumption. ring. }
      rewrite !E_plus, E_fmodesum_fmodesum, !E_nug_fmodesum, E_nug_nug by assumption.
      rewrite (rsum_ext N _ (fun j => aget 0 spec j * prod_list (Rops ora) dk * cos (kdot dim modes j (lag pos i i')))).
      2:{ intros j Hj. now rewrite sf_sq. }
      ring.
    Qed.
  End Fourier.
End Prob.
