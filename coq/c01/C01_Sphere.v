(* C01_Sphere.v — first and second moments of RNG.sample_sphere's parametrisations under the uniform draws
   it uses: dim 2: angle a ~ U(0, 2 pi) -> (cos a, sin a);  dim 3: a ~ U(0, 2 pi), z ~ U(-1, 1) ->
   (sqrt(1 - z^2) cos a, sqrt(1 - z^2) sin a, z).  The expectation over the uniform draws is written as the
   normalised (iterated) Riemann integral.  Result: E[s_a] = 0 and E[s_a s_b] = delta_ab / d — the moments of
   the uniform distribution on the sphere (what isotropy of the sampled wave vectors needs to second order). *)
From Coq Require Import Reals List Lra Lia Arith ZArith Bool.
From Coquelicot Require Import Coquelicot.
From GS Require Import Num Loops RInst C01_Model.
Import ListNotations.
Open Scope R_scope.

(* ---------- one-dimensional integrals over a full period *)
Lemma int_cos2 : is_RInt (fun a => cos a * cos a) 0 (2 * PI) PI.
Proof.
  replace PI with ((fun a => a / 2 + sin a * cos a / 2) (2 * PI) - (fun a => a / 2 + sin a * cos a / 2) 0) at 2
    by (cbv beta; rewrite sin_2PI, sin_0; lra).
  apply (is_RInt_derive (fun a => a / 2 + sin a * cos a / 2) (fun a => cos a * cos a)).
  - intros x _. auto_derive; [exact I|]. pose proof (sin2_cos2 x) as H. unfold Rsqr in H. nra.
  - intros x _. apply (ex_derive_continuous (fun a => cos a * cos a)). now auto_derive.
Qed.
Lemma int_sin2 : is_RInt (fun a => sin a * sin a) 0 (2 * PI) PI.
Proof.
  replace PI with ((fun a => a / 2 - sin a * cos a / 2) (2 * PI) - (fun a => a / 2 - sin a * cos a / 2) 0) at 2
    by (cbv beta; rewrite sin_2PI, sin_0; lra).
  apply (is_RInt_derive (fun a => a / 2 - sin a * cos a / 2) (fun a => sin a * sin a)).
  - intros x _. auto_derive; [exact I|]. pose proof (sin2_cos2 x) as H. unfold Rsqr in H. nra.
  - intros x _. apply (ex_derive_continuous (fun a => sin a * sin a)). now auto_derive.
Qed.
Lemma int_cossin : is_RInt (fun a => cos a * sin a) 0 (2 * PI) 0.
Proof.
  replace 0 with ((fun a => sin a * sin a / 2) (2 * PI) - (fun a => sin a * sin a / 2) 0) at 2
    by (cbv beta; rewrite sin_2PI, sin_0; lra).
  apply (is_RInt_derive (fun a => sin a * sin a / 2) (fun a => cos a * sin a)).
  - intros x _. auto_derive; [exact I|]. lra.
  - intros x _. apply (ex_derive_continuous (fun a => cos a * sin a)). now auto_derive.
Qed.
Lemma int_cos : is_RInt cos 0 (2 * PI) 0.
Proof.
  replace 0 with (sin (2 * PI) - sin 0) at 2 by (rewrite sin_2PI, sin_0; lra).
  apply (is_RInt_derive sin cos).
  - intros x _. auto_derive; [exact I|]. lra.
  - intros x _. apply (ex_derive_continuous cos). now auto_derive.
Qed.
Lemma int_sin : is_RInt sin 0 (2 * PI) 0.
Proof.
  replace 0 with ((fun a => - cos a) (2 * PI) - (fun a => - cos a) 0) at 2 by (cbv beta; rewrite cos_2PI, cos_0; lra).
  apply (is_RInt_derive (fun a => - cos a) sin).
  - intros x _. auto_derive; [exact I|]. lra.
  - intros x _. apply (ex_derive_continuous sin). now auto_derive.
Qed.

(* ---------- dim 2: a ~ U(0, 2 pi) *)
Definition mean2 (f : R -> R) : R := RInt f 0 (2 * PI) / (2 * PI).

Theorem sphere2_moments :
  mean2 cos = 0 /\ mean2 sin = 0
  /\ mean2 (fun a => cos a * cos a) = 1 / 2 /\ mean2 (fun a => sin a * sin a) = 1 / 2
  /\ mean2 (fun a => cos a * sin a) = 0.
Proof.
  pose proof PI_RGT_0 as Hpi. unfold mean2.
  rewrite (is_RInt_unique _ _ _ _ int_cos), (is_RInt_unique _ _ _ _ int_sin),
          (is_RInt_unique _ _ _ _ int_cos2), (is_RInt_unique _ _ _ _ int_sin2),
          (is_RInt_unique _ _ _ _ int_cossin).
  repeat split; field; lra.
Qed.

(* ---------- dim 3: a ~ U(0, 2 pi), z ~ U(-1, 1) (independent): iterated integral, inner over the angle *)
Definition mean3 (f : R -> R -> R) : R :=
  RInt (fun z => RInt (fun a => f a z) 0 (2 * PI)) (-1) 1 / (4 * PI).

Lemma int_poly (c0 c1 c2 : R) :
  is_RInt (fun z => c0 + c1 * z + c2 * (z * z)) (-1) 1 (2 * c0 + 2 / 3 * c2).
Proof.
  replace (2 * c0 + 2 / 3 * c2)
    with ((fun z => c0 * z + c1 * (z * z) / 2 + c2 * (z * z * z) / 3) 1
          - (fun z => c0 * z + c1 * (z * z) / 2 + c2 * (z * z * z) / 3) (-1)) by (cbv beta; field).
  apply (is_RInt_derive (fun z => c0 * z + c1 * (z * z) / 2 + c2 * (z * z * z) / 3)
                        (fun z => c0 + c1 * z + c2 * (z * z))).
  - intros x _. auto_derive; [exact I|]. field.
  - intros x _. apply (ex_derive_continuous (fun z => c0 + c1 * z + c2 * (z * z))). now auto_derive.
Qed.

(* inner integral of  g(z) * t(a)  is  g(z) * (integral of t) *)
Lemma inner_scal (g : R) (t : R -> R) (I : R) : is_RInt t 0 (2 * PI) I ->
  RInt (fun a => g * t a) 0 (2 * PI) = g * I.
Proof.
  intros H. apply is_RInt_unique. apply (is_RInt_scal t 0 (2 * PI) g I H).
Qed.

Lemma mean3_sep (f : R -> R -> R) (g : R -> R) (t : R -> R) (I c0 c1 c2 : R) :
  (forall a z, -1 < z < 1 -> f a z = g z * t a) ->
  is_RInt t 0 (2 * PI) I ->
  (forall z, -1 < z < 1 -> g z * I = c0 + c1 * z + c2 * (z * z)) ->
  mean3 f = (2 * c0 + 2 / 3 * c2) / (4 * PI).
Proof.
  intros Hf Ht Hg. unfold mean3. f_equal.
  rewrite (RInt_ext _ (fun z => c0 + c1 * z + c2 * (z * z))).
  - apply is_RInt_unique, int_poly.
  - intros z Hz. rewrite Rmin_left, Rmax_right in Hz by lra.
    rewrite (RInt_ext _ (fun a => g z * t a)) by (intros a _; apply Hf; exact Hz).
    rewrite (inner_scal (g z) t I Ht). apply Hg; exact Hz.
Qed.

Section Sphere3.
  Variable ora : nat -> list R -> R.
  Notation RO := (Rops ora).
  Definition sx (a z : R) : R := fst (fst (sphere3_point RO a z)).
  Definition sy (a z : R) : R := snd (fst (sphere3_point RO a z)).
  Definition sz (a z : R) : R := snd (sphere3_point RO a z).

  Lemma sx_eq a z : sx a z = sqrt (1 - z * z) * cos a.
  Proof. unfold sx, sphere3_point. simpl. now rewrite Rpow_2. Qed.
  Lemma sy_eq a z : sy a z = sqrt (1 - z * z) * sin a.
  Proof. unfold sy, sphere3_point. simpl. now rewrite Rpow_2. Qed.
  Lemma sz_eq a z : sz a z = z.
  Proof. reflexivity. Qed.
  Lemma sq_s z : -1 < z < 1 -> sqrt (1 - z * z) * sqrt (1 - z * z) = 1 - z * z.
  Proof. intros Hz. apply sqrt_sqrt. nra. Qed.

  Theorem sphere3_second_moments :
    mean3 (fun a z => sx a z * sx a z) = 1 / 3 /\ mean3 (fun a z => sy a z * sy a z) = 1 / 3
    /\ mean3 (fun a z => sz a z * sz a z) = 1 / 3
    /\ mean3 (fun a z => sx a z * sy a z) = 0 /\ mean3 (fun a z => sx a z * sz a z) = 0
    /\ mean3 (fun a z => sy a z * sz a z) = 0.
  Proof.
    pose proof PI_RGT_0 as Hpi.
    assert (int_one : is_RInt (fun _ : R => 1) 0 (2 * PI) (2 * PI)).
    { replace (2 * PI) with (scal (2 * PI - 0) 1) at 2 by (unfold scal; simpl; unfold mult; simpl; ring).
      apply (is_RInt_const 0 (2 * PI) 1). }
    repeat split.
    - rewrite (mean3_sep _ (fun z => 1 - z * z) (fun a => cos a * cos a) PI PI 0 (- PI)).
      + field; lra.
      + intros a z Hz. cbv beta. rewrite sx_eq. pose proof (sq_s z Hz) as Hs. set (s := sqrt (1 - z * z)) in *. rewrite <- Hs. ring.
      + exact int_cos2.
      + intros; ring.
    - rewrite (mean3_sep _ (fun z => 1 - z * z) (fun a => sin a * sin a) PI PI 0 (- PI)).
      + field; lra.
      + intros a z Hz. cbv beta. rewrite sy_eq. pose proof (sq_s z Hz) as Hs. set (s := sqrt (1 - z * z)) in *. rewrite <- Hs. ring.
      + exact int_sin2.
      + intros; ring.
    - rewrite (mean3_sep _ (fun z => z * z) (fun _ => 1) (2 * PI) 0 0 (2 * PI)).
      + field; lra.
      + intros a z Hz. cbv beta. rewrite sz_eq. ring.
      + exact int_one.
      + intros; ring.
    - rewrite (mean3_sep _ (fun z => 1 - z * z) (fun a => cos a * sin a) 0 0 0 0).
      + field; lra.
      + intros a z Hz. cbv beta. rewrite sx_eq, sy_eq. pose proof (sq_s z Hz) as Hs. set (s := sqrt (1 - z * z)) in *. rewrite <- Hs. ring.
      + exact int_cossin.
      + intros; ring.
    - rewrite (mean3_sep _ (fun z => sqrt (1 - z * z) * z) cos 0 0 0 0).
      + field; lra.
      + intros a z Hz. cbv beta. rewrite sx_eq, sz_eq. ring.
      + exact int_cos.
      + intros; ring.
    - rewrite (mean3_sep _ (fun z => sqrt (1 - z * z) * z) sin 0 0 0 0).
      + field; lra.
      + intros a z Hz. cbv beta. rewrite sy_eq, sz_eq. ring.
      + exact int_sin.
      + intros; ring.
  Qed.

  Theorem sphere3_first_moments :
    mean3 sx = 0 /\ mean3 sy = 0 /\ mean3 sz = 0.
  Proof.
    pose proof PI_RGT_0 as Hpi.
    assert (int_one : is_RInt (fun _ : R => 1) 0 (2 * PI) (2 * PI)).
    { replace (2 * PI) with (scal (2 * PI - 0) 1) at 2 by (unfold scal; simpl; unfold mult; simpl; ring).
      apply (is_RInt_const 0 (2 * PI) 1). }
    repeat split.
    - rewrite (mean3_sep _ (fun z => sqrt (1 - z * z)) cos 0 0 0 0).
      + field; lra.
      + intros a z Hz. apply sx_eq.
      + exact int_cos.
      + intros; ring.
    - rewrite (mean3_sep _ (fun z => sqrt (1 - z * z)) sin 0 0 0 0).
      + field; lra.
      + intros a z Hz. apply sy_eq.
      + exact int_sin.
      + intros; ring.
    - rewrite (mean3_sep _ (fun z => z) (fun _ => 1) (2 * PI) 0 (2 * PI) 0).
      + field; lra.
      + intros a z Hz. cbv beta. rewrite sz_eq. ring.
      + exact int_one.
      + intros; ring.
  Qed.
End Sphere3.
