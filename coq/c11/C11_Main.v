(* C11_Main.v — the locality consequences instantiated for the two scalar generators' __call__
   (nugget-free: the noise vector is all zeros).  Generic number type, any prange schedule. *)
From Coq Require Import ZArith List Bool Arith Lia Permutation.
From GS Require Import Num Loops Summator_gen C15_KernelSpec C15_SummatorProofs C11_Pointwise.
Import ListNotations.

Section Main.
Context {T : Type} (O : NumOps T).
Notation z := (n0 O).

(* RandMeth.__call__ / Fourier.__call__ on the position array of a list of points *)
Definition rm_field sched (var : T) (mode_no : nat) ks z1 z2 (dim : nat) (pts : list (list T)) : list T :=
  randmeth_call O sched var mode_no ks z1 z2 (repeat z (length pts)) (pos_of O dim pts).
Definition fo_field sched sf modes z1 z2 (dim : nat) (pts : list (list T)) : list T :=
  fourier_call O sched sf modes z1 z2 (repeat z (length pts)) (pos_of O dim pts).

Lemma rm_field_is_map sched var n ks z1 z2 dim : is_sched sched -> 0 < dim ->
  forall pts, wf_pts dim pts -> rm_field sched var n ks z1 z2 dim pts = map (rm_value O var n ks z1 z2) pts.
Proof. intros Hs Hd pts Hw. unfold rm_field. apply randmeth_call_pointwise; assumption. Qed.
Lemma fo_field_is_map sched sf modes z1 z2 dim : is_sched sched -> 0 < dim ->
  forall pts, wf_pts dim pts -> fo_field sched sf modes z1 z2 dim pts = map (fo_value O sf modes z1 z2) pts.
Proof. intros Hs Hd pts Hw. unfold fo_field. apply fourier_call_pointwise; assumption. Qed.

Lemma wf_select dim (pts : list (list T)) idx : wf_pts dim pts -> Forall (fun i => i < length pts) idx ->
  wf_pts dim (map (fun i => nth i pts []) idx).
Proof.
  intros Hw Hi. unfold wf_pts in *. rewrite Forall_forall in *. intros p Hp.
  apply in_map_iff in Hp. destruct Hp as [i [<- Hin]]. apply Hw. apply nth_In. now apply Hi.
Qed.
Lemma wf_concat dim (bs : list (list (list T))) : Forall (wf_pts dim) bs -> wf_pts dim (concat bs).
Proof. intros H. unfold wf_pts. induction H; simpl; auto. apply Forall_app; auto. Qed.

(* any selection (permutation, subset, with repetitions) of the points, any two schedules *)
Theorem rm_field_select s1 s2 var n ks z1 z2 dim pts idx :
  is_sched s1 -> is_sched s2 -> 0 < dim -> wf_pts dim pts -> Forall (fun i => i < length pts) idx ->
  rm_field s1 var n ks z1 z2 dim (map (fun i => nth i pts []) idx)
  = map (fun i => nth i (rm_field s2 var n ks z1 z2 dim pts) z) idx.
Proof.
  intros H1 H2 Hd Hw Hi.
  rewrite (rm_field_is_map s1 var n ks z1 z2 dim H1 Hd) by (now apply wf_select).
  rewrite (rm_field_is_map s2 var n ks z1 z2 dim H2 Hd) by auto. rewrite map_map.
  apply map_ext_Forall with (P := fun i => i < length pts); auto.
  intros i Hlt. symmetry. now apply nth_map_in.
Qed.
Theorem fo_field_select s1 s2 sf modes z1 z2 dim pts idx :
  is_sched s1 -> is_sched s2 -> 0 < dim -> wf_pts dim pts -> Forall (fun i => i < length pts) idx ->
  fo_field s1 sf modes z1 z2 dim (map (fun i => nth i pts []) idx)
  = map (fun i => nth i (fo_field s2 sf modes z1 z2 dim pts) z) idx.
Proof.
  intros H1 H2 Hd Hw Hi.
  rewrite (fo_field_is_map s1 sf modes z1 z2 dim H1 Hd) by (now apply wf_select).
  rewrite (fo_field_is_map s2 sf modes z1 z2 dim H2 Hd) by auto. rewrite map_map.
  apply map_ext_Forall with (P := fun i => i < length pts); auto.
  intros i Hlt. symmetry. now apply nth_map_in.
Qed.

(* batching *)
Theorem rm_field_concat sched var n ks z1 z2 dim batches :
  is_sched sched -> 0 < dim -> Forall (wf_pts dim) batches ->
  rm_field sched var n ks z1 z2 dim (concat batches) = concat (map (rm_field sched var n ks z1 z2 dim) batches).
Proof.
  intros Hs Hd Hw.
  apply (field_concat (wf_pts dim) (rm_field sched var n ks z1 z2 dim) (rm_value O var n ks z1 z2)
           (rm_field_is_map sched var n ks z1 z2 dim Hs Hd)); auto. now apply wf_concat.
Qed.
Theorem fo_field_concat sched sf modes z1 z2 dim batches :
  is_sched sched -> 0 < dim -> Forall (wf_pts dim) batches ->
  fo_field sched sf modes z1 z2 dim (concat batches) = concat (map (fo_field sched sf modes z1 z2 dim) batches).
Proof.
  intros Hs Hd Hw.
  apply (field_concat (wf_pts dim) (fo_field sched sf modes z1 z2 dim) (fo_value O sf modes z1 z2)
           (fo_field_is_map sched sf modes z1 z2 dim Hs Hd)); auto. now apply wf_concat.
Qed.

(* structured grid, entry [i, j, ...] = unstructured evaluation at the single point (x_i, y_j, ...) *)
Theorem rm_field_structured sched var n ks z1 z2 axes idx :
  is_sched sched -> 0 < length axes -> valid_idx axes idx ->
  [nth (flat_index (map (@length T) axes) idx) (rm_field sched var n ks z1 z2 (length axes) (grid_points axes)) z]
  = rm_field sched var n ks z1 z2 (length axes) [point_at z axes idx].
Proof.
  intros Hs Hd Hv.
  apply (structured_equals_unstructured (rm_field sched var n ks z1 z2 (length axes)) (rm_value O var n ks z1 z2)
           (length axes) (rm_field_is_map sched var n ks z1 z2 (length axes) Hs Hd)); auto.
Qed.
Theorem fo_field_structured sched sf modes z1 z2 axes idx :
  is_sched sched -> 0 < length axes -> valid_idx axes idx ->
  [nth (flat_index (map (@length T) axes) idx) (fo_field sched sf modes z1 z2 (length axes) (grid_points axes)) z]
  = fo_field sched sf modes z1 z2 (length axes) [point_at z axes idx].
Proof.
  intros Hs Hd Hv.
  apply (structured_equals_unstructured (fo_field sched sf modes z1 z2 (length axes)) (fo_value O sf modes z1 z2)
           (length axes) (fo_field_is_map sched sf modes z1 z2 (length axes) Hs Hd)); auto.
Qed.

(* IncomprRandMeth.__call__ on the translated summate_incompr (modelled and executed; no locality
   theorem: the sequential kernel has no closed-form spec in C15) :
   mean_u * e1 + mean_u * sqrt(var / mode_no) * summed + nugget(= 0) *)
Definition incompr_call (mean_u var : T) (mode_no : nat) ks z1 z2 (pos : list (list T)) : list (list T) :=
  let s := nmul O mean_u (nsqrt O (ndiv O var (nofZ O (Z.of_nat mode_no)))) in
  map (fun dr => map (fun v => nadd O (nadd O (nmul O mean_u (if Nat.eqb (fst dr) 0 then n1 O else z)) (nmul O s v)) z) (snd dr))
      (combine (seq 0 (length (summate_incompr O ks z1 z2 pos))) (summate_incompr O ks z1 z2 pos)).

(* model of tools.geometric.generate_grid: the (dim, n) array whose columns are the grid points *)
Definition generate_grid (axes : list (list T)) : list (list T) := pos_of O (length axes) (grid_points axes).
End Main.

(* non-vacuity of the hypotheses *)
Example wf_example : wf_pts 2 [[1; 2]; [3; 4]; [5; 6]] /\ valid_idx [[1; 2]; [3; 4; 5]] [1; 2]
  /\ flat_index (map (@length nat) [[1; 2]; [3; 4; 5]]) [1; 2] = 5
  /\ nth 5 (grid_points [[1; 2]; [3; 4; 5]]) [] = [2; 5].
Proof. vm_compute. repeat split; auto; repeat constructor. Qed.
