(* C11_GenState.v — the generators' update / reset_seed / setter logic as state machines
   (field/generator.py: RandMeth, IncomprRandMeth (same logic), Fourier; field/srf.py: SRF.__call__).
   The RNG, the spectral sampling and the spectrum are ORACLES (Section variables): the theorems
   hold for every choice of them.  [meq] is CovModel.__eq__ (covmodel/tools.py compare). *)
From Coq Require Import ZArith List Bool Arith Lia.
Import ListNotations.

(* ------------------------------------------------------------------ seeds *)
(* argument of update / reset_seed / the seed setter.  [tok] is the identity of the Python object
   holding the value (two equal ints > 256 are in general distinct objects). *)
Inductive seedarg := SNan | SNone | SInt (v : Z) (tok : nat).
(* the stored self._seed *)
Inductive sseed := KNone | KInt (v : Z) (tok : nat).
(* what the master RNG was really seeded with: an integer, or the k-th draw of OS entropy (seed None) *)
Inductive eseed := EInt (v : Z) | EEnt (k : nat).

Definition is_nan (s : seedarg) : bool := match s with SNan => true | _ => false end.

(* the seed setter's test "is the new seed the present one?" — by VALUE (the code after the fix) *)
Definition same_value (s : seedarg) (k : sseed) : bool :=
  match s, k with
  | SNone, KNone => true
  | SInt v _, KInt w _ => Z.eqb v w
  | _, _ => false
  end.
(* ... and by object IDENTITY (`new_seed is not self._seed`, the code before the fix) *)
Definition same_identity (s : seedarg) (k : sseed) : bool :=
  match s, k with
  | SNone, KNone => true
  | SInt _ t, KInt _ u => Nat.eqb t u
  | _, _ => false
  end.

Definition store_seed (s : seedarg) (old : sseed) : sseed :=
  match s with SNan => old | SNone => KNone | SInt v t => KInt v t end.
Definition seed_of (k : sseed) (ent : nat) : eseed * nat :=
  match k with KNone => (EEnt ent, S ent) | KInt v _ => (EInt v, ent) end.
Definition strip_arg (s : seedarg) : seedarg := match s with SInt v _ => SInt v 0 | x => x end.
Definition strip_seed (k : sseed) : sseed := match k with KInt v _ => KInt v 0 | x => x end.

Lemma same_value_strip s k : same_value (strip_arg s) (strip_seed k) = same_value s k.
Proof. destruct s, k; reflexivity. Qed.
Lemma store_seed_strip s k : strip_seed (store_seed s k) = store_seed (strip_arg s) (strip_seed k).
Proof. destruct s, k; reflexivity. Qed.
Lemma seed_of_strip k e : seed_of (strip_seed k) e = seed_of k e.
Proof. destruct k; reflexivity. Qed.

Fixpoint prodn (ns : list nat) : nat := match ns with [] => 1 | n :: t => n * prodn t end.

(* Fourier._fill_to_dim: cut to dim entries, pad with the last one; an empty value raises *)
Definition fill {A} (l : list A) (dim : nat) : option (list A) :=
  match firstn dim l with
  | [] => None
  | h :: t => Some ((h :: t) ++ repeat (last t h) (dim - length (h :: t)))
  end.

Lemma fill_length {A} (l r : list A) dim : fill l dim = Some r -> length r = dim.
Proof.
  unfold fill. pose proof (firstn_le_length dim l) as H1. pose proof (firstn_length dim l) as H2.
  destruct (firstn dim l) as [|h t] eqn:E; [discriminate|]. intros [= <-].
  simpl in *. rewrite app_length, repeat_length. lia.
Qed.
Lemma fill_id {A} (l : list A) dim : length l = dim -> 0 < dim -> fill l dim = Some l.
Proof.
  intros H H0. unfold fill. rewrite <- H, firstn_all. destruct l as [|h t]; simpl in *; [lia|].
  rewrite Nat.sub_diag. simpl. now rewrite app_nil_r.
Qed.

Lemma in_firstn {A} (x : A) n l : In x (firstn n l) -> In x l.
Proof. revert l; induction n; intros [|a l] H; simpl in *; try tauto. destruct H; auto. Qed.
Lemma last_cons {A} (t : list A) (a h : A) : last (a :: t) h = last t a.
Proof.
  revert a h. induction t as [|b t IH]; intros a h; [reflexivity|].
  change (last (a :: b :: t) h) with (last (b :: t) h). now rewrite !IH.
Qed.
Lemma last_in {A} (t : list A) (h : A) : In (last t h) (h :: t).
Proof.
  revert h. induction t as [|a t IH]; intros h; [left; reflexivity|].
  rewrite last_cons. right. apply IH.
Qed.
Lemma fill_Forall {A} (P : A -> Prop) (l r : list A) dim : Forall P l -> fill l dim = Some r -> Forall P r.
Proof.
  intros HF. unfold fill. assert (Hf : Forall P (firstn dim l)).
  { rewrite Forall_forall in *. intros x Hx. apply HF. eapply in_firstn; eauto. }
  destruct (firstn dim l) as [|h t] eqn:E; [discriminate|]. intros [= <-].
  change (Forall P ((h :: t) ++ repeat (last t h) (dim - length (h :: t)))).
  apply Forall_app. split; auto. apply Forall_forall. intros x Hx. apply repeat_spec in Hx. subst x.
  rewrite Forall_forall in Hf. apply Hf. apply last_in.
Qed.

(* ================================================================== RandMeth / IncomprRandMeth *)
Section RandMeth.
Variable Model : Type.
Variable meq : Model -> Model -> bool.          (* CovModel.__eq__ *)
Variable nugget_pos : Model -> bool.            (* model.nugget > 0 *)
Variable Modes : Type.                          (* (z_1, z_2, cov_sample) *)
Variable modes_of : eseed -> Model -> nat -> Modes.   (* RNG + spectral sampling, as a function *)
Variable mode_draws : Model -> nat.             (* sub-streams the sampling takes from the master RNG *)
Variable same : seedarg -> sseed -> bool.       (* the seed setter's comparison *)

Record rm := mkRm {
  rm_model : Model;        (* the generator's private copy *)
  rm_seed : sseed; rm_eseed : eseed;
  rm_mode_no : nat;
  rm_modes : Modes;
  rm_ent : nat;            (* entropy draws so far (seed None) *)
  rm_resets : nat;         (* how often reset_seed ran: a new RNG object each time *)
  rm_pos : nat             (* sub-streams taken from the present master RNG *)
}.

Definition rm_reset (m : Model) (n : nat) (st : rm) (s : seedarg) : rm :=
  let k := store_seed s (rm_seed st) in
  let se := seed_of k (rm_ent st) in
  mkRm m k (fst se) n (modes_of (fst se) m n) (snd se) (S (rm_resets st)) (mode_draws m).
Definition rm_reset_seed st s := rm_reset (rm_model st) (rm_mode_no st) st s.
Definition rm_set_seed st s := if same s (rm_seed st) then st else rm_reset_seed st s.

(* RandMeth.__init__: _seed = None, then update(model, seed) with self.model None *)
Definition rm_init (m : Model) (n : nat) (s : seedarg) : rm :=
  rm_reset m n (mkRm m KNone (EEnt 0) n (modes_of (EEnt 0) m n) 0 0 0) s.

Inductive rm_op :=
| RUpdate (m : option Model) (s : seedarg)     (* update(model, seed) *)
| RSetSeed (s : seedarg)                       (* gen.seed = s *)
| RResetSeed (s : seedarg)                     (* gen.reset_seed(s) *)
| RSetModeNo (n : nat)                         (* gen.mode_no = n *)
| RCall (shape : nat) (add_nugget : bool).     (* gen(pos, add_nugget) *)

(* what determines the numbers a call returns: the modes, the model copy (var), the mode number
   and — if noise is drawn — the master seed, the index of the sub-stream and the shape *)
Inductive rm_out :=
| ONothing
| OField (md : Modes) (m : Model) (n : nat) (noise : option (eseed * nat * nat)).

Definition rm_step (st : rm) (o : rm_op) : rm * rm_out :=
  match o with
  | RUpdate (Some m) s =>
      if negb (meq (rm_model st) m) then (rm_reset m (rm_mode_no st) st s, ONothing)
      else if is_nan s then (st, ONothing) else (rm_set_seed st s, ONothing)
  | RUpdate None s => if is_nan s then (st, ONothing) else (rm_set_seed st s, ONothing)
  | RSetSeed s => (rm_set_seed st s, ONothing)
  | RResetSeed s => (rm_reset_seed st s, ONothing)
  | RSetModeNo n => if Nat.eqb n (rm_mode_no st) then (st, ONothing) else (rm_reset (rm_model st) n st SNan, ONothing)
  | RCall shape add =>
      if add && nugget_pos (rm_model st)
      then (mkRm (rm_model st) (rm_seed st) (rm_eseed st) (rm_mode_no st) (rm_modes st) (rm_ent st) (rm_resets st) (S (rm_pos st)),
            OField (rm_modes st) (rm_model st) (rm_mode_no st) (Some (rm_eseed st, rm_pos st, shape)))
      else (st, OField (rm_modes st) (rm_model st) (rm_mode_no st) None)
  end.

Definition rm_run (st : rm) (ops : list rm_op) : rm := fold_left (fun s o => fst (rm_step s o)) ops st.
Fixpoint rm_outs (st : rm) (ops : list rm_op) : list rm_out :=
  match ops with [] => [] | o :: t => snd (rm_step st o) :: rm_outs (fst (rm_step st o)) t end.

(* ---- invariant: the modes are those of a fresh generator with the present settings *)
Definition seed_agrees (k : sseed) (e : eseed) : Prop :=
  match k with KInt v _ => e = EInt v | KNone => exists j, e = EEnt j end.
Definition rm_fresh (st : rm) : Prop :=
  rm_modes st = modes_of (rm_eseed st) (rm_model st) (rm_mode_no st) /\ seed_agrees (rm_seed st) (rm_eseed st).

Lemma rm_reset_fresh m n st s : rm_fresh (rm_reset m n st s).
Proof.
  unfold rm_reset, rm_fresh. destruct (store_seed s (rm_seed st)) as [|v t]; simpl; split; eauto.
Qed.

Lemma rm_step_fresh st o : rm_fresh st -> rm_fresh (fst (rm_step st o)).
Proof.
  intros H. destruct o as [[m|] s|s|s|n|shape add]; simpl.
  - destruct (negb (meq (rm_model st) m)); simpl; [apply rm_reset_fresh|].
    destruct (is_nan s); simpl; auto. unfold rm_set_seed. destruct (same s (rm_seed st)); auto. apply rm_reset_fresh.
  - destruct (is_nan s); simpl; auto. unfold rm_set_seed. destruct (same s (rm_seed st)); auto. apply rm_reset_fresh.
  - unfold rm_set_seed. destruct (same s (rm_seed st)); auto. apply rm_reset_fresh.
  - apply rm_reset_fresh.
  - destruct (Nat.eqb n (rm_mode_no st)); simpl; auto. apply rm_reset_fresh.
  - destruct (add && nugget_pos (rm_model st)); simpl; auto.
Qed.

Theorem rm_modes_fresh m n s ops : rm_fresh (rm_run (rm_init m n s) ops).
Proof.
  unfold rm_run. generalize (rm_reset_fresh m n (mkRm m KNone (EEnt 0) n (modes_of (EEnt 0) m n) 0 0 0) s).
  fold (rm_init m n s). generalize (rm_init m n s). induction ops as [|o ops IH]; intros st H; simpl; auto.
  apply IH. now apply rm_step_fresh.
Qed.

(* with an integer seed the modes are literally those of a freshly constructed generator *)
Corollary rm_modes_as_fresh_generator m n s ops st v t :
  st = rm_run (rm_init m n s) ops -> rm_seed st = KInt v t ->
  rm_modes st = rm_modes (rm_init (rm_model st) (rm_mode_no st) (SInt v t)).
Proof.
  intros -> Hs. destruct (rm_modes_fresh m n s ops) as [Hm Ha]. rewrite Hm.
  rewrite Hs in Ha. simpl in Ha. rewrite Ha. reflexivity.
Qed.

(* ---- the model copy after update(model, ...): either the new value, or a value meq-equal to it *)
Lemma rm_update_tracks st m s :
  let st' := fst (rm_step st (RUpdate (Some m) s)) in
  rm_model st' = m \/ (meq (rm_model st) m = true /\ rm_model st' = rm_model st).
Proof.
  simpl. destruct (meq (rm_model st) m) eqn:E; simpl; [right|left; reflexivity].
  split; auto. destruct (is_nan s); simpl; auto. unfold rm_set_seed. destruct (same s (rm_seed st)); auto.
Qed.
End RandMeth.

(* ================================================================== SRF on top of a RandMeth-type generator *)
Section SRF.
Variable Model : Type.
Variable meq : Model -> Model -> bool.
Variable nugget_pos : Model -> bool.
Variable Modes : Type.
Variable modes_of : eseed -> Model -> nat -> Modes.
Variable mode_draws : Model -> nat.
Variable same : seedarg -> sseed -> bool.
Variable Name : Type.
Variable name_eqb : Name -> Name -> bool.

Notation rm := (rm Model Modes).
Notation rm_step := (rm_step Model meq nugget_pos Modes modes_of mode_draws same).
Notation rm_init := (rm_init Model Modes modes_of mode_draws).
Notation rm_out := (rm_out Model Modes).

Record srf := mkSrf {
  f_model : Model;                     (* the field's model object (the user may change it in place) *)
  f_gen : rm;
  f_store : list (Name * rm_out)       (* stored fields by name *)
}.
Inductive srf_op :=
| FMod (f : Model -> Model)            (* in-place parameter change of srf.model *)
| FCall (s : seedarg) (shape : nat) (store : option Name)   (* srf(pos, seed=s, store=name) *)
| FGen (o : rm_op Model).              (* direct use of srf.generator *)

Definition store_set (st : list (Name * rm_out)) (n : Name) (v : rm_out) :=
  (n, v) :: filter (fun p => negb (name_eqb (fst p) n)) st.

Definition srf_step (st : srf) (o : srf_op) : srf * rm_out :=
  match o with
  | FMod f => (mkSrf (f (f_model st)) (f_gen st) (f_store st), ONothing _ _)
  | FCall s shape store =>
      let g1 := fst (rm_step (f_gen st) (RUpdate _ (Some (f_model st)) s)) in
      let r := rm_step g1 (RCall _ shape true) in
      (mkSrf (f_model st) (fst r) (match store with Some n => store_set (f_store st) n (snd r) | None => f_store st end), snd r)
  | FGen g => let r := rm_step (f_gen st) g in (mkSrf (f_model st) (fst r) (f_store st), snd r)
  end.
Definition srf_init (m : Model) (n : nat) (s : seedarg) : srf := mkSrf m (rm_init m n s) [].
Definition srf_run (st : srf) (ops : list srf_op) : srf := fold_left (fun s o => fst (srf_step s o)) ops st.
Fixpoint srf_outs (st : srf) (ops : list srf_op) : list rm_out :=
  match ops with [] => [] | o :: t => snd (srf_step st o) :: srf_outs (fst (srf_step st o)) t end.

Lemma srf_step_gen_fresh st o : rm_fresh Model Modes modes_of (f_gen st) ->
  rm_fresh Model Modes modes_of (f_gen (fst (srf_step st o))).
Proof.
  intros H. destruct o as [f|s shape store|g]; simpl; auto.
  - pose proof (rm_step_fresh Model meq nugget_pos Modes modes_of mode_draws same _ (RUpdate _ (Some (f_model st)) s) H) as H1.
    exact (rm_step_fresh Model meq nugget_pos Modes modes_of mode_draws same _ (RCall _ shape true) H1).
  - exact (rm_step_fresh Model meq nugget_pos Modes modes_of mode_draws same _ g H).
Qed.

Lemma srf_run_gen_fresh st ops : rm_fresh Model Modes modes_of (f_gen st) ->
  rm_fresh Model Modes modes_of (f_gen (srf_run st ops)).
Proof.
  unfold srf_run. revert st. induction ops as [|o ops IH]; intros st H; simpl; auto.
  apply IH. now apply srf_step_gen_fresh.
Qed.

(* THE history theorem: whatever was done before (in-place model changes, seeds, mode numbers,
   earlier calls), a call srf(pos, seed=s) returns the field made from modes_of (present seed,
   the generator's model copy, present mode number); the copy is the field's model, or meq-equal to it *)
Theorem srf_call_fresh m0 n0 s0 ops s shape store :
  let st := srf_run (srf_init m0 n0 s0) ops in
  exists md gm n noise,
    snd (srf_step st (FCall s shape store)) = OField _ _ md gm n noise
    /\ (exists e, md = modes_of e gm n /\ seed_agrees (rm_seed _ _ (f_gen (fst (srf_step st (FCall s shape store))))) e)
    /\ (gm = f_model st \/ meq gm (f_model st) = true)
    /\ n = rm_mode_no _ _ (f_gen (fst (srf_step st (FCall s shape store)))).
Proof.
  intros st.
  assert (Hf : rm_fresh Model Modes modes_of (f_gen st)).
  { apply srf_run_gen_fresh. simpl. apply rm_reset_fresh. }
  set (g1 := fst (rm_step (f_gen st) (RUpdate _ (Some (f_model st)) s))).
  assert (H1 : rm_fresh Model Modes modes_of g1) by (apply rm_step_fresh; exact Hf).
  assert (Ht : rm_model _ _ g1 = f_model st
               \/ (meq (rm_model _ _ (f_gen st)) (f_model st) = true /\ rm_model _ _ g1 = rm_model _ _ (f_gen st)))
    by (apply rm_update_tracks).
  assert (Hs : srf_step st (FCall s shape store)
          = (mkSrf (f_model st) (fst (rm_step g1 (RCall _ shape true)))
               (match store with Some n => store_set (f_store st) n (snd (rm_step g1 (RCall _ shape true))) | None => f_store st end),
             snd (rm_step g1 (RCall _ shape true)))) by reflexivity.
  rewrite Hs. clear Hs. clearbody g1. destruct H1 as [Hm Ha]. simpl.
  destruct (nugget_pos (rm_model _ _ g1)); simpl;
    (eexists; eexists; eexists; eexists; split; [reflexivity|]; split; [eexists; split; [exact Hm|exact Ha]|]; split; [|reflexivity]);
    (destruct Ht as [Ht|[Ht1 Ht2]]; [left; exact Ht|right; rewrite Ht2; exact Ht1]).
Qed.

(* if CovModel.__eq__ were exact, the copy would always be the field's model ... *)
Corollary srf_call_fresh_exact m0 n0 s0 ops s shape store :
  (forall a b, meq a b = true -> a = b) ->
  let st := srf_run (srf_init m0 n0 s0) ops in
  exists md n noise e, snd (srf_step st (FCall s shape store)) = OField _ _ md (f_model st) n noise
    /\ md = modes_of e (f_model st) n.
Proof.
  intros Hex st. destruct (srf_call_fresh m0 n0 s0 ops s shape store) as [md [gm [n [noise [H1 [[e [H2 _]] [H3 _]]]]]]].
  fold st in H1, H3. assert (gm = f_model st) by (destruct H3; auto). subst gm. eauto 8.
Qed.

(* ... but it is not (np.isclose): whenever compare conflates two different models, a history
   exists after which the generator still works with the old one — finding (c) *)
Theorem srf_isclose_stale m1 m2 n s : meq m1 m2 = true -> m1 <> m2 ->
  exists ops, let st := srf_run (srf_init m1 n s) ops in
    forall s' shape store, exists md k noise,
      snd (srf_step st (FCall s' shape store)) = OField _ _ md m1 k noise /\ f_model st = m2.
Proof.
  intros He Hne. exists [FMod (fun _ => m2)]. simpl. intros s' shape store.
  rewrite He. simpl.
  assert (Hm' : rm_model _ _ (if is_nan s' then rm_init m1 n s else rm_set_seed Model Modes modes_of mode_draws same (rm_init m1 n s) s') = m1).
  { destruct (is_nan s'); auto. unfold rm_set_seed. destruct (same s' _); auto. }
  destruct (is_nan s'); simpl in *; try rewrite Hm'; destruct (nugget_pos m1); simpl; eauto.
Qed.

(* ---- the store name never influences what is generated *)
Definition rename_op (r : Name -> Name) (o : srf_op) : srf_op :=
  match o with FCall s sh (Some n) => FCall s sh (Some (r n)) | x => x end.
Definition drop_store (o : srf_op) : srf_op :=
  match o with FCall s sh _ => FCall s sh None | x => x end.

Lemma srf_step_drop st st' o : f_model st = f_model st' -> f_gen st = f_gen st' ->
  snd (srf_step st o) = snd (srf_step st' (drop_store o))
  /\ f_model (fst (srf_step st o)) = f_model (fst (srf_step st' (drop_store o)))
  /\ f_gen (fst (srf_step st o)) = f_gen (fst (srf_step st' (drop_store o))).
Proof.
  intros Hm Hg. destruct o as [f|s sh store|g]; simpl; rewrite <- ?Hm, <- ?Hg; auto.
Qed.

Theorem srf_store_name_irrelevant st ops1 ops2 :
  map drop_store ops1 = map drop_store ops2 -> srf_outs st ops1 = srf_outs st ops2.
Proof.
  assert (G : forall ops st st', f_model st = f_model st' -> f_gen st = f_gen st' ->
            srf_outs st ops = srf_outs st' (map drop_store ops)).
  { induction ops as [|o ops IH]; intros s1 s2 Hm Hg; simpl; auto.
    destruct (srf_step_drop s1 s2 o Hm Hg) as [H1 [H2 H3]]. f_equal; auto. }
  intros H. rewrite (G ops1 st st), (G ops2 st st) by reflexivity. now rewrite H.
Qed.

(* what is stored under the name is exactly what was returned *)
Lemma srf_store_get st s shape n (Hn : name_eqb n n = true) :
  match f_store (fst (srf_step st (FCall s shape (Some n)))) with
  | (n', v) :: _ => n' = n /\ v = snd (srf_step st (FCall s shape (Some n)))
  | [] => False
  end.
Proof.
  simpl. auto.
Qed.
End SRF.

(* ================================================================== seed identity is irrelevant (value comparison) *)
Section SeedTokens.
Variable Model : Type.
Variable meq : Model -> Model -> bool.
Variable nugget_pos : Model -> bool.
Variable Modes : Type.
Variable modes_of : eseed -> Model -> nat -> Modes.
Variable mode_draws : Model -> nat.
Notation rm := (rm Model Modes).
Notation stepv := (rm_step Model meq nugget_pos Modes modes_of mode_draws same_value).

Definition strip_rm (st : rm) : rm :=
  mkRm _ _ (rm_model _ _ st) (strip_seed (rm_seed _ _ st)) (rm_eseed _ _ st) (rm_mode_no _ _ st) (rm_modes _ _ st)
       (rm_ent _ _ st) (rm_resets _ _ st) (rm_pos _ _ st).
Definition strip_op (o : rm_op Model) : rm_op Model :=
  match o with
  | RUpdate _ m s => RUpdate _ m (strip_arg s)
  | RSetSeed _ s => RSetSeed _ (strip_arg s)
  | RResetSeed _ s => RResetSeed _ (strip_arg s)
  | x => x
  end.

Lemma strip_reset m n st s :
  strip_rm (rm_reset Model Modes modes_of mode_draws m n st s)
  = rm_reset Model Modes modes_of mode_draws m n (strip_rm st) (strip_arg s).
Proof.
  unfold rm_reset, strip_rm. simpl. rewrite <- store_seed_strip.
  rewrite seed_of_strip. reflexivity.
Qed.
Lemma is_nan_strip s : is_nan (strip_arg s) = is_nan s.
Proof. destruct s; reflexivity. Qed.

Lemma strip_set_seed st s :
  strip_rm (rm_set_seed Model Modes modes_of mode_draws same_value st s)
  = rm_set_seed Model Modes modes_of mode_draws same_value (strip_rm st) (strip_arg s).
Proof.
  unfold rm_set_seed. simpl. rewrite same_value_strip. destruct (same_value s (rm_seed _ _ st)); auto.
  unfold rm_reset_seed. apply strip_reset.
Qed.

Lemma strip_step st o :
  strip_rm (fst (stepv st o)) = fst (stepv (strip_rm st) (strip_op o))
  /\ snd (stepv st o) = snd (stepv (strip_rm st) (strip_op o)).
Proof.
  destruct o as [[m|] s|s|s|n|shape add]; simpl.
  - destruct (negb (meq (rm_model _ _ st) m)); simpl; [split; auto; apply strip_reset|].
    rewrite is_nan_strip. destruct (is_nan s); simpl; auto. split; auto. apply strip_set_seed.
  - rewrite is_nan_strip. destruct (is_nan s); simpl; auto. split; auto. apply strip_set_seed.
  - split; auto. apply strip_set_seed.
  - split; auto. apply strip_reset.
  - destruct (Nat.eqb n (rm_mode_no _ _ st)); simpl; auto. split; auto. apply (strip_reset _ _ st SNan).
  - destruct (add && nugget_pos (rm_model _ _ st)); simpl; auto.
Qed.

(* two histories that differ only in WHICH OBJECTS hold the seed values produce the same outputs
   (same modes, same model, same noise sub-stream): equal histories give equal nugget noise *)
Theorem seed_identity_irrelevant st1 st2 ops1 ops2 :
  strip_rm st1 = strip_rm st2 -> map strip_op ops1 = map strip_op ops2 ->
  rm_outs Model meq nugget_pos Modes modes_of mode_draws same_value st1 ops1
  = rm_outs Model meq nugget_pos Modes modes_of mode_draws same_value st2 ops2.
Proof.
  revert st1 st2 ops2. induction ops1 as [|o1 ops1 IH]; intros st1 st2 [|o2 ops2] Hs Ho; simpl in *; try discriminate; auto.
  injection Ho as Ho1 Ho2.
  destruct (strip_step st1 o1) as [A1 B1]. destruct (strip_step st2 o2) as [A2 B2].
  f_equal.
  - rewrite B1, B2, Hs, Ho1. reflexivity.
  - apply IH; auto. rewrite A1, A2, Hs, Ho1. reflexivity.
Qed.
End SeedTokens.

(* the same statement is FALSE for identity comparison (the code before the fix): witness *)
Section IdentityRefuted.
Definition toy_modes := (eseed * nat * nat)%type.
Definition toy_step := rm_step nat Nat.eqb (fun _ => true) toy_modes (fun e m n => (e, m, n)) (fun _ => 4) same_identity.
Definition toy_init := rm_init nat toy_modes (fun e m n => (e, m, n)) (fun _ => 4).
Definition toy_outs := rm_outs nat Nat.eqb (fun _ => true) toy_modes (fun e m n => (e, m, n)) (fun _ => 4) same_identity.

(* srf = SRF(model, seed=s); srf(pos); srf(pos, seed=s')  with s' the same object / an equal value in another object *)
Definition hist_same : list (rm_op nat) := [RCall _ 3 true; RUpdate _ (Some 7) (SInt 100000 1); RCall _ 3 true].
Definition hist_other : list (rm_op nat) := [RCall _ 3 true; RUpdate _ (Some 7) (SInt 100000 2); RCall _ 3 true].

Lemma identity_compare_refuted :
  map (strip_op nat) hist_same = map (strip_op nat) hist_other
  /\ toy_outs (toy_init 7 10 (SInt 100000 1)) hist_same <> toy_outs (toy_init 7 10 (SInt 100000 1)) hist_other.
Proof. split; [reflexivity|]. vm_compute. intros H. discriminate H. Qed.
End IdentityRefuted.

(* ================================================================== Fourier *)
Section Fourier.
Variable Model : Type.
Variable meq : Model -> Model -> bool.
Variable nugget_pos : Model -> bool.
Variable mdim : Model -> nat.
Hypothesis mdim_pos : forall m, 0 < mdim m.
Variables Per Delta Grid ZS SF : Type.
Variable delta_of : list Per -> Model -> Delta.      (* 2 pi / period * [1, anis...] *)
Variable grid_of : list nat -> Delta -> nat -> Grid. (* _set_modes: the arange per axis + generate_grid *)
Variable glens : Grid -> list nat.                   (* [len(m) for m in modes] *)
Variable zs_of : eseed -> nat -> ZS.                 (* (z_1, z_2) *)
Variable sf_of : Model -> Grid -> Delta -> SF.       (* sqrt(spectrum(|k|) * prod(delta_k)) *)
Variable same : seedarg -> sseed -> bool.
(* arange(-n/2*dk, n/2*dk, dk) has n entries (checked per case by the correspondence) *)
Hypothesis glens_grid : forall n dl dim, length n = dim -> glens (grid_of n dl dim) = n.
(* CovModel.__eq__ taken as exact here; with np.isclose a model change below the tolerance together with
   an explicit mode_no leaves delta_k computed from the old anisotropy: finding (c), see srf_isclose_stale *)
Hypothesis meq_exact : forall a b, meq a b = true -> a = b.

Record fo := mkFo {
  fo_model : Model; fo_seed : sseed; fo_eseed : eseed;
  fo_period : list Per; fo_mode_no : list nat;
  fo_delta : Delta; fo_grid : Grid; fo_zs : ZS; fo_sf : SF;
  fo_ent : nat; fo_resets : nat; fo_pos : nat
}.

Definition fo_reset (m : Model) (st : fo) (s : seedarg) : fo :=
  let k := store_seed s (fo_seed st) in
  let se := seed_of k (fo_ent st) in
  mkFo m k (fst se) (fo_period st) (fo_mode_no st) (fo_delta st) (fo_grid st)
       (zs_of (fst se) (prodn (fo_mode_no st))) (sf_of m (fo_grid st) (fo_delta st)) (snd se) (S (fo_resets st)) 2.
Definition fo_set_seed st s := if same s (fo_seed st) then st else fo_reset (fo_model st) st s.
Definition fo_set_modes (st : fo) (n : list nat) (dim : nat) : fo :=
  let g := grid_of n (fo_delta st) dim in
  mkFo (fo_model st) (fo_seed st) (fo_eseed st) (fo_period st) (glens g) (fo_delta st) g (fo_zs st) (fo_sf st)
       (fo_ent st) (fo_resets st) (fo_pos st).
Definition fo_set_period (st : fo) (p : list Per) (m : Model) : fo :=
  mkFo (fo_model st) (fo_seed st) (fo_eseed st) p (fo_mode_no st) (delta_of p m) (fo_grid st) (fo_zs st) (fo_sf st)
       (fo_ent st) (fo_resets st) (fo_pos st).
Definition isSome {A} (o : option A) : bool := match o with Some _ => true | None => false end.

(* Fourier.update(model, seed, period, mode_no) on an initialised generator; None = it raises *)
Definition fo_update (st : fo) (m : option Model) (s : seedarg) (per : option (list Per)) (mn : option (list nat)) : option fo :=
  let tmp := match m with Some m' => m' | None => fo_model st end in
  let dim := mdim tmp in
  let changed := match m with Some m' => negb (meq (fo_model st) m') | None => false end in
  let per := match per with Some p => Some p | None => if changed then Some (fo_period st) else None end in
  let st1 := match per with
             | None => Some st
             | Some p => match fill p dim with
                         | None => None
                         | Some p' => let st' := fo_set_period st p' tmp in
                             match mn with
                             | Some _ => Some st'
                             | None => match fill (fo_mode_no st) dim with
                                       | None => None
                                       | Some n' => Some (fo_set_modes st' n' dim)
                                       end
                             end
                         end
             end in
  match st1 with None => None | Some st1 =>
  let st2 := match mn with
             | None => Some st1
             | Some n => match fill n dim with
                         | None => None
                         | Some n' => if existsb Nat.odd n' then None else Some (fo_set_modes st1 n' dim)
                         end
             end in
  match st2 with None => None | Some st2 =>
  let mesh := isSome per || isSome mn in
  match m with
  | Some m' => if changed || mesh then Some (fo_reset m' st2 s)
               else if is_nan s then Some st2 else Some (fo_set_seed st2 s)
  | None => if is_nan s then (if mesh then Some (fo_reset (fo_model st2) st2 SNan) else None)
            else if mesh then Some (fo_reset (fo_model st2) st2 s) else Some (fo_set_seed st2 s)
  end end end.

(* Fourier.__init__(model, period, mode_no, seed) *)
Definition fo_init (m : Model) (per : list Per) (mn : list nat) (s : seedarg) : option fo :=
  let dim := mdim m in
  match fill per dim, fill mn dim with
  | Some p', Some n' =>
      if existsb Nat.odd n' then None else
      let dl := delta_of p' m in let g := grid_of n' dl dim in
      Some (fo_reset m (mkFo m KNone (EEnt 0) p' (glens g) dl g (zs_of (EEnt 0) 0) (sf_of m g dl) 0 0 0) s)
  | _, _ => None
  end.

Inductive fo_op :=
| UUpdate (m : option Model) (s : seedarg) (per : option (list Per)) (mn : option (list nat))
| USetSeed (s : seedarg) | UResetSeed (s : seedarg)
| UCall (shape : nat) (add_nugget : bool).
(* the period / mode_no setters are update(period=p) / update(mode_no=n) *)

Inductive fo_out := UNothing | UField (g : Grid) (zs : ZS) (sf : SF) (noise : option (eseed * nat * nat)).

Definition fo_step (st : fo) (o : fo_op) : option (fo * fo_out) :=
  match o with
  | UUpdate m s per mn => match fo_update st m s per mn with Some st' => Some (st', UNothing) | None => None end
  | USetSeed s => Some (fo_set_seed st s, UNothing)
  | UResetSeed s => Some (fo_reset (fo_model st) st s, UNothing)
  | UCall shape add =>
      if add && nugget_pos (fo_model st)
      then Some (mkFo (fo_model st) (fo_seed st) (fo_eseed st) (fo_period st) (fo_mode_no st) (fo_delta st) (fo_grid st)
                      (fo_zs st) (fo_sf st) (fo_ent st) (fo_resets st) (S (fo_pos st)),
                 UField (fo_grid st) (fo_zs st) (fo_sf st) (Some (fo_eseed st, fo_pos st, shape)))
      else Some (st, UField (fo_grid st) (fo_zs st) (fo_sf st) None)
  end.
(* a history in which no operation raises *)
Fixpoint fo_run (st : fo) (ops : list fo_op) : option fo :=
  match ops with
  | [] => Some st
  | o :: t => match fo_step st o with Some (st', _) => fo_run st' t | None => None end
  end.

(* ---- invariant: every derived quantity is the one of a fresh generator with the present settings *)
Record fo_fresh (st : fo) : Prop := {
  ff_plen : length (fo_period st) = mdim (fo_model st);
  ff_nlen : length (fo_mode_no st) = mdim (fo_model st);
  ff_even : Forall (fun n => Nat.odd n = false) (fo_mode_no st);
  ff_delta : fo_delta st = delta_of (fo_period st) (fo_model st);
  ff_grid : fo_grid st = grid_of (fo_mode_no st) (fo_delta st) (mdim (fo_model st));
  ff_zs : fo_zs st = zs_of (fo_eseed st) (prodn (fo_mode_no st));
  ff_sf : fo_sf st = sf_of (fo_model st) (fo_grid st) (fo_delta st);
  ff_seed : seed_agrees (fo_seed st) (fo_eseed st)
}.

(* the grid part alone (what must hold for the model [m] the grid was computed for) *)
Definition grid_ok (m : Model) (st : fo) : Prop :=
  length (fo_period st) = mdim m /\ length (fo_mode_no st) = mdim m
  /\ Forall (fun n => Nat.odd n = false) (fo_mode_no st)
  /\ fo_delta st = delta_of (fo_period st) m
  /\ fo_grid st = grid_of (fo_mode_no st) (fo_delta st) (mdim m).

Lemma fo_reset_fresh m st s : grid_ok m st -> fo_fresh (fo_reset m st s).
Proof.
  intros [H1 [H2 [H3 [H4 H5]]]]. unfold fo_reset.
  destruct (store_seed s (fo_seed st)) as [|v t]; simpl; constructor; simpl; eauto.
Qed.
Lemma fresh_grid_ok st : fo_fresh st -> grid_ok (fo_model st) st.
Proof. intros []. unfold grid_ok. auto. Qed.

Lemma existsb_odd_false l : existsb Nat.odd l = false -> Forall (fun n => Nat.odd n = false) l.
Proof. induction l as [|a l IH]; simpl; auto. intros H. apply orb_false_iff in H. destruct H. constructor; auto. Qed.

Lemma fo_set_seed_fresh st s : fo_fresh st -> fo_fresh (fo_set_seed st s).
Proof. intros H. unfold fo_set_seed. destruct (same s (fo_seed st)); auto. apply fo_reset_fresh. now apply fresh_grid_ok. Qed.

Lemma fo_update_fresh st m s per mn st' : fo_fresh st -> fo_update st m s per mn = Some st' -> fo_fresh st'.
Proof.
  intros Hf. unfold fo_update.
  set (tmp := match m with Some m' => m' | None => fo_model st end).
  set (changed := match m with Some m' => negb (meq (fo_model st) m') | None => false end).
  set (per' := match per with Some p => Some p | None => if changed then Some (fo_period st) else None end).
  assert (Htmp : changed = false -> tmp = fo_model st).
  { unfold changed, tmp. destruct m as [m'|]; auto. intros H. apply negb_false_iff in H. symmetry. now apply meq_exact. }
  assert (Hper : per' = None -> changed = false).
  { unfold per'. destruct per; [discriminate|]. destruct changed; [discriminate|reflexivity]. }
  set (blk1 := match per' with
             | None => Some st
             | Some p => match fill p (mdim tmp) with
                         | None => None
                         | Some p' => let st' := fo_set_period st p' tmp in
                             match mn with
                             | Some _ => Some st'
                             | None => match fill (fo_mode_no st) (mdim tmp) with
                                       | None => None
                                       | Some n' => Some (fo_set_modes st' n' (mdim tmp))
                                       end
                             end
                         end
             end).
  (* after the grid block: if the mesh was touched the grid fits [tmp], else nothing happened *)
  assert (G : forall st2,
     match blk1 with None => None | Some st1 =>
       match mn with
       | None => Some st1
       | Some n => match fill n (mdim tmp) with
                   | None => None
                   | Some n' => if existsb Nat.odd n' then None else Some (fo_set_modes st1 n' (mdim tmp))
                   end
       end end = Some st2 ->
     fo_model st2 = fo_model st /\ fo_seed st2 = fo_seed st /\ fo_eseed st2 = fo_eseed st /\
     (if isSome per' || isSome mn then grid_ok tmp st2 else st2 = st)).
  { intros st2. unfold blk1. destruct Hf as [P1 P2 P3 P4 P5 P6 P7 P8].
    destruct per' as [p|].
    - destruct (fill p (mdim tmp)) as [p'|] eqn:Ep; [|discriminate].
      pose proof (fill_length _ _ _ Ep) as Lp.
      destruct mn as [n|].
      + destruct (fill n (mdim tmp)) as [n'|] eqn:En; [|discriminate].
        destruct (existsb Nat.odd n') eqn:Eo; [discriminate|]. intros [= <-]. simpl.
        pose proof (fill_length _ _ _ En) as Ln.
        unfold grid_ok; simpl. rewrite glens_grid by auto.
        repeat split; auto. now apply existsb_odd_false.
      + destruct (fill (fo_mode_no st) (mdim tmp)) as [n'|] eqn:En; [|discriminate]. intros [= <-]. simpl.
        pose proof (fill_length _ _ _ En) as Ln.
        unfold grid_ok; simpl. rewrite glens_grid by auto.
        repeat split; auto. eapply fill_Forall; eauto.
    - rewrite (Htmp (Hper eq_refl)) in *.
      destruct mn as [n|].
      + destruct (fill n (mdim (fo_model st))) as [n'|] eqn:En; [|discriminate].
        destruct (existsb Nat.odd n') eqn:Eo; [discriminate|]. intros [= <-]. simpl.
        pose proof (fill_length _ _ _ En) as Ln.
        unfold grid_ok; simpl. rewrite glens_grid by auto.
        repeat split; auto. now apply existsb_odd_false.
      + intros [= <-]. simpl. auto. }
  destruct blk1 as [st1|]; [|discriminate].
  destruct (match mn with
       | None => Some st1
       | Some n => match fill n (mdim tmp) with
                   | None => None
                   | Some n' => if existsb Nat.odd n' then None else Some (fo_set_modes st1 n' (mdim tmp))
                   end
       end) as [st2|] eqn:E2; [|discriminate].
  destruct (G st2 eq_refl) as [Gm [Gs [Ge Gg]]]. clear G.
  destruct (isSome per' || isSome mn) eqn:Emesh.
  - (* mesh modified: always a reset, with a grid that fits the model kept *)
    destruct m as [m'|].
    + rewrite orb_true_r. intros [= <-]. apply fo_reset_fresh. exact Gg.
    + destruct (is_nan s); intros [= <-]; apply fo_reset_fresh; rewrite Gm; exact Gg.
  - subst st2. assert (Hc : changed = false).
    { apply Hper. destruct per'; [discriminate|reflexivity]. }
    destruct m as [m'|].
    + rewrite Hc. simpl. destruct (is_nan s); intros [= <-]; auto. now apply fo_set_seed_fresh.
    + destruct (is_nan s); [discriminate|]. intros [= <-]. now apply fo_set_seed_fresh.
Qed.

Lemma fo_step_fresh st o st' out : fo_fresh st -> fo_step st o = Some (st', out) -> fo_fresh st'.
Proof.
  intros Hf. destruct o as [m s per mn|s|s|shape add]; simpl.
  - destruct (fo_update st m s per mn) eqn:E; [|discriminate]. intros [= <- _]. eapply fo_update_fresh; eauto.
  - intros [= <- _]. now apply fo_set_seed_fresh.
  - intros [= <- _]. apply fo_reset_fresh. now apply fresh_grid_ok.
  - destruct (add && nugget_pos (fo_model st)); intros [= <- _]; auto.
    destruct Hf. constructor; simpl; auto.
Qed.

Lemma fo_init_fresh m per mn s st : fo_init m per mn s = Some st -> fo_fresh st.
Proof.
  unfold fo_init. destruct (fill per (mdim m)) as [p'|] eqn:Ep; [|discriminate].
  destruct (fill mn (mdim m)) as [n'|] eqn:En; [|discriminate].
  destruct (existsb Nat.odd n') eqn:Eo; [discriminate|]. intros [= <-].
  pose proof (fill_length _ _ _ Ep). pose proof (fill_length _ _ _ En).
  apply fo_reset_fresh. unfold grid_ok; simpl. rewrite glens_grid by auto.
  repeat split; auto. now apply existsb_odd_false.
Qed.

(* after ANY history of operations that do not raise, every derived quantity of the Fourier generator
   (delta_k, mode grid, random amplitudes, spectrum factor) is the one computed from the PRESENT
   model copy, period, mode numbers and seed *)
Theorem fo_modes_fresh m per mn s st0 ops st :
  fo_init m per mn s = Some st0 -> fo_run st0 ops = Some st -> fo_fresh st.
Proof.
  intros Hi. pose proof (fo_init_fresh _ _ _ _ _ Hi) as Hf. clear Hi. revert st0 Hf.
  induction ops as [|o ops IH]; intros st0 Hf; simpl.
  - intros [= <-]. exact Hf.
  - destruct (fo_step st0 o) as [[st1 out]|] eqn:E; [|discriminate]. apply IH. eapply fo_step_fresh; eauto.
Qed.

(* ... i.e. the state of a freshly constructed Fourier(model, period, mode_no, seed) *)
Definition fo_core (st : fo) := (fo_model st, fo_period st, fo_mode_no st, fo_delta st, fo_grid st, fo_zs st, fo_sf st).

Corollary fo_as_fresh_generator m per mn s st0 ops st v t :
  fo_init m per mn s = Some st0 -> fo_run st0 ops = Some st -> fo_seed st = KInt v t ->
  exists st', fo_init (fo_model st) (fo_period st) (fo_mode_no st) (SInt v t) = Some st' /\ fo_core st' = fo_core st.
Proof.
  intros Hi Hr Hs. destruct (fo_modes_fresh _ _ _ _ _ _ _ Hi Hr) as [P1 P2 P3 P4 P5 P6 P7 P8].
  unfold fo_init. rewrite (fill_id _ _ P1 (mdim_pos _)), (fill_id _ _ P2 (mdim_pos _)).
  assert (Eo : existsb Nat.odd (fo_mode_no st) = false).
  { clear -P3. induction P3 as [|a l Ha Hl IH]; simpl; auto. now rewrite Ha, IH. }
  rewrite Eo. eexists. split; [reflexivity|].
  rewrite Hs in P8. simpl in P8.
  unfold fo_reset, fo_core. simpl. rewrite glens_grid by auto.
  rewrite P6, P7, P5, P4, P8. reflexivity.
Qed.

End Fourier.
