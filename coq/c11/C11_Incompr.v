(* C11_Incompr.v — locality of the translated summate_incompr (IncomprRandMeth): the sequential kernel
   with its scratch vector [proj] equals, entry by entry, a per-location sum.  Generic number type. *)
From Coq Require Import ZArith List Bool Arith Lia.
From GS Require Import Num Loops Cellwise Summator_gen C15_KernelSpec C15_Cols C11_Pointwise C11_Main.
Import ListNotations.

Section FoldOnce.
Context {S : Type}.
Lemma fold_left_id {B} (l : list B) (a : S) : fold_left (fun acc _ => acc) l a = a.
Proof. induction l; simpl; auto. Qed.

Lemma fold_never (g : nat -> S -> S) (c : nat -> bool) l a :
  (forall k, In k l -> c k = false) -> fold_left (fun acc k => if c k then g k acc else acc) l a = a.
Proof.
  revert a; induction l as [|k l IH]; intros a H; simpl; auto.
  rewrite (H k) by (left; auto). apply IH. intros; apply H; right; auto.
Qed.

Lemma fold_once (g : nat -> S -> S) k0 lo len a : lo <= k0 < lo + len ->
  fold_left (fun acc k => if Nat.eqb k k0 then g k acc else acc) (seq lo len) a = g k0 a.
Proof.
  revert lo a. induction len as [|len IH]; intros lo a H; [lia|]. simpl.
  destruct (Nat.eqb lo k0) eqn:E.
  - apply Nat.eqb_eq in E. subst. apply fold_never. intros k Hk. apply in_seq in Hk. apply Nat.eqb_neq. lia.
  - apply Nat.eqb_neq in E. apply IH. lia.
Qed.
End FoldOnce.

Section Incompr.
Context {T : Type} (O : NumOps T).
Notation z := (n0 O).

(* projector entry p_d(k_j) = e1_d - k_d k_0 / |k|^2, exactly as the kernel computes it *)
Definition proj_val (ks : list (list T)) (dim d j : nat) : T :=
  nsub O (aget z (aupd (repeat z dim) 0 (n1 O)) d)
         (ndiv O (nmul O (aget2 z ks d j) (aget2 z ks 0 j)) (abs_square O (acol z ks j))).
(* component d of the incompressible sum at ONE location x *)
Definition ic_point ks z1 z2 (dim d : nat) (x : list T) : T :=
  for_ 0 (shape1 ks) (fun j acc => nadd O acc (nmul O (proj_val ks dim d j) (wave O z1 z2 (phase_x O ks x j) j))) z.

Definition ic_step ks z1 z2 pos (st : list T * list (list T)) (t : nat * nat * nat) : list T * list (list T) :=
  let '(i, j, d) := t in
  let proj := aupd (fst st) d (proj_val ks (shape0 pos) d j) in
  (proj, aupd2 (snd st) d i (nadd O (aget2 z (snd st) d i)
                                (nmul O (aget z proj d) (wave O z1 z2 (phase_of O ks pos j i) j)))).
Definition triples (n N dim : nat) : list (nat * nat * nat) :=
  flat_map (fun i => flat_map (fun j => map (fun d => (i, j, d)) (seq 0 dim)) (seq 0 N)) (seq 0 n).

(* the loop nest is one fold over the (i, j, d) triples in lexicographic order *)
Lemma summate_incompr_as_fold ks z1 z2 pos :
  summate_incompr O ks z1 z2 pos
  = snd (fold_left (ic_step ks z1 z2 pos) (triples (shape1 pos) (shape1 ks) (shape0 pos))
                   (repeat z (shape0 pos), repeat (repeat z (shape1 pos)) (shape0 pos))).
Proof.
  unfold summate_incompr. cbv zeta.
  match goal with |- (let '(_, s) := ?X in s) = _ => transitivity (snd X); [destruct X; reflexivity|] end.
  f_equal. unfold triples, for_. rewrite !Nat.sub_0_r. rewrite fold_left_flat_map.
  apply fold_left_ext_in. intros i [p s] _. rewrite let_pair_id.
  transitivity (fold_left (fun st0 j => fold_left (ic_step ks z1 z2 pos) (map (fun d => (i, j, d)) (seq 0 (shape0 pos))) st0)
                          (seq 0 (shape1 ks)) (p, s)).
  2:{ now rewrite fold_left_flat_map. }
  apply fold_left_ext_in. intros j [p1 s1] _. rewrite let_pair_id.
  rewrite fold_left_map. apply fold_left_ext_in. intros d [p2 s2] _.
  unfold ic_step, wave, phase_of, for_. simpl fst. simpl snd. rewrite !Nat.sub_0_r. reflexivity.
Qed.

(* how one cell of the result evolves along any list of triples *)
Definition cellf ks z1 z2 pos (d' i' : nat) (acc : T) (t : nat * nat * nat) : T :=
  let '(i, j, d) := t in
  if Nat.eqb d d' && Nat.eqb i i'
  then nadd O acc (nmul O (proj_val ks (shape0 pos) d j) (wave O z1 z2 (phase_of O ks pos j i) j))
  else acc.

Lemma ic_fold_cells ks z1 z2 pos dim n (l : list (nat * nat * nat)) st :
  (forall i j d, In (i, j, d) l -> d < dim) -> length (fst st) = dim -> rect dim n (snd st) ->
  let st' := fold_left (ic_step ks z1 z2 pos) l st in
  length (fst st') = dim /\ rect dim n (snd st')
  /\ forall d' i', d' < dim -> i' < n ->
       aget2 z (snd st') d' i' = fold_left (cellf ks z1 z2 pos d' i') l (aget2 z (snd st) d' i').
Proof.
  revert st. induction l as [|[[i j] d] l IH]; intros st Hl Hp Hr.
  - simpl. repeat split; auto; apply Hr.
  - assert (Hd : d < dim) by (apply (Hl i j d); left; auto).
    cbn [fold_left].
    set (st1 := ic_step ks z1 z2 pos st (i, j, d)).
    assert (H1 : length (fst st1) = dim) by (unfold st1; simpl; now rewrite aupd_length).
    assert (H2 : rect dim n (snd st1)) by (unfold st1; simpl; now apply rect_aupd2).
    destruct (IH st1 (fun i0 j0 d0 H => Hl i0 j0 d0 (or_intror H)) H1 H2) as [A [B Cc]].
    split; [exact A|]. split; [exact B|]. intros d' i' Hd' Hi'. rewrite (Cc d' i' Hd' Hi'). f_equal.
    unfold st1. simpl.
    destruct (Nat.eqb_spec d d') as [E1|E1]; destruct (Nat.eqb_spec i i') as [E2|E2]; simpl.
    + subst d' i'. rewrite (aget2_aupd2_same z dim n) by auto. rewrite aget_aupd_same by (rewrite Hp; auto). reflexivity.
    + apply (aget2_aupd2_other z dim n); auto.
    + apply (aget2_aupd2_other z dim n); auto.
    + apply (aget2_aupd2_other z dim n); auto.
Qed.

(* along the lexicographic triples, cell (d', i') collects exactly the modes j = 0..N-1 of location i' *)
Lemma cell_fold_triples ks z1 z2 pos n N dim d' i' a : d' < dim -> i' < n ->
  fold_left (cellf ks z1 z2 pos d' i') (triples n N dim) a
  = for_ 0 N (fun j acc => nadd O acc (nmul O (proj_val ks (shape0 pos) d' j) (wave O z1 z2 (phase_of O ks pos j i') j))) a.
Proof.
  intros Hd Hi. unfold triples. rewrite fold_left_flat_map.
  set (G := fun (i : nat) (acc : T) =>
              for_ 0 N (fun j acc0 => nadd O acc0 (nmul O (proj_val ks (shape0 pos) d' j) (wave O z1 z2 (phase_of O ks pos j i) j))) acc).
  transitivity (fold_left (fun acc i => if Nat.eqb i i' then G i acc else acc) (seq 0 n) a).
  2:{ rewrite (fold_once G i' 0 n a) by lia. reflexivity. }
  apply fold_left_ext_in. intros i acc _. rewrite fold_left_flat_map.
  destruct (Nat.eqb i i') eqn:E2.
  - unfold G, for_. rewrite Nat.sub_0_r. apply fold_left_ext_in. intros j acc0 _. rewrite fold_left_map.
    transitivity (fold_left (fun acc1 d => if Nat.eqb d d'
                    then (fun d0 acc2 => nadd O acc2 (nmul O (proj_val ks (shape0 pos) d0 j) (wave O z1 z2 (phase_of O ks pos j i) j))) d acc1
                    else acc1) (seq 0 dim) acc0).
    + apply fold_left_ext_in. intros d acc1 _. unfold cellf. rewrite E2, andb_true_r. reflexivity.
    + rewrite (fold_once (fun d0 acc2 => nadd O acc2 (nmul O (proj_val ks (shape0 pos) d0 j) (wave O z1 z2 (phase_of O ks pos j i) j))) d' 0 dim acc0) by lia.
      reflexivity.
  - transitivity (fold_left (fun (acc0 : T) (_ : nat) => acc0) (seq 0 N) acc); [|apply fold_left_id].
    apply fold_left_ext_in. intros j acc0 _. rewrite fold_left_map.
    transitivity (fold_left (fun (acc1 : T) (_ : nat) => acc1) (seq 0 dim) acc0); [|apply fold_left_id].
    apply fold_left_ext_in. intros d acc1 _. unfold cellf. rewrite E2, andb_false_r. reflexivity.
Qed.

Lemma in_triples n N dim i j d : In (i, j, d) (triples n N dim) -> d < dim.
Proof.
  unfold triples. intros H. apply in_flat_map in H. destruct H as [i0 [_ H]].
  apply in_flat_map in H. destruct H as [j0 [_ H]]. apply in_map_iff in H. destruct H as [d0 [E H]].
  inversion E; subst. apply in_seq in H. lia.
Qed.

(* THE locality statement: row d, column i of the kernel's result is ic_point of location i *)
Theorem summate_incompr_pointwise ks z1 z2 dim pts : 0 < dim -> wf_pts dim pts ->
  summate_incompr O ks z1 z2 (pos_of O dim pts)
  = map (fun d => map (ic_point ks z1 z2 dim d) pts) (seq 0 dim).
Proof.
  intros Hd Hw. rewrite summate_incompr_as_fold.
  rewrite shape0_pos_of, shape1_pos_of by auto.
  set (n := length pts).
  destruct (ic_fold_cells ks z1 z2 (pos_of O dim pts) dim n (triples n (shape1 ks) dim)
              (repeat z dim, repeat (repeat z n) dim)) as [_ [R Cc]].
  { intros i j d H. eapply in_triples; eauto. }
  { simpl. apply repeat_length. }
  { simpl. apply rect_repeat. }
  apply (rect_ext z dim n); [exact R| |].
  - split; [now rewrite map_length, seq_length|]. apply Forall_forall. intros row Hrow.
    apply in_map_iff in Hrow. destruct Hrow as [d [<- _]]. now rewrite map_length.
  - intros d i Hdd Hi. rewrite (Cc d i Hdd Hi). simpl snd. rewrite aget2_repeat.
    rewrite cell_fold_triples by auto. rewrite shape0_pos_of.
    unfold aget2, arow.
    change (nth d (map (fun d0 => map (ic_point ks z1 z2 dim d0) pts) (seq 0 dim)) [])
      with (aget [] (map (fun d0 => map (ic_point ks z1 z2 dim d0) pts) (seq 0 dim)) d).
    rewrite aget_map_seq by auto. unfold aget at 1.
    rewrite (nth_map_in (ic_point ks z1 z2 dim d) pts i [] z) by auto.
    unfold ic_point. apply for_ext. intros j acc _.
    rewrite phase_of_pos_of; auto. apply wf_nth; auto.
Qed.

(* IncomprRandMeth.__call__ : component d at ONE location *)
Definition ic_value (mean_u var : T) (n : nat) ks z1 z2 (dim d : nat) (x : list T) : T :=
  nadd O (nadd O (nmul O mean_u (if Nat.eqb d 0 then n1 O else z))
                 (nmul O (nmul O mean_u (nsqrt O (ndiv O var (nofZ O (Z.of_nat n))))) (ic_point ks z1 z2 dim d x))) z.

Lemma combine_seq_map {B} (f : nat -> B) lo len :
  combine (seq lo len) (map f (seq lo len)) = map (fun d => (d, f d)) (seq lo len).
Proof. revert lo; induction len; intros lo; simpl; auto. now rewrite IHlen. Qed.

Theorem incompr_call_pointwise mean_u var n ks z1 z2 dim pts : 0 < dim -> wf_pts dim pts ->
  incompr_call O mean_u var n ks z1 z2 (pos_of O dim pts)
  = map (fun d => map (ic_value mean_u var n ks z1 z2 dim d) pts) (seq 0 dim).
Proof.
  intros Hd Hw. unfold incompr_call. cbv zeta. rewrite summate_incompr_pointwise by auto.
  rewrite map_length, seq_length, combine_seq_map, map_map.
  apply map_ext. intros d. simpl. rewrite map_map. reflexivity.
Qed.

(* component d of the vector field, as a function of the point list *)
Definition ic_field mean_u var n ks z1 z2 dim d (pts : list (list T)) : list T :=
  nth d (incompr_call O mean_u var n ks z1 z2 (pos_of O dim pts)) [].

Lemma ic_field_is_map mean_u var n ks z1 z2 dim d : 0 < dim -> d < dim ->
  forall pts, wf_pts dim pts -> ic_field mean_u var n ks z1 z2 dim d pts = map (ic_value mean_u var n ks z1 z2 dim d) pts.
Proof.
  intros Hd Hdd pts Hw. unfold ic_field. rewrite incompr_call_pointwise by auto.
  change (nth d (map (fun d0 => map (ic_value mean_u var n ks z1 z2 dim d0) pts) (seq 0 dim)) [])
    with (aget [] (map (fun d0 => map (ic_value mean_u var n ks z1 z2 dim d0) pts) (seq 0 dim)) d).
  now rewrite aget_map_seq.
Qed.

Theorem ic_field_select mean_u var n ks z1 z2 dim d pts idx :
  0 < dim -> d < dim -> wf_pts dim pts -> Forall (fun i => i < length pts) idx ->
  ic_field mean_u var n ks z1 z2 dim d (map (fun i => nth i pts []) idx)
  = map (fun i => nth i (ic_field mean_u var n ks z1 z2 dim d pts) z) idx.
Proof.
  intros Hd Hdd Hw Hi.
  apply (field_select (wf_pts dim) (ic_field mean_u var n ks z1 z2 dim d) (ic_value mean_u var n ks z1 z2 dim d)
           (ic_field_is_map mean_u var n ks z1 z2 dim d Hd Hdd)); auto.
  now apply wf_select.
Qed.

Theorem ic_field_concat mean_u var n ks z1 z2 dim d batches :
  0 < dim -> d < dim -> Forall (wf_pts dim) batches ->
  ic_field mean_u var n ks z1 z2 dim d (concat batches) = concat (map (ic_field mean_u var n ks z1 z2 dim d) batches).
Proof.
  intros Hd Hdd Hw.
  apply (field_concat (wf_pts dim) (ic_field mean_u var n ks z1 z2 dim d) (ic_value mean_u var n ks z1 z2 dim d)
           (ic_field_is_map mean_u var n ks z1 z2 dim d Hd Hdd)); auto. now apply wf_concat.
Qed.

Theorem ic_field_structured mean_u var n ks z1 z2 axes d idx :
  0 < length axes -> d < length axes -> valid_idx axes idx ->
  [nth (flat_index (map (@length T) axes) idx) (ic_field mean_u var n ks z1 z2 (length axes) d (grid_points axes)) z]
  = ic_field mean_u var n ks z1 z2 (length axes) d [point_at z axes idx].
Proof.
  intros Hd Hdd Hv.
  apply (structured_equals_unstructured (ic_field mean_u var n ks z1 z2 (length axes) d) (ic_value mean_u var n ks z1 z2 (length axes) d)
           (length axes) (ic_field_is_map mean_u var n ks z1 z2 (length axes) d Hd Hdd)); auto.
Qed.
End Incompr.
