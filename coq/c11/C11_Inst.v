(* C11_Inst.v — the concrete instance of the generator state machines that is extracted and run
   against /repo: models are parameter vectors compared with np.isclose semantics (covmodel/tools.py
   compare), the RNG oracles are symbolic (a result is "the modes of (seed, model, mode_no)").
   Plus: rational-number witnesses for finding (c). *)
From Coq Require Import ZArith List Bool Arith Lia QArith Qabs.
From GS Require Import Num Loops C11_GenState.
Import ListNotations.

Section Inst.
Context {T : Type} (O : NumOps T).

(* a CovModel as compare() sees it: [cm_tag] identifies (class name, set of optional argument names,
   latlon, temporal) — compared exactly; [cm_dim] compared exactly; [cm_par] =
   [var; var_raw; nugget; len_scale; rescale] ++ anis ++ angles ++ optional arguments — compared with isclose.
   [cm_ppf] : the radial sampling goes through the inversion path (model.has_ppf / sampling="inversion") *)
Record cmodel := mkCM { cm_tag : Z; cm_dim : nat; cm_ppf : bool; cm_par : list T }.

(* np.isclose(a, b) for finite values: |a - b| <= atol + rtol * |b|, rtol = 1e-5, atol = 1e-8 *)
Definition isclose (a b : T) : bool :=
  nleb O (nabs O (nsub O a b)) (nadd O (nlit O 1 8) (nmul O (nlit O 1 5) (nabs O b))).
Fixpoint all_close (l1 l2 : list T) : bool :=
  match l1, l2 with
  | [], [] => true
  | a :: t, b :: u => isclose a b && all_close t u
  | _, _ => false
  end.
(* compare(this, that) *)
Definition compare (this that : cmodel) : bool :=
  Z.eqb (cm_tag this) (cm_tag that) && Nat.eqb (cm_dim this) (cm_dim that) && all_close (cm_par this) (cm_par that).

Definition cm_nugget_pos (m : cmodel) : bool := nltb O (n0 O) (nth 2 (cm_par m) (n0 O)).
(* anis: dim - 1 entries after the five scalars *)
Definition cm_anis (m : cmodel) : list T := firstn (cm_dim m - 1) (skipn 5 (cm_par m)).

(* sub-streams RandMeth.reset_seed takes from the master RNG: z_1, z_2, sample_sphere (one per angle:
   two in 3-D), then sample_dist (1) or sample_ln_pdf (rand, get_state twice, choice = 4) *)
Definition cm_mode_draws (m : cmodel) : nat :=
  2 + (if Nat.eqb (cm_dim m) 3 then 2 else 1) + (if cm_ppf m then 1 else 4).

(* symbolic oracles *)
Definition sym_modes := (eseed * cmodel * nat)%type.
Definition sym_modes_of (e : eseed) (m : cmodel) (n : nat) : sym_modes := (e, m, n).

Definition rmc := rm cmodel sym_modes.
Definition rmc_init : cmodel -> nat -> seedarg -> rmc := rm_init cmodel sym_modes sym_modes_of cm_mode_draws.
Definition rmc_step : rmc -> rm_op cmodel -> rmc * rm_out cmodel sym_modes :=
  rm_step cmodel compare cm_nugget_pos sym_modes sym_modes_of cm_mode_draws same_value.

(* Fourier: delta_k = 2 pi / period * [1, anis...] *)
Fixpoint map2 {A B C} (f : A -> B -> C) (l1 : list A) (l2 : list B) : list C :=
  match l1, l2 with a :: t, b :: u => f a b :: map2 f t u | _, _ => [] end.
Definition cm_delta (p : list T) (m : cmodel) : list T :=
  map2 (fun pd ad => nmul O (ndiv O (nmul O (nlit O 2 0) (npi O)) pd) ad) p (n1 O :: cm_anis m).
Definition sym_grid := (list nat * list T * nat)%type.
Definition sym_grid_of (n : list nat) (dl : list T) (dim : nat) : sym_grid := (n, dl, dim).
Definition sym_glens (g : sym_grid) : list nat := fst (fst g).
Definition sym_zs := (eseed * nat)%type.
Definition sym_sf := (cmodel * sym_grid * list T)%type.

Definition foc := fo cmodel T (list T) sym_grid sym_zs sym_sf.
Definition foc_init : cmodel -> list T -> list nat -> seedarg -> option foc :=
  fo_init cmodel cm_dim T (list T) sym_grid sym_zs sym_sf cm_delta sym_grid_of sym_glens
          (fun e n => (e, n)) (fun m g d => (m, g, d)).
Definition foc_step : foc -> fo_op cmodel T -> option (foc * fo_out sym_grid sym_zs sym_sf) :=
  fo_step cmodel compare cm_nugget_pos cm_dim T (list T) sym_grid sym_zs sym_sf cm_delta sym_grid_of sym_glens
          (fun e n => (e, n)) (fun m g d => (m, g, d)) same_value.

(* the symbolic grid satisfies the hypothesis the Fourier theorems make about arange *)
Lemma sym_glens_grid n dl dim : length n = dim -> sym_glens (sym_grid_of n dl dim) = n.
Proof. reflexivity. Qed.
End Inst.

(* ------------------------------------------------------------------ rational witnesses *)
Definition Qid (x : Q) : Q := x.
Definition Qops11 : NumOps Q :=
  mkNumOps Q 0%Q 1%Q Qplus Qminus Qmult Qdiv Qopp Qabs Qid Qid Qid Qid Qid Qid Qid Qid
    (fun x _ => x) (fun x _ => x)
    (fun x y => negb (Qle_bool y x)) Qle_bool Qeq_bool (fun _ => false) inject_Z 3%Q (fun _ _ => 1%Q).

(* Gaussian(dim=2, var=1, len_scale=2) and the same model after  model.len_scale *= 1 + 5e-6 *)
Definition qm_a : @cmodel Q := mkCM 1%Z 2 true [1; 1; 0; 2; 1; 1; 0]%Q.
Definition qm_b : @cmodel Q := mkCM 1%Z 2 true [1; 1; 0; 2000010 # 1000000; 1; 1; 0]%Q.

Lemma compare_conflates : compare Qops11 qm_a qm_b = true /\ qm_a <> qm_b.
Proof. split; [vm_compute; reflexivity|]. intros H. discriminate H. Qed.

(* finding (c) on the concrete compare: after the in-place change the call still uses the old model *)
Lemma isclose_stale_witness : forall n s,
  exists ops, let st := srf_run (@cmodel Q) (compare Qops11) (cm_nugget_pos Qops11) sym_modes sym_modes_of cm_mode_draws same_value nat Nat.eqb
                         (srf_init (@cmodel Q) sym_modes sym_modes_of cm_mode_draws nat qm_a n s) ops in
    forall s' shape store, exists md k noise,
      snd (srf_step (@cmodel Q) (compare Qops11) (cm_nugget_pos Qops11) sym_modes sym_modes_of cm_mode_draws same_value nat Nat.eqb
             st (FCall _ _ s' shape store)) = OField _ _ md qm_a k noise
      /\ f_model _ _ _ st = qm_b.
Proof.
  intros n s. apply srf_isclose_stale; apply compare_conflates.
Qed.

(* a change above the tolerance is seen *)
Definition qm_c : @cmodel Q := mkCM 1%Z 2 true [1; 1; 0; 2001 # 1000; 1; 1; 0]%Q.
Lemma compare_sees_larger_change : compare Qops11 qm_a qm_c = false.
Proof. vm_compute. reflexivity. Qed.

(* the exactness hypothesis of the Fourier theorems is satisfiable (exact comparison of parameter vectors) *)
Lemma exact_compare_exists : exists meq : nat -> nat -> bool, forall a b, meq a b = true -> a = b.
Proof. exists Nat.eqb. intros a b H. now apply Nat.eqb_eq. Qed.
