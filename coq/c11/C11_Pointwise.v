(* C11_Pointwise.v — locality of the summation kernels: the value at location i depends only on
   column i of the position array.  Built on the C15 refinement theorems (translated kernels =
   defining per-point sums for ANY prange schedule).  Everything is generic in the number type:
   no algebraic law is used, so the statements hold for IEEE doubles as they are (bitwise). *)
From Coq Require Import ZArith List Bool Arith Lia Permutation.
From GS Require Import Num Loops Summator_gen C15_KernelSpec C15_SummatorProofs.
Import ListNotations.

(* ------------------------------------------------------------------ list facts *)
Lemma map_nth_seq {A B} (F : A -> B) (l : list A) (d : A) :
  map (fun i => F (nth i l d)) (seq 0 (length l)) = map F l.
Proof.
  induction l as [|a l IH]; simpl; auto. f_equal.
  rewrite <- seq_shift, map_map. exact IH.
Qed.

Lemma nth_map_in {A B} (g : A -> B) (l : list A) i (da : A) (db : B) :
  i < length l -> nth i (map g l) db = g (nth i l da).
Proof.
  intros H. rewrite nth_indep with (d' := g da) by (now rewrite map_length). apply map_nth.
Qed.

Lemma map_ext_Forall {A B} (P : A -> Prop) (f g : A -> B) l :
  Forall P l -> (forall a, P a -> f a = g a) -> map f l = map g l.
Proof. intros HF H. induction HF; simpl; auto. f_equal; auto. Qed.

(* ------------------------------------------------------------------ points and position arrays *)
Section Pointwise.
Context {T : Type} (O : NumOps T).
Notation z := (n0 O).

(* <k_j, x> accumulated in index order, for ONE location x (its list of coordinates) *)
Definition phase_x (ks : list (list T)) (x : list T) (j : nat) : T :=
  for_ 0 (length x) (fun d ph => nadd O ph (nmul O (aget2 z ks d j) (aget z x d))) z.

(* value of the randomization sum / of the Fourier sum at ONE location *)
Definition rm_point ks z1 z2 (x : list T) : T :=
  for_ 0 (shape1 ks) (fun j acc => nadd O acc (wave O z1 z2 (phase_x ks x j) j)) z.
Definition fo_point sf modes z1 z2 (x : list T) : T :=
  for_ 0 (shape1 modes) (fun j acc => nadd O acc (nmul O (aget z sf j) (wave O z1 z2 (phase_x modes x j) j))) z.

(* the (dim, n) position array of a list of n points — what Field.pre_pos hands to the generator *)
Definition pos_of (dim : nat) (pts : list (list T)) : list (list T) :=
  map (fun d => map (fun p => aget z p d) pts) (seq 0 dim).
Definition wf_pts (dim : nat) (pts : list (list T)) : Prop := Forall (fun p => length p = dim) pts.

Lemma shape0_pos_of dim pts : shape0 (pos_of dim pts) = dim.
Proof. unfold shape0, pos_of. now rewrite map_length, seq_length. Qed.

Lemma arow_pos_of dim pts d : d < dim -> arow (pos_of dim pts) d = map (fun p => aget z p d) pts.
Proof.
  intros H. unfold arow, pos_of.
  change (nth d (map (fun d0 => map (fun p => aget z p d0) pts) (seq 0 dim)) [])
    with (aget [] (map (fun d0 => map (fun p : list T => aget z p d0) pts) (seq 0 dim)) d).
  now rewrite aget_map_seq.
Qed.

Lemma shape1_pos_of dim pts : 0 < dim -> shape1 (pos_of dim pts) = length pts.
Proof.
  intros H. unfold shape1. change (nth 0 (pos_of dim pts) []) with (arow (pos_of dim pts) 0).
  rewrite arow_pos_of by auto. now rewrite map_length.
Qed.

Lemma aget2_pos_of dim pts d i : d < dim -> i < length pts ->
  aget2 z (pos_of dim pts) d i = aget z (nth i pts []) d.
Proof.
  intros Hd Hi. unfold aget2. rewrite arow_pos_of by auto. unfold aget at 1.
  now rewrite (nth_map_in (fun p => aget z p d) pts i []).
Qed.

Lemma phase_of_pos_of ks dim pts j i : i < length pts -> length (nth i pts []) = dim ->
  phase_of O ks (pos_of dim pts) j i = phase_x ks (nth i pts []) j.
Proof.
  intros Hi Hl. unfold phase_of, phase_x. rewrite shape0_pos_of, Hl.
  apply for_ext. intros d ph Hd. now rewrite aget2_pos_of by lia.
Qed.

Lemma summate_point_pos_of ks z1 z2 dim pts i : i < length pts -> length (nth i pts []) = dim ->
  summate_point O ks z1 z2 (pos_of dim pts) i = rm_point ks z1 z2 (nth i pts []).
Proof.
  intros Hi Hl. unfold summate_point, rm_point. apply for_ext. intros j acc _.
  now rewrite phase_of_pos_of.
Qed.

Lemma summate_fourier_point_pos_of sf ks z1 z2 dim pts i : i < length pts -> length (nth i pts []) = dim ->
  summate_fourier_point O sf ks z1 z2 (pos_of dim pts) i = fo_point sf ks z1 z2 (nth i pts []).
Proof.
  intros Hi Hl. unfold summate_fourier_point, fo_point. apply for_ext. intros j acc _.
  now rewrite phase_of_pos_of.
Qed.

Lemma wf_nth dim pts i : wf_pts dim pts -> i < length pts -> length (nth i pts []) = dim.
Proof. intros H Hi. unfold wf_pts in H. rewrite Forall_forall in H. apply H. now apply nth_In. Qed.

(* ---- the kernels, for any schedule of their prange, are maps of the per-point value *)
Theorem summate_pointwise sched ks z1 z2 dim pts : is_sched sched -> 0 < dim -> wf_pts dim pts ->
  summate_sched O sched ks z1 z2 (pos_of dim pts) = map (rm_point ks z1 z2) pts.
Proof.
  intros Hs Hd Hw. rewrite summate_any_schedule by auto. unfold summate_spec.
  rewrite shape1_pos_of by auto. rewrite <- (map_nth_seq (rm_point ks z1 z2) pts []).
  apply map_ext_in. intros i Hi. apply in_seq in Hi.
  apply summate_point_pos_of; [lia|]. apply wf_nth; auto; lia.
Qed.

Theorem summate_fourier_pointwise sched sf ks z1 z2 dim pts : is_sched sched -> 0 < dim -> wf_pts dim pts ->
  summate_fourier_sched O sched sf ks z1 z2 (pos_of dim pts) = map (fo_point sf ks z1 z2) pts.
Proof.
  intros Hs Hd Hw. rewrite summate_fourier_any_schedule by auto. unfold summate_fourier_spec.
  rewrite shape1_pos_of by auto. rewrite <- (map_nth_seq (fo_point sf ks z1 z2) pts []).
  apply map_ext_in. intros i Hi. apply in_seq in Hi.
  apply summate_fourier_point_pos_of; [lia|]. apply wf_nth; auto; lia.
Qed.

(* ---- the generators' __call__ on top of the kernels (nugget-free part; [nug] is the noise vector,
   all zeros for nugget-free models).  RandMeth: sqrt(var / mode_no) * summed + nugget *)
Definition randmeth_call sched (var : T) (mode_no : nat) ks z1 z2 (nug : list T) (pos : list (list T)) : list T :=
  let s := nsqrt O (ndiv O var (nofZ O (Z.of_nat mode_no))) in
  map (fun vn => nadd O (nmul O s (fst vn)) (snd vn)) (combine (summate_sched O sched ks z1 z2 pos) nug).
Definition fourier_call sched sf modes z1 z2 (nug : list T) (pos : list (list T)) : list T :=
  map (fun vn => nadd O (fst vn) (snd vn)) (combine (summate_fourier_sched O sched sf modes z1 z2 pos) nug).

Definition rm_value (var : T) (mode_no : nat) ks z1 z2 (x : list T) : T :=
  nadd O (nmul O (nsqrt O (ndiv O var (nofZ O (Z.of_nat mode_no)))) (rm_point ks z1 z2 x)) z.
Definition fo_value sf modes z1 z2 (x : list T) : T := nadd O (fo_point sf modes z1 z2 x) z.

Lemma combine_map_repeat {A B C} (f : A * B -> C) (l : list A) (b : B) :
  map f (combine l (repeat b (length l))) = map (fun a => f (a, b)) l.
Proof. induction l; simpl; auto. now f_equal. Qed.

Theorem randmeth_call_pointwise sched var mode_no ks z1 z2 dim pts :
  is_sched sched -> 0 < dim -> wf_pts dim pts ->
  randmeth_call sched var mode_no ks z1 z2 (repeat z (length pts)) (pos_of dim pts)
  = map (rm_value var mode_no ks z1 z2) pts.
Proof.
  intros Hs Hd Hw. unfold randmeth_call. cbv zeta. rewrite summate_pointwise by auto.
  rewrite <- (map_length (rm_point ks z1 z2) pts) at 1.
  rewrite combine_map_repeat, map_map. reflexivity.
Qed.

Theorem fourier_call_pointwise sched sf modes z1 z2 dim pts :
  is_sched sched -> 0 < dim -> wf_pts dim pts ->
  fourier_call sched sf modes z1 z2 (repeat z (length pts)) (pos_of dim pts)
  = map (fo_value sf modes z1 z2) pts.
Proof.
  intros Hs Hd Hw. unfold fourier_call. rewrite summate_fourier_pointwise by auto.
  rewrite <- (map_length (fo_point sf modes z1 z2) pts) at 1.
  rewrite combine_map_repeat, map_map. reflexivity.
Qed.
End Pointwise.

(* ------------------------------------------------------------------ consequences of "field = map value":
   any evaluation that is a map of a per-point value is independent of which other points are asked for,
   of their order, of batching, and of structured-vs-unstructured presentation.  [dflt] is only the
   out-of-range default of nth. *)
Section MapField.
Context {P V : Type} (dim : nat) (wf : list P -> Prop) (field : list P -> list V) (value : P -> V).
Hypothesis field_is_map : forall pts, wf pts -> field pts = map value pts.

(* selection by an index list: permutations, subsets, repetitions *)
Theorem field_select (dp : P) (dv : V) pts idx :
  wf pts -> wf (map (fun i => nth i pts dp) idx) -> Forall (fun i => i < length pts) idx ->
  field (map (fun i => nth i pts dp) idx) = map (fun i => nth i (field pts) dv) idx.
Proof.
  intros H1 H2 Hi. rewrite (field_is_map _ H1), (field_is_map _ H2), map_map.
  apply map_ext_Forall with (P := fun i => i < length pts); auto.
  intros i Hlt. symmetry. now apply nth_map_in.
Qed.

(* batching: evaluating the batches separately and concatenating = one call *)
Theorem field_concat batches : wf (concat batches) -> Forall wf batches ->
  field (concat batches) = concat (map field batches).
Proof.
  intros H1 H2. rewrite (field_is_map _ H1), concat_map. f_equal. clear H1.
  induction H2 as [|b bs Hb Hbs IH]; simpl; auto. rewrite IH. f_equal. symmetry. now apply field_is_map.
Qed.

Theorem field_app a b : wf (a ++ b) -> wf a -> wf b -> field (a ++ b) = field a ++ field b.
Proof. intros H1 H2 H3. rewrite !field_is_map by auto. apply map_app. Qed.

Theorem field_permutation a b : wf a -> wf b -> Permutation a b -> Permutation (field a) (field b).
Proof. intros H1 H2 Hp. rewrite !field_is_map by auto. now apply Permutation_map. Qed.

(* the value at a point does not depend on the other points of the call *)
Theorem field_single (dv : V) pts i (dp : P) : wf pts -> wf [nth i pts dp] -> i < length pts ->
  field [nth i pts dp] = [nth i (field pts) dv].
Proof.
  intros H1 H2 Hi. rewrite (field_is_map _ H1), (field_is_map _ H2). simpl. f_equal.
  symmetry. now apply nth_map_in.
Qed.
End MapField.

(* ------------------------------------------------------------------ structured grids *)
Section Grid.
Context {A : Type}.

(* the points of a structured grid in C order (last axis fastest): the columns of
   tools.geometric.generate_grid = meshgrid(indexing="ij") reshaped to (dim, -1) *)
Fixpoint grid_points (axes : list (list A)) : list (list A) :=
  match axes with
  | [] => [[]]
  | xs :: rest => flat_map (fun x => map (cons x) (grid_points rest)) xs
  end.
Fixpoint prodl (ns : list nat) : nat := match ns with [] => 1 | n :: t => n * prodl t end.
(* C-order flat index of a multi-index (numpy reshape / ravel_multi_index) *)
Fixpoint flat_index (ns idx : list nat) : nat :=
  match ns, idx with
  | n :: ns', i :: idx' => i * prodl ns' + flat_index ns' idx'
  | _, _ => 0
  end.
Fixpoint point_at (d : A) (axes : list (list A)) (idx : list nat) : list A :=
  match axes, idx with
  | xs :: rest, i :: idx' => nth i xs d :: point_at d rest idx'
  | _, _ => []
  end.
Fixpoint valid_idx (axes : list (list A)) (idx : list nat) : Prop :=
  match axes, idx with
  | [], [] => True
  | xs :: rest, i :: idx' => i < length xs /\ valid_idx rest idx'
  | _, _ => False
  end.

Lemma grid_points_length axes : length (grid_points axes) = prodl (map (@length A) axes).
Proof.
  induction axes as [|xs rest IH]; simpl; auto.
  induction xs as [|x xs IHx]; simpl; auto. rewrite app_length, map_length, IH, IHx. reflexivity.
Qed.

Lemma grid_points_wf axes : Forall (fun p => length p = length axes) (grid_points axes).
Proof.
  induction axes as [|xs rest IH]; simpl; [repeat constructor|].
  apply Forall_forall. intros p Hp. apply in_flat_map in Hp. destruct Hp as [x [_ Hp]].
  apply in_map_iff in Hp. destruct Hp as [q [<- Hq]]. simpl. f_equal.
  rewrite Forall_forall in IH. auto.
Qed.

Lemma nth_flat_map_uniform {B} (f : A -> list B) (xs : list A) (n i r : nat) (da : A) (db : B) :
  (forall x, length (f x) = n) -> i < length xs -> r < n ->
  nth (i * n + r) (flat_map f xs) db = nth r (f (nth i xs da)) db.
Proof.
  intros Hn. revert i. induction xs as [|x xs IH]; intros i Hi Hr; simpl in *; [lia|].
  destruct i as [|i].
  - simpl. rewrite app_nth1 by (rewrite Hn; lia). reflexivity.
  - rewrite app_nth2 by (rewrite Hn; simpl; lia). rewrite Hn.
    replace (S i * n + r - n) with (i * n + r) by (simpl; lia). apply IH; lia.
Qed.

Lemma flat_index_lt axes idx : valid_idx axes idx -> flat_index (map (@length A) axes) idx < prodl (map (@length A) axes).
Proof.
  revert idx. induction axes as [|xs rest IH]; intros [|i idx] Hv; simpl in *; try tauto; try lia.
  destruct Hv as [Hi Hv]. specialize (IH _ Hv).
  set (p := prodl (map (@length A) rest)) in *. set (f := flat_index (map (@length A) rest) idx) in *.
  assert (i * p + p <= length xs * p) by (replace (i * p + p) with (S i * p) by (simpl; lia); apply Nat.mul_le_mono_r; lia).
  lia.
Qed.

(* entry [flat_index shape idx] of the grid's point list is the point with coordinates axes_d[idx_d] *)
Theorem grid_points_nth (d : A) axes idx : valid_idx axes idx ->
  nth (flat_index (map (@length A) axes) idx) (grid_points axes) [] = point_at d axes idx.
Proof.
  revert idx. induction axes as [|xs rest IH]; intros [|i idx] Hv; simpl in *; try tauto.
  destruct Hv as [Hi Hv].
  rewrite (nth_flat_map_uniform (fun x => map (cons x) (grid_points rest)) xs
             (prodl (map (@length A) rest)) i _ d []).
  - rewrite (nth_map_in (cons (nth i xs d)) (grid_points rest) _ [] []).
    + now rewrite IH.
    + rewrite grid_points_length. now apply flat_index_lt.
  - intros x. now rewrite map_length, grid_points_length.
  - exact Hi.
  - now apply flat_index_lt.
Qed.
End Grid.

(* structured evaluation = unstructured evaluation, entry by entry *)
Section Structured.
Context {A V : Type} (field : list (list A) -> list V) (value : list A -> V).
Variable dim : nat.
Hypothesis field_is_map : forall pts, Forall (fun p => length p = dim) pts -> field pts = map value pts.

Lemma point_at_length (d : A) axes idx : valid_idx axes idx -> length (point_at d axes idx) = length axes.
Proof. revert idx; induction axes as [|xs rest IH]; intros [|i idx] Hv; simpl in *; try tauto. f_equal. apply IH; tauto. Qed.

Theorem structured_equals_unstructured (d : A) (dv : V) axes idx :
  length axes = dim -> valid_idx axes idx ->
  [nth (flat_index (map (@length A) axes) idx) (field (grid_points axes)) dv]
  = field [point_at d axes idx].
Proof.
  intros Hd Hv.
  rewrite (field_is_map (grid_points axes)) by (rewrite <- Hd; apply grid_points_wf).
  rewrite (field_is_map [point_at d axes idx]) by (repeat constructor; rewrite <- Hd; now apply point_at_length).
  simpl. f_equal.
  rewrite (nth_map_in value (grid_points axes) _ [] dv)
    by (rewrite grid_points_length; now apply flat_index_lt).
  now rewrite (grid_points_nth d).
Qed.
End Structured.
