(* C16_Refine.v — the translated summate_incompr (gen/Summator_gen.v) equals the closed-form
   per-point specification, for every number type and every shape. *)
From Coq Require Import ZArith List Bool Arith Lia.
From GS Require Import Num Loops Cellwise Summator_gen C15_KernelSpec C16_Spec.
Import ListNotations.

(* ---- small loop facts *)
Lemma for_id {St} lo hi (s : St) : for_ lo hi (fun _ c => c) s = s.
Proof. unfold for_. induction (seq lo (hi - lo)); simpl; auto. Qed.

Lemma for_select {St} lo hi i0 (h : St -> St) (s : St) : lo <= i0 < hi ->
  for_ lo hi (fun i c => if Nat.eqb i i0 then h c else c) s = h s.
Proof.
  intros Hi. unfold for_.
  assert (E : seq lo (hi - lo) = seq lo (i0 - lo) ++ i0 :: seq (S i0) (hi - S i0)).
  { replace (hi - lo) with ((i0 - lo) + S (hi - S i0)) by lia. rewrite seq_app. simpl.
    replace (lo + (i0 - lo)) with i0 by lia. reflexivity. }
  rewrite E, fold_left_app. simpl. rewrite Nat.eqb_refl.
  assert (A : forall l c, ~ In i0 l -> fold_left (fun st i => if Nat.eqb i i0 then h st else st) l c = c).
  { induction l as [|a l IH]; intros c Hn; simpl; auto.
    destruct (Nat.eqb_spec a i0) as [->|Hne]; [exfalso; apply Hn; left; auto|].
    apply IH. intro; apply Hn; right; auto. }
  rewrite (A (seq lo (i0 - lo))) by (rewrite in_seq; lia).
  apply A. rewrite in_seq; lia.
Qed.

(* ---- 2-D arrays *)
Section Arr2Lemmas.
Context {A : Type} (d0 : A).
Definition shape_ok (dim n : nat) (sm : list (list A)) : Prop :=
  length sm = dim /\ forall d, d < dim -> length (arow sm d) = n.

Lemma arow_aupd_same (sm : list (list A)) d r : d < length sm -> arow (aupd sm d r) d = r.
Proof. intros H. exact (aget_aupd_same [] sm d r H). Qed.
Lemma arow_aupd_other (sm : list (list A)) d d' r : d <> d' -> arow (aupd sm d r) d' = arow sm d'.
Proof. intros H. exact (aget_aupd_other [] sm d d' r H). Qed.

Lemma aupd2_shape dim n sm d i v : shape_ok dim n sm -> shape_ok dim n (aupd2 sm d i v).
Proof.
  intros [L R]. unfold aupd2. split; [now rewrite aupd_length|].
  intros d' Hd'. destruct (Nat.eq_dec d d') as [->|Hne].
  - rewrite arow_aupd_same by lia. rewrite aupd_length. auto.
  - rewrite arow_aupd_other by auto. auto.
Qed.
Lemma aget2_aupd2_same sm d i v : d < length sm -> i < length (arow sm d) ->
  aget2 d0 (aupd2 sm d i v) d i = v.
Proof.
  intros Hd Hi. unfold aget2, aupd2. rewrite arow_aupd_same by auto. now apply aget_aupd_same.
Qed.
Lemma aget2_aupd2_other sm d i d' i' v : (d <> d' \/ i <> i') ->
  aget2 d0 (aupd2 sm d i v) d' i' = aget2 d0 sm d' i'.
Proof.
  intros H. unfold aget2, aupd2. destruct (Nat.eq_dec d d') as [->|Hne].
  - destruct H as [H|H]; [contradiction|].
    destruct (Nat.lt_ge_cases d' (length sm)) as [Hl|Hl].
    + rewrite arow_aupd_same by auto. now apply aget_aupd_other.
    + now rewrite aupd_oob by auto.
  - now rewrite arow_aupd_other by auto.
Qed.
Lemma shape_ok_repeat dim n : shape_ok dim n (repeat (repeat d0 n) dim).
Proof.
  split; [apply repeat_length|]. intros d Hd. unfold arow.
  rewrite (nth_indep _ [] (repeat d0 n)) by (now rewrite repeat_length).
  rewrite nth_repeat. apply repeat_length.
Qed.
Lemma aget2_repeat dim n d i : aget2 d0 (repeat (repeat d0 n) dim) d i = d0.
Proof.
  unfold aget2, arow. destruct (Nat.lt_ge_cases d dim) as [H|H].
  - rewrite (nth_indep _ [] (repeat d0 n)) by (now rewrite repeat_length).
    rewrite nth_repeat. apply aget_repeat.
  - rewrite nth_overflow by (now rewrite repeat_length). unfold aget. now destruct i.
Qed.
End Arr2Lemmas.

Section Refine.
Context {T : Type} (O : NumOps T).
Notation z := (n0 O).

Lemma e1_array dim d : d < dim -> aget z (aupd (repeat z dim) 0 (n1 O)) d = e1_of O d.
Proof.
  intros H. destruct d as [|d]; simpl.
  - apply aget_aupd_same. rewrite repeat_length. lia.
  - rewrite aget_aupd_other by lia. apply aget_repeat.
Qed.

Definition term ks z1 z2 pos (d j i : nat) : T :=
  nmul O (proj_of O ks d j) (wave O z1 z2 (phase_of O ks pos j i) j).

(* one cell of the result *)
Lemma summate_incompr_cell ks z1 z2 pos d0 i0 : d0 < shape0 pos -> i0 < shape1 pos ->
  shape_ok (shape0 pos) (shape1 pos) (summate_incompr O ks z1 z2 pos) /\
  aget2 z (summate_incompr O ks z1 z2 pos) d0 i0 = incompr_point O ks z1 z2 pos d0 i0.
Proof.
  intros Hd0 Hi0. unfold summate_incompr. cbv zeta.
  set (dim := shape0 pos). set (n := shape1 pos). fold dim in Hd0. fold n in Hi0.
  set (R := fun (st : list T * list (list T)) (c : T) =>
     length (fst st) = dim /\ shape_ok dim n (snd st) /\ aget2 z (snd st) d0 i0 = c).
  match goal with |- context [for_ 0 n ?body ?st] =>
    assert (H : R (for_ 0 n body st)
      (for_ 0 n (fun i c => if Nat.eqb i i0 then
          for_ 0 (shape1 ks) (fun j acc => nadd O acc (term ks z1 z2 pos d0 j i0)) c else c) z)) end.
  { apply for_sim.
    - unfold R; simpl. split; [apply repeat_length|]. split; [apply shape_ok_repeat|apply aget2_repeat].
    - intros i [pr sm] c Hi HR. cbv beta iota. rewrite let_pair_id.
      destruct (Nat.eqb_spec i i0) as [->|Hne].
      + (* the column of the target cell *)
        apply for_sim; auto.
        intros j [pr1 sm1] c1 Hj HR1. cbv beta iota zeta. rewrite let_pair_id.
        rewrite <- (for_select 0 dim d0 (fun a => nadd O a (term ks z1 z2 pos d0 j i0)) c1) by lia.
        apply for_sim; auto.
        intros d [pr2 sm2] c2 Hd (L & S & E). unfold R; simpl in *.
        split; [now rewrite aupd_length|]. split; [now apply aupd2_shape|].
        destruct (Nat.eqb_spec d d0) as [->|Hned].
        * destruct S as [S1 S2]. rewrite aget2_aupd2_same by (rewrite ?S1, ?S2; lia).
          rewrite aget_aupd_same by lia. rewrite e1_array by lia. rewrite E. reflexivity.
        * rewrite aget2_aupd2_other by auto. exact E.
      + (* other columns leave the cell alone *)
        rewrite <- (for_id 0 (shape1 ks) c).
        apply for_sim; auto.
        intros j [pr1 sm1] c1 Hj HR1. cbv beta iota zeta. rewrite let_pair_id.
        rewrite <- (for_id 0 dim c1).
        apply for_sim; auto.
        intros d [pr2 sm2] c2 Hd (L & S & E). unfold R; simpl in *.
        split; [now rewrite aupd_length|]. split; [now apply aupd2_shape|].
        rewrite aget2_aupd2_other by auto. exact E. }
  rewrite for_select in H by lia.
  destruct (for_ 0 n _ _) as [pr sm]. destruct H as (_ & S & E). simpl in *. split; auto.
Qed.

Lemma summate_incompr_shape ks z1 z2 pos :
  shape_ok (shape0 pos) (shape1 pos) (summate_incompr O ks z1 z2 pos).
Proof.
  unfold summate_incompr. cbv zeta.
  set (dim := shape0 pos). set (n := shape1 pos).
  match goal with |- context [for_ 0 n ?body ?st] =>
    assert (H : (fun q : list T * list (list T) => shape_ok dim n (snd q)) (for_ 0 n body st)) end.
  { apply for_inv; [simpl; apply shape_ok_repeat|].
    intros i [pr sm] _ HS. cbv beta iota. rewrite let_pair_id.
    apply for_inv; auto. intros j [pr1 sm1] _ HS1. cbv beta iota zeta. rewrite let_pair_id.
    apply for_inv; auto. intros d [pr2 sm2] _ HS2. simpl in *. now apply aupd2_shape. }
  destruct (for_ 0 n _ _) as [pr sm]. exact H.
Qed.

Theorem summate_incompr_refines ks z1 z2 pos :
  summate_incompr O ks z1 z2 pos = summate_incompr_spec O ks z1 z2 pos.
Proof.
  destruct (summate_incompr_shape ks z1 z2 pos) as [L Rw].
  unfold summate_incompr_spec.
  apply (list_ext []); [now rewrite map_length, seq_length|].
  intros d Hd. rewrite L in Hd. rewrite aget_map_seq by auto.
  apply (list_ext z); [rewrite map_length, seq_length; apply (Rw d Hd)|].
  intros i Hi. change (aget [] (summate_incompr O ks z1 z2 pos) d) with (arow (summate_incompr O ks z1 z2 pos) d) in *.
  rewrite (Rw d Hd) in Hi. rewrite aget_map_seq by auto.
  exact (proj2 (summate_incompr_cell ks z1 z2 pos d i Hd Hi)).
Qed.

(* the kernel's value at point i is the field function at the i-th column of pos *)
Lemma phase_colmat ks pos j i : phase_of O ks (colmat (acol z pos i)) j 0 = phase_of O ks pos j i.
Proof.
  unfold phase_of, colmat, acol, shape0. rewrite !map_length.
  apply for_ext. intros d ph Hd. f_equal. f_equal.
  unfold aget2, arow. rewrite map_map.
  rewrite (nth_indep _ [] ((fun r => [aget z r i]) [])) by (rewrite map_length; unfold shape0 in Hd; lia).
  rewrite (map_nth (fun r => [aget z r i]) pos []). reflexivity.
Qed.
Theorem incompr_point_is_vfield ks z1 z2 pos d i :
  incompr_point O ks z1 z2 pos d i = vfield O ks z1 z2 (acol z pos i) d.
Proof.
  unfold vfield, incompr_point. apply for_ext. intros j acc _. now rewrite phase_colmat.
Qed.

Theorem summate_incompr_pointwise ks z1 z2 pos d i : d < shape0 pos -> i < shape1 pos ->
  aget2 z (summate_incompr O ks z1 z2 pos) d i = vfield O ks z1 z2 (acol z pos i) d.
Proof.
  intros Hd Hi. rewrite (proj2 (summate_incompr_cell ks z1 z2 pos d i Hd Hi)).
  apply incompr_point_is_vfield.
Qed.

(* entries of a table built with map/seq *)
Lemma aget2_table (F : nat -> nat -> T) m n d i : d < m -> i < n ->
  aget2 z (map (fun d => map (fun i => F d i) (seq 0 n)) (seq 0 m)) d i = F d i.
Proof.
  intros Hd Hi. unfold aget2, arow.
  change (nth d (map (fun d0 => map (fun i0 => F d0 i0) (seq 0 n)) (seq 0 m)) [])
    with (aget [] (map (fun d0 => map (fun i0 => F d0 i0) (seq 0 n)) (seq 0 m)) d).
  rewrite (aget_map_seq [] (fun d0 => map (fun i0 => F d0 i0) (seq 0 n)) m d Hd).
  apply aget_map_seq. exact Hi.
Qed.
Lemma table_shape (F : nat -> nat -> T) m n : 0 < m ->
  shape0 (map (fun d => map (fun i => F d i) (seq 0 n)) (seq 0 m)) = m /\
  shape1 (map (fun d => map (fun i => F d i) (seq 0 n)) (seq 0 m)) = n.
Proof.
  intros Hm. unfold shape0, shape1. rewrite map_length, seq_length. split; auto.
  change (nth 0 (map (fun d0 => map (fun i0 => F d0 i0) (seq 0 n)) (seq 0 m)) [])
    with (aget [] (map (fun d0 => map (fun i0 => F d0 i0) (seq 0 n)) (seq 0 m)) 0).
  rewrite (aget_map_seq [] (fun d0 => map (fun i0 => F d0 i0) (seq 0 n)) m 0 Hm).
  now rewrite map_length, seq_length.
Qed.

(* the modelled generator call, entry by entry: the affine map of IncomprRandMeth.__call__ applied to the
   field function at the i-th point *)
Theorem incompr_generate_pointwise mean_u var N ks z1 z2 pos nug d i : d < shape0 pos -> i < shape1 pos ->
  aget2 z (incompr_generate O mean_u var N ks z1 z2 pos nug) d i
  = incompr_out O mean_u var N d (vfield O ks z1 z2 (acol z pos i) d) (aget2 z nug d i).
Proof.
  intros Hd Hi. unfold incompr_generate, incompr_call, summate_incompr_spec.
  destruct (table_shape (fun d i => incompr_point O ks z1 z2 pos d i) (shape0 pos) (shape1 pos)) as [S0 S1]; [lia|].
  rewrite S0, S1. rewrite aget2_table by auto. rewrite aget2_table by auto.
  now rewrite incompr_point_is_vfield.
Qed.
Corollary incompr_generate_no_nugget mean_u var N ks z1 z2 pos d i : d < shape0 pos -> i < shape1 pos ->
  aget2 z (incompr_generate O mean_u var N ks z1 z2 pos (repeat (repeat z (shape1 pos)) (shape0 pos))) d i
  = velocity O mean_u var N ks z1 z2 (acol z pos i) d.
Proof.
  intros Hd Hi. rewrite incompr_generate_pointwise by auto. unfold velocity. now rewrite aget2_repeat.
Qed.
End Refine.
