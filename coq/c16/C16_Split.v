(* C16_Split.v — direction averages of the squared projector components for a uniformly distributed
   direction of the wave vector, as explicit integrals over the parameterisations used by
   gstools.random.RNG.sample_sphere:  2-D  k = r (cos t, sin t), t uniform on [0, 2 pi];
   3-D  k = r (sqrt(1-m^2) cos t, sqrt(1-m^2) sin t, m), m uniform on [-1,1], t uniform on [0, 2 pi]. *)
From Coq Require Import Reals ZArith List Lra Lia Arith.
From Coquelicot Require Import Coquelicot.
From GS Require Import Num Loops RInst Summator_gen C15_KernelSpec C16_Spec C16_Div.
Import ListNotations.
Open Scope R_scope.

Lemma trig_poly_derive a b c t :
  is_derive (fun t => a * t + b * (t / 2 + sin t * cos t / 2)
                      + c * (cos t ^ 3 * sin t / 4 + 3 * (sin t * cos t) / 8 + 3 * t / 8)) t
            (a + b * cos t ^ 2 + c * cos t ^ 4).
Proof.
  auto_derive; auto.
  generalize (sin2_cos2 t). unfold Rsqr. generalize (sin t) (cos t). intros s k H.
  assert (Hs : s * s = 1 - k * k) by lra. field [Hs].
Qed.

(* int_0^{2 pi} (a + b cos^2 + c cos^4) = 2 pi a + pi b + (3 pi / 4) c *)
Lemma int_cos_poly a b c :
  is_RInt (fun t => a + b * cos t ^ 2 + c * cos t ^ 4) 0 (2 * PI) (2 * PI * a + PI * b + 3 * PI / 4 * c).
Proof.
  pose (F := fun t => a * t + b * (t / 2 + sin t * cos t / 2)
                      + c * (cos t ^ 3 * sin t / 4 + 3 * (sin t * cos t) / 8 + 3 * t / 8)).
  replace (2 * PI * a + PI * b + 3 * PI / 4 * c) with (minus (F (2 * PI)) (F 0)).
  - apply (is_RInt_derive F (fun t => a + b * cos t ^ 2 + c * cos t ^ 4)).
    + intros t _. apply trig_poly_derive.
    + intros t _. apply (ex_derive_continuous (fun t => a + b * cos t ^ 2 + c * cos t ^ 4)). auto_derive; auto.
  - unfold F, minus, plus, opp; simpl. rewrite sin_2PI, cos_2PI, sin_0, cos_0. field.
Qed.

(* int_{-1}^{1} (a + b m^2 + c m^4) = 2a + 2b/3 + 2c/5 *)
Lemma int_even_poly a b c :
  is_RInt (fun m => a + b * m ^ 2 + c * m ^ 4) (-1) 1 (2 * a + 2 * b / 3 + 2 * c / 5).
Proof.
  pose (F := fun m => a * m + b * m ^ 3 / 3 + c * m ^ 5 / 5).
  replace (2 * a + 2 * b / 3 + 2 * c / 5) with (minus (F 1) (F (-1))).
  - apply (is_RInt_derive F (fun m => a + b * m ^ 2 + c * m ^ 4)).
    + intros m _. unfold F. auto_derive; auto. field.
    + intros m _. apply (ex_derive_continuous (fun m => a + b * m ^ 2 + c * m ^ 4)). auto_derive; auto.
  - unfold F, minus, plus, opp; simpl. field.
Qed.

Section Split.
Variable ora : nat -> list R -> R.
Notation RO := (Rops ora).

(* ---------- 2-D *)
Definition kdir2 (r t : R) : list (list R) := [[r * cos t]; [r * sin t]].

Lemma k2_dir2 r t : abs_square RO (acol 0 (kdir2 r t) 0) = r * r.
Proof.
  unfold abs_square, for_, kdir2, acol, aget. simpl. rewrite !Rpow_2.
  generalize (sin2_cos2 t). unfold Rsqr. generalize (sin t) (cos t). intros s k H.
  assert (Hs' : s * s = 1 - k * k) by lra. ring [Hs'].
Qed.
Lemma proj2_sq_0 r t : r <> 0 -> (proj_of RO (kdir2 r t) 0 0) ^ 2 = 1 + (-2) * cos t ^ 2 + 1 * cos t ^ 4.
Proof.
  intros Hr. unfold proj_of. rewrite k2_dir2. unfold kdir2, aget2, arow, aget. simpl.
  replace (1 - r * cos t * (r * cos t) / (r * r)) with (1 - cos t * cos t) by (field; auto). ring.
Qed.
Lemma proj2_sq_1 r t : r <> 0 -> (proj_of RO (kdir2 r t) 1 0) ^ 2 = 0 + 1 * cos t ^ 2 + (-1) * cos t ^ 4.
Proof.
  intros Hr. unfold proj_of. rewrite k2_dir2. unfold kdir2, aget2, arow, aget. simpl.
  replace (0 - r * sin t * (r * cos t) / (r * r)) with (- (sin t * cos t)) by (field; auto).
  generalize (sin2_cos2 t). unfold Rsqr. generalize (sin t) (cos t). intros s k H.
  assert (Hs' : s * s = 1 - k * k) by lra. ring [Hs'].
Qed.

Theorem split_2d r : r <> 0 ->
  RInt (fun t => (proj_of RO (kdir2 r t) 0 0) ^ 2) 0 (2 * PI) / (2 * PI) = 3 / 8 /\
  RInt (fun t => (proj_of RO (kdir2 r t) 1 0) ^ 2) 0 (2 * PI) / (2 * PI) = 1 / 8.
Proof.
  intros Hr. pose proof PI_RGT_0 as Hpi. split.
  - rewrite (RInt_ext _ (fun t => 1 + (-2) * cos t ^ 2 + 1 * cos t ^ 4)) by (intros; now apply proj2_sq_0).
    rewrite (is_RInt_unique _ _ _ _ (int_cos_poly 1 (-2) 1)). field. lra.
  - rewrite (RInt_ext _ (fun t => 0 + 1 * cos t ^ 2 + (-1) * cos t ^ 4)) by (intros; now apply proj2_sq_1).
    rewrite (is_RInt_unique _ _ _ _ (int_cos_poly 0 1 (-1))). field. lra.
Qed.

(* ---------- 3-D *)
Definition kdir3 (r m t : R) : list (list R) :=
  [[r * (sqrt (1 - m * m) * cos t)]; [r * (sqrt (1 - m * m) * sin t)]; [r * m]].

Lemma k2_dir3 r m t : -1 <= m <= 1 -> abs_square RO (acol 0 (kdir3 r m t) 0) = r * r.
Proof.
  intros Hm. unfold abs_square, for_, kdir3, acol, aget. simpl. rewrite !Rpow_2.
  assert (Hs : sqrt (1 - m * m) * sqrt (1 - m * m) = 1 - m * m) by (apply sqrt_sqrt; nra).
  generalize (sin2_cos2 t) Hs. unfold Rsqr. generalize (sin t) (cos t) (sqrt (1 - m * m)). intros s k q H H2.
  assert (Hs' : s * s = 1 - k * k) by lra. ring [Hs' H2].
Qed.
Lemma proj3_sq_0 r m t : r <> 0 -> -1 <= m <= 1 ->
  (proj_of RO (kdir3 r m t) 0 0) ^ 2 = 1 + (-2 * (1 - m * m)) * cos t ^ 2 + ((1 - m * m) ^ 2) * cos t ^ 4.
Proof.
  intros Hr Hm. unfold proj_of. rewrite k2_dir3 by auto. unfold kdir3, aget2, arow, aget. simpl.
  assert (Hq : sqrt (1 - m * m) * sqrt (1 - m * m) = 1 - m * m) by (apply sqrt_sqrt; nra).
  generalize (sin2_cos2 t) Hq. unfold Rsqr. generalize (sin t) (cos t) (sqrt (1 - m * m)). intros s k q H H2.
  assert (Hs' : s * s = 1 - k * k) by lra. field [Hs' H2]. auto.
Qed.
Lemma proj3_sq_1 r m t : r <> 0 -> -1 <= m <= 1 ->
  (proj_of RO (kdir3 r m t) 1 0) ^ 2 = 0 + ((1 - m * m) ^ 2) * cos t ^ 2 + (- (1 - m * m) ^ 2) * cos t ^ 4.
Proof.
  intros Hr Hm. unfold proj_of. rewrite k2_dir3 by auto. unfold kdir3, aget2, arow, aget. simpl.
  assert (Hq : sqrt (1 - m * m) * sqrt (1 - m * m) = 1 - m * m) by (apply sqrt_sqrt; nra).
  generalize (sin2_cos2 t) Hq. unfold Rsqr. generalize (sin t) (cos t) (sqrt (1 - m * m)). intros s k q H H2.
  assert (Hs' : s * s = 1 - k * k) by lra. field [Hs' H2]. auto.
Qed.
Lemma proj3_sq_2 r m t : r <> 0 -> -1 <= m <= 1 ->
  (proj_of RO (kdir3 r m t) 2 0) ^ 2 = 0 + (m * m * (1 - m * m)) * cos t ^ 2 + 0 * cos t ^ 4.
Proof.
  intros Hr Hm. unfold proj_of. rewrite k2_dir3 by auto. unfold kdir3, aget2, arow, aget. simpl.
  assert (Hq : sqrt (1 - m * m) * sqrt (1 - m * m) = 1 - m * m) by (apply sqrt_sqrt; nra).
  generalize (sin2_cos2 t) Hq. unfold Rsqr. generalize (sin t) (cos t) (sqrt (1 - m * m)). intros s k q H H2.
  assert (Hs' : s * s = 1 - k * k) by lra. field [Hs' H2]. auto.
Qed.

Theorem split_3d r : r <> 0 ->
  RInt (fun m => RInt (fun t => (proj_of RO (kdir3 r m t) 0 0) ^ 2) 0 (2 * PI)) (-1) 1 / (4 * PI) = 8 / 15 /\
  RInt (fun m => RInt (fun t => (proj_of RO (kdir3 r m t) 1 0) ^ 2) 0 (2 * PI)) (-1) 1 / (4 * PI) = 1 / 15 /\
  RInt (fun m => RInt (fun t => (proj_of RO (kdir3 r m t) 2 0) ^ 2) 0 (2 * PI)) (-1) 1 / (4 * PI) = 1 / 15.
Proof.
  intros Hr. pose proof PI_RGT_0 as Hpi.
  assert (Hb : forall m, Rmin (-1) 1 < m < Rmax (-1) 1 -> -1 <= m <= 1).
  { intros m. rewrite Rmin_left, Rmax_right by lra. lra. }
  repeat split.
  - rewrite (RInt_ext _ (fun m => (3 * PI / 4) + (PI / 2) * m ^ 2 + (3 * PI / 4) * m ^ 4)).
    + rewrite (is_RInt_unique _ _ _ _ (int_even_poly _ _ _)). field. lra.
    + intros m Hm. apply Hb in Hm.
      rewrite (RInt_ext _ (fun t => 1 + (-2 * (1 - m * m)) * cos t ^ 2 + ((1 - m * m) ^ 2) * cos t ^ 4))
        by (intros; now apply proj3_sq_0).
      rewrite (is_RInt_unique _ _ _ _ (int_cos_poly _ _ _)).
      match goal with |- ?u = ?v => change (@eq R u v) end. field.
  - rewrite (RInt_ext _ (fun m => (PI / 4) + (- PI / 2) * m ^ 2 + (PI / 4) * m ^ 4)).
    + rewrite (is_RInt_unique _ _ _ _ (int_even_poly _ _ _)). field. lra.
    + intros m Hm. apply Hb in Hm.
      rewrite (RInt_ext _ (fun t => 0 + ((1 - m * m) ^ 2) * cos t ^ 2 + (- (1 - m * m) ^ 2) * cos t ^ 4))
        by (intros; now apply proj3_sq_1).
      rewrite (is_RInt_unique _ _ _ _ (int_cos_poly _ _ _)).
      match goal with |- ?u = ?v => change (@eq R u v) end. field.
  - rewrite (RInt_ext _ (fun m => 0 + PI * m ^ 2 + (- PI) * m ^ 4)).
    + rewrite (is_RInt_unique _ _ _ _ (int_even_poly _ _ _)). field. lra.
    + intros m Hm. apply Hb in Hm.
      rewrite (RInt_ext _ (fun t => 0 + (m * m * (1 - m * m)) * cos t ^ 2 + 0 * cos t ^ 4))
        by (intros; now apply proj3_sq_2).
      rewrite (is_RInt_unique _ _ _ _ (int_cos_poly _ _ _)).
      match goal with |- ?u = ?v => change (@eq R u v) end. field.
Qed.
End Split.
