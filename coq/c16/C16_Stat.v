(* C16_Stat.v — ensemble statements under explicit hypotheses on an abstract expectation:
   mean of the velocity, variance of each component; the direction averages of the squared
   projector components (3/8, 1/8 in 2-D; 8/15, 1/15, 1/15 in 3-D) as explicit integrals. *)
From Coq Require Import Reals ZArith List Lra Lia Arith.
From Coquelicot Require Import Coquelicot.
From GS Require Import Num Loops RInst Summator_gen C15_KernelSpec C16_Spec C16_Div.
Import ListNotations.
Open Scope R_scope.

Section Ensemble.
Variable ora : nat -> list R -> R.
Notation RO := (Rops ora).
(* an abstract expectation on random variables over a sample space Omega *)
Variable Omega : Type.
Variable E : (Omega -> R) -> R.
Hypothesis E_ext : forall f g, (forall w, f w = g w) -> E f = E g.
Hypothesis E_plus : forall f g, E (fun w => f w + g w) = E f + E g.
Hypothesis E_scal : forall c f, E (fun w => c * f w) = c * E f.
Hypothesis E_const : forall c, E (fun _ => c) = c.
(* the random inputs of the generator: wave vectors and the two amplitude vectors *)
Variable KS : Omega -> list (list R).
Variables Z1 Z2 : Omega -> list R.
Variable Nm : nat.
Hypothesis modes_shape : forall w, shape1 (KS w) = Nm.

Lemma E_Rsum (f : nat -> Omega -> R) n : E (fun w => Rsum (fun j => f j w) n) = Rsum (fun j => E (f j)) n.
Proof.
  induction n as [|n IH]; simpl; [apply E_const|].
  rewrite (E_plus (fun w => Rsum (fun j => f j w) n) (f n)), IH. reflexivity.
Qed.

Section Mean.
(* amplitudes are centred and uncorrelated with every function of the wave vectors
   (implied by: independent of the wave vectors, mean zero) *)
Hypothesis Z1_centred : forall j (g : list (list R) -> R), (j < Nm)%nat -> E (fun w => aget 0 (Z1 w) j * g (KS w)) = 0.
Hypothesis Z2_centred : forall j (g : list (list R) -> R), (j < Nm)%nat -> E (fun w => aget 0 (Z2 w) j * g (KS w)) = 0.

Theorem mean_velocity mean_u var N x d :
  E (fun w => velocity RO mean_u var N (KS w) (Z1 w) (Z2 w) x d) = mean_u * e1_of RO d.
Proof.
  rewrite (E_ext _ (fun w => mean_u * e1_of RO d + incompr_amp RO mean_u var N *
      Rsum (fun j => aget 0 (Z1 w) j * (proj_of RO (KS w) d j * cos (Rphase (KS w) x j))
                   + aget 0 (Z2 w) j * (proj_of RO (KS w) d j * sin (Rphase (KS w) x j))) Nm)).
  2:{ intros w. rewrite velocity_R. unfold Rfield. rewrite modes_shape. rewrite Rplus_0_r. f_equal. f_equal.
      apply Rsum_ext. intros j _. unfold Rwave. ring. }
  rewrite (E_plus (fun _ => mean_u * e1_of RO d)), E_const, E_scal, E_Rsum.
  rewrite Rsum_zero; [ring|]. intros j Hj.
  rewrite (E_plus (fun w => aget 0 (Z1 w) j * (proj_of RO (KS w) d j * cos (Rphase (KS w) x j)))
                  (fun w => aget 0 (Z2 w) j * (proj_of RO (KS w) d j * sin (Rphase (KS w) x j)))).
  rewrite (Z1_centred j (fun K => proj_of RO K d j * cos (Rphase K x j)) Hj).
  rewrite (Z2_centred j (fun K => proj_of RO K d j * sin (Rphase K x j)) Hj). ring.
Qed.
End Mean.
Section Variance.
(* second moments: the amplitudes have unit variance, are uncorrelated with each other and with every
   function of the wave vectors (implied by: independent standard normals, independent of the modes) *)
Hypothesis Z11 : forall j l (g : list (list R) -> R), (j < Nm)%nat -> (l < Nm)%nat ->
  E (fun w => aget 0 (Z1 w) j * aget 0 (Z1 w) l * g (KS w)) = if Nat.eqb j l then E (fun w => g (KS w)) else 0.
Hypothesis Z22 : forall j l (g : list (list R) -> R), (j < Nm)%nat -> (l < Nm)%nat ->
  E (fun w => aget 0 (Z2 w) j * aget 0 (Z2 w) l * g (KS w)) = if Nat.eqb j l then E (fun w => g (KS w)) else 0.
Hypothesis Z12 : forall j l (g : list (list R) -> R), (j < Nm)%nat -> (l < Nm)%nat ->
  E (fun w => aget 0 (Z1 w) j * aget 0 (Z2 w) l * g (KS w)) = 0.

Lemma Rsum_mult f g n m : Rsum f n * Rsum g m = Rsum (fun j => Rsum (fun l => f j * g l) m) n.
Proof.
  rewrite Rmult_comm, <- Rsum_scal. apply Rsum_ext. intros j _. rewrite Rsum_scal. ring.
Qed.

(* E[(u_d(x) - mean_u e1_d)^2] = mean_u^2 (var/N) sum_j E[p_d(k_j)^2]  at every point x *)
Theorem variance_velocity mean_u var N x d :
  E (fun w => (velocity RO mean_u var N (KS w) (Z1 w) (Z2 w) x d - mean_u * e1_of RO d) ^ 2)
  = (incompr_amp RO mean_u var N) ^ 2 * Rsum (fun j => E (fun w => (proj_of RO (KS w) d j) ^ 2)) Nm.
Proof.
  set (a := fun j (K : list (list R)) => proj_of RO K d j * cos (Rphase K x j)).
  set (b := fun j (K : list (list R)) => proj_of RO K d j * sin (Rphase K x j)).
  set (z1 := fun w j => aget 0 (Z1 w) j). set (z2 := fun w j => aget 0 (Z2 w) j).
  rewrite (E_ext _ (fun w => (incompr_amp RO mean_u var N) ^ 2 *
      Rsum (fun j => Rsum (fun l =>
          (z1 w j * z1 w l * (a j (KS w) * a l (KS w)) + z1 w j * z2 w l * (a j (KS w) * b l (KS w)))
        + (z1 w l * z2 w j * (a l (KS w) * b j (KS w)) + z2 w j * z2 w l * (b j (KS w) * b l (KS w)))) Nm) Nm)).
  2:{ intros w. rewrite velocity_R. unfold Rfield. rewrite modes_shape.
      replace (mean_u * e1_of RO d + incompr_amp RO mean_u var N * Rsum (fun j => proj_of RO (KS w) d j * Rwave (Z1 w) (Z2 w) (Rphase (KS w) x j) j) Nm + 0 - mean_u * e1_of RO d)
        with (incompr_amp RO mean_u var N * Rsum (fun j => z1 w j * a j (KS w) + z2 w j * b j (KS w)) Nm).
      2:{ ring_simplify. f_equal. apply Rsum_ext. intros j _. unfold Rwave, a, b, z1, z2. ring. }
      rewrite Rpow_mult_distr. f_equal. simpl. rewrite Rmult_1_r, Rsum_mult.
      apply Rsum_ext. intros j _. apply Rsum_ext. intros l _. ring. }
  rewrite E_scal. f_equal. rewrite E_Rsum. apply Rsum_ext. intros j Hj. rewrite E_Rsum.
  rewrite (Rsum_ext _ (fun l => if Nat.eqb j l then E (fun w => (proj_of RO (KS w) d j) ^ 2) else 0)).
  { rewrite (Rsum_ext _ (fun l => if Nat.eqb l j then E (fun w => (proj_of RO (KS w) d j) ^ 2) else 0)).
    - now rewrite (Rsum_select (fun _ => E (fun w => (proj_of RO (KS w) d j) ^ 2))).
    - intros l _. rewrite Nat.eqb_sym. reflexivity. }
  intros l Hl.
  rewrite (E_plus (fun w => z1 w j * z1 w l * (a j (KS w) * a l (KS w)) + z1 w j * z2 w l * (a j (KS w) * b l (KS w)))
                  (fun w => z1 w l * z2 w j * (a l (KS w) * b j (KS w)) + z2 w j * z2 w l * (b j (KS w) * b l (KS w)))).
  rewrite (E_plus (fun w => z1 w j * z1 w l * (a j (KS w) * a l (KS w))) (fun w => z1 w j * z2 w l * (a j (KS w) * b l (KS w)))).
  rewrite (E_plus (fun w => z1 w l * z2 w j * (a l (KS w) * b j (KS w))) (fun w => z2 w j * z2 w l * (b j (KS w) * b l (KS w)))).
  unfold z1, z2.
  rewrite (Z11 j l (fun K => a j K * a l K) Hj Hl), (Z12 j l (fun K => a j K * b l K) Hj Hl),
          (Z12 l j (fun K => a l K * b j K) Hl Hj), (Z22 j l (fun K => b j K * b l K) Hj Hl).
  destruct (Nat.eqb_spec j l) as [<-|Hne]; [|ring].
  rewrite Rplus_0_r, Rplus_0_l.
  rewrite <- (E_plus (fun w => a j (KS w) * a j (KS w)) (fun w => b j (KS w) * b j (KS w))).
  apply E_ext. intros w. unfold a, b.
  pose proof (sin2_cos2 (Rphase (KS w) x j)) as H. unfold Rsqr in H.
  transitivity ((proj_of RO (KS w) d j) ^ 2 * (sin (Rphase (KS w) x j) * sin (Rphase (KS w) x j) + cos (Rphase (KS w) x j) * cos (Rphase (KS w) x j))); [ring|].
  rewrite H. ring.
Qed.

(* identically distributed modes: each component carries the fraction q_d = E[p_d(k)^2] of mean_u^2 var *)
Corollary variance_fraction mean_u var x d q : (0 < Nm)%nat -> 0 <= var ->
  (forall j, (j < Nm)%nat -> E (fun w => (proj_of RO (KS w) d j) ^ 2) = q) ->
  E (fun w => (velocity RO mean_u var (Z.of_nat Nm) (KS w) (Z1 w) (Z2 w) x d - mean_u * e1_of RO d) ^ 2)
  = mean_u ^ 2 * var * q.
Proof.
  intros HN Hv Hq. rewrite variance_velocity. rewrite (Rsum_ext _ (fun _ => q) Nm Hq).
  assert (Rsum (fun _ => q) Nm = INR Nm * q) as ->.
  { clear. induction Nm as [|n IH]; [simpl; ring|]. rewrite S_INR. simpl Rsum. rewrite IH. ring. }
  unfold incompr_amp. simpl. rewrite <- INR_IZR_INZ.
  assert (0 < INR Nm) by (apply lt_0_INR; lia).
  rewrite !Rmult_1_r.
  replace (mean_u * sqrt (var / INR Nm) * (mean_u * sqrt (var / INR Nm)))
    with (mean_u * mean_u * (sqrt (var / INR Nm) * sqrt (var / INR Nm))) by ring.
  rewrite sqrt_sqrt by (apply Rdiv_le_0_compat; lra). field. lra.
Qed.
End Variance.
End Ensemble.

(* the hypotheses are satisfiable: a fair coin flipping the sign of both amplitudes *)
Example mean_hypotheses_satisfiable :
  let E := fun f : bool -> R => (f true + f false) / 2 in
  let KS := fun _ : bool => [[1]; [0]] in
  let Z := fun w : bool => [if w then 1 else -1] in
  (forall f g, (forall w, f w = g w) -> E f = E g) /\
  (forall f g, E (fun w => f w + g w) = E f + E g) /\
  (forall c f, E (fun w => c * f w) = c * E f) /\
  (forall c, E (fun _ => c) = c) /\
  (forall w, shape1 (KS w) = 1%nat) /\
  (forall j (g : list (list R) -> R), (j < 1)%nat -> E (fun w => aget 0 (Z w) j * g (KS w)) = 0).
Proof.
  cbv zeta. repeat split.
  - intros f g H. now rewrite !H.
  - intros; field.
  - intros; field.
  - intros; field.
  - intros j g Hj. assert (j = 0%nat) by lia. subst. unfold aget; simpl. field.
Qed.

(* second-moment hypotheses are satisfiable too: two independent fair signs *)
Example variance_hypotheses_satisfiable :
  let E := fun f : bool * bool -> R => (f (true, true) + f (true, false) + f (false, true) + f (false, false)) / 4 in
  let KS := fun _ : bool * bool => [[1]; [0]] in
  let sg := fun b : bool => if b then 1 else -1 in
  let Z1 := fun w : bool * bool => [sg (fst w)] in
  let Z2 := fun w : bool * bool => [sg (snd w)] in
  (forall f g, (forall w, f w = g w) -> E f = E g) /\
  (forall f g, E (fun w => f w + g w) = E f + E g) /\
  (forall c f, E (fun w => c * f w) = c * E f) /\
  (forall c, E (fun _ => c) = c) /\
  (forall j l (g : list (list R) -> R), (j < 1)%nat -> (l < 1)%nat ->
     E (fun w => aget 0 (Z1 w) j * aget 0 (Z1 w) l * g (KS w)) = if Nat.eqb j l then E (fun w => g (KS w)) else 0) /\
  (forall j l (g : list (list R) -> R), (j < 1)%nat -> (l < 1)%nat ->
     E (fun w => aget 0 (Z2 w) j * aget 0 (Z2 w) l * g (KS w)) = if Nat.eqb j l then E (fun w => g (KS w)) else 0) /\
  (forall j l (g : list (list R) -> R), (j < 1)%nat -> (l < 1)%nat ->
     E (fun w => aget 0 (Z1 w) j * aget 0 (Z2 w) l * g (KS w)) = 0).
Proof.
  cbv zeta. repeat split.
  - intros f g H. now rewrite !H.
  - intros; field.
  - intros; field.
  - intros; field.
  - intros j l g Hj Hl. assert (j = 0%nat) by lia. assert (l = 0%nat) by lia. subst. unfold aget; simpl. field.
  - intros j l g Hj Hl. assert (j = 0%nat) by lia. assert (l = 0%nat) by lia. subst. unfold aget; simpl. field.
  - intros j l g Hj Hl. assert (j = 0%nat) by lia. assert (l = 0%nat) by lia. subst. unfold aget; simpl. field.
Qed.
