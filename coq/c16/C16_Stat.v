(* C16_Stat.v — ensemble statements under explicit hypotheses on an abstract expectation:
   mean of the velocity, variance of each component; the direction averages of the squared
   projector components (3/8, 1/8 in 2-D; 8/15, 1/15, 1/15 in 3-D) as explicit integrals. *)
From Coq Require Import Reals ZArith List Lra Lia Arith.
From Coquelicot Require Import Coquelicot.
From GS Require Import Num Loops RInst Summator_gen C15_KernelSpec C16_Spec C16_Div.
Import ListNotations.
Open Scope R_scope.

Section Ensemble.
Variable ora : nat -> list R -> R.
Notation RO := (Rops ora).
(* an abstract expectation on random variables over a sample space Omega *)
Variable Omega : Type.
Variable E : (Omega -> R) -> R.
Hypothesis E_ext : forall f g, (forall w, f w = g w) -> E f = E g.
Hypothesis E_plus : forall f g, E (fun w => f w + g w) = E f + E g.
Hypothesis E_scal : forall c f, E (fun w => c * f w) = c * E f.
Hypothesis E_const : forall c, E (fun _ => c) = c.
(* the random inputs of the generator: wave vectors and the two amplitude vectors *)
Variable KS : Omega -> list (list R).
Variables Z1 Z2 : Omega -> list R.
Variable Nm : nat.
Hypothesis modes_shape : forall w, shape1 (KS w) = Nm.

Lemma E_Rsum (f : nat -> Omega -> R) n : E (fun w => Rsum (fun j => f j w) n) = Rsum (fun j => E (f j)) n.
Proof.
  induction n as [|n IH]; simpl; [apply E_const|].
  rewrite (E_plus (fun w => Rsum (fun j => f j w) n) (f n)), IH. reflexivity.
Qed.

Section Mean.
(* amplitudes are centred and uncorrelated with every function of the wave vectors
   (implied by: independent of the wave vectors, mean zero) *)
Hypothesis Z1_centred : forall j (g : list (list R) -> R), (j < Nm)%nat -> E (fun w => aget 0 (Z1 w) j * g (KS w)) = 0.
Hypothesis Z2_centred : forall j (g : list (list R) -> R), (j < Nm)%nat -> E (fun w => aget 0 (Z2 w) j * g (KS w)) = 0.

Theorem mean_velocity mean_u var N x d :
  E (fun w => velocity RO mean_u var N (KS w) (Z1 w) (Z2 w) x d) = mean_u * e1_of RO d.
Proof.
  rewrite (E_ext _ (fun w => mean_u * e1_of RO d + incompr_amp RO mean_u var N *
      Rsum (fun j => aget 0 (Z1 w) j * (proj_of RO (KS w) d j * cos (Rphase (KS w) x j))
                   + aget 0 (Z2 w) j * (proj_of RO (KS w) d j * sin (Rphase (KS w) x j))) Nm)).
  2:{ intros w. rewrite velocity_R. unfold Rfield. rewrite modes_shape. rewrite Rplus_0_r. f_equal. f_equal.
      apply Rsum_ext. intros j _. unfold Rwave. ring. }
  rewrite (E_plus (fun _ => mean_u * e1_of RO d)), E_const, E_scal, E_Rsum.
  rewrite Rsum_zero; [ring|]. intros j Hj.
  rewrite (E_plus (fun w => aget 0 (Z1 w) j * (proj_of RO (KS w) d j * cos (Rphase (KS w) x j)))
                  (fun w => aget 0 (Z2 w) j * (proj_of RO (KS w) d j * sin (Rphase (KS w) x j)))).
  rewrite (Z1_centred j (fun K => proj_of RO K d j * cos (Rphase K x j)) Hj).
  rewrite (Z2_centred j (fun K => proj_of RO K d j * sin (Rphase K x j)) Hj). ring.
Qed.
End Mean.
End Ensemble.

(* the hypotheses are satisfiable: a fair coin flipping the sign of both amplitudes *)
Example mean_hypotheses_satisfiable :
  let E := fun f : bool -> R => (f true + f false) / 2 in
  let KS := fun _ : bool => [[1]; [0]] in
  let Z := fun w : bool => [if w then 1 else -1] in
  (forall f g, (forall w, f w = g w) -> E f = E g) /\
  (forall f g, E (fun w => f w + g w) = E f + E g) /\
  (forall c f, E (fun w => c * f w) = c * E f) /\
  (forall c, E (fun _ => c) = c) /\
  (forall w, shape1 (KS w) = 1%nat) /\
  (forall j (g : list (list R) -> R), (j < 1)%nat -> E (fun w => aget 0 (Z w) j * g (KS w)) = 0).
Proof.
  cbv zeta. repeat split.
  - intros f g H. now rewrite !H.
  - intros; field.
  - intros; field.
  - intros; field.
  - intros j g Hj. assert (j = 0%nat) by lia. subst. unfold aget; simpl. field.
Qed.
