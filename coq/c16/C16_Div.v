(* C16_Div.v — over the reals: the projector is orthogonal to the wave vector, the generated
   velocity field is divergence free at every point, its mean is mean_u e1. *)
From Coq Require Import Reals ZArith List Lra Lia Arith.
From Coquelicot Require Import Coquelicot.
From GS Require Import Num Loops Cellwise RInst Summator_gen C15_KernelSpec C16_Spec C16_Refine.
Import ListNotations.
Open Scope R_scope.

(* ---------- finite sums indexed by nat *)
Fixpoint Rsum (f : nat -> R) (n : nat) : R :=
  match n with O => 0 | S m => Rsum f m + f m end.

Lemma for_Rsum (f : nat -> R) n a : for_ 0 n (fun d acc => acc + f d) a = a + Rsum f n.
Proof.
  induction n as [|n IH]; [unfold for_; simpl; ring|].
  unfold for_ in *. rewrite Nat.sub_0_r in *. rewrite seq_S, fold_left_app. simpl. rewrite IH. ring.
Qed.
Lemma Rsum_ext f g n : (forall i, (i < n)%nat -> f i = g i) -> Rsum f n = Rsum g n.
Proof. induction n as [|n IH]; intros H; simpl; auto. rewrite IH, H by (intros; auto with arith). reflexivity. Qed.
Lemma Rsum_zero f n : (forall i, (i < n)%nat -> f i = 0) -> Rsum f n = 0.
Proof. induction n as [|n IH]; intros H; simpl; auto. rewrite IH, H by (intros; auto with arith). ring. Qed.
Lemma Rsum_plus f g n : Rsum (fun i => f i + g i) n = Rsum f n + Rsum g n.
Proof. induction n as [|n IH]; simpl; [ring|rewrite IH; ring]. Qed.
Lemma Rsum_scal c f n : Rsum (fun i => c * f i) n = c * Rsum f n.
Proof. induction n as [|n IH]; simpl; [ring|rewrite IH; ring]. Qed.
Lemma Rsum_swap (f : nat -> nat -> R) n m :
  Rsum (fun i => Rsum (fun j => f i j) m) n = Rsum (fun j => Rsum (fun i => f i j) n) m.
Proof.
  induction n as [|n IH]; simpl.
  - symmetry. apply Rsum_zero. auto.
  - rewrite IH. rewrite <- Rsum_plus. reflexivity.
Qed.
Lemma Rsum_select (f : nat -> R) n d : (d < n)%nat ->
  Rsum (fun i => if Nat.eqb i d then f i else 0) n = f d.
Proof.
  induction n as [|n IH]; intros H; [lia|]. simpl.
  destruct (Nat.eqb_spec n d) as [->|Hne].
  - rewrite Rsum_zero; [ring|]. intros i Hi. destruct (Nat.eqb_spec i d); [lia|reflexivity].
  - rewrite IH by lia. ring.
Qed.
Lemma Rsum_nonneg f n : (forall i, (i < n)%nat -> 0 <= f i) -> 0 <= Rsum f n.
Proof. induction n as [|n IH]; intros H; simpl; [lra|]. specialize (H n (Nat.lt_succ_diag_r n)) as Hn.
  assert (0 <= Rsum f n) by (apply IH; intros; apply H; lia). lra. Qed.
Lemma Rsum_pos_term f n d : (forall i, (i < n)%nat -> 0 <= f i) -> (d < n)%nat -> 0 < f d -> 0 < Rsum f n.
Proof.
  induction n as [|n IH]; intros H Hd Hp; [lia|]. simpl.
  assert (0 <= Rsum f n) by (apply Rsum_nonneg; intros; apply H; lia).
  destruct (Nat.eq_dec d n) as [->|Hne]; [lra|].
  assert (0 < Rsum f n) by (apply IH; auto; try lia; intros; apply H; lia).
  specialize (H n (Nat.lt_succ_diag_r n)). lra.
Qed.
Lemma is_derive_Rsum (f : nat -> R -> R) (f' : nat -> R) n t :
  (forall j, (j < n)%nat -> is_derive (f j) t (f' j)) ->
  is_derive (fun s => Rsum (fun j => f j s) n) t (Rsum f' n).
Proof.
  induction n as [|n IH]; intros H; simpl.
  - apply (is_derive_const 0 t).
  - apply (is_derive_plus (fun s => Rsum (fun j => f j s) n) (f n)); [apply IH; intros; apply H; lia|apply H; lia].
Qed.

Section AtR.
Variable ora : nat -> list R -> R.
Notation RO := (Rops ora).

(* ---------- the model's folds as sums *)
Definition Rphase (ks : list (list R)) (x : list R) (j : nat) : R :=
  Rsum (fun d => aget2 0 ks d j * aget 0 x d) (length x).
Definition Rwave (z1 z2 : list R) (ph : R) (j : nat) : R := aget 0 z1 j * cos ph + aget 0 z2 j * sin ph.
Definition Rfield (ks : list (list R)) (z1 z2 x : list R) (d : nat) : R :=
  Rsum (fun j => proj_of RO ks d j * Rwave z1 z2 (Rphase ks x j) j) (shape1 ks).

Lemma aget2_colmat (x : list R) d : aget2 0 (colmat x) d 0 = aget 0 x d.
Proof.
  unfold aget2, arow, colmat, aget. revert d. induction x as [|a x IH]; intros [|d]; simpl; auto.
Qed.
Lemma phase_of_R ks x j : phase_of RO ks (colmat x) j 0 = Rphase ks x j.
Proof.
  unfold phase_of, Rphase, shape0, colmat. rewrite map_length.
  etransitivity; [exact (for_Rsum (fun d => aget2 0 ks d j * aget2 0 (map (fun c => [c]) x) d 0) (length x) 0)|].
  rewrite Rplus_0_l. apply Rsum_ext. intros d _. f_equal. apply aget2_colmat.
Qed.
Lemma vfield_R ks z1 z2 x d : vfield RO ks z1 z2 x d = Rfield ks z1 z2 x d.
Proof.
  unfold vfield, incompr_point, Rfield.
  etransitivity; [exact (for_Rsum (fun j => proj_of RO ks d j * wave RO z1 z2 (phase_of RO ks (colmat x) j 0) j) (shape1 ks) 0)|].
  rewrite Rplus_0_l. apply Rsum_ext. intros j _. rewrite phase_of_R. reflexivity.
Qed.
Lemma abs_square_R (v : list R) : abs_square RO v = Rsum (fun i => aget 0 v i * aget 0 v i) (length v).
Proof.
  unfold abs_square. cbv zeta.
  etransitivity; [|etransitivity; [exact (for_Rsum (fun i => aget 0 v i * aget 0 v i) (length v) 0)|apply Rplus_0_l]].
  apply for_ext. intros i r _. simpl. f_equal. apply Rpow_2.
Qed.
Lemma aget_acol (ks : list (list R)) j d : aget 0 (acol 0 ks j) d = aget2 0 ks d j.
Proof.
  unfold acol, aget2, arow, aget. revert d. induction ks as [|r ks IH]; intros [|d]; simpl; auto.
  - now destruct j.
  - now destruct j.
Qed.
(* |k_j|^2 as a sum over the rows of the wave-vector array *)
Lemma k2_R ks j : abs_square RO (acol 0 ks j) = Rsum (fun d => aget2 0 ks d j * aget2 0 ks d j) (shape0 ks).
Proof.
  rewrite abs_square_R. unfold acol at 3. rewrite map_length. apply Rsum_ext. intros d _. now rewrite aget_acol.
Qed.
Lemma k2_pos ks j : (exists d, (d < shape0 ks)%nat /\ aget2 0 ks d j <> 0) -> 0 < abs_square RO (acol 0 ks j).
Proof.
  intros [d [Hd Hn]]. rewrite k2_R. apply (Rsum_pos_term _ _ d); auto.
  - intros i _. apply Rle_0_sqr.
  - assert (0 <= aget2 0 ks d j * aget2 0 ks d j) by apply Rle_0_sqr.
    destruct (Req_dec (aget2 0 ks d j * aget2 0 ks d j) 0) as [E|E]; [|lra].
    apply Rmult_integral in E. tauto.
Qed.

(* ---------- projector orthogonality, any dimension >= 1 *)
Theorem projector_orthogonal ks j : (0 < shape0 ks)%nat ->
  (exists d, (d < shape0 ks)%nat /\ aget2 0 ks d j <> 0) ->
  Rsum (fun d => aget2 0 ks d j * proj_of RO ks d j) (shape0 ks) = 0.
Proof.
  intros Hdim Hk. pose proof (k2_pos ks j Hk) as Hpos. pose proof (k2_R ks j) as Hk2.
  set (k2 := abs_square RO (acol 0 ks j)) in *.
  set (K := fun d => aget2 0 ks d j).
  assert (E : forall d, K d * proj_of RO ks d j
               = (if Nat.eqb d 0 then K d else 0) + (- (K 0%nat / k2)) * (K d * K d)).
  { intros d. unfold proj_of. fold k2. simpl. unfold K. destruct d as [|d]; simpl; change (abs_square RO (acol 0 ks j)) with k2; field; lra. }
  rewrite (Rsum_ext _ _ _ (fun d _ => E d)). rewrite Rsum_plus, Rsum_scal.
  rewrite (Rsum_select K) by auto. unfold K. rewrite <- Hk2. field. lra.
Qed.

(* ---------- derivatives *)
Lemma aget_aupd_R (x : list R) d t d' : (d < length x)%nat ->
  aget 0 (aupd x d t) d' = if Nat.eqb d' d then t else aget 0 x d'.
Proof.
  intros H. destruct (Nat.eqb_spec d' d) as [->|Hne].
  - now apply aget_aupd_same.
  - apply aget_aupd_other. auto.
Qed.

Lemma phase_derive ks x j d t0 : (d < length x)%nat ->
  is_derive (fun t => Rphase ks (aupd x d t) j) t0 (aget2 0 ks d j).
Proof.
  intros Hd. unfold Rphase.
  apply (is_derive_ext (fun t => Rsum (fun d' => aget2 0 ks d' j * (if Nat.eqb d' d then t else aget 0 x d')) (length x))).
  { intros t. rewrite aupd_length. apply Rsum_ext. intros d' _. now rewrite aget_aupd_R. }
  rewrite <- (Rsum_select (fun d' => aget2 0 ks d' j) (length x) d Hd).
  apply (is_derive_Rsum (fun d' t => aget2 0 ks d' j * (if Nat.eqb d' d then t else aget 0 x d'))
                        (fun d' => if Nat.eqb d' d then aget2 0 ks d' j else 0)).
  intros d' _. destruct (Nat.eqb d' d); auto_derive; auto; ring.
Qed.

Lemma wave_derive (phi : R -> R) t0 k a b P : is_derive phi t0 k ->
  is_derive (fun t => P * (a * cos (phi t) + b * sin (phi t))) t0
            (P * ((b * cos (phi t0) - a * sin (phi t0)) * k)).
Proof.
  intros H. auto_derive.
  - split; [exists k; exact H|]. split; [exists k; exact H|]. exact I.
  - change (fun x : R => phi x) with phi. rewrite (is_derive_unique _ _ _ H). ring.
Qed.

(* d/dx_d of component c of the kernel sum, at x *)
Definition dfield ks z1 z2 (x : list R) (c d : nat) : R :=
  Rsum (fun j => proj_of RO ks c j *
     ((aget 0 z2 j * cos (Rphase ks x j) - aget 0 z1 j * sin (Rphase ks x j)) * aget2 0 ks d j)) (shape1 ks).

Lemma Rfield_derive ks z1 z2 x c d : (d < length x)%nat ->
  is_derive (fun t => Rfield ks z1 z2 (aupd x d t) c) (aget 0 x d) (dfield ks z1 z2 x c d).
Proof.
  intros Hd. unfold Rfield, dfield.
  apply (is_derive_Rsum (fun j t => proj_of RO ks c j * Rwave z1 z2 (Rphase ks (aupd x d t) j) j)).
  intros j _. unfold Rwave.
  pose proof (wave_derive (fun t => Rphase ks (aupd x d t) j) (aget 0 x d) (aget2 0 ks d j)
                 (aget 0 z1 j) (aget 0 z2 j) (proj_of RO ks c j) (phase_derive ks x j d _ Hd)) as W.
  cbv beta in W.
  replace (Rphase ks x j) with (Rphase ks (aupd x d (aget 0 x d)) j) by (now rewrite aupd_same_id). exact W.
Qed.

Theorem kernel_divergence_zero ks z1 z2 x : length x = shape0 ks -> (0 < shape0 ks)%nat ->
  (forall j, (j < shape1 ks)%nat -> exists d, (d < shape0 ks)%nat /\ aget2 0 ks d j <> 0) ->
  Rsum (fun d => dfield ks z1 z2 x d d) (length x) = 0.
Proof.
  intros Hx Hdim Hk. unfold dfield. rewrite Rsum_swap. apply Rsum_zero. intros j Hj.
  rewrite (Rsum_ext _ (fun d => (aget 0 z2 j * cos (Rphase ks x j) - aget 0 z1 j * sin (Rphase ks x j))
                               * (aget2 0 ks d j * proj_of RO ks d j))) by (intros; ring).
  rewrite Rsum_scal, Hx, (projector_orthogonal ks j Hdim (Hk j Hj)). ring.
Qed.

(* ---------- the generator's output: mean_u e1 + mean_u sqrt(var/N) u + 0 *)
Lemma velocity_R mean_u var N ks z1 z2 x d :
  velocity RO mean_u var N ks z1 z2 x d
  = mean_u * e1_of RO d + incompr_amp RO mean_u var N * Rfield ks z1 z2 x d + 0.
Proof. unfold velocity, incompr_out. rewrite vfield_R. reflexivity. Qed.

Lemma velocity_derive mean_u var N ks z1 z2 x c d : (d < length x)%nat ->
  is_derive (fun t => velocity RO mean_u var N ks z1 z2 (aupd x d t) c) (aget 0 x d)
            (incompr_amp RO mean_u var N * dfield ks z1 z2 x c d).
Proof.
  intros Hd.
  pose proof (Rfield_derive ks z1 z2 x c d Hd) as F.
  set (Ff := fun t => Rfield ks z1 z2 (aupd x d t) c) in *.
  apply (is_derive_ext (fun t => mean_u * e1_of RO c + incompr_amp RO mean_u var N * Ff t + 0)).
  { intros t. now rewrite velocity_R. }
  auto_derive.
  - eexists; exact F.
  - change (fun x0 : R => Ff x0) with Ff. rewrite (is_derive_unique _ _ _ F). unfold incompr_amp; simpl. ring.
Qed.

Definition partial mean_u var N ks z1 z2 (x : list R) (c d : nat) : R :=
  Derive (fun t => velocity RO mean_u var N ks z1 z2 (aupd x d t) c) (aget 0 x d).

Theorem divergence_free mean_u var N ks z1 z2 x : length x = shape0 ks -> (0 < shape0 ks)%nat ->
  (forall j, (j < shape1 ks)%nat -> exists d, (d < shape0 ks)%nat /\ aget2 0 ks d j <> 0) ->
  (forall c d, (d < length x)%nat ->
       ex_derive (fun t => velocity RO mean_u var N ks z1 z2 (aupd x d t) c) (aget 0 x d)) /\
  Rsum (fun d => partial mean_u var N ks z1 z2 x d d) (length x) = 0.
Proof.
  intros Hx Hdim Hk. split.
  - intros c d Hd. eexists. apply velocity_derive; auto.
  - rewrite (Rsum_ext _ (fun d => incompr_amp RO mean_u var N * dfield ks z1 z2 x d d)).
    + rewrite Rsum_scal, kernel_divergence_zero by auto. ring.
    + intros d Hd. unfold partial. apply is_derive_unique. now apply velocity_derive.
Qed.

Corollary divergence_free_2d mean_u var N ks z1 z2 x0 x1 : shape0 ks = 2%nat ->
  (forall j, (j < shape1 ks)%nat -> aget2 0 ks 0 j <> 0 \/ aget2 0 ks 1 j <> 0) ->
  Derive (fun t => velocity RO mean_u var N ks z1 z2 [t; x1] 0) x0
  + Derive (fun t => velocity RO mean_u var N ks z1 z2 [x0; t] 1) x1 = 0.
Proof.
  intros Hs Hk.
  destruct (divergence_free mean_u var N ks z1 z2 [x0; x1]) as [_ H]; simpl; try lia.
  - intros j Hj. rewrite Hs. destruct (Hk j Hj); [exists 0%nat|exists 1%nat]; split; auto.
  - unfold partial in H. simpl in H. lra.
Qed.

Corollary divergence_free_3d mean_u var N ks z1 z2 x0 x1 x2 : shape0 ks = 3%nat ->
  (forall j, (j < shape1 ks)%nat -> aget2 0 ks 0 j <> 0 \/ aget2 0 ks 1 j <> 0 \/ aget2 0 ks 2 j <> 0) ->
  Derive (fun t => velocity RO mean_u var N ks z1 z2 [t; x1; x2] 0) x0
  + Derive (fun t => velocity RO mean_u var N ks z1 z2 [x0; t; x2] 1) x1
  + Derive (fun t => velocity RO mean_u var N ks z1 z2 [x0; x1; t] 2) x2 = 0.
Proof.
  intros Hs Hk.
  destruct (divergence_free mean_u var N ks z1 z2 [x0; x1; x2]) as [_ H]; simpl; try lia.
  - intros j Hj. rewrite Hs. destruct (Hk j Hj) as [?|[?|?]]; [exists 0%nat|exists 1%nat|exists 2%nat]; split; auto.
  - unfold partial in H. simpl in H. lra.
Qed.
End AtR.

(* the premises of divergence_free are satisfiable: two modes in 2-D *)
Example divergence_premises_satisfiable :
  let ks := [[1; 0]; [2; -3]] in let x := [5; 7] in
  length x = shape0 ks /\ (0 < shape0 ks)%nat /\
  (forall j, (j < shape1 ks)%nat -> exists d, (d < shape0 ks)%nat /\ aget2 0 ks d j <> 0).
Proof.
  cbv zeta. repeat split; simpl; try lia.
  intros j Hj. unfold shape1 in Hj; simpl in Hj. exists 1%nat. split; [unfold shape0; simpl; lia|].
  destruct j as [|[|j]]; unfold aget2, arow, aget; simpl; try lra. lia.
Qed.
