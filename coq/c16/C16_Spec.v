(* C16_Spec.v — closed-form specification of the incompressible summation kernel and the model of
   IncomprRandMeth.__call__ (field/generator.py).  Generic in the number type. *)
From Coq Require Import ZArith List Bool Arith.
From GS Require Import Num Loops Summator_gen C15_KernelSpec.
Import ListNotations.

Section Spec.
Context {T : Type} (O : NumOps T).
Notation z := (n0 O).

(* first unit vector, by index *)
Definition e1_of (d : nat) : T := match d with 0%nat => n1 O | _ => z end.

(* p_d(k_j) = e1_d - k_dj k_0j / |k_j|^2     (|k|^2 = the kernel's abs_square of column j) *)
Definition proj_of (ks : list (list T)) (d j : nat) : T :=
  nsub O (e1_of d) (ndiv O (nmul O (aget2 z ks d j) (aget2 z ks 0%nat j)) (abs_square O (acol z ks j))).

(* component d at point i:  sum_j p_d(k_j) (z1_j cos<k_j,x_i> + z2_j sin<k_j,x_i>), left fold in mode order *)
Definition incompr_point ks z1 z2 pos (d i : nat) : T :=
  for_ 0 (shape1 ks) (fun j acc => nadd O acc (nmul O (proj_of ks d j) (wave O z1 z2 (phase_of O ks pos j i) j))) z.

Definition summate_incompr_spec ks z1 z2 pos : list (list T) :=
  map (fun d => map (fun i => incompr_point ks z1 z2 pos d i) (seq 0 (shape1 pos))) (seq 0 (shape0 pos)).

(* a single evaluation point x as a (dim x 1) position array *)
Definition colmat (x : list T) : list (list T) := map (fun c => [c]) x.

(* the vector field as a function of the point: component d of the kernel sum at x *)
Definition vfield ks z1 z2 (x : list T) (d : nat) : T := incompr_point ks z1 z2 (colmat x) d 0%nat.

(* IncomprRandMeth.__call__ :  mean_u * e1 + mean_u * sqrt(var / mode_no) * summed_modes + nugget
   (numpy evaluation order: the two scalars are multiplied first) *)
Definition incompr_amp (mean_u var : T) (mode_no : Z) : T :=
  nmul O mean_u (nsqrt O (ndiv O var (nofZ O mode_no))).
Definition incompr_out (mean_u var : T) (mode_no : Z) (d : nat) (s nug : T) : T :=
  nadd O (nadd O (nmul O mean_u (e1_of d)) (nmul O (incompr_amp mean_u var mode_no) s)) nug.
Definition incompr_call (mean_u var : T) (mode_no : Z) (sm nug : list (list T)) : list (list T) :=
  map (fun d => map (fun i => incompr_out mean_u var mode_no d (aget2 z sm d i) (aget2 z nug d i))
                    (seq 0 (shape1 sm))) (seq 0 (shape0 sm)).

(* velocity component d at the point x (nugget 0: the generator adds the float 0.0) *)
Definition velocity (mean_u var : T) (mode_no : Z) ks z1 z2 (x : list T) (d : nat) : T :=
  incompr_out mean_u var mode_no d (vfield ks z1 z2 x d) z.

(* the whole generator call on a position array, nugget given *)
Definition incompr_generate (mean_u var : T) (mode_no : Z) ks z1 z2 pos nug : list (list T) :=
  incompr_call mean_u var mode_no (summate_incompr_spec ks z1 z2 pos) nug.
End Spec.
