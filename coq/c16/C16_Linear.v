(* C16_Linear.v — the vector field seen through a linear change of the positions, x |-> A x, with the
   components left as they are (what SRF did for rotated / anisotropic models: Field.pre_pos isometrizes the
   positions, the components are not rotated back):  w(x) = u(A x).
   div w (x) = amp * sum_j W'_j(<k_j, A x>) * sum_d p_d(k_j) (A^T k_j)_d ;
   it vanishes for multiples of the identity; in 2-D the coefficient vanishes for every wave vector ONLY for
   multiples of the identity; a quarter turn and an anisotropic stretch give non-zero divergence. *)
From Coq Require Import Reals ZArith List Lra Lia Arith.
From Coquelicot Require Import Coquelicot.
From GS Require Import Num Loops RInst Summator_gen C15_KernelSpec C16_Spec C16_Div.
Import ListNotations.
Open Scope R_scope.

Definition dotR (r x : list R) : R := Rsum (fun e => aget 0 r e * aget 0 x e) (length x).
Definition mat_vec (A : list (list R)) (x : list R) : list R := map (fun r => dotR r x) A.

Lemma mat_vec_length A x : length (mat_vec A x) = length A.
Proof. apply map_length. Qed.
Lemma aget_mat_vec A x e : (e < length A)%nat -> aget 0 (mat_vec A x) e = dotR (arow A e) x.
Proof.
  intros H. unfold mat_vec, aget, arow.
  rewrite (nth_indep _ 0 ((fun r => dotR r x) [])) by (now rewrite map_length).
  apply (map_nth (fun r => dotR r x)).
Qed.

Lemma dot_derive r x d t0 : (d < length x)%nat ->
  is_derive (fun t => dotR r (aupd x d t)) t0 (aget 0 r d).
Proof.
  intros Hd. unfold dotR.
  apply (is_derive_ext (fun t => Rsum (fun e => aget 0 r e * (if Nat.eqb e d then t else aget 0 x e)) (length x))).
  { intros t. rewrite aupd_length. apply Rsum_ext. intros e _. now rewrite aget_aupd_R. }
  rewrite <- (Rsum_select (fun e => aget 0 r e) (length x) d Hd).
  apply (is_derive_Rsum (fun e t => aget 0 r e * (if Nat.eqb e d then t else aget 0 x e))
                        (fun e => if Nat.eqb e d then aget 0 r e else 0)).
  intros e _. destruct (Nat.eqb e d); auto_derive; auto; ring.
Qed.

Section Linear.
Variable ora : nat -> list R -> R.
Notation RO := (Rops ora).

(* (A^T k_j)_d *)
Definition ATk (A ks : list (list R)) (j d : nat) : R :=
  Rsum (fun e => aget2 0 ks e j * aget2 0 A e d) (length A).
(* sum_d p_d(k_j) (A^T k_j)_d : the factor that decides the divergence of mode j *)
Definition map_coeff (A ks : list (list R)) (n j : nat) : R :=
  Rsum (fun d => proj_of RO ks d j * ATk A ks j d) n.

Lemma phase_map_derive A ks x j d t0 : (d < length x)%nat ->
  is_derive (fun t => Rphase ks (mat_vec A (aupd x d t)) j) t0 (ATk A ks j d).
Proof.
  intros Hd. unfold Rphase, ATk.
  apply (is_derive_ext (fun t => Rsum (fun e => aget2 0 ks e j * dotR (arow A e) (aupd x d t)) (length A))).
  { intros t. rewrite mat_vec_length. apply Rsum_ext. intros e He. now rewrite aget_mat_vec. }
  apply (is_derive_Rsum (fun e t => aget2 0 ks e j * dotR (arow A e) (aupd x d t))
                        (fun e => aget2 0 ks e j * aget2 0 A e d)).
  intros e _. apply (is_derive_scal (fun t => dotR (arow A e) (aupd x d t)) t0 (aget2 0 ks e j)).
  apply dot_derive; auto.
Qed.

Definition dfield_map A ks z1 z2 (x : list R) (c d : nat) : R :=
  Rsum (fun j => proj_of RO ks c j *
     ((aget 0 z2 j * cos (Rphase ks (mat_vec A x) j) - aget 0 z1 j * sin (Rphase ks (mat_vec A x) j)) * ATk A ks j d))
     (shape1 ks).

Lemma Rfield_map_derive A ks z1 z2 x c d : (d < length x)%nat ->
  is_derive (fun t => Rfield ora ks z1 z2 (mat_vec A (aupd x d t)) c) (aget 0 x d) (dfield_map A ks z1 z2 x c d).
Proof.
  intros Hd. unfold Rfield, dfield_map.
  apply (is_derive_Rsum (fun j t => proj_of RO ks c j * Rwave z1 z2 (Rphase ks (mat_vec A (aupd x d t)) j) j)).
  intros j _. unfold Rwave.
  pose proof (wave_derive (fun t => Rphase ks (mat_vec A (aupd x d t)) j) (aget 0 x d) (ATk A ks j d)
                 (aget 0 z1 j) (aget 0 z2 j) (proj_of RO ks c j) (phase_map_derive A ks x j d _ Hd)) as W.
  cbv beta in W.
  replace (Rphase ks (mat_vec A x) j) with (Rphase ks (mat_vec A (aupd x d (aget 0 x d))) j) by (now rewrite aupd_same_id).
  exact W.
Qed.

Lemma velocity_map_derive mean_u var N A ks z1 z2 x c d : (d < length x)%nat ->
  is_derive (fun t => velocity RO mean_u var N ks z1 z2 (mat_vec A (aupd x d t)) c) (aget 0 x d)
            (incompr_amp RO mean_u var N * dfield_map A ks z1 z2 x c d).
Proof.
  intros Hd.
  pose proof (Rfield_map_derive A ks z1 z2 x c d Hd) as F.
  set (Ff := fun t => Rfield ora ks z1 z2 (mat_vec A (aupd x d t)) c) in *.
  apply (is_derive_ext (fun t => mean_u * e1_of RO c + incompr_amp RO mean_u var N * Ff t + 0)).
  { intros t. now rewrite velocity_R. }
  auto_derive.
  - eexists; exact F.
  - change (fun x0 : R => Ff x0) with Ff. rewrite (is_derive_unique _ _ _ F). unfold incompr_amp; simpl. ring.
Qed.

(* divergence of x |-> u(A x), in the user's coordinates, for every matrix A *)
Theorem divergence_linear_map mean_u var N A ks z1 z2 x :
  (forall c d, (d < length x)%nat ->
     ex_derive (fun t => velocity RO mean_u var N ks z1 z2 (mat_vec A (aupd x d t)) c) (aget 0 x d)) /\
  Rsum (fun d => Derive (fun t => velocity RO mean_u var N ks z1 z2 (mat_vec A (aupd x d t)) d) (aget 0 x d)) (length x)
  = incompr_amp RO mean_u var N *
    Rsum (fun j => (aget 0 z2 j * cos (Rphase ks (mat_vec A x) j) - aget 0 z1 j * sin (Rphase ks (mat_vec A x) j))
                   * map_coeff A ks (length x) j) (shape1 ks).
Proof.
  split.
  - intros c d Hd. eexists. now apply velocity_map_derive.
  - rewrite (Rsum_ext _ (fun d => incompr_amp RO mean_u var N * dfield_map A ks z1 z2 x d d)).
    2:{ intros d Hd. apply is_derive_unique. now apply velocity_map_derive. }
    rewrite Rsum_scal. f_equal. unfold dfield_map. rewrite Rsum_swap. apply Rsum_ext. intros j _.
    unfold map_coeff. rewrite <- Rsum_scal. apply Rsum_ext. intros d _. ring.
Qed.

(* multiples of the identity (an isotropic rescaling of the coordinates) keep the field solenoidal *)
Definition scalar_matrix (lam : R) (n : nat) (A : list (list R)) : Prop :=
  length A = n /\ forall e d, (e < n)%nat -> (d < n)%nat -> aget2 0 A e d = if Nat.eqb e d then lam else 0.

Lemma map_coeff_scalar lam A ks j : scalar_matrix lam (shape0 ks) A -> (0 < shape0 ks)%nat ->
  (exists d, (d < shape0 ks)%nat /\ aget2 0 ks d j <> 0) -> map_coeff A ks (shape0 ks) j = 0.
Proof.
  intros [L HA] Hdim Hk. unfold map_coeff.
  rewrite (Rsum_ext _ (fun d => lam * (aget2 0 ks d j * proj_of RO ks d j))).
  - rewrite Rsum_scal, (projector_orthogonal ora ks j Hdim Hk). ring.
  - intros d Hd. unfold ATk. rewrite L.
    rewrite (Rsum_ext _ (fun e => if Nat.eqb e d then lam * aget2 0 ks e j else 0)).
    + rewrite (Rsum_select (fun e => lam * aget2 0 ks e j)) by auto. ring.
    + intros e He. rewrite (HA e d He Hd). destruct (Nat.eqb e d); ring.
Qed.

Theorem divergence_scalar_map mean_u var N lam A ks z1 z2 x :
  length x = shape0 ks -> (0 < shape0 ks)%nat -> scalar_matrix lam (shape0 ks) A ->
  (forall j, (j < shape1 ks)%nat -> exists d, (d < shape0 ks)%nat /\ aget2 0 ks d j <> 0) ->
  Rsum (fun d => Derive (fun t => velocity RO mean_u var N ks z1 z2 (mat_vec A (aupd x d t)) d) (aget 0 x d)) (length x) = 0.
Proof.
  intros Hx Hdim HA Hk. etransitivity; [exact (proj2 (divergence_linear_map mean_u var N A ks z1 z2 x))|].
  rewrite Rsum_zero; [ring|]. intros j Hj.
  match goal with |- _ * map_coeff A ks ?n j = 0 => replace n with (shape0 ks) by (symmetry; exact Hx) end.
  rewrite (map_coeff_scalar lam A ks j HA Hdim (Hk j Hj)). ring.
Qed.

(* 2-D: the coefficient vanishes for EVERY non-zero wave vector only if A is a multiple of the identity *)
Lemma coeff_2d a b c d k0 k1 : k0 * k0 + k1 * k1 <> 0 ->
  map_coeff [[a; b]; [c; d]] [[k0]; [k1]] 2 0
  = (1 - k0 * k0 / (k0 * k0 + k1 * k1)) * (k0 * a + k1 * c) + (0 - k1 * k0 / (k0 * k0 + k1 * k1)) * (k0 * b + k1 * d).
Proof.
  intros Hk. unfold map_coeff, ATk, proj_of, abs_square, for_, acol, aget2, arow, aget. simpl. rewrite !Rpow_2.
  replace (0 + k0 * k0 + k1 * k1) with (k0 * k0 + k1 * k1) by ring. field. exact Hk.
Qed.

Theorem coeff_zero_iff_scalar_2d a b c d :
  (forall k0 k1, k0 * k0 + k1 * k1 <> 0 -> map_coeff [[a; b]; [c; d]] [[k0]; [k1]] 2 0 = 0)
  <-> (b = 0 /\ c = 0 /\ a = d).
Proof.
  split.
  - intros H.
    pose proof (H 0 1 ltac:(lra)) as H1. rewrite coeff_2d in H1 by lra.
    pose proof (H 1 1 ltac:(lra)) as H2. rewrite coeff_2d in H2 by lra.
    pose proof (H 1 (-1) ltac:(lra)) as H3. rewrite coeff_2d in H3 by lra.
    lra.
  - intros (-> & -> & ->) k0 k1 Hk. rewrite coeff_2d by auto. field. exact Hk.
Qed.

(* witnesses: one sine mode k = (1,1), mean_u = var = N = 1, at the origin *)
Lemma witness_divergence a b c d :
  Rsum (fun e => Derive (fun t => velocity RO 1 1 1 [[1]; [1]] [0] [1] (mat_vec [[a; b]; [c; d]] (aupd [0; 0] e t)) e)
                        (aget 0 [0; 0] e)) 2
  = (a + c) / 2 - (b + d) / 2.
Proof.
  etransitivity; [exact (proj2 (divergence_linear_map 1 1 1 [[a; b]; [c; d]] [[1]; [1]] [0] [1] [0; 0]))|].
  change (length [0; 0]) with 2%nat. change (shape1 [[1]; [1]]) with 1%nat.
  unfold Rsum at 1. rewrite (coeff_2d a b c d 1 1) by lra.
  assert (P : Rphase [[1]; [1]] (mat_vec [[a; b]; [c; d]] [0; 0]) 0 = 0).
  { unfold Rphase, mat_vec, dotR, aget2, arow, aget. simpl. ring. }
  rewrite P, cos_0, sin_0. unfold incompr_amp, aget. simpl.
  replace (1 / 1) with 1 by field. rewrite sqrt_1. field.
Qed.

(* positions turned by a quarter turn, components left alone: divergence 1, not 0 *)
Example quarter_turn_not_solenoidal :
  Rsum (fun e => Derive (fun t => velocity RO 1 1 1 [[1]; [1]] [0] [1] (mat_vec [[0; -1]; [1; 0]] (aupd [0; 0] e t)) e)
                        (aget 0 [0; 0] e)) 2 = 1.
Proof. rewrite witness_divergence. field. Qed.

(* positions stretched along the second axis (anisotropy ratio 1/2): divergence -1/2 *)
Example stretch_not_solenoidal :
  Rsum (fun e => Derive (fun t => velocity RO 1 1 1 [[1]; [1]] [0] [1] (mat_vec [[1; 0]; [0; 2]] (aupd [0; 0] e t)) e)
                        (aget 0 [0; 0] e)) 2 = - (1 / 2).
Proof. rewrite witness_divergence. field. Qed.
End Linear.
