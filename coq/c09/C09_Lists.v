(* C09_Lists.v — list facts used by the C09 theorems: the pair list of a cloud is strictly sorted
   (lexicographically), sorted lists with the same members are equal, the pair list of a sub-cloud
   selected by a strictly increasing index list is the filtered pair list of the whole cloud (same order),
   recursive structure of [pairs], pairs of a point LIST and their behaviour under permutation. *)
From Coq Require Import List Arith Lia Permutation Sorted Bool.
From GS Require Import Num Loops Cellwise.
Import ListNotations.

(* ---------- strictly sorted lists *)
Section SortedFacts.
  Context {A : Type} (R : A -> A -> Prop).
  Lemma ssorted_app l1 l2 : StronglySorted R l1 -> StronglySorted R l2 ->
    (forall x y, In x l1 -> In y l2 -> R x y) -> StronglySorted R (l1 ++ l2).
  Proof.
    intros S1 S2 H. induction S1 as [|a l S IH F]; simpl; auto.
    constructor.
    - apply IH. intros; apply H; simpl; auto.
    - rewrite Forall_forall in *. intros y Hy. apply in_app_or in Hy. destruct Hy; [auto|]. apply H; simpl; auto.
  Qed.
  Lemma ssorted_filter (p : A -> bool) l : StronglySorted R l -> StronglySorted R (filter p l).
  Proof.
    induction 1 as [|a l S IH F]; simpl; [constructor|]. destruct (p a); auto. constructor; auto.
    rewrite Forall_forall in *. intros x Hx. apply filter_In in Hx. apply F, Hx.
  Qed.
  Lemma ssorted_nodup l : (forall a, ~ R a a) -> StronglySorted R l -> NoDup l.
  Proof.
    intros irr. induction 1 as [|a l S IH F]; constructor; auto.
    intros Hin. rewrite Forall_forall in F. apply (irr a). auto.
  Qed.
  Lemma sorted_ext : (forall a, ~ R a a) -> (forall a b, R a b -> R b a -> False) ->
    forall l1 l2, StronglySorted R l1 -> StronglySorted R l2 -> (forall x, In x l1 <-> In x l2) -> l1 = l2.
  Proof.
    intros irr asym. induction l1 as [|a l1 IH]; intros [|b l2] S1 S2 H.
    - reflexivity.
    - exfalso. apply (proj2 (H b)). left; auto.
    - exfalso. apply (proj1 (H a)). left; auto.
    - inversion S1 as [|? ? S1' F1]; inversion S2 as [|? ? S2' F2]; subst.
      rewrite Forall_forall in F1, F2.
      assert (a = b) as ->.
      { destruct (proj1 (H a) (or_introl eq_refl)) as [E|Hin]; auto.
        destruct (proj2 (H b) (or_introl eq_refl)) as [E|Hin2]; auto.
        exfalso. apply (asym a b); auto. }
      f_equal. apply IH; auto. intros x; split; intros Hx.
      + destruct (proj1 (H x) (or_intror Hx)) as [E|?]; auto. subst x. exfalso. apply (irr b); auto.
      + destruct (proj2 (H x) (or_intror Hx)) as [E|?]; auto. subst x. exfalso. apply (irr b); auto.
  Qed.
End SortedFacts.

Lemma ssorted_map {A B} (R : A -> A -> Prop) (R' : B -> B -> Prop) (f : A -> B) l :
  (forall x y, In x l -> In y l -> R x y -> R' (f x) (f y)) -> StronglySorted R l -> StronglySorted R' (map f l).
Proof.
  intros H S. induction S as [|a l S IH F]; simpl; constructor.
  - apply IH. intros; apply H; simpl; auto.
  - rewrite Forall_forall in *. intros y Hy. apply in_map_iff in Hy. destruct Hy as [x [<- Hx]]. apply H; simpl; auto.
Qed.

Lemma seq_sorted a len : StronglySorted lt (seq a len).
Proof.
  revert a; induction len; intros a; simpl; constructor; auto.
  rewrite Forall_forall. intros x Hx. apply in_seq in Hx. lia.
Qed.

Lemma ssorted_flat_map {A B} (RA : A -> A -> Prop) (R : B -> B -> Prop) (g : A -> list B) l :
  StronglySorted RA l -> (forall a, In a l -> StronglySorted R (g a)) ->
  (forall a a' x y, In a l -> In a' l -> RA a a' -> In x (g a) -> In y (g a') -> R x y) ->
  StronglySorted R (flat_map g l).
Proof.
  intros S. induction S as [|a l S IH F]; intros Hs Hc; simpl; [constructor|].
  apply ssorted_app.
  - apply Hs; left; auto.
  - apply IH.
    + intros a0 Ha0. apply Hs. right; auto.
    + intros a0 a' x y Ha0 Ha' Hr Hx Hy. apply (Hc a0 a'); simpl; auto.
  - intros x y Hx Hy. apply in_flat_map in Hy. destruct Hy as [a' [Ha' Hy]].
    rewrite Forall_forall in F. apply (Hc a a'); simpl; auto.
Qed.

(* ---------- the lexicographic order on index pairs; [pairs n] is strictly sorted *)
Definition lex (a b : nat * nat) : Prop := fst a < fst b \/ (fst a = fst b /\ snd a < snd b).
Lemma lex_irrefl a : ~ lex a a.
Proof. unfold lex; lia. Qed.
Lemma lex_asym a b : lex a b -> lex b a -> False.
Proof. unfold lex; lia. Qed.

Lemma pairs_sorted n : StronglySorted lex (pairs n).
Proof.
  unfold pairs. apply (ssorted_flat_map lt lex).
  - apply seq_sorted.
  - intros j _. unfold pairs_from. apply (ssorted_map lt lex); [|apply seq_sorted].
    intros x y _ _ H. right. simpl. auto.
  - intros j j' x y _ _ Hj Hx Hy. unfold pairs_from in *. apply in_map_iff in Hx, Hy.
    destruct Hx as [? [<- _]]. destruct Hy as [? [<- _]]. left. simpl. auto.
Qed.
Lemma pairs_nodup n : NoDup (pairs n).
Proof. apply (ssorted_nodup lex); [apply lex_irrefl | apply pairs_sorted]. Qed.

(* ---------- sub-cloud selected by a strictly increasing index list *)
Lemma ssorted_nth keep : StronglySorted lt keep -> forall j k, j < k < length keep -> nth j keep 0 < nth k keep 0.
Proof.
  induction 1 as [|a l S IH F]; intros j k H; simpl in *; [lia|]. destruct j, k; try lia.
  - rewrite Forall_forall in F. apply F. apply nth_In. lia.
  - apply IH. lia.
Qed.
Lemma ssorted_nth_inv keep : StronglySorted lt keep -> forall j k, j < length keep -> k < length keep ->
  nth j keep 0 < nth k keep 0 -> j < k.
Proof.
  intros S j k Hj Hk H. destruct (lt_eq_lt_dec j k) as [[?|E]|?]; auto.
  - subst. lia.
  - pose proof (ssorted_nth keep S k j). lia.
Qed.

Definition keep_map (keep : list nat) (jk : nat * nat) : nat * nat := (nth (fst jk) keep 0, nth (snd jk) keep 0).
Definition memb (keep : list nat) (p : nat) : bool := existsb (Nat.eqb p) keep.
Definition both_in (keep : list nat) (jk : nat * nat) : bool := andb (memb keep (fst jk)) (memb keep (snd jk)).
Lemma memb_In keep p : memb keep p = true <-> In p keep.
Proof.
  unfold memb. rewrite existsb_exists. split.
  - intros [x [Hx E]]. apply Nat.eqb_eq in E. now subst.
  - intros H. exists p. split; auto. apply Nat.eqb_refl.
Qed.

Theorem pairs_sub keep n : StronglySorted lt keep -> Forall (fun p => p < n) keep ->
  map (keep_map keep) (pairs (length keep)) = filter (both_in keep) (pairs n).
Proof.
  intros S F. rewrite Forall_forall in F.
  apply (sorted_ext lex lex_irrefl lex_asym).
  - apply (ssorted_map lex lex); [|apply pairs_sorted].
    intros [j k] [j' k'] H1 H2 H. apply in_pairs in H1, H2. unfold lex, keep_map in *. simpl in *.
    destruct H as [H|[-> H]].
    + left. apply ssorted_nth; auto. lia.
    + right. split; auto. apply ssorted_nth; auto. lia.
  - apply ssorted_filter, pairs_sorted.
  - intros [a b]. rewrite in_map_iff, filter_In. unfold both_in. simpl. rewrite andb_true_iff, !memb_In, in_pairs. split.
    + intros [[j k] [E H]]. apply in_pairs in H. unfold keep_map in E. simpl in E. inversion E; subst.
      assert (In (nth j keep 0) keep) by (apply nth_In; lia).
      assert (In (nth k keep 0) keep) by (apply nth_In; lia).
      split; [|auto]. split; [apply ssorted_nth; auto | apply F; auto].
    + intros [[Hab Hb] [Ha Hb']].
      destruct (In_nth _ _ 0 Ha) as [j [Hj Ej]]. destruct (In_nth _ _ 0 Hb') as [k [Hk Ek]].
      exists (j, k). unfold keep_map. simpl. rewrite Ej, Ek. split; auto. apply in_pairs.
      split; auto. apply (ssorted_nth_inv keep S); auto. lia.
Qed.

Lemma fold_left_filter_skip {S B} (g : S -> B -> S) (p : B -> bool) l s :
  (forall x st, In x l -> p x = false -> g st x = st) -> fold_left g l s = fold_left g (filter p l) s.
Proof.
  revert s; induction l as [|a l IH]; intros s H; simpl; auto.
  destruct (p a) eqn:E; simpl.
  - apply IH. intros; apply H; simpl; auto.
  - rewrite H by (simpl; auto). apply IH. intros; apply H; simpl; auto.
Qed.

(* ---------- recursive structure of [pairs] *)
Definition shift2 (jk : nat * nat) : nat * nat := (S (fst jk), S (snd jk)).
Lemma map_flat_map {A B C} (h : B -> C) (g : A -> list B) l : map h (flat_map g l) = flat_map (fun a => map h (g a)) l.
Proof. induction l; simpl; auto. now rewrite map_app, IHl. Qed.
Lemma flat_map_map {A B C} (h : A -> B) (g : B -> list C) l : flat_map g (map h l) = flat_map (fun a => g (h a)) l.
Proof. induction l; simpl; auto. now rewrite IHl. Qed.

Lemma pairs_S n : pairs (S n) = map (fun k => (0, k)) (seq 1 n) ++ map shift2 (pairs n).
Proof.
  destruct n as [|m]; [reflexivity|].
  assert (E1 : pairs (S (S m)) = pairs_from (S (S m)) 0 ++ flat_map (pairs_from (S (S m))) (seq 1 m)).
  { unfold pairs. replace (S (S m) - 1 - 0) with (S m) by lia. reflexivity. }
  assert (E2 : pairs (S m) = flat_map (pairs_from (S m)) (seq 0 m)).
  { unfold pairs. replace (S m - 1 - 0) with m by lia. reflexivity. }
  rewrite E1, E2.
  assert (A1 : pairs_from (S (S m)) 0 = map (fun k => (0, k)) (seq 1 (S m))).
  { unfold pairs_from. replace (S (S m) - (0 + 1)) with (S m) by lia. reflexivity. }
  assert (A2 : flat_map (pairs_from (S (S m))) (seq 1 m) = map shift2 (flat_map (pairs_from (S m)) (seq 0 m))).
  { rewrite <- seq_shift, flat_map_map, map_flat_map. apply flat_map_ext. intros j.
    unfold pairs_from. rewrite map_map.
    replace (S (S m) - (S j + 1)) with (S m - (j + 1)) by lia.
    replace (S j + 1) with (S (j + 1)) by lia. rewrite <- seq_shift, map_map. reflexivity. }
  rewrite A1, A2. reflexivity.
Qed.

Lemma map_nth_seq {A B} (h : A -> B) (d : A) l : map (fun i => h (nth i l d)) (seq 0 (length l)) = map h l.
Proof.
  induction l as [|a l IH]; simpl; auto. f_equal. rewrite <- seq_shift, map_map. exact IH.
Qed.

(* ---------- all pairs of a point LIST; permutation of the points permutes the pairs *)
Section PointList.
  Context {P V : Type} (g : P -> P -> V).
  Fixpoint all_pairs (l : list P) : list V :=
    match l with [] => [] | p :: t => map (g p) t ++ all_pairs t end.

  Lemma all_pairs_index (d : P) l :
    all_pairs l = map (fun jk => g (nth (fst jk) l d) (nth (snd jk) l d)) (pairs (length l)).
  Proof.
    induction l as [|p t IH]; [reflexivity|].
    simpl length. rewrite pairs_S, map_app, !map_map. simpl all_pairs. f_equal.
    - rewrite <- seq_shift, map_map. simpl. symmetry. apply (map_nth_seq (g p) d t).
    - rewrite IH. apply map_ext. intros [j k]. reflexivity.
  Qed.

  Hypothesis g_sym : forall p q, g p q = g q p.
  Lemma all_pairs_perm l l' : Permutation l l' -> Permutation (all_pairs l) (all_pairs l').
  Proof.
    induction 1; simpl.
    - constructor.
    - apply Permutation_app; auto. now apply Permutation_map.
    - rewrite (g_sym y x). constructor. rewrite !app_assoc. apply Permutation_app_tail. apply Permutation_app_comm.
    - eapply Permutation_trans; eauto.
  Qed.
End PointList.

Lemma filter_map_comm {A B} (p : B -> bool) (h : A -> B) l : filter p (map h l) = map h (filter (fun x => p (h x)) l).
Proof. induction l as [|a l IH]; simpl; auto. destruct (p (h a)); simpl; now rewrite IH. Qed.
