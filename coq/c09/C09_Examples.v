(* C09_Examples.v — the hypotheses of the C09 theorems are satisfiable (non-vacuity) *)
From Coq Require Import Reals ZArith List Bool Arith Lia Lra Permutation Sorted.
From GS Require Import Num Loops Cellwise RInst Estimator_gen C15_VarioSpec C08_Math C09_Lists C09_Removal C09_Model C09_Invariance C09_Directional.
From GS Require C12_Mat.
Import ListNotations.
Close Scope R_scope.

(* a two-valued number type: true plays the role of NaN *)
Definition Bops : NumOps bool := {|
  n0 := false; n1 := false;
  nadd := orb; nsub := orb; nmul := orb; ndiv := fun _ _ => true;
  nneg := fun x => x; nabs := fun x => x; nsqrt := fun x => x;
  ncos := fun x => x; nsin := fun x => x; nexp := fun x => x; nln := fun x => x;
  nacos := fun x => x; nasin := fun x => x; natan := fun x => x; natan2 := orb;
  npow := orb;
  nltb := fun _ _ => false; nleb := fun _ _ => false; neqb := Bool.eqb;
  nisnan := fun x => x;
  nofZ := fun _ => false;
  npi := false;
  noracle := fun _ _ => false
|}.

(* C09_nan_is_removal / C09_mask_is_nan_marking: three points, the middle one missing *)
Example removal_hypotheses :
  let f := [[false; true; false]] in let pos := [[false; false; false]] in let keep := [0; 2] in
  shape1 f = shape1 pos /\ StronglySorted lt keep /\ Forall (fun p => p < shape1 pos) keep /\
  (forall p, p < shape1 pos -> ~ In p keep -> forall m, m < shape0 f -> nisnan Bops (aget2 (n0 Bops) f m p) = true) /\
  nisnan Bops (nan Bops) = true.
Proof.
  cbv zeta. split; [reflexivity|]. split; [repeat constructor|]. split; [repeat constructor|]. split; [|reflexivity].
  intros p Hp Hn m Hm. unfold shape1, shape0 in *. simpl in *.
  assert (p = 1) by (destruct p as [|[|[|p]]]; try lia; exfalso; apply Hn; auto). subst.
  assert (m = 0) by lia. subst. reflexivity.
Qed.

Open Scope R_scope.
(* C09_perm_invariant *)
Example perm_hypotheses :
  let pos := [[1; 2]] in let f := [[3; 4]] in let pos' := [[2; 1]] in let f' := [[4; 3]] in
  shape0 pos' = shape0 pos /\ shape0 f' = shape0 f /\ shape1 f = shape1 pos /\ shape1 f' = shape1 pos' /\
  Permutation (points pos f) (points pos' f').
Proof. cbv zeta. repeat split; try reflexivity. unfold points, point, acol, shape1. simpl. apply perm_swap. Qed.

(* C09_relabel_invariant / C09_sampling_is_subset / rect / orthogonal matrices *)
Example relabel_hypotheses :
  let pos := [[1; 2; 5]; [0; 1; 0]] in let f := [[3; 4; 7]] in
  shape1 f = shape1 pos /\ Forall (fun r => length r = shape1 pos) pos /\ Forall (fun r => length r = shape1 pos) f /\
  Permutation [2; 0; 1]%nat (seq 0 (shape1 pos)) /\ rect pos /\ rect f /\
  C12_Mat.orth (shape0 pos) C12_Mat.delta /\
  C12_Mat.orth (shape0 pos) (C12_Mat.givens 0 1 (3 / 5) (4 / 5)).
Proof.
  cbv zeta. split; [reflexivity|]. split; [repeat constructor|]. split; [repeat constructor|].
  split. { simpl. apply Permutation_sym. apply (perm_trans (l' := [0; 2; 1]%nat)); repeat constructor. }
  split; [repeat constructor|]. split; [repeat constructor|].
  split; [apply C12_Mat.orth_delta|]. apply C12_Mat.givens_orth; unfold shape0; simpl; try lia. lra.
Qed.
