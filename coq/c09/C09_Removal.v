(* C09_Removal.v — for EVERY number type (so for IEEE doubles with NaN as executed, bit for bit):
   a point whose value is NaN in every field contributes to no pair, and the estimate equals the estimate of
   the cloud from which such points have been deleted (same enumeration order of the remaining pairs).
   This is the common meaning of mask / no_data / NaN handling, and of estimating on a sorted sub-sample. *)
From Coq Require Import ZArith List Bool Arith Lia Sorted.
From GS Require Import Num Loops Cellwise Estimator_gen C15_VarioSpec C09_Lists.
Import ListNotations.

Section Removal.
Context {T : Type} (O : NumOps T).
Notation z := (n0 O).

(* columns [keep] of a (rows x points) array *)
Definition take_cols (keep : list nat) (a : list (list T)) : list (list T) :=
  map (fun row => map (fun p => aget z row p) keep) a.

Lemma take_cols_shape0 keep a : shape0 (take_cols keep a) = shape0 a.
Proof. unfold shape0, take_cols. apply map_length. Qed.

Lemma nth_map_in {A B} (h : A -> B) l i d d' : i < length l -> nth i (map h l) d' = h (nth i l d).
Proof. intros H. rewrite nth_indep with (d' := h d) by (now rewrite map_length). apply map_nth. Qed.

Lemma take_cols_get keep a m j : j < length keep ->
  aget2 z (take_cols keep a) m j = aget2 z a m (nth j keep 0).
Proof.
  intros Hj. unfold aget2, arow, take_cols.
  destruct (lt_dec m (length a)) as [Hm|Hm].
  - rewrite (nth_map_in _ a m [] []) by auto. unfold aget at 1.
    rewrite (nth_map_in _ keep j 0 z) by auto. reflexivity.
  - rewrite !nth_overflow by (try rewrite map_length; lia). unfold aget.
    destruct j; destruct (nth _ keep 0); reflexivity.
Qed.

Lemma take_cols_shape1 keep a : (a = [] -> keep = []) -> shape1 (take_cols keep a) = length keep.
Proof.
  unfold shape1, take_cols. destruct a; simpl; intros H.
  - now rewrite H.
  - now rewrite map_length.
Qed.

Lemma pair_contrib_skip f est j k acc :
  (forall m, m < shape0 f -> valid_pair O f m j k = false) -> pair_contrib O f est j k acc = acc.
Proof.
  intros H. unfold pair_contrib. apply (for_inv (fun a => a = acc)); auto.
  intros m s Hm ->. rewrite H by lia. reflexivity.
Qed.

Lemma pair_contrib_take keep f est j k acc : j < length keep -> k < length keep ->
  pair_contrib O (take_cols keep f) est j k acc = pair_contrib O f est (nth j keep 0) (nth k keep 0) acc.
Proof.
  intros Hj Hk. unfold pair_contrib. rewrite take_cols_shape0. apply for_ext. intros m st _.
  unfold valid_pair. rewrite !take_cols_get by auto. reflexivity.
Qed.

Lemma bin_acc_ext_dist dist dist' f est edges n i :
  (forall j k, j < k < n -> dist j k = dist' j k) ->
  bin_acc O dist f est edges n i = bin_acc O dist' f est edges n i.
Proof.
  intros H. unfold bin_acc. apply fold_left_ext_in. intros [j k] st Hin. apply in_pairs in Hin. simpl.
  now rewrite H.
Qed.

(* the bin accumulators of the reduced cloud are those of the full cloud *)
Theorem bin_acc_subcloud dist f est edges n i keep :
  StronglySorted lt keep -> Forall (fun p => p < n) keep ->
  (forall p, p < n -> ~ In p keep -> forall m, m < shape0 f -> nisnan O (aget2 z f m p) = true) ->
  bin_acc O (fun j k => dist (nth j keep 0) (nth k keep 0)) (take_cols keep f) est edges (length keep) i
  = bin_acc O dist f est edges n i.
Proof.
  intros S F Hnan. unfold bin_acc.
  rewrite (fold_left_filter_skip _ (both_in keep) (pairs n)).
  2:{ intros [j k] st Hin Hb. simpl. destruct (in_bin O edges i (dist j k)); auto.
      apply pair_contrib_skip. intros m Hm. unfold valid_pair.
      apply in_pairs in Hin. unfold both_in in Hb; simpl in Hb. apply andb_false_iff in Hb.
      destruct Hb as [Hb|Hb].
      - assert (~ In j keep) by (rewrite <- memb_In; congruence).
        rewrite (Hnan j) by (auto; lia). now rewrite orb_true_r.
      - assert (~ In k keep) by (rewrite <- memb_In; congruence).
        rewrite (Hnan k) by (auto; lia). reflexivity. }
  rewrite <- (pairs_sub keep n S F), fold_left_map.
  apply fold_left_ext_in. intros [j k] st Hin. apply in_pairs in Hin. unfold keep_map. simpl.
  rewrite pair_contrib_take by lia. reflexivity.
Qed.

Lemma dist_euclid_take keep pos j k : j < length keep -> k < length keep ->
  dist_euclid O (shape0 pos) (take_cols keep pos) j k = dist_euclid O (shape0 pos) pos (nth j keep 0) (nth k keep 0).
Proof.
  intros Hj Hk. unfold dist_euclid. cbv zeta. f_equal. apply for_ext. intros d st _.
  rewrite !take_cols_get by auto. reflexivity.
Qed.
Lemma dist_haversine_take keep pos dim j k : j < length keep -> k < length keep ->
  dist_haversine O dim (take_cols keep pos) j k = dist_haversine O dim pos (nth j keep 0) (nth k keep 0).
Proof.
  intros Hj Hk. unfold dist_haversine. cbv zeta. rewrite !take_cols_get by auto. reflexivity.
Qed.

(* what the normalisation does, bin by bin *)
Lemma normalize_accs et (accs : list (Z * T)) :
  normalize_spec O et (map snd accs) (map fst accs) = map (fun a => norm1 O et (snd a) (fst a)) accs.
Proof.
  unfold normalize_spec. rewrite map_length.
  rewrite <- (map_nth_seq (fun a => norm1 O et (snd a) (fst a)) (0%Z, z) accs).
  apply map_ext. intros i. unfold aget.
  pose proof (map_nth snd accs (0%Z, z) i) as E1. cbn [snd] in E1.
  pose proof (map_nth fst accs (0%Z, z) i) as E2. cbn [fst] in E2.
  rewrite E1, E2. reflexivity.
Qed.

Theorem missing_points_removed f pos edges et dt keep :
  shape1 f = shape1 pos -> StronglySorted lt keep -> Forall (fun p => p < shape1 pos) keep ->
  (forall p, p < shape1 pos -> ~ In p keep -> forall m, m < shape0 f -> nisnan O (aget2 z f m p) = true) ->
  unstructured_spec O (take_cols keep f) edges (take_cols keep pos) et dt = unstructured_spec O f edges pos et dt.
Proof.
  intros Hs S F Hnan.
  assert (Hk : shape1 pos = 0 -> keep = []).
  { intros E. destruct keep as [|a l]; auto. inversion F; subst. lia. }
  assert (K1 : shape1 (take_cols keep pos) = length keep).
  { apply take_cols_shape1. intros ->. apply Hk. reflexivity. }
  assert (K2 : shape1 (take_cols keep f) = length keep).
  { apply take_cols_shape1. intros ->. apply Hk. rewrite <- Hs. reflexivity. }
  unfold unstructured_spec. cbv zeta. rewrite !take_cols_shape0, K1, K2, Hs, !Nat.eqb_refl.
  assert (B : forall distance : nat -> list (list T) -> nat -> nat -> T,
     (forall j k, j < length keep -> k < length keep ->
        distance (shape0 pos) (take_cols keep pos) j k = distance (shape0 pos) pos (nth j keep 0) (nth k keep 0)) ->
     map (bin_acc O (distance (shape0 pos) (take_cols keep pos)) (take_cols keep f) (est_of O et) edges (length keep)) (seq 0 (length edges - 1))
     = map (bin_acc O (distance (shape0 pos) pos) f (est_of O et) edges (shape1 pos)) (seq 0 (length edges - 1))).
  { intros distance Hd. apply map_ext. intros i.
    rewrite <- (bin_acc_subcloud (distance (shape0 pos) pos) f (est_of O et) edges (shape1 pos) i keep S F Hnan).
    apply bin_acc_ext_dist. intros j k Hjk. apply Hd; lia. }
  destruct (Z.eqb dt 101).
  - simpl negb. cbv iota. destruct (Nat.ltb (length edges) 2); [reflexivity|].
    rewrite (B (dist_euclid O)) by (intros; now apply dist_euclid_take). reflexivity.
  - destruct (negb (Nat.eqb (shape0 pos) 2)); [reflexivity|].
    simpl negb. cbv iota. destruct (Nat.ltb (length edges) 2); [reflexivity|].
    rewrite (B (dist_haversine O)) by (intros; now apply dist_haversine_take). reflexivity.
Qed.
End Removal.
