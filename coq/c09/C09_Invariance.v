(* C09_Invariance.v — invariances of the pair-enumeration specification over the reals.
   A bin is determined by the MULTISET of (distance, increment term) of the point pairs (bin_acc_summary), hence
   by the multiset of points; distances are invariant under translations and orthogonal maps, increment terms
   under adding a constant, and scale with the square of a factor after normalisation. *)
From Coq Require Import Reals ZArith List Bool Arith Lia Lra Permutation Sorted.
From GS Require Import Num Loops Cellwise RInst Estimator_gen C15_VarioSpec C08_Math C09_Lists C09_Removal C09_Model.
From GS Require C12_Mat.
Import ListNotations.
Open Scope R_scope.

Section Inv.
Variable ora : nat -> list R -> R.
Notation O := (Rops ora).

(* ---------- a bin as a function of the multiset of (distance, term) *)
Definition inb (edges : list R) (i : nat) (v : R * R) : bool := in_bin O edges i (fst v).
Definition summary (dist : nat -> nat -> R) (f : list (list R)) (est : R -> R) (n : nat) : list (R * R) :=
  map (fun jk => (dist (fst jk) (snd jk), pair_term f est (fst jk) (snd jk))) (pairs n).

Lemma bin_acc_summary dist f est edges n i :
  bin_acc O dist f est edges n i
  = ((Z.of_nat (shape0 f) * Z.of_nat (length (filter (inb edges i) (summary dist f est n))))%Z,
     Rsum (map snd (filter (inb edges i) (summary dist f est n)))).
Proof.
  rewrite (bin_acc_R ora). unfold summary, sel. rewrite filter_map_comm, map_length, map_map. reflexivity.
Qed.

Lemma bin_acc_of_perm dist f est n dist' f' est' n' edges i :
  shape0 f = shape0 f' -> Permutation (summary dist f est n) (summary dist' f' est' n') ->
  bin_acc O dist f est edges n i = bin_acc O dist' f' est' edges n' i.
Proof.
  intros Hs P. rewrite !bin_acc_summary.
  pose proof (filter_perm (inb edges i) _ _ P) as PF. f_equal.
  - now rewrite Hs, (Permutation_length PF).
  - apply Rsum_perm. now apply Permutation_map.
Qed.

Lemma bin_acc_ext dist f est n dist' f' est' edges i :
  shape0 f = shape0 f' ->
  (forall j k, (j < k < n)%nat -> dist j k = dist' j k /\ pair_term f est j k = pair_term f' est' j k) ->
  bin_acc O dist f est edges n i = bin_acc O dist' f' est' edges n i.
Proof.
  intros Hs H. apply bin_acc_of_perm; auto.
  replace (summary dist' f' est' n) with (summary dist f est n); auto.
  unfold summary. apply map_ext_in. intros [j k] Hin. apply in_pairs in Hin. simpl.
  destruct (H j k Hin) as [-> ->]. reflexivity.
Qed.

(* ---------- congruence of the whole specification *)
Lemma spec_congr f f' pos pos' edges et dt :
  shape0 pos' = shape0 pos -> shape1 pos' = shape1 pos -> shape1 f' = shape1 f ->
  (forall distance : nat -> list (list R) -> nat -> nat -> R,
     (if Z.eqb dt 101 then distance = dist_euclid O else distance = dist_haversine O /\ shape0 pos = 2%nat) ->
     forall i, bin_acc O (distance (shape0 pos) pos') f' (est_of O et) edges (shape1 pos) i
             = bin_acc O (distance (shape0 pos) pos) f (est_of O et) edges (shape1 pos) i) ->
  unstructured_spec O f' edges pos' et dt = unstructured_spec O f edges pos et dt.
Proof.
  intros H0 H1 H2 HB. unfold unstructured_spec. cbv zeta. rewrite H0, H1, H2.
  destruct (Z.eqb dt 101).
  - destruct (negb (Nat.eqb (shape1 pos) (shape1 f))); [reflexivity|].
    destruct (Nat.ltb (length edges) 2); [reflexivity|].
    rewrite (map_ext _ _ (HB (dist_euclid O) eq_refl)). reflexivity.
  - destruct (Nat.eqb (shape0 pos) 2) eqn:E; simpl negb; cbv iota; [|reflexivity].
    apply Nat.eqb_eq in E.
    destruct (negb (Nat.eqb (shape1 pos) (shape1 f))); [reflexivity|].
    destruct (Nat.ltb (length edges) 2); [reflexivity|].
    rewrite (map_ext _ _ (HB (dist_haversine O) (conj eq_refl E))). reflexivity.
Qed.

(* ---------- points of a cloud; distances and increment terms as functions of two points *)
Definition pt := (list R * list R)%type.
Definition point (pos f : list (list R)) (j : nat) : pt := (acol 0 pos j, acol 0 f j).
Definition points (pos f : list (list R)) : list pt := map (point pos f) (seq 0 (shape1 pos)).

Lemma aget_acol (a : list (list R)) d j : aget 0 (acol 0 a j) d = aget2 0 a d j.
Proof.
  unfold acol, aget2, arow. destruct (lt_dec d (length a)) as [H|H].
  - unfold aget at 1. rewrite (nth_map_in _ a d [] 0) by auto. reflexivity.
  - unfold aget. rewrite (nth_overflow (map _ a)) by (rewrite map_length; lia).
    rewrite (nth_overflow a) by lia. destruct j; reflexivity.
Qed.

Definition pterm (nf : nat) (est : R -> R) (p q : pt) : R :=
  Rsum (map (fun m => est (aget 0 (snd q) m - aget 0 (snd p) m)) (seq 0 nf)).
Lemma pair_term_points pos f est j k : pair_term f est j k = pterm (shape0 f) est (point pos f j) (point pos f k).
Proof. unfold pair_term, pterm, point. simpl. apply f_equal, map_ext. intros m. now rewrite !aget_acol. Qed.
Lemma pterm_sym nf est p q : (forall x, est (- x) = est x) -> pterm nf est p q = pterm nf est q p.
Proof.
  intros He. unfold pterm. apply f_equal, map_ext. intros m.
  rewrite <- (He (aget 0 (snd p) m - aget 0 (snd q) m)). f_equal. ring.
Qed.

Lemma est_of_even et x : est_of O et (- x) = est_of O et x.
Proof.
  unfold est_of. destruct (Z.eqb et 109); cbn [nmul nsqrt nabs Rops].
  - ring.
  - now rewrite Rabs_Ropp.
Qed.

(* a distance function of the kernel that only looks at the two points *)
Definition point_dist (distance : nat -> list (list R) -> nat -> nat -> R) (pd : nat -> list R -> list R -> R) : Prop :=
  forall dim pos j k, distance dim pos j k = pd dim (acol 0 pos j) (acol 0 pos k).

Definition pd_euclid (dim : nat) (x y : list R) : R :=
  sqrt (Rsum (map (fun d => (aget 0 x d - aget 0 y d) * (aget 0 x d - aget 0 y d)) (seq 0 dim))).
Lemma euclid_point_dist : point_dist (dist_euclid O) pd_euclid.
Proof.
  intros dim pos j k. rewrite (dist_euclid_R ora). unfold pd_euclid. do 2 f_equal. apply map_ext. intros d.
  now rewrite !aget_acol.
Qed.
Lemma pd_euclid_sym dim x y : pd_euclid dim x y = pd_euclid dim y x.
Proof. unfold pd_euclid. do 2 f_equal. apply map_ext. intros d. ring. Qed.

Definition hav4 (lat_i lon_i lat_j lon_j : R) : R :=
  let deg_2_rad := (ndiv O (npi O) (nlit O 180 0)) in
  let diff_lat := (nmul O (nsub O lat_j lat_i) deg_2_rad) in
  let diff_lon := (nmul O (nsub O lon_j lon_i) deg_2_rad) in
  let arg := (nadd O (npow O (nsin O (ndiv O diff_lat (nlit O 2 0))) (nlit O 2 0)) (nmul O (nmul O (ncos O (nmul O lat_i deg_2_rad)) (ncos O (nmul O lat_j deg_2_rad))) (npow O (nsin O (ndiv O diff_lon (nlit O 2 0))) (nlit O 2 0)))) in
  (nmul O (nlit O 2 0) (natan2 O (nsqrt O arg) (nsqrt O (nsub O (n1 O) arg)))).
Definition pd_hav (dim : nat) (x y : list R) : R := hav4 (aget 0 x 0) (aget 0 x 1) (aget 0 y 0) (aget 0 y 1).
Lemma hav_point_dist : point_dist (dist_haversine O) pd_hav.
Proof. intros dim pos j k. unfold pd_hav. rewrite !aget_acol. reflexivity. Qed.
Lemma sin2_sym u v D : Rpow (sin ((u - v) * D / 2)) 2 = Rpow (sin ((v - u) * D / 2)) 2.
Proof.
  rewrite !Rpow_2. replace ((u - v) * D / 2) with (- ((v - u) * D / 2)) by field. rewrite sin_neg. ring.
Qed.
Lemma hav4_sym a b c d : hav4 a b c d = hav4 c d a b.
Proof.
  unfold hav4. cbv zeta. unfold nlit. cbn [ndiv nmul nsub nadd npow nsin ncos natan2 nsqrt n1 npi nofZ Rops].
  rewrite (sin2_sym c a), (sin2_sym d b), (Rmult_comm (cos (a * _)) (cos (c * _))). reflexivity.
Qed.
Lemma pd_hav_sym dim x y : pd_hav dim x y = pd_hav dim y x.
Proof. unfold pd_hav. apply hav4_sym. Qed.

(* ---------- the estimate depends only on the multiset of points *)
Definition gfun (pd : list R -> list R -> R) (nf : nat) (est : R -> R) (p q : pt) : R * R :=
  (pd (fst p) (fst q), pterm nf est p q).

Lemma summary_points distance pd pos f est :
  point_dist distance pd ->
  summary (distance (shape0 pos) pos) f est (shape1 pos)
  = all_pairs (gfun (pd (shape0 pos)) (shape0 f) est) (points pos f).
Proof.
  intros Hd. rewrite (all_pairs_index _ (point pos f (shape1 pos))). unfold points. rewrite map_length, seq_length.
  unfold summary. apply map_ext_in. intros [j k] Hin. apply in_pairs in Hin. simpl fst. simpl snd.
  assert (N : forall q, (q < shape1 pos)%nat ->
             nth q (map (point pos f) (seq 0 (shape1 pos))) (point pos f (shape1 pos)) = point pos f q).
  { intros q Hq. rewrite (nth_map_in _ _ q 0%nat) by (now rewrite seq_length). now rewrite seq_nth. }
  rewrite !N by lia. unfold gfun. rewrite Hd, (pair_term_points pos). reflexivity.
Qed.

Theorem bins_of_permuted_points distance pd pos f pos' f' est edges i :
  point_dist distance pd -> (forall dim x y, pd dim x y = pd dim y x) -> (forall x, est (- x) = est x) ->
  shape0 pos' = shape0 pos -> shape0 f' = shape0 f ->
  Permutation (points pos f) (points pos' f') ->
  bin_acc O (distance (shape0 pos') pos') f' est edges (shape1 pos') i
  = bin_acc O (distance (shape0 pos) pos) f est edges (shape1 pos) i.
Proof.
  intros Hd Hsym He H0 H1 P. apply bin_acc_of_perm; auto.
  rewrite !(summary_points distance pd) by auto. rewrite H0, H1.
  apply all_pairs_perm; [|now apply Permutation_sym].
  intros p q. unfold gfun. now rewrite Hsym, (pterm_sym _ _ p q He).
Qed.

Lemma points_length pos f : length (points pos f) = shape1 pos.
Proof. unfold points. now rewrite map_length, seq_length. Qed.

Theorem perm_invariant f pos f' pos' edges et dt :
  shape0 pos' = shape0 pos -> shape0 f' = shape0 f -> shape1 f = shape1 pos -> shape1 f' = shape1 pos' ->
  Permutation (points pos f) (points pos' f') ->
  unstructured_spec O f' edges pos' et dt = unstructured_spec O f edges pos et dt.
Proof.
  intros H0 H1 H2 H3 P.
  assert (N : shape1 pos' = shape1 pos).
  { rewrite <- (points_length pos f), <- (points_length pos' f'). symmetry. now apply Permutation_length. }
  apply spec_congr; auto; try congruence.
  intros distance Hdist i.
  destruct (Z.eqb dt 101).
  - subst distance.
    pose proof (bins_of_permuted_points (dist_euclid O) pd_euclid pos f pos' f' (est_of O et) edges i
                  euclid_point_dist pd_euclid_sym (est_of_even et) H0 H1 P) as E.
    rewrite H0, N in E. exact E.
  - destruct Hdist as [-> _].
    pose proof (bins_of_permuted_points (dist_haversine O) pd_hav pos f pos' f' (est_of O et) edges i
                  hav_point_dist pd_hav_sym (est_of_even et) H0 H1 P) as E.
    rewrite H0, N in E. exact E.
Qed.

(* relabelling / sub-sampling: the points of [take_cols idx] are the points idx of the cloud *)
Lemma acol_take idx (a : list (list R)) j : (j < length idx)%nat ->
  acol 0 (take_cols O idx a) j = acol 0 a (nth j idx 0%nat).
Proof.
  intros Hj. unfold acol, take_cols. rewrite map_map. apply map_ext. intros row.
  unfold aget at 1. cbn [n0 Rops]. now rewrite (nth_map_in _ idx j 0%nat 0).
Qed.

Lemma points_take idx pos f : (shape1 pos = 0%nat -> idx = []) ->
  points (take_cols O idx pos) (take_cols O idx f) = map (point pos f) idx.
Proof.
  intros Hk. unfold points. rewrite take_cols_shape1.
  2:{ intros ->. apply Hk. reflexivity. }
  rewrite <- (map_nth_seq (point pos f) 0%nat idx). apply map_ext_in. intros j Hj. apply in_seq in Hj.
  unfold point. now rewrite !acol_take by lia.
Qed.

Lemma idx_empty (n : nat) idx : Forall (fun p => (p < n)%nat) idx -> n = 0%nat -> idx = [].
Proof. intros F E. destruct idx; auto. inversion F; subst. lia. Qed.

Theorem subsample_order_free f pos edges et dt idx idx' :
  shape1 f = shape1 pos -> Forall (fun p => (p < shape1 pos)%nat) idx -> Permutation idx idx' ->
  unstructured_spec O (take_cols O idx' f) edges (take_cols O idx' pos) et dt
  = unstructured_spec O (take_cols O idx f) edges (take_cols O idx pos) et dt.
Proof.
  intros Hs F P.
  assert (F' : Forall (fun p => (p < shape1 pos)%nat) idx').
  { rewrite Forall_forall in *. intros x Hx. apply F. eapply Permutation_in; [apply Permutation_sym; eauto|auto]. }
  assert (S1 : forall l a, Forall (fun p => (p < shape1 pos)%nat) l -> shape1 a = shape1 pos -> shape1 (take_cols O l a) = length l).
  { intros l a Fl Ha. apply take_cols_shape1. intros ->. apply (idx_empty _ _ Fl). rewrite <- Ha. reflexivity. }
  apply perm_invariant.
  - now rewrite !take_cols_shape0.
  - now rewrite !take_cols_shape0.
  - rewrite !S1; auto.
  - rewrite !S1; auto.
  - rewrite !points_take by (apply idx_empty; auto). now apply Permutation_map.
Qed.

Lemma take_all_cols (a : list (list R)) n : Forall (fun r => length r = n) a -> take_cols O (seq 0 n) a = a.
Proof.
  intros F. unfold take_cols. rewrite <- (map_id a) at 2. apply map_ext_in. intros row Hr.
  rewrite Forall_forall in F. rewrite <- (F row Hr). unfold aget. cbn [n0 Rops]. rewrite (map_nth_seq (fun x => x) 0 row).
  apply map_id.
Qed.

Theorem relabel_invariant f pos edges et dt sigma :
  shape1 f = shape1 pos -> Forall (fun r => length r = shape1 pos) pos -> Forall (fun r => length r = shape1 pos) f ->
  Permutation sigma (seq 0 (shape1 pos)) ->
  unstructured_spec O (take_cols O sigma f) edges (take_cols O sigma pos) et dt = unstructured_spec O f edges pos et dt.
Proof.
  intros Hs Wp Wf P.
  rewrite <- (take_all_cols pos (shape1 pos) Wp) at 2. rewrite <- (take_all_cols f (shape1 pos) Wf) at 2.
  apply subsample_order_free; auto.
  - rewrite Forall_forall. intros x Hx. apply in_seq in Hx. lia.
  - now apply Permutation_sym.
Qed.

(* ---------- elementwise maps of the rows *)
Definition map_rows (h : nat -> R -> R) (a : list (list R)) : list (list R) :=
  map (fun d => map (h d) (arow a d)) (seq 0 (shape0 a)).
Lemma map_rows_shape0 h a : shape0 (map_rows h a) = shape0 a.
Proof. unfold map_rows, shape0. now rewrite map_length, seq_length. Qed.
Lemma map_rows_shape1 h a : shape1 (map_rows h a) = shape1 a.
Proof. unfold map_rows, shape1, shape0, arow. destruct a; simpl; auto. now rewrite map_length. Qed.
Lemma map_rows_get h a d j : (d < shape0 a)%nat -> (j < length (arow a d))%nat ->
  aget2 0 (map_rows h a) d j = h d (aget2 0 a d j).
Proof.
  intros Hd Hj. unfold aget2, map_rows. unfold arow at 1.
  rewrite (nth_map_in _ _ d 0%nat) by (now rewrite seq_length). rewrite seq_nth by auto. simpl.
  unfold aget. now rewrite (nth_map_in _ _ j 0).
Qed.
Definition rect (a : list (list R)) : Prop := Forall (fun r => length r = shape1 a) a.
Lemma rect_row a d : rect a -> (d < shape0 a)%nat -> length (arow a d) = shape1 a.
Proof. intros W Hd. unfold rect in W. rewrite Forall_forall in W. apply W. apply nth_In. exact Hd. Qed.

(* translation of the coordinates by a vector t *)
Definition translate (t : list R) (pos : list (list R)) := map_rows (fun d x => x + aget 0 t d) pos.
(* adding a constant to every field value / multiplying every field value *)
Definition shift (c : R) (f : list (list R)) := map_rows (fun _ x => x + c) f.
Definition scale (c : R) (f : list (list R)) := map_rows (fun _ x => c * x) f.

Lemma Rsum_map_ext_in (g h : nat -> R) l : (forall x, In x l -> g x = h x) -> Rsum (map g l) = Rsum (map h l).
Proof. intros H. f_equal. now apply map_ext_in. Qed.

Theorem translation_invariant f pos edges et t : rect pos ->
  unstructured_spec O f edges (translate t pos) et 101 = unstructured_spec O f edges pos et 101.
Proof.
  intros W. apply spec_congr; unfold translate; auto using map_rows_shape0, map_rows_shape1.
  intros distance Hd i. simpl in Hd. subst distance. apply bin_acc_ext; auto.
  intros j k Hjk. split; auto. rewrite !(dist_euclid_R ora). do 2 f_equal. apply map_ext_in. intros d Hin.
  apply in_seq in Hin. rewrite !map_rows_get by (try rewrite rect_row; auto; lia). ring.
Qed.

Theorem shift_invariant f pos edges et dt c : rect f -> shape1 f = shape1 pos ->
  unstructured_spec O (shift c f) edges pos et dt = unstructured_spec O f edges pos et dt.
Proof.
  intros W Hs. apply spec_congr; unfold shift; auto using map_rows_shape1.
  intros distance _ i. apply bin_acc_ext; auto using map_rows_shape0.
  intros j k Hjk. split; auto. unfold pair_term. rewrite map_rows_shape0. apply Rsum_map_ext_in. intros m Hin.
  apply in_seq in Hin. rewrite !map_rows_get by (try rewrite rect_row; auto; lia). f_equal. ring.
Qed.

(* ---------- scaling the field: c f  |->  c^2 gamma  for both estimators *)
Lemma Rsum_scal c l : Rsum (map (Rmult c) l) = c * Rsum l.
Proof. induction l; simpl; [ring|]. rewrite IHl. ring. Qed.

Definition est_factor (et : Z) (c : R) : R := if Z.eqb et 109 then c * c else sqrt (Rabs c).
Lemma est_of_scale et c x : est_of O et (c * x) = est_factor et c * est_of O et x.
Proof.
  unfold est_of, est_factor. destruct (Z.eqb et 109); cbn [nmul nsqrt nabs Rops].
  - ring.
  - rewrite Rabs_mult, sqrt_mult; auto using Rabs_pos.
Qed.

Lemma norm1_scale et c v n : norm1 O et (est_factor et c * v) n = c * c * norm1 O et v n.
Proof.
  unfold norm1, est_factor. destruct (Z.eqb et 109).
  - cbn [ndiv nmul Rops]. unfold Rdiv. ring.
  - unfold nlit. cbn [ndiv nmul nadd npow n1 nofZ Rops].
    change (10 ^ Z.of_nat 1)%Z with 10%Z. change (10 ^ Z.of_nat 3)%Z with 1000%Z.
    rewrite !(Rpow_IZR _ 4).
    set (s := sqrt (Rabs c)). assert (Hs : s * s = Rabs c) by (apply sqrt_sqrt, Rabs_pos).
    assert (H4 : s * s * (s * s) = c * c).
    { rewrite Hs. rewrite <- Rabs_mult. apply Rabs_pos_eq. nra. }
    set (q := 1 / IZR (Z.max n 1)).
    replace (powerRZ (q * (s * v)) 4) with (c * c * powerRZ (q * v) 4).
    + unfold Rdiv. ring.
    + simpl. rewrite <- H4. ring.
Qed.

Lemma pair_term_scale f et c j k : rect f -> (j < shape1 f)%nat -> (k < shape1 f)%nat ->
  pair_term (scale c f) (est_of O et) j k = est_factor et c * pair_term f (est_of O et) j k.
Proof.
  intros W Hj Hk. unfold pair_term, scale. rewrite map_rows_shape0, <- Rsum_scal, map_map.
  apply Rsum_map_ext_in. intros m Hin. apply in_seq in Hin.
  rewrite !map_rows_get by (try rewrite rect_row; auto; lia). rewrite <- est_of_scale. f_equal. ring.
Qed.

Lemma bin_acc_scale dist f et edges c i : rect f ->
  bin_acc O dist (scale c f) (est_of O et) edges (shape1 f) i
  = (fst (bin_acc O dist f (est_of O et) edges (shape1 f) i),
     est_factor et c * snd (bin_acc O dist f (est_of O et) edges (shape1 f) i)).
Proof.
  intros W. rewrite !(bin_acc_R ora). cbn [fst snd]. unfold scale at 1. rewrite map_rows_shape0. f_equal.
  rewrite <- Rsum_scal, map_map. f_equal. apply map_ext_in. intros [j k] Hin.
  apply (in_sel ora) in Hin. simpl. apply pair_term_scale; auto; lia.
Qed.

Definition scale_result (c : R) (r : option (list R * list Z)) : option (list R * list Z) :=
  match r with None => None | Some (v, cnt) => Some (map (Rmult (c * c)) v, cnt) end.

Theorem scale_square f pos edges et dt c : rect f -> shape1 f = shape1 pos ->
  unstructured_spec O (scale c f) edges pos et dt = scale_result c (unstructured_spec O f edges pos et dt).
Proof.
  intros W Hs. unfold unstructured_spec. cbv zeta.
  assert (E1 : shape1 (scale c f) = shape1 f) by apply map_rows_shape1. rewrite E1.
  destruct (if Z.eqb dt 101 then Some (dist_euclid O)
            else if negb (Nat.eqb (shape0 pos) 2) then None else Some (dist_haversine O)) as [distance|]; [|reflexivity].
  destruct (negb (Nat.eqb (shape1 pos) (shape1 f))); [reflexivity|].
  destruct (Nat.ltb (length edges) 2); [reflexivity|].
  rewrite !normalize_accs. unfold scale_result. rewrite <- Hs.
  rewrite !map_map. f_equal. f_equal.
  - apply map_ext. intros i. rewrite bin_acc_scale by auto. cbn [fst snd]. apply norm1_scale.
  - apply map_ext. intros i. rewrite bin_acc_scale by auto. reflexivity.
Qed.

(* ---------- rotation (any orthogonal matrix) *)
Lemma Rsum_seq_sumf (g : nat -> R) n : Rsum (map g (seq 0 n)) = C12_Mat.sumf n g.
Proof.
  induction n; [reflexivity|]. rewrite seq_S, map_app, Rsum_app, IHn. simpl. ring.
Qed.

Definition rotate (Q : nat -> nat -> R) (pos : list (list R)) : list (list R) :=
  map (fun d => map (fun j => C12_Mat.sumf (shape0 pos) (fun e => Q d e * aget2 0 pos e j)) (seq 0 (shape1 pos)))
      (seq 0 (shape0 pos)).
Lemma rotate_shape0 Q pos : shape0 (rotate Q pos) = shape0 pos.
Proof. unfold rotate, shape0. now rewrite map_length, seq_length. Qed.
Lemma rotate_shape1 Q pos : shape1 (rotate Q pos) = shape1 pos.
Proof.
  unfold rotate, shape1 at 1. destruct (shape0 pos) eqn:E.
  - simpl. unfold shape0 in E. destruct pos; [reflexivity|discriminate].
  - simpl. now rewrite map_length, seq_length.
Qed.
Lemma rotate_get Q pos d j : (d < shape0 pos)%nat -> (j < shape1 pos)%nat ->
  aget2 0 (rotate Q pos) d j = C12_Mat.sumf (shape0 pos) (fun e => Q d e * aget2 0 pos e j).
Proof.
  intros Hd Hj. unfold aget2, rotate. unfold arow.
  rewrite (nth_map_in _ _ d 0%nat) by (now rewrite seq_length). rewrite seq_nth by auto.
  unfold aget. rewrite (nth_map_in _ _ j 0%nat) by (now rewrite seq_length). rewrite seq_nth by auto. reflexivity.
Qed.

Theorem rotation_invariant f pos edges et Q : C12_Mat.orth (shape0 pos) Q ->
  unstructured_spec O f edges (rotate Q pos) et 101 = unstructured_spec O f edges pos et 101.
Proof.
  intros HQ. apply spec_congr; auto using rotate_shape0, rotate_shape1.
  intros distance Hd i. simpl in Hd. subst distance. apply bin_acc_ext; auto.
  intros j k Hjk. split; auto. rewrite !(dist_euclid_R ora). f_equal. rewrite !Rsum_seq_sumf.
  rewrite <- (C12_Mat.orth_norm (shape0 pos) Q (fun e => aget2 0 pos e j - aget2 0 pos e k) HQ).
  apply C12_Mat.sumf_ext. intros d Hd. rewrite !rotate_get by lia.
  assert (E : C12_Mat.sumf (shape0 pos) (fun e => Q d e * aget2 0 pos e j) - C12_Mat.sumf (shape0 pos) (fun e => Q d e * aget2 0 pos e k)
            = C12_Mat.sumf (shape0 pos) (fun e => Q d e * (aget2 0 pos e j - aget2 0 pos e k))).
  { replace (C12_Mat.sumf (shape0 pos) (fun e => Q d e * aget2 0 pos e j) - C12_Mat.sumf (shape0 pos) (fun e => Q d e * aget2 0 pos e k))
      with (C12_Mat.sumf (shape0 pos) (fun e => Q d e * aget2 0 pos e j) + (-1) * C12_Mat.sumf (shape0 pos) (fun e => Q d e * aget2 0 pos e k)) by ring.
    rewrite <- C12_Mat.sumf_scal, <- C12_Mat.sumf_plus. apply C12_Mat.sumf_ext. intros; ring. }
  rewrite E. reflexivity.
Qed.

(* ---------- length units of the bins (lat-lon: geo_scale) *)
Lemma aget_map_div (edges : list R) s i : aget 0 (map (fun e => e / s) edges) i = aget 0 edges i / s.
Proof.
  unfold aget. pose proof (map_nth (fun e => e / s) edges 0 i) as E. cbv beta in E.
  replace (0 / s) with 0 in E by (unfold Rdiv; ring). exact E.
Qed.

Theorem in_bin_units edges s i d : 0 < s ->
  in_bin O (map (fun e => e / s) edges) i d = in_bin O edges i (d * s).
Proof.
  intros Hs. apply eq_true_iff_eq. rewrite !(in_bin_half_open ora), !aget_map_div.
  assert (forall a, a / s <= d <-> a <= d * s).
  { intros a. split; intros H.
    - apply (Rmult_le_compat_r s) in H; [|lra]. unfold Rdiv in H. rewrite Rmult_assoc, Rinv_l, Rmult_1_r in H; lra.
    - apply (Rmult_le_reg_r s); [lra|]. unfold Rdiv. rewrite Rmult_assoc, Rinv_l, Rmult_1_r; lra. }
  assert (forall a, d < a / s <-> d * s < a).
  { intros a. split; intros H'.
    - apply (Rmult_lt_compat_r s) in H'; [|lra]. unfold Rdiv in H'. rewrite Rmult_assoc, Rinv_l, Rmult_1_r in H'; lra.
    - apply (Rmult_lt_reg_r s); [lra|]. unfold Rdiv. rewrite Rmult_assoc, Rinv_l, Rmult_1_r; lra. }
  firstorder.
Qed.

Theorem geo_scale_units dist f est edges n i s : 0 < s ->
  bin_acc O dist f est (map (fun e => e / s) edges) n i = bin_acc O (fun j k => dist j k * s) f est edges n i.
Proof.
  intros Hs. unfold bin_acc. apply fold_left_ext_in. intros [j k] st _. simpl. now rewrite in_bin_units.
Qed.
(* ---------- directions: the normalised direction has unit length; ang2dir returns unit vectors (2-D, 3-D) *)
Lemma fold_sq_Rsum (v : list R) a : fold_left (fun s x => nadd O s (nmul O x x)) v a = a + Rsum (map (fun x => x * x) v).
Proof. revert a; induction v as [|x v IH]; intros a; simpl; [lra|]. rewrite IH. cbn [nadd nmul Rops]. lra. Qed.
Lemma vnorm_R v : vnorm O v = sqrt (Rsum (map (fun x => x * x) v)).
Proof. unfold vnorm. rewrite fold_sq_Rsum. cbn [nsqrt n0 Rops]. f_equal. lra. Qed.
Lemma Rsum_sq_nonneg (v : list R) : 0 <= Rsum (map (fun x => x * x) v).
Proof. induction v; simpl; [lra|]. nra. Qed.

Theorem normalize_dir_unit v : vnorm O v <> 0 -> vnorm O (normalize_dir O v) = 1.
Proof.
  intros Hn. unfold normalize_dir. rewrite vnorm_R, map_map. cbn [ndiv Rops].
  set (N := vnorm O v) in *. set (S := Rsum (map (fun x => x * x) v)).
  assert (HS : 0 <= S) by apply Rsum_sq_nonneg.
  assert (HN : N * N = S). { unfold N. rewrite vnorm_R. now apply sqrt_sqrt. }
  rewrite (map_ext _ (fun x => / (N * N) * (x * x))) by (intros x; field; exact Hn).
  rewrite <- (map_map (fun x => x * x) (Rmult (/ (N * N)))), Rsum_scal. fold S. rewrite HN.
  rewrite Rinv_l; [apply sqrt_1|]. intro E. apply Hn. unfold N. rewrite vnorm_R. fold S. rewrite E. apply sqrt_0.
Qed.

Theorem ang2dir_unit_2d a : vnorm O (ang2dir_row O 2 [a]) = 1.
Proof.
  rewrite vnorm_R. unfold ang2dir_row, prod_sin. simpl. cbn [nmul ncos nsin n1 Rops]. unfold aget. simpl.
  replace (1 * cos a * (1 * cos a) + (1 * sin a * (1 * sin a) + 0)) with (sin a * sin a + cos a * cos a) by ring.
  pose proof (sin2_cos2 a) as H. unfold Rsqr in H. rewrite H. apply sqrt_1.
Qed.

Theorem ang2dir_unit_3d a b : vnorm O (ang2dir_row O 3 [a; b]) = 1.
Proof.
  rewrite vnorm_R. unfold ang2dir_row, prod_sin. simpl. cbn [nmul ncos nsin n1 Rops]. unfold aget. simpl.
  pose proof (sin2_cos2 a) as Ha. pose proof (sin2_cos2 b) as Hb. unfold Rsqr in *.
  match goal with |- sqrt ?x = 1 => replace x with ((sin a * sin a + cos a * cos a) * (sin b * sin b) + cos b * cos b) by ring end.
  rewrite Ha, Rmult_1_l, Hb. apply sqrt_1.
Qed.
End Inv.
