(* C09_Model.v — hand model "VarioPre" of the preprocessing decisions of gstools.variogram.vario_estimate
   (generic number type; executed at floats against the implementation, see harness/c09.py):
   select mask, NaN fill of remaining masked values, no_data -> NaN by isclose, direction normalisation,
   ang2dir, separated-directions test, sub-sampling by a given index list (numpy's RandomState is an oracle),
   standard bins (Sturges, box diameter, linspace; lat-lon variant), bin_edges / geo_scale, grid expansion. *)
From Coq Require Import ZArith List Bool Arith Lia Sorted.
From GS Require Import Num Loops Cellwise Estimator_gen C15_VarioSpec C09_Lists C09_Removal.
Import ListNotations.

Section Pre.
Context {T : Type} (O : NumOps T).
Notation z := (n0 O).

Definition nan : T := ndiv O z z.
Definition pinf : T := ndiv O (n1 O) z.
Definition isfinite (x : T) : bool := nltb O (nabs O x) pinf.

(* numpy.isclose(x, y), rtol = 1e-5, atol = 1e-8, equal_nan = False:
   (|x - y| <= atol + rtol |y|  &  isfinite y)  |  x == y *)
Definition isclose (x y : T) : bool :=
  orb (andb (nleb O (nabs O (nsub O x y)) (nadd O (nlit O 1 8) (nmul O (nlit O 1 5) (nabs O y)))) (isfinite y))
      (neqb O x y).

(* ---- masks.  gmask: the flattened [mask] argument ([] if none); fmask: mask of the field stack (nf x n) *)
Definition all_masked (fmask : list (list bool)) (j : nat) : bool := forallb (fun row => nth j row false) fmask.
Definition pre_select (gmask : list bool) (fmask : list (list bool)) (n : nat) : list bool :=
  map (fun j => negb (orb (andb (Nat.ltb 1 (length gmask)) (nth j gmask false)) (all_masked fmask j))) (seq 0 n).
Definition keep_idx (sel : list bool) : list nat := filter (fun j => nth j sel false) (seq 0 (length sel)).
Definition fill_masked (fmask : list (list bool)) (f : list (list T)) : list (list T) :=
  map (fun m => map (fun j => if nth j (nth m fmask []) false then nan else aget2 z f m j) (seq 0 (shape1 f)))
      (seq 0 (shape0 f)).
Definition pre_mask (gmask : list bool) (fmask : list (list bool)) (pos f : list (list T)) : list (list T) * list (list T) :=
  let keep := keep_idx (pre_select gmask fmask (shape1 f)) in
  (take_cols O keep pos, take_cols O keep (fill_masked fmask f)).

(* ---- no_data *)
Definition pre_no_data (nd : T) (f : list (list T)) : list (list T) :=
  if nisnan O nd then f else map (map (fun x => if isclose x nd then nan else x)) f.

(* ---- points without data in any field are dropped like masked points (unless every point is missing) *)
Definition all_nan (f : list (list T)) (j : nat) : bool := forallb (fun row => nisnan O (aget z row j)) f.
Definition pre_drop_missing (pos f : list (list T)) : list (list T) * list (list T) :=
  let miss := map (all_nan f) (seq 0 (shape1 f)) in
  if andb (existsb (fun b => b) miss) (negb (forallb (fun b => b) miss)) then
    let keep := keep_idx (map negb miss) in (take_cols O keep pos, take_cols O keep f)
  else (pos, f).

(* ---- directions *)
Definition vnorm (v : list T) : T := nsqrt O (fold_left (fun s x => nadd O s (nmul O x x)) v z).
Definition normalize_dir (v : list T) : list T := map (fun x => ndiv O x (vnorm v)) v.
Definition pre_dirs (dirs : list (list T)) : option (list (list T)) :=
  if existsb (fun v => isclose (vnorm v) z) dirs then None else Some (map normalize_dir dirs).

Definition prod_sin (l : list T) : T := fold_left (fun p a => nmul O p (nsin O a)) l (n1 O).
Definition swap01 (v : list T) : list T := match v with a :: b :: t => b :: a :: t | _ => v end.
Definition ang2dir_row (dim : nat) (ang : list T) : list T :=
  let v := map (fun i => match i with
                         | 0 => prod_sin ang
                         | S i' => nmul O (prod_sin (skipn i ang)) (ncos O (aget z ang i'))
                         end) (seq 0 dim) in
  if orb (Nat.eqb dim 2) (Nat.eqb dim 3) then swap01 v else v.

Definition dot (u v : list T) : T :=
  fold_left (fun s i => nadd O s (nmul O (aget z u i) (aget z v i))) (seq 0 (length u)) z.
Definition nmin (a b : T) : T := if nltb O b a then b else a.
(* _separate_dirs_test: every two directions are at least 2 tol apart (as lines) *)
Definition sep_test (dirs : list (list T)) (tol : T) : bool :=
  forallb (fun ij => nleb O (nmul O (nlit O 2 0) tol)
                          (nacos O (nmin (nabs O (dot (arow dirs (fst ij)) (arow dirs (snd ij)))) (n1 O))))
          (pairs (shape0 dirs)).

(* ---- sub-sampling: the drawn index list is an input *)
Definition pre_sample (idx : list nat) (pos f : list (list T)) : list (list T) * list (list T) :=
  (take_cols O idx pos, take_cols O idx f).

(* ---- standard bins *)
Definition sturges (n : nat) : Z := (1 + Z.log2_up (Z.of_nat n * Z.of_nat n))%Z.
(* numpy.linspace(0, stop, num + 1) *)
Definition linspace0 (stop : T) (num : nat) : list T :=
  let step := ndiv O stop (nofZ O (Z.of_nat num)) in
  map (fun i => if Nat.eqb i num then stop
                else if neqb O step z then nmul O (ndiv O (nofZ O (Z.of_nat i)) (nofZ O (Z.of_nat num))) stop
                else nmul O (nofZ O (Z.of_nat i)) step) (seq 0 (num + 1)).
Definition lmin (l : list T) : T := match l with [] => z | a :: t => fold_left (fun m x => if nltb O x m then x else m) t a end.
Definition lmax (l : list T) : T := match l with [] => z | a :: t => fold_left (fun m x => if nltb O m x then x else m) t a end.
Definition box_diam (pos : list (list T)) : T :=
  nsqrt O (fold_left (fun s row => let d := nsub O (lmin row) (lmax row) in nadd O s (nmul O d d)) pos z).
Definition max_dist_euclid (pos : list (list T)) : T := ndiv O (box_diam pos) (nlit O 3 0).
Definition deg2rad (x : T) : T := nmul O x (ndiv O (npi O) (nlit O 180 0)).
Definition latlon2pos (r : T) (ll : list (list T)) : list (list T) :=
  let lat := map deg2rad (arow ll 0) in
  let lon := map deg2rad (arow ll 1) in
  [ map (fun i => nmul O (nmul O r (ncos O (aget z lat i))) (ncos O (aget z lon i))) (seq 0 (length lat));
    map (fun i => nmul O (nmul O r (ncos O (aget z lat i))) (nsin O (aget z lon i))) (seq 0 (length lat));
    map (fun i => nmul O (nmul O r (nsin O (aget z lat i))) (n1 O)) (seq 0 (length lat)) ].
Definition nmax (a b : T) : T := if nltb O a b then b else a.
Definition chordal_to_great_circle (d r : T) : T :=
  let diam := nmul O (nlit O 2 0) r in
  nmul O diam (nasin O (nmax (nmin (ndiv O d diam) (n1 O)) z)).
Definition max_dist_latlon (r : T) (ll : list (list T)) : T :=
  ndiv O (chordal_to_great_circle (box_diam (latlon2pos r ll)) r) (nlit O 3 0).
Definition std_bins (latlon : bool) (r : T) (pos : list (list T)) : list T :=
  linspace0 (if latlon then max_dist_latlon r pos else max_dist_euclid pos) (Z.to_nat (sturges (shape1 pos))).
(* standard_bins with the user overrides bin_no / max_dist (max_dist is given in the unit r of geo_scale for lat-lon) *)
Definition std_bins_kw (latlon : bool) (r : T) (pos : list (list T)) (bin_no : option nat) (max_dist : option T) : list T :=
  linspace0 (match max_dist with
             | Some m => m
             | None => if latlon then max_dist_latlon r pos else max_dist_euclid pos
             end)
            (match bin_no with Some k => k | None => Z.to_nat (sturges (shape1 pos)) end).
(* lat-lon: the kernel always works in radians *)
Definition pre_edges (latlon : bool) (r : T) (edges : list T) : list T :=
  if latlon then map (fun e => ndiv O e r) edges else edges.
Definition centers (edges : list T) : list T :=
  map (fun i => ndiv O (nadd O (aget z edges i) (aget z edges (i + 1))) (nlit O 2 0)) (seq 0 (length edges - 1)).

(* ---- vario_estimate_axis (= vario_estimate_structured): missing values and the field's own mask.
   field values f (rows x cols after moving the chosen axis to the front), own mask (all false if the field is a plain
   array), no_data.  A cell is missing iff its value is NaN (no_data = NaN) resp. isclose to no_data (a NaN value is then an
   ordinary value); the mask handed to the masked kernel is  own mask OR missing;  the plain kernel is used iff no
   cell is masked and none is missing. *)
Definition axis_missing (nd x : T) : bool := if nisnan O nd then nisnan O x else isclose x nd.
Definition axis_mask (nd : T) (own : list (list bool)) (f : list (list T)) : list (list Z) :=
  map (fun i => map (fun j => if orb (nth j (nth i own []) false) (axis_missing nd (aget2 z f i j)) then 1%Z else 0%Z)
                    (seq 0 (shape1 f))) (seq 0 (shape0 f)).
Definition axis_masked (nd : T) (own : list (list bool)) (f : list (list T)) : bool :=
  existsb (fun row => existsb (fun c => negb (Z.eqb c 0)) row) (axis_mask nd own f).
Definition axis_estimate (nd : T) (own : list (list bool)) (f : list (list T)) (et : Z) : list T :=
  if axis_masked nd own f then ma_structured_spec O f (axis_mask nd own f) et else structured_spec O f et.

(* ---- structured mesh -> point list ('ij' meshgrid, C order: first axis slowest) *)
Fixpoint grid_points (axes : list (list T)) : list (list T) :=
  match axes with
  | [] => [[]]
  | ax :: rest => flat_map (fun x => map (cons x) (grid_points rest)) ax
  end.
Definition generate_grid (axes : list (list T)) : list (list T) :=
  map (fun d => map (fun p => aget z p d) (grid_points axes)) (seq 0 (length axes)).
End Pre.

(* ---------- facts about the model that hold for every number type *)
Section Facts.
Context {T : Type} (O : NumOps T).
Notation z := (n0 O).

Lemma keep_idx_sorted sel : StronglySorted lt (keep_idx sel).
Proof. unfold keep_idx. apply ssorted_filter, seq_sorted. Qed.
Lemma keep_idx_range sel : Forall (fun p => p < length sel) (keep_idx sel).
Proof.
  rewrite Forall_forall. intros x Hx. unfold keep_idx in Hx. apply filter_In in Hx. destruct Hx as [Hx _].
  apply in_seq in Hx. lia.
Qed.
Lemma keep_idx_In sel p : In p (keep_idx sel) <-> p < length sel /\ nth p sel false = true.
Proof. unfold keep_idx. rewrite filter_In, in_seq. split; intros [A B]; split; auto; lia. Qed.
Lemma pre_select_length gmask fmask n : length (pre_select gmask fmask n) = n.
Proof. unfold pre_select. now rewrite map_length, seq_length. Qed.

(* dropping the points that are NaN in every field does not change the estimate (bit for bit) *)
Theorem drop_missing_same_estimate pos f edges et dt : shape1 f = shape1 pos ->
  unstructured_spec O (snd (pre_drop_missing O pos f)) edges (fst (pre_drop_missing O pos f)) et dt
  = unstructured_spec O f edges pos et dt.
Proof.
  intros Hs. unfold pre_drop_missing. cbv zeta.
  set (miss := map (all_nan O f) (seq 0 (shape1 f))).
  destruct (andb (existsb (fun b => b) miss) (negb (forallb (fun b => b) miss))); [|reflexivity].
  cbn [fst snd].
  assert (L : length (map negb miss) = shape1 pos).
  { unfold miss. now rewrite !map_length, seq_length. }
  apply missing_points_removed; auto.
  - apply keep_idx_sorted.
  - rewrite <- L. apply keep_idx_range.
  - intros p Hp Hn m Hm.
    assert (E : nth p (map negb miss) false = false).
    { destruct (nth p (map negb miss) false) eqn:E; auto. exfalso. apply Hn. apply keep_idx_In. rewrite L. auto. }
    unfold miss in E. rewrite (nth_map_in negb _ p false false) in E by (rewrite map_length, seq_length; lia).
    rewrite (nth_map_in (all_nan O f) _ p 0 false) in E by (rewrite seq_length; lia).
    rewrite seq_nth in E by lia. simpl in E. apply negb_false_iff in E. unfold all_nan in E.
    rewrite forallb_forall in E. apply (E (arow f m)). unfold arow. apply nth_In. exact Hm.
Qed.

(* masks: removing the deselected points and NaN-filling the remaining masked values (what the code does)
   = keeping every point and marking every masked or deselected value as NaN.  Needs only that 0/0 is a NaN. *)
Definition nan_marked (sel : list bool) (fmask : list (list bool)) (f : list (list T)) : list (list T) :=
  map (fun m => map (fun j => if orb (nth j (nth m fmask []) false) (negb (nth j sel false)) then nan O else aget2 z f m j)
                    (seq 0 (shape1 f))) (seq 0 (shape0 f)).

Lemma rows_shape1 (g : nat -> nat -> T) (f : list (list T)) :
  shape1 (map (fun m => map (g m) (seq 0 (shape1 f))) (seq 0 (shape0 f))) = shape1 f.
Proof.
  unfold shape1 at 1. unfold shape0. destruct f as [|r f']; [reflexivity|].
  simpl length. simpl seq. simpl map. simpl nth. now rewrite map_length, seq_length.
Qed.
Lemma rows_get (g : nat -> nat -> T) nf n m j : m < nf -> j < n ->
  aget2 z (map (fun m => map (g m) (seq 0 n)) (seq 0 nf)) m j = g m j.
Proof.
  intros Hm Hj. unfold aget2, arow. rewrite (nth_map_in _ (seq 0 nf) m 0 []) by (now rewrite seq_length).
  rewrite seq_nth by auto. simpl. now apply aget_map_seq.
Qed.

Theorem mask_is_nan_marking gmask fmask pos f edges et dt :
  nisnan O (nan O) = true -> shape1 f = shape1 pos ->
  let pf := pre_mask O gmask fmask pos f in
  unstructured_spec O (snd pf) edges (fst pf) et dt
  = unstructured_spec O (nan_marked (pre_select gmask fmask (shape1 f)) fmask f) edges pos et dt.
Proof.
  intros Hnan Hs. unfold pre_mask. cbv zeta. cbn [fst snd].
  set (sel := pre_select gmask fmask (shape1 f)).
  assert (L : length sel = shape1 pos) by (unfold sel; now rewrite pre_select_length).
  assert (S1 : shape1 (nan_marked sel fmask f) = shape1 pos).
  { unfold nan_marked. now rewrite rows_shape1. }
  rewrite <- (missing_points_removed O (nan_marked sel fmask f) pos edges et dt (keep_idx sel)); auto.
  - f_equal. unfold take_cols, fill_masked, nan_marked. rewrite !map_map. apply map_ext_in. intros m Hm.
    apply map_ext_in. intros p Hp. apply keep_idx_In in Hp. destruct Hp as [Hp Hsel].
    rewrite L, <- Hs in Hp. rewrite !aget_map_seq by auto. rewrite Hsel. simpl. now rewrite orb_false_r.
  - apply keep_idx_sorted.
  - rewrite <- L. apply keep_idx_range.
  - intros p Hp Hn m Hm.
    assert (E : nth p sel false = false).
    { destruct (nth p sel false) eqn:E; auto. exfalso. apply Hn. apply keep_idx_In. rewrite L. auto. }
    unfold nan_marked in *. unfold shape0 in Hm. rewrite map_length, seq_length in Hm.
    rewrite rows_get by (auto; lia). rewrite E. simpl. rewrite orb_true_r. exact Hnan.
Qed.

(* axis estimator: a lag pair (i,j)-(i+k,j) is used by the masked kernel iff NEITHER cell is masked by the field's
   own mask NOR missing (NaN / no_data) *)
Lemma axis_mask_get nd own (f : list (list T)) i j : i < shape0 f -> j < shape1 f ->
  aget2 0%Z (axis_mask O nd own f) i j
  = if orb (nth j (nth i own []) false) (axis_missing O nd (aget2 z f i j)) then 1%Z else 0%Z.
Proof.
  intros Hi Hj. unfold axis_mask, aget2, arow.
  rewrite (nth_map_in _ (seq 0 (shape0 f)) i 0 []) by (now rewrite seq_length). rewrite seq_nth by auto. simpl.
  now apply aget_map_seq.
Qed.
Theorem axis_pair_used nd own (f : list (list T)) i j k : i + k < shape0 f -> j < shape1 f ->
  andb (Z.eqb (aget2 0%Z (axis_mask O nd own f) i j) 0) (Z.eqb (aget2 0%Z (axis_mask O nd own f) (i + k) j) 0) = true
  <-> (nth j (nth i own []) false = false /\ axis_missing O nd (aget2 z f i j) = false) /\
      (nth j (nth (i + k) own []) false = false /\ axis_missing O nd (aget2 z f (i + k) j) = false).
Proof.
  intros Hi Hj. rewrite !axis_mask_get by (auto; lia). rewrite andb_true_iff.
  destruct (nth j (nth i own []) false), (axis_missing O nd (aget2 z f i j)),
           (nth j (nth (i + k) own []) false), (axis_missing O nd (aget2 z f (i + k) j)); simpl; intuition discriminate.
Qed.

(* Sturges' rule in integers: s = ceil(2 log2 n + 1)  <=>  2^(s-2) < n^2 <= 2^(s-1)  (n >= 2) *)
Lemma sturges_spec n : 2 <= n ->
  (2 ^ (sturges n - 2) < Z.of_nat n * Z.of_nat n <= 2 ^ (sturges n - 1))%Z.
Proof.
  intros Hn. unfold sturges.
  assert (H1 : (1 < Z.of_nat n * Z.of_nat n)%Z) by nia.
  pose proof (Z.log2_up_spec _ H1) as [A B].
  replace (1 + Z.log2_up (Z.of_nat n * Z.of_nat n) - 2)%Z with (Z.pred (Z.log2_up (Z.of_nat n * Z.of_nat n))) by lia.
  replace (1 + Z.log2_up (Z.of_nat n * Z.of_nat n) - 1)%Z with (Z.log2_up (Z.of_nat n * Z.of_nat n)) by lia.
  split; auto.
Qed.

(* grid expansion: number of points and the coordinates of the point with row-major index *)
Lemma grid_points_length (axes : list (list T)) :
  length (grid_points axes) = fold_right (fun ax m => length ax * m) 1 axes.
Proof.
  induction axes as [|ax rest IH]; [reflexivity|]. simpl. rewrite <- IH.
  generalize (grid_points rest) as g. intros g. induction ax as [|x ax IHa]; simpl; auto.
  now rewrite app_length, map_length, IHa.
Qed.

Lemma nth_flat_map_blocks {A B} (g : A -> list B) (m : nat) (l : list A) (q : nat) (da : A) (db : B) :
  (forall a, length (g a) = m) -> q < length l * m ->
  nth q (flat_map g l) db = nth (q mod m) (g (nth (q / m) l da)) db.
Proof.
  intros Hm. revert q. induction l as [|a l IH]; intros q Hq; simpl in *; [lia|].
  assert (m <> 0) by (intro; subst; lia).
  destruct (lt_dec q m) as [Hlt|Hge].
  - rewrite app_nth1 by (now rewrite Hm). rewrite Nat.div_small, Nat.mod_small by auto. reflexivity.
  - rewrite app_nth2 by (rewrite Hm; lia). rewrite Hm.
    assert (E : q = (q - m) + 1 * m) by lia.
    rewrite E at 2 3. rewrite Nat.div_add, Nat.mod_add by auto.
    replace ((q - m) / m + 1) with (S ((q - m) / m)) by lia. apply IH. lia.
Qed.

(* the point with flat index q of (ax :: rest) is  ax[q / M] :: (point q mod M of rest),  M = number of points of rest *)
Theorem grid_points_nth (ax : list T) rest q :
  q < length ax * length (grid_points rest) ->
  nth q (grid_points (ax :: rest)) [] =
  nth (q / length (grid_points rest)) ax z :: nth (q mod length (grid_points rest)) (grid_points rest) [].
Proof.
  intros Hq. simpl grid_points.
  rewrite (nth_flat_map_blocks _ (length (grid_points rest)) ax q z []); auto.
  2:{ intros a. now rewrite map_length. }
  set (M := length (grid_points rest)) in *.
  assert (M <> 0) by (intro E; rewrite E in Hq; lia).
  assert (q mod M < M) by (apply Nat.mod_upper_bound; auto).
  rewrite (nth_map_in _ (grid_points rest) (q mod M) [] []) by auto. reflexivity.
Qed.
End Facts.
