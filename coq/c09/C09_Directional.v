(* C09_Directional.v — the directional estimator rotates with the coordinate system (over R):
   the direction test (band and angle) and the Euclidean distance are invariant when points and directions are
   mapped by the same orthogonal matrix, hence so is the whole translated directional kernel. *)
From Coq Require Import Reals ZArith List Bool Arith Lia Lra.
From GS Require Import Num Loops Cellwise RInst Estimator_gen C15_VarioSpec C08_Math C09_Lists C09_Removal C09_Model C09_Invariance.
From GS Require C12_Mat.
Import ListNotations.
Open Scope R_scope.

Section Dir.
Variable ora : nat -> list R -> R.
Notation O := (Rops ora).
Notation sumf := C12_Mat.sumf.

Lemma for_sumf (g : nat -> R) n a : for_ 0 n (fun k (s : R) => s + g k) a = a + sumf n g.
Proof.
  unfold for_. rewrite Nat.sub_0_r. induction n.
  - simpl. lra.
  - rewrite seq_S, fold_left_app, IHn. simpl. lra.
Qed.

Definition mv (n : nat) (Q : nat -> nat -> R) (u : nat -> R) : nat -> R := fun k => sumf n (fun e => Q k e * u e).
Lemma mv_lin n Q u w a k : mv n Q (fun e => u e + a * w e) k = mv n Q u k + a * mv n Q w k.
Proof.
  unfold mv. rewrite <- C12_Mat.sumf_scal, <- C12_Mat.sumf_plus. apply C12_Mat.sumf_ext. intros; ring.
Qed.
Lemma orth_dot n Q u w : C12_Mat.orth n Q -> sumf n (fun k => mv n Q u k * mv n Q w k) = sumf n (fun e => u e * w e).
Proof.
  intros HQ.
  pose proof (C12_Mat.orth_norm n Q (fun e => u e + 1 * w e) HQ) as Hs.
  pose proof (C12_Mat.orth_norm n Q u HQ) as Hu. pose proof (C12_Mat.orth_norm n Q w HQ) as Hw.
  fold (mv n Q (fun e => u e + 1 * w e)) in Hs.
  assert (E1 : sumf n (fun i => mv n Q (fun e => u e + 1 * w e) i * mv n Q (fun e => u e + 1 * w e) i)
             = sumf n (fun i => mv n Q u i * mv n Q u i) + 2 * sumf n (fun k => mv n Q u k * mv n Q w k) + sumf n (fun i => mv n Q w i * mv n Q w i)).
  { rewrite <- C12_Mat.sumf_scal, <- !C12_Mat.sumf_plus. apply C12_Mat.sumf_ext. intros k _. rewrite mv_lin. ring. }
  assert (E2 : sumf n (fun k => (u k + 1 * w k) * (u k + 1 * w k))
             = sumf n (fun k => u k * u k) + 2 * sumf n (fun e => u e * w e) + sumf n (fun k => w k * w k)).
  { rewrite <- C12_Mat.sumf_scal, <- !C12_Mat.sumf_plus. apply C12_Mat.sumf_ext. intros; ring. }
  unfold mv in *. lra.
Qed.

(* directions (rows) mapped by Q *)
Definition rotate_dirs (Q : nat -> nat -> R) (dim : nat) (dirs : list (list R)) : list (list R) :=
  map (fun d => map (fun k => sumf dim (fun e => Q k e * aget2 0 dirs d e)) (seq 0 dim)) (seq 0 (shape0 dirs)).
Lemma rotate_dirs_shape0 Q dim dirs : shape0 (rotate_dirs Q dim dirs) = shape0 dirs.
Proof. unfold rotate_dirs, shape0. now rewrite map_length, seq_length. Qed.
Lemma rotate_dirs_get Q dim dirs d k : (d < shape0 dirs)%nat -> (k < dim)%nat ->
  aget2 0 (rotate_dirs Q dim dirs) d k = sumf dim (fun e => Q k e * aget2 0 dirs d e).
Proof. intros Hd Hk. unfold rotate_dirs. now rewrite (rows_get O) by auto. Qed.

Theorem dir_test_rotates Q pos dirs dist tol bw i j d :
  C12_Mat.orth (shape0 pos) Q -> (i < shape1 pos)%nat -> (j < shape1 pos)%nat -> (d < shape0 dirs)%nat ->
  dir_test O (shape0 pos) (rotate Q pos) dist (rotate_dirs Q (shape0 pos) dirs) tol bw i j d
  = dir_test O (shape0 pos) pos dist dirs tol bw i j d.
Proof.
  intros HQ Hi Hj Hd. set (n := shape0 pos).
  set (v := fun e => aget2 0 pos e i - aget2 0 pos e j). set (w := fun e => aget2 0 dirs d e).
  assert (V : forall k, (k < n)%nat -> aget2 0 (rotate Q pos) k i - aget2 0 (rotate Q pos) k j = mv n Q v k).
  { intros k Hk. rewrite !rotate_get by auto. fold n.
    replace (mv n Q v k) with (mv n Q (fun e => aget2 0 pos e i + (-1) * aget2 0 pos e j) k).
    - rewrite mv_lin. unfold mv. ring.
    - unfold mv. apply C12_Mat.sumf_ext. intros; unfold v; ring. }
  assert (W : forall k, (k < n)%nat -> aget2 0 (rotate_dirs Q n dirs) d k = mv n Q w k).
  { intros k Hk. now rewrite rotate_dirs_get by auto. }
  assert (SP : for_ 0 n (fun k (s : R) => nadd O s (nmul O (nsub O (aget2 (n0 O) (rotate Q pos) k i) (aget2 (n0 O) (rotate Q pos) k j)) (aget2 (n0 O) (rotate_dirs Q n dirs) d k))) (n0 O)
             = for_ 0 n (fun k (s : R) => nadd O s (nmul O (nsub O (aget2 (n0 O) pos k i) (aget2 (n0 O) pos k j)) (aget2 (n0 O) dirs d k))) (n0 O)).
  { cbn [nadd nmul nsub n0 Rops].
    rewrite (for_ext 0 n _ (fun k s => s + mv n Q v k * mv n Q w k)) by (intros k s Hk; rewrite V, W by lia; reflexivity).
    rewrite !for_sumf. f_equal. now apply orth_dot. }
  unfold dir_test. cbv zeta. fold n. rewrite SP.
  set (sp := for_ 0 n (fun k (s : R) => nadd O s (nmul O (nsub O (aget2 (n0 O) pos k i) (aget2 (n0 O) pos k j)) (aget2 (n0 O) dirs d k))) (n0 O)).
  assert (BD : for_ 0 n (fun k (b : R) => nadd O b (nmul O (nsub O (nsub O (aget2 (n0 O) (rotate Q pos) k i) (aget2 (n0 O) (rotate Q pos) k j)) (nmul O sp (aget2 (n0 O) (rotate_dirs Q n dirs) d k)))
                                                        (nsub O (nsub O (aget2 (n0 O) (rotate Q pos) k i) (aget2 (n0 O) (rotate Q pos) k j)) (nmul O sp (aget2 (n0 O) (rotate_dirs Q n dirs) d k))))) (n0 O)
             = for_ 0 n (fun k (b : R) => nadd O b (nmul O (nsub O (nsub O (aget2 (n0 O) pos k i) (aget2 (n0 O) pos k j)) (nmul O sp (aget2 (n0 O) dirs d k)))
                                                        (nsub O (nsub O (aget2 (n0 O) pos k i) (aget2 (n0 O) pos k j)) (nmul O sp (aget2 (n0 O) dirs d k))))) (n0 O)).
  { cbn [nadd nmul nsub n0 Rops].
    rewrite (for_ext 0 n _ (fun k b => b + mv n Q (fun e => v e + (- sp) * w e) k * mv n Q (fun e => v e + (- sp) * w e) k)).
    2:{ intros k b Hk. rewrite V, W by lia. rewrite mv_lin. f_equal. ring. }
    rewrite !for_sumf. f_equal. unfold mv. rewrite (C12_Mat.orth_norm n Q _ HQ).
    apply C12_Mat.sumf_ext. intros k _. unfold v, w. ring. }
  rewrite BD. reflexivity.
Qed.
Lemma dist_euclid_rotate Q pos j k : C12_Mat.orth (shape0 pos) Q -> (j < shape1 pos)%nat -> (k < shape1 pos)%nat ->
  dist_euclid O (shape0 pos) (rotate Q pos) j k = dist_euclid O (shape0 pos) pos j k.
Proof.
  intros HQ Hj Hk. rewrite !(dist_euclid_R ora). f_equal. rewrite !Rsum_seq_sumf.
  rewrite <- (C12_Mat.orth_norm (shape0 pos) Q (fun e => aget2 0 pos e j - aget2 0 pos e k) HQ).
  apply C12_Mat.sumf_ext. intros d Hd. rewrite !rotate_get by lia.
  fold (mv (shape0 pos) Q (fun e => aget2 0 pos e j) d). fold (mv (shape0 pos) Q (fun e => aget2 0 pos e k) d).
  fold (mv (shape0 pos) Q (fun e => aget2 0 pos e j - aget2 0 pos e k) d).
  replace (mv (shape0 pos) Q (fun e => aget2 0 pos e j - aget2 0 pos e k) d)
    with (mv (shape0 pos) Q (fun e => aget2 0 pos e j + (-1) * aget2 0 pos e k) d).
  - rewrite mv_lin. ring.
  - unfold mv. apply C12_Mat.sumf_ext. intros; ring.
Qed.

Lemma let_triple {A B C} (x : A * B * C) : (let '(_, b, c) := x in (b, c)) = (snd (fst x), snd x).
Proof. now destruct x as [[? ?] ?]. Qed.

(* the whole translated directional kernel (any estimator, bandwidth, tolerance, separate_dirs flag) *)
Theorem directional_rotates Q f edges pos dirs tol bw sep et :
  C12_Mat.orth (shape0 pos) Q ->
  directional O f edges (rotate Q pos) (rotate_dirs Q (shape0 pos) dirs) tol bw sep et
  = directional O f edges pos dirs tol bw sep et.
Proof.
  intros HQ. unfold directional, directional_sched. cbv zeta.
  rewrite rotate_shape0, rotate_shape1, rotate_dirs_shape0.
  destruct (negb (Nat.eqb (shape1 pos) (shape1 f))); [reflexivity|].
  destruct (Nat.ltb (length edges) 2); [reflexivity|].
  destruct (nleb O tol (n0 O)); [reflexivity|].
  set (X := par_for _ _ _ _ _). set (Y := par_for _ _ _ _ _).
  assert (H : X = Y); [|rewrite H; reflexivity].
  subst X Y. unfold par_for. apply fold_left_ext_in. intros i [c0 v0] _.
  rewrite !let_pair_id. apply for_ext. intros j [c1 v1] Hj.
  rewrite !let_pair_id. apply for_ext. intros k [c2 v2] Hk.
  rewrite dist_euclid_rotate by (auto; lia).
  destruct (orb _ _); [reflexivity|].
  rewrite !let_triple. f_equal; f_equal; [f_equal|];
    (apply for_ext; intros d [[b c3] v3] Hd; destruct b; [reflexivity|];
     rewrite dir_test_rotates by (auto; lia); reflexivity).
Qed.
End Dir.
