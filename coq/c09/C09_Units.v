(* C09_Units.v — default (standard) bins of lat-lon data scale linearly with the length unit (over R):
   the kernel sees the same radian edges whatever geo_scale is. *)
From Coq Require Import Reals ZArith List Bool Arith Lia Lra.
From GS Require Import Num Loops Cellwise RInst C09_Lists C09_Removal C09_Model.
Import ListNotations.
Open Scope R_scope.

Section Units.
Variable ora : nat -> list R -> R.
Notation O := (Rops ora).
Variable r : R.
Hypothesis Hr : 0 < r.

Lemma Rltb_scale x y : Rltb (r * x) (r * y) = Rltb x y.
Proof.
  unfold Rltb. destruct (Rlt_dec (r * x) (r * y)) as [H|H], (Rlt_dec x y) as [H'|H']; auto; exfalso.
  - apply H'. apply (Rmult_lt_reg_l r); auto.
  - apply H. apply Rmult_lt_compat_l; auto.
Qed.

Lemma lmin_scale l : lmin O (map (Rmult r) l) = r * lmin O l.
Proof.
  destruct l as [|a t]; simpl; [ring|]. revert a. induction t as [|x t IH]; intros a; simpl; auto.
  cbn [nltb Rops]. rewrite Rltb_scale. destruct (Rltb x a); apply IH.
Qed.
Lemma lmax_scale l : lmax O (map (Rmult r) l) = r * lmax O l.
Proof.
  destruct l as [|a t]; simpl; [ring|]. revert a. induction t as [|x t IH]; intros a; simpl; auto.
  cbn [nltb Rops]. rewrite Rltb_scale. destruct (Rltb a x); apply IH.
Qed.

Lemma box_fold_scale pos a :
  fold_left (fun s row => let d := nsub O (lmin O row) (lmax O row) in nadd O s (nmul O d d)) (map (map (Rmult r)) pos) (r * r * a)
  = r * r * fold_left (fun s row => let d := nsub O (lmin O row) (lmax O row) in nadd O s (nmul O d d)) pos a.
Proof.
  revert a. induction pos as [|row pos IH]; intros a; simpl; auto.
  rewrite lmin_scale, lmax_scale. cbn [nsub nadd nmul Rops]. rewrite <- IH. f_equal. ring.
Qed.
Lemma box_diam_scale pos : box_diam O (map (map (Rmult r)) pos) = r * box_diam O pos.
Proof.
  unfold box_diam. cbn [nsqrt n0 Rops]. replace 0 with (r * r * 0) at 1 by ring. rewrite box_fold_scale.
  rewrite sqrt_mult_alt by nra. rewrite sqrt_square by lra. reflexivity.
Qed.

Lemma latlon2pos_scale ll : latlon2pos O r ll = map (map (Rmult r)) (latlon2pos O 1 ll).
Proof.
  unfold latlon2pos. cbv zeta. simpl map. rewrite !map_map. cbn [nmul n1 Rops].
  f_equal; [|f_equal; [|f_equal]]; apply map_ext; intros i; ring.
Qed.

Lemma chordal_scale d : chordal_to_great_circle O (r * d) r = r * chordal_to_great_circle O d 1.
Proof.
  unfold chordal_to_great_circle. cbv zeta. unfold nlit. cbn [nmul ndiv nasin n1 n0 nofZ Rops].
  replace (r * d / (2 * r)) with (d / (2 * 1)) by (field; lra). ring.
Qed.

Lemma max_dist_latlon_scale ll : max_dist_latlon O r ll = r * max_dist_latlon O 1 ll.
Proof.
  unfold max_dist_latlon. rewrite latlon2pos_scale, box_diam_scale, chordal_scale.
  unfold nlit. cbn [ndiv nofZ Rops]. unfold Rdiv. ring.
Qed.

Lemma Reqb_scale x : Reqb (r * x) 0 = Reqb x 0.
Proof.
  unfold Reqb. destruct (Req_EM_T (r * x) 0) as [H|H], (Req_EM_T x 0) as [H'|H']; auto; exfalso.
  - apply H'. apply Rmult_integral in H. destruct H; [lra|auto].
  - apply H. rewrite H'. ring.
Qed.

Lemma linspace0_scale M num : linspace0 O (r * M) num = map (Rmult r) (linspace0 O M num).
Proof.
  unfold linspace0. cbv zeta. rewrite map_map. apply map_ext. intros i.
  cbn [ndiv nmul neqb nofZ n0 Rops].
  destruct (Nat.eqb i num); [reflexivity|].
  replace (r * M / IZR (Z.of_nat num)) with (r * (M / IZR (Z.of_nat num))) by (unfold Rdiv; ring).
  rewrite Reqb_scale. destruct (Reqb (M / IZR (Z.of_nat num)) 0); ring.
Qed.

Lemma pre_edges_unit (e : list R) : pre_edges O true 1 e = e.
Proof.
  unfold pre_edges. cbn [ndiv Rops]. rewrite <- (map_id e) at 2. apply map_ext. intros x. field.
Qed.
Lemma pre_edges_scaled (e : list R) : pre_edges O true r (map (Rmult r) e) = e.
Proof.
  unfold pre_edges. cbn [ndiv Rops]. rewrite map_map. rewrite <- (map_id e) at 2. apply map_ext. intros x. field. lra.
Qed.

(* standard bins in the unit = unit x standard bins in radians; the kernel receives the same edges *)
Theorem std_bins_units ll : std_bins O true r ll = map (Rmult r) (std_bins O true 1 ll).
Proof. unfold std_bins. rewrite max_dist_latlon_scale. apply linspace0_scale. Qed.

(* with the user overrides: max_dist = r m in the unit  <->  max_dist = m in radians; bin_no unchanged *)
Definition scale_opt (m : option R) : option R := match m with Some x => Some (r * x) | None => None end.
Theorem std_bins_kw_units ll bin_no max_dist :
  std_bins_kw O true r ll bin_no (scale_opt max_dist) = map (Rmult r) (std_bins_kw O true 1 ll bin_no max_dist).
Proof.
  unfold std_bins_kw. destruct max_dist as [m|]; simpl scale_opt; cbv iota.
  - apply linspace0_scale.
  - rewrite max_dist_latlon_scale. apply linspace0_scale.
Qed.
Theorem bins_kw_unit_free ll bin_no max_dist :
  pre_edges O true r (std_bins_kw O true r ll bin_no (scale_opt max_dist))
  = pre_edges O true 1 (std_bins_kw O true 1 ll bin_no max_dist).
Proof. rewrite std_bins_kw_units, pre_edges_scaled, pre_edges_unit. reflexivity. Qed.
Lemma std_bins_kw_none latlon ll : std_bins_kw O latlon r ll None None = std_bins O latlon r ll.
Proof. reflexivity. Qed.

Theorem default_bins_unit_free ll :
  pre_edges O true r (std_bins O true r ll) = pre_edges O true 1 (std_bins O true 1 ll).
Proof. rewrite std_bins_units, pre_edges_scaled, pre_edges_unit. reflexivity. Qed.

Theorem centers_units (e : list R) : centers O (map (Rmult r) e) = map (Rmult r) (centers O e).
Proof.
  unfold centers. rewrite map_length, map_map. apply map_ext. intros i. unfold nlit. cbn [ndiv nadd nofZ n0 Rops].
  unfold aget. replace 0 with (r * 0) at 1 2 by ring. rewrite !map_nth. unfold Rdiv. ring.
Qed.
End Units.
