(* C07_FormulaR.v — the conditioning formula over the reals: field = kriging estimate + unconditional field
   scaled by the kriging standard deviation; the simulated error has exactly the kriging variance; the data are
   honoured for every seed (composed with the kriging model of C05/C06); far-field behaviour. *)
From Coq Require Import Reals Lra Lia Arith List Bool ZArith Psatz.
From GS Require Import Num Loops C05_Mat C05_RInst C05_Model C05_Proofs C06_Proofs C07_Model.
Import ListNotations.
Local Open Scope R_scope.

Lemma Rltb_false_iff x y : Rltb x y = false <-> y <= x.
Proof. unfold Rltb. destruct (Rlt_dec x y); split; intros; try discriminate; try lra; auto. Qed.

Lemma max0_R x : max0 Rops x = if Rlt_dec x 0 then 0 else x.
Proof. unfold max0. simpl. unfold Rltb. destruct (Rlt_dec x 0); reflexivity. Qed.

(* ---------- no nugget: field = k + (sigma_K / sigma) * r *)
Theorem formula_no_nugget nug var k kv r zn : nug <= 0 -> 0 < var ->
  cond_value Rops nug var k kv r zn = k + sqrt kv / sqrt var * r.
Proof.
  intros Hn Hv. unfold cond_value, scaling. simpl.
  assert (E : Rltb 0 nug = false) by (now apply Rltb_false_iff). rewrite E.
  rewrite sqrt_div_alt by exact Hv. ring.
Qed.

(* ---------- with nugget: the nugget part of the kriging variance goes to the nugget noise *)
Theorem formula_nugget_high nug var k kv r zn : 0 < nug -> 0 < var -> nug <= kv ->
  cond_value Rops nug var k kv r zn = k + sqrt ((kv - nug) / var) * r + zn.
Proof.
  intros Hn Hv Hk. unfold cond_value, scaling.
  change (nltb Rops (n0 Rops) nug) with (Rltb 0 nug).
  assert (E : Rltb 0 nug = true) by (now apply Rltb_true). rewrite E.
  change (nsub Rops kv nug) with (kv - nug). rewrite max0_R.
  destruct (Rlt_dec (kv - nug) 0) as [H|H]; [lra|]. simpl.
  replace ((kv - (kv - nug)) / nug) with 1 by (field; lra). rewrite sqrt_1. ring.
Qed.

Theorem formula_nugget_low nug var k kv r zn : 0 < nug -> 0 < var -> 0 <= kv < nug ->
  cond_value Rops nug var k kv r zn = k + sqrt (kv / nug) * zn.
Proof.
  intros Hn Hv Hk. unfold cond_value, scaling.
  change (nltb Rops (n0 Rops) nug) with (Rltb 0 nug).
  assert (E : Rltb 0 nug = true) by (now apply Rltb_true). rewrite E.
  change (nsub Rops kv nug) with (kv - nug). rewrite max0_R.
  destruct (Rlt_dec (kv - nug) 0) as [H|H]; [|lra]. simpl.
  replace (0 / var) with 0 by (unfold Rdiv; ring). rewrite sqrt_0.
  replace (kv - 0) with kv by ring. ring.
Qed.

(* ---------- the random part has exactly the kriging variance:
   var_scale^2 * var + nug_scale^2 * nugget = krige_var  (r has variance var, the nugget noise variance nugget) *)
Theorem scaling_variance nug var kv : 0 <= nug -> 0 < var -> 0 <= kv ->
  let '(vs, ns) := scaling Rops nug var kv in vs * vs * var + ns * ns * nug = kv.
Proof.
  intros Hn Hv Hk. unfold scaling. change (nltb Rops (n0 Rops) nug) with (Rltb 0 nug).
  destruct (Rltb 0 nug) eqn:E.
  - apply Rltb_true in E. change (nsub Rops kv nug) with (kv - nug). rewrite max0_R.
    destruct (Rlt_dec (kv - nug) 0) as [H|H]; simpl.
    + replace (0 / var) with 0 by (unfold Rdiv; ring). rewrite sqrt_0. replace (kv - 0) with kv by ring.
      rewrite sqrt_sqrt by (apply Rmult_le_pos; [lra|left; now apply Rinv_0_lt_compat]). field. lra.
    + replace ((kv - (kv - nug)) / nug) with 1 by (field; lra). rewrite sqrt_1.
      rewrite sqrt_sqrt by (apply Rmult_le_pos; [lra|left; now apply Rinv_0_lt_compat]). field. lra.
  - apply Rltb_false_iff in E. assert (nug = 0) by lra. subst nug. simpl.
    rewrite sqrt_sqrt by (apply Rmult_le_pos; [lra|left; now apply Rinv_0_lt_compat]). field. lra.
Qed.

(* ---------- zero kriging variance: both scales vanish, the field is the kriging estimate for every seed *)
Theorem zero_variance_no_noise nug var k r zn : cond_value Rops nug var k 0 r zn = k.
Proof.
  unfold cond_value, scaling. change (nltb Rops (n0 Rops) nug) with (Rltb 0 nug).
  destruct (Rltb 0 nug) eqn:E.
  - apply Rltb_true in E. change (nsub Rops 0 nug) with (0 - nug). rewrite max0_R.
    destruct (Rlt_dec (0 - nug) 0) as [H|H]; [|lra]. simpl.
    replace (0 / var) with 0 by (unfold Rdiv; ring). replace ((0 - 0) / nug) with 0 by (unfold Rdiv; ring).
    rewrite sqrt_0. ring.
  - simpl. replace (0 / var) with 0 by (unfold Rdiv; ring). rewrite sqrt_0. ring.
Qed.

Lemma cond_field_at nug var ks kvs rs zs t : (t < length ks)%nat ->
  aget 0 (cond_field Rops nug var ks kvs rs zs) t =
  cond_value Rops nug var (aget 0 ks t) (aget 0 kvs t) (aget 0 rs t) (aget 0 zs t).
Proof. intros H. unfold cond_field. exact (aget_map_seq 0 _ _ t H). Qed.
Lemma cond_field_length nug var ks kvs rs zs : length (cond_field Rops nug var ks kvs rs zs) = length ks.
Proof. unfold cond_field. now rewrite map_length, seq_length. Qed.

(* ---------- honour the data: CondSRF.__call__ composed with the kriging model of C05/C06.
   Target t sits on conditioning point m, which carries no measurement error; Kinv is a left inverse of the
   kriging matrix.  Then for EVERY unconditional field rs and nugget noise zs (every seed), every nugget and
   variance, the post-processed conditioned field at t is the datum. *)
Theorem honours_data S Q Kinv nr dn val ctrend cmean tmean ttrend chunk nug var rs zs t m :
  shape0 Kinv = ks_size S -> (1 <= chunk)%nat -> (t < kt_m Q)%nat ->
  meq (ks_size S) (mmul (ks_size S) (mat_of Kinv) (kmat_entry Rops S)) delta ->
  at_data_point S Q t m -> length val = ks_n S ->
  aget 0 tmean t = aget 0 cmean m -> aget 0 ttrend t = aget 0 ctrend m ->
  dn (nr (aget 0 val m - aget 0 ctrend m)) = aget 0 val m - aget 0 ctrend m ->
  aget2 0 (ks_C S) m m + aget 0 (ks_err S) m = ks_sill S ->
  let cond := krige_cond Rops nr val ctrend cmean (ks_u S + ks_p S) in
  let fe := krige_raw Rops S Q Kinv cond chunk in                       (* krige(post_process=False) *)
  let kv := map (clip_var Rops (ks_sill S)) (snd fe) in                 (* np.maximum(sill - err, 0) *)
  let raw := cond_field Rops nug var (fst fe) kv rs zs in               (* rawkrige + scale*rawfield + nugget *)
  aget 0 (post_field Rops dn raw tmean ttrend) t = aget 0 val m.        (* post_field(process=True) *)
Proof.
  intros HN Hc Ht HL HA Hl Hmean Htrend Hdn Hsill cond fe kv raw.
  assert (Hm : (m < ks_n S)%nat) by (apply HA).
  assert (H0 : (0 < ks_size S)%nat) by (unfold ks_size; lia).
  destruct (exact_raw S Q Kinv HN chunk Hc cond t m Ht HL HA) as [E1 E2].
  destruct (krige_raw_length S Q Kinv cond chunk Hc H0 HN) as [L1 L2].
  fold fe in E1, E2, L1, L2.
  assert (Ekv : aget 0 kv t = 0).
  { unfold kv. unfold aget at 1. rewrite nth_indep with (d' := clip_var Rops (ks_sill S) 0) by (now rewrite map_length, L2).
    rewrite map_nth. change (nth t (snd fe) 0) with (aget 0 (snd fe) t). rewrite E2, Hsill, clip_var_R.
    destruct (Rlt_dec (ks_sill S - ks_sill S) 0); lra. }
  rewrite post_field_at by (unfold raw; rewrite cond_field_length, L1; exact Ht).
  unfold raw. rewrite cond_field_at by (now rewrite L1). rewrite Ekv, zero_variance_no_noise, E1.
  unfold cond. rewrite krige_cond_vec, Hl. destruct (Nat.ltb_spec m (ks_n S)); [|lia].
  rewrite Hmean, Htrend.
  replace (nr (aget 0 val m - aget 0 ctrend m) - aget 0 cmean m + aget 0 cmean m)
    with (nr (aget 0 val m - aget 0 ctrend m)) by ring.
  rewrite Hdn. ring.
Qed.

(* ---------- far from the data (simple kriging: estimate -> 0, variance -> sill) *)
Theorem far_field_limit_point nug var r zn : 0 <= nug -> 0 < var ->
  cond_value Rops nug var 0 (var + nug) r zn = r + (if Rlt_dec 0 nug then zn else 0).
Proof.
  intros Hn Hv. destruct (Rlt_dec 0 nug) as [H|H].
  - rewrite formula_nugget_high by lra. replace ((var + nug - nug) / var) with 1 by (field; lra).
    rewrite sqrt_1. ring.
  - rewrite formula_no_nugget by lra. assert (nug = 0) by lra. subst. rewrite Rplus_0_r.
    unfold Rdiv. rewrite Rinv_r by (apply Rgt_not_eq, sqrt_lt_R0; lra). ring.
Qed.

Lemma sqrt_near_one x : 0 <= x -> Rabs (sqrt x - 1) <= Rabs (x - 1).
Proof.
  intros Hx. pose proof (sqrt_pos x) as Hs. pose proof (sqrt_sqrt x Hx) as Hq.
  set (s := sqrt x) in *. rewrite <- Hq.
  replace (s * s - 1) with ((s - 1) * (s + 1)) by ring. rewrite Rabs_mult.
  rewrite (Rabs_right (s + 1)) by lra.
  pose proof (Rabs_pos (s - 1)). nra.
Qed.

(* quantitative: the distance to the unconditional field is bounded by the kriging estimate and the
   relative deficit of the kriging variance (model without nugget) *)
Theorem far_field_bound var k kv r zn : 0 < var -> 0 <= kv ->
  Rabs (cond_value Rops 0 var k kv r zn - r) <= Rabs k + Rabs r * Rabs (kv / var - 1).
Proof.
  intros Hv Hk. rewrite formula_no_nugget by lra. rewrite <- sqrt_div_alt by exact Hv.
  replace (k + sqrt (kv / var) * r - r) with (k + r * (sqrt (kv / var) - 1)) by ring.
  eapply Rle_trans; [apply Rabs_triang|]. rewrite Rabs_mult.
  assert (0 <= kv / var) by (apply Rmult_le_pos; [lra|left; now apply Rinv_0_lt_compat]).
  pose proof (sqrt_near_one (kv / var) H). pose proof (Rabs_pos r). nra.
Qed.

(* the premises of honours_data and of the formula theorems are satisfiable *)
Example formula_example : cond_value Rops 0 4 1 1 2 0 = 2.
Proof.
  rewrite formula_no_nugget by lra. rewrite sqrt_1.
  replace 4 with (2 * 2) by ring. rewrite sqrt_square by lra. field.
Qed.

(* the hypotheses of honours_data are satisfiable: one conditioning point (value 3, covariance 2, no error),
   simple kriging, the target on the conditioning point; any unconditional field value and noise *)
Example honours_data_example (r zn : R) :
  let S := mkKSys 1 false false 2 [[2]] [0] [] [] in
  let Q := mkKTgt 1 [[2]] [[0]] [] [] false in
  let cond := krige_cond Rops (fun x => x) [3] [0] [0] 0 in
  let fe := krige_raw Rops S Q [[1 / 2]] cond 1 in
  let kv := map (clip_var Rops 2) (snd fe) in
  aget 0 (post_field Rops (fun x => x) (cond_field Rops 0 2 (fst fe) kv [r] [zn]) [0] [0]) 0 = 3.
Proof.
  cbv zeta.
  apply (honours_data (mkKSys 1 false false 2 [[2]] [0] [] []) (mkKTgt 1 [[2]] [[0]] [] [] false)
           [[1 / 2]] (fun x => x) (fun x => x) [3] [0] [0] [0] [0] 1 0 2 [r] [zn] 0%nat 0%nat);
    try reflexivity; try (cbv; lia).
  - intros i j Hi Hj. cbv in Hi, Hj. assert (i = 0%nat) by lia. assert (j = 0%nat) by lia. subst.
    unfold mmul, mat_of, kmat_entry, delta, aget2, arow, aget. simpl. lra.
  - unfold at_data_point. simpl. repeat split; try lia; try discriminate;
      try (intros i Hi; assert (i = 0%nat) by lia; subst; reflexivity);
      try (intros l Hl; exfalso; cbv in Hl; lia).
  - unfold aget2, arow, aget. simpl. lra.
Qed.
