(* C07_Proofs.v — the cache state machine: coherence invariant over all histories (repaired tree),
   refutation witnesses for the pinned behaviour and for the np.allclose window, legitimate reuse. *)
From Coq Require Import List Bool Arith Lia ZArith.
From GS Require Import Num Loops C07_Model.
Import ListNotations.

(* ---------- names *)
Lemma has_add_same n l : has n (add_name n l) = true.
Proof.
  unfold add_name. destruct (has n l) eqn:E; [exact E|].
  unfold has. rewrite existsb_app. simpl. rewrite Nat.eqb_refl. now rewrite orb_true_r.
Qed.
Lemma has_add_mono n m l : has n l = true -> has n (add_name m l) = true.
Proof.
  intros H. unfold add_name. destruct (has m l); [exact H|].
  unfold has in *. rewrite existsb_app, H. reflexivity.
Qed.
Lemma has_nil n : has n [] = false.
Proof. reflexivity. Qed.

(* ---------- the invariant *)
Definition Inv (s : St) : Prop :=
  st_matmodel s < st_next s /\ st_model s < st_next s /\
  (refreshed s -> has 2 (st_cnames s) = true -> has 1 (st_knames s) = true ->
   st_rk s = cur_desc s /\ st_kv s = cur_desc s).

Lemma Inv_init sd : Inv (init sd).
Proof. unfold Inv, init; simpl. repeat split; try lia; discriminate. Qed.

Lemma cur_desc_with_seed s x : cur_desc (with_seed s x) = cur_desc s.
Proof. reflexivity. Qed.

Lemma Inv_with_seed s x : Inv s -> Inv (with_seed s x).
Proof. intros H. exact H. Qed.

(* set_pos on a clean position: either everything stored is deleted, or position and mesh type are unchanged *)
Lemma set_pos_cases s q m :
  (forall c, st_pos s = Some c -> pos_close c q = true -> c = q) ->
  let '(s2, del) := do_set_pos s q m in
  (del = true /\ st_cnames s2 = [] /\ st_knames s2 = []) \/
  (del = false /\ st_pos s = Some q /\ st_mesh s = m /\ st_cnames s2 = st_cnames s /\ st_knames s2 = st_knames s).
Proof.
  intros Hc. unfold do_set_pos.
  destruct (negb (eqb (st_mesh s) m) || negb match st_pos s with Some q0 => pos_close q0 q | None => false end) eqn:D.
  - left. simpl. auto.
  - right. simpl. apply orb_false_elim in D. destruct D as [D1 D2].
    apply negb_false_iff in D1, D2. apply eqb_prop in D1.
    destruct (st_pos s) as [c|] eqn:P; [|discriminate].
    rewrite (Hc c eq_refl D2). auto.
Qed.

Lemma set_pos_fields s q m :
  let s2 := fst (do_set_pos s q m) in
  st_pos s2 = Some q /\ st_mesh s2 = m /\ st_rk s2 = st_rk s /\ st_kv s2 = st_kv s /\ st_cond s2 = st_cond s /\
  st_model s2 = st_model s /\ st_matmodel s2 = st_matmodel s /\ st_mtn s2 = st_mtn s /\ st_next s2 = st_next s /\
  st_seed s2 = st_seed s.
Proof. unfold do_set_pos. simpl. repeat split. Qed.

Lemma Inv_set_pos s q m :
  (forall c, st_pos s = Some c -> pos_close c q = true -> c = q) -> Inv s -> Inv (fst (do_set_pos s q m)).
Proof.
  intros Hc (B1 & B2 & I). pose proof (set_pos_cases s q m Hc) as C.
  pose proof (set_pos_fields s q m) as F. destruct (do_set_pos s q m) as [s2 del]. simpl in *.
  destruct F as (F1 & F2 & F3 & F4 & F5 & F6 & F7 & F8 & F9 & F10).
  unfold Inv, refreshed. rewrite F7, F6, F9. repeat split; auto.
  - destruct C as [(_ & C1 & _)|(_ & P & M & C1 & C2)]; [rewrite C1 in H0; discriminate|].
    rewrite C1 in H0. rewrite C2 in H1. destruct (I H H0 H1) as [E _]. rewrite F3, E.
    unfold cur_desc, cur_pos. now rewrite F1, F2, F5, F6, F7, F8, P, M.
  - destruct C as [(_ & C1 & _)|(_ & P & M & C1 & C2)]; [rewrite C1 in H0; discriminate|].
    rewrite C1 in H0. rewrite C2 in H1. destruct (I H H0 H1) as [_ E]. rewrite F4, E.
    unfold cur_desc, cur_pos. now rewrite F1, F2, F5, F6, F7, F8, P, M.
Qed.

(* the part of CondSRF.__call__ after pre_pos, as a function of the state after pre_pos *)
Definition finish_call (s2 : St) (del : bool) : St * Res :=
  let reuse := negb del && has 2 (st_cnames s2) && has 1 (st_knames s2) in
  let cur := cur_desc s2 in
  let k := if reuse then st_rk s2 else cur in
  let v := if reuse then st_kv s2 else cur in
  let kn := add_name 0 (if reuse then st_knames s2 else add_name 1 (st_knames s2)) in
  let cn := add_name 0 (add_name 1 (if reuse then st_cnames s2 else add_name 2 (st_cnames s2))) in
  (mkSt (st_pos s2) (st_mesh s2) cn kn k v (st_cond s2) (st_model s2) (st_matmodel s2) (st_mtn s2)
        (st_next s2) (st_seed s2),
   RField (mkOut reuse k v (st_model s2) (st_seed s2) (st_mtn s2))).

Lemma do_call_unfold s p sd :
  do_call s p sd =
  let s1 := match sd with Some x => with_seed s x | None => s end in
  match p with
  | None => match st_pos s1 with None => (s1, RErr) | Some _ => finish_call s1 false end
  | Some (q, m) => let '(s2, del) := do_set_pos s1 q m in finish_call s2 del
  end.
Proof.
  unfold do_call, finish_call. cbv zeta. destruct p as [[q m]|].
  - destruct (do_set_pos _ q m). reflexivity.
  - set (s1 := match sd with Some x => with_seed s x | None => s end).
    destruct (st_pos s1) eqn:P; [rewrite <- P|]; reflexivity.
Qed.

(* the rest of the call on a state satisfying the invariant *)
Lemma finish_ok s2 del : Inv s2 ->
  let '(s', r) := finish_call s2 del in
  Inv s' /\ st_pos s' = st_pos s2 /\
  exists o, r = RField o /\ o_gmodel o = st_model s' /\ o_seed o = st_seed s' /\ o_post o = st_mtn s' /\
            (refreshed s' -> o_k o = cur_desc s' /\ o_v o = cur_desc s').
Proof.
  intros (B1 & B2 & I). unfold finish_call.
  set (reuse := negb del && has 2 (st_cnames s2) && has 1 (st_knames s2)).
  assert (R : refreshed s2 ->
              (if reuse then st_rk s2 else cur_desc s2) = cur_desc s2 /\
              (if reuse then st_kv s2 else cur_desc s2) = cur_desc s2).
  { intros Hr. destruct reuse eqn:E; [|auto]. unfold reuse in E.
    apply andb_true_iff in E. destruct E as [E E3]. apply andb_true_iff in E. destruct E as [_ E2].
    apply I; auto. }
  split; [|split; [reflexivity|]].
  - unfold Inv. simpl. split; [exact B1|split; [exact B2|]]. intros Hr _ _. apply (R Hr).
  - eexists. split; [reflexivity|]. simpl. split; [reflexivity|split; [reflexivity|split; [reflexivity|]]].
    intros Hr. apply (R Hr).
Qed.

Definition call_post (s' : St) (r : Res) : Prop :=
  Inv s' /\
  match r with
  | RField o => o_gmodel o = st_model s' /\ o_seed o = st_seed s' /\ o_post o = st_mtn s' /\ st_pos s' <> None /\
                (refreshed s' -> o_k o = cur_desc s' /\ o_v o = cur_desc s')
  | _ => True
  end.

Lemma call_spec s p sd :
  Inv s -> clean_op s (Call p sd) -> call_post (fst (do_call s p sd)) (snd (do_call s p sd)).
Proof.
  intros HI Hc. rewrite do_call_unfold.
  set (s1 := match sd with Some x => with_seed s x | None => s end).
  assert (I1 : Inv s1) by (unfold s1; destruct sd; auto).
  assert (P1 : st_pos s1 = st_pos s) by (unfold s1; destruct sd; reflexivity).
  cbv zeta. destruct p as [[q m]|].
  - assert (Hc1 : forall c, st_pos s1 = Some c -> pos_close c q = true -> c = q) by (rewrite P1; exact Hc).
    pose proof (Inv_set_pos s1 q m Hc1 I1) as I2. pose proof (set_pos_fields s1 q m) as F.
    destruct (do_set_pos s1 q m) as [s2 del]. simpl in I2, F. destruct F as (F1 & _).
    pose proof (finish_ok s2 del I2) as FS.
    destruct (finish_call s2 del) as [s' r]. destruct FS as (IS & PS & o & -> & G & SE & PO & KV).
    simpl. split; [exact IS|]. split; [exact G|split; [exact SE|split; [exact PO|split; [rewrite PS, F1; discriminate|exact KV]]]].
  - destruct (st_pos s1) as [c|] eqn:P.
    + pose proof (finish_ok s1 false I1) as FS.
      destruct (finish_call s1 false) as [s' r]. destruct FS as (IS & PS & o & -> & G & SE & PO & KV).
      simpl. split; [exact IS|]. split; [exact G|split; [exact SE|split; [exact PO|split; [rewrite PS, P; discriminate|exact KV]]]].
    + simpl. split; [exact I1|exact I].
Qed.

(* ---------- every operation of the repaired tree preserves the invariant *)
Lemma Inv_step s op : Inv s -> clean_op s op -> Inv (fst (step true s op)).
Proof.
  intros HI Hc. destruct op as [p sd|q m|k| | | | | |sd]; simpl.
  - apply (call_spec s p sd HI Hc).
  - apply Inv_set_pos; auto.
  - destruct HI as (B1 & B2 & I). unfold Inv, do_set_cond, refreshed; simpl. repeat split; try lia; discriminate.
  - destruct HI as (B1 & B2 & I). unfold Inv, do_model_inplace, refreshed; simpl. repeat split; try lia.
  - destruct HI as (B1 & B2 & I). unfold Inv, do_set_model, do_set_cond, do_model_inplace, refreshed; simpl.
    repeat split; try lia; discriminate.
  - destruct HI as (B1 & B2 & I). unfold Inv, do_set_mtn, refreshed; simpl. repeat split; try lia; discriminate.
  - destruct HI as (B1 & B2 & I). unfold Inv, do_set_mtn, refreshed; simpl. repeat split; try lia; discriminate.
  - destruct HI as (B1 & B2 & I). unfold Inv, do_set_mtn, refreshed; simpl. repeat split; try lia; discriminate.
  - exact HI.
Qed.

Lemma Inv_run ops : forall s, Inv s -> clean true s ops -> Inv (run true ops s).
Proof.
  induction ops as [|op r IH]; intros s HI Hc; simpl in *; [exact HI|].
  destruct Hc as [H1 H2]. apply IH; [apply Inv_step; auto|exact H2].
Qed.

(* ---------- what a freshly built object returns *)
Lemma fresh_result_eq s :
  fresh_result s =
  let d := mkKDesc (cur_pos s) (st_mesh s) (st_cond s) (st_model s) (st_model s) (st_mtn s) in
  RField (mkOut false d d (st_model s) (st_seed s) (st_mtn s)).
Proof.
  unfold fresh_result, step, do_call, fresh_of, do_set_pos. simpl. rewrite orb_true_r. simpl. reflexivity.
Qed.

(* ---------- cache coherence over all histories *)
Theorem cache_coherent sd0 ops p sd :
  clean true (init sd0) ops ->
  let s := run true ops (init sd0) in
  clean_op s (Call p sd) ->
  forall s' o, step true s (Call p sd) = (s', RField o) -> refreshed s' ->
  same_field (RField o) (fresh_result s').
Proof.
  intros Hc s Hop s' o E Hr.
  assert (HI : Inv s) by (apply Inv_run; [apply Inv_init|exact Hc]).
  pose proof (call_spec s p sd HI Hop) as C. simpl in E. rewrite E in C. simpl in C.
  destruct C as (_ & G & SE & PO & _ & KV). destruct (KV Hr) as [K V].
  rewrite fresh_result_eq. simpl. unfold refreshed in Hr.
  rewrite K, V, G, SE, PO. unfold cur_desc. rewrite Hr. repeat split.
Qed.

(* whenever the reuse branch is taken in a refreshed state, the stored results are the current ones *)
Theorem reuse_only_current sd0 ops p sd :
  clean true (init sd0) ops ->
  let s := run true ops (init sd0) in
  clean_op s (Call p sd) ->
  forall s' o, step true s (Call p sd) = (s', RField o) -> refreshed s' -> o_reuse o = true ->
  o_k o = cur_desc s' /\ o_v o = cur_desc s'.
Proof.
  intros Hc s Hop s' o E Hr _.
  assert (HI : Inv s) by (apply Inv_run; [apply Inv_init|exact Hc]).
  pose proof (call_spec s p sd HI Hop) as C. simpl in E. rewrite E in C. simpl in C.
  destruct C as (_ & _ & _ & _ & _ & KV). exact (KV Hr).
Qed.

(* ---------- legitimate reuse: same position (or none given), any new seed *)
Lemma finish_names s2 del :
  let s' := fst (finish_call s2 del) in has 2 (st_cnames s') = true /\ has 1 (st_knames s') = true.
Proof.
  unfold finish_call. cbn [fst st_cnames st_knames].
  set (reuse := negb del && has 2 (st_cnames s2) && has 1 (st_knames s2)).
  destruct reuse eqn:E.
  - unfold reuse in E. apply andb_true_iff in E. destruct E as [E E3]. apply andb_true_iff in E. destruct E as [_ E2].
    split; repeat apply has_add_mono; auto.
  - split; [do 2 apply has_add_mono|apply has_add_mono]; apply has_add_same.
Qed.

Theorem reuse_when_unchanged fx s p sd s1 o1 :
  step fx s (Call p sd) = (s1, RField o1) ->
  forall q sd2, (q = None \/ exists c, q = Some (c, st_mesh s1) /\ pos_close (cur_pos s1) c = true) ->
  exists s2 o2, step fx s1 (Call q sd2) = (s2, RField o2) /\ o_reuse o2 = true /\ o_k o2 = o_k o1 /\ o_v o2 = o_v o1.
Proof.
  simpl. rewrite do_call_unfold. cbv zeta.
  set (sa := match sd with Some x => with_seed s x | None => s end).
  intros E q sd2 Hq.
  assert (X : exists sb del, finish_call sb del = (s1, RField o1) /\ st_pos sb <> None).
  { destruct p as [[c m]|].
    - pose proof (set_pos_fields sa c m) as F. destruct (do_set_pos sa c m) as [sb del]. simpl in F.
      exists sb, del. split; [exact E|]. destruct F as (F1 & _). rewrite F1. discriminate.
    - destruct (st_pos sa) eqn:P; [|discriminate]. exists sa, false. split; [exact E|]. rewrite P. discriminate. }
  destruct X as (sb & del & F & Pb).
  pose proof (finish_names sb del) as N. rewrite F in N. simpl in N. destruct N as [N2 N1].
  assert (P1 : st_pos s1 = st_pos sb) by (unfold finish_call in F; injection F as <- _; reflexivity).
  assert (K1 : st_rk s1 = o_k o1 /\ st_kv s1 = o_v o1).
  { unfold finish_call in F. injection F as <- <-. simpl. auto. }
  rewrite do_call_unfold. cbv zeta.
  set (sc := match sd2 with Some x => with_seed s1 x | None => s1 end).
  assert (C : st_pos sc = st_pos s1 /\ st_mesh sc = st_mesh s1 /\ st_cnames sc = st_cnames s1 /\
              st_knames sc = st_knames s1 /\ st_rk sc = st_rk s1 /\ st_kv sc = st_kv s1)
    by (unfold sc; destruct sd2; simpl; repeat split).
  destruct C as (C1 & C2 & C3 & C4 & C5 & C6).
  destruct Hq as [->|(c & -> & Hcl)].
  - rewrite C1, P1. destruct (st_pos sb) eqn:Pb'; [|contradiction].
    unfold finish_call. rewrite C3, C4, N2, N1. simpl. eexists _, _. split; [reflexivity|].
    simpl. rewrite C5, C6. destruct K1. auto.
  - unfold do_set_pos. rewrite C1, C2, eqb_reflx. simpl.
    unfold cur_pos in Hcl. rewrite P1 in *. destruct (st_pos sb) as [cb|] eqn:Pb'; [|contradiction].
    rewrite Hcl. simpl. unfold finish_call. simpl. rewrite C3, C4, N2, N1. simpl.
    eexists _, _. split; [reflexivity|]. simpl. rewrite C5, C6. destruct K1. auto.
Qed.

(* ---------- the pinned behaviour (before the repair) is refuted *)
Definition P0 : Pos := mkPos 0 0.
Definition P0j : Pos := mkPos 0 1.     (* inside the allclose window of P0 *)
Definition P1 : Pos := mkPos 1 0.

Definition stale (fx : bool) (sd0 : nat) (ops : list Op) (last : Op) : Prop :=
  clean fx (init sd0) ops /\ clean_op (run fx ops (init sd0)) last /\
  exists s' o, step fx (run fx ops (init sd0)) last = (s', RField o) /\ refreshed s' /\
               ~ same_field (RField o) (fresh_result s').

Ltac stale_witness :=
  unfold stale; split; [vm_compute; repeat split; intros; congruence|];
  split; [vm_compute; repeat split; intros; congruence|];
  eexists _, _; split; [vm_compute; reflexivity|]; split; [vm_compute; reflexivity|];
  vm_compute; intros (H & _); discriminate H.

Definition hist_set_condition := [Call (Some (P0, false)) None; SetCond NewVals].
Definition hist_mean := [Call (Some (P0, false)) None; SetMean].
Definition hist_model := [Call (Some (P0, false)) None; SetModel; SetCond Refresh].
Definition hist_inplace_refresh := [Call (Some (P0, false)) None; ModelInplace; SetCond Refresh].

Theorem pinned_refuted_set_condition : stale false 7 hist_set_condition (Call None None).
Proof. stale_witness. Qed.
Theorem pinned_refuted_mean : stale false 7 hist_mean (Call None None).
Proof. stale_witness. Qed.
Theorem pinned_refuted_model : stale false 7 hist_model (Call None (Some 3)).
Proof. stale_witness. Qed.
Theorem pinned_refuted_inplace_refresh : stale false 7 hist_inplace_refresh (Call None None).
Proof. stale_witness. Qed.

(* the same histories on the repaired transition function (regression cases) *)
Lemma repaired_witnesses :
  ~ stale true 7 hist_set_condition (Call None None) /\ ~ stale true 7 hist_mean (Call None None).
Proof.
  split; intros (_ & _ & s' & o & E & _ & N); vm_compute in E; injection E as <- <-; apply N; vm_compute; repeat split.
Qed.

(* ---------- the np.allclose window: a position change below the tolerance keeps the stored results *)
Theorem window_refuted :
  exists s' o, step true (run true [Call (Some (P0, false)) None] (init 7)) (Call (Some (P0j, false)) None) = (s', RField o)
               /\ refreshed s' /\ o_reuse o = true /\ ~ same_field (RField o) (fresh_result s').
Proof.
  eexists _, _. split; [vm_compute; reflexivity|]. split; [vm_compute; reflexivity|]. split; [reflexivity|].
  vm_compute. intros (H & _). discriminate H.
Qed.

(* the hypotheses of cache_coherent are satisfiable, by a history that exercises every operation *)
Example clean_example :
  clean true (init 1) [Call (Some (P0, false)) None; Call None (Some 5); SetCond NewVals; Call (Some (P0, false)) None;
                       SetPos P1 true; ModelInplace; SetCond Refresh; SetModel; SetMean; SetTrend; SetNorm; SetGen 4;
                       Call (Some (P1, true)) (Some 9)].
Proof.
  vm_compute. repeat split; intros c E H;
    first [discriminate E | injection E as <-; first [reflexivity | vm_compute in H; discriminate H]].
Qed.

(* ---------- the hypothesis [refreshed] of cache_coherent: the documented refresh (set_condition, with or without
   arguments) and a model re-assignment always establish it; only an in-place model change can destroy it *)
Theorem refreshed_characterised (s : St) :
  (forall k, refreshed (fst (step true s (SetCond k)))) /\
  refreshed (fst (step true s SetModel)) /\
  (forall op, refreshed s -> op <> ModelInplace -> refreshed (fst (step true s op))).
Proof.
  split; [intros k; reflexivity|]. split; [reflexivity|].
  intros op Hr Hop. destruct op as [p sd|q m|k| | | | | |sd]; try reflexivity; try exact Hr; try contradiction.
  simpl. rewrite do_call_unfold. cbv zeta.
    set (s1 := match sd with Some x => with_seed s x | None => s end).
    assert (R1 : refreshed s1) by (unfold s1; destruct sd; exact Hr).
  destruct p as [[q m]|].
  - pose proof (set_pos_fields s1 q m) as F. destruct (do_set_pos s1 q m) as [s2 del]. simpl in F.
    destruct F as (_ & _ & _ & _ & _ & F6 & F7 & _). unfold finish_call, refreshed. simpl.
    rewrite F6, F7. exact R1.
  - destruct (st_pos s1); [unfold finish_call, refreshed; simpl|]; exact R1.
Qed.
