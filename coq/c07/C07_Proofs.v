(* C07_Proofs.v — the cache state machine: coherence invariant over all histories (current tree: the three repair
   commits), refutation witnesses for the earlier trees and for the np.allclose window, legitimate reuse. *)
From Coq Require Import List Bool Arith Lia ZArith.
From GS Require Import Num Loops C07_Model.
Import ListNotations.
Local Arguments Nat.mul : simpl never.

(* ---------- names *)
Lemma has_add_same n l : has n (add_name n l) = true.
Proof.
  unfold add_name. destruct (has n l) eqn:E; [exact E|].
  unfold has. rewrite existsb_app. simpl. rewrite Nat.eqb_refl. now rewrite orb_true_r.
Qed.
Lemma has_add_mono n m l : has n l = true -> has n (add_name m l) = true.
Proof.
  intros H. unfold add_name. destruct (has m l); [exact H|].
  unfold has in *. rewrite existsb_app, H. reflexivity.
Qed.
Lemma has_add_inv n m l : n <> m -> has n (add_name m l) = has n l.
Proof.
  intros H. unfold add_name. destruct (has m l); [reflexivity|].
  unfold has. rewrite existsb_app. simpl. destruct (Nat.eqb_spec n m); [contradiction|]. now rewrite !orb_false_r.
Qed.

Lemma has_rk_add a b i l : i < 2 -> has (3 * a + 2) (add_name (3 * b + i) l) = has (3 * a + 2) l.
Proof. intros Hi. apply has_add_inv. lia. Qed.
Lemma upd_same {A} (f : nat -> A) n v : upd f n v n = v.
Proof. unfold upd. now rewrite Nat.eqb_refl. Qed.
Lemma upd_other {A} (f : nat -> A) n v k : k <> n -> upd f n v k = f k.
Proof. intros H. unfold upd. destruct (Nat.eqb_spec k n); [contradiction|reflexivity]. Qed.

(* the current tree compares positions exactly: _pos_equal plus equal external drift means the same target *)
Lemma close_eq a b : pos_close repaired a b = true -> p_ext a = p_ext b -> a = b.
Proof.
  destruct a as [ba ja xa], b as [bb jb xb]. unfold pos_close. simpl. intros H E.
  apply andb_true_iff in H. destruct H as [H1 H2]. apply Nat.eqb_eq in H1, H2. now subst.
Qed.

(* the settings part of a descriptor *)
Definition settings (d : KDesc) := (k_cond d, k_matmodel d, k_model d, k_mtn d).

(* ---------- the invariant of the current tree *)
Definition Inv (s : St) : Prop :=
  st_matmodel s < st_next s /\ st_model s < st_next s /\ st_kvid s < st_next s /\
  (forall ns id m rp, st_ref s ns = Some (id, m, rp) -> id < st_next s) /\
  (* the stored kriging variance was computed from the current settings *)
  (refreshed s -> has 1 (st_knames s) = true -> settings (st_kv s) = settings (cur_desc s)) /\
  (* if the stored krige_var is the object remembered with raw_krige, both stem from one kriging run *)
  (forall ns id m rp, has (3 * ns + 2) (st_cnames s) = true -> has 1 (st_knames s) = true ->
     st_ref s ns = Some (id, m, rp) -> st_kvid s = id ->
     st_rk s ns = st_kv s /\ k_pos (st_kv s) = rp /\ k_mesh (st_kv s) = m).

Lemma Inv_init sd : Inv (init sd).
Proof. unfold Inv, init; simpl. repeat split; try lia; try discriminate; intros; discriminate. Qed.

Lemma Inv_with_seed s ob x : Inv s -> Inv (with_seed s ob x).
Proof. intros H. exact H. Qed.

Lemma Inv_with_pos s q : Inv s -> Inv (with_pos s q).
Proof. intros (B1 & B2 & B3 & R & K & T). split; [exact B1|split; [exact B2|split; [exact B3|split; [exact R|split; [exact K|exact T]]]]]. Qed.

Lemma Inv_with_ext s x : Inv s -> Inv (with_ext s x).
Proof. intros H. unfold with_ext. destruct (st_pos s); [now apply Inv_with_pos|exact H]. Qed.

Lemma Inv_set_pos ob s q m : Inv s -> Inv (fst (do_set_pos repaired ob s q m)).
Proof.
  intros (B1 & B2 & B3 & R & K & T). unfold do_set_pos. simpl.
  split; [exact B1|split; [exact B2|split; [exact B3|split; [exact R|]]]].
  destruct (pos_changed repaired s q m); simpl.
  - split; [intros _ E; discriminate E|intros ns id m0 rp _ E; discriminate E].
  - split; [exact K|exact T].
Qed.

Lemma Inv_krige_set_pos s q m : Inv s -> Inv (krige_set_pos repaired s q m).
Proof.
  intros (B1 & B2 & B3 & R & K & T). unfold krige_set_pos.
  split; [exact B1|split; [exact B2|split; [exact B3|split; [exact R|]]]].
  destruct (pos_changed repaired s q m); simpl.
  - split; [intros _ E; discriminate E|intros ns id m0 rp _ E; discriminate E].
  - split; [exact K|exact T].
Qed.

(* what the reuse decision of the current tree guarantees *)
Lemma reuse_current s2 del ns :
  Inv s2 -> refreshed s2 ->
  negb del && has (3 * ns + 2) (st_cnames s2) && has 1 (st_knames s2) && token_ok repaired s2 ns = true ->
  st_rk s2 ns = cur_desc s2 /\ st_kv s2 = cur_desc s2.
Proof.
  intros (B1 & B2 & B3 & R & K & T) Hr E.
  apply andb_true_iff in E. destruct E as [E E4]. apply andb_true_iff in E. destruct E as [E E3].
  apply andb_true_iff in E. destruct E as [_ E2].
  unfold token_ok in E4. change (slot repaired ns) with ns in E4. change (f_exttoken repaired) with true in E4. cbv iota in E4.
  destruct (st_ref s2 ns) as [[[id m] rp]|] eqn:F; [|discriminate].
  apply andb_true_iff in E4. destruct E4 as [E4 E7]. apply andb_true_iff in E4. destruct E4 as [E4 E6].
  apply andb_true_iff in E4. destruct E4 as [E4 E5].
  apply Nat.eqb_eq in E4, E7. apply eqb_prop in E5.
  destruct (T ns id m rp E2 E3 F E4) as (T1 & T2 & T3).
  pose proof (close_eq _ _ E6 E7) as Ep.
  pose proof (K Hr E3) as Ks. unfold settings in Ks. simpl in Ks.
  assert (st_kv s2 = cur_desc s2).
  { destruct (st_kv s2) as [kp km kc kmm kmo kmt]. simpl in *. unfold cur_desc.
    injection Ks as -> -> -> ->. subst. reflexivity. }
  split; congruence.
Qed.

(* the rest of the call on a state satisfying the invariant *)
Lemma finish_ok s2 del srk ns : Inv s2 ->
  let '(s', r) := finish_call repaired s2 del srk ns in
  Inv s' /\ st_pos s' = st_pos s2 /\
  exists o, r = RField o /\ o_gmodel o = st_model s' /\ o_seed o = st_seed s' (obj_of ns) /\ o_post o = st_mtn s' /\
            (refreshed s' -> o_k o = cur_desc s' /\ o_v o = cur_desc s').
Proof.
  intros HI. pose proof HI as (B1 & B2 & B3 & R & K & T). unfold finish_call.
  change (f_token repaired) with true. change (slot repaired ns) with ns. cbv iota zeta.
  set (rn := rkset srk ns).
  set (reuse := negb del && has (3 * rn + 2) (st_cnames s2) && has 1 (st_knames s2) && token_ok repaired s2 rn).
  assert (RC : reuse = true -> refreshed s2 -> st_rk s2 rn = cur_desc s2 /\ st_kv s2 = cur_desc s2).
  { intros E Hr. apply (reuse_current s2 del rn HI Hr E). }
  (* the raw-kriging names of other name sets are not touched by this call *)
  assert (NM : forall a l, has (3 * a + 2) (add_name (3 * ns) (add_name (3 * ns + 1) l)) = has (3 * a + 2) l).
  { intros a l. replace (3 * ns) with (3 * ns + 0) at 1 by lia. rewrite has_rk_add by lia. apply has_rk_add. lia. }
  split; [|split; [reflexivity|]].
  - destruct reuse eqn:E; simpl.
    + (* reuse: only names grow *)
      unfold Inv, refreshed, cur_desc, cur_pos, settings. simpl.
      split; [exact B1|split; [exact B2|split; [exact B3|split; [exact R|split]]]].
      * intros Hr _. apply K; auto. unfold reuse in E. apply andb_true_iff in E. destruct E as [E _].
        apply andb_true_iff in E. apply E.
      * intros a id m rp H2 _ F Eid. rewrite NM in H2. apply (T a id m rp); auto.
        unfold reuse in E. apply andb_true_iff in E. destruct E as [E _]. apply andb_true_iff in E. apply E.
    + destruct srk; simpl.
      * unfold Inv, refreshed, cur_desc, cur_pos, settings. simpl.
        split; [lia|split; [lia|split; [lia|split; [|split]]]].
        { intros a id m rp F. destruct (Nat.eq_dec a ns) as [->|Hne].
          - rewrite upd_same in F. injection F as <- <- <-. lia.
          - rewrite upd_other in F by exact Hne. pose proof (R a id m rp F). lia. }
        { intros _ _. reflexivity. }
        { intros a id m rp _ _ F Eid. destruct (Nat.eq_dec a ns) as [->|Hne].
          - rewrite upd_same in F. rewrite upd_same. injection F as <- <- <-. repeat split.
          - rewrite upd_other in F by exact Hne. pose proof (R a id m rp F). lia. }
      * unfold Inv, refreshed, cur_desc, cur_pos, settings. simpl.
        split; [lia|split; [lia|split; [lia|split; [|split]]]].
        { intros a id m rp F. pose proof (R a id m rp F). lia. }
        { intros _ _. reflexivity. }
        { intros a id m rp _ _ F Eid. pose proof (R a id m rp F). lia. }
  - eexists. split; [reflexivity|]. simpl. split; [reflexivity|split; [reflexivity|split; [reflexivity|]]].
    intros Hr. destruct reuse eqn:E; [|split; reflexivity].
    assert (Hr2 : refreshed s2) by exact Hr.
    destruct (RC eq_refl Hr2) as [A B]. rewrite A, B. split; reflexivity.
Qed.

Definition call_post (ob : nat) (s' : St) (r : Res) : Prop :=
  Inv s' /\
  match r with
  | RField o => o_gmodel o = st_model s' /\ o_seed o = st_seed s' ob /\ o_post o = st_mtn s' /\ st_pos s' <> None /\
                (refreshed s' -> o_k o = cur_desc s' /\ o_v o = cur_desc s')
  | _ => True
  end.

Lemma with_ext_pos s x : st_pos s <> None -> st_pos (with_ext s x) <> None.
Proof. unfold with_ext. destruct (st_pos s) eqn:P; [simpl; discriminate|intros H; rewrite P; exact H]. Qed.

Lemma call_spec s p sd srk ns xd :
  Inv s -> call_post (obj_of ns) (fst (do_call repaired s p sd srk ns xd)) (snd (do_call repaired s p sd srk ns xd)).
Proof.
  intros HI. unfold do_call.
  set (s1 := match sd with Some x => with_seed s (obj_of ns) x | None => s end).
  assert (I1 : Inv s1) by (unfold s1; destruct sd; auto).
  destruct p as [[q m]|].
  - pose proof (Inv_set_pos (obj_of ns) s1 q m I1) as I2.
    assert (F1 : st_pos (fst (do_set_pos repaired (obj_of ns) s1 q m)) <> None) by (simpl; discriminate).
    destruct (do_set_pos repaired (obj_of ns) s1 q m) as [s2 del]. simpl in I2, F1.
    pose proof (finish_ok (with_ext s2 xd) del srk ns (Inv_with_ext s2 xd I2)) as FS.
    pose proof (with_ext_pos s2 xd F1) as F2.
    destruct (finish_call repaired (with_ext s2 xd) del srk ns) as [s' r]. destruct FS as (IS & PS & o & -> & G & SE & PO & KV).
    simpl. split; [exact IS|]. split; [exact G|split; [exact SE|split; [exact PO|split; [rewrite PS; exact F2|exact KV]]]].
  - destruct (st_pos s1) as [c|] eqn:P.
    + pose proof (finish_ok (with_ext s1 xd) false srk ns (Inv_with_ext s1 xd I1)) as FS.
      assert (F2 : st_pos (with_ext s1 xd) <> None) by (apply with_ext_pos; rewrite P; discriminate).
      destruct (finish_call repaired (with_ext s1 xd) false srk ns) as [s' r]. destruct FS as (IS & PS & o & -> & G & SE & PO & KV).
      simpl. split; [exact IS|]. split; [exact G|split; [exact SE|split; [exact PO|split; [rewrite PS; exact F2|exact KV]]]].
    + simpl. split; [exact I1|exact I].
Qed.

Lemma Inv_krige_call s p : Inv s -> Inv (fst (do_krige_call repaired s p)).
Proof.
  intros HI. unfold do_krige_call.
  assert (X : forall s2, Inv s2 ->
              Inv (mkSt (st_pos s2) (st_mesh s2) (st_cnames s2) (add_name 1 (add_name 0 (st_knames s2)))
                        (st_rk s2) (cur_desc s2) (st_cond s2) (st_model s2) (st_matmodel s2) (st_mtn s2)
                        (S (st_next s2)) (st_seed s2) (st_next s2) (st_ref s2))).
  { intros s2 (B1 & B2 & B3 & R & K & T). unfold Inv, refreshed, cur_desc, cur_pos, settings. simpl.
    split; [lia|split; [lia|split; [lia|split; [|split]]]].
    - intros a id m rp F. pose proof (R a id m rp F). lia.
    - intros _ _. reflexivity.
    - intros a id m rp _ _ F Eid. pose proof (R a id m rp F). lia. }
  destruct p as [[q m]|].
  - apply (X (krige_set_pos repaired s q m)). apply Inv_krige_set_pos; exact HI.
  - destruct (st_pos s) eqn:Ps; [apply (X s)|]; exact HI.
Qed.

(* ---------- every operation of the current tree preserves the invariant *)
Lemma Inv_step s op : Inv s -> Inv (fst (step repaired s op)).
Proof.
  intros HI. destruct op as [p sd srk ns xd|ob q m|k| | | | | | | |ob sd|q|p|q]; simpl.
  - apply (call_spec s p sd srk ns xd HI).
  - apply Inv_set_pos; auto.
  - destruct HI as (B1 & B2 & B3 & R & K & T). unfold Inv, do_set_cond, refreshed, settings; simpl.
    repeat split; try lia; try discriminate; auto; try (intros; discriminate);
      try (intros; pose proof (R _ _ _ _ ltac:(eassumption)); lia).
  - destruct HI as (B1 & B2 & B3 & R & K & T). unfold Inv, do_model_inplace, refreshed, settings; simpl.
    repeat split; try lia; auto; try (intros; pose proof (R _ _ _ _ ltac:(eassumption)); lia);
      try (intros; eapply T; eauto; fail).
  - destruct HI as (B1 & B2 & B3 & R & K & T).
    unfold Inv, do_set_model, do_set_cond, do_model_inplace, refreshed, settings; simpl.
    repeat split; try lia; try discriminate; auto; try (intros; discriminate);
      try (intros; pose proof (R _ _ _ _ ltac:(eassumption)); lia).
  - destruct HI as (B1 & B2 & B3 & R & K & T). unfold Inv, do_set_mtn, refreshed, settings; simpl.
    repeat split; try lia; try discriminate; auto; try (intros; discriminate);
      try (intros; pose proof (R _ _ _ _ ltac:(eassumption)); lia).
  - destruct HI as (B1 & B2 & B3 & R & K & T). unfold Inv, do_set_mtn, refreshed, settings; simpl.
    repeat split; try lia; try discriminate; auto; try (intros; discriminate);
      try (intros; pose proof (R _ _ _ _ ltac:(eassumption)); lia).
  - destruct HI as (B1 & B2 & B3 & R & K & T). unfold Inv, do_set_mtn, refreshed, settings; simpl.
    repeat split; try lia; try discriminate; auto; try (intros; discriminate);
      try (intros; pose proof (R _ _ _ _ ltac:(eassumption)); lia).
  - (* ReassignModel = set_condition() *)
    destruct HI as (B1 & B2 & B3 & R & K & T). unfold Inv, do_set_cond, refreshed, settings; simpl.
    repeat split; try lia; try discriminate; auto; try (intros; discriminate);
      try (intros; pose proof (R _ _ _ _ ltac:(eassumption)); lia).
  - exact HI.
  - exact HI.
  - exact HI.
  - apply Inv_krige_call; auto.
  - apply Inv_with_pos; auto.
Qed.

Lemma Inv_run ops : forall s, Inv s -> Inv (run repaired ops s).
Proof.
  induction ops as [|op r IH]; intros s HI; simpl in *; [exact HI|].
  apply IH. apply Inv_step; auto.
Qed.

(* ---------- what a freshly built object returns *)
Lemma obj_of_key ob : obj_of (4 * ob) = ob.
Proof. unfold obj_of. rewrite Nat.mul_comm. apply Nat.div_mul. discriminate. Qed.

Lemma fresh_result_eq s ob :
  fresh_result s ob =
  let d := mkKDesc (cur_pos s) (st_mesh s) (st_cond s) (st_model s) (st_model s) (st_mtn s) in
  RField (mkOut false d d (st_model s) (st_seed s ob) (st_mtn s)).
Proof.
  unfold fresh_result, step, do_call, fresh_of, do_set_pos, pos_changed, finish_call, with_ext, with_pos, set_ext.
  cbn [st_pos st_mesh st_cnames st_knames fst snd]. rewrite orb_true_r. cbn [negb andb].
  rewrite obj_of_key. simpl. destruct (cur_pos s); reflexivity.
Qed.

(* ---------- cache coherence over all histories: NO side condition on the positions any more *)
Theorem cache_coherent sd0 ops p sd srk ns xd :
  let s := run repaired ops (init sd0) in
  forall s' o, step repaired s (Call p sd srk ns xd) = (s', RField o) -> refreshed s' ->
  same_field (RField o) (fresh_result s' (obj_of ns)).
Proof.
  intros s s' o E Hr.
  assert (HI : Inv s) by (apply Inv_run; apply Inv_init).
  pose proof (call_spec s p sd srk ns xd HI) as C. simpl in E. rewrite E in C. simpl in C.
  destruct C as (_ & G & SE & PO & _ & KV). destruct (KV Hr) as [K V].
  rewrite fresh_result_eq. simpl. unfold refreshed in Hr.
  rewrite K, V, G, SE, PO. unfold cur_desc. rewrite Hr. repeat split.
Qed.

(* whenever the reuse branch is taken in a refreshed state, the stored results are the current ones *)
Theorem reuse_only_current sd0 ops p sd srk ns xd :
  let s := run repaired ops (init sd0) in
  forall s' o, step repaired s (Call p sd srk ns xd) = (s', RField o) -> refreshed s' -> o_reuse o = true ->
  o_k o = cur_desc s' /\ o_v o = cur_desc s'.
Proof.
  intros s s' o E Hr _.
  assert (HI : Inv s) by (apply Inv_run; apply Inv_init).
  pose proof (call_spec s p sd srk ns xd HI) as C. simpl in E. rewrite E in C. simpl in C.
  destruct C as (_ & _ & _ & _ & _ & KV). exact (KV Hr).
Qed.

(* ---------- legitimate reuse: same position (or none given), any new seed, on every version of the tree *)
Lemma pos_close_refl fx a : pos_close fx a a = true.
Proof. unfold pos_close. rewrite Nat.eqb_refl. destruct (f_exactpos fx); [apply Nat.eqb_refl|reflexivity]. Qed.
Lemma pos_close_trans fx a b c : pos_close fx a b = true -> pos_close fx a c = true -> pos_close fx c b = true.
Proof.
  unfold pos_close. intros H1 H2. apply andb_true_iff in H1, H2. destruct H1 as [A1 A2], H2 as [B1 B2].
  apply Nat.eqb_eq in A1, B1. apply andb_true_iff. split; [apply Nat.eqb_eq; congruence|].
  destruct (f_exactpos fx); [|reflexivity]. apply Nat.eqb_eq in A2, B2. apply Nat.eqb_eq. congruence.
Qed.

Lemma token_ok_ext fx ns s t : st_pos s = st_pos t -> st_mesh s = st_mesh t -> st_kvid s = st_kvid t -> st_ref s = st_ref t ->
  token_ok fx s ns = token_ok fx t ns.
Proof. intros A B C D. unfold token_ok, cur_pos. now rewrite A, B, C, D. Qed.

Lemma finish_facts fx sb del ns :
  let s1 := fst (finish_call fx sb del true ns) in
  has (3 * ns + 2) (st_cnames s1) = true /\ has 1 (st_knames s1) = true /\
  (if f_token fx then token_ok fx s1 ns else true) = true /\
  st_pos s1 = st_pos sb /\ st_mesh s1 = st_mesh sb /\
  exists o, snd (finish_call fx sb del true ns) = RField o /\ st_rk s1 ns = o_k o /\ st_kv s1 = o_v o.
Proof.
  unfold finish_call. change (rkset true ns) with ns. cbn [fst snd st_cnames st_knames st_pos st_mesh st_rk st_kv].
  set (reuse := negb del && has (3 * ns + 2) (st_cnames sb) && has 1 (st_knames sb) && (if f_token fx then token_ok fx sb ns else true)).
  destruct reuse eqn:E.
  - unfold reuse in E. apply andb_true_iff in E. destruct E as [E E4]. apply andb_true_iff in E. destruct E as [E E3].
    apply andb_true_iff in E. destruct E as [_ E2]. simpl.
    split; [do 2 apply has_add_mono; exact E2|]. split; [apply has_add_mono; exact E3|].
    split; [|split; [reflexivity|split; [reflexivity|eexists; split; [reflexivity|split; reflexivity]]]].
    destruct (f_token fx); [|reflexivity]. rewrite <- E4. apply token_ok_ext; reflexivity.
  - simpl.
    split; [do 2 apply has_add_mono; apply has_add_same|]. split; [apply has_add_mono; apply has_add_same|].
    split; [|split; [reflexivity|split; [reflexivity|eexists; split; [reflexivity|split; [apply upd_same|reflexivity]]]]].
    destruct (f_token fx); [|reflexivity]. unfold token_ok, cur_pos. simpl. rewrite upd_same.
    rewrite Nat.eqb_refl, eqb_reflx, pos_close_refl. simpl. destruct (f_exttoken fx); [apply Nat.eqb_refl|reflexivity].
Qed.

Lemma finish_reuse fx st srk ns : rkset srk ns = ns ->
  has (3 * ns + 2) (st_cnames st) = true -> has 1 (st_knames st) = true -> (if f_token fx then token_ok fx st ns else true) = true ->
  exists s2 o2, finish_call fx st false srk ns = (s2, RField o2) /\ o_reuse o2 = true /\ o_k o2 = st_rk st ns /\ o_v o2 = st_kv st.
Proof.
  intros HR H2 H1 HT. unfold finish_call. rewrite HR. rewrite H2, H1, HT. simpl. eexists _, _. split; [reflexivity|]. simpl. auto.
Qed.

Lemma with_ext_id s x q : st_pos s = Some q -> p_ext q = x -> with_ext s x = s.
Proof. destruct s, q. simpl. intros E <-. unfold with_ext, with_pos, set_ext. simpl. rewrite E. simpl. now rewrite <- E. Qed.

Lemma with_ext_some s x : st_pos s <> None -> exists q, st_pos (with_ext s x) = Some q /\ p_ext q = x.
Proof.
  unfold with_ext. destruct (st_pos s) as [q|] eqn:P; [|contradiction]. intros _. exists (set_ext q x). split; reflexivity.
Qed.

Theorem reuse_when_unchanged fx s p sd ns xd s1 o1 :
  step fx s (Call p sd true ns xd) = (s1, RField o1) ->
  forall q sd2 srk, rkset srk ns = ns ->
  (q = None \/ exists c, q = Some (c, st_mesh s1) /\ pos_close fx (cur_pos s1) c = true) ->
  exists s2 o2, step fx s1 (Call q sd2 srk ns xd) = (s2, RField o2) /\ o_reuse o2 = true /\ o_k o2 = o_k o1 /\ o_v o2 = o_v o1.
Proof.
  simpl. unfold do_call at 1.
  set (sa := match sd with Some x => with_seed s (obj_of ns) x | None => s end).
  intros E q sd2 srk HR Hq.
  assert (X : exists sb del, finish_call fx sb del true ns = (s1, RField o1) /\ exists qb, st_pos sb = Some qb /\ p_ext qb = xd).
  { destruct p as [[c m]|].
    - assert (F1 : st_pos (fst (do_set_pos fx (obj_of ns) sa c m)) <> None) by (simpl; discriminate).
      destruct (do_set_pos fx (obj_of ns) sa c m) as [sb del]. simpl in F1.
      exists (with_ext sb xd), del. split; [exact E|]. apply with_ext_some; exact F1.
    - destruct (st_pos sa) eqn:P; [|discriminate]. exists (with_ext sa xd), false. split; [exact E|].
      apply with_ext_some. rewrite P. discriminate. }
  destruct X as (sb & del & F & qb & Pb & Xb).
  pose proof (finish_facts fx sb del ns) as N. rewrite F in N. cbn [fst snd] in N.
  destruct N as (N2 & N1 & TK & P1 & M1 & o & Eo & K1 & K2). injection Eo as <-.
  rewrite <- K1, <- K2. rewrite Pb in P1.
  unfold do_call.
  set (sc := match sd2 with Some x => with_seed s1 (obj_of ns) x | None => s1 end).
  assert (C : st_pos sc = st_pos s1 /\ st_mesh sc = st_mesh s1 /\ st_cnames sc = st_cnames s1 /\
              st_knames sc = st_knames s1 /\ st_rk sc = st_rk s1 /\ st_kv sc = st_kv s1 /\
              st_kvid sc = st_kvid s1 /\ st_ref sc = st_ref s1)
    by (unfold sc; destruct sd2; simpl; repeat split).
  destruct C as (C1 & C2 & C3 & C4 & C5 & C6 & C7 & C8).
  destruct Hq as [->|(c & -> & Hcl)].
  - rewrite C1, P1. rewrite (with_ext_id sc xd qb) by (try rewrite C1; assumption).
    rewrite <- C5, <- C6. apply finish_reuse; [exact HR|now rewrite C3|now rewrite C4|].
    destruct (f_token fx); [|reflexivity]. rewrite <- TK. apply token_ok_ext; auto.
  - assert (D : pos_changed fx sc c (st_mesh s1) = false).
    { unfold pos_changed. rewrite C1, C2, eqb_reflx. unfold cur_pos in Hcl. rewrite P1 in *. now rewrite Hcl. }
    unfold do_set_pos. rewrite D.
    match goal with |- context [finish_call fx (with_ext ?st xd) false srk ns] => set (sd_ := st) end.
    rewrite <- C5, <- C6. change (st_rk sc) with (st_rk (with_ext sd_ xd)). change (st_kv sc) with (st_kv (with_ext sd_ xd)).
    apply finish_reuse; [exact HR|simpl; now rewrite C3|simpl; now rewrite C4|].
    destruct (f_token fx); [|reflexivity]. unfold token_ok, cur_pos in *. simpl. rewrite C7, C8.
    rewrite P1 in TK. destruct (st_ref s1 (slot fx ns)) as [[[id m] rp]|]; [|discriminate].
    apply andb_true_iff in TK. destruct TK as [TK T4]. apply andb_true_iff in TK. destruct TK as [TK T3].
    rewrite TK. simpl. rewrite Xb in T4.
    rewrite P1 in Hcl.
    assert (PC : pos_close fx (set_ext c xd) rp = true).
    { pose proof (pos_close_trans fx qb rp c T3 Hcl) as H. unfold pos_close in *. simpl. exact H. }
    rewrite PC. exact T4.
Qed.

(* ---------- the hypothesis [refreshed] of cache_coherent: the documented refresh (set_condition, with or without
   arguments) and a model re-assignment always establish it; only an in-place model change can destroy it *)
Lemma finish_refreshed fx s2 del srk ns : refreshed s2 -> refreshed (fst (finish_call fx s2 del srk ns)).
Proof. intros H. exact H. Qed.

Theorem refreshed_characterised (s : St) :
  (forall k, refreshed (fst (step repaired s (SetCond k)))) /\
  refreshed (fst (step repaired s SetModel)) /\
  refreshed (fst (step repaired s ReassignModel)) /\
  (forall op, refreshed s -> op <> ModelInplace -> refreshed (fst (step repaired s op))).
Proof.
  split; [intros k; reflexivity|]. split; [reflexivity|]. split; [reflexivity|].
  assert (WE : forall t x, refreshed t -> refreshed (with_ext t x)).
  { intros t x H. unfold with_ext. destruct (st_pos t); exact H. }
  intros op Hr Hop. destruct op as [p sd srk ns xd|ob q m|k| | | | | | | |ob sd|q|p|q]; try reflexivity; try exact Hr; try contradiction.
  - simpl. unfold do_call.
    set (s1 := match sd with Some x => with_seed s (obj_of ns) x | None => s end).
    assert (R1 : refreshed s1) by (unfold s1; destruct sd; exact Hr).
    destruct p as [[q m]|].
    + assert (R2 : refreshed (fst (do_set_pos repaired (obj_of ns) s1 q m))) by exact R1.
      destruct (do_set_pos repaired (obj_of ns) s1 q m) as [s2 del]. apply finish_refreshed. apply WE. exact R2.
    + destruct (st_pos s1); [apply finish_refreshed; apply WE|]; exact R1.
  - simpl. unfold do_krige_call. destruct p as [[q m]|]; [exact Hr|]. destruct (st_pos s); exact Hr.
Qed.

(* ---------- earlier versions of the tree are refuted *)
Definition P0 : Pos := mkPos 0 0 0.
Definition P0j : Pos := mkPos 0 1 0.     (* inside the np.allclose window of P0 *)
Definition P1 : Pos := mkPos 1 0 0.

Definition op_obj (op : Op) : nat := match op with Call _ _ _ ns _ => obj_of ns | _ => 0 end.
Definition stale (fx : Fix) (sd0 : nat) (ops : list Op) (last : Op) : Prop :=
  exists s' o, step fx (run fx ops (init sd0)) last = (s', RField o) /\ refreshed s' /\
               ~ same_field (RField o) (fresh_result s' (op_obj last)).

Ltac stale_witness :=
  unfold stale; eexists _, _; split; [vm_compute; reflexivity|]; split; [vm_compute; reflexivity|];
  vm_compute; intros (H & _); discriminate H.

Definition c0 : Op := Call (Some (P0, false)) None true 0 0.
Definition cn : Op := Call None None true 0 0.
Definition hist_set_condition := [c0; SetCond NewVals].
Definition hist_mean := [c0; SetMean].
Definition hist_model := [c0; SetModel; SetCond Refresh].
Definition hist_inplace_refresh := [c0; ModelInplace; SetCond Refresh].

(* the pinned tree (before 2a36b2f) *)
Theorem pinned_refuted_set_condition : stale pinned 7 hist_set_condition cn.
Proof. stale_witness. Qed.
Theorem pinned_refuted_mean : stale pinned 7 hist_mean cn.
Proof. stale_witness. Qed.
Theorem pinned_refuted_model : stale pinned 7 hist_model (Call None (Some 3) true 0 0).
Proof. stale_witness. Qed.
Theorem pinned_refuted_inplace_refresh : stale pinned 7 hist_inplace_refresh cn.
Proof. stale_witness. Qed.

(* the tree after 2a36b2f only: aliased positions, direct kriging call, pos assignment, raw_krige not stored *)
Definition hist_mutate := [c0; MutatePos P1].
Definition hist_direct_krige := [c0; KrigeCall (Some (P1, false))].
Definition hist_assign_pos := [c0; AssignPos P1].
Definition hist_no_store := [c0; SetCond NewVals; Call None None false 0 0].

Theorem first_repair_refuted_mutate_pos : stale first_repair 7 hist_mutate (Call (Some (P1, false)) None true 0 0).
Proof. stale_witness. Qed.
Theorem first_repair_refuted_direct_krige : stale first_repair 7 hist_direct_krige cn.
Proof. stale_witness. Qed.
Theorem first_repair_refuted_assign_pos : stale first_repair 7 hist_assign_pos cn.
Proof. stale_witness. Qed.
Theorem first_repair_refuted_no_store : stale first_repair 7 hist_no_store cn.
Proof. stale_witness. Qed.

(* one reference slot shared by all store names (instead of one per raw-kriging name): a call under other names
   makes the stale default-named raw kriging field look current *)
Definition hist_other_names := [c0; SetCond NewVals; Call None None true 1 0].
Theorem shared_ref_refuted : stale shared_ref 7 hist_other_names cn.
Proof. stale_witness. Qed.

(* conditioning arrays kept as views: the caller's in-place edit changes the data behind the stored results *)
Theorem aliased_cond_refuted : stale aliased_cond 7 [c0; MutateCond] cn.
Proof. stale_witness. Qed.

(* _pos_equal with np.allclose: a position change below the tolerance keeps the stored results *)
Theorem allclose_pos_refuted : stale allclose_pos 7 [c0] (Call (Some (P0j, false)) None true 0 0).
Proof. stale_witness. Qed.

(* reuse test that ignores the external drift given with the call *)
Theorem no_ext_token_refuted : stale no_ext_token 7 [Call (Some (P0, false)) None true 0 1] (Call None None true 0 2).
Proof. stale_witness. Qed.

(* the reference dict shared by all CondSRF objects (class attribute): two objects A (keys 0..3) and B (keys 4..7) on
   one Krige; after new conditions A recalculates and stores the new krige_var object in the shared dict, then B's
   identity test succeeds and B reuses its own stale raw kriging field *)
Theorem class_level_ref_refuted :
  stale class_level_ref 7 [c0; Call None None true 4 0; SetCond NewVals; cn] (Call None None true 4 0).
Proof. stale_witness. Qed.
Example two_objects_current_tree :
  exists s' o, step repaired (run repaired [c0; Call None None true 4 0; SetCond NewVals; cn] (init 7)) (Call None None true 4 0)
               = (s', RField o) /\ o_reuse o = false.
Proof. eexists _, _. split; [vm_compute; reflexivity|reflexivity]. Qed.

(* in-place model edit followed by re-assignment of the same object: up to date again, the old results are gone *)
Example reassign_same_model_refreshes :
  let s := run repaired [c0; ModelInplace; ReassignModel] (init 7) in
  refreshed s /\ exists s' o, step repaired s cn = (s', RField o) /\ o_reuse o = false.
Proof. split; [reflexivity|]. eexists _, _. split; [vm_compute; reflexivity|reflexivity]. Qed.

(* on the current tree the two histories above are coherent (instances of cache_coherent, shown by computation) *)
Example current_tree_recomputes :
  (exists s' o, step repaired (run repaired [c0] (init 7)) (Call (Some (P0j, false)) None true 0 0) = (s', RField o) /\ o_reuse o = false) /\
  (exists s' o, step repaired (run repaired [Call (Some (P0, false)) None true 0 1] (init 7)) (Call None None true 0 2) = (s', RField o)
                /\ o_reuse o = false).
Proof. split; eexists _, _; (split; [vm_compute; reflexivity|reflexivity]). Qed.
