(* C07_Proofs.v — the cache state machine: coherence invariant over all histories (current tree: the three repair
   commits), refutation witnesses for the earlier trees and for the np.allclose window, legitimate reuse. *)
From Coq Require Import List Bool Arith Lia ZArith.
From GS Require Import Num Loops C07_Model.
Import ListNotations.
Local Arguments Nat.mul : simpl never.

(* ---------- names *)
Lemma has_add_same n l : has n (add_name n l) = true.
Proof.
  unfold add_name. destruct (has n l) eqn:E; [exact E|].
  unfold has. rewrite existsb_app. simpl. rewrite Nat.eqb_refl. now rewrite orb_true_r.
Qed.
Lemma has_add_mono n m l : has n l = true -> has n (add_name m l) = true.
Proof.
  intros H. unfold add_name. destruct (has m l); [exact H|].
  unfold has in *. rewrite existsb_app, H. reflexivity.
Qed.
Lemma has_add_inv n m l : n <> m -> has n (add_name m l) = has n l.
Proof.
  intros H. unfold add_name. destruct (has m l); [reflexivity|].
  unfold has. rewrite existsb_app. simpl. destruct (Nat.eqb_spec n m); [contradiction|]. now rewrite !orb_false_r.
Qed.

Lemma has_rk_add a b i l : i < 2 -> has (3 * a + 2) (add_name (3 * b + i) l) = has (3 * a + 2) l.
Proof. intros Hi. apply has_add_inv. lia. Qed.
Lemma upd_same {A} (f : nat -> A) n v : upd f n v n = v.
Proof. unfold upd. now rewrite Nat.eqb_refl. Qed.
Lemma upd_other {A} (f : nat -> A) n v k : k <> n -> upd f n v k = f k.
Proof. intros H. unfold upd. destruct (Nat.eqb_spec k n); [contradiction|reflexivity]. Qed.

(* positions with jit 0: _pos_equal means identical *)
Lemma close_eq a b : p_jit a = 0 -> p_jit b = 0 -> pos_close a b = true -> a = b.
Proof.
  destruct a as [ba ja], b as [bb jb]. unfold pos_close. simpl. intros -> -> H.
  apply Nat.eqb_eq in H. now subst.
Qed.

(* the settings part of a descriptor *)
Definition settings (d : KDesc) := (k_cond d, k_matmodel d, k_model d, k_mtn d).

(* ---------- the invariant of the current tree *)
Definition Inv (s : St) : Prop :=
  st_matmodel s < st_next s /\ st_model s < st_next s /\ st_kvid s < st_next s /\
  (forall ns id m rp, st_ref s ns = Some (id, m, rp) -> id < st_next s /\ p_jit rp = 0) /\
  (forall q, st_pos s = Some q -> p_jit q = 0) /\
  p_jit (k_pos (st_kv s)) = 0 /\
  (* the stored kriging variance was computed from the current settings *)
  (refreshed s -> has 1 (st_knames s) = true -> settings (st_kv s) = settings (cur_desc s)) /\
  (* if the stored krige_var is the object remembered with raw_krige, both stem from one kriging run *)
  (forall ns id m rp, has (3 * ns + 2) (st_cnames s) = true -> has 1 (st_knames s) = true ->
     st_ref s ns = Some (id, m, rp) -> st_kvid s = id ->
     st_rk s ns = st_kv s /\ k_pos (st_kv s) = rp /\ k_mesh (st_kv s) = m).

Lemma Inv_init sd : Inv (init sd).
Proof. unfold Inv, init; simpl. repeat split; try lia; try discriminate; intros; discriminate. Qed.

Ltac inv_tac :=
  repeat match goal with
         | |- _ /\ _ => split
         | |- forall _, _ => intro
         end; simpl in *; try lia; try discriminate; try congruence; eauto.

Lemma Inv_with_seed s x : Inv s -> Inv (with_seed s x).
Proof. intros H. exact H. Qed.

Lemma Inv_with_pos s q : p_jit q = 0 -> Inv s -> Inv (with_pos s q).
Proof.
  intros Hq (B1 & B2 & B3 & R & P & J & K & T).
  split; [exact B1|split; [exact B2|split; [exact B3|split; [exact R|split; [|split; [exact J|split; [exact K|exact T]]]]]]].
  intros q0 E. simpl in E. injection E as <-. exact Hq.
Qed.

Lemma Inv_set_pos s q m : p_jit q = 0 -> Inv s -> Inv (fst (do_set_pos s q m)).
Proof.
  intros Hq (B1 & B2 & B3 & R & P & J & K & T). unfold do_set_pos. simpl.
  split; [exact B1|split; [exact B2|split; [exact B3|split; [exact R|split; [|split; [exact J|]]]]]].
  - intros q0 E. simpl in E. injection E as <-. exact Hq.
  - destruct (pos_changed s q m); simpl.
    + split; [intros _ E; discriminate E|intros ns id m0 rp E; discriminate E].
    + split; [exact K|exact T].
Qed.

Lemma Inv_krige_set_pos s q m : p_jit q = 0 -> Inv s -> Inv (krige_set_pos s q m).
Proof.
  intros Hq (B1 & B2 & B3 & R & P & J & K & T). unfold krige_set_pos.
  split; [exact B1|split; [exact B2|split; [exact B3|split; [exact R|split; [|split; [exact J|]]]]]].
  - intros q0 E. simpl in E. injection E as <-. exact Hq.
  - destruct (pos_changed s q m); simpl.
    + split; [intros _ E; discriminate E|intros ns id m0 rp _ E; discriminate E].
    + split; [exact K|exact T].
Qed.

(* what the reuse decision of the current tree guarantees *)
Lemma reuse_current s2 del ns :
  Inv s2 -> refreshed s2 ->
  negb del && has (3 * ns + 2) (st_cnames s2) && has 1 (st_knames s2) && token_ok repaired s2 ns = true ->
  st_rk s2 ns = cur_desc s2 /\ st_kv s2 = cur_desc s2.
Proof.
  intros (B1 & B2 & B3 & R & P & J & K & T) Hr E.
  apply andb_true_iff in E. destruct E as [E E4]. apply andb_true_iff in E. destruct E as [E E3].
  apply andb_true_iff in E. destruct E as [_ E2].
  unfold token_ok in E4. change (slot repaired ns) with ns in E4.
  destruct (st_ref s2 ns) as [[[id m] rp]|] eqn:F; [|discriminate].
  apply andb_true_iff in E4. destruct E4 as [E4 E6]. apply andb_true_iff in E4. destruct E4 as [E4 E5].
  apply Nat.eqb_eq in E4. apply eqb_prop in E5.
  destruct (T ns id m rp E2 E3 F E4) as (T1 & T2 & T3).
  destruct (R ns id m rp F) as [_ Jr].
  assert (Jc : p_jit (cur_pos s2) = 0).
  { unfold cur_pos. destruct (st_pos s2) eqn:Ps; [now apply P|reflexivity]. }
  pose proof (close_eq _ _ Jc Jr E6) as Ep.
  pose proof (K Hr E3) as Ks. unfold settings in Ks. simpl in Ks.
  assert (st_kv s2 = cur_desc s2).
  { destruct (st_kv s2) as [kp km kc kmm kmo kmt]. simpl in *. unfold cur_desc.
    injection Ks as -> -> -> ->. subst. reflexivity. }
  split; congruence.
Qed.

(* the rest of the call on a state satisfying the invariant *)
Lemma finish_ok s2 del srk ns : Inv s2 ->
  let '(s', r) := finish_call repaired s2 del srk ns in
  Inv s' /\ st_pos s' = st_pos s2 /\
  exists o, r = RField o /\ o_gmodel o = st_model s' /\ o_seed o = st_seed s' /\ o_post o = st_mtn s' /\
            (refreshed s' -> o_k o = cur_desc s' /\ o_v o = cur_desc s').
Proof.
  intros HI. pose proof HI as (B1 & B2 & B3 & R & P & J & K & T). unfold finish_call.
  change (f_token repaired) with true. change (slot repaired ns) with ns. cbv iota zeta.
  set (rn := rkset srk ns).
  set (reuse := negb del && has (3 * rn + 2) (st_cnames s2) && has 1 (st_knames s2) && token_ok repaired s2 rn).
  assert (RC : reuse = true -> refreshed s2 -> st_rk s2 rn = cur_desc s2 /\ st_kv s2 = cur_desc s2).
  { intros E Hr. apply (reuse_current s2 del rn HI Hr E). }
  assert (Jc : p_jit (cur_pos s2) = 0).
  { unfold cur_pos. destruct (st_pos s2) eqn:Ps; [now apply P|reflexivity]. }
  (* the raw-kriging names of other name sets are not touched by this call *)
  assert (NM : forall a l, has (3 * a + 2) (add_name (3 * ns) (add_name (3 * ns + 1) l)) = has (3 * a + 2) l).
  { intros a l. replace (3 * ns) with (3 * ns + 0) at 1 by lia. rewrite has_rk_add by lia. apply has_rk_add. lia. }
  split; [|split; [reflexivity|]].
  - destruct reuse eqn:E; simpl.
    + (* reuse: only names grow *)
      unfold Inv, refreshed, cur_desc, cur_pos, settings. simpl.
      split; [exact B1|split; [exact B2|split; [exact B3|split; [exact R|split; [exact P|split; [exact J|split]]]]]].
      * intros Hr _. apply K; auto. unfold reuse in E. apply andb_true_iff in E. destruct E as [E _].
        apply andb_true_iff in E. apply E.
      * intros a id m rp H2 _ F Eid. rewrite NM in H2. apply (T a id m rp); auto.
        unfold reuse in E. apply andb_true_iff in E. destruct E as [E _]. apply andb_true_iff in E. apply E.
    + destruct srk; simpl.
      * unfold Inv, refreshed, cur_desc, cur_pos, settings. simpl.
        split; [lia|split; [lia|split; [lia|split; [|split; [exact P|split; [exact Jc|split]]]]]].
        { intros a id m rp F. destruct (Nat.eq_dec a ns) as [->|Hne].
          - rewrite upd_same in F. injection F as <- <- <-. split; [lia|exact Jc].
          - rewrite upd_other in F by exact Hne. destruct (R a id m rp F). split; [lia|assumption]. }
        { intros _ _. reflexivity. }
        { intros a id m rp _ _ F Eid. destruct (Nat.eq_dec a ns) as [->|Hne].
          - rewrite upd_same in F. rewrite upd_same. injection F as <- <- <-. repeat split.
          - rewrite upd_other in F by exact Hne. destruct (R a id m rp F). lia. }
      * unfold Inv, refreshed, cur_desc, cur_pos, settings. simpl.
        split; [lia|split; [lia|split; [lia|split; [|split; [exact P|split; [exact Jc|split]]]]]].
        { intros a id m rp F. destruct (R a id m rp F). split; [lia|assumption]. }
        { intros _ _. reflexivity. }
        { intros a id m rp _ _ F Eid. destruct (R a id m rp F). lia. }
  - eexists. split; [reflexivity|]. simpl. split; [reflexivity|split; [reflexivity|split; [reflexivity|]]].
    intros Hr. destruct reuse eqn:E; [|split; reflexivity].
    assert (Hr2 : refreshed s2) by exact Hr.
    destruct (RC eq_refl Hr2) as [A B]. rewrite A, B. split; reflexivity.
Qed.

Definition call_post (s' : St) (r : Res) : Prop :=
  Inv s' /\
  match r with
  | RField o => o_gmodel o = st_model s' /\ o_seed o = st_seed s' /\ o_post o = st_mtn s' /\ st_pos s' <> None /\
                (refreshed s' -> o_k o = cur_desc s' /\ o_v o = cur_desc s')
  | _ => True
  end.

Lemma call_spec s p sd srk ns :
  Inv s -> clean_op (Call p sd srk ns) ->
  call_post (fst (do_call repaired s p sd srk ns)) (snd (do_call repaired s p sd srk ns)).
Proof.
  intros HI Hc. unfold do_call.
  set (s1 := match sd with Some x => with_seed s x | None => s end).
  assert (I1 : Inv s1) by (unfold s1; destruct sd; auto).
  destruct p as [[q m]|].
  - assert (Hq : p_jit q = 0) by exact Hc.
    pose proof (Inv_set_pos s1 q m Hq I1) as I2.
    assert (F1 : st_pos (fst (do_set_pos s1 q m)) = Some q) by reflexivity.
    destruct (do_set_pos s1 q m) as [s2 del]. simpl in I2, F1.
    pose proof (finish_ok s2 del srk ns I2) as FS.
    destruct (finish_call repaired s2 del srk ns) as [s' r]. destruct FS as (IS & PS & o & -> & G & SE & PO & KV).
    simpl. split; [exact IS|]. split; [exact G|split; [exact SE|split; [exact PO|split; [rewrite PS, F1; discriminate|exact KV]]]].
  - destruct (st_pos s1) as [c|] eqn:P.
    + pose proof (finish_ok s1 false srk ns I1) as FS.
      destruct (finish_call repaired s1 false srk ns) as [s' r]. destruct FS as (IS & PS & o & -> & G & SE & PO & KV).
      simpl. split; [exact IS|]. split; [exact G|split; [exact SE|split; [exact PO|split; [rewrite PS, P; discriminate|exact KV]]]].
    + simpl. split; [exact I1|exact I].
Qed.

Lemma Inv_krige_call s p : Inv s -> clean_op (KrigeCall p) -> Inv (fst (do_krige_call s p)).
Proof.
  intros HI Hc. unfold do_krige_call.
  assert (X : forall s2, Inv s2 ->
              Inv (mkSt (st_pos s2) (st_mesh s2) (st_cnames s2) (add_name 1 (add_name 0 (st_knames s2)))
                        (st_rk s2) (cur_desc s2) (st_cond s2) (st_model s2) (st_matmodel s2) (st_mtn s2)
                        (S (st_next s2)) (st_seed s2) (st_next s2) (st_ref s2))).
  { intros s2 (B1 & B2 & B3 & R & P & J & K & T). unfold Inv, refreshed, cur_desc, cur_pos, settings. simpl.
    split; [lia|split; [lia|split; [lia|split; [|split; [exact P|split; [|split]]]]]].
    - intros a id m rp F. destruct (R a id m rp F). split; [lia|assumption].
    - destruct (st_pos s2) eqn:Ps; [now apply P|reflexivity].
    - intros _ _. reflexivity.
    - intros a id m rp _ _ F Eid. destruct (R a id m rp F). lia. }
  destruct p as [[q m]|].
  - apply (X (krige_set_pos s q m)). apply Inv_krige_set_pos; [exact Hc|exact HI].
  - destruct (st_pos s) eqn:Ps; [apply (X s)|]; exact HI.
Qed.

(* ---------- every operation of the current tree preserves the invariant *)
Lemma Inv_step s op : Inv s -> clean_op op -> Inv (fst (step repaired s op)).
Proof.
  intros HI Hc. destruct op as [p sd srk ns|q m|k| | | | | | | |sd|q|p|q]; simpl.
  - apply (call_spec s p sd srk ns HI Hc).
  - apply Inv_set_pos; auto.
  - destruct HI as (B1 & B2 & B3 & R & P & J & K & T). unfold Inv, do_set_cond, refreshed, settings; simpl.
    repeat split; try lia; try discriminate; auto; try (intros; discriminate);
      try (destruct (R _ _ _ _ ltac:(eassumption)); try lia; assumption).
  - destruct HI as (B1 & B2 & B3 & R & P & J & K & T). unfold Inv, do_model_inplace, refreshed, settings; simpl.
    repeat split; try lia; auto; try (destruct (R _ _ _ _ ltac:(eassumption)); try lia; assumption);
      try (intros; eapply T; eauto; fail).
  - destruct HI as (B1 & B2 & B3 & R & P & J & K & T).
    unfold Inv, do_set_model, do_set_cond, do_model_inplace, refreshed, settings; simpl.
    repeat split; try lia; try discriminate; auto; try (intros; discriminate);
      try (destruct (R _ _ _ _ ltac:(eassumption)); try lia; assumption).
  - destruct HI as (B1 & B2 & B3 & R & P & J & K & T). unfold Inv, do_set_mtn, refreshed, settings; simpl.
    repeat split; try lia; try discriminate; auto; try (intros; discriminate);
      try (destruct (R _ _ _ _ ltac:(eassumption)); try lia; assumption).
  - destruct HI as (B1 & B2 & B3 & R & P & J & K & T). unfold Inv, do_set_mtn, refreshed, settings; simpl.
    repeat split; try lia; try discriminate; auto; try (intros; discriminate);
      try (destruct (R _ _ _ _ ltac:(eassumption)); try lia; assumption).
  - destruct HI as (B1 & B2 & B3 & R & P & J & K & T). unfold Inv, do_set_mtn, refreshed, settings; simpl.
    repeat split; try lia; try discriminate; auto; try (intros; discriminate);
      try (destruct (R _ _ _ _ ltac:(eassumption)); try lia; assumption).
  - (* ReassignModel = set_condition() *)
    destruct HI as (B1 & B2 & B3 & R & P & J & K & T). unfold Inv, do_set_cond, refreshed, settings; simpl.
    repeat split; try lia; try discriminate; auto; try (intros; discriminate);
      try (destruct (R _ _ _ _ ltac:(eassumption)); try lia; assumption).
  - exact HI.
  - exact HI.
  - exact HI.
  - apply Inv_krige_call; auto.
  - apply Inv_with_pos; auto.
Qed.

Lemma Inv_run ops : forall s, Inv s -> clean ops -> Inv (run repaired ops s).
Proof.
  induction ops as [|op r IH]; intros s HI Hc; simpl in *; [exact HI|].
  inversion Hc; subst. apply IH; [apply Inv_step; auto|assumption].
Qed.

(* ---------- what a freshly built object returns *)
Lemma fresh_result_eq s :
  fresh_result s =
  let d := mkKDesc (cur_pos s) (st_mesh s) (st_cond s) (st_model s) (st_model s) (st_mtn s) in
  RField (mkOut false d d (st_model s) (st_seed s) (st_mtn s)).
Proof.
  unfold fresh_result, step, do_call, fresh_of, do_set_pos, pos_changed, finish_call. simpl.
  rewrite orb_true_r. simpl. reflexivity.
Qed.

(* ---------- cache coherence over all histories *)
Theorem cache_coherent sd0 ops p sd srk ns :
  clean ops -> clean_op (Call p sd srk ns) ->
  let s := run repaired ops (init sd0) in
  forall s' o, step repaired s (Call p sd srk ns) = (s', RField o) -> refreshed s' ->
  same_field (RField o) (fresh_result s').
Proof.
  intros Hc Hop s s' o E Hr.
  assert (HI : Inv s) by (apply Inv_run; [apply Inv_init|exact Hc]).
  pose proof (call_spec s p sd srk ns HI Hop) as C. simpl in E. rewrite E in C. simpl in C.
  destruct C as (_ & G & SE & PO & _ & KV). destruct (KV Hr) as [K V].
  rewrite fresh_result_eq. simpl. unfold refreshed in Hr.
  rewrite K, V, G, SE, PO. unfold cur_desc. rewrite Hr. repeat split.
Qed.

(* whenever the reuse branch is taken in a refreshed state, the stored results are the current ones *)
Theorem reuse_only_current sd0 ops p sd srk ns :
  clean ops -> clean_op (Call p sd srk ns) ->
  let s := run repaired ops (init sd0) in
  forall s' o, step repaired s (Call p sd srk ns) = (s', RField o) -> refreshed s' -> o_reuse o = true ->
  o_k o = cur_desc s' /\ o_v o = cur_desc s'.
Proof.
  intros Hc Hop s s' o E Hr _.
  assert (HI : Inv s) by (apply Inv_run; [apply Inv_init|exact Hc]).
  pose proof (call_spec s p sd srk ns HI Hop) as C. simpl in E. rewrite E in C. simpl in C.
  destruct C as (_ & _ & _ & _ & _ & KV). exact (KV Hr).
Qed.

(* ---------- legitimate reuse: same position (or none given), any new seed, on every version of the tree *)
Lemma token_ok_ext fx ns s t : st_pos s = st_pos t -> st_mesh s = st_mesh t -> st_kvid s = st_kvid t -> st_ref s = st_ref t ->
  token_ok fx s ns = token_ok fx t ns.
Proof. intros A B C D. unfold token_ok, cur_pos. now rewrite A, B, C, D. Qed.

Lemma finish_facts fx sb del ns :
  let s1 := fst (finish_call fx sb del true ns) in
  has (3 * ns + 2) (st_cnames s1) = true /\ has 1 (st_knames s1) = true /\
  (if f_token fx then token_ok fx s1 ns else true) = true /\
  st_pos s1 = st_pos sb /\ st_mesh s1 = st_mesh sb /\
  exists o, snd (finish_call fx sb del true ns) = RField o /\ st_rk s1 ns = o_k o /\ st_kv s1 = o_v o.
Proof.
  unfold finish_call. change (rkset true ns) with ns. cbn [fst snd st_cnames st_knames st_pos st_mesh st_rk st_kv].
  set (reuse := negb del && has (3 * ns + 2) (st_cnames sb) && has 1 (st_knames sb) && (if f_token fx then token_ok fx sb ns else true)).
  destruct reuse eqn:E.
  - unfold reuse in E. apply andb_true_iff in E. destruct E as [E E4]. apply andb_true_iff in E. destruct E as [E E3].
    apply andb_true_iff in E. destruct E as [_ E2]. simpl.
    split; [do 2 apply has_add_mono; exact E2|]. split; [apply has_add_mono; exact E3|].
    split; [|split; [reflexivity|split; [reflexivity|eexists; split; [reflexivity|split; reflexivity]]]].
    destruct (f_token fx); [|reflexivity]. rewrite <- E4. apply token_ok_ext; reflexivity.
  - simpl.
    split; [do 2 apply has_add_mono; apply has_add_same|]. split; [apply has_add_mono; apply has_add_same|].
    split; [|split; [reflexivity|split; [reflexivity|eexists; split; [reflexivity|split; [apply upd_same|reflexivity]]]]].
    destruct (f_token fx); [|reflexivity]. unfold token_ok, cur_pos. simpl. rewrite upd_same.
    rewrite Nat.eqb_refl, eqb_reflx. unfold pos_close. now rewrite Nat.eqb_refl.
Qed.

Lemma finish_reuse fx st srk ns : rkset srk ns = ns ->
  has (3 * ns + 2) (st_cnames st) = true -> has 1 (st_knames st) = true -> (if f_token fx then token_ok fx st ns else true) = true ->
  exists s2 o2, finish_call fx st false srk ns = (s2, RField o2) /\ o_reuse o2 = true /\ o_k o2 = st_rk st ns /\ o_v o2 = st_kv st.
Proof.
  intros HR H2 H1 HT. unfold finish_call. rewrite HR. rewrite H2, H1, HT. simpl. eexists _, _. split; [reflexivity|]. simpl. auto.
Qed.

Theorem reuse_when_unchanged fx s p sd ns s1 o1 :
  step fx s (Call p sd true ns) = (s1, RField o1) ->
  forall q sd2 srk, rkset srk ns = ns ->
  (q = None \/ exists c, q = Some (c, st_mesh s1) /\ pos_close (cur_pos s1) c = true) ->
  exists s2 o2, step fx s1 (Call q sd2 srk ns) = (s2, RField o2) /\ o_reuse o2 = true /\ o_k o2 = o_k o1 /\ o_v o2 = o_v o1.
Proof.
  simpl. unfold do_call at 1.
  set (sa := match sd with Some x => with_seed s x | None => s end).
  intros E q sd2 srk HR Hq.
  assert (X : exists sb del, finish_call fx sb del true ns = (s1, RField o1) /\ st_pos sb <> None).
  { destruct p as [[c m]|].
    - assert (F1 : st_pos (fst (do_set_pos sa c m)) = Some c) by reflexivity.
      destruct (do_set_pos sa c m) as [sb del]. simpl in F1.
      exists sb, del. split; [exact E|]. rewrite F1. discriminate.
    - destruct (st_pos sa) eqn:P; [|discriminate]. exists sa, false. split; [exact E|]. rewrite P. discriminate. }
  destruct X as (sb & del & F & Pb).
  pose proof (finish_facts fx sb del ns) as N. rewrite F in N. cbn [fst snd] in N.
  destruct N as (N2 & N1 & TK & P1 & M1 & o & Eo & K1 & K2). injection Eo as <-.
  rewrite <- K1, <- K2.
  unfold do_call.
  set (sc := match sd2 with Some x => with_seed s1 x | None => s1 end).
  assert (C : st_pos sc = st_pos s1 /\ st_mesh sc = st_mesh s1 /\ st_cnames sc = st_cnames s1 /\
              st_knames sc = st_knames s1 /\ st_rk sc = st_rk s1 /\ st_kv sc = st_kv s1 /\
              st_kvid sc = st_kvid s1 /\ st_ref sc = st_ref s1)
    by (unfold sc; destruct sd2; simpl; repeat split).
  destruct C as (C1 & C2 & C3 & C4 & C5 & C6 & C7 & C8).
  destruct Hq as [->|(c & -> & Hcl)].
  - rewrite C1, P1. destruct (st_pos sb) eqn:Pb'; [|contradiction].
    rewrite <- C5, <- C6. apply finish_reuse; [exact HR|now rewrite C3|now rewrite C4|].
    destruct (f_token fx); [|reflexivity]. rewrite <- TK. apply token_ok_ext; auto.
  - assert (D : pos_changed sc c (st_mesh s1) = false).
    { unfold pos_changed. rewrite C1, C2, eqb_reflx. unfold cur_pos in Hcl.
      destruct (st_pos s1); [now rewrite Hcl|]. rewrite P1 in Pb. contradiction. }
    unfold do_set_pos. rewrite D.
    match goal with |- context [finish_call fx ?st false srk ns] => set (sd_ := st) end.
    rewrite <- C5, <- C6. change (st_rk sc) with (st_rk sd_). change (st_kv sc) with (st_kv sd_).
    apply finish_reuse; [exact HR|simpl; now rewrite C3|simpl; now rewrite C4|].
    destruct (f_token fx); [|reflexivity]. unfold token_ok, cur_pos in *. simpl. rewrite C7, C8.
    destruct (st_ref s1 (slot fx ns)) as [[[id m] rp]|]; [|discriminate].
    apply andb_true_iff in TK. destruct TK as [TK T3]. rewrite TK. simpl.
    destruct (st_pos s1) as [c1|]; [|rewrite P1 in Pb; contradiction].
    unfold pos_close in *. apply Nat.eqb_eq in Hcl, T3. apply Nat.eqb_eq. congruence.
Qed.

(* ---------- the hypothesis [refreshed] of cache_coherent: the documented refresh (set_condition, with or without
   arguments) and a model re-assignment always establish it; only an in-place model change can destroy it *)
Lemma finish_refreshed fx s2 del srk ns : refreshed s2 -> refreshed (fst (finish_call fx s2 del srk ns)).
Proof. intros H. exact H. Qed.

Theorem refreshed_characterised (s : St) :
  (forall k, refreshed (fst (step repaired s (SetCond k)))) /\
  refreshed (fst (step repaired s SetModel)) /\
  refreshed (fst (step repaired s ReassignModel)) /\
  (forall op, refreshed s -> op <> ModelInplace -> refreshed (fst (step repaired s op))).
Proof.
  split; [intros k; reflexivity|]. split; [reflexivity|]. split; [reflexivity|].
  intros op Hr Hop. destruct op as [p sd srk ns|q m|k| | | | | | | |sd|q|p|q]; try reflexivity; try exact Hr; try contradiction.
  - simpl. unfold do_call.
    set (s1 := match sd with Some x => with_seed s x | None => s end).
    assert (R1 : refreshed s1) by (unfold s1; destruct sd; exact Hr).
    destruct p as [[q m]|].
    + assert (R2 : refreshed (fst (do_set_pos s1 q m))) by exact R1.
      destruct (do_set_pos s1 q m) as [s2 del]. apply finish_refreshed. exact R2.
    + destruct (st_pos s1); [apply finish_refreshed|]; exact R1.
  - simpl. unfold do_krige_call. destruct p as [[q m]|]; [exact Hr|]. destruct (st_pos s); exact Hr.
Qed.

(* ---------- earlier versions of the tree are refuted *)
Definition P0 : Pos := mkPos 0 0.
Definition P0j : Pos := mkPos 0 1.     (* inside the allclose window of P0 *)
Definition P1 : Pos := mkPos 1 0.

Definition stale (fx : Fix) (sd0 : nat) (ops : list Op) (last : Op) : Prop :=
  clean ops /\ clean_op last /\
  exists s' o, step fx (run fx ops (init sd0)) last = (s', RField o) /\ refreshed s' /\
               ~ same_field (RField o) (fresh_result s').

Ltac stale_witness :=
  unfold stale; split; [repeat constructor|]; split; [exact I || reflexivity|];
  eexists _, _; split; [vm_compute; reflexivity|]; split; [vm_compute; reflexivity|];
  vm_compute; intros (H & _); discriminate H.

Definition c0 : Op := Call (Some (P0, false)) None true 0.
Definition hist_set_condition := [c0; SetCond NewVals].
Definition hist_mean := [c0; SetMean].
Definition hist_model := [c0; SetModel; SetCond Refresh].
Definition hist_inplace_refresh := [c0; ModelInplace; SetCond Refresh].

(* the pinned tree (before 2a36b2f) *)
Theorem pinned_refuted_set_condition : stale pinned 7 hist_set_condition (Call None None true 0).
Proof. stale_witness. Qed.
Theorem pinned_refuted_mean : stale pinned 7 hist_mean (Call None None true 0).
Proof. stale_witness. Qed.
Theorem pinned_refuted_model : stale pinned 7 hist_model (Call None (Some 3) true 0).
Proof. stale_witness. Qed.
Theorem pinned_refuted_inplace_refresh : stale pinned 7 hist_inplace_refresh (Call None None true 0).
Proof. stale_witness. Qed.

(* the tree after 2a36b2f only: aliased positions, direct kriging call, pos assignment, raw_krige not stored *)
Definition hist_mutate := [c0; MutatePos P1].
Definition hist_direct_krige := [c0; KrigeCall (Some (P1, false))].
Definition hist_assign_pos := [c0; AssignPos P1].
Definition hist_no_store := [c0; SetCond NewVals; Call None None false 0].

Theorem first_repair_refuted_mutate_pos : stale first_repair 7 hist_mutate (Call (Some (P1, false)) None true 0).
Proof. stale_witness. Qed.
Theorem first_repair_refuted_direct_krige : stale first_repair 7 hist_direct_krige (Call None None true 0).
Proof. stale_witness. Qed.
Theorem first_repair_refuted_assign_pos : stale first_repair 7 hist_assign_pos (Call None None true 0).
Proof. stale_witness. Qed.
Theorem first_repair_refuted_no_store : stale first_repair 7 hist_no_store (Call None None true 0).
Proof. stale_witness. Qed.

(* one reference slot shared by all store names (instead of one per raw-kriging name): a call under other names
   makes the stale default-named raw kriging field look current *)
Definition hist_other_names := [c0; SetCond NewVals; Call None None true 1].
Theorem shared_ref_refuted : stale shared_ref 7 hist_other_names (Call None None true 0).
Proof. stale_witness. Qed.

(* conditioning arrays kept as views: the caller's in-place edit changes the data behind the stored results *)
Theorem aliased_cond_refuted : stale aliased_cond 7 [c0; MutateCond] (Call None None true 0).
Proof. stale_witness. Qed.

(* in-place model edit followed by re-assignment of the same object: up to date again, the old results are gone *)
Example reassign_same_model_refreshes :
  let s := run repaired [c0; ModelInplace; ReassignModel] (init 7) in
  refreshed s /\ exists s' o, step repaired s (Call None None true 0) = (s', RField o) /\ o_reuse o = false.
Proof. split; [reflexivity|]. eexists _, _. split; [vm_compute; reflexivity|reflexivity]. Qed.

(* ---------- the np.allclose window: a position change below the tolerance keeps the stored results *)
Theorem window_refuted :
  exists s' o, step repaired (run repaired [c0] (init 7)) (Call (Some (P0j, false)) None true 0) = (s', RField o)
               /\ refreshed s' /\ o_reuse o = true /\ ~ same_field (RField o) (fresh_result s').
Proof.
  eexists _, _. split; [vm_compute; reflexivity|]. split; [vm_compute; reflexivity|]. split; [reflexivity|].
  vm_compute. intros (H & _). discriminate H.
Qed.

(* the hypotheses of cache_coherent are satisfiable, by a history that exercises every operation *)
Example clean_example :
  clean [c0; Call None (Some 5) false 0; SetCond NewVals; Call (Some (P0, false)) None true 1;
         SetPos P1 true; ModelInplace; ReassignModel; ModelInplace; SetCond Refresh; SetModel; SetMean; SetTrend; SetNorm;
         SetGen 4; MutateCond; MutatePos P0; KrigeCall (Some (P0, true)); KrigeCall None; AssignPos P1;
         Call (Some (P1, true)) (Some 9) true 2].
Proof. repeat constructor. Qed.
