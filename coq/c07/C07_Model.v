(* C07_Model.v — hand model of gstools.field.cond_srf.CondSRF together with the parts of
   gstools.krige.base.Krige / gstools.field.base.Field that decide whether stored kriging results are reused.

   Part 1 (no numbers): the cache state machine "CondCache".
     What the real objects hold is abstracted to VERSION STAMPS: every change of the conditioning data, of the
     model content, of mean/trend/normalizer creates a version number never used before; a kriging result is
     described by the versions (and the position) it was computed from (KDesc).  The transition function
     follows cond_srf.py / base.py statement by statement.  Three repair commits are switches of the
     transition function (record Fix): f_inval (2a36b2f: Krige drops its stored fields when its setup changes, a
     re-assigned model rebuilds the kriging matrix), f_copy (002fae9: Field.pos stores copies, the caller's array is
     no longer aliased), f_token (bf42345: CondSRF reuses raw_krige only with the krige_var of the same kriging run,
     on the positions it was computed for).  [repaired] is the current tree, [pinned] the original behaviour,
     [first_repair] the tree after 2a36b2f only (kept for the refutations / regression witnesses).
   Part 2 (generic number type): CondSRF.get_scaling and the conditioning formula
     field = rawkrige + var_scale * rawfield + nugget.  *)
From Coq Require Import List Bool Arith Lia ZArith.
From GS Require Import Num Loops.
Import ListNotations.

(* ------------------------------------------------------------------ positions *)
(* The target of a kriging run is identified by (base, jit, ext): different bases are clearly different point sets;
   equal base with different jit differ by less than the np.allclose tolerance (rtol 1e-5, atol 1e-8) that
   Field._pos_equal used before the exact-comparison commit; ext identifies the external-drift values passed for the
   target points with the call (ext_drift=...; 0 when none).  _pos_equal never sees ext. *)
Record Pos := mkPos { p_base : nat; p_jit : nat; p_ext : nat }.
Definition pos0 : Pos := mkPos 0 0 0.
Definition set_ext (q : Pos) (x : nat) : Pos := mkPos (p_base q) (p_jit q) x.

(* f_pername: the reference of bf42345 is kept PER raw-kriging store name (a dict); false = one shared slot.
   f_condcopy: Krige keeps copies of the conditioning arrays (cond_pos, cond_val: krige/tools.set_condition;
   ext_drift, cond_err: the copy commit); false = views of the caller's arrays. *)
(* f_exactpos: Field._pos_equal compares exactly (np.array_equal); false = np.allclose (sees only the base).
   f_exttoken: the reuse test of CondSRF also compares the external drift given with the call. *)
(* f_perobj: the reference dict belongs to the CondSRF OBJECT (instance attribute); false = one dict shared by all
   CondSRF objects (class attribute).
   Several CondSRF objects may share one Krige object: object ob owns the name keys 4*ob .. 4*ob+3 (key = 4*ob + name
   set); everything called "name set ns" below is such a key, and ns / 4 is the CondSRF object that is called. *)
Record Fix := mkFix { f_inval : bool; f_copy : bool; f_token : bool; f_pername : bool; f_condcopy : bool;
                      f_exactpos : bool; f_exttoken : bool; f_perobj : bool }.
Definition repaired : Fix := mkFix true true true true true true true true.
Definition first_repair : Fix := mkFix true false false true true false false true.
Definition pinned : Fix := mkFix false false false true true false false true.
Definition shared_ref : Fix := mkFix true true true false true true true true.     (* one reference slot for all store names *)
Definition aliased_cond : Fix := mkFix true true true true false true true true.  (* conditioning arrays are views *)
Definition allclose_pos : Fix := mkFix true true true true true false true true.  (* _pos_equal with np.allclose *)
Definition no_ext_token : Fix := mkFix true true true true true true false true.  (* reuse test ignores the call's ext_drift *)
Definition class_level_ref : Fix := mkFix true true true true true true true false. (* reference dict shared by all objects *)
Definition obj_of (ns : nat) : nat := ns / 4.
(* Field._pos_equal *)
Definition pos_close (fx : Fix) (a b : Pos) : bool :=
  (p_base a =? p_base b) && (if f_exactpos fx then p_jit a =? p_jit b else true).

(* what a raw kriging field / kriging variance was computed from *)
Record KDesc := mkKDesc {
  k_pos : Pos; k_mesh : bool;           (* target positions, mesh type (true = structured) *)
  k_cond : nat;                         (* version of the conditioning data (positions, values) *)
  k_matmodel : nat;                     (* model content the inverted kriging matrix was built from *)
  k_model : nat;                        (* model content used for the right-hand sides *)
  k_mtn : nat                           (* version of mean / trend / normalizer (enter _krige_cond) *)
}.

Record St := mkSt {
  st_pos : option Pos; st_mesh : bool;  (* Krige._pos / _mesh_type (CondSRF delegates to them) *)
  st_cnames : list nat;                 (* CondSRF.field_names; name set ns (0 = default names, 1, 2, ... = custom
                                           store=[...] lists): 3*ns field, 3*ns+1 raw field, 3*ns+2 raw kriging field *)
  st_knames : list nat;                 (* Krige.field_names:   0 field, 1 krige_var *)
  st_rk : nat -> KDesc;                 (* per name set: what the stored raw kriging field was computed from *)
  st_kv : KDesc;                        (* what the stored Krige.krige_var was computed from *)
  st_cond : nat; st_model : nat;        (* current versions: conditions, live model content *)
  st_matmodel : nat;                    (* model content of the current Krige._krige_mat *)
  st_mtn : nat;
  st_next : nat;                        (* next unused version number / object identity *)
  st_seed : nat -> nat;                 (* per CondSRF object: seed of its generator *)
  st_kvid : nat;                        (* identity of the array object stored as Krige.krige_var *)
  st_ref : nat -> option (nat * bool * Pos)   (* CondSRF._krige_ref[name]: (krige_var object, mesh type, pos) *)
}.

(* set_condition(cond_val=...) / (cond_pos, cond_val, ...) / (cond_err=...) / ();  the measurement errors cond_err belong
   to the conditions: a value given once stays until another one is given *)
Inductive CondKind := NewVals | NewPos | NewErr | Refresh.
Inductive Op :=
| Call (p : option (Pos * bool)) (sd : option nat) (srk : bool) (ns : nat) (xd : nat)
                                     (* csrf(pos, seed, mesh_type, store=[name, raw name, raw kriging name or False],
                                        ext_drift=<values xd>) with the names of name set ns; srk = false: the raw
                                        kriging field is not stored; the ext component of p is ignored, xd counts *)
| SetPos (ob : nat) (p : Pos) (m : bool)             (* csrf_ob.set_pos(pos, mesh_type) *)
| SetCond (k : CondKind)                             (* csrf.krige.set_condition(...) *)
| ModelInplace                                       (* csrf.model.len_scale = ... (no refresh) *)
| SetModel | SetMean | SetTrend | SetNorm            (* csrf.model = <new object>, csrf.mean = ..., ... *)
| ReassignModel                                      (* csrf.model = csrf.model (the same, possibly edited, object) *)
| MutateCond              (* the caller edits IN PLACE an array passed as cond_pos / cond_val / ext_drift *)
| SetGen (ob : nat) (sd : nat)                       (* csrf_ob.set_generator("RandMeth", seed=sd) *)
| MutatePos (q : Pos)       (* the caller edits IN PLACE the array last passed as pos; it now holds q *)
| KrigeCall (p : option (Pos * bool))                (* csrf.krige(pos, mesh_type) called directly *)
| AssignPos (q : Pos).                               (* csrf.pos = q (property setter, no set_pos) *)

Record Out := mkOut {
  o_reuse : bool;                       (* which branch of CondSRF.__call__ was taken *)
  o_k : KDesc; o_v : KDesc;             (* descriptors of the raw kriging field / variance that were used *)
  o_gmodel : nat; o_seed : nat;         (* model content and seed of the unconditional field *)
  o_post : nat                          (* mean/trend/normalizer version applied by post_field *)
}.
Inductive Res := RNone | RErr | RField (o : Out).

Definition has (n : nat) (l : list nat) : bool := existsb (Nat.eqb n) l.
Definition add_name (n : nat) (l : list nat) : list nat := if has n l then l else l ++ [n].

Definition cur_pos (s : St) : Pos := match st_pos s with Some q => q | None => pos0 end.
Definition cur_desc (s : St) : KDesc :=
  mkKDesc (cur_pos s) (st_mesh s) (st_cond s) (st_matmodel s) (st_model s) (st_mtn s).
Definition desc0 : KDesc := mkKDesc pos0 false 0 0 0 0.

(* the freshly built object: Krige(model, cond, mean, normalizer, trend) from the current settings,
   CondSRF(krige, seed=current seed); nothing stored, no position *)
(* object ob is created with seed sd + ob *)
Definition init (sd : nat) : St := mkSt None false [] [] (fun _ => desc0) desc0 0 0 0 0 1 (fun ob => sd + ob) 0 (fun _ => None).
Definition fresh_of (s : St) : St :=
  mkSt None false [] [] (fun _ => desc0) desc0 (st_cond s) (st_model s) (st_model s) (st_mtn s) (st_next s) (st_seed s)
       0 (fun _ => None).
Definition upd {A} (f : nat -> A) (n : nat) (v : A) : nat -> A := fun k => if k =? n then v else f k.

(* Field.set_pos as overridden by CondSRF.set_pos: new pos and mesh type are stored; all stored fields of
   CondSRF and of Krige are deleted when the mesh type changed or not _pos_equal(old, new) *)
Definition pos_changed (fx : Fix) (s : St) (p : Pos) (m : bool) : bool :=
  negb (Bool.eqb (st_mesh s) m) || negb (match st_pos s with Some q => pos_close fx q p | None => false end).
(* delete_fields of CondSRF object ob: its own names only *)
Definition drop_obj (ob : nat) (l : list nat) : list nat := filter (fun c => negb (c / 12 =? ob)) l.
Definition do_set_pos (fx : Fix) (ob : nat) (s : St) (p : Pos) (m : bool) : St * bool :=
  let del := pos_changed fx s p m in
  (mkSt (Some p) m (if del then drop_obj ob (st_cnames s) else st_cnames s) (if del then [] else st_knames s)
        (st_rk s) (st_kv s) (st_cond s) (st_model s) (st_matmodel s) (st_mtn s) (st_next s) (st_seed s)
        (st_kvid s) (st_ref s), del).
(* Field.set_pos on the Krige object itself (direct krige call): only Krige's fields are deleted *)
Definition krige_set_pos (fx : Fix) (s : St) (p : Pos) (m : bool) : St :=
  mkSt (Some p) m (st_cnames s) (if pos_changed fx s p m then [] else st_knames s)
       (st_rk s) (st_kv s) (st_cond s) (st_model s) (st_matmodel s) (st_mtn s) (st_next s) (st_seed s)
       (st_kvid s) (st_ref s).

Definition with_seed (s : St) (ob sd : nat) : St :=
  mkSt (st_pos s) (st_mesh s) (st_cnames s) (st_knames s) (st_rk s) (st_kv s) (st_cond s) (st_model s)
       (st_matmodel s) (st_mtn s) (st_next s) (upd (st_seed s) ob sd) (st_kvid s) (st_ref s).
Definition with_pos (s : St) (q : Pos) : St :=
  mkSt (Some q) (st_mesh s) (st_cnames s) (st_knames s) (st_rk s) (st_kv s) (st_cond s) (st_model s)
       (st_matmodel s) (st_mtn s) (st_next s) (st_seed s) (st_kvid s) (st_ref s).

(* bf42345: the stored krige_var is the object remembered with raw_krige, same mesh type, _pos_equal positions *)
Definition slot (fx : Fix) (ns : nat) : nat :=
  if f_pername fx then (if f_perobj fx then ns else ns mod 4) else (if f_perobj fx then 4 * obj_of ns else 0).
Definition token_ok (fx : Fix) (s : St) (ns : nat) : bool :=
  match st_ref s (slot fx ns) with
  | Some (id, m, rp) => (st_kvid s =? id) && Bool.eqb (st_mesh s) m && pos_close fx (cur_pos s) rp
                        && (if f_exttoken fx then p_ext (cur_pos s) =? p_ext rp else true)
  | None => false
  end.

(* the part of CondSRF.__call__ after pre_pos (krige_store default, store = [True, True, srk]) *)
(* Field.get_store_config: store=[n0, n1, False] gives the raw kriging field its DEFAULT name (not stored), so the
   reuse decision of such a call looks at the default-named raw kriging field *)
Definition rkset (srk : bool) (ns : nat) : nat := if srk then ns else 4 * obj_of ns.
Definition finish_call (fx : Fix) (s2 : St) (del srk : bool) (ns : nat) : St * Res :=
  let rn := rkset srk ns in
  let reuse := negb del && has (3 * rn + 2) (st_cnames s2) && has 1 (st_knames s2)
               && (if f_token fx then token_ok fx s2 rn else true) in
  let cur := cur_desc s2 in
  let k := if reuse then st_rk s2 rn else cur in
  let v := if reuse then st_kv s2 else cur in
  (* the krige call stores krige_var; then krige.post_field(..., "field") if not reuse or missing *)
  let kn := add_name 0 (if reuse then st_knames s2 else add_name 1 (st_knames s2)) in
  (* raw_krige (only if not reuse and wanted), raw_field, field *)
  let cn := add_name (3 * ns) (add_name (3 * ns + 1)
              (if reuse || negb srk then st_cnames s2 else add_name (3 * ns + 2) (st_cnames s2))) in
  (mkSt (st_pos s2) (st_mesh s2) cn kn
        (if reuse || negb srk then st_rk s2 else upd (st_rk s2) ns cur) v
        (st_cond s2) (st_model s2) (st_matmodel s2) (st_mtn s2)
        (if reuse then st_next s2 else S (st_next s2)) (st_seed s2)
        (if reuse then st_kvid s2 else st_next s2)
        (if reuse || negb srk then st_ref s2
         else upd (st_ref s2) (slot fx ns) (Some (st_next s2, st_mesh s2, cur_pos s2))),
   RField (mkOut reuse k v (st_model s2) (st_seed s2 (obj_of ns)) (st_mtn s2))).

(* the external drift given with the call belongs to the target of this call *)
Definition with_ext (s : St) (xd : nat) : St :=
  match st_pos s with Some q => with_pos s (set_ext q xd) | None => s end.
Definition do_call (fx : Fix) (s : St) (p : option (Pos * bool)) (sd : option nat) (srk : bool) (ns xd : nat) : St * Res :=
  (* self.generator.update(self.model, seed) — happens before pre_pos may raise *)
  let s1 := match sd with Some x => with_seed s (obj_of ns) x | None => s end in
  (* self.pre_pos(pos, mesh_type, info=True) *)
  match p with
  | None => match st_pos s1 with
            | None => (s1, RErr)                         (* ValueError: no position tuple present *)
            | Some _ => finish_call fx (with_ext s1 xd) false srk ns
            end
  | Some (q, m) => let '(s2, del) := do_set_pos fx (obj_of ns) s1 q m in finish_call fx (with_ext s2 xd) del srk ns
  end.

(* Krige.__call__ called directly (default store): field, then krige_var are stored in Krige *)
Definition do_krige_call (fx : Fix) (s : St) (p : option (Pos * bool)) : St * Res :=
  let pre := match p with
             | None => match st_pos s with None => None | Some _ => Some s end
             | Some (q, m) => Some (krige_set_pos fx s q m)
             end in
  match pre with
  | None => (s, RErr)
  | Some s2 =>
    (mkSt (st_pos s2) (st_mesh s2) (st_cnames s2) (add_name 1 (add_name 0 (st_knames s2)))
          (st_rk s2) (cur_desc s2) (st_cond s2) (st_model s2) (st_matmodel s2) (st_mtn s2)
          (S (st_next s2)) (st_seed s2) (st_next s2) (st_ref s2), RNone)
  end.

(* Krige.set_condition: new data (or none), the kriging matrix is rebuilt from the live model;
   2a36b2f: the stored fields of Krige are dropped *)
Definition do_set_cond (fx : Fix) (s : St) (k : CondKind) : St :=
  let c := match k with Refresh => st_cond s | _ => st_next s end in
  mkSt (st_pos s) (st_mesh s) (st_cnames s) (if f_inval fx then [] else st_knames s) (st_rk s) (st_kv s)
       c (st_model s) (st_model s) (st_mtn s) (S (st_next s)) (st_seed s) (st_kvid s) (st_ref s).

Definition do_model_inplace (s : St) : St :=
  mkSt (st_pos s) (st_mesh s) (st_cnames s) (st_knames s) (st_rk s) (st_kv s)
       (st_cond s) (st_next s) (st_matmodel s) (st_mtn s) (S (st_next s)) (st_seed s) (st_kvid s) (st_ref s).

(* Krige.model setter: pinned = Field.model setter only; 2a36b2f = followed by set_condition() *)
Definition do_set_model (fx : Fix) (s : St) : St :=
  let s1 := do_model_inplace s in if f_inval fx then do_set_cond fx s1 Refresh else s1.

(* Krige.mean / trend / normalizer setters: 2a36b2f drops the stored fields of Krige *)
Definition do_set_mtn (fx : Fix) (s : St) : St :=
  mkSt (st_pos s) (st_mesh s) (st_cnames s) (if f_inval fx then [] else st_knames s) (st_rk s) (st_kv s)
       (st_cond s) (st_model s) (st_matmodel s) (st_next s) (S (st_next s)) (st_seed s) (st_kvid s) (st_ref s).

(* the caller edits the passed array in place: before 002fae9 the stored positions are a view of it *)
Definition do_mutate_pos (fx : Fix) (s : St) (q : Pos) : St :=
  if f_copy fx then s else match st_pos s with Some _ => with_pos s q | None => s end.

(* the caller edits a conditioning array in place: with views the live conditioning data change, nothing is invalidated *)
Definition do_mutate_cond (fx : Fix) (s : St) : St :=
  if f_condcopy fx then s else
  mkSt (st_pos s) (st_mesh s) (st_cnames s) (st_knames s) (st_rk s) (st_kv s)
       (st_next s) (st_model s) (st_matmodel s) (st_mtn s) (S (st_next s)) (st_seed s) (st_kvid s) (st_ref s).

Definition step (fx : Fix) (s : St) (op : Op) : St * Res :=
  match op with
  | Call p sd srk ns xd => do_call fx s p sd srk ns xd
  (* Krige.model setter with the object it already holds: 2a36b2f = set_condition(); before = nothing *)
  | ReassignModel => ((if f_inval fx then do_set_cond fx s Refresh else s), RNone)
  | MutateCond => (do_mutate_cond fx s, RNone)
  | SetPos ob p m => (fst (do_set_pos fx ob s p m), RNone)
  | SetCond k => (do_set_cond fx s k, RNone)
  | ModelInplace => (do_model_inplace s, RNone)
  | SetModel => (do_set_model fx s, RNone)
  | SetMean | SetTrend | SetNorm => (do_set_mtn fx s, RNone)
  | SetGen ob sd => (with_seed s ob sd, RNone)
  | MutatePos q => (do_mutate_pos fx s q, RNone)
  | KrigeCall p => do_krige_call fx s p
  | AssignPos q => (with_pos s q, RNone)
  end.

Definition run (fx : Fix) (ops : list Op) (s : St) : St := fold_left (fun s op => fst (step fx s op)) ops s.

(* the kriging setup is up to date: no in-place model change is waiting for the documented refresh *)
Definition refreshed (s : St) : Prop := st_matmodel s = st_model s.

(* what a freshly built object returns for the current settings, position and seed *)
Definition fresh_result (s : St) (ob : nat) : Res :=
  snd (step repaired (fresh_of s) (Call (Some (cur_pos s, st_mesh s)) None true (4 * ob) (p_ext (cur_pos s)))).

(* two results describe the same field (the branch flag is not part of the field) *)
Definition same_field (a b : Res) : Prop :=
  match a, b with
  | RField x, RField y => o_k x = o_k y /\ o_v x = o_v y /\ o_gmodel x = o_gmodel y /\ o_seed x = o_seed y
                          /\ o_post x = o_post y
  | _, _ => False
  end.

(* ------------------------------------------------------------------ executable trace (correspondence) *)
Definition zb (b : bool) : Z := if b then 1%Z else 0%Z.
Definition zn (n : nat) : Z := Z.of_nat n.
(* stored names in order, code + 1 each, padded with 0 to a fixed length *)
Definition enc_names (k : nat) (l : list nat) : list Z := firstn k (map (fun n => (zn n + 1)%Z) l ++ repeat 0%Z k).
Definition enc_desc (d : KDesc) : list Z :=
  [zn (p_base (k_pos d)); zn (p_jit (k_pos d)); zn (p_ext (k_pos d)); zb (k_mesh d); zn (k_cond d); zn (k_matmodel d);
   zn (k_model d); zn (k_mtn d)].
Definition enc_out (o : Out) : list Z :=
  [zb (o_reuse o)] ++ enc_desc (o_k o) ++ enc_desc (o_v o) ++ [zn (o_gmodel o); zn (o_seed o); zn (o_post o)].
Definition enc_res (r : Res) : list Z :=
  match r with
  | RNone => 0%Z :: repeat 0%Z 20
  | RErr => 1%Z :: repeat 0%Z 20
  | RField o => 2%Z :: enc_out o
  end.
(* one row per operation: result kind + output, then the state after the operation *)
Definition enc_row (s : St) (r : Res) : list Z :=
  enc_res r ++ enc_names 27 (st_cnames s) ++ enc_names 2 (st_knames s) ++
               [match st_pos s with Some _ => 1%Z | None => 0%Z end] ++ enc_desc (cur_desc s) ++ [zn (st_seed s 0); zn (st_seed s 1); zn (st_seed s 2)].

(* row = [code; haspos; base; jit; mesh; seed+1; nosave; chunk option (not part of the model); name set; ext drift id;
          CondSRF object] *)
Definition dec_op (r : list Z) : Op :=
  let g i := Z.to_nat (nth i r 0%Z) in
  let q := mkPos (g 2) (g 3) (g 9) in
  let ps := if (g 1 =? 0) then None else Some (q, negb (g 4 =? 0)) in
  match g 0 with
  | 0 => Call ps (if g 5 =? 0 then None else Some (g 5 - 1)) (g 6 =? 0) (4 * g 10 + g 8 mod 4) (g 9)
  | 1 => SetPos (g 10) q (negb (g 4 =? 0))
  | 2 => SetCond NewVals | 3 => SetCond NewPos | 4 => SetCond Refresh
  | 5 => ModelInplace | 6 => SetModel | 7 => SetMean | 8 => SetTrend | 9 => SetNorm
  | 10 => SetGen (g 10) (g 5 - 1)
  | 11 => MutatePos q
  | 12 => KrigeCall ps
  | 13 => AssignPos q
  | 14 => ReassignModel
  | 15 => MutateCond
  | _ => SetCond NewErr
  end.

Fixpoint trace_from (fx : Fix) (s : St) (ops : list Op) : list (list Z) :=
  match ops with
  | [] => []
  | op :: r => let '(s', res) := step fx s op in enc_row s' res :: trace_from fx s' r
  end.
Definition trace (f1 f2 f3 f4 f5 f6 f7 f8 : bool) (sd0 : nat) (rows : list (list Z)) : list (list Z) :=
  trace_from (mkFix f1 f2 f3 f4 f5 f6 f7 f8) (init sd0) (map dec_op rows).

(* ------------------------------------------------------------------ Part 2: the conditioning formula *)
Section Formula.
Context {T : Type} (O : NumOps T).
Notation z := (n0 O).

(* np.maximum(x, 0): NaN propagates *)
Definition max0 (x : T) : T := if nisnan O x then x else if nltb O x z then z else x.

(* CondSRF.get_scaling at one point: (var_scale, nug_scale); nug_scale is unused for nugget = 0 *)
Definition scaling (nug var kv : T) : T * T :=
  if nltb O z nug then
    let vs := max0 (nsub O kv nug) in
    (nsqrt O (ndiv O vs var), nsqrt O (ndiv O (nsub O kv vs) nug))
  else (nsqrt O (ndiv O kv var), z).

(* rawkrige + var_scale * rawfield + nugget, with nugget = nug_scale * generator.get_nugget(shape)
   (the int 0 for a model without nugget) *)
Definition cond_value (nug var k kv r zn : T) : T :=
  let '(vs, ns) := scaling nug var kv in
  nadd O (nadd O k (nmul O vs r)) (if nltb O z nug then nmul O ns zn else z).

Definition cond_field (nug var : T) (ks kvs rs zs : list T) : list T :=
  map (fun t => cond_value nug var (aget z ks t) (aget z kvs t) (aget z rs t) (aget z zs t))
      (seq 0 (length ks)).
End Formula.
