(* C02_Bochner.v — the "easy half" of Bochner's theorem and the closure facts GSTools relies on,
   over the reals, for every dimension and every finite point set.

   A finite weighted point set is a list of (weight, point).  [qform K pts] is the quadratic form
   sum_a sum_b c_a c_b K(x_a, x_b) of the kernel K, i.e. c^T C c for the covariance matrix
   C_ab = K(x_a, x_b).  "No negative eigenvalue" for all point sets is "0 <= qform K pts" for all
   weights and points (Rayleigh quotient). *)
From Coq Require Import Reals List Lra Lia Psatz.
Import ListNotations.
Open Scope R_scope.

Definition Rsum (l : list R) : R := fold_right Rplus 0 l.

Lemma Rsum_app l1 l2 : Rsum (l1 ++ l2) = Rsum l1 + Rsum l2.
Proof. induction l1 as [|a l IH]; simpl; [lra|rewrite IH; lra]. Qed.

Lemma Rsum_map_plus {A} (f g : A -> R) l :
  Rsum (map (fun x => f x + g x) l) = Rsum (map f l) + Rsum (map g l).
Proof. induction l as [|a l IH]; simpl; [lra|rewrite IH; lra]. Qed.

Lemma Rsum_map_scal {A} c (f : A -> R) l :
  Rsum (map (fun x => c * f x) l) = c * Rsum (map f l).
Proof. induction l as [|a l IH]; simpl; [lra|rewrite IH; lra]. Qed.

Lemma Rsum_map_scal_r {A} c (f : A -> R) l :
  Rsum (map (fun x => f x * c) l) = Rsum (map f l) * c.
Proof. induction l as [|a l IH]; simpl; [lra|rewrite IH; lra]. Qed.

Lemma Rsum_map_ext_in {A} (f g : A -> R) l :
  (forall x, In x l -> f x = g x) -> Rsum (map f l) = Rsum (map g l).
Proof. intros H. f_equal. apply map_ext_in, H. Qed.

Lemma Rsum_map_nonneg {A} (f : A -> R) l :
  (forall x, In x l -> 0 <= f x) -> 0 <= Rsum (map f l).
Proof.
  induction l as [|a l IH]; simpl; intros H; [lra|].
  assert (0 <= f a) by (apply H; auto). assert (0 <= Rsum (map f l)) by (apply IH; auto). lra.
Qed.

Lemma Rsum_map_zero {A} (l : list A) : Rsum (map (fun _ => 0) l) = 0.
Proof. induction l; simpl; lra. Qed.

Lemma Rsum_map_all_zero {A} (f : A -> R) (l : list A) :
  (forall x, In x l -> f x = 0) -> Rsum (map f l) = 0.
Proof. intros H. rewrite (Rsum_map_ext_in f (fun _ => 0) l H). apply Rsum_map_zero. Qed.

(* exchange of two finite sums *)
Lemma Rsum_exchange {A B} (f : A -> B -> R) la lb :
  Rsum (map (fun a => Rsum (map (fun b => f a b) lb)) la)
  = Rsum (map (fun b => Rsum (map (fun a => f a b) la)) lb).
Proof.
  induction la as [|a la IH]; simpl.
  - now rewrite Rsum_map_zero.
  - rewrite IH, <- Rsum_map_plus. reflexivity.
Qed.

(* ------------------------------------------------------------------ quadratic forms *)
Section QForm.
  Context {A : Type}.
  Definition wpt := (R * A)%type.
  Definition qform (K : A -> A -> R) (pts : list wpt) : R :=
    Rsum (map (fun p => Rsum (map (fun q => fst p * fst q * K (snd p) (snd q)) pts)) pts).

  Lemma qform_ext_in K1 K2 pts :
    (forall p q, In p pts -> In q pts -> K1 (snd p) (snd q) = K2 (snd p) (snd q)) ->
    qform K1 pts = qform K2 pts.
  Proof.
    intros H. unfold qform. apply Rsum_map_ext_in. intros p Hp.
    apply Rsum_map_ext_in. intros q Hq. rewrite (H p q Hp Hq). reflexivity.
  Qed.

  Lemma qform_plus K1 K2 pts :
    qform (fun x y => K1 x y + K2 x y) pts = qform K1 pts + qform K2 pts.
  Proof.
    unfold qform. rewrite <- Rsum_map_plus. apply Rsum_map_ext_in. intros p _.
    rewrite <- Rsum_map_plus. apply Rsum_map_ext_in. intros q _. ring.
  Qed.

  Lemma qform_scal c K pts : qform (fun x y => c * K x y) pts = c * qform K pts.
  Proof.
    unfold qform. rewrite <- Rsum_map_scal. apply Rsum_map_ext_in. intros p _.
    rewrite <- Rsum_map_scal. apply Rsum_map_ext_in. intros q _. ring.
  Qed.

  Lemma qform_zero pts : qform (fun _ _ => 0) pts = 0.
  Proof.
    unfold qform. apply Rsum_map_all_zero. intros p _.
    apply Rsum_map_all_zero. intros q _. ring.
  Qed.

  (* a kernel of product form u(x) u(y) gives a square *)
  Lemma qform_rank1 (u : A -> R) pts :
    qform (fun x y => u x * u y) pts = (Rsum (map (fun p => fst p * u (snd p)) pts))².
  Proof.
    unfold qform, Rsqr.
    rewrite <- (Rsum_map_scal_r (Rsum (map (fun p => fst p * u (snd p)) pts))
                  (fun p => fst p * u (snd p)) pts).
    apply Rsum_map_ext_in. intros p _.
    rewrite <- (Rsum_map_scal (fst p * u (snd p)) (fun q => fst q * u (snd q)) pts).
    apply Rsum_map_ext_in. intros q _. ring.
  Qed.
End QForm.

(* pull-back of a kernel along ANY map of the points *)
Lemma qform_map {A B} (g : A -> B) (K : B -> B -> R) (pts : list (R * A)) :
  qform (fun x y => K (g x) (g y)) pts = qform K (map (fun p => (fst p, g (snd p))) pts).
Proof.
  unfold qform. rewrite map_map. apply Rsum_map_ext_in. intros p _.
  rewrite map_map. reflexivity.
Qed.

(* ------------------------------------------------------------------ vectors of any dimension *)
Definition vec := list R.
Definition dot (u v : vec) : R := Rsum (map (fun p => fst p * snd p) (combine u v)).
Definition vsub (u v : vec) : vec := map (fun p => fst p - snd p) (combine u v).
Definition norm (v : vec) : R := sqrt (dot v v).
Definition matvec (M : list vec) (x : vec) : vec := map (fun row => dot row x) M.

Lemma vsub_length u v : length u = length v -> length (vsub u v) = length u.
Proof. intros H. unfold vsub. rewrite map_length, combine_length, H. apply Nat.min_id. Qed.

Lemma dot_vsub k x y : length x = length y -> dot k (vsub x y) = dot k x - dot k y.
Proof.
  revert x y. induction k as [|a k IH]; intros x y H; [unfold dot; simpl; lra|].
  destruct x as [|b x], y as [|c y]; simpl in H; try discriminate.
  - unfold dot; simpl; lra.
  - injection H as H. specialize (IH x y H). unfold dot, vsub in *. simpl. rewrite IH. ring.
Qed.

Lemma matvec_length M x : length (matvec M x) = length M.
Proof. apply map_length. Qed.

Lemma matvec_vsub M x y :
  length x = length y -> matvec M (vsub x y) = vsub (matvec M x) (matvec M y).
Proof.
  intros H. induction M as [|r M IH]; [reflexivity|].
  unfold matvec, vsub in *. simpl. rewrite IH. f_equal. apply (dot_vsub r x y H).
Qed.

Lemma dot_self_nonneg v : 0 <= dot v v.
Proof.
  unfold dot. induction v as [|a v IH]; simpl; [lra|]. pose proof (Rle_0_sqr a) as Ha.
  unfold Rsqr in Ha. lra.
Qed.

(* a (stationary or not) kernel is valid in dimension d when no finite set of d-dimensional
   points, with any real weights, gives a negative quadratic form *)
Definition same_dim (d : nat) (pts : list (R * vec)) : Prop :=
  Forall (fun p => length (snd p) = d) pts.
Definition psd_on (d : nat) (K : vec -> vec -> R) : Prop :=
  forall pts, same_dim d pts -> 0 <= qform K pts.
Definition stationary (C : vec -> R) : vec -> vec -> R := fun x y => C (vsub x y).

(* ------------------------------------------------------------------ the cosine kernel *)
Definition cosk (k : vec) : vec -> vec -> R := stationary (fun h => cos (dot k h)).

Theorem cos_kernel_qform d k pts : same_dim d pts ->
  qform (cosk k) pts
  = (Rsum (map (fun p => fst p * cos (dot k (snd p))) pts))²
    + (Rsum (map (fun p => fst p * sin (dot k (snd p))) pts))².
Proof.
  intros Hd.
  rewrite <- (qform_rank1 (fun x => cos (dot k x))), <- (qform_rank1 (fun x => sin (dot k x))).
  rewrite <- qform_plus. apply qform_ext_in. intros p q Hp Hq.
  unfold cosk, stationary. unfold same_dim in Hd. rewrite Forall_forall in Hd.
  rewrite dot_vsub by (transitivity d; [apply (Hd p Hp)|symmetry; apply (Hd q Hq)]).
  apply cos_minus.
Qed.

Theorem cos_kernel_psd d k : psd_on d (cosk k).
Proof.
  intros pts Hd. rewrite (cos_kernel_qform d k pts Hd).
  apply Rplus_le_le_0_compat; apply Rle_0_sqr.
Qed.

(* ------------------------------------------------------------------ closure properties *)
Lemma psd_plus d K1 K2 : psd_on d K1 -> psd_on d K2 -> psd_on d (fun x y => K1 x y + K2 x y).
Proof. intros H1 H2 pts Hd. rewrite qform_plus. specialize (H1 pts Hd). specialize (H2 pts Hd). lra. Qed.

Lemma psd_scal d c K : 0 <= c -> psd_on d K -> psd_on d (fun x y => c * K x y).
Proof. intros Hc H pts Hd. rewrite qform_scal. apply Rmult_le_pos; auto. Qed.

Lemma psd_zero d : psd_on d (fun _ _ => 0).
Proof. intros pts _. rewrite qform_zero. lra. Qed.

Lemma psd_ext d K1 K2 :
  (forall x y, length x = d -> length y = d -> K1 x y = K2 x y) -> psd_on d K1 -> psd_on d K2.
Proof.
  intros E H pts Hd. rewrite <- (qform_ext_in K1 K2); [apply H, Hd|].
  intros p q Hp Hq. unfold same_dim in Hd. rewrite Forall_forall in Hd. apply E; apply Hd; auto.
Qed.

(* finite non-negative combination of valid kernels *)
Definition mix {I} (l : list I) (w : I -> R) (Kt : I -> vec -> vec -> R) : vec -> vec -> R :=
  fun x y => Rsum (map (fun i => w i * Kt i x y) l).

Theorem mixture_sum_psd {I} d (l : list I) w Kt :
  (forall i, In i l -> 0 <= w i) -> (forall i, In i l -> psd_on d (Kt i)) -> psd_on d (mix l w Kt).
Proof.
  induction l as [|i l IH]; intros Hw HK.
  - apply (psd_ext d (fun _ _ => 0)); [reflexivity|apply psd_zero].
  - unfold mix. simpl. apply psd_plus.
    + apply psd_scal; [apply Hw|apply HK]; left; reflexivity.
    + apply IH; intros j Hj; [apply Hw|apply HK]; right; exact Hj.
Qed.

(* the easy half of Bochner, discrete spectrum: weights w_j >= 0 at wave vectors k_j *)
Definition cov_of_spectrum (spec : list (R * vec)) (h : vec) : R :=
  Rsum (map (fun wk => fst wk * cos (dot (snd wk) h)) spec).

Theorem easy_bochner_sum d spec :
  Forall (fun wk => 0 <= fst wk) spec -> psd_on d (stationary (cov_of_spectrum spec)).
Proof.
  intros Hw. rewrite Forall_forall in Hw.
  apply (psd_ext d (mix spec fst (fun wk => cosk (snd wk)))); [reflexivity|].
  apply mixture_sum_psd; [exact Hw|]. intros wk _. apply cos_kernel_psd.
Qed.

(* closed form of the quadratic form: a weighted sum of squares *)
Theorem easy_bochner_sum_value d spec pts : same_dim d pts ->
  qform (stationary (cov_of_spectrum spec)) pts
  = Rsum (map (fun wk => fst wk *
       ((Rsum (map (fun p => fst p * cos (dot (snd wk) (snd p))) pts))²
        + (Rsum (map (fun p => fst p * sin (dot (snd wk) (snd p))) pts))²)) spec).
Proof.
  intros Hd. induction spec as [|wk spec IH].
  - simpl. unfold stationary, cov_of_spectrum. simpl. apply qform_zero.
  - simpl. rewrite <- IH, <- (cos_kernel_qform d (snd wk) pts Hd), <- qform_scal, <- qform_plus.
    reflexivity.
Qed.

(* ------------------------------------------------------------------ linear maps (anisotropy, rotation, space-time metric) *)
Theorem linear_map_psd d d' (M : list vec) (C : vec -> R) :
  length M = d' -> psd_on d' (stationary C) -> psd_on d (stationary (fun h => C (matvec M h))).
Proof.
  intros HM H pts Hd.
  rewrite (qform_ext_in _ (fun x y => stationary C (matvec M x) (matvec M y))).
  - rewrite qform_map. apply H. unfold same_dim in *. rewrite Forall_forall in *.
    intros p Hp. apply in_map_iff in Hp as (p0 & <- & Hp0). simpl. rewrite matvec_length. exact HM.
  - intros p q Hp Hq. unfold stationary, same_dim in *. rewrite Forall_forall in Hd.
    rewrite matvec_vsub by (transitivity d; [apply (Hd p Hp)|symmetry; apply (Hd q Hq)]). reflexivity.
Qed.

(* GSTools' cov_spatial: an isotropic model evaluated at the norm of the isometrized lag *)
Corollary isometrized_model_psd d d' (M : list vec) (cov : R -> R) :
  length M = d' -> psd_on d' (stationary (fun h => cov (norm h))) ->
  psd_on d (stationary (fun h => cov (norm (matvec M h)))).
Proof. intros HM H. exact (linear_map_psd d d' M (fun h => cov (norm h)) HM H). Qed.

(* ------------------------------------------------------------------ the sphere (Yadrenko) *)
Definition embed (r : R) (ll : R * R) : vec :=
  let lat := fst ll in let lon := snd ll in
  [r * cos lat * cos lon; r * cos lat * sin lon; r * sin lat].
Definition hav (P Q : R * R) : R :=
  (sin ((fst P - fst Q) / 2))² + cos (fst P) * cos (fst Q) * (sin ((snd P - snd Q) / 2))².

Lemma sin_half_sqr x : (sin (x / 2))² = (1 - cos x) / 2.
Proof.
  replace x with (2 * (x / 2)) at 2 by field. rewrite cos_2a_sin. unfold Rsqr. field.
Qed.

Lemma chord_sq r P Q :
  dot (vsub (embed r P) (embed r Q)) (vsub (embed r P) (embed r Q)) = 4 * r * r * hav P Q.
Proof.
  destruct P as [a b], Q as [c e]. unfold hav, embed, vsub, dot. simpl.
  rewrite !sin_half_sqr, !cos_minus.
  pose proof (sin2_cos2 a) as Ha. pose proof (sin2_cos2 c) as Hc.
  pose proof (sin2_cos2 b) as Hb. pose proof (sin2_cos2 e) as He. unfold Rsqr in *.
  match goal with |- ?L = ?R =>
    assert (E : L - R = r * r * (cos a * cos a * ((sin b * sin b + cos b * cos b) - 1)
                                 + cos c * cos c * ((sin e * sin e + cos e * cos e) - 1)
                                 + ((sin a * sin a + cos a * cos a) - 1)
                                 + ((sin c * sin c + cos c * cos c) - 1))) by field
  end.
  rewrite Ha, Hb, Hc, He in E. lra.
Qed.

Lemma hav_nonneg P Q : 0 <= hav P Q.
Proof.
  pose proof (chord_sq 1 P Q) as H. pose proof (dot_self_nonneg (vsub (embed 1 P) (embed 1 Q))). lra.
Qed.

Lemma hav_le_1 P Q : hav P Q <= 1.
Proof.
  destruct P as [a b], Q as [c e]. unfold hav. simpl. rewrite !sin_half_sqr, cos_minus.
  pose proof (COS_bound (b - e)) as [Hl Hu].
  pose proof (COS_bound (a - c)) as [Hl1 _]. pose proof (COS_bound (a + c)) as [_ Hu2].
  rewrite cos_minus in Hl1. rewrite cos_plus in Hu2.
  set (t := cos (b - e)) in *. set (s := sin a * sin c) in *. set (p := cos a * cos c) in *.
  assert (H1 : 0 <= (1 + t) * (1 + s + p)) by (apply Rmult_le_pos; lra).
  assert (H2 : 0 <= (1 - t) * (1 + s - p)) by (apply Rmult_le_pos; lra).
  nra.
Qed.

(* the Yadrenko lag: great-circle distance zeta = r * theta, theta = 2 asin(sqrt hav) the central
   angle; great_circle_to_chordal zeta r = 2 r sin(zeta / (2 r)) is the Euclidean distance of the
   embedded points *)
Definition great_circle_to_chordal (zeta r : R) : R := (2 * r) * sin (zeta / (2 * r)).
Definition central_angle (P Q : R * R) : R := 2 * asin (sqrt (hav P Q)).

Theorem yadrenko_lag_is_chord r P Q : 0 < r ->
  great_circle_to_chordal (r * central_angle P Q) r = norm (vsub (embed r P) (embed r Q)).
Proof.
  intros Hr. unfold great_circle_to_chordal, central_angle, norm. rewrite chord_sq.
  replace (r * (2 * asin (sqrt (hav P Q))) / (2 * r)) with (asin (sqrt (hav P Q))) by (field; lra).
  pose proof (hav_nonneg P Q) as H0. pose proof (hav_le_1 P Q) as H1.
  rewrite sin_asin.
  - replace (4 * r * r * hav P Q) with ((2 * r)² * hav P Q) by (unfold Rsqr; ring).
    rewrite sqrt_mult by (try apply Rle_0_sqr; lra). rewrite sqrt_Rsqr by lra. reflexivity.
  - split; [pose proof (sqrt_pos (hav P Q)); lra|].
    rewrite <- sqrt_1. apply sqrt_le_1_alt. exact H1.
Qed.

(* a model valid in R^3 gives a valid kernel on the sphere through the chordal distance *)
Theorem yadrenko_psd r (cov : R -> R) :
  psd_on 3 (stationary (fun h => cov (norm h))) ->
  forall pts : list (R * (R * R)),
    0 <= qform (fun P Q => cov (norm (vsub (embed r P) (embed r Q)))) pts.
Proof.
  intros H pts.
  change (0 <= qform (fun P Q => stationary (fun h => cov (norm h)) (embed r P) (embed r Q)) pts).
  rewrite (qform_map (embed r) (stationary (fun h => cov (norm h))) pts).
  apply H. unfold same_dim. rewrite Forall_forall. intros p Hp.
  apply in_map_iff in Hp as (p0 & <- & _). reflexivity.
Qed.

Corollary yadrenko_cov_psd r (cov : R -> R) : 0 < r ->
  psd_on 3 (stationary (fun h => cov (norm h))) ->
  forall pts : list (R * (R * R)),
    0 <= qform (fun P Q => cov (great_circle_to_chordal (r * central_angle P Q) r)) pts.
Proof.
  intros Hr H pts.
  rewrite (qform_ext_in _ (fun P Q => cov (norm (vsub (embed r P) (embed r Q))))).
  - apply yadrenko_psd, H.
  - intros p q _ _. rewrite yadrenko_lag_is_chord by exact Hr. reflexivity.
Qed.

(* correlation 1 at zero lag and bounded by 1 follow from validity (2-point sets) *)
Theorem psd_bounded_by_value_at_zero d (C : vec -> R) x y :
  psd_on d (stationary C) -> length x = d -> length y = d ->
  C (vsub x y) = C (vsub y x) -> C (vsub x x) = C (vsub y y) ->
  Rabs (C (vsub x y)) <= C (vsub x x).
Proof.
  intros H Hx Hy Hs H0.
  assert (Hd : forall c, same_dim d [(1, x); (c, y)]).
  { intros c. repeat constructor; assumption. }
  pose proof (H _ (Hd 1)) as Hp. pose proof (H _ (Hd (-1))) as Hm.
  unfold qform, stationary in Hp, Hm. simpl in Hp, Hm. rewrite <- Hs, <- H0 in Hp, Hm.
  apply Rabs_le. lra.
Qed.
