(* C02_Proofs.v — sign of the analytic spectral densities inside the parameter bounds, and
   "1 at zero lag, never above 1 in magnitude" for the elementary correlations; all at R.
   scipy's special functions are the Section variable [ora]; what is assumed of them is stated as
   Section hypotheses (sign facts only), so every theorem is universally quantified over them. *)
From Coq Require Import Reals Lra Lia ZArith List Bool Psatz.
From GS Require Import Num Loops RInst C02_Model C02_RInst.
Import ListNotations.
Open Scope R_scope.

Lemma div_nonneg a b : 0 <= a -> 0 < b -> 0 <= a / b.
Proof. intros Ha Hb. unfold Rdiv. apply Rmult_le_pos; [exact Ha|left; apply Rinv_0_lt_compat, Hb]. Qed.
Lemma div_pos a b : 0 < a -> 0 < b -> 0 < a / b.
Proof. intros Ha Hb. unfold Rdiv. apply Rmult_lt_0_compat; [exact Ha|apply Rinv_0_lt_compat, Hb]. Qed.
Lemma sqrt_PI_pos : 0 < sqrt PI.
Proof. apply sqrt_lt_R0, PI_RGT_0. Qed.
Lemma IZR_ge_1 d : (1 <= d)%Z -> 1 <= IZR d.
Proof. intros H. apply IZR_le in H. exact H. Qed.

Section Spectra.
  Variable ora : nat -> list R -> R.
  Let O := Rops02 ora.

  (* --- what is assumed of scipy's special functions (sign facts only) *)
  Definition gamma_pos_hyp := forall x, 0 < x -> 0 < ora ORA_GAMMA [x].
  (* gstools' inc_gamma_low(s, x) = gamma(s) * scipy gammainc(s, x): the lower incomplete gamma function *)
  Definition gammainc_nonneg_hyp := forall s x, 0 < s -> 0 <= x -> 0 <= ora ORA_INCGAMMA_LOW [s; x].
  Definition hyp2f1_nonneg_hyp :=
    forall a b c x, 0 < a -> 0 < b -> 0 < c -> 0 <= x < 1 -> 0 <= ora ORA_HYP2F1 [a; b; c; x].

  (* --- bounds of the dimension-dependent classes, as inequalities *)
  Lemma in_bounds_cc lo hi v : in_bounds O (cc lo hi) v = true <-> lo <= v <= hi.
  Proof.
    unfold in_bounds, arg_error, cc. simpl. unfold Rltb.
    destruct (Rlt_dec hi v), (Rlt_dec v lo); simpl; split; intros H; try discriminate; try lra; reflexivity.
  Qed.

  Lemma jbessel_bounds dim nu :
    lookup Nu (opt_bounds O JBessel dim) = Some (cc (IZR dim / 2 - 1) 50)
    /\ (in_bounds O (cc (IZR dim / 2 - 1) 50) nu = true <-> IZR dim / 2 - 1 <= nu <= 50).
  Proof. split; [reflexivity|apply in_bounds_cc]. Qed.
  Lemma superspherical_bounds dim nu :
    lookup Nu (opt_bounds O SuperSpherical dim) = Some (cc ((IZR dim - 1) / 2) 50)
    /\ (in_bounds O (cc ((IZR dim - 1) / 2) 50) nu = true <-> (IZR dim - 1) / 2 <= nu <= 50).
  Proof. split; [reflexivity|apply in_bounds_cc]. Qed.
  Lemma tplsimple_bounds dim nu :
    lookup Nu (opt_bounds O TPLSimple dim) = Some (cc ((IZR dim + 1) / 2) 50)
    /\ (in_bounds O (cc ((IZR dim + 1) / 2) 50) nu = true <-> (IZR dim + 1) / 2 <= nu <= 50).
  Proof. split; [reflexivity|apply in_bounds_cc]. Qed.

  (* every default optional argument lies inside its own bounds, dims 1..99 *)
  Definition defaults_ok (c : cls) (dim : Z) : Prop :=
    forall n v, In (n, v) (opt_default O c dim) ->
      exists b : @bound R, lookup n (opt_bounds O c dim) = Some b /\ in_bounds O b v = true.

  Lemma arg_error_0 (lo : R) (hi : option R) (lc hc : bool) (v : R) :
    (if lc then lo <= v else lo < v) ->
    (match hi with None => True | Some h => if hc then v <= h else v < h end) ->
    in_bounds O (mkB lo hi lc hc) v = true.
  Proof.
    intros Hl Hh. unfold in_bounds, arg_error. simpl. unfold Rltb, Rleb.
    destruct hi as [h|]; destruct lc, hc; simpl;
      repeat match goal with |- context [Rlt_dec ?a ?b] => destruct (Rlt_dec a b) end;
      repeat match goal with |- context [Rle_dec ?a ?b] => destruct (Rle_dec a b) end;
      simpl; try reflexivity; try lra.
  Qed.

  Theorem defaults_in_bounds c dim : (1 <= dim <= 99)%Z -> defaults_ok c dim.
  Proof.
    intros [H1 H2] n v Hin. apply IZR_le in H1. apply IZR_le in H2.
    destruct c; simpl in Hin; unfold two, fifty, lit, nlit, ofZ in Hin; simpl in Hin;
      repeat (destruct Hin as [Hin|Hin]; [injection Hin as <- <-|]); try contradiction;
      eexists; (split; [reflexivity|]);
      unfold cc, fifty, two, lit, nlit, ofZ; simpl; apply arg_error_0; simpl; try lra; exact I.
  Qed.

  (* the bounds of the standard arguments as inequalities: validity is only claimed for var > 0, len_scale > 0,
     nugget >= 0, anis > 0 (and the optional arguments inside their bounds) *)
  Theorem base_bounds_meaning v :
    (in_bounds O (base_bound O BVar) v = true <-> 0 < v) /\ (in_bounds O (base_bound O BLenScale) v = true <-> 0 < v)
    /\ (in_bounds O (base_bound O BNugget) v = true <-> 0 <= v) /\ (in_bounds O (base_bound O BAnis) v = true <-> 0 < v).
  Proof.
    unfold in_bounds, arg_error, base_bound. simpl. unfold Rltb, Rleb.
    destruct (Rle_dec v 0), (Rlt_dec v 0); simpl; repeat split; intros; try discriminate; try lra; reflexivity.
  Qed.

  (* --- Gaussian *)
  Theorem sd_gaussian_nonneg dim ell k : 0 < ell -> 0 <= sd_gaussian O dim ell k.
  Proof.
    intros Hl. unfold sd_gaussian. simpl. apply Rmult_le_pos; [|left; apply exp_pos].
    left. apply Rpowc_pos. unfold two, lit, nlit. simpl. apply div_pos; [lra|apply sqrt_PI_pos].
  Qed.

  (* --- Exponential *)
  Theorem sd_exponential_nonneg dim ell k :
    gamma_pos_hyp -> (1 <= dim)%Z -> 0 < ell -> 0 <= sd_exponential O dim ell k.
  Proof.
    intros HG Hd Hl. apply IZR_ge_1 in Hd. unfold sd_exponential. rewrite !(sq_R ora). unfold gamma, ofZ, two, lit, nlit. simpl.
    apply div_nonneg.
    - apply Rmult_le_pos; [left; apply Rpowc_pos, Hl|left; apply HG; lra].
    - apply Rpowc_pos. apply Rmult_lt_0_compat; [apply PI_RGT_0|]. pose proof (Rle_0_sqr (k * ell)). unfold Rsqr in *. lra.
  Qed.

  (* --- Matern (both branches: nu <= 20 and the Gaussian limit used for nu > 20) *)
  Theorem sd_matern_nonneg dim ell nu k : 0 < ell -> 0 <= sd_matern O dim ell nu k.
  Proof.
    intros Hl. unfold sd_matern. rewrite !(sq_R ora). simpl.
    assert (Hb : 0 < Rpowc (ell / sqrt PI) (IZR dim)) by (apply Rpowc_pos, div_pos; [exact Hl|apply sqrt_PI_pos]).
    destruct (Rltb _ nu); apply Rmult_le_pos; try (left; exact Hb); left; apply exp_pos.
  Qed.

  (* --- Integral (both branches; nu in (0, 50] is the claimed range, the nu > 50 branch is also covered) *)
  Theorem sd_integral_nonneg dim ell nu k :
    gammainc_nonneg_hyp -> (1 <= dim)%Z -> 0 < ell -> 0 < nu ->
    0 <= sd_integral O dim ell nu k.
  Proof.
    intros HP Hd Hl Hn. apply IZR_ge_1 in Hd. unfold sd_integral. rewrite !(sq_R ora), (isclose0_R ora). unfold ofZ, two, fifty, lit, nlit. simpl.
    assert (Hf : 0 < Rpowc (5 / 10 * ell / sqrt PI) (IZR dim)).
    { apply Rpowc_pos, div_pos; [lra|apply sqrt_PI_pos]. }
    assert (Hlim : 0 <= Rpowc (5 / 10 * ell / sqrt PI) (IZR dim) * nu / (nu + IZR dim)).
    { apply div_nonneg; [|lra]. apply Rmult_le_pos; lra. }
    set (x := k * ell / 2 * (k * ell / 2)).
    assert (Hx : 0 <= x) by (unfold x; pose proof (Rle_0_sqr (k * ell / 2)); unfold Rsqr in *; lra).
    destruct (Rltb 50 nu).
    - apply Rmult_le_pos; [apply Rmult_le_pos; [exact Hlim|left; apply exp_pos]|].
      assert (0 <= 2 * x / (nu + IZR dim + 2)) by (apply div_nonneg; lra). lra.
    - destruct (Rleb (Rabs k) _) eqn:Ek; [exact Hlim|].
      apply Rleb_false in Ek.
      assert (Hk : k <> 0) by (intros ->; rewrite Rabs_R0 in Ek; lra).
      assert (Hxp : 0 < x).
      { unfold x. assert (k * ell / 2 <> 0) by (intros E; apply Hk; nra).
        pose proof (Rsqr_pos_lt _ H). unfold Rsqr in *. lra. }
      unfold inc_gamma_low.
      apply Rmult_le_pos.
      + apply div_nonneg; [|apply Rpowc_pos, Hxp]. apply Rmult_le_pos; [lra|left; exact Hf].
      + apply HP; lra.
  Qed.

  (* --- HyperSpherical *)
  Theorem sd_hyperspherical_nonneg dim ell k :
    gamma_pos_hyp -> (1 <= dim)%Z -> 0 < ell -> 0 <= k -> 0 <= sd_hyperspherical O dim ell k.
  Proof.
    intros HG Hd Hl Hk. apply IZR_ge_1 in Hd. unfold sd_hyperspherical. rewrite (isclose0_R ora).
    unfold half_dim, gamma, ofZ, two, lit, nlit. simpl. fold O.
    assert (HGd : 0 < ora ORA_GAMMA [IZR dim / 2 + 1]) by (apply HG; lra).
    assert (Hs : 0 < Rpowc (sqrt PI) (IZR dim)) by apply Rpowc_pos, sqrt_PI_pos.
    destruct (Rleb (Rabs k) _) eqn:Ek.
    - apply div_nonneg; [|exact Hs]. apply div_nonneg; [|exact HGd]. left. apply Rpowc_pos. lra.
    - apply Rleb_false in Ek. rewrite Rabs_pos_eq in Ek by exact Hk.
      apply div_nonneg; [|apply Rpowc_pos; lra].
      apply Rmult_le_pos; [left; apply div_pos; assumption|apply (sq_nonneg ora)].
  Qed.

  (* --- JBessel: uses the dimension-dependent lower bound nu >= dim/2 - 1 (gamma(nu + 1) needs nu + 1 > 0; the
         divisor is gamma(max(nu - dim/2 + 1, 0.01))) *)
  Theorem sd_jbessel_nonneg dim ell nu k :
    gamma_pos_hyp -> (1 <= dim)%Z -> IZR dim / 2 - 1 <= nu -> 0 < ell -> 0 <= k ->
    0 <= sd_jbessel O dim ell nu k.
  Proof.
    intros HG Hd Hn Hl Hk. apply IZR_ge_1 in Hd.
    unfold sd_jbessel. rewrite (sq_R ora), (nmax_R ora).
    unfold half_dim, gamma, ofZ, two, lit, nlit. simpl.
    unfold Rltb. destruct (Rlt_dec k (1 / ell)) as [Hkl|_]; [|lra].
    assert (Hkl1 : k * ell < 1).
    { apply (Rmult_lt_compat_r ell) in Hkl; [|exact Hl]. unfold Rdiv in Hkl.
      rewrite Rmult_1_l, Rinv_l in Hkl by lra. exact Hkl. }
    apply Rmult_le_pos.
    - apply div_nonneg.
      + apply Rmult_le_pos; [left; apply Rpowc_pos, div_pos; [exact Hl|apply sqrt_PI_pos]|left; apply HG; lra].
      + apply HG. eapply Rlt_le_trans; [|apply Rmax_r]. lra.
    - left. apply Rpowc_pos. assert (0 <= k * ell) by (apply Rmult_le_pos; lra). nra.
  Qed.

  (* --- TPLExponential, len_low = 0 *)
  Theorem sd_tplexp0_nonneg dim ell hurst k :
    gamma_pos_hyp -> hyp2f1_nonneg_hyp -> (1 <= dim)%Z -> 0 < ell -> 0 < hurst ->
    0 <= sd_tplexp0 O dim ell hurst k.
  Proof.
    intros HG HF Hd Hl Hh. apply IZR_ge_1 in Hd.
    unfold sd_tplexp0. rewrite !(sq_R ora). unfold half_dim, gamma, hyp2f1, ofZ, two, lit, nlit. simpl.
    set (z := k * ell * (k * ell)).
    assert (Hz : 0 <= z) by (unfold z; pose proof (Rle_0_sqr (k * ell)); unfold Rsqr in *; lra).
    apply Rmult_le_pos.
    - apply div_nonneg; [|apply Rpowc_pos; lra].
      apply div_nonneg.
      + repeat apply Rmult_le_pos; try lra; left; [apply Rpowc_pos, Hl|apply HG; lra].
      + apply Rmult_lt_0_compat; [apply Rpowc_pos, PI_RGT_0|lra].
    - apply HF; try lra. split; [apply div_nonneg; lra|].
      apply (Rmult_lt_reg_r (1 + z)); [lra|]. unfold Rdiv. rewrite Rmult_assoc, Rinv_l by lra. lra.
  Qed.

  (* --- TPLGaussian, len_low = 0 (the incomplete-gamma branch and the 12-term alternating series for z <= 0.1) *)
  Lemma gau_series_nonneg m : forall n a z term series,
    (0 <= n)%Z -> 0 < a -> 0 <= z <= 1 -> 0 <= term -> 0 <= series ->
    0 <= gau_series O (2 * m) n a z term series.
  Proof.
    induction m as [|m IH]; intros n a z term series Hn Ha Hz Ht Hs; [exact Hs|].
    replace (2 * S m)%nat with (S (S (2 * m))) by lia. simpl gau_series.
    assert (HnR : 0 <= IZR n) by (apply (IZR_le 0 n); exact Hn).
    assert (Hn1 : 0 < IZR n + 1) by lra.
    assert (Hq : 0 <= z / (IZR n + 1) <= 1).
    { split; [apply div_nonneg; lra|]. apply (Rmult_le_reg_r (IZR n + 1)); [lra|].
      unfold Rdiv. rewrite Rmult_assoc, Rinv_l by lra. lra. }
    apply IH.
    - lia.
    - exact Ha.
    - exact Hz.
    - simpl. rewrite !(ilit_R ora), plus_IZR. simpl.
      assert (0 <= z / (IZR n + 1 + 1)) by (apply div_nonneg; lra).
      replace (term * (- z / (IZR n + 1)) * (- z / (IZR n + 1 + 1)))
        with (term * (z / (IZR n + 1)) * (z / (IZR n + 1 + 1))) by (field; lra).
      apply Rmult_le_pos; [apply Rmult_le_pos; lra|lra].
    - simpl. rewrite !(ilit_R ora), plus_IZR. simpl.
      (* term/(a+n) - term (z/(n+1)) / (a+n+1) >= 0 *)
      assert (H1 : term * (- z / (IZR n + 1)) / (a + (IZR n + 1)) = - (term * (z / (IZR n + 1)) / (a + (IZR n + 1))))
        by (field; lra).
      rewrite H1.
      assert (H2 : term * (z / (IZR n + 1)) / (a + (IZR n + 1)) <= term / (a + IZR n)).
      { assert (Hd1 : 0 < a + IZR n) by lra. assert (Hd2 : 0 < a + (IZR n + 1)) by lra.
        assert (term * (z / (IZR n + 1)) <= term) by nra.
        assert (0 <= term * (z / (IZR n + 1))) by (apply Rmult_le_pos; lra).
        apply Rle_trans with (term * (z / (IZR n + 1)) / (a + IZR n)).
        - unfold Rdiv. apply Rmult_le_compat_l; [assumption|]. apply Rinv_le_contravar; lra.
        - unfold Rdiv. apply Rmult_le_compat_r; [left; apply Rinv_0_lt_compat; lra|assumption]. }
      lra.
  Qed.

  Local Opaque gau_series.
  Theorem sd_tplgau0_nonneg dim ell hurst k :
    gammainc_nonneg_hyp -> (1 <= dim)%Z -> 0 < ell -> 0 < hurst ->
    0 <= sd_tplgau0 O dim ell hurst k.
  Proof.
    intros HP Hd Hl Hh. apply IZR_ge_1 in Hd.
    unfold sd_tplgau0. rewrite !(sq_R ora). unfold inc_gamma_low, half_dim, ofZ, two, lit, nlit. simpl.
    set (z := k * ell / 2 * (k * ell / 2)).
    assert (Hz : 0 <= z) by (unfold z; pose proof (Rle_0_sqr (k * ell / 2)); unfold Rsqr in *; lra).
    set (a := hurst + IZR dim / 2). assert (Ha : 0 < a) by (unfold a; lra).
    assert (Hfac : 0 <= Rpowc (ell / 2) (IZR dim) * hurst / Rpowc PI (IZR dim / 2)).
    { apply div_nonneg; [|apply Rpowc_pos, PI_RGT_0]. apply Rmult_le_pos; [left; apply Rpowc_pos; lra|lra]. }
    unfold Rltb. destruct (Rlt_dec _ z) as [Hz1|Hz1].
    - apply div_nonneg; [|apply Rpowc_pos; lra].
      apply Rmult_le_pos; [exact Hfac|]. apply HP; lra.
    - apply Rmult_le_pos; [exact Hfac|].
      apply (gau_series_nonneg 6 0%Z a z 1 0); try lra; lia.
  Qed.
  Local Transparent gau_series.

  (* with the len_low argument: the branch len_low == 0 *)
  Theorem sd_tplexp_nonneg dim ell hurst len_low k :
    gamma_pos_hyp -> hyp2f1_nonneg_hyp -> (1 <= dim)%Z -> 0 < ell -> 0 < hurst ->
    len_low = 0 -> 0 <= sd_tplexp O dim ell hurst len_low k.
  Proof.
    intros HG HF Hd Hl Hh ->. unfold sd_tplexp, sd_tpl. simpl. unfold Reqb.
    destruct (Req_EM_T 0 0) as [_|Hc]; [|contradiction]. apply sd_tplexp0_nonneg; assumption.
  Qed.
  Theorem sd_tplgau_nonneg dim ell hurst len_low k :
    gammainc_nonneg_hyp -> (1 <= dim)%Z -> 0 < ell -> 0 < hurst ->
    len_low = 0 -> 0 <= sd_tplgau O dim ell hurst len_low k.
  Proof.
    intros HP Hd Hl Hh ->. unfold sd_tplgau, sd_tpl. simpl. unfold Reqb.
    destruct (Req_EM_T 0 0) as [_|Hc]; [|contradiction]. apply sd_tplgau0_nonneg; assumption.
  Qed.

  (* ------------------------------------------------------------ elementary correlations *)
  Lemma lit_R p k : lit O p k = IZR p / IZR (10 ^ Z.of_nat k).
  Proof. unfold lit, nlit. destruct k; simpl; [|reflexivity]. unfold Rdiv. rewrite Rinv_1. ring. Qed.

  Theorem cor_at_zero_one :
    cor_gaussian O 0 = 1 /\ cor_exponential O 0 = 1 /\ (forall a, 0 < a -> cor_stable O a 0 = 1)
    /\ (forall a, a <> 0 -> cor_rational O a 0 = 1) /\ cor_cubic O 0 = 1 /\ cor_linear O 0 = 1
    /\ cor_spherical O 0 = 1 /\ cor_circular O 0 = 1 /\ (forall nu, cor_tplsimple O nu 0 = 1).
  Proof.
    repeat split.
    - unfold cor_gaussian. rewrite ?(sq_R ora), ?(nmin_R ora), ?(nmax_R ora). simpl. rewrite Rmult_0_l, Ropp_0. apply exp_0.
    - unfold cor_exponential. rewrite ?(sq_R ora), ?(nmin_R ora), ?(nmax_R ora). simpl. rewrite Ropp_0. apply exp_0.
    - intros a Ha. unfold cor_stable. rewrite ?(sq_R ora), ?(nmin_R ora), ?(nmax_R ora). simpl. rewrite Rpowc_zero by exact Ha. rewrite Ropp_0. apply exp_0.
    - intros a Ha. unfold cor_rational. rewrite ?(sq_R ora), ?(nmin_R ora), ?(nmax_R ora). simpl. 
      replace (1 + 0 * 0 / a) with 1 by (field; exact Ha). apply Rpowc_one.
    - unfold cor_cubic. rewrite ?(sq_R ora), ?(nmin_R ora), ?(nmax_R ora). simpl. rewrite Rabs_R0, Rmin_left by lra.
      unfold lit, nlit; simpl. rewrite Rpowc_3, Rpowc_5, Rpowc_7. field.
    - unfold cor_linear. rewrite ?(sq_R ora), ?(nmin_R ora), ?(nmax_R ora). simpl. rewrite Rabs_R0, Rmax_left by lra. lra.
    - unfold cor_spherical. rewrite ?(sq_R ora), ?(nmin_R ora), ?(nmax_R ora). simpl. rewrite Rabs_R0, Rmin_left by lra.
      unfold lit, nlit; simpl. rewrite Rpowc_3. field.
    - unfold cor_circular. rewrite ?(sq_R ora), ?(nmin_R ora), ?(nmax_R ora). simpl. rewrite Rabs_R0. unfold Rltb.
      destruct (Rlt_dec 0 1); [|lra]. rewrite acos_0. unfold two, lit, nlit. simpl.
      rewrite Rmult_0_l, Rminus_0_r. field. apply PI_neq0.
    - intros nu. unfold cor_tplsimple. rewrite ?(sq_R ora), ?(nmin_R ora), ?(nmax_R ora). simpl. rewrite Rabs_R0, Rmax_left by lra.
      rewrite Rminus_0_r. apply Rpowc_one.
  Qed.

  Theorem cor_bounded_gaussian h : Rabs (cor_gaussian O h) <= 1.
  Proof.
    unfold cor_gaussian. rewrite ?(sq_R ora), ?(nmin_R ora), ?(nmax_R ora). simpl. rewrite Rabs_pos_eq by (left; apply exp_pos).
    apply exp_le_1. pose proof (Rle_0_sqr h). unfold Rsqr in *. lra.
  Qed.
  Theorem cor_bounded_exponential h : 0 <= h -> Rabs (cor_exponential O h) <= 1.
  Proof.
    intros Hh. unfold cor_exponential. rewrite ?(sq_R ora), ?(nmin_R ora), ?(nmax_R ora). simpl. rewrite Rabs_pos_eq by (left; apply exp_pos).
    apply exp_le_1. lra.
  Qed.
  Theorem cor_bounded_stable alpha h : 0 < alpha -> 0 <= h -> Rabs (cor_stable O alpha h) <= 1.
  Proof.
    intros Ha Hh. unfold cor_stable. rewrite ?(sq_R ora), ?(nmin_R ora), ?(nmax_R ora). simpl. rewrite Rabs_pos_eq by (left; apply exp_pos).
    apply exp_le_1. pose proof (Rpowc_nonneg h alpha Hh Ha). lra.
  Qed.
  Theorem cor_bounded_rational alpha h : 0 < alpha -> Rabs (cor_rational O alpha h) <= 1.
  Proof.
    intros Ha. unfold cor_rational. rewrite ?(sq_R ora), ?(nmin_R ora), ?(nmax_R ora). simpl. 
    assert (H1 : 1 <= 1 + h * h / alpha).
    { assert (0 <= h * h / alpha) by (apply div_nonneg; [pose proof (Rle_0_sqr h); unfold Rsqr in *; lra|exact Ha]). lra. }
    rewrite Rabs_pos_eq by (left; apply Rpowc_pos; lra). apply Rpowc_le_1_big; lra.
  Qed.

  Lemma Rmin_abs_unit h : 0 <= Rmin (Rabs h) 1 <= 1.
  Proof. split; [apply Rmin_glb; [apply Rabs_pos|lra]|apply Rmin_r]. Qed.

  Theorem cor_bounded_cubic h : Rabs (cor_cubic O h) <= 1.
  Proof.
    unfold cor_cubic. rewrite ?(sq_R ora), ?(nmin_R ora). unfold lit, nlit; simpl.
    rewrite Rpowc_3, Rpowc_5, Rpowc_7. destruct (Rmin_abs_unit h) as [H0 H1]. set (t := Rmin (Rabs h) 1) in *.
    match goal with |- Rabs ?e <= 1 => set (p := e) end.
    (* 1 - 7 t^2 + 8.75 t^3 - 3.5 t^5 + 0.75 t^7 = (1 - t)^4 (1 + 4 t + 3 t^2 + 0.75 t^3) *)
    assert (E : p = (1 - t) * (1 - t) * ((1 - t) * (1 - t)) * (1 + 4 * t + 3 * (t * t) + 3 / 4 * (t * t * t)))
      by (unfold p; lra).
    assert (E2 : p = 1 - t * t * (7 - 875 / 100 * t + 35 / 10 * (t * t * t) - 75 / 100 * (t * t * t * t * t)))
      by (unfold p; lra).
    assert (Hq : 0 <= 1 + 4 * t + 3 * (t * t) + 3 / 4 * (t * t * t)).
    { assert (0 <= t * t) by nra. assert (0 <= t * t * t) by nra. lra. }
    assert (Hs : 0 <= (1 - t) * (1 - t) * ((1 - t) * (1 - t))) by (apply Rmult_le_pos; nra).
    assert (Hp0 : 0 <= p) by (rewrite E; apply Rmult_le_pos; assumption).
    assert (Hr : 0 <= 7 - 875 / 100 * t + 35 / 10 * (t * t * t) - 75 / 100 * (t * t * t * t * t)).
    { assert (0 <= t * t * t) by (apply Rmult_le_pos; nra).
      assert (t * t * t * t * t <= t * t * t).
      { replace (t * t * t * t * t) with (t * t * t * (t * t)) by ring. assert (t * t <= 1) by nra. nra. }
      nra. }
    assert (Hp1 : p <= 1).
    { rewrite E2. assert (0 <= t * t) by nra.
      assert (0 <= t * t * (7 - 875 / 100 * t + 35 / 10 * (t * t * t) - 75 / 100 * (t * t * t * t * t)))
        by (apply Rmult_le_pos; assumption). lra. }
    apply Rabs_le. lra.
  Qed.

  Theorem cor_bounded_linear h : Rabs (cor_linear O h) <= 1.
  Proof.
    unfold cor_linear. rewrite ?(sq_R ora), ?(nmin_R ora), ?(nmax_R ora). simpl. pose proof (Rabs_pos h).
    unfold Rmax. destruct (Rle_dec (1 - Rabs h) 0); [rewrite Rabs_R0; lra|rewrite Rabs_pos_eq; lra].
  Qed.

  Theorem cor_bounded_spherical h : Rabs (cor_spherical O h) <= 1.
  Proof.
    unfold cor_spherical. rewrite ?(nmin_R ora). unfold lit, nlit; simpl. rewrite Rpowc_3.
    destruct (Rmin_abs_unit h) as [H0 H1]. set (t := Rmin (Rabs h) 1) in *.
    match goal with |- Rabs ?e <= 1 => set (p := e) end.
    assert (E : p = (1 - t) * (1 - t) * (1 + t / 2)) by (unfold p; lra).
    assert (E2 : p = 1 - 15 / 10 * t + 5 / 10 * (t * t * t)) by (unfold p; lra).
    assert (Hp0 : 0 <= p) by (rewrite E; apply Rmult_le_pos; nra).
    assert (t * t * t <= t) by (assert (t * t <= 1) by nra; nra).
    apply Rabs_le. lra.
  Qed.

  Theorem cor_bounded_circular h : Rabs (cor_circular O h) <= 1.
  Proof.
    unfold cor_circular. rewrite ?(sq_R ora), ?(nmin_R ora), ?(nmax_R ora). simpl. unfold two, lit, nlit. simpl.
    pose proof (Rabs_pos h) as H0. set (t := Rabs h) in *.
    unfold Rltb. destruct (Rlt_dec t 1) as [H1|_]; [|rewrite Rabs_R0; lra].
    pose proof (acos_bound t) as [Ha0 _].
    assert (Ha1 : acos t <= PI / 2).
    { rewrite acos_asin by lra. pose proof (asin_bound t) as [Hb1 Hb2]. assert (0 <= asin t).
      { destruct (Rle_dec 0 (asin t)) as [Hge|Hlt]; [exact Hge|exfalso].
        assert (Hneg : sin (asin t) < 0) by (apply sin_lt_0_var; pose proof PI_RGT_0; lra).
        rewrite sin_asin in Hneg by lra. lra. }
      lra. }
    assert (Hs0 : 0 <= sqrt (1 - t * t)) by apply sqrt_pos.
    assert (Hs1 : t * sqrt (1 - t * t) <= 1 / 2).
    { assert (E : sqrt (1 - t * t) * sqrt (1 - t * t) = 1 - t * t) by (apply sqrt_sqrt; nra).
      pose proof (Rle_0_sqr (t - sqrt (1 - t * t))) as Hsq. unfold Rsqr in Hsq. nra. }
    pose proof PI_RGT_0 as HPI. pose proof PI2_1 as HPI4.
    assert (Hq : 0 < 2 / PI) by (apply div_pos; lra).
    apply Rabs_le. split.
    - assert (-1 <= 2 / PI * (- (1 / 2))).
      { assert (2 / PI * (- (1 / 2)) = - (1 / PI)) by (field; lra). rewrite H.
        assert (1 / PI <= 1). { apply (Rmult_le_reg_r PI); [lra|]. unfold Rdiv. rewrite Rmult_assoc, Rinv_l by lra. lra. } lra. }
      assert (2 / PI * (- (1 / 2)) <= 2 / PI * (acos t - t * sqrt (1 - t * t))).
      { apply Rmult_le_compat_l; [lra|]. assert (0 <= t * sqrt (1 - t * t)) by (apply Rmult_le_pos; lra). lra. }
      lra.
    - assert (2 / PI * (acos t - t * sqrt (1 - t * t)) <= 2 / PI * (PI / 2)).
      { apply Rmult_le_compat_l; [lra|]. assert (0 <= t * sqrt (1 - t * t)) by (apply Rmult_le_pos; lra). lra. }
      assert (2 / PI * (PI / 2) = 1) by (field; lra). lra.
  Qed.

  Theorem cor_bounded_tplsimple nu h : 0 < nu -> Rabs (cor_tplsimple O nu h) <= 1.
  Proof.
    intros Hn. unfold cor_tplsimple. rewrite ?(sq_R ora), ?(nmin_R ora), ?(nmax_R ora). simpl. pose proof (Rabs_pos h).
    assert (Hb : 0 <= Rmax (1 - Rabs h) 0 <= 1).
    { split; [apply Rmax_r|apply Rmax_lub; lra]. }
    rewrite Rabs_pos_eq by (apply Rpowc_nonneg; [apply Hb|exact Hn]).
    apply Rpowc_le_1_small; assumption.
  Qed.

End Spectra.

(* evenness in the lag: every public evaluation function of an elementary class is a function of |r| *)
Theorem elem_functions_even ora c p ell var nugget r :
  correlation_elem (Rops02 ora) c p ell (- r) = correlation_elem (Rops02 ora) c p ell r
  /\ covariance_elem (Rops02 ora) c p ell var (- r) = covariance_elem (Rops02 ora) c p ell var r
  /\ variogram_elem (Rops02 ora) c p ell var nugget (- r) = variogram_elem (Rops02 ora) c p ell var nugget r.
Proof.
  unfold variogram_elem, covariance_elem, correlation_elem. simpl. rewrite Rabs_Ropp. repeat split; reflexivity.
Qed.

(* the sign hypotheses are satisfiable (so no theorem above is vacuous): a constant-1 oracle *)
Example oracle_hypotheses_satisfiable :
  let ora := fun (_ : nat) (_ : list R) => 1 in
  gamma_pos_hyp ora /\ gammainc_nonneg_hyp ora /\ hyp2f1_nonneg_hyp ora.
Proof. simpl. unfold gamma_pos_hyp, gammainc_nonneg_hyp, hyp2f1_nonneg_hyp. repeat split; intros; lra. Qed.
