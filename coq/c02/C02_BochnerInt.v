(* C02_BochnerInt.v — continuous mixtures: a kernel that is a Riemann integral (Coquelicot RInt)
   of valid kernels with a non-negative weight is valid.  Instances: the easy half of Bochner for a
   continuous spectrum along a parametrised family of wave vectors (iterate for boxes), and scale
   mixtures (the truncated-power-law models are integrals of Gaussian / Exponential / Stable modes). *)
From Coq Require Import Reals List Lra Lia.
From Coquelicot Require Import Coquelicot.
From GS Require Import C02_Bochner.
Import ListNotations.
Open Scope R_scope.

Lemma is_RInt_Rsum {A} (l : list A) (f : A -> R -> R) (I : A -> R) a b :
  (forall x, In x l -> is_RInt (f x) a b (I x)) ->
  is_RInt (fun t => Rsum (map (fun x => f x t) l)) a b (Rsum (map I l)).
Proof.
  induction l as [|x l IH]; intros H; simpl.
  - assert (G : forall v : R, v = scal (b - a) 0 -> is_RInt (fun _ : R => 0) a b v).
    { intros v ->. apply (is_RInt_const (V := R_NormedModule) a b 0). }
    apply G. unfold scal; simpl; unfold mult; simpl; ring.
  - apply (is_RInt_plus (V := R_NormedModule)).
    + apply H. left. reflexivity.
    + apply IH. intros y Hy. apply H. right. exact Hy.
Qed.

Lemma is_RInt_qform (pts : list (R * vec)) (Kt : R -> vec -> vec -> R) (K : vec -> vec -> R) a b :
  (forall p q, In p pts -> In q pts -> is_RInt (fun t => Kt t (snd p) (snd q)) a b (K (snd p) (snd q))) ->
  is_RInt (fun t => qform (Kt t) pts) a b (qform K pts).
Proof.
  intros H. unfold qform.
  apply (is_RInt_Rsum pts (fun p t => Rsum (map (fun q => fst p * fst q * Kt t (snd p) (snd q)) pts))
           (fun p => Rsum (map (fun q => fst p * fst q * K (snd p) (snd q)) pts))).
  intros p Hp.
  apply (is_RInt_Rsum pts (fun q t => fst p * fst q * Kt t (snd p) (snd q))
           (fun q => fst p * fst q * K (snd p) (snd q))).
  intros q Hq.
  apply (is_RInt_scal (V := R_NormedModule) (fun t => Kt t (snd p) (snd q)) a b (fst p * fst q)).
  apply H; assumption.
Qed.

Theorem mixture_int_psd d a b (w : R -> R) (Kt : R -> vec -> vec -> R) (K : vec -> vec -> R) :
  a <= b ->
  (forall t, a < t < b -> 0 <= w t) ->
  (forall t, a < t < b -> psd_on d (Kt t)) ->
  (forall x y, length x = d -> length y = d -> is_RInt (fun t => w t * Kt t x y) a b (K x y)) ->
  psd_on d K.
Proof.
  intros Hab Hw HK HI pts Hd.
  assert (HQ : is_RInt (fun t => qform (fun x y => w t * Kt t x y) pts) a b (qform K pts)).
  { apply (is_RInt_qform pts (fun t x y => w t * Kt t x y) K).
    intros p q Hp Hq. unfold same_dim in Hd. rewrite Forall_forall in Hd. apply HI; apply Hd; assumption. }
  rewrite <- (is_RInt_unique _ _ _ _ HQ).
  apply RInt_ge_0; [exact Hab|eexists; exact HQ|].
  intros t Ht. rewrite qform_scal. apply Rmult_le_pos; [apply Hw, Ht|apply HK; assumption].
Qed.

(* easy half of Bochner, continuous spectrum along a curve t |-> kappa t of wave vectors with
   density w t >= 0:  C(h) = int_a^b w(t) cos <kappa t, h> dt *)
Theorem easy_bochner_int d a b (w : R -> R) (kappa : R -> vec) (C : vec -> R) :
  a <= b ->
  (forall t, a < t < b -> 0 <= w t) ->
  (forall h, length h = d -> is_RInt (fun t => w t * cos (dot (kappa t) h)) a b (C h)) ->
  psd_on d (stationary C).
Proof.
  intros Hab Hw HI.
  apply (mixture_int_psd d a b w (fun t => cosk (kappa t)) (stationary C) Hab Hw).
  - intros t _. apply cos_kernel_psd.
  - intros x y Hx Hy. unfold cosk, stationary. apply HI. rewrite vsub_length; congruence.
Qed.

(* the hypotheses are satisfiable: the 1-D "Wave" covariance sin(h)/h * (b-a) written as the integral
   of cos(t h) over t in [0,1] with w = 1 *)
Example easy_bochner_int_instance :
  psd_on 1 (stationary (fun h => RInt (fun t => 1 * cos (dot [t] h)) 0 1)).
Proof.
  apply (easy_bochner_int 1 0 1 (fun _ => 1) (fun t => [t])); [lra|intros; lra|].
  intros h _. apply (RInt_correct (V := R_CompleteNormedModule)).
  apply (ex_RInt_continuous (V := R_CompleteNormedModule)). intros t _.
  apply continuity_pt_filterlim. apply continuity_pt_mult; [apply continuity_pt_const; intros ? ?; reflexivity|].
  apply (continuity_pt_comp (fun t => dot [t] h) cos); [|apply continuity_cos].
  destruct h as [|h0 h]; unfold dot; simpl.
  - apply continuity_pt_const. intros ? ?. reflexivity.
  - apply continuity_pt_plus; [|apply continuity_pt_const; intros ? ?; reflexivity].
    apply continuity_pt_mult; [apply derivable_continuous_pt, derivable_pt_id|apply continuity_pt_const; intros ? ?; reflexivity].
Qed.
