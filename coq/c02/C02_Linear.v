(* C02_Linear.v — an instance of the mixture theorem for a class WITHOUT analytic spectrum: the Linear
   (triangle) model is valid in 1-D, exactly as its docstring derives it: rho(x - y) is the length of the
   overlap of the unit intervals [x-1, x] and [y-1, y], i.e. the integral over t of the rank-one kernels
   1[t <= x <= t+1] * 1[t <= y <= t+1]. *)
From Coq Require Import Reals List Lra Lia.
From Coquelicot Require Import Coquelicot.
From GS Require Import C02_Bochner C02_BochnerInt.
Import ListNotations.
Open Scope R_scope.

(* the mixture theorem for ONE point set (the integration interval may depend on the point set) *)
Lemma mixture_int_qform a b (w : R -> R) (Kt : R -> vec -> vec -> R) (K : vec -> vec -> R) (pts : list (R * vec)) :
  a <= b ->
  (forall t, a < t < b -> 0 <= w t) ->
  (forall t, a < t < b -> 0 <= qform (Kt t) pts) ->
  (forall p q, In p pts -> In q pts ->
     is_RInt (fun t => w t * Kt t (snd p) (snd q)) a b (K (snd p) (snd q))) ->
  0 <= qform K pts.
Proof.
  intros Hab Hw HK HI.
  assert (HQ : is_RInt (fun t => qform (fun x y => w t * Kt t x y) pts) a b (qform K pts)).
  { apply (is_RInt_qform pts (fun t x y => w t * Kt t x y) K). exact HI. }
  rewrite <- (is_RInt_unique _ _ _ _ HQ).
  apply RInt_ge_0; [exact Hab|eexists; exact HQ|].
  intros t Ht. rewrite qform_scal. apply Rmult_le_pos; [apply Hw, Ht|apply HK, Ht].
Qed.

Definition ind (c d t : R) : R := if Rle_dec c t then (if Rle_dec t d then 1 else 0) else 0.

(* integral of the indicator of [c, d] over [a, b] when a <= c, d <= b *)
Lemma is_RInt_ind a b c d : a <= c -> d <= b -> a <= b ->
  is_RInt (ind c d) a b (Rmax (d - c) 0).
Proof.
  intros Hac Hdb Hab.
  destruct (Rle_dec c d) as [Hcd|Hcd].
  - rewrite Rmax_left by lra.
    replace (d - c) with (plus (plus (scal (c - a) 0) (scal (d - c) 1)) (scal (b - d) 0))
      by (unfold plus, scal; simpl; unfold mult; simpl; ring).
    apply (is_RInt_Chasles (V := R_NormedModule) _ a d b).
    + apply (is_RInt_Chasles (V := R_NormedModule) _ a c d).
      * apply (is_RInt_ext (V := R_NormedModule) (fun _ => 0)); [|apply (is_RInt_const (V := R_NormedModule))].
        intros t Ht. rewrite Rmin_left, Rmax_right in Ht by lra. unfold ind.
        destruct (Rle_dec c t); [lra|reflexivity].
      * apply (is_RInt_ext (V := R_NormedModule) (fun _ => 1)); [|apply (is_RInt_const (V := R_NormedModule))].
        intros t Ht. rewrite Rmin_left, Rmax_right in Ht by lra. unfold ind.
        destruct (Rle_dec c t); [|lra]. destruct (Rle_dec t d); [reflexivity|lra].
    + apply (is_RInt_ext (V := R_NormedModule) (fun _ => 0)); [|apply (is_RInt_const (V := R_NormedModule))].
      intros t Ht. rewrite Rmin_left, Rmax_right in Ht by lra. unfold ind.
      destruct (Rle_dec c t); [|reflexivity]. destruct (Rle_dec t d); [lra|reflexivity].
  - rewrite Rmax_right by lra.
    assert (G : forall v : R, v = scal (b - a) 0 -> is_RInt (ind c d) a b v).
    { intros v ->.
      apply (is_RInt_ext (V := R_NormedModule) (fun _ => 0)); [|apply (is_RInt_const (V := R_NormedModule))].
      intros t _. unfold ind. destruct (Rle_dec c t); [|reflexivity]. destruct (Rle_dec t d); [lra|reflexivity]. }
    apply G. unfold scal; simpl; unfold mult; simpl; ring.
Qed.

(* the rank-one kernels: u_t(x) = 1[t <= x <= t + 1] *)
Definition coord (x : vec) : R := nth 0 x 0.
Definition u (t : R) (x : vec) : R := ind (coord x - 1) (coord x) t.
Definition tri (h : R) : R := Rmax (1 - Rabs h) 0.

Lemma u_prod t x y : u t x * u t y = ind (Rmax (coord x) (coord y) - 1) (Rmin (coord x) (coord y)) t.
Proof.
  unfold u, Rmax, Rmin. destruct (Rle_dec (coord x) (coord y)); unfold ind;
  repeat match goal with |- context [Rle_dec ?a ?b] => destruct (Rle_dec a b) end; try lra.
Qed.

Lemma tri_overlap x y : Rmax (Rmin x y - (Rmax x y - 1)) 0 = tri (x - y).
Proof.
  unfold tri, Rabs, Rmin, Rmax. destruct (Rcase_abs (x - y)); destruct (Rle_dec x y);
  repeat match goal with |- context [Rle_dec ?a ?b] => destruct (Rle_dec a b) end; try lra.
Qed.

Lemma coord_vsub x y : length x = 1%nat -> length y = 1%nat -> coord (vsub x y) = coord x - coord y.
Proof.
  destruct x as [|x0 [|? ?]], y as [|y0 [|? ?]]; simpl; intros; try discriminate. reflexivity.
Qed.

(* bounds of the coordinates of a finite point set *)
Lemma coords_bounded (pts : list (R * vec)) :
  exists m M, m <= M /\ forall p, In p pts -> m <= coord (snd p) <= M.
Proof.
  induction pts as [|p pts (m & M & HmM & H)].
  - exists 0, 0. split; [lra|intros ? []].
  - exists (Rmin m (coord (snd p))), (Rmax M (coord (snd p))). split.
    + apply Rle_trans with m; [apply Rmin_l|]. apply Rle_trans with M; [exact HmM|apply Rmax_l].
    + intros q [<-|Hq].
      * split; [apply Rmin_r|apply Rmax_r].
      * destruct (H q Hq). split; [eapply Rle_trans; [apply Rmin_l|eassumption]|eapply Rle_trans; [eassumption|apply Rmax_l]].
Qed.

Theorem linear_model_valid_1d : psd_on 1 (stationary (fun h => tri (coord h))).
Proof.
  intros pts Hd. unfold same_dim in Hd. rewrite Forall_forall in Hd.
  destruct (coords_bounded pts) as (m & M & HmM & Hb).
  apply (mixture_int_qform (m - 1) M (fun _ => 1) (fun t x y => u t x * u t y)); [lra|intros; lra| |].
  - intros t _. rewrite qform_rank1. apply Rle_0_sqr.
  - intros p q Hp Hq. unfold stationary.
    rewrite coord_vsub by (apply Hd; assumption).
    rewrite <- tri_overlap.
    apply (is_RInt_ext (V := R_NormedModule) (ind (Rmax (coord (snd p)) (coord (snd q)) - 1) (Rmin (coord (snd p)) (coord (snd q))))).
    + intros t _. rewrite u_prod. symmetry. apply Rmult_1_l.
    + destruct (Hb p Hp), (Hb q Hq).
      apply is_RInt_ind; [|apply Rmin_case; lra|lra].
      apply Rplus_le_compat_r. apply Rmax_case; lra.
Qed.

(* the code's Linear.cor at any length scale (the lag is divided by len_rescaled: a linear map) *)
From GS Require Import Num Loops RInst C02_Model C02_RInst.
Theorem linear_cor_valid_1d ora ell : 0 < ell ->
  psd_on 1 (stationary (fun h => cor_linear (Rops02 ora) (coord h / ell))).
Proof.
  intros Hl.
  apply (psd_ext 1 (stationary (fun h => tri (coord (matvec [[/ ell]] h))))).
  - intros x y Hx Hy. unfold stationary, cor_linear. rewrite (nmax_R ora). simpl. unfold tri.
    assert (Hlen : length (vsub x y) = 1%nat) by (rewrite vsub_length; congruence).
    destruct (vsub x y) as [|h0 [|? ?]]; try discriminate. unfold coord, matvec, dot. simpl.
    replace (/ ell * h0 + 0) with (h0 / ell) by (field; lra). reflexivity.
  - apply (linear_map_psd 1 1 [[/ ell]] (fun h => tri (coord h))); [reflexivity|].
    exact linear_model_valid_1d.
Qed.
