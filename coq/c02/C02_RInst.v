(* C02_RInst.v — the real-number instance used by the C02 theorems: lib/RInst.v's instance except for
   [npow], which keeps C's pow(0, y) = 0 for non-integer y > 0 (Coq's Rpower 0 y is 1): TPLSimple
   evaluates max(1 - h, 0) ** nu at the range edge and Stable evaluates 0 ** alpha at lag 0. *)
From Coq Require Import Reals Lra Lia ZArith List Bool.
From GS Require Import Num Loops Formulas RInst C02_Model.
Import ListNotations.
Open Scope R_scope.

Definition Rpowc (x y : R) : R :=
  if Req_EM_T y (IZR (Int_part y)) then powerRZ x (Int_part y)
  else if Rle_dec x 0 then 0 else Rpower x y.

Definition Rops02 (ora : nat -> list R -> R) : NumOps R := {|
  n0 := 0; n1 := 1;
  nadd := Rplus; nsub := Rminus; nmul := Rmult; ndiv := Rdiv;
  nneg := Ropp; nabs := Rabs; nsqrt := sqrt;
  ncos := cos; nsin := sin; nexp := exp; nln := ln;
  nacos := acos; nasin := asin; natan := atan; natan2 := Ratan2;
  npow := Rpowc;
  nltb := Rltb; nleb := Rleb; neqb := Reqb;
  nisnan := fun _ => false;
  nofZ := IZR;
  npi := PI;
  noracle := ora
|}.

Lemma Rpowc_IZR x n : Rpowc x (IZR n) = powerRZ x n.
Proof. unfold Rpowc. rewrite Int_part_IZR. destruct (Req_EM_T (IZR n) (IZR n)); [reflexivity|contradiction]. Qed.

Lemma Rpowc_Rpower x y : 0 < x -> Rpowc x y = Rpower x y.
Proof.
  intros Hx. unfold Rpowc. destruct (Req_EM_T y (IZR (Int_part y))) as [E|E].
  - rewrite E at 2. symmetry. rewrite <- powerRZ_Rpower by exact Hx. reflexivity.
  - destruct (Rle_dec x 0); [lra|reflexivity].
Qed.

Lemma Rpowc_pos x y : 0 < x -> 0 < Rpowc x y.
Proof. intros Hx. rewrite Rpowc_Rpower by exact Hx. unfold Rpower. apply exp_pos. Qed.

Lemma Rpowc_zero y : 0 < y -> Rpowc 0 y = 0.
Proof.
  intros Hy. unfold Rpowc. destruct (Req_EM_T y (IZR (Int_part y))) as [E|E].
  - assert (Hz : (0 < Int_part y)%Z) by (apply lt_IZR; rewrite <- E; exact Hy).
    destruct (Int_part y) as [|p|p]; try lia. simpl. apply pow_i. lia.
  - destruct (Rle_dec 0 0); [reflexivity|lra].
Qed.

Lemma Rpowc_nonneg x y : 0 <= x -> 0 < y -> 0 <= Rpowc x y.
Proof.
  intros [Hx | <-] Hy; [left; apply Rpowc_pos, Hx|rewrite Rpowc_zero by exact Hy; lra].
Qed.

Lemma Rpowc_one y : Rpowc 1 y = 1.
Proof. rewrite Rpowc_Rpower by lra. unfold Rpower. rewrite ln_1, Rmult_0_r. apply exp_0. Qed.

Lemma exp_le_1 t : t <= 0 -> exp t <= 1.
Proof.
  intros [H | ->]; [|rewrite exp_0; lra]. rewrite <- exp_0. left. apply exp_increasing, H.
Qed.

(* base >= 1 and exponent <= 0 *)
Lemma Rpowc_le_1_big x y : 1 <= x -> y <= 0 -> Rpowc x y <= 1.
Proof.
  intros Hx Hy. rewrite Rpowc_Rpower by lra. unfold Rpower. apply exp_le_1.
  assert (0 <= ln x) by (rewrite <- ln_1; destruct Hx as [Hx | <-]; [left; apply ln_increasing; lra|lra]).
  nra.
Qed.

(* 0 <= base <= 1 and exponent > 0 *)
Lemma Rpowc_le_1_small x y : 0 <= x <= 1 -> 0 < y -> Rpowc x y <= 1.
Proof.
  intros [[Hx | <-] Hx1] Hy; [|rewrite Rpowc_zero by exact Hy; lra].
  rewrite Rpowc_Rpower by lra. unfold Rpower. apply exp_le_1.
  assert (ln x <= 0) by (rewrite <- ln_1; destruct Hx1 as [Hx1 | ->]; [left; apply ln_increasing; lra|lra]).
  nra.
Qed.

Lemma Rpowc_2 x : Rpowc x 2 = x * x.
Proof. rewrite (Rpowc_IZR x 2). simpl. ring. Qed.
Lemma Rpowc_3 x : Rpowc x 3 = x * x * x.
Proof. rewrite (Rpowc_IZR x 3). simpl. ring. Qed.
Lemma Rpowc_5 x : Rpowc x 5 = x * x * x * x * x.
Proof. rewrite (Rpowc_IZR x 5). simpl. ring. Qed.
Lemma Rpowc_7 x : Rpowc x 7 = x * x * x * x * x * x * x.
Proof. rewrite (Rpowc_IZR x 7). simpl. ring. Qed.

Section Unfold.
  Variable ora : nat -> list R -> R.
  Let O := Rops02 ora.
  Lemma sq_R x : sq O x = x * x.
  Proof. unfold sq, two, lit, nlit. simpl. apply Rpowc_2. Qed.
  Lemma sq_nonneg x : 0 <= sq O x.
  Proof. rewrite sq_R. apply Rle_0_sqr. Qed.
  Lemma nmin_R a b : nmin O a b = Rmin a b.
  Proof.
    unfold nmin, fmin. simpl. unfold Rltb, Rmin. destruct (Rlt_dec b a), (Rle_dec a b); try lra; reflexivity.
  Qed.
  Lemma nmax_R a b : nmax O a b = Rmax a b.
  Proof.
    unfold nmax, fmax. simpl. unfold Rltb, Rmax. destruct (Rlt_dec a b), (Rle_dec a b); try lra; reflexivity.
  Qed.
  Lemma isclose0_R k : isclose0 O k = Rleb (Rabs k) (1 / 100000000).
  Proof.
    unfold isclose0, fisclose, nlit. simpl. rewrite Rminus_0_r, Rabs_R0.
    unfold Rleb. destruct (Rle_dec (Rabs k) _), (Rle_dec (Rabs k) _); try reflexivity; exfalso; lra.
  Qed.
  Lemma isclose0_true k : isclose0 O k = true <-> Rabs k <= 1 / 100000000.
  Proof. rewrite isclose0_R. apply Rleb_true. Qed.
  Lemma isclose0_false k : isclose0 O k = false <-> 1 / 100000000 < Rabs k.
  Proof. rewrite isclose0_R. apply Rleb_false. Qed.
  Lemma ilit_R n : ilit O n = IZR n.
  Proof.
    unfold ilit. destruct (n =? 0)%Z eqn:E0; [apply Z.eqb_eq in E0; subst; reflexivity|].
    destruct (n =? 1)%Z eqn:E1; [apply Z.eqb_eq in E1; subst; reflexivity|]. reflexivity.
  Qed.
End Unfold.
