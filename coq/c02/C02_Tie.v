(* C02_Tie.v — the hand model of c02/C02_Model.v equals the formulas translated from /repo on this run
   (gen/Formulas_gen.v, tools/py2coq.py), for EVERY number type: the two terms coincide up to unfolding and,
   where numpy's masked assignments became a chain of [if]s, up to a case split on the mask.  The integer
   attribute [dim] arrives as a T-valued parameter: it is instantiated with [nofZ O dim]. *)
From Coq Require Import ZArith List Bool.
From GS Require Import Num Loops Formulas Formulas_gen C02_Model.
Import ListNotations.

Section Tie.
Context {T : Type} (O : NumOps T).

(* ---- the nine elementary cor *)
Lemma Gaussian_cor_tie h : Gaussian_cor O h = cor_gaussian O h.
Proof. reflexivity. Qed.
Lemma Exponential_cor_tie h : Exponential_cor O h = cor_exponential O h.
Proof. reflexivity. Qed.
Lemma Stable_cor_tie alpha h : Stable_cor O alpha h = cor_stable O alpha h.
Proof. reflexivity. Qed.
Lemma Rational_cor_tie alpha h : Rational_cor O alpha h = cor_rational O alpha h.
Proof. reflexivity. Qed.
Lemma Cubic_cor_tie h : Cubic_cor O h = cor_cubic O h.
Proof. reflexivity. Qed.
Lemma Linear_cor_tie h : Linear_cor O h = cor_linear O h.
Proof. reflexivity. Qed.
Lemma Circular_cor_tie h : Circular_cor O h = cor_circular O h.
Proof. reflexivity. Qed.
Lemma Spherical_cor_tie h : Spherical_cor O h = cor_spherical O h.
Proof. reflexivity. Qed.
Lemma TPLSimple_cor_tie nu h : TPLSimple_cor O nu h = cor_tplsimple O nu h.
Proof. reflexivity. Qed.

(* ---- the eight analytic spectral densities *)
Lemma Gaussian_spectral_density_tie dim ell k :
  Gaussian_spectral_density O ell (nofZ O dim) k = sd_gaussian O dim ell k.
Proof. reflexivity. Qed.
Lemma Exponential_spectral_density_tie dim ell k :
  Exponential_spectral_density O ell (nofZ O dim) k = sd_exponential O dim ell k.
Proof. reflexivity. Qed.
Lemma Matern_spectral_density_tie dim ell nu k :
  Matern_spectral_density O ell nu (nofZ O dim) k = sd_matern O dim ell nu k.
Proof. reflexivity. Qed.
Lemma Integral_spectral_density_tie dim ell nu k :
  Integral_spectral_density O ell (nofZ O dim) nu k = sd_integral O dim ell nu k.
Proof.
  unfold Integral_spectral_density, sd_integral, isclose0, fifty, lit. cbv zeta.
  destruct (nltb O (nlit O 50 0) nu); [reflexivity|].
  destruct (fisclose O k (n0 O)); reflexivity.
Qed.
Lemma HyperSpherical_spectral_density_tie dim ell k :
  HyperSpherical_spectral_density O ell (nofZ O dim) k = sd_hyperspherical O dim ell k.
Proof.
  unfold HyperSpherical_spectral_density, sd_hyperspherical, isclose0. cbv zeta.
  destruct (fisclose O k (n0 O)); reflexivity.
Qed.
Lemma JBessel_spectral_density_tie dim ell nu k :
  JBessel_spectral_density O ell (nofZ O dim) nu k = sd_jbessel O dim ell nu k.
Proof. reflexivity. Qed.

Lemma tpl_exp_spec_dens_base_tie dim ell hurst k :
  tpl_exp_spec_dens_base O k (nofZ O dim) ell hurst = sd_tplexp0 O dim ell hurst k.
Proof. reflexivity. Qed.
Lemma tpl_exp_spec_dens_tie dim ell hurst len_low k :
  tpl_exp_spec_dens O k (nofZ O dim) ell hurst len_low = sd_tplexp O dim ell hurst len_low k.
Proof. reflexivity. Qed.
Lemma TPLExponential_spectral_density_tie dim ell hurst len_low k :
  TPLExponential_spectral_density O (nofZ O dim) ell hurst len_low k = sd_tplexp O dim ell hurst len_low k.
Proof. reflexivity. Qed.

Lemma tpl_gau_spec_dens_base_tie dim ell hurst k :
  tpl_gau_spec_dens_base O k (nofZ O dim) ell hurst = sd_tplgau0 O dim ell hurst k.
Proof.
  unfold tpl_gau_spec_dens_base, sd_tplgau0, lit, sq, two, lit. cbv zeta.
  destruct (nltb O (nlit O 1 1) _); reflexivity.
Qed.
Lemma tpl_gau_spec_dens_tie dim ell hurst len_low k :
  tpl_gau_spec_dens O k (nofZ O dim) ell hurst len_low = sd_tplgau O dim ell hurst len_low k.
Proof.
  unfold sd_tplgau, sd_tpl. rewrite <- !tpl_gau_spec_dens_base_tie.
  unfold tpl_gau_spec_dens. destruct (neqb O len_low (n0 O)); reflexivity.
Qed.
Lemma TPLGaussian_spectral_density_tie dim ell hurst len_low k :
  TPLGaussian_spectral_density O (nofZ O dim) ell hurst len_low k = sd_tplgau O dim ell hurst len_low k.
Proof. unfold TPLGaussian_spectral_density. apply tpl_gau_spec_dens_tie. Qed.
End Tie.
