(* C02_Model.v — Gallina model (generic number type) of the parts of GSTools that decide where a shipped
   covariance model claims validity, and of the analytic formulas whose sign is proved:

   modelled code                                                        model
   covmodel/models.py, tpl_models.py  default_opt_arg_bounds()            opt_bounds
                                      default_opt_arg()                   opt_default
                                      check_dim(dim)                      check_dim
   covmodel/tools.py  check_arg_in_bounds (error code 0..4)               arg_error
   covmodel/models.py  cor of Gaussian Exponential Stable Rational Cubic
                       Linear Circular Spherical, tpl_models TPLSimple    cor_*
   covmodel/models.py  spectral_density of Gaussian Exponential Matern
                       Integral HyperSpherical JBessel                    sd_*
   tools/special.py    tpl_exp_spec_dens, tpl_gau_spec_dens (len_low == 0
                       branch and the len_low > 0 combination)            sd_tplexp*, sd_tplgau*
   scipy special functions are [noracle O code args]. numpy's masks are modelled on one scalar. *)
From Coq Require Import ZArith List Bool.
From GS Require Import Num Loops Formulas.
Import ListNotations.

Inductive cls :=
  | Gaussian | Exponential | Matern | Integral | Stable | Rational | Cubic | Linear | Circular
  | Spherical | HyperSpherical | SuperSpherical | JBessel | TPLGaussian | TPLExponential | TPLStable
  | TPLSimple.
Definition all_cls : list cls :=
  [Gaussian; Exponential; Matern; Integral; Stable; Rational; Cubic; Linear; Circular; Spherical;
   HyperSpherical; SuperSpherical; JBessel; TPLGaussian; TPLExponential; TPLStable; TPLSimple].
Definition cls_of_nat (n : nat) : cls := nth n all_cls Gaussian.

(* optional-argument names *)
Inductive oname := Nu | Alpha | Hurst | LenLow.
Definition oname_code (n : oname) : Z :=
  match n with Nu => 0 | Alpha => 1 | Hurst => 2 | LenLow => 3 end%Z.

(* check_dim: which dimensions a class accepts without "Dimension d is not appropriate" *)
Definition check_dim (c : cls) (dim : Z) : bool :=
  match c with
  | Linear => (dim <? 2)%Z
  | Circular => (dim <? 3)%Z
  | Spherical => (dim <? 4)%Z
  | Cubic => (dim <? 4)%Z
  | _ => true
  end.

Section Model.
Context {T : Type} (O : NumOps T).

Local Notation "a +! b" := (nadd O a b) (at level 50, left associativity).
Local Notation "a -! b" := (nsub O a b) (at level 50, left associativity).
Local Notation "a *! b" := (nmul O a b) (at level 40, left associativity).
Local Notation "a /! b" := (ndiv O a b) (at level 40, left associativity).
Local Notation zero := (n0 O).
Local Notation one := (n1 O).
Definition lit (p : Z) (k : nat) : T := nlit O p k.
Definition two : T := lit 2 0.
Definition ofZ (z : Z) : T := nofZ O z.
Definition gamma (x : T) : T := noracle O ORA_GAMMA [x].
Definition loggamma (x : T) : T := noracle O ORA_LOGGAMMA [x].
Definition jv (nu x : T) : T := noracle O ORA_JV [nu; x].
Definition hyp2f1 (a b c x : T) : T := noracle O ORA_HYP2F1 [a; b; c; x].
(* gstools.tools.special.inc_gamma_low(s, x): the lower incomplete gamma function (the translator's meaning of this code) *)
Definition inc_gamma_low (s x : T) : T := noracle O ORA_INCGAMMA_LOW [s; x].
(* integer literals as the translator renders them: 0, 1, other *)
Definition ilit (n : Z) : T := if (n =? 0)%Z then zero else if (n =? 1)%Z then one else nlit O n 0.

(* np.minimum / np.maximum on non-NaN scalars, np.isclose(a, 0): the helpers of lib/Formulas.v *)
Definition nmin (a b : T) : T := fmin O a b.
Definition nmax (a b : T) : T := fmax O a b.
Definition isclose0 (a : T) : bool := fisclose O a zero.

(* ---------- bounds *)
Record bound := mkB { b_lo : T; b_hi : option T; b_lo_closed : bool; b_hi_closed : bool }.
Definition cc lo hi := mkB lo (Some hi) true true.
Definition fifty : T := lit 50 0.

(* default_opt_arg_bounds(), in the insertion order of the returned dict; [a, b] without a type is "cc" *)
Definition opt_bounds (c : cls) (dim : Z) : list (oname * bound) :=
  match c with
  | Stable => [(Alpha, mkB zero (Some two) false true)]
  | Matern => [(Nu, cc (lit 2 1) (lit 30 0))]
  | Integral => [(Nu, mkB zero (Some fifty) false true)]
  | Rational => [(Alpha, cc (lit 5 1) fifty)]
  | SuperSpherical => [(Nu, cc ((ofZ dim -! one) /! two) fifty)]
  | JBessel => [(Nu, cc (ofZ dim /! two -! one) fifty)]
  | TPLGaussian | TPLExponential =>
      [(Hurst, mkB (lit 1 1) (Some one) false false); (LenLow, mkB zero None true false)]
  | TPLStable =>
      [(Hurst, mkB (lit 1 1) (Some one) false false); (Alpha, mkB zero (Some two) false true);
       (LenLow, mkB zero None true false)]
  | TPLSimple => [(Nu, cc ((ofZ dim +! one) /! two) fifty)]
  | _ => []
  end.

(* default_arg_bounds(): var (0, inf) "oo", len_scale (0, inf) "oo", nugget [0, inf) "co", anis (0, inf) "oo" *)
Inductive bname := BVar | BLenScale | BNugget | BAnis.
Definition bname_of_Z (z : Z) : bname :=
  if (z =? 0)%Z then BVar else if (z =? 1)%Z then BLenScale else if (z =? 2)%Z then BNugget else BAnis.
Definition base_bound (b : bname) : bound :=
  match b with BNugget => mkB zero None true false | _ => mkB zero None false false end.

(* default_opt_arg() *)
Definition opt_default (c : cls) (dim : Z) : list (oname * T) :=
  match c with
  | Stable => [(Alpha, lit 15 1)]
  | Matern => [(Nu, one)]
  | Integral => [(Nu, one)]
  | Rational => [(Alpha, one)]
  | SuperSpherical => [(Nu, (ofZ dim -! one) /! two)]
  | JBessel => [(Nu, ofZ dim /! two)]
  | TPLGaussian => [(Hurst, lit 5 1); (LenLow, zero)]
  | TPLExponential => [(Hurst, lit 25 2); (LenLow, zero)]
  | TPLStable => [(Hurst, lit 5 1); (Alpha, lit 15 1); (LenLow, zero)]
  | TPLSimple => [(Nu, (ofZ dim +! one) /! two)]
  | _ => []
  end.

(* check_arg_in_bounds: 0 = inside, 1: val < lo (closed), 2: val <= lo (open), 3: val > hi (closed),
   4: val >= hi (open); the upper test overrides the lower one, as in the code *)
Definition arg_error (b : bound) (v : T) : Z :=
  let e1 := (if b_lo_closed b then (if nltb O v (b_lo b) then 1 else 0)
             else (if nleb O v (b_lo b) then 2 else 0))%Z in
  match b_hi b with
  | None => e1
  | Some hi =>
      (if b_hi_closed b then (if nltb O hi v then 3 else e1)
       else (if nleb O hi v then 4 else e1))%Z
  end.

Definition in_bounds (b : bound) (v : T) : bool := (arg_error b v =? 0)%Z.

Fixpoint lookup (n : oname) (l : list (oname * bound)) : option bound :=
  match l with
  | [] => None
  | (m, b) :: t => if (oname_code m =? oname_code n)%Z then Some b else lookup n t
  end.

(* ---------- elementary normalised correlations cor(h), h = r / len_rescaled >= 0 *)
Definition sq (x : T) : T := npow O x two.                   (* x ** 2 *)
Definition cor_gaussian (h : T) : T := nexp O (nneg O (sq h)).
Definition cor_exponential (h : T) : T := nexp O (nneg O h).
Definition cor_stable (alpha h : T) : T := nexp O (nneg O (npow O h alpha)).
Definition cor_rational (alpha h : T) : T := npow O (one +! sq h /! alpha) (nneg O alpha).
Definition cor_cubic (h : T) : T :=
  let h := nmin (nabs O h) one in
  one -! lit 7 0 *! sq h +! lit 875 2 *! npow O h (lit 3 0) -! lit 35 1 *! npow O h (lit 5 0)
  +! lit 75 2 *! npow O h (lit 7 0).
Definition cor_linear (h : T) : T := nmax (one -! nabs O h) zero.
Definition cor_spherical (h : T) : T :=
  let h := nmin (nabs O h) one in one -! lit 15 1 *! h +! lit 5 1 *! npow O h (lit 3 0).
Definition cor_circular (h : T) : T :=
  let h := nabs O h in
  if nltb O h one then two /! npi O *! (nacos O h -! h *! nsqrt O (one -! sq h)) else zero.
Definition cor_tplsimple (nu h : T) : T := npow O (nmax (one -! nabs O h) zero) nu.

(* ---------- covmodel/tools.py _init_subclass: correlation_from_cor (the wrapper every class with a cor gets),
   covariance, variogram:  r = |r| ; cor(r / len_rescaled).  [p] is the one optional argument (alpha / nu), if any. *)
Definition cor_elem (c : cls) (p h : T) : option T :=
  match c with
  | Gaussian => Some (cor_gaussian h) | Exponential => Some (cor_exponential h)
  | Stable => Some (cor_stable p h) | Rational => Some (cor_rational p h)
  | Cubic => Some (cor_cubic h) | Linear => Some (cor_linear h) | Circular => Some (cor_circular h)
  | Spherical => Some (cor_spherical h) | TPLSimple => Some (cor_tplsimple p h)
  | _ => None
  end.
Definition correlation_elem (c : cls) (p ell r : T) : option T := cor_elem c p (nabs O r /! ell).
Definition covariance_elem (c : cls) (p ell var r : T) : option T :=
  option_map (fun x => var *! x) (correlation_elem c p ell r).
Definition variogram_elem (c : cls) (p ell var nugget r : T) : option T :=
  option_map (fun x => var -! x +! nugget) (covariance_elem c p ell var r).

(* ---------- analytic spectral densities; ell = len_rescaled, k = wave number (radius) *)
Definition sqrtpi : T := nsqrt O (npi O).
Definition half_dim (dim : Z) : T := ofZ dim /! two.

Definition sd_gaussian (dim : Z) (ell k : T) : T :=
  npow O (ell /! two /! sqrtpi) (ofZ dim) *! nexp O (nneg O (sq (k *! ell /! two))).

Definition sd_exponential (dim : Z) (ell k : T) : T :=
  let e := (ofZ dim +! one) /! two in
  npow O ell (ofZ dim) *! gamma e /! npow O (npi O *! (one +! sq (k *! ell))) e.

Definition sd_matern (dim : Z) (ell nu k : T) : T :=
  let x := sq (k *! ell) in
  if nltb O (lit 20 0) nu then     (* the Gaussian limit that cor uses for nu > 20 *)
    npow O (ell /! sqrtpi) (ofZ dim) *! nexp O (nneg O x)
  else
    npow O (ell /! sqrtpi) (ofZ dim)
    *! nexp O (nneg O (nu +! half_dim dim) *! nln O (one +! x /! nu)
               +! loggamma (nu +! half_dim dim) -! loggamma nu -! ofZ dim *! nln O (nsqrt O nu)).

Definition sd_integral (dim : Z) (ell nu k : T) : T :=
  let fac := npow O (lit 5 1 *! ell /! sqrtpi) (ofZ dim) in
  let lim := fac *! nu /! (nu +! ofZ dim) in
  if nltb O fifty nu then
    let x := sq (k *! ell /! two) in
    lim *! nexp O (nneg O x) *! (one +! two *! x /! (nu +! ofZ dim +! two))
  else
    let s := (nu +! ofZ dim) /! two in
    if isclose0 k then lim
    else let x := sq (k *! ell /! two) in
         lit 5 1 *! nu *! fac /! npow O x s *! inc_gamma_low s x.

Definition sd_hyperspherical (dim : Z) (ell k : T) : T :=
  if isclose0 k then
    npow O (ell /! lit 4 0) (ofZ dim) /! gamma (half_dim dim +! one) /! npow O sqrtpi (ofZ dim)
  else
    gamma (half_dim dim +! one) /! npow O sqrtpi (ofZ dim)
    *! sq (jv (half_dim dim) (k *! ell /! two)) /! npow O k (ofZ dim).

Definition sd_jbessel (dim : Z) (ell nu k : T) : T :=
  if nltb O k (one /! ell) then
    npow O (ell /! sqrtpi) (ofZ dim) *! gamma (nu +! one)
    /! gamma (nmax (nu -! half_dim dim +! one) (lit 1 2))
    *! npow O (one -! sq (k *! ell)) (nu -! half_dim dim)
  else zero.

(* tpl_exp_spec_dens, branch len_low == 0 *)
Definition sd_tplexp0 (dim : Z) (ell hurst k : T) : T :=
  let z := sq (k *! ell) in
  let a := hurst +! half_dim dim in
  let b := hurst +! lit 5 1 in
  let c := hurst +! half_dim dim +! one in
  let d := half_dim dim +! lit 5 1 in
  let fac := npow O ell (ofZ dim) *! hurst *! gamma d /! (npow O (npi O) d *! a) in
  fac /! npow O (one +! z) a *! hyp2f1 a b c (z /! (one +! z)).

(* the loop  term = 1; series = 0; for n in range(cnt): series += term / (a + n); term *= -z / (n + 1.0) *)
Fixpoint gau_series (cnt : nat) (n : Z) (a z term series : T) : T :=
  match cnt with
  | 0%nat => series
  | S c => gau_series c (n + 1)%Z a z (term *! (nneg O z /! (ilit n +! one))) (series +! term /! (a +! ilit n))
  end.

(* tpl_gau_spec_dens, branch len_low == 0 *)
Definition sd_tplgau0 (dim : Z) (ell hurst k : T) : T :=
  let z := sq (k *! ell /! two) in
  let a := hurst +! half_dim dim in
  let fac := npow O (ell /! two) (ofZ dim) *! hurst /! npow O (npi O) (half_dim dim) in
  if nltb O (lit 1 1) z then fac *! inc_gamma_low a z /! npow O z a
  else fac *! gau_series 12 0 a z one zero.

(* both: len_low > 0 is the normalised difference of the two len_low = 0 spectra *)
Definition sd_tpl (sd0 : T -> T) (ell hurst len_low : T) : T :=
  if neqb O len_low zero then sd0 ell
  else
    let fac_up := npow O (ell +! len_low) (two *! hurst) in
    let fac_low := npow O len_low (two *! hurst) in
    (fac_up *! sd0 (ell +! len_low) -! fac_low *! sd0 len_low) /! (fac_up -! fac_low).
Definition sd_tplexp (dim : Z) (ell hurst len_low k : T) : T :=
  sd_tpl (fun l => sd_tplexp0 dim l hurst k) ell hurst len_low.
Definition sd_tplgau (dim : Z) (ell hurst len_low k : T) : T :=
  sd_tpl (fun l => sd_tplgau0 dim l hurst k) ell hurst len_low.

End Model.
