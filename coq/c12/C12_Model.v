(* C12_Model.v — Gallina model of gstools/tools/geometric.py (rotation / anisotropy matrices) and of the
   CovModel methods that use them (covmodel/base.py: isometrize, anisometrize, main_axes, _get_iso_rad,
   len_scale_vec, cov_axis argument; covmodel/tools.py: set_len_anis, set_model_angles).
   Written once, generic in the number type: proved about at R (C12_Proofs.v), executed at OCaml floats
   through the extraction and compared with the Python implementation on every check.
   Matrices are [list (list T)] (row major, like the numpy arrays); a scalar angle / anis argument of the
   Python functions is a one-element list here (np.atleast_1d). *)
From Coq Require Import List Arith ZArith Lia Bool.
From GS Require Import Num Loops.
Import ListNotations.

(* r x c matrix from an index function *)
Definition mkmat {A : Type} (r c : nat) (f : nat -> nat -> A) : list (list A) :=
  map (fun i => map (fun j => f i j) (seq 0 c)) (seq 0 r).

Section Geo.
  Context {T : Type} (O : NumOps T).
  Notation zero := (n0 O).
  Notation one := (n1 O).
  Notation get2 := (aget2 (n0 O)).

  (* return (dim * (dim - 1)) // 2 *)
  Definition no_of_angles (dim : nat) : nat := (dim * (dim - 1)) / 2.

  (* [(i, j) for j in range(1, dim) for i in range(j)] *)
  Definition rotation_planes (dim : nat) : list (nat * nat) :=
    flat_map (fun j => map (fun i => (i, j)) (seq 0 j)) (seq 1 (dim - 1)).

  (* np.atleast_1d(angles)[: no_of_angles(dim)], padded on the right with 0.0 *)
  Definition set_angles (dim : nat) (angles : list T) : list T :=
    let k := no_of_angles dim in
    let a := firstn k angles in
    a ++ repeat zero (k - length a).

  (* np.atleast_1d(anis)[: dim - 1], padded ON THE LEFT with 1.0 *)
  Definition set_anis (dim : nat) (anis : list T) : list T :=
    let a := firstn (dim - 1) anis in
    repeat one (dim - 1 - length a) ++ a.

  Definition eye (n : nat) : list (list T) :=
    mkmat n n (fun i j => if Nat.eqb i j then one else zero).

  (* result = np.eye(dim); four assignments, in the order of the source *)
  Definition givens_rotation (dim : nat) (plane : nat * nat) (angle : T) : list (list T) :=
    let '(p, q) := plane in
    let r := eye dim in
    let r := aupd2 r p p (ncos O angle) in
    let r := aupd2 r q q (ncos O angle) in
    let r := aupd2 r p q (nneg O (nsin O angle)) in
    let r := aupd2 r q p (nsin O angle) in
    r.

  (* np.matmul / np.dot of two 2-D arrays: entry (i,j) = sum_k A[i,k] * B[k,j], summed in index order *)
  Definition dot_rc (A B : list (list T)) (i j : nat) : T :=
    for_ 0 (shape0 B) (fun k acc => nadd O acc (nmul O (get2 A i k) (get2 B k j))) zero.
  Definition matmul (A B : list (list T)) : list (list T) :=
    mkmat (shape0 A) (shape1 B) (dot_rc A B).
  Definition transpose (A : list (list T)) : list (list T) :=
    mkmat (shape1 A) (shape0 A) (fun j i => get2 A i j).

  (* (-1) ** i * angle *)
  Definition alt (i : nat) (a : T) : T := if Nat.even i then a else nneg O a.

  (* for i, (angle, plane) in enumerate(zip(angles, planes)):
         result = np.matmul(givens_rotation(dim, plane, (-1) ** i * angle), result) *)
  Fixpoint rotate_loop (dim i : nat) (angles : list T) (planes : list (nat * nat))
      (result : list (list T)) : list (list T) :=
    match angles, planes with
    | a :: angles', pl :: planes' =>
        rotate_loop dim (S i) angles' planes' (matmul (givens_rotation dim pl (alt i a)) result)
    | _, _ => result
    end.
  Definition matrix_rotate (dim : nat) (angles : list T) : list (list T) :=
    rotate_loop dim 0 (set_angles dim angles) (rotation_planes dim) (eye dim).

  (* angles = -set_angles(dim, angles);  result = np.matmul(result, givens_rotation(...)) *)
  Fixpoint derotate_loop (dim i : nat) (angles : list T) (planes : list (nat * nat))
      (result : list (list T)) : list (list T) :=
    match angles, planes with
    | a :: angles', pl :: planes' =>
        derotate_loop dim (S i) angles' planes' (matmul result (givens_rotation dim pl (alt i a)))
    | _, _ => result
    end.
  Definition matrix_derotate (dim : nat) (angles : list T) : list (list T) :=
    derotate_loop dim 0 (map (nneg O) (set_angles dim angles)) (rotation_planes dim) (eye dim).

  (* np.diag(v) *)
  Definition diag (v : list T) : list (list T) :=
    mkmat (length v) (length v) (fun i j => if Nat.eqb i j then aget zero v i else zero).

  (* np.diag(np.concatenate(([1.0], 1.0 / anis))) *)
  Definition matrix_isotropify (dim : nat) (anis : list T) : list (list T) :=
    diag (one :: map (fun a => ndiv O one a) (set_anis dim anis)).
  Definition matrix_anisotropify (dim : nat) (anis : list T) : list (list T) :=
    diag (one :: set_anis dim anis).

  Definition matrix_isometrize (dim : nat) (angles anis : list T) : list (list T) :=
    matmul (matrix_isotropify dim anis) (matrix_derotate dim angles).
  Definition matrix_anisometrize (dim : nat) (angles anis : list T) : list (list T) :=
    matmul (matrix_rotate dim angles) (matrix_anisotropify dim anis).
  Definition rotated_main_axes (dim : nat) (angles : list T) : list (list T) :=
    transpose (matrix_rotate dim angles).

  (* ---- CovModel (non lat-lon branch); pos is a (dim, n) array *)
  Definition isometrize (dim : nat) (angles anis : list T) (pos : list (list T)) : list (list T) :=
    matmul (matrix_isometrize dim angles anis) pos.
  Definition anisometrize (dim : nat) (angles anis : list T) (pos : list (list T)) : list (list T) :=
    matmul (matrix_anisometrize dim angles anis) pos.
  Definition main_axes (dim : nat) (angles : list T) : list (list T) := rotated_main_axes dim angles.

  (* np.linalg.norm(iso, axis=0) = sqrt(add.reduce(iso * iso, axis=0)) *)
  Definition col_norms (iso : list (list T)) : list T :=
    map (fun j => nsqrt O (for_ 0 (shape0 iso)
                   (fun i acc => nadd O acc (nmul O (get2 iso i j) (get2 iso i j))) zero))
        (seq 0 (shape1 iso)).
  Definition get_iso_rad (dim : nat) (angles anis : list T) (pos : list (list T)) : list T :=
    col_norms (matmul (matrix_isometrize dim angles anis) pos).

  (* res[0] = len_scale; res[i] = len_scale * anis[i - 1] *)
  Definition len_scale_vec (dim : nat) (len_scale : T) (anis : list T) : list T :=
    map (fun i => match i with 0 => len_scale | S k => nmul O len_scale (aget zero anis k) end) (seq 0 dim).

  (* argument handed to the isotropic variogram by vario_axis / cov_axis / cor_axis *)
  Definition axis_arg (anis : list T) (r : T) (axis : nat) : T :=
    match axis with 0 => r | S k => ndiv O (nabs O r) (aget zero anis k) end.

  (* covmodel/tools.py set_model_angles: lat-lon -> zeros; temporal -> no rotation into the time axis *)
  Definition set_model_angles (dim : nat) (angles : list T) (latlon temporal : bool) : list T :=
    if latlon then repeat zero (no_of_angles dim)
    else
      let a := set_angles dim angles in
      if temporal then
        let k := no_of_angles (dim - 1) in firstn k a ++ repeat zero (length a - k)
      else a.

  (* covmodel/tools.py set_len_anis: (len_scale, anis) or None for the ValueError *)
  Definition set_len_anis (dim : nat) (len_scale anis : list T) (latlon : bool) : option (T * list T) :=
    let ls := firstn dim len_scale in
    let l0 := aget zero ls 0 in
    let out :=
      if Nat.eqb (length ls) 1 then set_anis dim anis
      else
        (* pad with the last value ("edge") to length dim, then ls[i] / ls[0] *)
        let lsp := ls ++ repeat (last ls zero) (dim - length ls) in
        map (fun i => ndiv O (aget zero lsp i) (aget zero lsp 0)) (seq 1 (dim - 1)) in
    if forallb (fun a => nltb O zero a) out then
      Some (l0, if latlon then repeat one (Nat.min 2 (length out)) ++ skipn 2 out else out)
    else None.

  (* ---- the geometry parameters of one CovModel object as a state machine (non lat-lon):
     every setter that touches them, as in covmodel/base.py.  An exception raised by set_len_anis / set_dim
     happens before any assignment, so the state is unchanged (None of set_len_anis). *)
  Record geo := mkGeo { g_dim : nat; g_len : T; g_anis : list T; g_angles : list T; g_temporal : bool }.
  Inductive geo_op :=
  | OpLen (ls : list T)        (* model.len_scale = scalar / list (integral_scale lists go through it too) *)
  | OpAnis (a : list T)        (* model.anis = ... *)
  | OpAngles (a : list T)      (* model.angles = ... *)
  | OpDim (d : nat).           (* model.dim = d *)

  Definition geo_step (s : geo) (op : geo_op) : geo :=
    match op with
    | OpLen ls =>
        match set_len_anis (g_dim s) ls (g_anis s) false with
        | Some (l, an) => mkGeo (g_dim s) l an (g_angles s) (g_temporal s)
        | None => s
        end
    | OpAnis a =>
        match set_len_anis (g_dim s) [g_len s] a false with
        | Some (l, an) => mkGeo (g_dim s) l an (g_angles s) (g_temporal s)
        | None => s
        end
    | OpAngles a => mkGeo (g_dim s) (g_len s) (g_anis s) (set_model_angles (g_dim s) a false (g_temporal s)) (g_temporal s)
    | OpDim d =>
        if Nat.ltb d 1 then s
        else match set_len_anis d [g_len s] (g_anis s) false with
             | Some (l, an) => mkGeo d l an (set_model_angles d (g_angles s) false (g_temporal s)) (g_temporal s)
             | None => s
             end
    end.

  (* CovModel.__init__ *)
  Definition geo_init (dim : nat) (ls anis angles : list T) (temporal : bool) : option geo :=
    match set_len_anis dim ls anis false with
    | Some (l, an) => Some (mkGeo dim l an (set_model_angles dim angles false temporal) temporal)
    | None => None
    end.

  (* what every evaluation of the model sees: a function of the PRESENT state only *)
  Definition geo_isometrize (s : geo) (pos : list (list T)) := isometrize (g_dim s) (g_angles s) (g_anis s) pos.
  Definition geo_anisometrize (s : geo) (pos : list (list T)) := anisometrize (g_dim s) (g_angles s) (g_anis s) pos.
  Definition geo_iso_rad (s : geo) (pos : list (list T)) := get_iso_rad (g_dim s) (g_angles s) (g_anis s) pos.
End Geo.
Arguments OpLen {T}. Arguments OpAnis {T}. Arguments OpAngles {T}. Arguments OpDim {T}.
Arguments g_dim {T}. Arguments g_len {T}. Arguments g_anis {T}. Arguments g_angles {T}. Arguments g_temporal {T}.
Arguments mkGeo {T}.
