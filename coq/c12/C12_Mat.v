(* C12_Mat.v — the real instance of NumOps and the algebra of matrices as index functions
   [nat -> nat -> R] with finite sums: associativity, transposition, orthogonal matrices are closed
   under products, Givens rotations are orthogonal in EVERY dimension, 2x2 / 3x3 determinants. *)
From Coq Require Import Reals Lra Lia Arith List ZArith.
From GS Require Import Num.
Open Scope R_scope.

(* ---------- real instance (comparisons through the decidable order of R) *)
Definition Rops : NumOps R := {|
  n0 := 0; n1 := 1;
  nadd := Rplus; nsub := Rminus; nmul := Rmult; ndiv := Rdiv;
  nneg := Ropp; nabs := Rabs; nsqrt := sqrt;
  ncos := cos; nsin := sin; nexp := exp; nln := ln;
  nacos := acos; nasin := asin; natan := atan;
  natan2 := fun y x => atan (y / x);   (* not used by any C12 definition *)
  npow := Rpower;
  nltb := fun x y => if Rlt_dec x y then true else false;
  nleb := fun x y => if Rle_dec x y then true else false;
  neqb := fun x y => if Req_EM_T x y then true else false;
  nisnan := fun _ => false;
  nofZ := IZR;
  npi := PI;
  noracle := fun _ _ => 0
|}.

(* ---------- finite sums *)
Fixpoint sumf (n : nat) (f : nat -> R) : R := match n with O => 0 | S m => sumf m f + f m end.
Lemma sumf_ext n f g : (forall k, (k < n)%nat -> f k = g k) -> sumf n f = sumf n g.
Proof. induction n; simpl; intros H; auto. rewrite IHn, H; auto. Qed.
Lemma sumf_plus n f g : sumf n (fun k => f k + g k) = sumf n f + sumf n g.
Proof. induction n; simpl; [lra|]. rewrite IHn; lra. Qed.
Lemma sumf_scal n c f : sumf n (fun k => c * f k) = c * sumf n f.
Proof. induction n; simpl; [lra|]. rewrite IHn; lra. Qed.
Lemma sumf_zero n : sumf n (fun _ => 0) = 0.
Proof. induction n; simpl; lra. Qed.
Lemma sumf_swap n m (f : nat -> nat -> R) :
  sumf n (fun i => sumf m (fun j => f i j)) = sumf m (fun j => sumf n (fun i => f i j)).
Proof. induction n; simpl. { now rewrite sumf_zero. } rewrite IHn, <- sumf_plus. reflexivity. Qed.
Lemma sumf_nonneg n f : (forall k, (k < n)%nat -> 0 <= f k) -> 0 <= sumf n f.
Proof. induction n; simpl; intros H; [lra|]. specialize (H n (Nat.lt_succ_diag_r n)) as Hn.
  assert (0 <= sumf n f) by (apply IHn; intros; apply H; lia). lra. Qed.

Definition delta (i j : nat) : R := if Nat.eq_dec i j then 1 else 0.
Lemma delta_same i : delta i i = 1.
Proof. unfold delta; destruct (Nat.eq_dec i i); [reflexivity|contradiction]. Qed.
Lemma delta_diff i j : i <> j -> delta i j = 0.
Proof. unfold delta; destruct (Nat.eq_dec i j); [contradiction|reflexivity]. Qed.
Lemma delta_sym i j : delta i j = delta j i.
Proof. unfold delta; destruct (Nat.eq_dec i j), (Nat.eq_dec j i); subst; try reflexivity; contradiction. Qed.
Lemma sumf_delta_l n i f : (i < n)%nat -> sumf n (fun k => delta i k * f k) = f i.
Proof.
  induction n; intros H; [lia|]. simpl. destruct (Nat.eq_dec i n) as [->|Hne].
  - rewrite (sumf_ext n _ (fun _ => 0)), sumf_zero. { rewrite delta_same; lra. }
    intros k Hk. rewrite delta_diff by lia. lra.
  - rewrite IHn by lia. rewrite (delta_diff i n) by auto. lra.
Qed.
Lemma sumf_delta_r n i f : (i < n)%nat -> sumf n (fun k => f k * delta k i) = f i.
Proof.
  intros H. rewrite <- (sumf_delta_l n i f H). apply sumf_ext; intros k _. rewrite delta_sym. ring.
Qed.
Lemma sumf_delta_oob n i f : (n <= i)%nat -> sumf n (fun k => delta i k * f k) = 0.
Proof.
  intros H. rewrite (sumf_ext n _ (fun _ => 0)), sumf_zero; auto.
  intros k Hk. rewrite delta_diff by lia. lra.
Qed.

(* ---------- matrices as index functions *)
Definition mat := nat -> nat -> R.
Definition mmul (n : nat) (A B : mat) : mat := fun i j => sumf n (fun k => A i k * B k j).
Definition mT (A : mat) : mat := fun i j => A j i.
Definition meq (r c : nat) (A B : mat) := forall i j, (i < r)%nat -> (j < c)%nat -> A i j = B i j.
(* A^T A = I *)
Definition orth (n : nat) (A : mat) := meq n n (mmul n (mT A) A) delta.

Lemma meq_refl r c A : meq r c A A. Proof. intros i j _ _; reflexivity. Qed.
Lemma meq_sym r c A B : meq r c A B -> meq r c B A. Proof. intros H i j Hi Hj; symmetry; auto. Qed.
Lemma meq_trans r c A B C : meq r c A B -> meq r c B C -> meq r c A C.
Proof. intros H1 H2 i j Hi Hj; rewrite H1, H2; auto. Qed.

Lemma mmul_assoc n m A B C i j : mmul m (mmul n A B) C i j = mmul n A (mmul m B C) i j.
Proof.
  unfold mmul.
  rewrite (sumf_ext m _ (fun k => sumf n (fun l => A i l * B l k * C k j))).
  2:{ intros k _. rewrite Rmult_comm, <- sumf_scal. apply sumf_ext; intros; ring. }
  rewrite sumf_swap. apply sumf_ext; intros l _. rewrite <- sumf_scal. apply sumf_ext; intros; ring.
Qed.
Lemma mmul_ext r n c A A' B B' : meq r n A A' -> meq n c B B' -> meq r c (mmul n A B) (mmul n A' B').
Proof. intros HA HB i j Hi Hj. unfold mmul. apply sumf_ext; intros k Hk. rewrite HA, HB; auto. Qed.
Lemma mT_mmul n A B i j : mT (mmul n A B) i j = mmul n (mT B) (mT A) i j.
Proof. unfold mT, mmul. apply sumf_ext; intros; ring. Qed.
Lemma mT_ext r c A B : meq r c A B -> meq c r (mT A) (mT B).
Proof. intros H i j Hi Hj. unfold mT. auto. Qed.
Lemma mmul_delta_l n A i j : (i < n)%nat -> mmul n delta A i j = A i j.
Proof. intros Hi. unfold mmul. now apply (sumf_delta_l n i (fun k => A k j)). Qed.
Lemma mmul_delta_r n A i j : (j < n)%nat -> mmul n A delta i j = A i j.
Proof. intros Hj. unfold mmul. now apply (sumf_delta_r n j (fun k => A i k)). Qed.
Lemma mT_delta i j : mT delta i j = delta i j.
Proof. unfold mT. apply delta_sym. Qed.

(* orthogonal matrices are closed under product *)
Lemma orth_mmul n A B : orth n A -> orth n B -> orth n (mmul n A B).
Proof.
  intros HA HB. unfold orth in *.
  eapply meq_trans. { apply mmul_ext; [intros i j _ _; apply mT_mmul | apply meq_refl]. }
  eapply meq_trans. { intros i j _ _. apply mmul_assoc. }
  eapply meq_trans. { apply mmul_ext; [apply meq_refl | intros i j _ _; symmetry; apply mmul_assoc]. }
  eapply meq_trans. { apply mmul_ext; [apply meq_refl | apply mmul_ext; [exact HA | apply meq_refl]]. }
  eapply meq_trans. { apply mmul_ext; [apply meq_refl | intros i j Hi _; apply mmul_delta_l; exact Hi]. }
  exact HB.
Qed.
Lemma orth_delta n : orth n delta.
Proof. intros i j Hi Hj. unfold mmul. rewrite (sumf_ext n _ (fun k => delta i k * delta k j)).
  - now rewrite sumf_delta_l.
  - intros k _. unfold mT. now rewrite (delta_sym k i). Qed.
Lemma orth_ext n A B : meq n n A B -> orth n A -> orth n B.
Proof.
  intros E H. unfold orth. eapply meq_trans; [|exact H].
  apply mmul_ext; [apply mT_ext|]; apply meq_sym; exact E.
Qed.

(* ---------- Givens rotation in the plane (p,q) *)
Definition givens (p q : nat) (c s : R) : mat := fun i j =>
  if Nat.eq_dec i p then (if Nat.eq_dec j p then c else if Nat.eq_dec j q then - s else 0)
  else if Nat.eq_dec i q then (if Nat.eq_dec j p then s else if Nat.eq_dec j q then c else 0)
  else delta i j.
Lemma sumf_two n p q f : (p < n)%nat -> (q < n)%nat -> p <> q ->
  (forall k, k <> p -> k <> q -> f k = 0) -> sumf n f = f p + f q.
Proof.
  intros Hp Hq Hpq H0.
  rewrite (sumf_ext n f (fun k => delta p k * f k + delta q k * f k)).
  - rewrite sumf_plus, !sumf_delta_l by auto. reflexivity.
  - intros k _. unfold delta. destruct (Nat.eq_dec p k), (Nat.eq_dec q k); subst; try lia; try lra.
    rewrite H0 by auto. lra.
Qed.
Lemma givens_orth n p q c s : (p < n)%nat -> (q < n)%nat -> p <> q -> c*c + s*s = 1 -> orth n (givens p q c s).
Proof.
  intros Hp Hq Hpq Hcs i j Hi Hj. unfold mmul, mT.
  destruct (Nat.eq_dec i p) as [->|Hip]; [|destruct (Nat.eq_dec i q) as [->|Hiq]].
  - rewrite (sumf_two n p q) by (auto; intros k Hk1 Hk2; unfold givens, delta;
      destruct (Nat.eq_dec k p), (Nat.eq_dec k q), (Nat.eq_dec p p); try contradiction; try lia; ring).
    unfold givens, delta.
    destruct (Nat.eq_dec p p), (Nat.eq_dec q p), (Nat.eq_dec q q), (Nat.eq_dec p q), (Nat.eq_dec j p), (Nat.eq_dec j q), (Nat.eq_dec p j); subst; try lia; try contradiction; try nra.
  - rewrite (sumf_two n p q) by (auto; intros k Hk1 Hk2; unfold givens, delta;
      destruct (Nat.eq_dec k p), (Nat.eq_dec k q), (Nat.eq_dec q p), (Nat.eq_dec q q); try contradiction; try lia; ring).
    unfold givens, delta.
    destruct (Nat.eq_dec p p), (Nat.eq_dec q p), (Nat.eq_dec q q), (Nat.eq_dec p q), (Nat.eq_dec j p), (Nat.eq_dec j q), (Nat.eq_dec q j); subst; try lia; try contradiction; try nra.
  - rewrite (sumf_ext n _ (fun k => delta i k * givens p q c s k j)).
    + rewrite sumf_delta_l by auto. unfold givens, delta.
      destruct (Nat.eq_dec i p), (Nat.eq_dec i q); try contradiction.
      destruct (Nat.eq_dec j p), (Nat.eq_dec j q), (Nat.eq_dec i j); subst; try lia; try contradiction; try lra.
    + intros k _. unfold givens at 1. unfold delta.
      destruct (Nat.eq_dec k p), (Nat.eq_dec k q), (Nat.eq_dec i p), (Nat.eq_dec i q), (Nat.eq_dec k i), (Nat.eq_dec i k); subst; try lia; try contradiction; try ring.
Qed.
(* the transpose of a Givens rotation is the rotation by the opposite angle *)
Lemma givens_T p q c s i j : p <> q -> mT (givens p q c s) i j = givens p q c (- s) i j.
Proof.
  intros Hpq. unfold mT, givens, delta.
  destruct (Nat.eq_dec i p), (Nat.eq_dec i q), (Nat.eq_dec j p), (Nat.eq_dec j q), (Nat.eq_dec i j), (Nat.eq_dec j i);
    subst; try lia; try contradiction; try ring.
Qed.
Lemma givens_zero p q i j : givens p q 1 0 i j = delta i j.
Proof.
  unfold givens, delta.
  destruct (Nat.eq_dec i p), (Nat.eq_dec i q), (Nat.eq_dec j p), (Nat.eq_dec j q), (Nat.eq_dec i j);
    subst; try lia; try contradiction; try ring.
Qed.

(* ---------- both-sided orthogonality (A^T A = I and A A^T = I), closed under product and transpose *)
Definition orth2 (n : nat) (A : mat) := orth n A /\ orth n (mT A).
Lemma orth2_mmul n A B : orth2 n A -> orth2 n B -> orth2 n (mmul n A B).
Proof.
  intros [HA HA'] [HB HB']. split. { now apply orth_mmul. }
  apply (orth_ext n (mmul n (mT B) (mT A))).
  - intros i j _ _. symmetry. apply mT_mmul.
  - now apply orth_mmul.
Qed.
Lemma orth2_delta n : orth2 n delta.
Proof. split; [apply orth_delta|]. apply (orth_ext n delta); [|apply orth_delta].
  intros i j _ _. symmetry. apply mT_delta. Qed.
Lemma orth2_givens n p q c s : (p < n)%nat -> (q < n)%nat -> p <> q -> c*c + s*s = 1 -> orth2 n (givens p q c s).
Proof.
  intros Hp Hq Hpq Hcs. split. { now apply givens_orth. }
  apply (orth_ext n (givens p q c (- s))).
  - intros i j _ _. symmetry. now apply givens_T.
  - apply givens_orth; auto. lra.
Qed.
Lemma orth2_T n A : orth2 n A -> orth2 n (mT A).
Proof. intros [H1 H2]. split; auto. Qed.
(* A A^T = I, spelled out *)
Lemma orth2_right n A : orth2 n A -> meq n n (mmul n A (mT A)) delta.
Proof. intros [_ H]. exact H. Qed.

(* an orthogonal matrix preserves Euclidean norms: sum_i (A x)_i^2 = sum_i x_i^2 *)
Lemma orth_norm n A (x : nat -> R) : orth n A ->
  sumf n (fun i => sumf n (fun k => A i k * x k) * sumf n (fun k => A i k * x k)) = sumf n (fun k => x k * x k).
Proof.
  intros H.
  rewrite (sumf_ext n _ (fun i => sumf n (fun k => sumf n (fun l => x k * (A i k * A i l) * x l)))).
  2:{ intros i _. rewrite <- sumf_scal. rewrite (sumf_ext n _ (fun l => sumf n (fun k => x k * (A i k * A i l) * x l))).
      - apply sumf_swap.
      - intros l _. rewrite Rmult_comm. rewrite <- sumf_scal. apply sumf_ext; intros; ring. }
  rewrite sumf_swap. apply sumf_ext; intros k Hk.
  rewrite sumf_swap.
  rewrite (sumf_ext n _ (fun l => delta k l * (x k * x l))).
  - now rewrite sumf_delta_l.
  - intros l Hl. rewrite <- (H k l Hk Hl). unfold mmul, mT.
    rewrite (Rmult_comm _ (x k * x l)), <- sumf_scal. apply sumf_ext; intros; ring.
Qed.

(* ---------- explicit determinants for n <= 3 *)
Definition det1 (A : mat) : R := A 0%nat 0%nat.
Definition det2 (A : mat) : R := A 0%nat 0%nat * A 1%nat 1%nat - A 0%nat 1%nat * A 1%nat 0%nat.
Definition det3 (A : mat) : R :=
  A 0%nat 0%nat * (A 1%nat 1%nat * A 2%nat 2%nat - A 1%nat 2%nat * A 2%nat 1%nat)
  - A 0%nat 1%nat * (A 1%nat 0%nat * A 2%nat 2%nat - A 1%nat 2%nat * A 2%nat 0%nat)
  + A 0%nat 2%nat * (A 1%nat 0%nat * A 2%nat 1%nat - A 1%nat 1%nat * A 2%nat 0%nat).
Lemma det2_mmul A B : det2 (mmul 2 A B) = det2 A * det2 B.
Proof. unfold det2, mmul; simpl. ring. Qed.
Lemma det3_mmul A B : det3 (mmul 3 A B) = det3 A * det3 B.
Proof. unfold det3, mmul; simpl. ring. Qed.
Lemma det2_ext A B : meq 2 2 A B -> det2 A = det2 B.
Proof. intros H. unfold det2. rewrite !H by lia. reflexivity. Qed.
Lemma det3_ext A B : meq 3 3 A B -> det3 A = det3 B.
Proof. intros H. unfold det3. rewrite !H by lia. reflexivity. Qed.
Lemma det2_delta : det2 delta = 1.
Proof. unfold det2, delta; simpl. ring. Qed.
Lemma det3_delta : det3 delta = 1.
Proof. unfold det3, delta; simpl. ring. Qed.
Lemma det2_givens p q c s : (p < q)%nat -> (q < 2)%nat -> det2 (givens p q c s) = c*c + s*s.
Proof.
  intros H1 H2. assert (p = 0 /\ q = 1)%nat as [-> ->] by lia.
  unfold det2, givens, delta; simpl. ring.
Qed.
Lemma det3_givens p q c s : (p < q)%nat -> (q < 3)%nat -> det3 (givens p q c s) = c*c + s*s.
Proof.
  intros H1 H2.
  assert ((p = 0 /\ q = 1) \/ (p = 0 /\ q = 2) \/ (p = 1 /\ q = 2))%nat as [[-> ->]|[[-> ->]|[-> ->]]] by lia;
    unfold det3, givens, delta; simpl; ring.
Qed.

(* 4x4: Laplace expansion along the first row *)
Definition minor3 (A : mat) (r0 r1 r2 c0 c1 c2 : nat) : R :=
  A r0 c0 * (A r1 c1 * A r2 c2 - A r1 c2 * A r2 c1)
  - A r0 c1 * (A r1 c0 * A r2 c2 - A r1 c2 * A r2 c0)
  + A r0 c2 * (A r1 c0 * A r2 c1 - A r1 c1 * A r2 c0).
Definition det4 (A : mat) : R :=
  A 0%nat 0%nat * minor3 A 1 2 3 1 2 3 - A 0%nat 1%nat * minor3 A 1 2 3 0 2 3
  + A 0%nat 2%nat * minor3 A 1 2 3 0 1 3 - A 0%nat 3%nat * minor3 A 1 2 3 0 1 2.
Lemma det4_mmul A B : det4 (mmul 4 A B) = det4 A * det4 B.
Proof. unfold det4, minor3, mmul; simpl. ring. Qed.
Lemma det4_ext A B : meq 4 4 A B -> det4 A = det4 B.
Proof. intros H. unfold det4, minor3. rewrite !H by lia. reflexivity. Qed.
Lemma det4_delta : det4 delta = 1.
Proof. unfold det4, minor3, delta; simpl. ring. Qed.
Lemma det4_givens p q c s : (p < q)%nat -> (q < 4)%nat -> det4 (givens p q c s) = c*c + s*s.
Proof.
  intros H1 H2.
  assert ((p = 0 /\ q = 1) \/ (p = 0 /\ q = 2) \/ (p = 1 /\ q = 2) \/ (p = 0 /\ q = 3) \/ (p = 1 /\ q = 3) \/ (p = 2 /\ q = 3))%nat
    as [[-> ->]|[[-> ->]|[[-> ->]|[[-> ->]|[[-> ->]|[-> ->]]]]]] by lia;
    unfold det4, minor3, givens, delta; simpl; ring.
Qed.
