(* C12_Bridge.v — relates the executable [list (list R)] matrices of C12_Model (what is extracted and
   compared with numpy) to the index-function matrices of C12_Mat (what the algebra is done in). *)
From Coq Require Import Reals Lra Lia Arith List Bool.
From GS Require Import Num Loops C12_Model C12_Mat.
Import ListNotations.
Open Scope R_scope.

(* ---------- shapes, generic in the element type *)
Section Shapes.
  Context {A : Type}.
  Definition wfm (r c : nat) (M : list (list A)) : Prop :=
    length M = r /\ Forall (fun row => length row = c) M.

  Lemma wfm_shape0 r c M : wfm r c M -> shape0 M = r.
  Proof. intros [H _]. exact H. Qed.
  Lemma wfm_row_len r c M i : wfm r c M -> (i < r)%nat -> length (arow M i) = c.
  Proof.
    intros [H1 H2] Hi. unfold arow. rewrite Forall_forall in H2. apply H2. apply nth_In. lia.
  Qed.
  Lemma wfm_shape1 r c M : wfm r c M -> (0 < r)%nat -> shape1 M = c.
  Proof. intros H Hr. unfold shape1. apply (wfm_row_len r c M 0 H Hr). Qed.

  Lemma arow_mkmat r c (f : nat -> nat -> A) i : (i < r)%nat ->
    arow (mkmat r c f) i = map (fun j => f i j) (seq 0 c).
  Proof. intros Hi. unfold arow, mkmat.
    exact (aget_map_seq (@nil A) (fun i => map (fun j => f i j) (seq 0 c)) r i Hi). Qed.
  Lemma aget2_mkmat (d : A) r c f i j : (i < r)%nat -> (j < c)%nat -> aget2 d (mkmat r c f) i j = f i j.
  Proof. intros Hi Hj. unfold aget2. rewrite arow_mkmat by auto.
    exact (aget_map_seq d (fun j => f i j) c j Hj). Qed.
  Lemma wfm_mkmat r c (f : nat -> nat -> A) : wfm r c (mkmat r c f).
  Proof.
    unfold wfm, mkmat. split. { now rewrite map_length, seq_length. }
    apply Forall_forall. intros row Hin. apply in_map_iff in Hin. destruct Hin as [i [<- _]].
    now rewrite map_length, seq_length.
  Qed.

  Lemma mat_ext (d : A) r c M N : wfm r c M -> wfm r c N ->
    (forall i j, (i < r)%nat -> (j < c)%nat -> aget2 d M i j = aget2 d N i j) -> M = N.
  Proof.
    intros HM HN E. apply (list_ext (@nil A)).
    - destruct HM, HN; congruence.
    - intros i Hi. assert (Hir : (i < r)%nat) by (destruct HM; lia).
      change (arow M i = arow N i). apply (list_ext d).
      + now rewrite (wfm_row_len r c M), (wfm_row_len r c N).
      + intros j Hj. rewrite (wfm_row_len r c M) in Hj by auto. apply (E i j Hir Hj).
  Qed.

  Lemma wfm_aupd2 r c M i j v : wfm r c M -> wfm r c (aupd2 M i j v).
  Proof.
    intros [H1 H2]. unfold aupd2. split. { now rewrite aupd_length. }
    destruct (Nat.lt_ge_cases i (length M)) as [Hi|Hi].
    - apply Forall_forall. intros row Hin.
      destruct (In_nth _ _ (@nil A) Hin) as [k [Hk <-]]. rewrite aupd_length in Hk.
      destruct (Nat.eq_dec i k) as [->|Hne].
      + change (length (aget [] (aupd M k (aupd (arow M k) j v)) k) = c).
        rewrite aget_aupd_same by auto. rewrite aupd_length. apply (wfm_row_len r c M k (conj H1 H2)). lia.
      + change (length (aget [] (aupd M i (aupd (arow M i) j v)) k) = c).
        rewrite aget_aupd_other by auto. apply (wfm_row_len r c M k (conj H1 H2)). lia.
    - rewrite aupd_oob by auto. exact H2.
  Qed.
  Lemma aget2_aupd2 (d : A) r c M i j v i' j' : wfm r c M -> (i < r)%nat -> (j < c)%nat ->
    aget2 d (aupd2 M i j v) i' j' = if Nat.eq_dec i i' then (if Nat.eq_dec j j' then v else aget2 d M i' j') else aget2 d M i' j'.
  Proof.
    intros HM Hi Hj. unfold aget2, aupd2.
    assert (HiM : (i < length M)%nat) by (destruct HM; lia).
    destruct (Nat.eq_dec i i') as [<-|Hne].
    - change (arow (aupd M i (aupd (arow M i) j v)) i) with (aget [] (aupd M i (aupd (arow M i) j v)) i).
      rewrite aget_aupd_same by auto.
      destruct (Nat.eq_dec j j') as [<-|Hnj].
      + apply aget_aupd_same. now rewrite (wfm_row_len r c M).
      + now apply aget_aupd_other.
    - change (arow (aupd M i (aupd (arow M i) j v)) i') with (aget [] (aupd M i (aupd (arow M i) j v)) i').
      rewrite aget_aupd_other by auto. reflexivity.
  Qed.
End Shapes.

(* ---------- the real instance *)
Notation RO := Rops.
Definition mof (M : list (list R)) : mat := fun i j => aget2 0 M i j.

Lemma for_sum n (f : nat -> R) : for_ 0 n (fun k acc => acc + f k) 0 = sumf n f.
Proof.
  unfold for_. rewrite Nat.sub_0_r. induction n. { reflexivity. }
  rewrite seq_S, fold_left_app. cbn [fold_left sumf]. rewrite IHn. reflexivity.
Qed.

Lemma mat_ext_R r c M N : wfm r c M -> wfm r c N -> meq r c (mof M) (mof N) -> M = N.
Proof. intros HM HN E. apply (mat_ext 0 r c); auto. Qed.

Lemma wfm_matmul r n c (A B : list (list R)) : wfm r n A -> wfm n c B -> (0 < n)%nat -> wfm r c (matmul RO A B).
Proof.
  intros HA HB Hn. unfold matmul. rewrite (wfm_shape0 r n A HA), (wfm_shape1 n c B HB Hn). apply wfm_mkmat.
Qed.
Lemma mof_matmul r n c (A B : list (list R)) : wfm r n A -> wfm n c B -> (0 < n)%nat ->
  meq r c (mof (matmul RO A B)) (mmul n (mof A) (mof B)).
Proof.
  intros HA HB Hn i j Hi Hj. unfold mof, matmul.
  rewrite (wfm_shape0 r n A HA), (wfm_shape1 n c B HB Hn). rewrite aget2_mkmat by auto.
  unfold dot_rc. rewrite (wfm_shape0 n c B HB). simpl.
  apply (for_sum n (fun k => aget2 0 A i k * aget2 0 B k j)).
Qed.
Lemma wfm_transpose r c (A : list (list R)) : wfm r c A -> (0 < r)%nat -> wfm c r (transpose RO A).
Proof. intros HA Hr. unfold transpose. rewrite (wfm_shape0 r c A HA), (wfm_shape1 r c A HA Hr). apply wfm_mkmat. Qed.
Lemma mof_transpose r c (A : list (list R)) : wfm r c A -> (0 < r)%nat -> meq c r (mof (transpose RO A)) (mT (mof A)).
Proof.
  intros HA Hr i j Hi Hj. unfold mof, transpose.
  rewrite (wfm_shape0 r c A HA), (wfm_shape1 r c A HA Hr). now rewrite aget2_mkmat.
Qed.
Lemma wfm_eye n : wfm n n (eye RO n).
Proof. apply wfm_mkmat. Qed.
Lemma mof_eye n : meq n n (mof (eye RO n)) delta.
Proof.
  intros i j Hi Hj. unfold mof, eye. rewrite aget2_mkmat by auto. unfold delta. simpl.
  destruct (Nat.eqb_spec i j), (Nat.eq_dec i j); try reflexivity; contradiction.
Qed.
Lemma wfm_diag (v : list R) : wfm (length v) (length v) (diag RO v).
Proof. apply wfm_mkmat. Qed.
Lemma mof_diag (v : list R) : meq (length v) (length v) (mof (diag RO v)) (fun i j => delta i j * aget 0 v i).
Proof.
  intros i j Hi Hj. unfold mof, diag. rewrite aget2_mkmat by auto. unfold delta. simpl.
  destruct (Nat.eqb_spec i j), (Nat.eq_dec i j); try contradiction; ring.
Qed.

Lemma wfm_givens n pl a : wfm n n (givens_rotation RO n pl a).
Proof. destruct pl as [p q]. unfold givens_rotation. repeat apply wfm_aupd2. apply wfm_eye. Qed.
Lemma mof_givens n p q a : (p < n)%nat -> (q < n)%nat -> p <> q ->
  meq n n (mof (givens_rotation RO n (p, q) a)) (givens p q (cos a) (sin a)).
Proof.
  intros Hp Hq Hpq i j Hi Hj. unfold mof, givens_rotation.
  rewrite (aget2_aupd2 0 n n) by (auto; repeat apply wfm_aupd2; apply wfm_eye).
  rewrite (aget2_aupd2 0 n n) by (auto; repeat apply wfm_aupd2; apply wfm_eye).
  rewrite (aget2_aupd2 0 n n) by (auto; repeat apply wfm_aupd2; apply wfm_eye).
  rewrite (aget2_aupd2 0 n n) by (auto; repeat apply wfm_aupd2; apply wfm_eye).
  change (aget2 0 (eye RO n) i j) with (mof (eye RO n) i j). rewrite mof_eye by auto.
  unfold givens. simpl.
  destruct (Nat.eq_dec q i), (Nat.eq_dec p j), (Nat.eq_dec p i), (Nat.eq_dec q j), (Nat.eq_dec i p),
    (Nat.eq_dec i q), (Nat.eq_dec j p), (Nat.eq_dec j q); subst; try lia; try contradiction; try reflexivity.
  all: apply delta_diff; auto.
Qed.

(* list-level consequences used everywhere *)
Lemma matmul_eye_l r c (M : list (list R)) : wfm r c M -> (0 < r)%nat -> matmul RO (eye RO r) M = M.
Proof.
  intros HM Hr. apply (mat_ext_R r c); auto. { apply (wfm_matmul r r c); auto. apply wfm_eye. }
  eapply meq_trans. { apply (mof_matmul r r c); auto. apply wfm_eye. }
  intros i j Hi Hj. rewrite (mmul_ext r r c _ delta _ (mof M) (mof_eye r) (meq_refl _ _ _)) by auto.
  now apply mmul_delta_l.
Qed.
Lemma matmul_eye_r r c (M : list (list R)) : wfm r c M -> (0 < c)%nat -> matmul RO M (eye RO c) = M.
Proof.
  intros HM Hc. apply (mat_ext_R r c); auto. { apply (wfm_matmul r c c); auto. apply wfm_eye. }
  eapply meq_trans. { apply (mof_matmul r c c); auto. apply wfm_eye. }
  intros i j Hi Hj. rewrite (mmul_ext r c c (mof M) (mof M) _ delta (meq_refl _ _ _) (mof_eye c)) by auto.
  now apply mmul_delta_r.
Qed.
Lemma matmul_assoc_R r n m c (A B C : list (list R)) : wfm r n A -> wfm n m B -> wfm m c C ->
  (0 < n)%nat -> (0 < m)%nat -> matmul RO (matmul RO A B) C = matmul RO A (matmul RO B C).
Proof.
  intros HA HB HC Hn Hm.
  assert (HAB := wfm_matmul r n m A B HA HB Hn). assert (HBC := wfm_matmul n m c B C HB HC Hm).
  apply (mat_ext_R r c). { apply (wfm_matmul r m c); auto. } { apply (wfm_matmul r n c); auto. }
  eapply meq_trans. { apply (mof_matmul r m c); auto. }
  eapply meq_trans. { apply mmul_ext; [apply (mof_matmul r n m); auto | apply meq_refl]. }
  eapply meq_trans. { intros i j _ _. apply mmul_assoc. }
  apply meq_sym. eapply meq_trans. { apply (mof_matmul r n c); auto. }
  apply mmul_ext; [apply meq_refl | apply (mof_matmul n m c); auto].
Qed.
