(* C12_Proofs.v — theorems about the model of tools/geometric.py at the real instance:
   rotation matrices are orthogonal (both sides) for every dimension and angle vector, derotation is the
   transpose, stretching / isometrize / anisometrize are inverse pairs, determinant 1 (dims <= 3),
   2-D and 3-D angle conventions, main-axis scaling, iso-radius = Euclidean norm. *)
From Coq Require Import Reals Lra Lia Arith List Bool.
From GS Require Import Num Loops C12_Model C12_Mat C12_Bridge.
Import ListNotations.
Open Scope R_scope.

(* ---------- structural facts (every number type) *)
Section Structural.
  Context {T : Type} (O : NumOps T).

  Lemma planes_ok dim : Forall (fun pl => (fst pl < snd pl < dim)%nat) (rotation_planes dim).
  Proof.
    apply Forall_forall. intros [p q] Hin. unfold rotation_planes in Hin.
    apply in_flat_map in Hin. destruct Hin as [j [Hj Hin]]. apply in_map_iff in Hin.
    destruct Hin as [i [E Hi]]. inversion E; subst. apply in_seq in Hj. apply in_seq in Hi. simpl. lia.
  Qed.

  Lemma planes_succ n : rotation_planes (S (S n)) = rotation_planes (S n) ++ map (fun i => (i, S n)) (seq 0 (S n)).
  Proof.
    unfold rotation_planes. replace (S (S n) - 1)%nat with (S n) by lia. replace (S n - 1)%nat with n by lia.
    rewrite seq_S, flat_map_app. cbn [flat_map]. rewrite app_nil_r. reflexivity.
  Qed.

  Lemma no_of_angles_succ n : no_of_angles (S (S n)) = (no_of_angles (S n) + S n)%nat.
  Proof.
    unfold no_of_angles. replace (S (S n) - 1)%nat with (S n) by lia. replace (S n - 1)%nat with n by lia.
    replace (S (S n) * S n)%nat with (S n * n + S n * 2)%nat by lia. now rewrite Nat.div_add by lia.
  Qed.

  (* as many planes as angles: zip(angles, planes) drops nothing *)
  Lemma planes_length dim : length (rotation_planes dim) = no_of_angles dim.
  Proof.
    destruct dim as [|n]. { reflexivity. }
    induction n as [|n IH]. { reflexivity. }
    rewrite planes_succ, app_length, IH, map_length, seq_length, no_of_angles_succ. reflexivity.
  Qed.

  Lemma set_angles_length dim (a : list T) : length (set_angles O dim a) = no_of_angles dim.
  Proof.
    unfold set_angles. rewrite app_length, repeat_length.
    pose proof (firstn_le_length (no_of_angles dim) a). lia.
  Qed.
  Lemma set_anis_length dim (a : list T) : length (set_anis O dim a) = (dim - 1)%nat.
  Proof.
    unfold set_anis. rewrite app_length, repeat_length.
    pose proof (firstn_le_length (dim - 1) a). lia.
  Qed.
  (* given values are kept in place, missing angles are 0 *)
  Lemma set_angles_nth dim (a : list T) k : (k < no_of_angles dim)%nat ->
    nth k (set_angles O dim a) (n0 O) = nth k a (n0 O).
  Proof.
    intros Hk. unfold set_angles. set (m := no_of_angles dim) in *.
    destruct (Nat.lt_ge_cases k (length (firstn m a))) as [H|H].
    - rewrite app_nth1 by auto. clear H. revert k a Hk. induction m; intros k a Hk; [lia|].
      destruct a; simpl; [destruct k; reflexivity|]. destruct k; auto. apply IHm. lia.
    - rewrite app_nth2 by auto. rewrite nth_repeat.
      rewrite firstn_length in H. symmetry. apply nth_overflow. lia.
  Qed.
  (* anisotropy ratios are right-aligned, missing leading ratios are 1 *)
  Lemma set_anis_nth dim (a : list T) k : (length a <= dim - 1)%nat -> (k < dim - 1)%nat ->
    nth k (set_anis O dim a) (n1 O)
    = if Nat.ltb k (dim - 1 - length a) then n1 O else nth (k - (dim - 1 - length a)) a (n1 O).
  Proof.
    intros Hl Hk. unfold set_anis. rewrite firstn_all2 by auto.
    destruct (Nat.ltb_spec k (dim - 1 - length a)) as [H|H].
    - rewrite app_nth1 by (now rewrite repeat_length). apply nth_repeat.
    - rewrite app_nth2 by (now rewrite repeat_length). now rewrite repeat_length.
  Qed.
End Structural.

(* ---------- rotation matrices at R *)
Lemma orth2_ext n A B : meq n n A B -> orth2 n A -> orth2 n B.
Proof. intros E [H1 H2]. split; [apply (orth_ext n A)|apply (orth_ext n (mT A))]; auto. now apply mT_ext. Qed.

Lemma cs1 a : cos a * cos a + sin a * sin a = 1.
Proof. pose proof (sin2_cos2 a) as H. unfold Rsqr in H. lra. Qed.

Lemma givens_list_orth2 n p q a : (p < q < n)%nat -> orth2 n (mof (givens_rotation RO n (p, q) a)).
Proof.
  intros H. eapply orth2_ext. { apply meq_sym, mof_givens; lia. }
  apply orth2_givens; try lia. apply cs1.
Qed.

Lemma eye_orth2 n : orth2 n (mof (eye RO n)).
Proof. eapply orth2_ext. { apply meq_sym, mof_eye. } apply orth2_delta. Qed.

Lemma rotate_loop_inv n : (0 < n)%nat -> forall angs planes i M,
  Forall (fun pl => (fst pl < snd pl < n)%nat) planes -> wfm n n M -> orth2 n (mof M) ->
  wfm n n (rotate_loop RO n i angs planes M) /\ orth2 n (mof (rotate_loop RO n i angs planes M)).
Proof.
  intros Hn. induction angs as [|a angs IH]; intros planes i M HP HM HO.
  - simpl. auto.
  - destruct planes as [|[p q] planes]; [simpl; auto|]. inversion HP as [|? ? Hpq HP']; subst. simpl in Hpq.
    cbn [rotate_loop]. apply IH; auto.
    + apply (wfm_matmul n n n); auto. apply wfm_givens.
    + eapply orth2_ext. { apply meq_sym. apply (mof_matmul n n n); auto. apply wfm_givens. }
      apply orth2_mmul; auto. now apply givens_list_orth2.
Qed.

Lemma rotate_wfm n angles : (0 < n)%nat -> wfm n n (matrix_rotate RO n angles).
Proof.
  intros Hn. unfold matrix_rotate. apply rotate_loop_inv; auto. { apply planes_ok. } { apply wfm_eye. } apply eye_orth2.
Qed.
Lemma rotate_orth2 n angles : (0 < n)%nat -> orth2 n (mof (matrix_rotate RO n angles)).
Proof.
  intros Hn. unfold matrix_rotate. apply rotate_loop_inv; auto. { apply planes_ok. } { apply wfm_eye. } apply eye_orth2.
Qed.

Lemma alt_neg i a : alt RO i (- a) = - alt RO i a.
Proof. unfold alt. destruct (Nat.even i); simpl; ring. Qed.

Lemma derotate_loop_T n : (0 < n)%nat -> forall angs planes i M D,
  Forall (fun pl => (fst pl < snd pl < n)%nat) planes -> wfm n n M -> wfm n n D ->
  meq n n (mof D) (mT (mof M)) ->
  wfm n n (derotate_loop RO n i (map Ropp angs) planes D) /\
  meq n n (mof (derotate_loop RO n i (map Ropp angs) planes D)) (mT (mof (rotate_loop RO n i angs planes M))).
Proof.
  intros Hn. induction angs as [|a angs IH]; intros planes i M D HP HM HD E.
  - simpl. auto.
  - destruct planes as [|[p q] planes]; [simpl; auto|]. inversion HP as [|? ? Hpq HP']; subst. simpl in Hpq.
    cbn [rotate_loop derotate_loop map].
    assert (HG := wfm_givens n (p, q) (alt RO i a)). assert (HG' := wfm_givens n (p, q) (alt RO i (- a))).
    apply IH; auto.
    + apply (wfm_matmul n n n); auto.
    + apply (wfm_matmul n n n); auto.
    + eapply meq_trans. { apply (mof_matmul n n n); auto. }
      eapply meq_trans. { apply mmul_ext; [exact E | apply mof_givens; lia]. }
      rewrite alt_neg, cos_neg, sin_neg.
      intros k l Hk Hl. unfold mT at 2. rewrite (mof_matmul n n n _ _ HG HM Hn l k Hl Hk).
      transitivity (mmul n (mT (mof M)) (mT (givens p q (cos (alt RO i a)) (sin (alt RO i a)))) k l).
      { apply (mmul_ext n n n); auto. { apply meq_refl. } intros x y _ _. symmetry. apply givens_T. lia. }
      rewrite <- mT_mmul. unfold mT at 1.
      apply (mmul_ext n n n); auto. { apply meq_sym, mof_givens; lia. } apply meq_refl.
Qed.

Theorem derotate_is_transpose n angles : (0 < n)%nat ->
  matrix_derotate RO n angles = transpose RO (matrix_rotate RO n angles).
Proof.
  intros Hn. pose proof (rotate_wfm n angles Hn) as HR.
  destruct (derotate_loop_T n Hn (set_angles RO n angles) (rotation_planes n) 0 (eye RO n) (eye RO n))
    as [HW HE]; try apply wfm_eye. { apply planes_ok. }
  { eapply meq_trans; [apply mof_eye|]. intros i j Hi Hj. unfold mT. rewrite mof_eye by auto. apply delta_sym. }
  apply (mat_ext_R n n); auto. { now apply wfm_transpose. }
  eapply meq_trans. { exact HE. } apply meq_sym. now apply mof_transpose.
Qed.

(* list-level orthogonality from the index-function form *)
Lemma orth2_list n (M : list (list R)) : (0 < n)%nat -> wfm n n M -> orth2 n (mof M) ->
  matmul RO (transpose RO M) M = eye RO n /\ matmul RO M (transpose RO M) = eye RO n.
Proof.
  intros Hn HM [H1 H2]. pose proof (wfm_transpose n n M HM Hn) as HT. split.
  - apply (mat_ext_R n n). { apply (wfm_matmul n n n); auto. } { apply wfm_eye. }
    eapply meq_trans. { apply (mof_matmul n n n); auto. }
    eapply meq_trans. { apply mmul_ext; [apply mof_transpose; auto | apply meq_refl]. }
    eapply meq_trans. { exact H1. } apply meq_sym, mof_eye.
  - apply (mat_ext_R n n). { apply (wfm_matmul n n n); auto. } { apply wfm_eye. }
    eapply meq_trans. { apply (mof_matmul n n n); auto. }
    eapply meq_trans. { apply mmul_ext; [apply meq_refl | apply mof_transpose; auto]. }
    eapply meq_trans. { exact H2. } apply meq_sym, mof_eye.
Qed.

Theorem rotate_orthogonal n angles : (0 < n)%nat ->
  let Rm := matrix_rotate RO n angles in
  matmul RO (transpose RO Rm) Rm = eye RO n /\ matmul RO Rm (transpose RO Rm) = eye RO n.
Proof. intros Hn Rm. apply orth2_list; auto. { now apply rotate_wfm. } now apply rotate_orth2. Qed.

Theorem givens_orthogonal n p q a : (p < q < n)%nat ->
  let G := givens_rotation RO n (p, q) a in
  matmul RO (transpose RO G) G = eye RO n /\ matmul RO G (transpose RO G) = eye RO n.
Proof. intros H G. apply orth2_list; try lia. { apply wfm_givens. } now apply givens_list_orth2. Qed.

Corollary derotate_rotate n angles : (0 < n)%nat ->
  matmul RO (matrix_derotate RO n angles) (matrix_rotate RO n angles) = eye RO n /\
  matmul RO (matrix_rotate RO n angles) (matrix_derotate RO n angles) = eye RO n.
Proof. intros Hn. rewrite derotate_is_transpose by auto. now apply rotate_orthogonal. Qed.

(* ---------- stretching matrices *)
Lemma in_firstn_in {A} (x : A) n l : In x (firstn n l) -> In x l.
Proof. revert l; induction n; intros [|h t] H; simpl in *; auto; try contradiction. destruct H; auto. Qed.
Lemma set_anis_pos dim anis : Forall (fun a => 0 < a) anis -> Forall (fun a => 0 < a) (set_anis RO dim anis).
Proof.
  intros H. unfold set_anis. apply Forall_app. split.
  - apply Forall_forall. intros x Hx. apply repeat_spec in Hx. subst. simpl. lra.
  - apply Forall_forall. intros x Hx. rewrite Forall_forall in H. apply H. eapply in_firstn_in; eauto.
Qed.

Lemma aget_pos (l : list R) k : Forall (fun a => 0 < a) l -> (k < length l)%nat -> 0 < aget 0 l k.
Proof. intros H Hk. rewrite Forall_forall in H. apply H. unfold aget. now apply nth_In. Qed.

Lemma aget_map_inv (l : list R) k : (k < length l)%nat -> aget 0 (map (fun a => 1 / a) l) k = 1 / aget 0 l k.
Proof.
  intros Hk. unfold aget. rewrite nth_indep with (d' := 1 / 0) by (now rewrite map_length).
  apply (map_nth (fun a => 1 / a)).
Qed.

Lemma diag_mul (u v : list R) n : length u = n -> length v = n -> (0 < n)%nat ->
  (forall k, (k < n)%nat -> aget 0 u k * aget 0 v k = 1) -> matmul RO (diag RO u) (diag RO v) = eye RO n.
Proof.
  intros Hu Hv Hn H. pose proof (wfm_diag u) as Wu. pose proof (wfm_diag v) as Wv. rewrite Hu in Wu. rewrite Hv in Wv.
  apply (mat_ext_R n n). { apply (wfm_matmul n n n); auto. } { apply wfm_eye. }
  eapply meq_trans. { apply (mof_matmul n n n); auto. }
  intros i j Hi Hj. rewrite mof_eye by auto. unfold mmul.
  rewrite (sumf_ext n _ (fun k => delta i k * (aget 0 u i * (delta k j * aget 0 v k)))).
  2:{ intros k Hk. pose proof (mof_diag u) as Du. pose proof (mof_diag v) as Dv. rewrite Hu in Du. rewrite Hv in Dv.
      rewrite Du, Dv by auto. ring. }
  rewrite sumf_delta_l by auto. unfold delta. destruct (Nat.eq_dec i j) as [->|]; [|ring].
  rewrite Rmult_1_l. now apply H.
Qed.

Lemma stretch_lengths dim anis : (0 < dim)%nat ->
  length (1 :: map (fun a => 1 / a) (set_anis RO dim anis)) = dim /\ length (1 :: set_anis RO dim anis) = dim.
Proof. intros Hd. simpl. rewrite map_length, (set_anis_length RO). lia. Qed.

Lemma stretch_entries dim anis k : Forall (fun a => 0 < a) anis -> (k < dim)%nat ->
  aget 0 (1 :: map (fun a => 1 / a) (set_anis RO dim anis)) k * aget 0 (1 :: set_anis RO dim anis) k = 1.
Proof.
  intros Hp Hk. destruct k as [|k]; unfold aget; simpl; [lra|].
  pose proof (set_anis_length RO dim anis) as HL.
  change (aget 0 (map (fun a => 1 / a) (set_anis RO dim anis)) k * aget 0 (set_anis RO dim anis) k = 1).
  rewrite aget_map_inv by lia.
  pose proof (aget_pos _ k (set_anis_pos dim anis Hp)) as Hpos. field. apply Rgt_not_eq. apply Hpos. lia.
Qed.

Theorem stretch_inverse dim anis : (0 < dim)%nat -> Forall (fun a => 0 < a) anis ->
  matmul RO (matrix_isotropify RO dim anis) (matrix_anisotropify RO dim anis) = eye RO dim /\
  matmul RO (matrix_anisotropify RO dim anis) (matrix_isotropify RO dim anis) = eye RO dim.
Proof.
  intros Hd Hp. destruct (stretch_lengths dim anis Hd) as [L1 L2]. unfold matrix_isotropify, matrix_anisotropify. split.
  - apply diag_mul; auto. intros k Hk. simpl. now apply stretch_entries.
  - apply diag_mul; auto. intros k Hk. rewrite Rmult_comm. simpl. now apply stretch_entries.
Qed.

Lemma wfm_isotropify dim anis : (0 < dim)%nat -> wfm dim dim (matrix_isotropify RO dim anis).
Proof. intros Hd. destruct (stretch_lengths dim anis Hd) as [L1 L2]. unfold matrix_isotropify.
  pose proof (wfm_diag (1 :: map (fun a => 1 / a) (set_anis RO dim anis))) as W. simpl in L1, W |- *. now rewrite L1 in W. Qed.
Lemma wfm_anisotropify dim anis : (0 < dim)%nat -> wfm dim dim (matrix_anisotropify RO dim anis).
Proof. intros Hd. destruct (stretch_lengths dim anis Hd) as [L1 L2]. unfold matrix_anisotropify.
  pose proof (wfm_diag (1 :: set_anis RO dim anis)) as W. simpl in L2, W |- *. now rewrite L2 in W. Qed.
Lemma wfm_derotate dim angles : (0 < dim)%nat -> wfm dim dim (matrix_derotate RO dim angles).
Proof. intros Hd. rewrite derotate_is_transpose by auto. apply wfm_transpose; auto. now apply rotate_wfm. Qed.
Lemma wfm_isometrize dim angles anis : (0 < dim)%nat -> wfm dim dim (matrix_isometrize RO dim angles anis).
Proof. intros Hd. apply (wfm_matmul dim dim dim); auto. { now apply wfm_isotropify. } now apply wfm_derotate. Qed.
Lemma wfm_anisometrize dim angles anis : (0 < dim)%nat -> wfm dim dim (matrix_anisometrize RO dim angles anis).
Proof. intros Hd. apply (wfm_matmul dim dim dim); auto. { now apply rotate_wfm. } now apply wfm_anisotropify. Qed.

(* ---------- isometrize / anisometrize are inverse matrices *)
Theorem iso_aniso_inverse dim angles anis : (0 < dim)%nat -> Forall (fun a => 0 < a) anis ->
  matmul RO (matrix_isometrize RO dim angles anis) (matrix_anisometrize RO dim angles anis) = eye RO dim /\
  matmul RO (matrix_anisometrize RO dim angles anis) (matrix_isometrize RO dim angles anis) = eye RO dim.
Proof.
  intros Hd Hp. unfold matrix_isometrize, matrix_anisometrize.
  pose proof (wfm_isotropify dim anis Hd) as WI. pose proof (wfm_anisotropify dim anis Hd) as WA.
  pose proof (wfm_derotate dim angles Hd) as WD. pose proof (rotate_wfm dim angles Hd) as WR.
  destruct (derotate_rotate dim angles Hd) as [DR RD]. destruct (stretch_inverse dim anis Hd Hp) as [IA AI].
  split.
  - rewrite (matmul_assoc_R dim dim dim dim) by (auto; apply (wfm_matmul dim dim dim); auto).
    rewrite <- (matmul_assoc_R dim dim dim dim _ _ (matrix_anisotropify RO dim anis)) by auto.
    rewrite DR. rewrite (matmul_eye_l dim dim) by auto. exact IA.
  - rewrite (matmul_assoc_R dim dim dim dim) by (auto; apply (wfm_matmul dim dim dim); auto).
    rewrite <- (matmul_assoc_R dim dim dim dim _ _ (matrix_derotate RO dim angles)) by auto.
    rewrite AI. rewrite (matmul_eye_l dim dim) by auto. exact RD.
Qed.

(* both compositions are the identity on position arrays of any length *)
Theorem positions_round_trip dim angles anis n (pos : list (list R)) : (0 < dim)%nat ->
  Forall (fun a => 0 < a) anis -> wfm dim n pos ->
  isometrize RO dim angles anis (anisometrize RO dim angles anis pos) = pos /\
  anisometrize RO dim angles anis (isometrize RO dim angles anis pos) = pos.
Proof.
  intros Hd Hp Wp. unfold isometrize, anisometrize.
  pose proof (wfm_isometrize dim angles anis Hd) as WI. pose proof (wfm_anisometrize dim angles anis Hd) as WA.
  destruct (iso_aniso_inverse dim angles anis Hd Hp) as [IA AI]. split.
  - rewrite <- (matmul_assoc_R dim dim dim n) by auto. rewrite IA. now apply (matmul_eye_l dim n).
  - rewrite <- (matmul_assoc_R dim dim dim n) by auto. rewrite AI. now apply (matmul_eye_l dim n).
Qed.
