(* C12_Proofs3.v — a list of length scales is turned into ratios that reproduce it: len_scale_vec after
   set_len_anis is the given list (truncated to dim, padded with its last value). *)
From Coq Require Import Reals Lra Lia Arith List Bool.
From GS Require Import Num Loops C12_Model C12_Mat C12_Bridge C12_Proofs.
Import ListNotations.
Open Scope R_scope.

(* np.pad(ls[:dim], (0, dim - len), "edge") *)
Definition edge_pad (dim : nat) (ls : list R) : list R :=
  let l := firstn dim ls in l ++ repeat (last l 0) (dim - length l).

Lemma last_in (l : list R) : l <> [] -> In (last l 0) l.
Proof.
  induction l as [|a l IH]; intros H; [contradiction|]. destruct l as [|b l]; [left; reflexivity|].
  right. apply IH. discriminate.
Qed.

Lemma edge_pad_pos dim ls : (1 <= length (firstn dim ls))%nat -> Forall (fun l => 0 < l) ls ->
  Forall (fun l => 0 < l) (edge_pad dim ls).
Proof.
  intros Hl Hp. unfold edge_pad. rewrite Forall_forall in Hp. apply Forall_app. split.
  - apply Forall_forall. intros x Hx. apply Hp. eapply in_firstn_in; eauto.
  - apply Forall_forall. intros x Hx. apply repeat_spec in Hx. subst x. apply Hp.
    apply (in_firstn_in _ dim). apply last_in. intros E. rewrite E in Hl. simpl in Hl. lia.
Qed.
Lemma edge_pad_length dim ls : length (edge_pad dim ls) = Nat.max dim (length (firstn dim ls)).
Proof. unfold edge_pad. rewrite app_length, repeat_length. lia. Qed.

Theorem len_scale_list_roundtrip dim ls anis : (0 < dim)%nat -> (2 <= length (firstn dim ls))%nat ->
  Forall (fun l => 0 < l) ls ->
  exists an, set_len_anis RO dim ls anis false = Some (nth 0 ls 0, an) /\
    length an = (dim - 1)%nat /\ Forall (fun a => 0 < a) an /\
    len_scale_vec RO dim (nth 0 ls 0) an = edge_pad dim ls.
Proof.
  intros Hd Hl Hp.
  pose proof (edge_pad_pos dim ls ltac:(lia) Hp) as Hpos.
  pose proof (firstn_le_length dim ls) as Hle. rewrite firstn_length in Hl.
  assert (Hlen : length (edge_pad dim ls) = dim) by (rewrite edge_pad_length, firstn_length; lia).
  set (lsp := edge_pad dim ls) in *.
  set (an := map (fun i => aget 0 lsp i / aget 0 lsp 0) (seq 1 (dim - 1))).
  assert (H0 : aget 0 lsp 0 = nth 0 ls 0).
  { unfold lsp, edge_pad, aget. rewrite app_nth1 by (rewrite firstn_length; lia).
    destruct dim; [lia|]. destruct ls; reflexivity. }
  assert (Hk : forall k, (k < dim)%nat -> 0 < aget 0 lsp k).
  { intros k Hk. apply aget_pos; auto. lia. }
  assert (Han : Forall (fun a => 0 < a) an).
  { apply Forall_forall. intros x Hx. apply in_map_iff in Hx. destruct Hx as [i [<- Hi]]. apply in_seq in Hi.
    apply Rdiv_lt_0_compat; apply Hk; lia. }
  exists an. repeat split; auto.
  - assert (Hb : Nat.eqb (length (firstn dim ls)) 1 = false) by (apply Nat.eqb_neq; rewrite firstn_length; lia).
    assert (Hf : forallb (fun a => nltb RO (n0 RO) a) an = true).
    { apply forallb_forall. intros x Hx. rewrite Forall_forall in Han. specialize (Han x Hx). simpl.
      destruct (Rlt_dec 0 x); [reflexivity|contradiction]. }
    transitivity (if forallb (fun a => nltb RO (n0 RO) a) an then Some (aget 0 (firstn dim ls) 0, an) else None).
    { unfold set_len_anis. rewrite Hb. reflexivity. }
    rewrite Hf. f_equal. f_equal. rewrite <- H0. unfold lsp, edge_pad, aget.
    rewrite app_nth1 by (rewrite firstn_length; lia). reflexivity.
  - unfold an. now rewrite map_length, seq_length.
  - apply (list_ext 0).
    + unfold len_scale_vec. now rewrite map_length, seq_length, Hlen.
    + intros i Hi. unfold len_scale_vec in Hi |- *. rewrite map_length, seq_length in Hi.
      rewrite aget_map_seq by auto. destruct i as [|k]; [symmetry; exact H0|].
      unfold an. simpl.
      assert (E : aget 0 (map (fun i => aget 0 lsp i / aget 0 lsp 0) (seq 1 (dim - 1))) k = aget 0 lsp (S k) / aget 0 lsp 0).
      { unfold aget at 1. rewrite nth_indep with (d' := (fun i => aget 0 lsp i / aget 0 lsp 0) 0%nat) by (rewrite map_length, seq_length; lia).
        rewrite (map_nth (fun i => aget 0 lsp i / aget 0 lsp 0)). rewrite seq_nth by lia. reflexivity. }
      rewrite E, <- H0. field. apply Rgt_not_eq. apply Hk. lia.
Qed.
