(* C12_Proofs4.v — order of the rotation planes (adding a dimension only APPENDS the planes (k, dim-1)) and what
   set_model_angles(temporal=True) relies on it for: the rotation of a metric spatio-temporal model is block diagonal,
   the spatial block is the rotation of the purely spatial model, the time axis is untouched. *)
From Coq Require Import Reals Lra Lia Arith List Bool.
From GS Require Import Num Loops C12_Model C12_Mat C12_Bridge C12_Proofs C12_Proofs2.
Import ListNotations.
Open Scope R_scope.

(* ---------- plane order (no number type involved) *)
Theorem planes_order :
  rotation_planes 4 = [(0, 1); (0, 2); (1, 2); (0, 3); (1, 3); (2, 3)]%nat /\
  (forall n, rotation_planes (S (S n)) = rotation_planes (S n) ++ map (fun k => (k, S n)) (seq 0 (S n))) /\
  (forall dim, firstn (no_of_angles (dim - 1)) (rotation_planes dim) = rotation_planes (dim - 1)) /\
  (forall dim k, (k < no_of_angles dim)%nat ->
     (snd (nth k (rotation_planes dim) (0, 0)%nat) = dim - 1)%nat <-> (no_of_angles (dim - 1) <= k)%nat).
Proof.
  split; [reflexivity|]. split; [exact planes_succ|].
  assert (F : forall dim, firstn (no_of_angles (dim - 1)) (rotation_planes dim) = rotation_planes (dim - 1)).
  { intros [|[|n]]; try reflexivity.
    replace (S (S n) - 1)%nat with (S n) by lia. rewrite planes_succ, <- planes_length.
    rewrite firstn_app, Nat.sub_diag, firstn_all. simpl. now rewrite app_nil_r. }
  split; [exact F|].
  intros [|[|n]] k Hk; try (unfold no_of_angles in Hk; simpl in Hk; lia).
  replace (S (S n) - 1)%nat with (S n) by lia. rewrite planes_succ. rewrite <- (planes_length (S n)).
  destruct (Nat.lt_ge_cases k (length (rotation_planes (S n)))) as [H|H].
  - rewrite app_nth1 by auto. split; [|lia]. intros E. exfalso.
    pose proof (planes_ok (S n)) as P. rewrite Forall_forall in P.
    specialize (P (nth k (rotation_planes (S n)) (0, 0)%nat) (nth_In _ _ H)). lia.
  - rewrite app_nth2 by auto. split; [lia|]. intros _.
    rewrite no_of_angles_succ, <- (planes_length (S n)) in Hk.
    rewrite nth_indep with (d' := (fun k => (k, S n)) 0%nat) by (rewrite map_length, seq_length; lia).
    rewrite (map_nth (fun k => (k, S n))). reflexivity.
Qed.

(* ---------- generic loop facts *)
Lemma rotate_loop_app {T} (O : NumOps T) n : forall a1 p1, length a1 = length p1 -> forall i a2 p2 M,
  rotate_loop O n i (a1 ++ a2) (p1 ++ p2) M = rotate_loop O n (i + length a1) a2 p2 (rotate_loop O n i a1 p1 M).
Proof.
  induction a1 as [|a a1 IH]; intros [|p p1] L i a2 p2 M; simpl in L; try discriminate.
  - simpl. now rewrite Nat.add_0_r.
  - cbn [app rotate_loop length]. rewrite IH by lia. f_equal. lia.
Qed.

Lemma rotate_loop_zeros n : (0 < n)%nat -> forall angs planes i M,
  Forall (fun pl => (fst pl < snd pl < n)%nat) planes -> Forall (fun a => a = 0) angs -> wfm n n M ->
  rotate_loop RO n i angs planes M = M.
Proof.
  intros Hn. induction angs as [|a angs IH]; intros planes i M HP HA HM; [reflexivity|].
  destruct planes as [|[p q] planes]; [reflexivity|].
  inversion HP as [|? ? Hpq HP']; subst. inversion HA as [|? ? Ha HA']; subst. simpl in Hpq.
  cbn [rotate_loop]. rewrite alt_zero, givens_zero_list by auto. rewrite (matmul_eye_l n n) by auto. now apply IH.
Qed.

(* ---------- a Givens rotation in a plane that does not contain axis m leaves axis m alone *)
Lemma givens_col_out p q c s i m : p <> m -> q <> m -> givens p q c s i m = delta i m.
Proof.
  intros Hp Hq. unfold givens, delta.
  destruct (Nat.eq_dec i p), (Nat.eq_dec i q), (Nat.eq_dec m p), (Nat.eq_dec m q), (Nat.eq_dec i m); subst; try lia; try contradiction; reflexivity.
Qed.
Lemma givens_row_out p q c s j m : p <> m -> q <> m -> givens p q c s m j = delta m j.
Proof.
  intros Hp Hq. unfold givens, delta.
  destruct (Nat.eq_dec m p), (Nat.eq_dec m q), (Nat.eq_dec j p), (Nat.eq_dec j q), (Nat.eq_dec m j); subst; try lia; try contradiction; reflexivity.
Qed.

(* M' (size m+1) has M (size m) as its upper-left block and fixes the last axis *)
Definition blk (m : nat) (A A' : mat) : Prop := forall i j, (i < m)%nat -> (j < m)%nat -> A' i j = A i j.
Definition tfix (m : nat) (A' : mat) : Prop := forall i, (i < S m)%nat -> A' i m = delta i m /\ A' m i = delta m i.

Lemma rotate_loop_block m : (0 < m)%nat -> forall angs planes i M M',
  Forall (fun pl => (fst pl < snd pl < m)%nat) planes -> wfm m m M -> wfm (S m) (S m) M' ->
  blk m (mof M) (mof M') -> tfix m (mof M') ->
  blk m (mof (rotate_loop RO m i angs planes M)) (mof (rotate_loop RO (S m) i angs planes M')) /\
  tfix m (mof (rotate_loop RO (S m) i angs planes M')).
Proof.
  intros Hm. induction angs as [|a angs IH]; intros planes i M M' HP WM WM' HB HT; [split; assumption|].
  destruct planes as [|[p q] planes]; [split; assumption|].
  inversion HP as [|? ? Hpq HP']; subst. simpl in Hpq. cbn [rotate_loop].
  set (b := alt RO i a).
  assert (WG := wfm_givens m (p, q) b). assert (WG' := wfm_givens (S m) (p, q) b).
  assert (EG := mof_givens m p q b ltac:(lia) ltac:(lia) ltac:(lia)).
  assert (EG' := mof_givens (S m) p q b ltac:(lia) ltac:(lia) ltac:(lia)).
  set (g := givens p q (cos b) (sin b)) in *.
  assert (E1 : forall i j, (i < m)%nat -> (j < m)%nat ->
            mof (matmul RO (givens_rotation RO m (p, q) b) M) i j = mmul m g (mof M) i j).
  { intros x y Hx Hy. rewrite (mof_matmul m m m _ _ WG WM Hm x y Hx Hy).
    apply (mmul_ext m m m); auto; apply meq_refl. }
  assert (E2 : forall i j, (i < S m)%nat -> (j < S m)%nat ->
            mof (matmul RO (givens_rotation RO (S m) (p, q) b) M') i j = mmul (S m) g (mof M') i j).
  { intros x y Hx Hy. rewrite (mof_matmul (S m) (S m) (S m) _ _ WG' WM' ltac:(lia) x y Hx Hy).
    apply (mmul_ext (S m) (S m) (S m)); auto; apply meq_refl. }
  apply IH; auto.
  - apply (wfm_matmul m m m); auto.
  - apply (wfm_matmul (S m) (S m) (S m)); auto; lia.
  - intros x y Hx Hy. rewrite E1, E2 by (auto; lia). unfold mmul. cbn [sumf].
    destruct (HT y ltac:(lia)) as [_ HTy]. rewrite HTy, delta_diff by lia. rewrite Rmult_0_r, Rplus_0_r.
    apply sumf_ext. intros k Hk. now rewrite HB.
  - intros x Hx. split.
    + rewrite E2 by (auto; lia). unfold mmul.
      rewrite (sumf_ext (S m) _ (fun k => g x k * delta k m)).
      2:{ intros k Hk. destruct (HT k Hk) as [HTk _]. now rewrite HTk. }
      rewrite sumf_delta_r by lia. unfold g. apply givens_col_out; lia.
    + rewrite E2 by (auto; lia). unfold mmul.
      rewrite (sumf_ext (S m) _ (fun k => delta m k * mof M' k x)).
      2:{ intros k Hk. unfold g. rewrite givens_row_out by lia. reflexivity. }
      rewrite sumf_delta_l by lia. destruct (HT x Hx) as [_ HTx]. exact HTx.
Qed.

(* ---------- the angles of a temporal model *)
Lemma firstn_map_seq (f : nat -> R) k N : (k <= N)%nat -> firstn k (map f (seq 0 N)) = map f (seq 0 k).
Proof.
  intros H. replace N with (k + (N - k))%nat by lia. rewrite seq_app, map_app.
  rewrite firstn_app, map_length, seq_length, Nat.sub_diag. simpl. rewrite app_nil_r.
  apply firstn_all2. rewrite map_length, seq_length. lia.
Qed.

Lemma temporal_angles n angles :
  set_model_angles RO (S (S n)) angles false true = set_angles RO (S n) angles ++ repeat 0 (S n).
Proof.
  unfold set_model_angles. replace (S (S n) - 1)%nat with (S n) by lia.
  rewrite (set_angles_length RO). rewrite !set_angles_spec. rewrite no_of_angles_succ.
  rewrite firstn_map_seq by lia. f_equal. f_equal. lia.
Qed.

(* the loop of the temporal model only runs over the spatial planes *)
Lemma temporal_rotate_eq n angles :
  matrix_rotate RO (S (S n)) (set_model_angles RO (S (S n)) angles false true)
  = rotate_loop RO (S (S n)) 0 (set_angles RO (S n) angles) (rotation_planes (S n)) (eye RO (S (S n))).
Proof.
  unfold matrix_rotate. rewrite temporal_angles, planes_succ. set (m := S n).
  assert (LA : length (set_angles RO m angles) = length (rotation_planes m))
    by (now rewrite (set_angles_length RO), planes_length).
  assert (SA : set_angles RO (S m) (set_angles RO m angles ++ repeat 0 m) = set_angles RO m angles ++ repeat 0 m).
  { unfold set_angles at 1. rewrite firstn_all2.
    - replace (no_of_angles (S m) - length (set_angles RO m angles ++ repeat 0%R m))%nat with 0%nat. { simpl. now rewrite app_nil_r. }
      rewrite app_length, repeat_length, (set_angles_length RO). unfold m. rewrite no_of_angles_succ. lia.
    - rewrite app_length, repeat_length, (set_angles_length RO). unfold m. rewrite no_of_angles_succ. lia. }
  rewrite SA. clear SA. clearbody m.
  rewrite rotate_loop_app by exact LA.
  assert (P1' : Forall (fun pl => (fst pl < snd pl < S m)%nat) (rotation_planes m)).
  { eapply Forall_impl; [|apply (planes_ok m)]. intros pl H. simpl in *. lia. }
  assert (P2 : Forall (fun pl => (fst pl < snd pl < S m)%nat) (map (fun k => (k, m)) (seq 0 m))).
  { apply Forall_forall. intros pl H. apply in_map_iff in H. destruct H as [k [<- Hk]]. apply in_seq in Hk. simpl. lia. }
  destruct (rotate_loop_inv (S m) ltac:(lia) (set_angles RO m angles) (rotation_planes m) 0 (eye RO (S m)) P1'
              (wfm_eye (S m)) (eye_orth2 (S m))) as [W1 _].
  apply rotate_loop_zeros; auto; try lia.
  apply Forall_forall. intros x Hx. now apply repeat_spec in Hx.
Qed.

(* metric spatio-temporal model in spatial dimension m >= 1: rotation = spatial rotation (+) identity on time *)
Theorem temporal_rotation_block n angles :
  let m := S n in
  let Rt := matrix_rotate RO (S m) (set_model_angles RO (S m) angles false true) in
  let Rs := matrix_rotate RO m angles in
  (forall i j, (i < m)%nat -> (j < m)%nat -> mof Rt i j = mof Rs i j) /\
  (forall i, (i < S m)%nat -> mof Rt i m = delta i m /\ mof Rt m i = delta m i).
Proof.
  intros m Rt Rs. subst Rt Rs m. rewrite temporal_rotate_eq. set (m := S n).
  assert (Hm : (0 < m)%nat) by (unfold m; lia). clearbody m.
  unfold matrix_rotate.
  destruct (rotate_loop_block m Hm (set_angles RO m angles) (rotation_planes m) 0 (eye RO m) (eye RO (S m)) (planes_ok m)
              (wfm_eye m) (wfm_eye (S m))) as [HB HT].
  - intros i j Hi Hj. rewrite !mof_eye by lia. reflexivity.
  - intros i Hi. rewrite !mof_eye by lia. split; reflexivity.
  - split; [exact HB|exact HT].
Qed.

(* 3-D + time: the spatial block is Rx(roll) Ry(pitch) Rz(yaw), whatever further angles are given *)
Corollary temporal_3d_plus_time angles :
  let Rt := matrix_rotate RO 4 (set_model_angles RO 4 angles false true) in
  (forall i j, (i < 3)%nat -> (j < 3)%nat ->
     mof Rt i j = mof (matmul RO (rotx (nth 2 angles 0)) (matmul RO (roty (nth 1 angles 0)) (rotz (nth 0 angles 0)))) i j) /\
  (forall i, (i < 4)%nat -> mof Rt i 3%nat = delta i 3 /\ mof Rt 3%nat i = delta 3 i).
Proof.
  intros Rt. destruct (temporal_rotation_block 2 angles) as [H1 H2]. split; [|exact H2].
  intros i j Hi Hj. unfold Rt. rewrite H1 by auto. now rewrite rotate_3d.
Qed.
