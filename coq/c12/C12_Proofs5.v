(* C12_Proofs5.v — the geometry parameters of one model object as a state machine: after EVERY history of setter
   calls (len_scale scalar / list, anis, angles, dim; failing calls leave the state alone) the stored parameters are
   well-formed, are fixed points of the padding functions (so every evaluation uses exactly the stored values), and the
   coordinate maps computed from the PRESENT state are mutually inverse.  Evaluations are functions of the present
   state by construction (geo_isometrize s = isometrize of the fields of s): no history dependence, no cache. *)
From Coq Require Import Reals Lra Lia Arith List Bool.
From GS Require Import Num Loops C12_Model C12_Mat C12_Bridge C12_Proofs.
Import ListNotations.
Open Scope R_scope.

Definition geo_ok (s : @geo R) : Prop :=
  (1 <= g_dim s)%nat /\ length (g_anis s) = (g_dim s - 1)%nat /\
  length (g_angles s) = no_of_angles (g_dim s) /\ Forall (fun a => 0 < a) (g_anis s).

Lemma set_len_anis_some dim ls anis l an :
  set_len_anis RO dim ls anis false = Some (l, an) -> length an = (dim - 1)%nat /\ Forall (fun a => 0 < a) an.
Proof.
  unfold set_len_anis.
  set (out := if Nat.eqb (length (firstn dim ls)) 1 then set_anis RO dim anis else _).
  destruct (forallb (fun a => nltb RO (n0 RO) a) out) eqn:F; [|discriminate].
  intros E. inversion E; subst an. split.
  - unfold out. destruct (Nat.eqb (length (firstn dim ls)) 1).
    + apply (set_anis_length RO).
    + now rewrite map_length, seq_length.
  - apply Forall_forall. intros x Hx. rewrite forallb_forall in F. specialize (F x Hx). simpl in F.
    destruct (Rlt_dec 0 x); [assumption|discriminate].
Qed.

Lemma set_model_angles_length {T} (O : NumOps T) dim a ll tt :
  length (set_model_angles O dim a ll tt) = no_of_angles dim.
Proof.
  unfold set_model_angles. destruct ll; [apply repeat_length|]. destruct tt; [|apply set_angles_length].
  rewrite app_length, firstn_length, repeat_length, (set_angles_length O). lia.
Qed.

Lemma geo_step_ok s op : geo_ok s -> geo_ok (geo_step RO s op).
Proof.
  intros (H1 & H2 & H3 & H4). destruct op as [ls|a|a|d]; simpl.
  - destruct (set_len_anis RO (g_dim s) ls (g_anis s) false) as [[l an]|] eqn:E; [|repeat split; assumption].
    destruct (set_len_anis_some _ _ _ _ _ E). repeat split; simpl; assumption.
  - destruct (set_len_anis RO (g_dim s) [g_len s] a false) as [[l an]|] eqn:E; [|repeat split; assumption].
    destruct (set_len_anis_some _ _ _ _ _ E). repeat split; simpl; assumption.
  - repeat split; simpl; try assumption. exact (set_model_angles_length RO _ _ false _).
  - destruct (Nat.ltb_spec d 1); [repeat split; assumption|].
    destruct (set_len_anis RO d [g_len s] (g_anis s) false) as [[l an]|] eqn:E; [|repeat split; assumption].
    destruct (set_len_anis_some _ _ _ _ _ E). repeat split; simpl; try assumption. exact (set_model_angles_length RO _ _ false _).
Qed.

Theorem geo_history_ok ops : forall s, geo_ok s -> geo_ok (fold_left (geo_step RO) ops s).
Proof. induction ops as [|op ops IH]; intros s H; simpl; auto. apply IH. now apply geo_step_ok. Qed.

Theorem geo_init_ok dim ls anis angles temporal s : (1 <= dim)%nat ->
  geo_init RO dim ls anis angles temporal = Some s -> geo_ok s.
Proof.
  intros Hd. unfold geo_init. destruct (set_len_anis RO dim ls anis false) as [[l an]|] eqn:E; [|discriminate].
  intros H. inversion H; subst s. destruct (set_len_anis_some _ _ _ _ _ E).
  repeat split; simpl; try assumption. exact (set_model_angles_length RO _ _ false _).
Qed.

(* the stored parameters are fixed points of the padding: the matrix functions see exactly the stored values *)
Theorem geo_params_normal s : geo_ok s ->
  set_anis RO (g_dim s) (g_anis s) = g_anis s /\ set_angles RO (g_dim s) (g_angles s) = g_angles s.
Proof.
  intros (H1 & H2 & H3 & H4). split.
  - unfold set_anis. rewrite firstn_all2 by lia. rewrite H2, Nat.sub_diag. reflexivity.
  - unfold set_angles. rewrite firstn_all2 by lia. rewrite H3, Nat.sub_diag. simpl. apply app_nil_r.
Qed.

(* after every history the coordinate maps of the present state are mutually inverse *)
Theorem geo_history_round_trip ops s n (pos : list (list R)) : geo_ok s ->
  let s' := fold_left (geo_step RO) ops s in
  wfm (g_dim s') n pos ->
  geo_isometrize RO s' (geo_anisometrize RO s' pos) = pos /\ geo_anisometrize RO s' (geo_isometrize RO s' pos) = pos.
Proof.
  intros H s' Wp. destruct (geo_history_ok ops s H) as (H1 & H2 & H3 & H4). fold s' in H1, H2, H3, H4.
  unfold geo_isometrize, geo_anisometrize. apply (positions_round_trip (g_dim s') _ _ n); auto.
Qed.

(* a scalar len_scale assignment changes the main length scale and nothing else *)
Theorem geo_scalar_len s l : geo_ok s -> 0 < l ->
  geo_step RO s (OpLen [l]) = mkGeo (g_dim s) l (g_anis s) (g_angles s) (g_temporal s).
Proof.
  intros H Hl. destruct (geo_params_normal s H) as [NA _]. destruct H as (H1 & H2 & H3 & H4). simpl.
  assert (F : firstn (g_dim s) [l] = [l]).
  { destruct (g_dim s) as [|d]; [lia|]. simpl. now rewrite firstn_nil. }
  assert (E : set_len_anis RO (g_dim s) [l] (g_anis s) false = Some (l, g_anis s)).
  { unfold set_len_anis. rewrite F. simpl length. simpl Nat.eqb. cbv iota. rewrite NA.
    replace (forallb (fun a => nltb RO (n0 RO) a) (g_anis s)) with true; [reflexivity|].
    symmetry. apply forallb_forall. intros x Hx. rewrite Forall_forall in H4. specialize (H4 x Hx). simpl.
    destruct (Rlt_dec 0 x); [reflexivity|contradiction]. }
  now rewrite E.
Qed.

Example geo_ok_example : geo_ok (mkGeo 3%nat 2 [1; / 2] [0; 1; 0] false).
Proof. repeat split; simpl; try lia. repeat constructor; lra. Qed.
