(* C12_Proofs2.v — determinant, angle conventions, main-axis scaling, iso-radius, isotropic twin. *)
From Coq Require Import Reals Lra Lia Arith List Bool.
From GS Require Import Num Loops C12_Model C12_Mat C12_Bridge C12_Proofs.
Import ListNotations.
Open Scope R_scope.

(* ---------- set_angles, spelled out: the k-th angle is the k-th given value, or 0 *)
Lemma set_angles_spec dim (a : list R) :
  set_angles RO dim a = map (fun k => nth k a 0) (seq 0 (no_of_angles dim)).
Proof.
  apply (list_ext 0).
  - now rewrite (set_angles_length RO), map_length, seq_length.
  - intros i Hi. rewrite (set_angles_length RO) in Hi. rewrite aget_map_seq by auto.
    apply (set_angles_nth RO dim a i Hi).
Qed.

(* ---------- determinant +1 for dim <= 3 *)
Theorem rotate_dim1 angles : matrix_rotate RO 1 angles = [[1]].
Proof. reflexivity. Qed.

Lemma rotate_loop_det2 : forall angs planes i M,
  Forall (fun pl => (fst pl < snd pl < 2)%nat) planes -> wfm 2 2 M -> det2 (mof M) = 1 ->
  det2 (mof (rotate_loop RO 2 i angs planes M)) = 1.
Proof.
  induction angs as [|a angs IH]; intros planes i M HP HM HD; [exact HD|].
  destruct planes as [|[p q] planes]; [exact HD|]. inversion HP as [|? ? Hpq HP']; subst. simpl in Hpq.
  cbn [rotate_loop]. assert (HG := wfm_givens 2 (p, q) (alt RO i a)). apply IH; auto.
  - apply (wfm_matmul 2 2 2); auto.
  - rewrite (det2_ext _ _ (mof_matmul 2 2 2 _ _ HG HM (Nat.lt_0_succ 1))), det2_mmul, HD.
    rewrite (det2_ext _ _ (mof_givens 2 p q _ ltac:(lia) ltac:(lia) ltac:(lia))).
    rewrite det2_givens by lia. rewrite cs1. ring.
Qed.
Lemma rotate_loop_det3 : forall angs planes i M,
  Forall (fun pl => (fst pl < snd pl < 3)%nat) planes -> wfm 3 3 M -> det3 (mof M) = 1 ->
  det3 (mof (rotate_loop RO 3 i angs planes M)) = 1.
Proof.
  induction angs as [|a angs IH]; intros planes i M HP HM HD; [exact HD|].
  destruct planes as [|[p q] planes]; [exact HD|]. inversion HP as [|? ? Hpq HP']; subst. simpl in Hpq.
  cbn [rotate_loop]. assert (HG := wfm_givens 3 (p, q) (alt RO i a)). apply IH; auto.
  - apply (wfm_matmul 3 3 3); auto.
  - rewrite (det3_ext _ _ (mof_matmul 3 3 3 _ _ HG HM (Nat.lt_0_succ 2))), det3_mmul, HD.
    rewrite (det3_ext _ _ (mof_givens 3 p q _ ltac:(lia) ltac:(lia) ltac:(lia))).
    rewrite det3_givens by lia. rewrite cs1. ring.
Qed.
Lemma rotate_loop_det4 : forall angs planes i M,
  Forall (fun pl => (fst pl < snd pl < 4)%nat) planes -> wfm 4 4 M -> det4 (mof M) = 1 ->
  det4 (mof (rotate_loop RO 4 i angs planes M)) = 1.
Proof.
  induction angs as [|a angs IH]; intros planes i M HP HM HD; [exact HD|].
  destruct planes as [|[p q] planes]; [exact HD|]. inversion HP as [|? ? Hpq HP']; subst. simpl in Hpq.
  cbn [rotate_loop]. assert (HG := wfm_givens 4 (p, q) (alt RO i a)). apply IH; auto.
  - apply (wfm_matmul 4 4 4); auto.
  - rewrite (det4_ext _ _ (mof_matmul 4 4 4 _ _ HG HM (Nat.lt_0_succ 3))), det4_mmul, HD.
    rewrite (det4_ext _ _ (mof_givens 4 p q _ ltac:(lia) ltac:(lia) ltac:(lia))).
    rewrite det4_givens by lia. rewrite cs1. ring.
Qed.
Theorem rotate_det4 angles : det4 (mof (matrix_rotate RO 4 angles)) = 1.
Proof.
  unfold matrix_rotate. apply rotate_loop_det4. { apply planes_ok. } { apply wfm_eye. }
  rewrite (det4_ext _ _ (mof_eye 4)). apply det4_delta.
Qed.
Theorem rotate_det2 angles : det2 (mof (matrix_rotate RO 2 angles)) = 1.
Proof.
  unfold matrix_rotate. apply rotate_loop_det2. { apply planes_ok. } { apply wfm_eye. }
  rewrite (det2_ext _ _ (mof_eye 2)). apply det2_delta.
Qed.
Theorem rotate_det3 angles : det3 (mof (matrix_rotate RO 3 angles)) = 1.
Proof.
  unfold matrix_rotate. apply rotate_loop_det3. { apply planes_ok. } { apply wfm_eye. }
  rewrite (det3_ext _ _ (mof_eye 3)). apply det3_delta.
Qed.

(* ---------- conventions *)
Definition rot2 (a : R) : list (list R) := [[cos a; - sin a]; [sin a; cos a]].
Definition rotz (a : R) : list (list R) := [[cos a; - sin a; 0]; [sin a; cos a; 0]; [0; 0; 1]].
Definition roty (b : R) : list (list R) := [[cos b; 0; sin b]; [0; 1; 0]; [- sin b; 0; cos b]].
Definition rotx (c : R) : list (list R) := [[1; 0; 0]; [0; cos c; - sin c]; [0; sin c; cos c]].

Lemma wfm2_lit (a b c d : R) : wfm 2 2 [[a; b]; [c; d]].
Proof. split; [reflexivity|repeat constructor]. Qed.
Lemma wfm3_lit (a b c d e f g h k : R) : wfm 3 3 [[a; b; c]; [d; e; f]; [g; h; k]].
Proof. split; [reflexivity|repeat constructor]. Qed.

(* 2-D: counter-clockwise rotation by the first angle (0 if none is given) *)
Theorem rotate_2d angles : matrix_rotate RO 2 angles = rot2 (nth 0 angles 0).
Proof.
  unfold matrix_rotate. rewrite set_angles_spec. set (a := nth 0 angles 0).
  change (rotate_loop RO 2 0 [a] [(0, 1)%nat] (eye RO 2) = rot2 a).
  cbn [rotate_loop]. rewrite (matmul_eye_r 2 2) by (try lia; apply wfm_givens). reflexivity.
Qed.

(* 3-D: R = Rx(roll) . Ry(pitch) . Rz(yaw) with angles = (yaw, pitch, roll), each a right-handed rotation about
   its axis; planes are taken in the order xy, xz, yz with alternating signs *)
Theorem rotate_3d angles :
  matrix_rotate RO 3 angles
  = matmul RO (rotx (nth 2 angles 0)) (matmul RO (roty (nth 1 angles 0)) (rotz (nth 0 angles 0))).
Proof.
  unfold matrix_rotate. rewrite set_angles_spec.
  set (a := nth 0 angles 0). set (b := nth 1 angles 0). set (c := nth 2 angles 0).
  change (rotate_loop RO 3 0 [a; b; c] [(0, 1); (0, 2); (1, 2)]%nat (eye RO 3) = matmul RO (rotx c) (matmul RO (roty b) (rotz a))).
  cbn [rotate_loop]. rewrite (matmul_eye_r 3 3) by (try lia; apply wfm_givens).
  assert (E1 : givens_rotation RO 3 (0, 1)%nat (alt RO 0 a) = rotz a) by reflexivity.
  assert (E2 : givens_rotation RO 3 (0, 2)%nat (alt RO 1 b) = roty b).
  { unfold roty. rewrite <- (cos_neg b). rewrite <- (Ropp_involutive (sin b)) at 1. rewrite <- (sin_neg b). reflexivity. }
  assert (E3 : givens_rotation RO 3 (1, 2)%nat (alt RO 2 c) = rotx c) by reflexivity.
  rewrite E1, E2, E3. reflexivity.
Qed.

(* ---------- zero angles, unit ratios: everything is the identity (the isotropic twin model) *)
Lemma givens_zero_list n p q : (p < q < n)%nat -> givens_rotation RO n (p, q) 0 = eye RO n.
Proof.
  intros H. apply (mat_ext_R n n). { apply wfm_givens. } { apply wfm_eye. }
  eapply meq_trans. { apply mof_givens; lia. } rewrite cos_0, sin_0.
  intros i j Hi Hj. rewrite givens_zero. symmetry. now apply mof_eye.
Qed.
Lemma alt_zero i : alt RO i 0 = 0.
Proof. unfold alt. destruct (Nat.even i); simpl; ring. Qed.
Lemma rotate_loop_zero n : (0 < n)%nat -> forall angs planes i,
  Forall (fun pl => (fst pl < snd pl < n)%nat) planes -> Forall (fun a => a = 0) angs ->
  rotate_loop RO n i angs planes (eye RO n) = eye RO n /\ derotate_loop RO n i angs planes (eye RO n) = eye RO n.
Proof.
  intros Hn. induction angs as [|a angs IH]; intros planes i HP HA; [split; reflexivity|].
  destruct planes as [|[p q] planes]; [split; reflexivity|].
  inversion HP as [|? ? Hpq HP']; subst. inversion HA as [|? ? Ha HA']; subst. simpl in Hpq.
  cbn [rotate_loop derotate_loop]. rewrite alt_zero, givens_zero_list by auto.
  rewrite (matmul_eye_l n n) by (auto; apply wfm_eye). now apply IH.
Qed.
Lemma set_angles_zero dim angles : Forall (fun a => a = 0) angles -> Forall (fun a => a = 0) (set_angles RO dim angles).
Proof.
  intros H. unfold set_angles. apply Forall_app. split.
  - apply Forall_forall. intros x Hx. rewrite Forall_forall in H. apply H. eapply in_firstn_in; eauto.
  - apply Forall_forall. intros x Hx. apply repeat_spec in Hx. exact Hx.
Qed.
Lemma set_anis_one dim anis : Forall (fun a => a = 1) anis -> Forall (fun a => a = 1) (set_anis RO dim anis).
Proof.
  intros H. unfold set_anis. apply Forall_app. split.
  - apply Forall_forall. intros x Hx. apply repeat_spec in Hx. exact Hx.
  - apply Forall_forall. intros x Hx. rewrite Forall_forall in H. apply H. eapply in_firstn_in; eauto.
Qed.
Lemma diag_ones (v : list R) : Forall (fun a => a = 1) v -> diag RO v = eye RO (length v).
Proof.
  intros H. apply (mat_ext_R (length v) (length v)). { apply wfm_diag. } { apply wfm_eye. }
  eapply meq_trans. { apply mof_diag. } intros i j Hi Hj. rewrite mof_eye by auto.
  rewrite Forall_forall in H. rewrite (H (aget 0 v i)) by (unfold aget; now apply nth_In). ring.
Qed.
Lemma isotropify_ones dim anis : (0 < dim)%nat -> Forall (fun a => a = 1) anis -> matrix_isotropify RO dim anis = eye RO dim.
Proof.
  intros Hd H. unfold matrix_isotropify. destruct (stretch_lengths dim anis Hd) as [L1 _].
  rewrite diag_ones. { simpl in L1 |- *. now rewrite L1. }
  constructor; [reflexivity|]. apply Forall_forall. intros x Hx. apply in_map_iff in Hx. destruct Hx as [y [<- Hy]].
  pose proof (set_anis_one dim anis H) as H1. rewrite Forall_forall in H1. rewrite (H1 y Hy). simpl. field.
Qed.
Lemma derotate_zero dim angles : (0 < dim)%nat -> Forall (fun a => a = 0) angles -> matrix_derotate RO dim angles = eye RO dim.
Proof.
  intros Hd H. unfold matrix_derotate. apply rotate_loop_zero; auto. { apply planes_ok. }
  apply Forall_forall. intros x Hx. apply in_map_iff in Hx. destruct Hx as [y [<- Hy]].
  pose proof (set_angles_zero dim angles H) as H0. rewrite Forall_forall in H0. rewrite (H0 y Hy). simpl. ring.
Qed.

Theorem isotropic_isometrize_matrix dim angles anis : (0 < dim)%nat ->
  Forall (fun a => a = 0) angles -> Forall (fun a => a = 1) anis -> matrix_isometrize RO dim angles anis = eye RO dim.
Proof.
  intros Hd HA HS. unfold matrix_isometrize. rewrite isotropify_ones, derotate_zero by auto.
  apply (matmul_eye_l dim dim); auto. apply wfm_eye.
Qed.

(* the isotropic twin (no angles, no ratios) leaves positions untouched: pre_pos of the twin at the transformed
   positions hands the generator / kriging the same isotropic positions as pre_pos of the anisotropic model at x *)
Theorem isotropic_twin dim angles anis n (pos : list (list R)) : (0 < dim)%nat -> wfm dim n pos ->
  isometrize RO dim [] [] (isometrize RO dim angles anis pos) = isometrize RO dim angles anis pos.
Proof.
  intros Hd Wp. unfold isometrize at 1. rewrite isotropic_isometrize_matrix by (auto; constructor).
  apply (matmul_eye_l dim n); auto. apply (wfm_matmul dim dim n); auto. now apply wfm_isometrize.
Qed.

(* ---------- entries of the isometrize matrix: row k of the main axes divided by the k-th ratio *)
Definition ratio (dim : nat) (anis : list R) (k : nat) : R := aget 0 (1 :: set_anis RO dim anis) k.

Lemma ratio_pos dim anis k : Forall (fun a => 0 < a) anis -> (k < dim)%nat -> 0 < ratio dim anis k.
Proof.
  intros Hp Hk. unfold ratio. apply aget_pos. { constructor; [lra|]. now apply set_anis_pos. }
  simpl. rewrite (set_anis_length RO). lia.
Qed.
Lemma inv_ratio dim anis k : Forall (fun a => 0 < a) anis -> (k < dim)%nat ->
  aget 0 (1 :: map (fun a => 1 / a) (set_anis RO dim anis)) k = 1 / ratio dim anis k.
Proof.
  intros Hp Hk. unfold ratio. destruct k as [|k]; unfold aget; simpl; [field|].
  apply (aget_map_inv (set_anis RO dim anis) k). rewrite (set_anis_length RO). lia.
Qed.

Lemma mof_isotropify dim anis : (0 < dim)%nat -> Forall (fun a => 0 < a) anis ->
  meq dim dim (mof (matrix_isotropify RO dim anis)) (fun i j => delta i j * (1 / ratio dim anis i)).
Proof.
  intros Hd Hp i j Hi Hj. unfold matrix_isotropify. destruct (stretch_lengths dim anis Hd) as [L1 _].
  pose proof (mof_diag (1 :: map (fun a => 1 / a) (set_anis RO dim anis))) as D. simpl in L1, D.
  rewrite L1 in D. simpl. rewrite D by auto. f_equal. now apply inv_ratio.
Qed.

Lemma mof_isometrize dim angles anis : (0 < dim)%nat -> Forall (fun a => 0 < a) anis ->
  meq dim dim (mof (matrix_isometrize RO dim angles anis))
              (fun k l => mof (rotated_main_axes RO dim angles) k l / ratio dim anis k).
Proof.
  intros Hd Hp. unfold matrix_isometrize, rotated_main_axes. rewrite derotate_is_transpose by auto.
  pose proof (wfm_isotropify dim anis Hd) as WI. pose proof (rotate_wfm dim angles Hd) as WR.
  pose proof (wfm_transpose dim dim _ WR Hd) as WT.
  eapply meq_trans. { apply (mof_matmul dim dim dim); auto. }
  intros k l Hk Hl. unfold mmul.
  rewrite (sumf_ext dim _ (fun m => delta k m * (1 / ratio dim anis k * mof (transpose RO (matrix_rotate RO dim angles)) m l))).
  2:{ intros m Hm. rewrite (mof_isotropify dim anis Hd Hp k m Hk Hm). ring. }
  rewrite sumf_delta_l by auto. field. apply Rgt_not_eq. now apply ratio_pos.
Qed.

(* ---------- main-axis scaling *)
Theorem main_axis_scale dim angles anis i t : (0 < dim)%nat -> Forall (fun a => 0 < a) anis -> (i < dim)%nat ->
  let ax := arow (rotated_main_axes RO dim angles) i in
  isometrize RO dim angles anis (map (fun x => [t * x]) ax)
  = mkmat dim 1 (fun k _ => if Nat.eqb k i then t / ratio dim anis i else 0).
Proof.
  intros Hd Hp Hi ax. remember ax as ax' eqn:Eax. subst ax. rename ax' into ax.
  pose proof (rotate_wfm dim angles Hd) as WR. pose proof (wfm_transpose dim dim _ WR Hd) as WT.
  pose proof (wfm_isometrize dim angles anis Hd) as WI.
  assert (Lax : length ax = dim) by (rewrite Eax; apply (wfm_row_len dim dim _ i WT Hi)).
  assert (Wp : wfm dim 1 (map (fun x => [t * x]) ax)).
  { split. { now rewrite map_length. } apply Forall_forall. intros r Hr. apply in_map_iff in Hr. destruct Hr as [x [<- _]]. reflexivity. }
  assert (Ep : forall l, (l < dim)%nat -> mof (map (fun x => [t * x]) ax) l 0%nat = t * mof (rotated_main_axes RO dim angles) i l).
  { intros l Hl. unfold mof, aget2, arow.
    rewrite nth_indep with (d' := (fun x => [t * x]) 0) by (rewrite map_length; lia).
    rewrite (map_nth (fun x => [t * x])). rewrite Eax. reflexivity. }
  unfold isometrize. apply (mat_ext_R dim 1). { apply (wfm_matmul dim dim 1); auto. } { apply wfm_mkmat. }
  eapply meq_trans. { apply (mof_matmul dim dim 1); auto. }
  intros k j Hk Hj. assert (j = 0)%nat by lia. subst j. unfold mof at 3. rewrite aget2_mkmat by auto.
  unfold mmul.
  rewrite (sumf_ext dim _ (fun l => t / ratio dim anis k *
     (mT (mof (matrix_rotate RO dim angles)) k l * mof (matrix_rotate RO dim angles) l i))).
  2:{ intros l Hl. rewrite (mof_isometrize dim angles anis Hd Hp k l Hk Hl), (Ep l Hl).
      unfold rotated_main_axes. rewrite !(mof_transpose dim dim _ WR Hd) by auto. unfold mT.
      field. apply Rgt_not_eq. now apply ratio_pos. }
  rewrite sumf_scal. destruct (rotate_orth2 dim angles Hd) as [HO _].
  change (sumf dim (fun l => mT (mof (matrix_rotate RO dim angles)) k l * mof (matrix_rotate RO dim angles) l i))
    with (mmul dim (mT (mof (matrix_rotate RO dim angles))) (mof (matrix_rotate RO dim angles)) k i).
  rewrite (HO k i Hk Hi). unfold delta.
  destruct (Nat.eqb_spec k i), (Nat.eq_dec k i); try contradiction; subst; ring.
Qed.

(* ---------- iso radius *)
Lemma col_norms_spec r n (M : list (list R)) : (0 < r)%nat -> wfm r n M ->
  col_norms RO M = map (fun j => sqrt (sumf r (fun k => mof M k j * mof M k j))) (seq 0 n).
Proof.
  intros Hr WM. unfold col_norms. rewrite (wfm_shape0 r n M WM), (wfm_shape1 r n M WM Hr).
  apply map_ext. intros j. simpl. f_equal. apply (for_sum r (fun k => aget2 0 M k j * aget2 0 M k j)).
Qed.

(* _get_iso_rad = Euclidean norm of the components along the rotated main axes, each divided by its ratio *)
Theorem iso_rad_spec dim angles anis n (pos : list (list R)) : (0 < dim)%nat -> Forall (fun a => 0 < a) anis ->
  wfm dim n pos ->
  get_iso_rad RO dim angles anis pos
  = map (fun j => sqrt (sumf dim (fun k =>
        Rsqr (sumf dim (fun l => mof (main_axes RO dim angles) k l * mof pos l j) / ratio dim anis k)))) (seq 0 n).
Proof.
  intros Hd Hp Wp. unfold get_iso_rad. pose proof (wfm_isometrize dim angles anis Hd) as WI.
  rewrite (col_norms_spec dim n) by (auto; apply (wfm_matmul dim dim n); auto).
  apply map_ext_in. intros j Hj. apply in_seq in Hj. f_equal. apply sumf_ext. intros k Hk.
  rewrite (mof_matmul dim dim n _ _ WI Wp Hd k j Hk ltac:(lia)). unfold Rsqr, mmul.
  assert (E : sumf dim (fun l => mof (matrix_isometrize RO dim angles anis) k l * mof pos l j)
            = sumf dim (fun l => mof (main_axes RO dim angles) k l * mof pos l j) / ratio dim anis k).
  { unfold Rdiv. rewrite Rmult_comm, <- sumf_scal. apply sumf_ext. intros l Hl.
    rewrite (mof_isometrize dim angles anis Hd Hp k l Hk Hl). unfold main_axes. field.
    apply Rgt_not_eq. now apply ratio_pos. }
  rewrite E. reflexivity.
Qed.

(* rotation alone does not change distances: with unit ratios the iso radius is the Euclidean norm of x *)
Theorem iso_rad_rotation_invariant dim angles anis n (pos : list (list R)) : (0 < dim)%nat ->
  Forall (fun a => a = 1) anis -> wfm dim n pos ->
  get_iso_rad RO dim angles anis pos = col_norms RO pos.
Proof.
  intros Hd H1 Wp. unfold get_iso_rad, matrix_isometrize. rewrite isotropify_ones by auto.
  pose proof (wfm_derotate dim angles Hd) as WD. rewrite (matmul_eye_l dim dim) by auto.
  rewrite (col_norms_spec dim n) by (auto; apply (wfm_matmul dim dim n); auto).
  rewrite (col_norms_spec dim n pos) by auto.
  apply map_ext_in. intros j Hj. apply in_seq in Hj. f_equal.
  rewrite (sumf_ext dim _ (fun k => sumf dim (fun l => mof (matrix_derotate RO dim angles) k l * mof pos l j)
                                  * sumf dim (fun l => mof (matrix_derotate RO dim angles) k l * mof pos l j))).
  2:{ intros k Hk. now rewrite (mof_matmul dim dim n _ _ WD Wp Hd k j Hk ltac:(lia)). }
  apply (orth_norm dim (mof (matrix_derotate RO dim angles)) (fun l => mof pos l j)).
  rewrite derotate_is_transpose by auto. destruct (rotate_orth2 dim angles Hd) as [_ H2].
  eapply orth_ext; [|exact H2]. apply meq_sym. apply mof_transpose; auto. now apply rotate_wfm.
Qed.

(* along the i-th main axis the radius is |t| / ratio_i: the model behaves like the isotropic model with length
   scale len_scale * anis[i-1] = len_scale_vec[i] *)
Theorem main_axis_radius dim angles anis i t : (0 < dim)%nat -> Forall (fun a => 0 < a) anis -> (i < dim)%nat ->
  get_iso_rad RO dim angles anis (map (fun x => [t * x]) (arow (rotated_main_axes RO dim angles) i))
  = [Rabs t / ratio dim anis i].
Proof.
  intros Hd Hp Hi. unfold get_iso_rad. pose proof (main_axis_scale dim angles anis i t Hd Hp Hi) as E.
  unfold isometrize in E. cbv zeta in E. rewrite E.
  rewrite (col_norms_spec dim 1) by (auto; apply wfm_mkmat). simpl. f_equal.
  rewrite (sumf_ext dim _ (fun k => delta i k * (t / ratio dim anis i * (t / ratio dim anis i)))).
  2:{ intros k Hk. unfold mof. rewrite aget2_mkmat by (auto; lia). unfold delta.
      destruct (Nat.eqb_spec k i), (Nat.eq_dec i k); subst; try contradiction; try ring. }
  rewrite sumf_delta_l by auto.
  replace (t / ratio dim anis i * (t / ratio dim anis i)) with (Rsqr (t / ratio dim anis i)) by reflexivity.
  rewrite sqrt_Rsqr_abs. pose proof (ratio_pos dim anis i Hp Hi) as Hr.
  unfold Rdiv. rewrite Rabs_mult. f_equal. rewrite Rabs_inv.
  f_equal. apply Rabs_pos_eq. lra.
Qed.

Lemma len_scale_vec_spec dim ls anis i : (i < dim)%nat ->
  aget 0 (len_scale_vec RO dim ls (set_anis RO dim anis)) i = ls * ratio dim anis i.
Proof.
  intros Hi. unfold len_scale_vec. rewrite aget_map_seq by auto.
  destruct i as [|k]; unfold ratio, aget; simpl; ring.
Qed.

(* radius / len_scale = |t| / len_scale_vec[i] *)
Theorem main_axis_len_scale dim angles anis ls i t : (0 < dim)%nat -> Forall (fun a => 0 < a) anis -> (i < dim)%nat ->
  0 < ls ->
  map (fun r => r / ls) (get_iso_rad RO dim angles anis (map (fun x => [t * x]) (arow (rotated_main_axes RO dim angles) i)))
  = [Rabs t / aget 0 (len_scale_vec RO dim ls (set_anis RO dim anis)) i].
Proof.
  intros Hd Hp Hi Hl. rewrite main_axis_radius, len_scale_vec_spec by auto. simpl. f_equal.
  pose proof (ratio_pos dim anis i Hp Hi). field. split; apply Rgt_not_eq; auto.
Qed.

(* cov_axis(t, i) and cov_spatial(t * main axis i) hand the same radius to the isotropic covariance (t >= 0) *)
Theorem axis_arg_is_radius dim angles anis i t : (0 < dim)%nat -> Forall (fun a => 0 < a) anis -> (i < dim)%nat ->
  0 <= t ->
  get_iso_rad RO dim angles anis (map (fun x => [t * x]) (arow (rotated_main_axes RO dim angles) i))
  = [axis_arg RO (set_anis RO dim anis) t i].
Proof.
  intros Hd Hp Hi Ht. rewrite main_axis_radius by auto. f_equal.
  destruct i as [|k]; unfold ratio, axis_arg, aget; simpl.
  - rewrite Rabs_pos_eq by auto. field.
  - reflexivity.
Qed.

(* ---------- structural facts packaged for props/C12.v *)
Theorem planes_facts (dim : nat) :
  length (rotation_planes dim) = no_of_angles dim /\
  Forall (fun pl => (fst pl < snd pl < dim)%nat) (rotation_planes dim).
Proof. split; [apply planes_length | apply planes_ok]. Qed.

Theorem padding_facts {T} (O : NumOps T) (dim : nat) (angles anis : list T) :
  length (set_angles O dim angles) = no_of_angles dim /\
  (forall k, (k < no_of_angles dim)%nat -> nth k (set_angles O dim angles) (n0 O) = nth k angles (n0 O)) /\
  length (set_anis O dim anis) = (dim - 1)%nat /\
  ((length anis <= dim - 1)%nat -> forall k, (k < dim - 1)%nat ->
     nth k (set_anis O dim anis) (n1 O)
     = if Nat.ltb k (dim - 1 - length anis) then n1 O else nth (k - (dim - 1 - length anis)) anis (n1 O)).
Proof.
  repeat split.
  - apply set_angles_length.
  - apply set_angles_nth.
  - apply set_anis_length.
  - intros H k Hk. now apply set_anis_nth.
Qed.

Theorem rotate_det_one angles :
  matrix_rotate RO 1 angles = [[1]] /\ det2 (mof (matrix_rotate RO 2 angles)) = 1 /\
  det3 (mof (matrix_rotate RO 3 angles)) = 1 /\ det4 (mof (matrix_rotate RO 4 angles)) = 1.
Proof. repeat split; [apply rotate_det2 | apply rotate_det3 | apply rotate_det4]. Qed.

(* the hypotheses used by the theorems are satisfiable *)
Example hypotheses_satisfiable :
  (0 < 3)%nat /\ Forall (fun a => 0 < a) [2; / 2] /\ wfm 3 2 [[1; 2]; [3; 4]; [5; 6]] /\
  Forall (fun a : R => a = 0) [] /\ Forall (fun a => a = 1) [1; 1] /\ (0 < 1 < 3)%nat.
Proof.
  repeat split; try lia; repeat constructor; try lra.
Qed.
