(* refinement + schedule independence of the translated variogram estimators *)
From Coq Require Import ZArith List Bool Arith Lia Permutation.
From GS Require Import Num Loops Cellwise Estimator_gen C15_VarioSpec.
Import ListNotations.

Section Proofs.
Context {T : Type} (O : NumOps T).
Notation z := (n0 O).
Notation K2 := (cells2 0%Z z).

Lemma choose_est et : choose_estimator_func O et = est_of O et.
Proof. unfold choose_estimator_func, est_of, estimator_matheron, estimator_cressie. now destruct (Z.eqb et 109). Qed.

(* ---- normalisation = map of norm1 *)
Lemma norm_matheron v c : normalization_matheron O v c = normalize_spec O 109 v c.
Proof.
  unfold normalization_matheron, normalize_spec. cbv zeta.
  rewrite (for_cells1_map z _ (fun i x => norm1 O 109 x (aget 0%Z c i)) v); auto.
  intros i st _. reflexivity.
Qed.
Lemma norm_cressie et v c : Z.eqb et 109 = false -> normalization_cressie O v c = normalize_spec O et v c.
Proof.
  intros E. unfold normalization_cressie, normalize_spec. cbv zeta.
  rewrite (for_cells1_map z _ (fun i x => norm1 O et x (aget 0%Z c i)) v); auto.
  intros i st _. unfold norm1. rewrite E. reflexivity.
Qed.
Lemma choose_norm et v c : choose_estimator_normalization O et v c = normalize_spec O et v c.
Proof.
  unfold choose_estimator_normalization. destruct (Z.eqb et 109) eqn:E.
  - apply Z.eqb_eq in E. subst. apply norm_matheron.
  - now apply norm_cressie.
Qed.

(* ---- unstructured: iteration i (a bin) rewrites only (counts[i], variogram[i]) *)
Definition bin_fun (dist : nat -> nat -> T) f est edges n i (c : Z * T) : Z * T :=
  for_ 0 (n - 1) (fun j (c : Z * T) => for_ (j + 1) n (fun k (c : Z * T) =>
     if in_bin O edges i (dist j k) then pair_contrib O f est j k c else c) c) c.

Lemma bin_fun_acc dist f est edges n i : bin_fun dist f est edges n i (0%Z, z) = bin_acc O dist f est edges n i.
Proof. unfold bin_fun, bin_acc. now rewrite (nested_for_pairs n (fun j k c => if in_bin O edges i (dist j k) then pair_contrib O f est j k c else c)). Qed.

Lemma unstructured_owner (dist : nat -> nat -> T) f est edges n :
  owner_writes K2
    (fun i '((counts, variogram) : list Z * list T) =>
      let '(counts, variogram) := for_ 0 (n - 1) (fun j '((counts, variogram) : list Z * list T) =>
        let '(counts, variogram) := for_ (j + 1) n (fun k '((counts, variogram) : list Z * list T) =>
          if orb (nltb O (dist j k) (aget z edges i)) (nleb O (aget z edges (i + 1)) (dist j k)) then (counts, variogram)
          else
          let '(counts, variogram) := for_ 0 (shape0 f) (fun m '((counts, variogram) : list Z * list T) =>
            let '(counts, variogram) :=
              (if negb (orb (nisnan O (aget2 z f m k)) (nisnan O (aget2 z f m j)))
               then (aupd counts i (Z.add (aget 0%Z counts i) 1),
                     aupd variogram i (nadd O (aget z variogram i) (est (nsub O (aget2 z f m k) (aget2 z f m j)))))
               else (counts, variogram)) in
            (counts, variogram)) (counts, variogram) in
          (counts, variogram)) (counts, variogram) in
        (counts, variogram)) (counts, variogram) in
      (counts, variogram))
    (bin_fun dist f est edges n).
Proof.
  intros i st0 Hv. destruct st0 as [c0 v0]. rewrite let_pair_id.
  set (R := fun (s : list Z * list T) (c : Z * T) => s = cset K2 (c0, v0) i c).
  match goal with |- ?L = _ => change (R L (bin_fun dist f est edges n i (cget K2 (c0, v0) i))) end.
  unfold bin_fun. apply for_sim.
  { unfold R. now rewrite cset_get_id. }
  intros j [cj vj] cc _ HR. rewrite let_pair_id. apply for_sim; auto.
  intros k [ck vk] cc' _ HR'. unfold in_bin.
  destruct (orb (nltb O (dist j k) (aget z edges i)) (nleb O (aget z edges (i + 1)) (dist j k))); simpl; auto.
  rewrite let_pair_id. unfold pair_contrib. apply for_sim; auto.
  intros m [cm vm] [a b] _ HR''. unfold valid_pair.
  destruct (negb (orb (nisnan O (aget2 z f m k)) (nisnan O (aget2 z f m j)))); auto.
  unfold R in *. simpl in HR'' |- *. inversion HR''; subst. simpl in Hv. destruct Hv as [Hc Hv'].
  rewrite !aupd_aupd_same, !aget_aupd_same by auto. reflexivity.
Qed.

Theorem unstructured_any_schedule sched f edges pos et dt : is_sched sched ->
  unstructured_sched O sched f edges pos et dt = unstructured_spec O f edges pos et dt.
Proof.
  intros Hs. unfold unstructured_sched, unstructured_spec. cbv zeta.
  destruct (if Z.eqb dt 101 then Some (dist_euclid O)
            else if negb (Nat.eqb (shape0 pos) 2) then None else Some (dist_haversine O)) as [distance|] eqn:ED.
  2:{ destruct (Z.eqb dt 101); [discriminate|]. destruct (negb (Nat.eqb (shape0 pos) 2)); [reflexivity|discriminate]. }
  clear ED.
  destruct (negb (Nat.eqb (shape1 pos) (shape1 f))); [reflexivity|].
  destruct (Nat.ltb (length edges) 2); [reflexivity|].
  rewrite choose_est.
  pose proof (par_for_cells2_map 0%Z z sched (length edges - 1) _
               (bin_fun (distance (shape0 pos) pos) f (est_of O et) edges (shape1 pos)) Hs
               (unstructured_owner (distance (shape0 pos) pos) f (est_of O et) edges (shape1 pos))) as E.
  rewrite E. clear E.
  rewrite choose_norm, !map_map.
  assert (E1 : forall g : Z * T -> Z, map (fun i => g (bin_fun (distance (shape0 pos) pos) f (est_of O et) edges (shape1 pos) i (0%Z, z))) (seq 0 (length edges - 1))
            = map (fun i => g (bin_acc O (distance (shape0 pos) pos) f (est_of O et) edges (shape1 pos) i)) (seq 0 (length edges - 1))).
  { intros g. apply map_ext; intros i; now rewrite bin_fun_acc. }
  assert (E2 : forall g : Z * T -> T, map (fun i => g (bin_fun (distance (shape0 pos) pos) f (est_of O et) edges (shape1 pos) i (0%Z, z))) (seq 0 (length edges - 1))
            = map (fun i => g (bin_acc O (distance (shape0 pos) pos) f (est_of O et) edges (shape1 pos) i)) (seq 0 (length edges - 1))).
  { intros g. apply map_ext; intros i; now rewrite bin_fun_acc. }
  rewrite (E1 fst), (E2 snd). reflexivity.
Qed.

(* ---- structured / ma_structured: the prange is the innermost loop *)
Section Grid.
  Variable f : list (list T).
  Variable est : T -> T.
  Variable use : nat -> nat -> nat -> bool.
  Let KK := shape0 f - 1 + 1.
  Definition upd_cell (i j k : nat) (c : Z * T) : Z * T :=
    if use i j k then (Z.add (fst c) 1, nadd O (snd c) (est (nsub O (aget2 z f i j) (aget2 z f (i + k) j)))) else c.
  Definition kbody (i j k : nat) (st : list Z * list T) : list Z * list T :=
    cset K2 st k (upd_cell i j k (cget K2 st k)).
  Definition grid_kernel (sched : nat -> nat -> list nat -> list nat) (st : list Z * list T) :=
    for_ 0 (shape0 f - 1) (fun i st => for_ 0 (shape1 f) (fun j st =>
      par_for (sched i j) 1 (KK - i) (kbody i j) st) st) st.
  Definition okst (st : list Z * list T) := length (fst st) = KK /\ length (snd st) = KK.

  Lemma kbody_owner i j : owner_writes K2 (kbody i j) (upd_cell i j).
  Proof. intros k st _. reflexivity. Qed.

  Lemma kloop_ok i j st : okst st -> okst (for_ 1 (KK - i) (kbody i j) st).
  Proof.
    intros [H1 H2]. unfold for_.
    destruct (owner2_length 0%Z z (kbody i j) (upd_cell i j) (seq 1 (KK - i - 1)) st (kbody_owner i j)) as [L1 L2].
    { intros k Hk. apply in_seq in Hk. rewrite H1, H2. lia. }
    split; [now rewrite L1 | now rewrite L2].
  Qed.

  Lemma grid_sched_indep sched st : (forall i j, is_sched (sched i j)) -> okst st ->
    grid_kernel sched st = grid_kernel (fun _ _ l => l) st.
  Proof.
    intros Hs H0. unfold grid_kernel.
    apply (for_ext_inv okst); auto. intros i s _ Hi. split.
    - apply (for_ext_inv okst); auto. intros j s' _ Hj. split.
      + apply (par_for_sched_indep K2 (sched i j) 1 (KK - i) (kbody i j) (upd_cell i j)); auto using kbody_owner.
        intros k Hk. destruct Hj as [J1 J2]. simpl. rewrite J1, J2. lia.
      + apply kloop_ok; auto.
    - apply for_inv; auto. intros j s' _ Hj. apply kloop_ok; auto.
  Qed.

  (* one (i,j) step seen from cell k *)
  Definition step_cell (i j k : nat) (c : Z * T) : Z * T :=
    if andb (Nat.leb 1 k) (Nat.ltb k (KK - i)) then upd_cell i j k c else c.

  Lemma kloop_cells i j st : okst st ->
    forall k, k < KK -> cget K2 (for_ 1 (KK - i) (kbody i j) st) k = step_cell i j k (cget K2 st k).
  Proof.
    intros [H1 H2] k Hk. unfold for_.
    destruct (owner_fold K2 (kbody i j) (upd_cell i j) (seq 1 (KK - i - 1)) st (kbody_owner i j) (seq_NoDup _ _)) as [E _].
    { intros q Hq. apply in_seq in Hq. simpl. rewrite H1, H2. lia. }
    rewrite E by (simpl; rewrite H1, H2; lia). unfold step_cell.
    destruct (in_dec Nat.eq_dec k (seq 1 (KK - i - 1))) as [Hin|Hn].
    - apply in_seq in Hin. replace (Nat.leb 1 k) with true by (symmetry; apply Nat.leb_le; lia).
      replace (Nat.ltb k (KK - i)) with true by (symmetry; apply Nat.ltb_lt; lia). reflexivity.
    - destruct (Nat.leb 1 k) eqn:E1; simpl; auto. destruct (Nat.ltb k (KK - i)) eqn:E2; auto.
      exfalso. apply Hn. apply in_seq. apply Nat.leb_le in E1. apply Nat.ltb_lt in E2. lia.
  Qed.

  Lemma grid_cells st : okst st -> forall k, k < KK ->
    cget K2 (grid_kernel (fun _ _ l => l) st) k
    = for_ 0 (shape0 f - 1) (fun i c => for_ 0 (shape1 f) (fun j c => step_cell i j k c) c) (cget K2 st k)
    /\ okst (grid_kernel (fun _ _ l => l) st).
  Proof.
    intros H0 k Hk. unfold grid_kernel.
    apply (for_sim (fun s c => cget K2 s k = c /\ okst s)); auto.
    intros i s c _ [Hc Hs]. apply (for_sim (fun s c => cget K2 s k = c /\ okst s)); auto.
    intros j s' c' _ [Hc' Hs']. rewrite par_for_id. split.
    - rewrite kloop_cells by auto. now rewrite Hc'.
    - apply kloop_ok; auto.
  Qed.
End Grid.

Lemma step_cell_lag f est use i j k c :
  step_cell f est use i j k c
  = if andb (andb (Nat.leb 1 k) (Nat.ltb k (shape0 f - 1 + 1 - i))) (use i j k)
    then (Z.add (fst c) 1, nadd O (snd c) (est (nsub O (aget2 z f i j) (aget2 z f (i + k) j)))) else c.
Proof.
  unfold step_cell, upd_cell. destruct (andb (Nat.leb 1 k) (Nat.ltb k (shape0 f - 1 + 1 - i))); simpl; auto.
Qed.

Theorem grid_kernel_spec f est use sched : (forall i j, is_sched (sched i j)) ->
  grid_kernel f est use sched (repeat 0%Z (shape0 f - 1 + 1), repeat z (shape0 f - 1 + 1))
  = (map (fun k => fst (lag_acc O use f est k)) (seq 0 (shape0 f - 1 + 1)),
     map (fun k => snd (lag_acc O use f est k)) (seq 0 (shape0 f - 1 + 1))).
Proof.
  intros Hs. set (KK := shape0 f - 1 + 1).
  assert (H0 : okst f (repeat 0%Z KK, repeat z KK)) by (split; simpl; now rewrite repeat_length).
  rewrite grid_sched_indep by auto.
  set (r := grid_kernel f est use (fun _ _ l => l) (repeat 0%Z KK, repeat z KK)).
  assert (Hr : forall k, k < KK -> (aget 0%Z (fst r) k, aget z (snd r) k) = lag_acc O use f est k).
  { intros k Hk. destruct (grid_cells f est use _ H0 k Hk) as [E _]. fold r in E. simpl in E.
    rewrite E, !aget_repeat. unfold lag_acc.
    apply for_ext; intros i c _. apply for_ext; intros j c' _. apply step_cell_lag. }
  destruct (grid_cells f est use _ H0 0) as [_ [L1 L2]]; [unfold KK; lia|]. fold r in L1, L2. fold KK in L1, L2.
  rewrite (surjective_pairing r). f_equal.
  - apply (list_ext 0%Z); [now rewrite L1, map_length, seq_length|].
    intros k Hk. rewrite L1 in Hk. rewrite aget_map_seq by auto. now rewrite <- (Hr k Hk).
  - apply (list_ext z); [now rewrite L2, map_length, seq_length|].
    intros k Hk. rewrite L2 in Hk. rewrite aget_map_seq by auto. now rewrite <- (Hr k Hk).
Qed.

Lemma par_for_ext {S} sched lo hi (b1 b2 : nat -> S -> S) s :
  (forall i st, b1 i st = b2 i st) -> par_for sched lo hi b1 s = par_for sched lo hi b2 s.
Proof. intros H. unfold par_for. apply fold_left_ext_in. intros; apply H. Qed.

Theorem structured_any_schedule sched f et : (forall i j, is_sched (sched i j)) ->
  structured_sched O sched f et = structured_spec O f et.
Proof.
  intros Hs. unfold structured_sched, structured_spec. cbv zeta.
  rewrite choose_est.
  match goal with |- (let '(c, v) := ?X in _) = _ =>
    assert (E : X = grid_kernel f (est_of O et) (fun _ _ _ => true) sched
                      (repeat 0%Z (shape0 f - 1 + 1), repeat z (shape0 f - 1 + 1))) end.
  { unfold grid_kernel. apply for_ext; intros i [c v] _. rewrite let_pair_id.
    apply for_ext; intros j [c' v'] _. rewrite let_pair_id.
    apply par_for_ext. intros k [c'' v'']. reflexivity. }
  rewrite E, (grid_kernel_spec f (est_of O et) (fun _ _ _ => true) sched Hs). clear E.
  rewrite choose_norm, !map_map. reflexivity.
Qed.

Theorem ma_structured_any_schedule sched f mask et : (forall i j, is_sched (sched i j)) ->
  ma_structured_sched O sched f mask et = ma_structured_spec O f mask et.
Proof.
  intros Hs. unfold ma_structured_sched, ma_structured_spec. cbv zeta.
  rewrite choose_est.
  set (use := fun i j k => andb (Z.eqb (aget2 0%Z mask i j) 0) (Z.eqb (aget2 0%Z mask (i + k) j) 0)).
  match goal with |- (let '(c, v) := ?X in _) = _ =>
    assert (E : X = grid_kernel f (est_of O et) use sched
                      (repeat 0%Z (shape0 f - 1 + 1), repeat z (shape0 f - 1 + 1))) end.
  { unfold grid_kernel. apply for_ext; intros i [c v] _. rewrite let_pair_id.
    apply for_ext; intros j [c' v'] _. rewrite let_pair_id.
    apply par_for_ext. intros k [c'' v'']. rewrite let_pair_id.
    unfold kbody, upd_cell, use. simpl.
    destruct (andb (Z.eqb (aget2 0%Z mask i j) 0) (Z.eqb (aget2 0%Z mask (i + k) j) 0)); simpl; auto.
    now rewrite !aupd_same_id. }
  rewrite E, (grid_kernel_spec f (est_of O et) use sched Hs). clear E.
  rewrite choose_norm, !map_map. reflexivity.
Qed.
End Proofs.
