(* refinement + schedule independence of the translated summator and kriging kernels *)
From Coq Require Import ZArith List Bool Arith Lia Permutation.
From GS Require Import Num Loops Summator_gen Krigesum_gen C15_KernelSpec.
Import ListNotations.

Section Proofs.
Context {T : Type} (O : NumOps T).
Notation z := (n0 O).

Lemma let_pair_id_local {A B} (p : A * B) : (let '(a, b) := p in (a, b)) = p.
Proof. now destruct p. Qed.

(* -------- summate *)
Theorem summate_any_schedule sched ks z1 z2 pos : is_sched sched ->
  summate_sched O sched ks z1 z2 pos = summate_spec O ks z1 z2 pos.
Proof.
  intros Hs. unfold summate_sched, summate_spec. cbv zeta.
  apply (par_for_cells1_map z sched (shape1 pos) _
           (fun i c => for_ 0 (shape1 ks) (fun j acc => nadd O acc (wave O z1 z2 (phase_of O ks pos j i) j)) c) Hs).
  intros i st Hv.
  exact (for_cell_local (cells1 z)
            (fun j acc => nadd O acc (wave O z1 z2 (phase_of O ks pos j i) j)) i 0 (shape1 ks) st Hv).
Qed.

Theorem summate_fourier_any_schedule sched sf modes z1 z2 pos : is_sched sched ->
  summate_fourier_sched O sched sf modes z1 z2 pos = summate_fourier_spec O sf modes z1 z2 pos.
Proof.
  intros Hs. unfold summate_fourier_sched, summate_fourier_spec. cbv zeta.
  apply (par_for_cells1_map z sched (shape1 pos) _
           (fun i c => for_ 0 (shape1 modes) (fun j acc => nadd O acc
               (nmul O (aget z sf j) (wave O z1 z2 (phase_of O modes pos j i) j))) c) Hs).
  intros i st Hv.
  exact (for_cell_local (cells1 z)
            (fun j acc => nadd O acc (nmul O (aget z sf j) (wave O z1 z2 (phase_of O modes pos j i) j)))
            i 0 (shape1 modes) st Hv).
Qed.

(* -------- kriging sums *)
Theorem krige_any_schedule sched mat vecs cond : is_sched sched ->
  calc_field_krige_sched O sched mat vecs cond = krige_field_spec O mat vecs cond.
Proof.
  intros Hs. unfold calc_field_krige_sched, krige_field_spec. cbv zeta.
  apply (par_for_cells1_map z sched (shape1 vecs) _
           (fun k c => for_ 0 (shape0 mat) (fun i acc => nadd O acc
               (nmul O (aget z cond i) (krig_fac_of O mat vecs i k))) c) Hs).
  intros k st Hv.
  exact (for_cell_local (cells1 z)
            (fun i acc => nadd O acc (nmul O (aget z cond i) (krig_fac_of O mat vecs i k)))
            k 0 (shape0 mat) st Hv).
Qed.

Theorem krige_var_any_schedule sched mat vecs cond : is_sched sched ->
  calc_field_krige_and_variance_sched O sched mat vecs cond
  = (krige_field_spec O mat vecs cond, krige_error_spec O mat vecs).
Proof.
  intros Hs. unfold calc_field_krige_and_variance_sched, krige_field_spec, krige_error_spec. cbv zeta.
  set (f := fun (k : nat) (c : T * T) =>
     for_ 0 (shape0 mat) (fun i (acc : T * T) =>
        (nadd O (fst acc) (nmul O (aget2 z vecs i k) (krig_fac_of O mat vecs i k)),
         nadd O (snd acc) (nmul O (aget z cond i) (krig_fac_of O mat vecs i k)))) c).
  match goal with |- (let '(error, field) := par_for sched 0 ?n ?body ?st in _) = _ =>
    assert (E : par_for sched 0 n body st
      = (map (fun i => fst (f i (z, z))) (seq 0 n), map (fun i => snd (f i (z, z))) (seq 0 n))) end.
  { apply (par_for_cells2_map z z sched (shape1 vecs) _ f Hs).
    intros k [e fl] Hv.
    pose proof (for_cell_local (cells2 z z)
      (fun i (acc : T * T) =>
        (nadd O (fst acc) (nmul O (aget2 z vecs i k) (krig_fac_of O mat vecs i k)),
         nadd O (snd acc) (nmul O (aget z cond i) (krig_fac_of O mat vecs i k))))
      k 0 (shape0 mat) (e, fl) Hv) as L.
    rewrite let_pair_id_local. etransitivity; [|exact L].
    apply for_ext. intros i [e' f'] _. reflexivity. }
  rewrite E. clear E.
  assert (Q : forall k c, f k c =
     (for_ 0 (shape0 mat) (fun i acc => nadd O acc (nmul O (aget2 z vecs i k) (krig_fac_of O mat vecs i k))) (fst c),
      for_ 0 (shape0 mat) (fun i acc => nadd O acc (nmul O (aget z cond i) (krig_fac_of O mat vecs i k))) (snd c))).
  { intros k c. unfold f, for_. generalize (seq 0 (shape0 mat - 0)) as l. intros l. revert c.
    induction l as [|a l IH]; intros [c1 c2]; simpl; auto. rewrite IH. reflexivity. }
  f_equal; apply map_ext; intros k; rewrite Q; reflexivity.
Qed.

(* the functions the package actually calls are the identity-schedule instances *)
Corollary summate_refines ks z1 z2 pos : summate O ks z1 z2 pos = summate_spec O ks z1 z2 pos.
Proof. apply summate_any_schedule, is_sched_id. Qed.
Corollary summate_fourier_refines sf modes z1 z2 pos :
  summate_fourier O sf modes z1 z2 pos = summate_fourier_spec O sf modes z1 z2 pos.
Proof. apply summate_fourier_any_schedule, is_sched_id. Qed.
Corollary krige_refines mat vecs cond : calc_field_krige O mat vecs cond = krige_field_spec O mat vecs cond.
Proof. apply krige_any_schedule, is_sched_id. Qed.
Corollary krige_var_refines mat vecs cond :
  calc_field_krige_and_variance O mat vecs cond = (krige_field_spec O mat vecs cond, krige_error_spec O mat vecs).
Proof. apply krige_var_any_schedule, is_sched_id. Qed.
End Proofs.
