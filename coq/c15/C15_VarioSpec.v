(* C15_VarioSpec.v — the empirical variogram as enumeration of all point pairs j<k
   (hand-written specification; shared by C15 and C08). *)
From Coq Require Import ZArith List Bool Arith.
From GS Require Import Num Loops Cellwise Estimator_gen.
Import ListNotations.

Section VSpec.
Context {T : Type} (O : NumOps T).
Notation z := (n0 O).

(* 'm' = 109 : Matheron (d^2);  otherwise Cressie (sqrt |d|) *)
Definition est_of (et : Z) (d : T) : T :=
  if Z.eqb et 109 then nmul O d d else nsqrt O (nabs O d).

(* normalisation of one bin: Matheron  x / (2 max(n,1));
   Cressie  0.5 (x/n)^4 / (0.457 + 0.494/n + 0.045/n^2)  with n = max(count,1) *)
Definition norm1 (et : Z) (v : T) (c : Z) : T :=
  let cnt := Z.max c 1 in
  if Z.eqb et 109 then ndiv O v (nmul O (nlit O 2 0) (nofZ O cnt))
  else ndiv O (nmul O (nlit O 5 1) (npow O (nmul O (ndiv O (n1 O) (nofZ O cnt)) v) (nlit O 4 0)))
              (nadd O (nadd O (nlit O 457 3) (ndiv O (nlit O 494 3) (nofZ O cnt)))
                      (ndiv O (nlit O 45 3) (nofZ O (Z.pow cnt 2)))).
Definition normalize_spec (et : Z) (v : list T) (c : list Z) : list T :=
  map (fun i => norm1 et (aget z v i) (aget 0%Z c i)) (seq 0 (length v)).

(* field m contributes to the pair (j,k) iff neither value is NaN *)
Definition valid_pair (f : list (list T)) (m j k : nat) : bool :=
  negb (orb (nisnan O (aget2 z f m k)) (nisnan O (aget2 z f m j))).
(* contribution of the pair (j,k), all fields, to a bin accumulator (count, sum) *)
Definition pair_contrib (f : list (list T)) (est : T -> T) (j k : nat) (acc : Z * T) : Z * T :=
  for_ 0 (shape0 f) (fun m (acc : Z * T) =>
     if valid_pair f m j k
     then (Z.add (fst acc) 1, nadd O (snd acc) (est (nsub O (aget2 z f m k) (aget2 z f m j))))
     else acc) acc.
(* half-open bin  e_i <= d < e_{i+1}, written with the kernel's negated tests (differs from the
   naive form only when d is NaN: a NaN distance belongs to every bin in the kernel) *)
Definition in_bin (edges : list T) (i : nat) (d : T) : bool :=
  negb (orb (nltb O d (aget z edges i)) (nleb O (aget z edges (i + 1)) d)).

(* accumulator of bin i: fold over ALL pairs j<k in lexicographic order *)
Definition bin_acc (dist : nat -> nat -> T) (f : list (list T)) (est : T -> T) (edges : list T) (n i : nat) : Z * T :=
  fold_left (fun acc jk =>
      if in_bin edges i (dist (fst jk) (snd jk)) then pair_contrib f est (fst jk) (snd jk) acc else acc)
    (pairs n) (0%Z, z).

Definition unstructured_spec (f : list (list T)) (edges : list T) (pos : list (list T)) (et dt : Z)
  : option (list T * list Z) :=
  let dim := shape0 pos in
  match (if Z.eqb dt 101 then Some (dist_euclid O) else if negb (Nat.eqb dim 2) then None else Some (dist_haversine O)) with
  | None => None
  | Some distance =>
    if negb (Nat.eqb (shape1 pos) (shape1 f)) then None else
    if Nat.ltb (length edges) 2 then None else
    let nb := length edges - 1 in
    let accs := map (bin_acc (distance dim pos) f (est_of et) edges (shape1 pos)) (seq 0 nb) in
    Some (normalize_spec et (map snd accs) (map fst accs), map fst accs)
  end.

(* regular grid, along the first axis: lag k pairs (i,j) with (i+k,j); k = 0 is never filled *)
Definition lag_acc (use : nat -> nat -> nat -> bool) (f : list (list T)) (est : T -> T) (k : nat) : Z * T :=
  for_ 0 (shape0 f - 1) (fun i (acc : Z * T) =>
    for_ 0 (shape1 f) (fun j (acc : Z * T) =>
      if andb (andb (Nat.leb 1 k) (Nat.ltb k (shape0 f - 1 + 1 - i))) (use i j k)
      then (Z.add (fst acc) 1, nadd O (snd acc) (est (nsub O (aget2 z f i j) (aget2 z f (i + k) j))))
      else acc) acc) (0%Z, z).
Definition structured_spec (f : list (list T)) (et : Z) : list T :=
  let accs := map (lag_acc (fun _ _ _ => true) f (est_of et)) (seq 0 (shape0 f - 1 + 1)) in
  normalize_spec et (map snd accs) (map fst accs).
Definition ma_structured_spec (f : list (list T)) (mask : list (list Z)) (et : Z) : list T :=
  let use := fun i j k => andb (Z.eqb (aget2 0%Z mask i j) 0) (Z.eqb (aget2 0%Z mask (i + k) j) 0) in
  let accs := map (lag_acc use f (est_of et)) (seq 0 (shape0 f - 1 + 1)) in
  normalize_spec et (map snd accs) (map fst accs).
End VSpec.
