(* KernelSpec.v — the defining sums of the compiled kernels, written as plain map/fold
   expressions (no arrays being updated, no loop state).  Hand-written; the generated
   kernels (gen/*.v) are proved equal to these for every schedule. *)
From Coq Require Import ZArith List Bool Arith.
From GS Require Import Num Loops.
Import ListNotations.

Section Spec.
Context {T : Type} (O : NumOps T).
Notation z := (n0 O).

(* for_ 0 n f a  =  fold_left (fun acc j => f j acc) [0;..;n-1] a : the sums below are plain
   left folds in index order.   <k_j , x_i> accumulated in index order, starting from 0 *)
Definition phase_of (ks pos : list (list T)) (j i : nat) : T :=
  for_ 0 (shape0 pos) (fun d ph => nadd O ph (nmul O (aget2 z ks d j) (aget2 z pos d i))) z.

Definition wave (z1 z2 : list T) (ph : T) (j : nat) : T :=
  nadd O (nmul O (aget z z1 j) (ncos O ph)) (nmul O (aget z z2 j) (nsin O ph)).

(* randomization method: u(x_i) = sum_j z1_j cos<k_j,x_i> + z2_j sin<k_j,x_i> *)
Definition summate_point ks z1 z2 pos (i : nat) : T :=
  for_ 0 (shape1 ks) (fun j acc => nadd O acc (wave z1 z2 (phase_of ks pos j i) j)) z.
Definition summate_spec ks z1 z2 pos : list T :=
  map (summate_point ks z1 z2 pos) (seq 0 (shape1 pos)).

(* Fourier method: the same with a spectrum factor per mode *)
Definition summate_fourier_point sf modes z1 z2 pos (i : nat) : T :=
  for_ 0 (shape1 modes) (fun j acc => nadd O acc (nmul O (aget z sf j) (wave z1 z2 (phase_of modes pos j i) j))) z.
Definition summate_fourier_spec sf modes z1 z2 pos : list T :=
  map (summate_fourier_point sf modes z1 z2 pos) (seq 0 (shape1 pos)).

(* kriging: lambda_i(k) = sum_j K^-1[i,j] k_j(x_k);  field_k = sum_i cond_i lambda_i;
   error_k = sum_i k_i(x_k) lambda_i *)
Definition krig_fac_of (mat vecs : list (list T)) (i k : nat) : T :=
  for_ 0 (shape0 mat) (fun j acc => nadd O acc (nmul O (aget2 z mat i j) (aget2 z vecs j k))) z.
Definition krige_field_point mat vecs cond (k : nat) : T :=
  for_ 0 (shape0 mat) (fun i acc => nadd O acc (nmul O (aget z cond i) (krig_fac_of mat vecs i k))) z.
Definition krige_error_point mat vecs (k : nat) : T :=
  for_ 0 (shape0 mat) (fun i acc => nadd O acc (nmul O (aget2 z vecs i k) (krig_fac_of mat vecs i k))) z.
Definition krige_field_spec mat vecs cond : list T :=
  map (krige_field_point mat vecs cond) (seq 0 (shape1 vecs)).
Definition krige_error_spec mat vecs : list T :=
  map (krige_error_point mat vecs) (seq 0 (shape1 vecs)).

End Spec.
