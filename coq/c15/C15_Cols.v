(* C15_Cols.v — 2-D arrays (list of rows) seen column-wise: the state of the directional
   estimator is a pair of (d_max x n_bins) arrays and the prange iteration i owns column i. *)
From Coq Require Import List Arith Lia Permutation ZArith Bool.
From GS Require Import Num Loops Cellwise.
Import ListNotations.

Section Arr2.
  Context {A : Type} (da : A).
  Definition rect (r c : nat) (a : list (list A)) : Prop := length a = r /\ Forall (fun row => length row = c) a.

  Lemma rect_row r c a d : rect r c a -> d < r -> length (arow a d) = c.
  Proof.
    intros [L F] Hd. unfold arow. rewrite Forall_forall in F. apply F. apply nth_In. lia.
  Qed.
  Lemma Forall_aupd (P : list A -> Prop) a d v : Forall P a -> P v -> Forall P (aupd a d v).
  Proof.
    revert d; induction a as [|h t IH]; intros [|d] F Pv; simpl; auto; inversion F; subst; constructor; auto.
  Qed.
  Lemma rect_aupd2 r c a d i v : rect r c a -> d < r -> rect r c (aupd2 a d i v).
  Proof.
    intros [L F] Hd. unfold aupd2. split; [now rewrite aupd_length|].
    apply Forall_aupd; auto. rewrite aupd_length. now apply (rect_row r c a d (conj L F)).
  Qed.
  Lemma arow_aupd_same (a : list (list A)) d v : d < length a -> arow (aupd a d v) d = v.
  Proof. intros H. unfold arow. apply (aget_aupd_same (@nil A)); auto. Qed.
  Lemma arow_aupd_other (a : list (list A)) d d' v : d <> d' -> arow (aupd a d v) d' = arow a d'.
  Proof. intros H. unfold arow. apply (aget_aupd_other (@nil A)); auto. Qed.

  Lemma aget2_aupd2_same r c a d i v : rect r c a -> d < r -> i < c -> aget2 da (aupd2 a d i v) d i = v.
  Proof.
    intros Hr Hd Hi. unfold aget2, aupd2. rewrite arow_aupd_same by (destruct Hr; lia).
    apply aget_aupd_same. now rewrite (rect_row r c a d Hr Hd).
  Qed.
  Lemma aget2_aupd2_other r c a d i d' i' v : rect r c a -> (d <> d' \/ i <> i') ->
    aget2 da (aupd2 a d i v) d' i' = aget2 da a d' i'.
  Proof.
    intros Hr Hne. unfold aget2, aupd2. destruct (Nat.eq_dec d d') as [->|Hd].
    - destruct (Nat.lt_ge_cases d' (length a)) as [Hl|Hl].
      + rewrite arow_aupd_same by auto. apply aget_aupd_other. destruct Hne; congruence.
      + rewrite aupd_oob by auto. reflexivity.
    - now rewrite arow_aupd_other.
  Qed.

  (* extensionality for rectangular arrays *)
  Lemma rect_ext r c a b : rect r c a -> rect r c b ->
    (forall d i, d < r -> i < c -> aget2 da a d i = aget2 da b d i) -> a = b.
  Proof.
    intros Ha Hb E. apply (list_ext (@nil A)); [destruct Ha, Hb; congruence|].
    intros d Hd. destruct Ha as [La Fa]. rewrite La in Hd.
    apply (list_ext da).
    - change (aget (@nil A) a d) with (arow a d). change (aget (@nil A) b d) with (arow b d).
      rewrite (rect_row r c a d (conj La Fa) Hd), (rect_row r c b d Hb Hd). reflexivity.
    - intros i Hi. change (aget (@nil A) a d) with (arow a d) in *. change (aget (@nil A) b d) with (arow b d).
      rewrite (rect_row r c a d (conj La Fa) Hd) in Hi.
      apply (E d i Hd Hi).
  Qed.
  Lemma rect_repeat r c : rect r c (repeat (repeat da c) r).
  Proof. split; [apply repeat_length|]. apply Forall_forall. intros x Hx. apply repeat_spec in Hx. subst. apply repeat_length. Qed.
  Lemma aget2_repeat r c d i : aget2 da (repeat (repeat da c) r) d i = da.
  Proof.
    unfold aget2, arow. destruct (Nat.lt_ge_cases d r) as [H|H].
    - rewrite nth_indep with (d' := repeat da c) by (now rewrite repeat_length).
      rewrite nth_repeat. apply aget_repeat.
    - rewrite nth_overflow by (now rewrite repeat_length). unfold aget. now destruct i.
  Qed.
End Arr2.

(* ---- locality of loop bodies w.r.t. an indexed family of "views" of the state *)
Section Views.
  Context {S C : Type} (ok : S -> Prop) (get : S -> nat -> C) (inr : nat -> Prop).
  Variable body : nat -> S -> S.
  Variable G : nat -> C -> C.
  Hypothesis Hok : forall i s, inr i -> ok s -> ok (body i s).
  Hypothesis Hown : forall i s, inr i -> ok s -> get (body i s) i = G i (get s i).
  Hypothesis Hframe : forall i j s, inr i -> ok s -> i <> j -> get (body i s) j = get s j.

  Lemma views_fold (l : list nat) s : NoDup l -> (forall i, In i l -> inr i) -> ok s ->
    ok (fold_left (fun s i => body i s) l s) /\
    forall j, get (fold_left (fun s i => body i s) l s) j
              = if in_dec Nat.eq_dec j l then G j (get s j) else get s j.
  Proof.
    revert s. induction l as [|a l IH]; intros s ND Hin H0; simpl; [split; auto|].
    inversion ND as [|? ? Hnin ND']; subst.
    assert (Ha : inr a) by (apply Hin; left; auto).
    destruct (IH (body a s) ND') as [I1 I2]; [intros; apply Hin; right; auto | apply Hok; auto|].
    split; auto. intros j. rewrite I2.
    destruct (Nat.eq_dec a j) as [->|Hne].
    - destruct (in_dec Nat.eq_dec j l); [contradiction|]. apply Hown; auto.
    - rewrite Hframe by auto. destruct (in_dec Nat.eq_dec j l); reflexivity.
  Qed.

  Lemma views_par_for sched lo hi s : is_sched sched -> (forall i, lo <= i < hi -> inr i) -> ok s ->
    ok (par_for sched lo hi body s) /\
    forall j, get (par_for sched lo hi body s) j = if andb (Nat.leb lo j) (Nat.ltb j hi) then G j (get s j) else get s j.
  Proof.
    intros Hs Hr H0. unfold par_for.
    assert (ND : NoDup (sched (seq lo (hi - lo)))) by (eapply Permutation_NoDup; [apply Permutation_sym, Hs | apply seq_NoDup]).
    assert (Hin : forall i, In i (sched (seq lo (hi - lo))) <-> lo <= i < hi).
    { intros i. split; intros H.
      - apply (Permutation_in _ (Hs _)) in H. apply in_seq in H. lia.
      - apply (Permutation_in _ (Permutation_sym (Hs _))). apply in_seq. lia. }
    destruct (views_fold _ s ND) as [I1 I2]; auto. { intros i Hi. apply Hr, Hin, Hi. }
    split; auto. intros j. rewrite I2.
    destruct (in_dec Nat.eq_dec j (sched (seq lo (hi - lo)))) as [Hj|Hj].
    - apply Hin in Hj. replace (Nat.leb lo j) with true by (symmetry; apply Nat.leb_le; lia).
      replace (Nat.ltb j hi) with true by (symmetry; apply Nat.ltb_lt; lia). reflexivity.
    - destruct (Nat.leb lo j) eqn:E1; simpl; auto. destruct (Nat.ltb j hi) eqn:E2; auto.
      exfalso. apply Hj, Hin. apply Nat.leb_le in E1. apply Nat.ltb_lt in E2. lia.
  Qed.
End Views.
