(* refinement + schedule independence of the translated directional estimator *)
From Coq Require Import ZArith List Bool Arith Lia Permutation.
From GS Require Import Num Loops Cellwise Estimator_gen C15_VarioSpec C15_VarioProofs C15_Cols C15_DirSpec.
Import ListNotations.

Section Proofs.
Context {T : Type} (O : NumOps T).
Notation z := (n0 O).
Notation St := (list (list Z) * list (list T))%type.
Notation zt := (0%Z, z).

Section Dir.
Variables (f pos direction : list (list T)) (edges : list T) (tol bw : T) (sep : bool) (est : T -> T).
Let dmax := shape0 direction.
Let nb := length edges - 1.
Let n := shape1 pos.

Definition okd (s : St) : Prop := rect dmax nb (fst s) /\ rect dmax nb (snd s).
Definition colget (s : St) (i : nat) : list (Z * T) :=
  map (fun d => (aget2 0%Z (fst s) d i, aget2 z (snd s) d i)) (seq 0 dmax).
Definition put (d i : nat) (v : Z * T) (s : St) : St := (aupd2 (fst s) d i (fst v), aupd2 (snd s) d i (snd v)).

Lemma colget_length s i : length (colget s i) = dmax.
Proof. unfold colget. now rewrite map_length, seq_length. Qed.
Lemma colget_at s i d : d < dmax -> aget zt (colget s i) d = (aget2 0%Z (fst s) d i, aget2 z (snd s) d i).
Proof. intros H. unfold colget. now rewrite aget_map_seq. Qed.
Lemma put_ok d i v s : okd s -> d < dmax -> okd (put d i v s).
Proof. intros [H1 H2] Hd. split; apply rect_aupd2; auto. Qed.
Lemma put_col_same d i v s : okd s -> d < dmax -> i < nb -> colget (put d i v s) i = aupd (colget s i) d v.
Proof.
  intros [H1 H2] Hd Hi. apply (list_ext zt); [now rewrite aupd_length, !colget_length|].
  intros d' Hd'. rewrite colget_length in Hd'. rewrite colget_at by auto. unfold put; simpl.
  destruct (Nat.eq_dec d d') as [<-|Hne].
  - rewrite (aget2_aupd2_same 0%Z dmax nb), (aget2_aupd2_same z dmax nb) by auto.
    rewrite aget_aupd_same by (now rewrite colget_length). now destruct v.
  - rewrite (aget2_aupd2_other 0%Z dmax nb), (aget2_aupd2_other z dmax nb) by auto.
    rewrite aget_aupd_other by auto. now rewrite colget_at.
Qed.
Lemma put_col_other d i j v s : okd s -> i <> j -> colget (put d i v s) j = colget s j.
Proof.
  intros [H1 H2] Hij. unfold colget, put; simpl. apply map_ext. intros d'.
  now rewrite (aget2_aupd2_other 0%Z dmax nb), (aget2_aupd2_other z dmax nb) by auto.
Qed.

(* relation between the 2-D state and column i during iteration i started from s0 *)
Definition Rel (s0 : St) (i : nat) (s : St) (col : list (Z * T)) : Prop :=
  okd s /\ colget s i = col /\ forall j, j <> i -> colget s j = colget s0 j.

Lemma Rel_put s0 i d v s col : i < nb -> d < dmax -> Rel s0 i s col -> Rel s0 i (put d i v s) (aupd col d v).
Proof.
  intros Hi Hd [H1 [H2 H3]]. split; [now apply put_ok|]. split.
  - rewrite put_col_same by auto. now rewrite H2.
  - intros j Hj. rewrite put_col_other by auto. now apply H3.
Qed.

(* all fields of one pair, one direction *)
Definition col_pair (d j k : nat) (col : list (Z * T)) : list (Z * T) :=
  aupd col d (pair_contrib O f est j k (aget zt col d)).

Lemma mloop_sim s0 i d j k s col : i < nb -> d < dmax -> Rel s0 i s col ->
  Rel s0 i
    (for_ 0 (shape0 f) (fun m '((counts, variogram) : St) =>
        let '(counts, variogram) :=
          (if negb (orb (nisnan O (aget2 z f m k)) (nisnan O (aget2 z f m j)))
           then (aupd2 counts d i (Z.add (aget2 0%Z counts d i) 1),
                 aupd2 variogram d i (nadd O (aget2 z variogram d i) (est (nsub O (aget2 z f m k) (aget2 z f m j)))))
           else (counts, variogram)) in
        (counts, variogram)) s)
    (col_pair d j k col).
Proof.
  intros Hi Hd HR.
  set (gm := fun m (acc : Z * T) => if valid_pair O f m j k
             then (Z.add (fst acc) 1, nadd O (snd acc) (est (nsub O (aget2 z f m k) (aget2 z f m j)))) else acc).
  assert (E : col_pair d j k col =
     for_ 0 (shape0 f) (fun m (c : list (Z * T)) => aupd c d (gm m (aget zt c d))) col).
  { unfold col_pair, pair_contrib.
    symmetry. apply (for_cell_local (cells1 zt) gm d 0 (shape0 f) col).
    simpl. destruct HR as [_ [H2 _]]. rewrite <- H2. now rewrite colget_length. }
  rewrite E. clear E. apply for_sim; auto.
  intros m [c v] cc _ HR'. unfold gm, valid_pair.
  destruct (negb (orb (nisnan O (aget2 z f m k)) (nisnan O (aget2 z f m j)))).
  - assert (Hat : aget zt cc d = (aget2 0%Z c d i, aget2 z v d i)).
    { destruct HR' as [_ [H2 _]]. rewrite <- H2. now rewrite colget_at. }
    rewrite Hat. cbn [fst snd].
    exact (Rel_put s0 i d (Z.add (aget2 0%Z c d i) 1, nadd O (aget2 z v d i) (est (nsub O (aget2 z f m k) (aget2 z f m j)))) (c, v) cc Hi Hd HR').
  - rewrite aupd_same_id. exact HR'.
Qed.

(* ---- the loop over directions with the early break, seen from column i *)
Definition col_dirs (j k : nat) (dist : T) (col : list (Z * T)) : bool * list (Z * T) :=
  for_ 0 dmax (fun d '((brk, col) : bool * list (Z * T)) =>
     if brk then (brk, col) else
     if negb (passes O pos direction tol bw dist j k d) then (brk, col) else
     (if sep then true else brk, col_pair d j k col)) (false, col).

Lemma dloop_sim s0 i j k dist s col : i < nb -> Rel s0 i s col ->
  Rel s0 i
    (let '(_, counts, variogram) :=
       for_ 0 dmax (fun d '((brk, counts, variogram) : bool * list (list Z) * list (list T)) =>
         if brk then (brk, counts, variogram) else
         if negb (dir_test O (shape0 pos) pos dist direction tol bw k j d) then (brk, counts, variogram) else
         let '(counts, variogram) :=
           for_ 0 (shape0 f) (fun m '((counts, variogram) : St) =>
             let '(counts, variogram) :=
               (if negb (orb (nisnan O (aget2 z f m k)) (nisnan O (aget2 z f m j)))
                then (aupd2 counts d i (Z.add (aget2 0%Z counts d i) 1),
                      aupd2 variogram d i (nadd O (aget2 z variogram d i) (est (nsub O (aget2 z f m k) (aget2 z f m j)))))
                else (counts, variogram)) in
             (counts, variogram)) (counts, variogram) in
         if sep then (true, counts, variogram) else (brk, counts, variogram)) (false, fst s, snd s) in
     (counts, variogram))
    (snd (col_dirs j k dist col)).
Proof.
  intros Hi HR. unfold col_dirs.
  set (R3 := fun (a : bool * list (list Z) * list (list T)) (b : bool * list (Z * T)) =>
               fst (fst a) = fst b /\ Rel s0 i (snd (fst a), snd a) (snd b)).
  match goal with |- context [for_ 0 dmax ?B (false, fst s, snd s)] => set (X := for_ 0 dmax B (false, fst s, snd s)) end.
  match goal with |- context [for_ 0 dmax ?B (false, col)] => set (Y := for_ 0 dmax B (false, col)) end.
  assert (H3 : R3 X Y).
  { apply for_sim.
    - unfold R3; simpl. split; auto; try (now destruct s).
    - intros d [[b c] v] [b' cc] Hdr [Hb HR']. simpl in Hb, HR'. subst b'.
      destruct b; [split; auto|]. unfold passes.
      destruct (negb (dir_test O (shape0 pos) pos dist direction tol bw k j d)); [split; auto|].
      pose proof (mloop_sim s0 i d j k (c, v) cc Hi (proj2 Hdr) HR') as HM.
      match type of HM with Rel _ _ ?Z _ => destruct Z as [c' v'] eqn:EZ end.
      destruct sep; split; simpl; auto. }
  destruct X as [[b c] v]. destruct H3 as [_ H3]. exact H3.
Qed.

Lemma for_S {S'} h (body : nat -> S' -> S') s : for_ 0 (S h) body s = body h (for_ 0 h body s).
Proof. unfold for_. rewrite !Nat.sub_0_r, seq_S, fold_left_app. reflexivity. Qed.

Lemma forallb_negb_existsb {A} (p : A -> bool) l : forallb (fun x => negb (p x)) l = negb (existsb p l).
Proof. induction l as [|a l IH]; simpl; auto. rewrite IH. now destruct (p a). Qed.

Lemma col_dirs_char j k dist col :
  let r := col_dirs j k dist col in
  length (snd r) = length col /\
  forall d, d < dmax -> length col = dmax ->
    aget zt (snd r) d = if selected O pos direction tol bw sep dist j k d
                        then pair_contrib O f est j k (aget zt col d) else aget zt col d.
Proof.
  unfold col_dirs.
  set (p := passes O pos direction tol bw dist j k).
  set (body := fun d '((brk, col) : bool * list (Z * T)) =>
     if brk then (brk, col) else if negb (p d) then (brk, col) else (if sep then true else brk, col_pair d j k col)).
  assert (Inv : forall h, h <= dmax ->
     let r := for_ 0 h body (false, col) in
     length (snd r) = length col /\
     fst r = andb sep (existsb p (seq 0 h)) /\
     forall d, d < dmax -> length col = dmax ->
       aget zt (snd r) d = if andb (Nat.ltb d h) (selected O pos direction tol bw sep dist j k d)
                           then pair_contrib O f est j k (aget zt col d) else aget zt col d).
  { induction h as [|h IH]; intros Hh.
    - unfold for_; simpl. repeat split; auto. now rewrite andb_false_r.
    - rewrite for_S. destruct (IH ltac:(lia)) as [L [B E]]. clear IH.
      destruct (for_ 0 h body (false, col)) as [b c] eqn:EF. simpl in L, B, E. unfold body at 1.
      assert (SelH : forall d, selected O pos direction tol bw sep dist j k d
                       = andb (p d) (orb (negb sep) (negb (existsb p (seq 0 d))))).
      { intros d. unfold selected. fold p. now rewrite forallb_negb_existsb. }
      assert (Step : forall d, Nat.ltb d (S h) = orb (Nat.ltb d h) (Nat.eqb d h)).
      { intros d. destruct (Nat.ltb_spec d (S h)), (Nat.ltb_spec d h), (Nat.eqb_spec d h); simpl; auto; lia. }
      rewrite seq_S, existsb_app. simpl existsb. rewrite orb_false_r.
      destruct b.
      + (* already broken: sep = true and an earlier direction passed *)
        symmetry in B. apply andb_true_iff in B. destruct B as [Bs Be]. simpl. repeat split; auto.
        { now rewrite Bs, Be. }
        intros d Hd Hc. rewrite (E d Hd Hc), Step.
        destruct (Nat.eqb_spec d h) as [->|Hne]; [|now rewrite orb_false_r].
        replace (Nat.ltb h h) with false by (symmetry; apply Nat.ltb_ge; lia). simpl.
        rewrite SelH, Bs, Be. simpl. now rewrite andb_false_r.
      + destruct (p h) eqn:Ph; simpl.
        * (* direction h passes and is selected *)
          assert (Sel : selected O pos direction tol bw sep dist j k h = true).
          { rewrite SelH, Ph. simpl. symmetry in B. apply andb_false_iff in B. destruct B as [->| ->]; simpl; auto.
            now destruct sep. }
          repeat split.
          { unfold col_pair. now rewrite aupd_length. }
          { rewrite orb_true_r, andb_true_r. now destruct sep. }
          intros d Hd Hc. rewrite Step. unfold col_pair.
          destruct (Nat.eqb_spec d h) as [->|Hne].
          -- rewrite orb_true_r. simpl. rewrite Sel. rewrite aget_aupd_same by lia. rewrite (E h Hd Hc).
             replace (Nat.ltb h h) with false by (symmetry; apply Nat.ltb_ge; lia). reflexivity.
          -- rewrite orb_false_r. rewrite aget_aupd_other by auto. apply E; auto.
        * repeat split; auto.
          { now rewrite orb_false_r. }
          intros d Hd Hc. rewrite (E d Hd Hc), Step.
          destruct (Nat.eqb_spec d h) as [->|Hne]; [|now rewrite orb_false_r].
          replace (Nat.ltb h h) with false by (symmetry; apply Nat.ltb_ge; lia). simpl.
          rewrite SelH, Ph. reflexivity. }
  destruct (Inv dmax (le_n _)) as [L [_ E]]. split; auto.
  intros d Hd Hc. rewrite (E d Hd Hc). replace (Nat.ltb d dmax) with true by (symmetry; apply Nat.ltb_lt; lia). reflexivity.
Qed.

(* ---- one prange iteration (bin i), seen from column i *)
Definition col_bin (i : nat) (col : list (Z * T)) : list (Z * T) :=
  for_ 0 (n - 1) (fun j col => for_ (j + 1) n (fun k col =>
     if orb (nltb O (dist_euclid O (shape0 pos) pos j k) (aget z edges i))
            (nleb O (aget z edges (i + 1)) (dist_euclid O (shape0 pos) pos j k))
     then col else snd (col_dirs j k (dist_euclid O (shape0 pos) pos j k) col)) col) col.

Definition dir_body (i : nat) : St -> St :=
  fun '((counts, variogram) : St) =>
    let '(counts, variogram) := for_ 0 (n - 1) (fun j '((counts, variogram) : St) =>
      let '(counts, variogram) := for_ (j + 1) n (fun k '((counts, variogram) : St) =>
        if orb (nltb O (dist_euclid O (shape0 pos) pos j k) (aget z edges i))
               (nleb O (aget z edges (i + 1)) (dist_euclid O (shape0 pos) pos j k))
        then (counts, variogram)
        else
        let '(_, counts, variogram) :=
          for_ 0 dmax (fun d '((brk, counts, variogram) : bool * list (list Z) * list (list T)) =>
            if brk then (brk, counts, variogram) else
            if negb (dir_test O (shape0 pos) pos (dist_euclid O (shape0 pos) pos j k) direction tol bw k j d)
            then (brk, counts, variogram) else
            let '(counts, variogram) :=
              for_ 0 (shape0 f) (fun m '((counts, variogram) : St) =>
                let '(counts, variogram) :=
                  (if negb (orb (nisnan O (aget2 z f m k)) (nisnan O (aget2 z f m j)))
                   then (aupd2 counts d i (Z.add (aget2 0%Z counts d i) 1),
                         aupd2 variogram d i (nadd O (aget2 z variogram d i) (est (nsub O (aget2 z f m k) (aget2 z f m j)))))
                   else (counts, variogram)) in
                (counts, variogram)) (counts, variogram) in
            if sep then (true, counts, variogram) else (brk, counts, variogram)) (false, counts, variogram) in
        (counts, variogram)) (counts, variogram) in
      (counts, variogram)) (counts, variogram) in
    (counts, variogram).

Lemma body_sim i s0 : i < nb -> okd s0 -> Rel s0 i (dir_body i s0) (col_bin i (colget s0 i)).
Proof.
  intros Hi H0. destruct s0 as [c0 v0]. unfold dir_body, col_bin. rewrite let_pair_id.
  apply for_sim. { split; auto. }
  intros j [c v] cc _ HR. rewrite let_pair_id. apply for_sim; auto.
  intros k [c' v'] cc' _ HR'.
  destruct (orb (nltb O (dist_euclid O (shape0 pos) pos j k) (aget z edges i))
                (nleb O (aget z edges (i + 1)) (dist_euclid O (shape0 pos) pos j k))); auto.
  exact (dloop_sim (c0, v0) i j k (dist_euclid O (shape0 pos) pos j k) (c', v') cc' Hi HR').
Qed.

(* entry d of the column after the iteration = the fold over all pairs of the selected ones *)
Lemma col_bin_entry i d col : d < dmax -> length col = dmax ->
  length (col_bin i col) = dmax /\
  aget zt (col_bin i col) d =
    for_ 0 (n - 1) (fun j acc => for_ (j + 1) n (fun k acc =>
       if andb (in_bin O edges i (dist_euclid O (shape0 pos) pos j k))
               (selected O pos direction tol bw sep (dist_euclid O (shape0 pos) pos j k) j k d)
       then pair_contrib O f est j k acc else acc) acc) (aget zt col d).
Proof.
  intros Hd Hc. unfold col_bin.
  apply (for_sim (fun (c : list (Z * T)) (a : Z * T) => length c = dmax /\ aget zt c d = a)); auto.
  intros j c a _ [L E]. apply (for_sim (fun (c : list (Z * T)) (a : Z * T) => length c = dmax /\ aget zt c d = a)); auto.
  intros k c' a' _ [L' E']. unfold in_bin.
  destruct (orb (nltb O (dist_euclid O (shape0 pos) pos j k) (aget z edges i))
                (nleb O (aget z edges (i + 1)) (dist_euclid O (shape0 pos) pos j k))); simpl; auto.
  destruct (col_dirs_char j k (dist_euclid O (shape0 pos) pos j k) c') as [L2 E2].
  split; [now rewrite L2|]. rewrite (E2 d Hd L'), E'. reflexivity.
Qed.
End Dir.

(* the early break is harmless whenever no pair passes the tests of two different directions *)
Lemma break_harmless pos direction tol bw dist j k d :
  (forall d1 d2, d1 <> d2 -> passes O pos direction tol bw dist j k d1 = true ->
                 passes O pos direction tol bw dist j k d2 = false) ->
  selected O pos direction tol bw true dist j k d = selected O pos direction tol bw false dist j k d.
Proof.
  intros H. unfold selected. simpl. rewrite andb_true_r.
  destruct (passes O pos direction tol bw dist j k d) eqn:P; simpl; auto.
  apply forallb_forall. intros d' Hd'. apply in_seq in Hd'.
  rewrite (H d d'); auto. lia.
Qed.

Lemma choose_norm_vec et (v : list (list T)) (c : list (list Z)) :
  choose_estimator_normalization_vec O et v c
  = map (fun d => normalize_spec O et (arow v d) (arow c d)) (seq 0 (length v)).
Proof.
  unfold choose_estimator_normalization_vec. destruct (Z.eqb et 109) eqn:E.
  - unfold normalization_matheron_vec. cbv zeta. unfold shape0.
    rewrite (for_cells1_map (@nil T) _ (fun d row => normalization_matheron O row (arow c d)) v).
    + apply map_ext. intros d. apply Z.eqb_eq in E. subst. apply norm_matheron.
    + intros d st _. reflexivity.
  - unfold normalization_cressie_vec. cbv zeta. unfold shape0.
    rewrite (for_cells1_map (@nil T) _ (fun d row => normalization_cressie O row (arow c d)) v).
    + apply map_ext. intros d. now apply norm_cressie.
    + intros d st _. reflexivity.
Qed.

Lemma aget2_map_map {A} (da : A) (F : nat -> nat -> A) r c d i : d < r -> i < c ->
  aget2 da (map (fun d => map (fun i => F d i) (seq 0 c)) (seq 0 r)) d i = F d i.
Proof.
  intros Hd Hi. unfold aget2, arow.
  change (nth d (map (fun d0 => map (fun i0 => F d0 i0) (seq 0 c)) (seq 0 r)) [])
    with (aget (@nil A) (map (fun d0 => map (fun i0 => F d0 i0) (seq 0 c)) (seq 0 r)) d).
  rewrite aget_map_seq by auto. now rewrite aget_map_seq.
Qed.
Lemma rect_map_map {A} (F : nat -> nat -> A) r c : rect r c (map (fun d => map (fun i => F d i) (seq 0 c)) (seq 0 r)).
Proof.
  split; [now rewrite map_length, seq_length|]. apply Forall_forall. intros x Hx.
  apply in_map_iff in Hx. destruct Hx as [d [<- _]]. now rewrite map_length, seq_length.
Qed.

Theorem directional_any_schedule sched f edges pos direction tol bw sep et : is_sched sched ->
  directional_sched O sched f edges pos direction tol bw sep et = directional_spec O f edges pos direction tol bw sep et.
Proof.
  intros Hs. unfold directional_sched, directional_spec. cbv zeta.
  destruct (negb (Nat.eqb (shape1 pos) (shape1 f))); [reflexivity|].
  destruct (Nat.ltb (length edges) 2); [reflexivity|].
  destruct (nleb O tol z); [reflexivity|].
  rewrite choose_est.
  set (dmax := shape0 direction). set (nb := length edges - 1). set (est := est_of O et).
  set (s0 := (repeat (repeat 0%Z nb) dmax, repeat (repeat z nb) dmax)).
  match goal with |- (let '(c, v) := par_for sched 0 nb ?B ?S0 in _) = _ =>
    change B with (dir_body f pos direction edges tol bw sep est); change S0 with s0 end.
  assert (H0 : okd direction edges s0) by (split; apply rect_repeat).
  destruct (views_par_for (okd direction edges) (colget direction) (fun i => i < nb)
              (dir_body f pos direction edges tol bw sep est)
              (col_bin f pos direction edges tol bw sep est)) with (sched := sched) (lo := 0) (hi := nb) (s := s0)
    as [Hok Hcols]; auto.
  { intros i s Hi Hsok. exact (proj1 (body_sim f pos direction edges tol bw sep est i s Hi Hsok)). }
  { intros i s Hi Hsok. exact (proj1 (proj2 (body_sim f pos direction edges tol bw sep est i s Hi Hsok))). }
  { intros i j s Hi Hsok Hij. apply (proj2 (proj2 (body_sim f pos direction edges tol bw sep est i s Hi Hsok))). auto. }
  { intros i Hi. lia. }
  set (r := par_for sched 0 nb (dir_body f pos direction edges tol bw sep est) s0) in *.
  assert (Ent : forall d i, d < dmax -> i < nb ->
            (aget2 0%Z (fst r) d i, aget2 z (snd r) d i) = dir_bin_acc O f pos direction edges tol bw sep est d i).
  { intros d i Hd Hi. rewrite <- (colget_at direction r i d Hd), Hcols.
    replace (andb (Nat.leb 0 i) (Nat.ltb i nb)) with true by (symmetry; simpl; apply Nat.ltb_lt; lia).
    destruct (col_bin_entry f pos direction edges tol bw sep est i d (colget direction s0 i) Hd (colget_length direction s0 i)) as [_ E].
    rewrite E, (colget_at direction s0 i d Hd). unfold s0. simpl fst. simpl snd. rewrite !aget2_repeat.
    unfold dir_bin_acc. cbv zeta.
    now rewrite (nested_for_pairs (shape1 pos) (fun j k acc =>
       if andb (in_bin O edges i (dist_euclid O (shape0 pos) pos j k))
               (selected O pos direction tol bw sep (dist_euclid O (shape0 pos) pos j k) j k d)
       then pair_contrib O f est j k acc else acc)). }
  destruct r as [rc rv]. destruct Hok as [Hrc Hrv]. simpl in Hrc, Hrv, Ent.
  assert (Ec : rc = map (fun d => map (fun i => fst (dir_bin_acc O f pos direction edges tol bw sep est d i)) (seq 0 nb)) (seq 0 dmax)).
  { apply (rect_ext 0%Z dmax nb); auto using rect_map_map. intros d i Hd Hi.
    rewrite aget2_map_map by auto. now rewrite <- (Ent d i Hd Hi). }
  assert (Ev : rv = map (fun d => map (fun i => snd (dir_bin_acc O f pos direction edges tol bw sep est d i)) (seq 0 nb)) (seq 0 dmax)).
  { apply (rect_ext z dmax nb); auto using rect_map_map. intros d i Hd Hi.
    rewrite aget2_map_map by auto. now rewrite <- (Ent d i Hd Hi). }
  rewrite choose_norm_vec. subst rc rv. rewrite map_length, seq_length. reflexivity.
Qed.
End Proofs.
