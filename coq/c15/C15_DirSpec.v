(* C15_DirSpec.v — specification of the directional estimator: per direction d and bin i, the fold
   over ALL pairs j<k of the pairs that lie in the bin and are SELECTED for direction d. *)
From Coq Require Import ZArith List Bool Arith.
From GS Require Import Num Loops Cellwise Estimator_gen C15_VarioSpec.
Import ListNotations.

Section DSpec.
Context {T : Type} (O : NumOps T).
Notation z := (n0 O).

(* a pair is selected for direction d iff it passes d's test (angle tolerance, bandwidth) and, when the
   directions were declared separated, no EARLIER direction's test (the kernel's early break) *)
Definition passes (pos direction : list (list T)) (tol bw : T) (dist : T) (j k d : nat) : bool :=
  dir_test O (shape0 pos) pos dist direction tol bw k j d.
Definition selected (pos direction : list (list T)) (tol bw : T) (sep : bool) (dist : T) (j k d : nat) : bool :=
  andb (passes pos direction tol bw dist j k d)
       (orb (negb sep) (forallb (fun d' => negb (passes pos direction tol bw dist j k d')) (seq 0 d))).

Definition dir_bin_acc (f pos direction : list (list T)) (edges : list T) (tol bw : T) (sep : bool)
    (est : T -> T) (d i : nat) : Z * T :=
  fold_left (fun acc jk =>
      let dist := dist_euclid O (shape0 pos) pos (fst jk) (snd jk) in
      if andb (in_bin O edges i dist) (selected pos direction tol bw sep dist (fst jk) (snd jk) d)
      then pair_contrib O f est (fst jk) (snd jk) acc else acc)
    (pairs (shape1 pos)) (0%Z, z).

Definition directional_spec (f : list (list T)) (edges : list T) (pos direction : list (list T))
    (tol bw : T) (sep : bool) (et : Z) : option (list (list T) * list (list Z)) :=
  if negb (Nat.eqb (shape1 pos) (shape1 f)) then None else
  if Nat.ltb (length edges) 2 then None else
  if nleb O tol z then None else
  let nb := length edges - 1 in
  let acc := fun d i => dir_bin_acc f pos direction edges tol bw sep (est_of O et) d i in
  let cnt := map (fun d => map (fun i => fst (acc d i)) (seq 0 nb)) (seq 0 (shape0 direction)) in
  let sums := map (fun d => map (fun i => snd (acc d i)) (seq 0 nb)) (seq 0 (shape0 direction)) in
  Some (map (fun d => normalize_spec O et (arow sums d) (arow cnt d)) (seq 0 (shape0 direction)), cnt).
End DSpec.
