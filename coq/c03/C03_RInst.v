(* C03_RInst.v — the real-number instance of NumOps used by the C03 theorems.  It is lib/RInst.v's
   instance except for [npow]: C's pow(0, y) = 0 for y > 0 is kept (Coq's Rpower 0 y is 1), because
   TPLSimple evaluates max(1 - h, 0) ** nu at the range edge. *)
From Coq Require Import Reals Lra Lia ZArith List Bool.
From GS Require Import Num Loops RInst C03_Model.
Import ListNotations.
Open Scope R_scope.

Definition Rpow0 (x y : R) : R :=
  if Req_EM_T y (IZR (Int_part y)) then powerRZ x (Int_part y)
  else if Rle_dec x 0 then 0 else Rpower x y.

Definition Rops3 (ora : nat -> list R -> R) : NumOps R := {|
  n0 := 0; n1 := 1;
  nadd := Rplus; nsub := Rminus; nmul := Rmult; ndiv := Rdiv;
  nneg := Ropp; nabs := Rabs; nsqrt := sqrt;
  ncos := cos; nsin := sin; nexp := exp; nln := ln;
  nacos := acos; nasin := asin; natan := atan; natan2 := Ratan2;
  npow := Rpow0;
  nltb := Rltb; nleb := Rleb; neqb := Reqb;
  nisnan := fun _ => false;
  nofZ := IZR;
  npi := PI;
  noracle := ora
|}.

Lemma Rpow0_IZR x n : Rpow0 x (IZR n) = powerRZ x n.
Proof. unfold Rpow0. rewrite Int_part_IZR. destruct (Req_EM_T (IZR n) (IZR n)); [reflexivity|contradiction]. Qed.

Lemma Rpow0_pos x y : 0 < x -> Rpow0 x y = Rpower x y.
Proof.
  intros Hx. unfold Rpow0. destruct (Req_EM_T y (IZR (Int_part y))) as [E|E].
  - rewrite E at 2. symmetry. rewrite <- powerRZ_Rpower by exact Hx. reflexivity.
  - destruct (Rle_dec x 0); [lra|reflexivity].
Qed.

Lemma Rpow0_zero y : 0 < y -> Rpow0 0 y = 0.
Proof.
  intros Hy. unfold Rpow0. destruct (Req_EM_T y (IZR (Int_part y))) as [E|E].
  - assert (Hz : (0 < Int_part y)%Z) by (apply lt_IZR; rewrite <- E; exact Hy).
    destruct (Int_part y) as [|p|p]; try lia. simpl. apply pow_i. lia.
  - destruct (Rle_dec 0 0); [reflexivity|lra].
Qed.

Lemma Rpow0_nat x (n : nat) : Rpow0 x (IZR (Z.of_nat n)) = x ^ n.
Proof. rewrite Rpow0_IZR. rewrite <- pow_powerRZ. reflexivity. Qed.

(* literals *)
Lemma nlit0_R ora p : nlit (Rops3 ora) p 0 = IZR p.
Proof. reflexivity. Qed.
Lemma nlitS_R ora p k : nlit (Rops3 ora) p (S k) = IZR p / IZR (10 ^ Z.of_nat (S k)).
Proof. reflexivity. Qed.

(* boolean tests *)
Lemma Rltb_iff x y : Rltb x y = true <-> x < y. Proof. apply Rltb_true. Qed.
Lemma Rleb_iff x y : Rleb x y = true <-> x <= y. Proof. apply Rleb_true. Qed.
Lemma Rltb_if {A} x y (a b : A) : (if Rltb x y then a else b) = (if Rlt_dec x y then a else b).
Proof. unfold Rltb. destruct (Rlt_dec x y); reflexivity. Qed.
Lemma Rleb_if {A} x y (a b : A) : (if Rleb x y then a else b) = (if Rle_dec x y then a else b).
Proof. unfold Rleb. destruct (Rle_dec x y); reflexivity. Qed.

(* unfold the record projections of the instance without touching the real-number expressions *)
Ltac rsimp := cbn [n0 n1 nadd nsub nmul ndiv nneg nabs nsqrt ncos nsin nexp nln nacos nasin natan natan2
                   npow nltb nleb neqb nisnan nofZ npi noracle Rops3] in *.
Lemma two_R ora : two (Rops3 ora) = 2. Proof. reflexivity. Qed.
Lemma half_R ora : half (Rops3 ora) = 5 / 10. Proof. reflexivity. Qed.
