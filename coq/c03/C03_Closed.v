(* C03_Closed.v — the elementary shipped models evaluate to the formulas of their docstrings, for every
   lag r >= 0 and every admissible parameter set (at R).  The [cor_*] are the models of the code
   (minimum/maximum clipping, 8.75 / 3.5 / 0.75 literals, pow); the right-hand sides are the documented
   piecewise formulas. *)
From Coq Require Import Reals Lra Lia ZArith List Bool Psatz.
From GS Require Import Num Loops RInst C03_Model C03_RInst C03_Proofs.
Import ListNotations.
Open Scope R_scope.

Section Closed.
Variable ora : nat -> list R -> R.
Notation OR := (Rops3 ora).

(* ---------- from cor to the three public functions: h = s * r / l *)
Lemma chain (cor : R -> R) (D : R -> R) var nug len resc r :
  0 < len -> 0 < resc -> 0 <= r ->
  let h := resc * r / len in
  cor h = D h ->
  let lr := len_rescaled OR len resc in
  correlation_of OR cor lr r = D h /\
  covariance_of OR cor var lr r = var * D h /\
  variogram_of OR cor var nug lr r = var * (1 - D h) + nug.
Proof.
  intros Hl Hs Hr h Hc lr.
  assert (E : correlation_of OR cor lr r = cor h).
  { destruct (identities ora cor var nug len resc r) as [_ [_ E]]; try lra. unfold lr. rewrite E.
    rewrite (Rabs_pos_eq r) by lra. reflexivity. }
  unfold variogram_of, covariance_of. rewrite E, Hc. rsimp. repeat split; ring.
Qed.

Lemma h_nonneg len resc r : 0 < len -> 0 < resc -> 0 <= r -> 0 <= resc * r / len.
Proof.
  intros. apply Rmult_le_pos; [apply Rmult_le_pos; lra|]. left. apply Rinv_0_lt_compat. lra.
Qed.

(* ---------- numpy minimum / maximum at R *)
Lemma nmin_R a b : nmin OR a b = if Rlt_dec a b then a else b.
Proof. unfold nmin. rsimp. unfold Rltb. destruct (Rlt_dec a b); reflexivity. Qed.
Lemma nmax_R a b : nmax OR a b = if Rle_dec b a then a else b.
Proof. unfold nmax. rsimp. unfold Rleb. destruct (Rle_dec b a); reflexivity. Qed.
Lemma powz_R x (n : nat) : powz OR x (Z.of_nat n) = x ^ n.
Proof. unfold powz. rsimp. apply Rpow0_nat. Qed.

(* ---------- documented formulas *)
Definition doc_gaussian (h : R) : R := exp (- h ^ 2).
Definition doc_exponential (h : R) : R := exp (- h).
Definition doc_stable (alpha h : R) : R := if Req_EM_T h 0 then 1 else exp (- Rpower h alpha).
Definition doc_rational (alpha h : R) : R := Rpower (1 + / alpha * h ^ 2) (- alpha).
Definition doc_cubic (h : R) : R :=
  if Rlt_dec h 1 then 1 - 7 * h ^ 2 + 35 / 4 * h ^ 3 - 7 / 2 * h ^ 5 + 3 / 4 * h ^ 7 else 0.
Definition doc_linear (h : R) : R := if Rlt_dec h 1 then 1 - h else 0.
Definition doc_circular (h : R) : R :=
  if Rlt_dec h 1 then 2 / PI * (acos h - h * sqrt (1 - h ^ 2)) else 0.
Definition doc_spherical (h : R) : R := if Rlt_dec h 1 then 1 - 3 / 2 * h + 1 / 2 * h ^ 3 else 0.
Definition doc_tplsimple (nu h : R) : R := if Rlt_dec h 1 then Rpower (1 - h) nu else 0.

(* ---------- code = documentation, on normalised lags h >= 0 *)
Lemma cor_gaussian_doc h : cor_gaussian OR h = doc_gaussian h.
Proof. unfold cor_gaussian, doc_gaussian, nsq. rsimp. f_equal. ring. Qed.

Lemma cor_exponential_doc h : cor_exponential OR h = doc_exponential h.
Proof. reflexivity. Qed.

Lemma cor_stable_doc alpha h : 0 < alpha -> 0 <= h -> cor_stable OR alpha h = doc_stable alpha h.
Proof.
  intros Ha Hh. unfold cor_stable, doc_stable. rsimp. destruct (Req_EM_T h 0) as [E|E].
  - subst h. rewrite Rpow0_zero by exact Ha. rewrite Ropp_0. apply exp_0.
  - rewrite Rpow0_pos by lra. reflexivity.
Qed.

Lemma cor_rational_doc alpha h : 0 < alpha -> cor_rational OR alpha h = doc_rational alpha h.
Proof.
  intros Ha. unfold cor_rational, doc_rational, nsq. rsimp.
  assert (Hb : 0 < 1 + h * h / alpha).
  { assert (0 <= h * h / alpha). { apply Rmult_le_pos; [nra|]. left. apply Rinv_0_lt_compat. lra. } lra. }
  rewrite Rpow0_pos by exact Hb. f_equal. field. lra.
Qed.

Lemma cor_cubic_doc h : 0 <= h -> cor_cubic OR h = doc_cubic h.
Proof.
  intros Hh. unfold cor_cubic, doc_cubic, nsq, lit. rewrite nmin_R.
  change 3%Z with (Z.of_nat 3). change 5%Z with (Z.of_nat 5). change 7%Z with (Z.of_nat 7).
  rewrite !powz_R. rewrite !nlitS_R, !nlit0_R. rsimp. rewrite (Rabs_pos_eq h) by exact Hh.
  change (10 ^ Z.of_nat 2)%Z with 100%Z. change (10 ^ Z.of_nat 1)%Z with 10%Z.
  destruct (Rlt_dec h 1); [field|]. field.
Qed.

Lemma cor_linear_doc h : 0 <= h -> cor_linear OR h = doc_linear h.
Proof.
  intros Hh. unfold cor_linear, doc_linear. rewrite nmax_R. rsimp. rewrite (Rabs_pos_eq h) by exact Hh.
  destruct (Rle_dec 0 (1 - h)), (Rlt_dec h 1); lra.
Qed.

Lemma cor_circular_doc h : 0 <= h -> cor_circular OR h = doc_circular h.
Proof.
  intros Hh. unfold cor_circular, doc_circular, nsq. rewrite two_R. rsimp. rewrite (Rabs_pos_eq h) by exact Hh.
  rewrite Rltb_if. destruct (Rlt_dec h 1); [|reflexivity]. f_equal. f_equal. f_equal. f_equal. ring.
Qed.

Lemma cor_spherical_doc h : 0 <= h -> cor_spherical OR h = doc_spherical h.
Proof.
  intros Hh. unfold cor_spherical, doc_spherical, lit. rewrite nmin_R, half_R.
  change 3%Z with (Z.of_nat 3). rewrite !powz_R. rewrite !nlitS_R. rsimp. rewrite (Rabs_pos_eq h) by exact Hh.
  change (10 ^ Z.of_nat 1)%Z with 10%Z.
  destruct (Rlt_dec h 1); field.
Qed.

Lemma cor_tplsimple_doc nu h : 0 < nu -> 0 <= h -> cor_tplsimple OR nu h = doc_tplsimple nu h.
Proof.
  intros Hn Hh. unfold cor_tplsimple, doc_tplsimple. rewrite nmax_R. rsimp. rewrite (Rabs_pos_eq h) by exact Hh.
  destruct (Rle_dec 0 (1 - h)), (Rlt_dec h 1); try lra.
  - apply Rpow0_pos. lra.
  - replace (1 - h) with 0 by lra. apply Rpow0_zero. exact Hn.
  - apply Rpow0_zero. exact Hn.
Qed.

(* every elementary model has correlation 1 at lag 0 (so variogram 0 = nugget, covariance 0 = var) *)
Lemma cor_at_zero :
  cor_gaussian OR 0 = 1 /\ cor_exponential OR 0 = 1 /\ cor_cubic OR 0 = 1 /\ cor_linear OR 0 = 1 /\
  cor_circular OR 0 = 1 /\ cor_spherical OR 0 = 1 /\
  (forall a, 0 < a -> cor_stable OR a 0 = 1) /\ (forall a, 0 < a -> cor_rational OR a 0 = 1) /\
  (forall nu, 0 < nu -> cor_tplsimple OR nu 0 = 1).
Proof.
  repeat split; intros.
  - rewrite cor_gaussian_doc. unfold doc_gaussian. replace (- 0 ^ 2) with 0 by ring. apply exp_0.
  - rewrite cor_exponential_doc. unfold doc_exponential. rewrite Ropp_0. apply exp_0.
  - rewrite cor_cubic_doc by lra. unfold doc_cubic. destruct (Rlt_dec 0 1); lra.
  - rewrite cor_linear_doc by lra. unfold doc_linear. destruct (Rlt_dec 0 1); lra.
  - rewrite cor_circular_doc by lra. unfold doc_circular. destruct (Rlt_dec 0 1); [|lra].
    rewrite acos_0. replace (1 - 0 ^ 2) with 1 by ring. rewrite sqrt_1. field. apply PI_neq0.
  - rewrite cor_spherical_doc by lra. unfold doc_spherical. destruct (Rlt_dec 0 1); lra.
  - rewrite cor_stable_doc by lra. unfold doc_stable. destruct (Req_EM_T 0 0); [reflexivity|lra].
  - rewrite cor_rational_doc by lra. unfold doc_rational.
    replace (1 + / a * 0 ^ 2) with 1 by ring. unfold Rpower. rewrite ln_1, Rmult_0_r. apply exp_0.
  - rewrite cor_tplsimple_doc by lra. unfold doc_tplsimple. destruct (Rlt_dec 0 1); [|lra].
    rewrite Rminus_0_r. unfold Rpower. rewrite ln_1, Rmult_0_r. apply exp_0.
Qed.

(* ---------- the documented variogram / correlation of each class, every r >= 0 *)
Section Full.
Variables (var nug len resc r : R).
Hypotheses (Hl : 0 < len) (Hs : 0 < resc) (Hr : 0 <= r).
Let h := resc * r / len.
Let lr := len_rescaled OR len resc.

Lemma closed_gaussian :
  variogram_of OR (cor_gaussian OR) var nug lr r = var * (1 - exp (- (resc * r / len) ^ 2)) + nug.
Proof. apply (chain _ doc_gaussian var nug len resc r Hl Hs Hr). apply cor_gaussian_doc. Qed.

Lemma closed_exponential :
  variogram_of OR (cor_exponential OR) var nug lr r = var * (1 - exp (- (resc * r / len))) + nug.
Proof. apply (chain _ doc_exponential var nug len resc r Hl Hs Hr). apply cor_exponential_doc. Qed.

Lemma closed_stable alpha : 0 < alpha ->
  correlation_of OR (cor_stable OR alpha) lr r = doc_stable alpha h.
Proof. intros Ha. apply (chain _ (doc_stable alpha) var nug len resc r Hl Hs Hr). apply cor_stable_doc; [exact Ha|apply h_nonneg; assumption]. Qed.

Lemma closed_rational alpha : 0 < alpha ->
  correlation_of OR (cor_rational OR alpha) lr r = doc_rational alpha h.
Proof. intros Ha. apply (chain _ (doc_rational alpha) var nug len resc r Hl Hs Hr). apply cor_rational_doc. exact Ha. Qed.

Lemma closed_cubic : correlation_of OR (cor_cubic OR) lr r = doc_cubic h.
Proof. apply (chain _ doc_cubic var nug len resc r Hl Hs Hr). apply cor_cubic_doc. apply h_nonneg; assumption. Qed.

Lemma closed_linear : correlation_of OR (cor_linear OR) lr r = doc_linear h.
Proof. apply (chain _ doc_linear var nug len resc r Hl Hs Hr). apply cor_linear_doc. apply h_nonneg; assumption. Qed.

Lemma closed_circular : correlation_of OR (cor_circular OR) lr r = doc_circular h.
Proof. apply (chain _ doc_circular var nug len resc r Hl Hs Hr). apply cor_circular_doc. apply h_nonneg; assumption. Qed.

Lemma closed_spherical : correlation_of OR (cor_spherical OR) lr r = doc_spherical h.
Proof. apply (chain _ doc_spherical var nug len resc r Hl Hs Hr). apply cor_spherical_doc. apply h_nonneg; assumption. Qed.

Lemma closed_tplsimple nu : 0 < nu ->
  correlation_of OR (cor_tplsimple OR nu) lr r = doc_tplsimple nu h.
Proof. intros Hn. apply (chain _ (doc_tplsimple nu) var nug len resc r Hl Hs Hr). apply cor_tplsimple_doc; [exact Hn|apply h_nonneg; assumption]. Qed.

(* the range: h < 1 <-> r < len / resc, as the docstrings put it *)
Lemma range_edge : h < 1 <-> r < len / resc.
Proof.
  unfold h. split; intros H.
  - apply Rmult_lt_reg_r with (resc / len). { apply Rmult_lt_0_compat; [lra|apply Rinv_0_lt_compat; lra]. }
    replace (len / resc * (resc / len)) with 1 by (field; split; lra).
    replace (r * (resc / len)) with (resc * r / len) by (field; lra). exact H.
  - apply Rmult_lt_reg_r with (len / resc). { apply Rmult_lt_0_compat; [lra|apply Rinv_0_lt_compat; lra]. }
    replace (resc * r / len * (len / resc)) with r by (field; split; lra). lra.
Qed.
End Full.

(* the matern switch and masks (special values are oracles; the branch structure is proved):
   nu > 20 is the Gaussian limit of the docstring; lag 0 gives 1; the result is never negative *)
Lemma matern_structure nu h :
  (20 < nu -> cor_matern OR nu h = exp (- (Rabs h / 2) ^ 2)) /\
  (nu <= 20 -> h = 0 -> cor_matern OR nu h = 1) /\
  0 <= cor_matern OR nu h.
Proof.
  unfold cor_matern, lit, nsq. rewrite nlit0_R, two_R. rsimp. rewrite !Rltb_if. repeat split.
  - intros H. destruct (Rlt_dec 20 nu); [|lra]. f_equal. ring.
  - intros H E. subst h. destruct (Rlt_dec 20 nu); [lra|]. rewrite Rabs_R0. destruct (Rlt_dec 0 0); [lra|].
    rewrite nmax_R. destruct (Rle_dec 0 1); lra.
  - destruct (Rlt_dec 20 nu); [left; apply exp_pos|]. destruct (Rlt_dec 0 (Rabs h)).
    + rewrite nmax_R. match goal with |- 0 <= (if Rle_dec 0 ?v then _ else _) => destruct (Rle_dec 0 v) end; lra.
    + rewrite nmax_R. destruct (Rle_dec 0 1); lra.
Qed.

(* non-vacuity of [consistent]: the Gaussian-shaped user classes of the correspondence (each of the four
   methods written by hand, as in harness/c03.py) are consistent with cor_gaussian, whatever subset of
   them a class provides *)
Lemma user_gauss_consistent var nug lr d : 0 < lr ->
  consistent (cor_gaussian OR) var nug lr d (user_gauss OR var nug lr).
Proof.
  intros Hl. unfold consistent, user_gauss, canon, cor_gaussian, nsq. rsimp.
  assert (E : forall x, Rabs x / lr * (Rabs x / lr) = x / lr * (x / lr)).
  { intros x. unfold Rdiv. replace (Rabs x * / lr * (Rabs x * / lr)) with ((Rabs x * Rabs x) * (/ lr * / lr)) by ring.
    rewrite <- Rabs_mult. rewrite (Rabs_pos_eq (x * x)) by nra. ring. }
  repeat split; intros _ x; cbn [u_cor u_correlation u_covariance u_variogram]; rewrite ?E; try reflexivity; ring.
Qed.

(* the same for ANY normalised correlation, in particular the hole-effect shapes with negative lobes (no positivity
   is assumed anywhere in derive_canonical / four_definitions_agree) *)
Lemma user_from_cor_consistent (c : R -> R) var nug lr d :
  consistent c var nug lr d (user_from_cor OR c var nug lr).
Proof.
  unfold consistent, user_from_cor, canon. rsimp.
  repeat split; intros _ x; cbn [u_cor u_correlation u_covariance u_variogram]; try reflexivity; ring.
Qed.

Lemma wave_negative_lobe : cor_wave OR (3 * PI / 2) < 0.
Proof.
  unfold cor_wave. rsimp. unfold Reqb. destruct (Req_EM_T (3 * PI / 2) 0) as [E|E].
  - pose proof PI_RGT_0. lra.
  - replace (3 * PI / 2) with (- (PI / 2) + 2 * PI) at 1 by field.
    rewrite sin_plus, sin_2PI, cos_2PI, sin_neg, sin_PI2, cos_neg, cos_PI2.
    pose proof PI_RGT_0. unfold Rdiv. apply Ropp_lt_cancel. rewrite Ropp_0.
    assert (0 < / (3 * PI * / 2)) by (apply Rinv_0_lt_compat; lra). nra.
Qed.

End Closed.
