(* C03_Proofs.v — theorems about C03_Model: structural ones for every number type, algebraic ones at R.
   Oracle special functions are the Section variable [ora]: every theorem is quantified over it. *)
From Coq Require Import Reals Lra Lia ZArith List Bool Psatz.
From GS Require Import Num Loops RInst C03_Model C03_RInst.
Import ListNotations.
Open Scope R_scope.

(* ================================================================ structural (every NumOps T) *)
Section Generic.
Context {T : Type} (O : NumOps T).

(* a class that provides at least one of the four methods is complete: every call terminates within the
   fuel (depth 4), so [derive] is None exactly for the classes Python rejects with TypeError *)
Lemma eval_total d u var nug lr f x :
  abstract d = false -> exists v, eval O d u var nug lr 4 f x = Some v.
Proof.
  destruct d as [[|] [|] [|] [|]]; intros Ha; try discriminate Ha; destruct f; simpl; eexists; reflexivity.
Qed.

Lemma derive_none_iff d u var nug lr f x :
  derive O d u var nug lr f x = None <-> abstract d = true.
Proof.
  unfold derive. destruct (abstract d) eqn:Ha; split; intros H; auto; try discriminate.
  destruct (eval_total d u var nug lr f x Ha) as [v Hv]. rewrite Hv in H. discriminate.
Qed.

(* a class defining only [cor] (all 13 + TPLSimple): the dispatch yields the written-out functions *)
Lemma derive_cor_only cor uc uv ug var nug lr x :
  let d := mkDef true false false false in
  let u := mkUser cor uc uv ug in
  derive O d u var nug lr Correlation x = Some (correlation_of O cor lr x) /\
  derive O d u var nug lr Covariance x = Some (covariance_of O cor var lr x) /\
  derive O d u var nug lr Variogram x = Some (variogram_of O cor var nug lr x) /\
  derive O d u var nug lr Cor x = Some (cor x).
Proof. repeat split. Qed.

(* a class defining [cor] and [correlation] (TPLGaussian, TPLExponential, TPLStable) *)
Lemma derive_cor_correlation cor corr uv ug var nug lr x :
  let d := mkDef true true false false in
  let u := mkUser cor corr uv ug in
  derive O d u var nug lr Correlation x = Some (corr x) /\
  derive O d u var nug lr Covariance x = Some (covariance_from O corr var x) /\
  derive O d u var nug lr Variogram x = Some (variogram_from O corr var nug x).
Proof. repeat split. Qed.

(* derived quantities are functions of the current parameter state only: whatever sequence of assignments and
   reads produced the object, what is read equals what a freshly constructed object with the same parameters
   gives; two histories ending in the same parameters are indistinguishable *)
Lemma observe_fresh cls ops st0 r :
  let st := run_ops O cls ops st0 in
  observe O cls st r
  = observe O cls (construct (s_var st) (s_len st) (s_nugget st) (s_rescale st) (s_p1 st) (s_p2 st) (s_p3 st)
                             (s_dim st) (s_anis st)) r.
Proof. intros st. destruct st; reflexivity. Qed.

Lemma observe_history_free cls ops1 ops2 st1 st2 r :
  run_ops O cls ops1 st1 = run_ops O cls ops2 st2 ->
  observe O cls (run_ops O cls ops1 st1) r = observe O cls (run_ops O cls ops2 st2) r.
Proof. intros E. rewrite E. reflexivity. Qed.

(* frame: an assignment changes its own parameter only (SetIntScale: the length scale only) *)
Lemma set_step_frame cls st op :
  let st' := set_step O cls st op in
  ((forall v, op <> SetVar v) -> s_var st' = s_var st) /\
  ((forall v, op <> SetNugget v) -> s_nugget st' = s_nugget st) /\
  ((forall d, op <> SetDim d) -> s_dim st' = s_dim st) /\
  ((forall k v, op <> SetOpt k v) -> s_p1 st' = s_p1 st /\ s_p2 st' = s_p2 st /\ s_p3 st' = s_p3 st) /\
  ((forall v, op <> SetLen v) -> (forall t, op <> SetIntScale t) -> s_len st' = s_len st).
Proof.
  destruct st as [var len nug resc p1 p2 p3 dim anis]; destruct op as [v|v|v|v|[|[|k]] v|d|a|t]; cbn -[set_intscale_of];
    try (destruct (set_intscale_of O cls p1 resc t); cbn);
    repeat split; intros; try reflexivity;
    try (exfalso; match goal with H : forall _, _ <> _ |- _ => eapply H; reflexivity end);
    try (exfalso; match goal with H : forall _ _, _ <> _ |- _ => eapply H; reflexivity end).
Qed.
End Generic.

(* ================================================================ at R *)
Section AtR.
Variable ora : nat -> list R -> R.
Notation OR := (Rops3 ora).

(* ---------- the three identities, for ANY cor *)
Lemma identities (cor : R -> R) var nug len resc r :
  resc <> 0 -> len <> 0 ->
  let lr := len_rescaled OR len resc in
  variogram_of OR cor var nug lr r = var + nug - covariance_of OR cor var lr r /\
  covariance_of OR cor var lr r = var * correlation_of OR cor lr r /\
  correlation_of OR cor lr r = cor (resc * Rabs r / len).
Proof.
  intros Hs Hl lr. unfold variogram_of, covariance_of, correlation_of, lr, len_rescaled. simpl.
  repeat split; try ring. f_equal. field. split; assumption.
Qed.

(* ---------- four definitions agree.  [c] is the normalised correlation the class is meant to have;
   the canonical four functions built from it: *)
Definition canon (c : R -> R) (var nug lr : R) (f : fn) (x : R) : R :=
  match f with
  | Cor => c x
  | Correlation => c (Rabs x / lr)
  | Covariance => var * c (Rabs x / lr)
  | Variogram => var - var * c (Rabs x / lr) + nug
  end.
(* the class body is consistent with [c]: every method it provides is the canonical one *)
Definition consistent (c : R -> R) var nug lr (d : defined) (u : userfns (T:=R)) : Prop :=
  (d_cor d = true -> forall x, u_cor u x = canon c var nug lr Cor x) /\
  (d_correlation d = true -> forall x, u_correlation u x = canon c var nug lr Correlation x) /\
  (d_covariance d = true -> forall x, u_covariance u x = canon c var nug lr Covariance x) /\
  (d_variogram d = true -> forall x, u_variogram u x = canon c var nug lr Variogram x).

Lemma Rabs_scaled x lr : 0 < lr -> Rabs (Rabs x * lr) / lr = Rabs x.
Proof.
  intros H. rewrite Rabs_mult, Rabs_Rabsolu, (Rabs_pos_eq lr) by lra. field. lra.
Qed.

Lemma derive_canonical c var nug lr d u f x :
  var <> 0 -> 0 < lr -> abstract d = false -> consistent c var nug lr d u ->
  (f = Cor -> 0 <= x) ->
  derive OR d u var nug lr f x = Some (canon c var nug lr f x).
Proof.
  intros Hv Hl Ha [Hc [Hr [Hk Hg]]] Hx. unfold derive. rewrite Ha.
  assert (Hx' : f = Cor -> Rabs x = x) by (intros E; apply Rabs_pos_eq; auto).
  destruct d as [[|] [|] [|] [|]]; try discriminate Ha; simpl in *;
    destruct f; simpl;
    rewrite ?Hc, ?Hr, ?Hk, ?Hg by reflexivity; unfold canon;
    rewrite ?Rabs_scaled by exact Hl; rewrite ?Hx' by reflexivity;
    try reflexivity; f_equal; field; assumption.
Qed.

(* two classes given through different (non-empty) subsets of the four methods, each consistent with the
   same normalised correlation, have the same four functions *)
Lemma four_definitions_agree c var nug lr d1 u1 d2 u2 f x :
  var <> 0 -> 0 < lr -> abstract d1 = false -> abstract d2 = false ->
  consistent c var nug lr d1 u1 -> consistent c var nug lr d2 u2 -> (f = Cor -> 0 <= x) ->
  derive OR d1 u1 var nug lr f x = derive OR d2 u2 var nug lr f x
  /\ derive OR d1 u1 var nug lr f x <> None.
Proof.
  intros. rewrite (derive_canonical c var nug lr d1 u1 f x), (derive_canonical c var nug lr d2 u2 f x) by assumption.
  split; [reflexivity|discriminate].
Qed.

Lemma Rabs_div' x y : y <> 0 -> Rabs (x / y) = Rabs x / Rabs y.
Proof. intros H. unfold Rdiv. rewrite Rabs_mult, Rabs_inv. reflexivity. Qed.

(* ---------- axis variants: along axis k the function is the isotropic one with len_scale * anis_k *)
Lemma axis_main (f : R -> R) anis r : axis_variant OR f anis 0 r = f r.
Proof. reflexivity. Qed.

Lemma axis_transversal cor len resc anis k r :
  let a := nth k anis 1 in
  0 < a -> resc <> 0 -> len <> 0 ->
  axis_variant OR (correlation_of OR cor (len_rescaled OR len resc)) anis (S k) r
  = correlation_of OR cor (len_rescaled OR (len * a) resc) r.
Proof.
  intros a Ha Hs Hl. unfold axis_variant, correlation_of, len_rescaled. simpl. fold a.
  f_equal. rewrite Rabs_div' by lra. rewrite Rabs_Rabsolu, (Rabs_pos_eq a) by lra. field. repeat split; lra.
Qed.

(* covariance and variogram inherit it *)
Lemma axis_transversal_all cor var nug len resc anis k r :
  let a := nth k anis 1 in
  0 < a -> resc <> 0 -> len <> 0 ->
  axis_variant OR (covariance_of OR cor var (len_rescaled OR len resc)) anis (S k) r
  = covariance_of OR cor var (len_rescaled OR (len * a) resc) r /\
  axis_variant OR (variogram_of OR cor var nug (len_rescaled OR len resc)) anis (S k) r
  = variogram_of OR cor var nug (len_rescaled OR (len * a) resc) r.
Proof.
  intros a Ha Hs Hl.
  pose proof (axis_transversal cor len resc anis k r Ha Hs Hl) as H. fold a in H.
  unfold variogram_of, covariance_of. unfold axis_variant in *. rewrite H. split; reflexivity.
Qed.

(* ---------- Yadrenko variants: the lag handed to the isotropic function is the straight-line (chordal)
   distance of two points of the sphere of radius geo_scale that are zeta apart along a great circle *)
Lemma chord_is_euclid geo zeta :
  0 < geo -> 0 <= zeta <= 2 * PI * geo ->
  let a := zeta / geo in
  chord OR geo zeta = sqrt ((geo - geo * cos a) ^ 2 + (0 - geo * sin a) ^ 2).
Proof.
  intros Hg Hz a. unfold chord. rewrite two_R. rsimp.
  replace (zeta / (2 * geo)) with (a / 2) by (unfold a; field; lra).
  assert (Hs : 0 <= sin (a / 2)).
  { apply sin_ge_0. - unfold a. apply Rmult_le_pos; [|lra]. apply Rmult_le_pos; [lra|]. left. apply Rinv_0_lt_compat; lra.
    - unfold a. apply Rmult_le_reg_r with (2 * geo); [lra|]. field_simplify; lra. }
  replace ((geo - geo * cos a) ^ 2 + (0 - geo * sin a) ^ 2)
    with ((2 * geo * sin (a / 2)) * (2 * geo * sin (a / 2))).
  - rewrite sqrt_square; [reflexivity|]. apply Rmult_le_pos; [lra|exact Hs].
  - pose proof (sin2_cos2 a) as H1. unfold Rsqr in H1.
    pose proof (cos_2a_sin (a / 2)) as H2. replace (2 * (a / 2)) with a in H2 by field.
    assert (sin (a/2) * sin (a/2) = (1 - cos a) / 2) by lra. nra.
Qed.

Lemma yadrenko_identities cor var nug lr geo zeta :
  yadrenko_variant OR (variogram_of OR cor var nug lr) geo zeta
    = var + nug - yadrenko_variant OR (covariance_of OR cor var lr) geo zeta /\
  yadrenko_variant OR (covariance_of OR cor var lr) geo zeta
    = var * yadrenko_variant OR (correlation_of OR cor lr) geo zeta /\
  yadrenko_variant OR (correlation_of OR cor lr) geo zeta = cor (Rabs (chord OR geo zeta) / lr).
Proof. unfold yadrenko_variant, variogram_of, covariance_of, correlation_of. simpl. repeat split; ring. Qed.

(* ---------- spatial variants in 2D: with M = matrix_isometrize(2, angle, anis) the isotropic lag of a
   point is its distance measured in the rotated frame with the transversal axis shrunk by anis; along
   the rotated main axes it is the axis variant *)
Lemma iso_rad2 angle anis x y :
  anis <> 0 ->
  iso_rad OR (isometrize2 OR angle anis) [x; y]
  = sqrt ((cos angle * x + sin angle * y) ^ 2 + ((- sin angle * x + cos angle * y) / anis) ^ 2).
Proof.
  intros Ha. unfold iso_rad, norm2, matvec, dotrow, isometrize2. simpl. f_equal. field. exact Ha.
Qed.

Lemma cs1 x : cos x * cos x + sin x * sin x = 1.
Proof. pose proof (sin2_cos2 x) as H; unfold Rsqr in H; lra. Qed.

Lemma sqrt_sq_abs t : sqrt (t * t) = Rabs t.
Proof. fold (Rsqr t). apply sqrt_Rsqr_abs. Qed.

Lemma spatial_along_axes (f : R -> R) angle anis t :
  0 < anis ->
  spatial_variant OR f (isometrize2 OR angle anis) [t * cos angle; t * sin angle]
    = axis_variant OR f [anis] 0 (Rabs t) /\
  spatial_variant OR f (isometrize2 OR angle anis) [t * - sin angle; t * cos angle]
    = axis_variant OR f [anis] 1 t.
Proof.
  intros Ha. unfold spatial_variant. rewrite !iso_rad2 by lra. pose proof (cs1 angle) as H.
  unfold axis_variant. cbn [nth]. rsimp. split; f_equal.
  - rewrite <- sqrt_sq_abs. f_equal.
    replace (- sin angle * (t * cos angle) + cos angle * (t * sin angle)) with 0 by ring.
    replace (cos angle * (t * cos angle) + sin angle * (t * sin angle))
      with (t * (cos angle * cos angle + sin angle * sin angle)) by ring.
    rewrite H. unfold Rdiv. ring.
  - replace (Rabs t / anis) with (Rabs (t / anis)) by (rewrite Rabs_div' by lra; rewrite (Rabs_pos_eq anis) by lra; reflexivity).
    rewrite <- sqrt_sq_abs. f_equal.
    replace (cos angle * (t * - sin angle) + sin angle * (t * cos angle)) with 0 by ring.
    replace (- sin angle * (t * - sin angle) + cos angle * (t * cos angle))
      with (t * (cos angle * cos angle + sin angle * sin angle)) by ring.
    rewrite H. field. lra.
Qed.

(* ---------- nugget variants.  The window of np.isclose(r, 0) is part of the statement *)
Definition tol8 : R := 1 / 100000000.

Lemma isclose0_R a : isclose0 OR a = true <-> Rabs a <= tol8.
Proof.
  unfold isclose0, isclose, atol, rtol. rewrite !nlitS_R. simpl nsub. simpl nabs. simpl nadd. simpl nmul. simpl nleb. simpl n0.
  change (10 ^ Z.of_nat 8)%Z with 100000000%Z. change (10 ^ Z.of_nat 5)%Z with 100000%Z.
  rewrite Rleb_iff. rewrite Rminus_0_r, Rabs_R0. unfold tol8. lra.
Qed.

Lemma nugget_variants (vario cov : R -> R) var nug r :
  (tol8 < Rabs r -> vario_nugget OR vario r = vario (Rabs r) /\ cov_nugget OR cov var nug r = cov (Rabs r)) /\
  (Rabs r <= tol8 -> vario_nugget OR vario r = 0 /\ cov_nugget OR cov var nug r = var + nug).
Proof.
  unfold vario_nugget, cov_nugget. simpl nabs. split; intros H.
  - destruct (isclose0 OR (Rabs r)) eqn:E.
    + apply isclose0_R in E. rewrite Rabs_Rabsolu in E. lra.
    + split; reflexivity.
  - assert (E : isclose0 OR (Rabs r) = true) by (apply isclose0_R; rewrite Rabs_Rabsolu; exact H).
    rewrite E. split; reflexivity.
Qed.

(* for a model given by cor: outside the window the nugget variants ARE the plain functions (which are
   even in r), inside it they are 0 and the sill; in both cases they add up to the sill *)
Lemma nugget_variants_model cor var nug lr r :
  let vario := variogram_of OR cor var nug lr in
  let cov := covariance_of OR cor var lr in
  (tol8 < Rabs r -> vario_nugget OR vario r = vario r /\ cov_nugget OR cov var nug r = cov r) /\
  (Rabs r <= tol8 -> vario_nugget OR vario r = 0 /\ cov_nugget OR cov var nug r = sill OR var nug) /\
  vario_nugget OR vario r + cov_nugget OR cov var nug r = sill OR var nug.
Proof.
  intros vario cov.
  assert (Hev : vario (Rabs r) = vario r /\ cov (Rabs r) = cov r).
  { unfold vario, cov, variogram_of, covariance_of, correlation_of. simpl. rewrite Rabs_Rabsolu. split; reflexivity. }
  destruct Hev as [Hv Hc].
  destruct (nugget_variants vario cov var nug r) as [H1 H2].
  split; [|split].
  - intros H. destruct (H1 H) as [A B]. rewrite A, B, Hv, Hc. split; reflexivity.
  - intros H. destruct (H2 H) as [A B]. rewrite A, B. split; reflexivity.
  - destruct (Rlt_le_dec tol8 (Rabs r)) as [H|H].
    + destruct (H1 H) as [A B]. rewrite A, B, Hv, Hc. unfold vario, cov, variogram_of, sill. simpl. ring.
    + destruct (H2 H) as [A B]. rewrite A, B. unfold sill. simpl. ring.
Qed.

(* at the origin itself: plain variogram = nugget, plain covariance = var, when cor 0 = 1 *)
Lemma plain_at_origin cor var nug lr : cor (0 / lr) = 1 ->
  variogram_of OR cor var nug lr 0 = nug /\ covariance_of OR cor var lr 0 = var.
Proof.
  intros H. unfold variogram_of, covariance_of, correlation_of. simpl. rewrite Rabs_R0, H. split; ring.
Qed.

(* ---------- integral-scale setter: for every model whose integral scale is linear in len_scale
   (calc len = len / rescale * kappa) the setter yields exactly the prescribed integral scale *)
Lemma integral_scale_setter (kappa resc target : R) :
  kappa <> 0 -> resc <> 0 ->
  let calc := fun len => len_rescaled OR len resc * kappa in
  exists len, set_integral_scale OR calc target = Some len /\ calc len = target /\ len = target * resc / kappa.
Proof.
  intros Hk Hs calc. unfold set_integral_scale.
  assert (E : calc (ndiv OR target (calc (n1 OR))) = target).
  { unfold calc, len_rescaled. simpl. field. split; assumption. }
  rewrite E. simpl nsub. rewrite Rminus_diag_eq by reflexivity.
  assert (Hle : nleb OR (nabs OR 0) (nadd OR (atol OR) (nmul OR (lit OR 1 3) (nabs OR target))) = true).
  { unfold atol, lit. rewrite !nlitS_R. simpl. apply Rleb_iff. rewrite Rabs_R0.
    change (10 ^ Z.of_nat 8)%Z with 100000000%Z. change (10 ^ Z.of_nat 3)%Z with 1000%Z.
    pose proof (Rabs_pos target). nra. }
  rewrite Hle. eexists. split; [reflexivity|]. split; [exact E|].
  unfold calc, len_rescaled. simpl. field. split; assumption.
Qed.

(* ---------- percentile scale: whatever the root finder returns, IF it is a root of the curve handed to
   it, the variogram there is nugget + per * var *)
Lemma percentile_scale_meaning cor var nug lr per x :
  percentile_curve OR (correlation_of OR cor lr) per x = 0 ->
  variogram_of OR cor var nug lr x = nug + per * var.
Proof.
  unfold percentile_curve, variogram_of, covariance_of. simpl. intros H.
  assert (correlation_of OR cor lr x = 1 - per) by lra. rewrite H0. ring.
Qed.

Lemma percentile_ok_R per : percentile_ok OR per = true <-> 0 < per < 1.
Proof. unfold percentile_ok. simpl. rewrite andb_true_iff, !Rltb_iff. tauto. Qed.

(* default_arg_from_bounds lies strictly inside the bounds it is given *)
Lemma default_arg_inside lo hi :
  (forall a b, lo = Some a -> hi = Some b -> a < b) ->
  let v := default_arg_from_bounds OR lo hi in
  (forall a, lo = Some a -> a < v) /\ (forall b, hi = Some b -> v < b).
Proof.
  intros Hlt v. unfold v, default_arg_from_bounds, two. rewrite nlit0_R.
  destruct lo as [a|], hi as [b|]; simpl; split; intros c E; inversion E; subst;
    try (specialize (Hlt _ _ eq_refl eq_refl)); lra.
Qed.

(* ---------- scale equivariance: multiplying len_scale (and every lag) by lam > 0 changes nothing but the unit:
   correlation, the curve of the percentile scale, len_rescaled and all closed-form integral scales *)
Lemma scale_equivariance (c : R -> R) lam lr len resc per r nu :
  0 < lam -> lr <> 0 ->
  correlation_of OR c (lam * lr) (lam * r) = correlation_of OR c lr r /\
  percentile_curve OR (correlation_of OR c (lam * lr)) per (lam * r)
    = percentile_curve OR (correlation_of OR c lr) per r /\
  len_rescaled OR (lam * len) resc = lam * len_rescaled OR len resc /\
  intscale_gaussian OR (lam * lr) = lam * intscale_gaussian OR lr /\
  intscale_exponential (lam * lr) = lam * intscale_exponential lr /\
  intscale_stable OR nu (lam * lr) = lam * intscale_stable OR nu lr /\
  intscale_matern OR nu (lam * lr) = lam * intscale_matern OR nu lr /\
  intscale_integral OR nu (lam * lr) = lam * intscale_integral OR nu lr /\
  intscale_rational OR nu (lam * lr) = lam * intscale_rational OR nu lr.
Proof.
  intros Hl Hr.
  assert (E : correlation_of OR c (lam * lr) (lam * r) = correlation_of OR c lr r).
  { unfold correlation_of. rsimp. f_equal. rewrite Rabs_mult, (Rabs_pos_eq lam) by lra. field. split; lra. }
  split; [exact E|]. split; [unfold percentile_curve; rewrite E; reflexivity|].
  unfold len_rescaled, intscale_gaussian, intscale_exponential, intscale_stable, intscale_matern, intscale_integral,
    intscale_rational. rsimp. unfold Rdiv. repeat split; ring.
Qed.

(* ---------- integral-scale setter, ANY calc (also the TPL classes, whose scale is not proportional to len_scale):
   the candidate is len = target / calc 1; it is accepted iff the scale it gives is within np.isclose(rtol = 1e-3)
   of the prescribed one, otherwise the setter refuses (ValueError) *)
Definition setter_tol (target : R) : R := 1 / 100000000 + 1 / 1000 * Rabs target.
Lemma integral_scale_setter_accepts_iff (calc : R -> R) target :
  let len := target / calc 1 in
  (set_integral_scale OR calc target = Some len /\ Rabs (calc len - target) <= setter_tol target) \/
  (set_integral_scale OR calc target = None /\ setter_tol target < Rabs (calc len - target)).
Proof.
  intros len. unfold set_integral_scale, setter_tol, atol, lit. rewrite !nlitS_R. rsimp. fold len.
  change (10 ^ Z.of_nat 8)%Z with 100000000%Z. change (10 ^ Z.of_nat 3)%Z with 1000%Z.
  unfold Rleb. destruct (Rle_dec (Rabs (calc len - target)) (1 / 100000000 + 1 / 1000 * Rabs target)) as [H|H].
  - left. split; [reflexivity|exact H].
  - right. split; [reflexivity|lra].
Qed.

End AtR.
