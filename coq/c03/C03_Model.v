(* C03_Model.v — Gallina model of the covariance-model function layer of GSTools, written once for
   every number type (NumOps T): proved about at R (C03_Proofs.v, C03_Integral.v), executed at OCaml
   floats against /repo (harness/c03.py).

   modelled code                                                   model
   covmodel/tools.py  _init_subclass (derivation of the missing     eval / derive (method dispatch with fuel,
        ones of cor / correlation / covariance / variogram)             the four generic bodies)
   covmodel/base.py   vario_axis cov_axis cor_axis                   axis_variant
                      vario_yadrenko cov_yadrenko cor_yadrenko       chord, yadrenko_variant
                      vario_spatial cov_spatial cor_spatial          iso_rad, spatial_variant
                      vario_nugget cov_nugget, sill                  vario_nugget, cov_nugget, sill
                      len_rescaled, integral_scale setter            len_rescaled, set_integral_scale
   covmodel/tools.py  percentile_scale (curve), default_arg_from_bounds
   covmodel/models.py cor of the 13 classes, calc_integral_scale closed forms, default_rescale
   covmodel/tpl_models.py  var_factor, correlation of TPLGaussian/TPLExponential/TPLStable, TPLSimple.cor
   tools/special.py   tplstable_cor (exp_int itself is an oracle: the same Python function)

   Special functions are [noracle O code args]; numpy's element-wise masks are modelled on one lag. *)
From Coq Require Import ZArith List Bool.
From GS Require Import Num Loops.
Import ListNotations.

Section Model.
Context {T : Type} (O : NumOps T).

Local Notation "a +! b" := (nadd O a b) (at level 50, left associativity).
Local Notation "a -! b" := (nsub O a b) (at level 50, left associativity).
Local Notation "a *! b" := (nmul O a b) (at level 40, left associativity).
Local Notation "a /! b" := (ndiv O a b) (at level 40, left associativity).
Local Notation zero := (n0 O).
Local Notation one := (n1 O).
Definition lit (p : Z) (k : nat) : T := nlit O p k.
Definition two : T := nlit O 2 0.
Definition half : T := nlit O 5 1.

(* ---------- numpy scalar helpers *)
(* np.minimum(a, b) = (a < b or isnan a) ? a : b      np.maximum(a, b) = (a >= b or isnan a) ? a : b *)
Definition nmin (a b : T) : T := if nisnan O a then a else if nltb O a b then a else b.
Definition nmax (a b : T) : T := if nisnan O a then a else if nleb O b a then a else b.
Definition nsq (x : T) : T := x *! x.                       (* x ** 2 on arrays is np.square *)
Definition powz (x : T) (n : Z) : T := npow O x (nofZ O n). (* x ** n, integer literal n > 2: pow *)
(* np.isclose(a, 0) with the default rtol = 1e-5, atol = 1e-8:  |a - 0| <= atol + rtol * |0| *)
Definition atol : T := nlit O 1 8.
Definition rtol : T := nlit O 1 5.
Definition isclose (a b : T) : bool := nleb O (nabs O (a -! b)) (atol +! rtol *! nabs O b).
Definition isclose0 (a : T) : bool := isclose a zero.
(* np.isfinite x  <->  x - x = 0  (inf - inf and nan - nan are nan) *)
Definition isfinite (x : T) : bool := neqb O (x -! x) zero.

(* ---------- covmodel/tools.py _init_subclass : which methods the class body defines, and the generic
   bodies installed for the missing ones.  Calls go through the object ([self.covariance(r)] ...), i.e.
   through this very dispatch; [fuel] bounds the call depth (4 suffices unless the class is abstract). *)
Inductive fn := Cor | Correlation | Covariance | Variogram.
Record defined := mkDef { d_cor : bool; d_correlation : bool; d_covariance : bool; d_variogram : bool }.
Record userfns := mkUser { u_cor : T -> T; u_correlation : T -> T; u_covariance : T -> T; u_variogram : T -> T }.

(* the class is rejected (TypeError) when none of the four is provided *)
Definition abstract (d : defined) : bool :=
  negb (d_cor d || d_correlation d || d_covariance d || d_variogram d).

Section Derive.
  Variables (d : defined) (u : userfns) (var nugget lr : T).   (* lr = len_rescaled *)
  Fixpoint eval (fuel : nat) (f : fn) (x : T) : option T :=
    match fuel with
    | 0%nat => None
    | S k =>
      match f with
      | Variogram =>
          if d_variogram d then Some (u_variogram u x)
          else (* self.var - self.covariance(r) + self.nugget *)
            option_map (fun c => var -! c +! nugget) (eval k Covariance x)
      | Covariance =>
          if d_covariance d then Some (u_covariance u x)
          else (* self.var * self.correlation(r) *)
            option_map (fun c => var *! c) (eval k Correlation x)
      | Correlation =>
          if d_correlation d then Some (u_correlation u x)
          else if d_cor d then (* correlation_from_cor: self.cor(abs(r) / self.len_rescaled) *)
            Some (u_cor u (nabs O x /! lr))
          else (* 1.0 - (self.variogram(r) - self.nugget) / self.var *)
            option_map (fun g => one -! (g -! nugget) /! var) (eval k Variogram x)
      | Cor =>
          if d_cor d then Some (u_cor u x)
          else (* cor_from_correlation: self.correlation(abs(h) * self.len_rescaled) *)
            eval k Correlation (nabs O x *! lr)
      end
    end.
  (* the class as Python sees it: None = TypeError at class creation *)
  Definition derive (f : fn) (x : T) : option T := if abstract d then None else eval 4 f x.
End Derive.

(* ---------- the shipped classes define [cor] only: the three derived functions written out *)
Definition len_rescaled (len_scale rescale : T) : T := len_scale /! rescale.
Definition correlation_of (cor : T -> T) (lr : T) (r : T) : T := cor (nabs O r /! lr).
Definition covariance_of (cor : T -> T) (var lr : T) (r : T) : T := var *! correlation_of cor lr r.
Definition variogram_of (cor : T -> T) (var nugget lr : T) (r : T) : T :=
  var -! covariance_of cor var lr r +! nugget.
Definition sill (var nugget : T) : T := var +! nugget.

(* classes that define [correlation] themselves (the TPL family): covariance / variogram from it *)
Definition covariance_from (correlation : T -> T) (var : T) (r : T) : T := var *! correlation r.
Definition variogram_from (correlation : T -> T) (var nugget : T) (r : T) : T :=
  var -! covariance_from correlation var r +! nugget.

(* ---------- covmodel/base.py variants; [f] is any of variogram / covariance / correlation *)
(* f_axis(r, axis): anis is the list of ratios, axis 0 is the main axis *)
Definition axis_variant (f : T -> T) (anis : list T) (axis : nat) (r : T) : T :=
  match axis with
  | 0%nat => f r
  | S k => f (nabs O r /! nth k anis one)
  end.
(* tools/geometric.py great_circle_to_chordal(zeta, geo_scale) *)
Definition chord (geo_scale zeta : T) : T :=
  let diameter := two *! geo_scale in diameter *! nsin O (zeta /! diameter).
Definition yadrenko_variant (f : T -> T) (geo_scale zeta : T) : T := f (chord geo_scale zeta).
(* _get_iso_rad: np.linalg.norm(np.dot(M, pos), axis=0) for one point; M = matrix_isometrize(dim, angles, anis) *)
Definition dotrow (row pos : list T) : T :=
  fold_left (fun acc ab => acc +! fst ab *! snd ab) (combine row pos) zero.
Definition matvec (M : list (list T)) (pos : list T) : list T := map (fun row => dotrow row pos) M.
Definition norm2 (v : list T) : T := nsqrt O (fold_left (fun acc x => acc +! x *! x) v zero).
Definition iso_rad (M : list (list T)) (pos : list T) : T := norm2 (matvec M pos).
Definition spatial_variant (f : T -> T) (M : list (list T)) (pos : list T) : T := f (iso_rad M pos).
(* matrix_isometrize in 2D written out: diag(1, 1/anis) . rotation by -angle *)
Definition isometrize2 (angle anis : T) : list (list T) :=
  [ [ ncos O angle ; nsin O angle ] ; [ nneg O (nsin O angle) /! anis ; ncos O angle /! anis ] ].
(* vario_nugget / cov_nugget on one lag *)
Definition vario_nugget (vario : T -> T) (r : T) : T :=
  let a := nabs O r in if isclose0 a then zero else vario a.
Definition cov_nugget (cov : T -> T) (var nugget : T) (r : T) : T :=
  let a := nabs O r in if isclose0 a then sill var nugget else cov a.

(* ---------- covmodel/models.py : normalised correlation functions *)
Definition cor_gaussian (h : T) : T := nexp O (nneg O (nsq h)).
Definition cor_exponential (h : T) : T := nexp O (nneg O h).
Definition cor_stable (alpha h : T) : T := nexp O (nneg O (npow O h alpha)).
Definition cor_rational (alpha h : T) : T := npow O (one +! nsq h /! alpha) (nneg O alpha).
Definition cor_cubic (h : T) : T :=
  let h := nmin (nabs O h) one in
  one -! lit 7 0 *! nsq h +! lit 875 2 *! powz h 3 -! lit 35 1 *! powz h 5 +! lit 75 2 *! powz h 7.
Definition cor_linear (h : T) : T := nmax (one -! nabs O h) zero.
Definition cor_circular (h : T) : T :=
  let h := nabs O h in
  if nltb O h one then two /! npi O *! (nacos O h -! h *! nsqrt O (one -! nsq h)) else zero.
Definition cor_spherical (h : T) : T :=
  let h := nmin (nabs O h) one in one -! lit 15 1 *! h +! half *! powz h 3.
Definition cor_tplsimple (nu h : T) : T := npow O (nmax (one -! nabs O h) zero) nu.

(* special-function classes *)
Definition cor_matern (nu h : T) : T :=
  let h := nabs O h in
  if nltb O (lit 20 0) nu then nexp O (nneg O (nsq (h /! two)))
  else if nltb O zero h then
    let x := nsqrt O nu *! h in
    let v := nexp O ((one -! nu) *! nln O two -! noracle O ORA_LOGGAMMA [nu] +! nu *! nln O x)
             *! noracle O ORA_KV [nu; x] in
    (* non-finite products: kv overflows next to the origin (limit 1), the power overflows in the far field (limit 0) *)
    let v := if isfinite v then v else if nltb O h one then one else zero in
    nmax v zero
  else nmax one zero.
Definition cor_integral (nu h : T) : T :=
  half *! nu *! noracle O ORA_EXPN [one +! half *! nu; nsq h].
Definition cor_superspherical (nu h : T) : T :=
  if nltb O h one then
    let fac := one /! noracle O ORA_HYP2F1 [half; nneg O nu; lit 15 1; one] in
    one -! h *! fac *! noracle O ORA_HYP2F1 [half; nneg O nu; lit 15 1; nsq h]
  else zero.
Definition cor_hyperspherical (dim : Z) (h : T) : T :=
  cor_superspherical ((nofZ O dim -! one) /! two) h.
Definition cor_jbessel (nu h : T) : T :=
  if nltb O (nabs O h) (lit 1 3) then
    (* power series next to the origin: 1 - x/(nu+1) * (1 - x/(2 nu + 4)), x = (h/2)^2 *)
    let x := nsq (h /! two) in
    one -! x /! (nu +! one) *! (one -! x /! (two *! nu +! lit 4 0))
  else noracle O ORA_GAMMA [nu +! one] *! noracle O ORA_JV [nu; h] /! npow O (h /! two) nu.

(* ---------- tools/special.py tplstable_cor and the TPL classes *)
Definition tplstable_cor (r len_scale hurst alpha : T) : T :=
  let r := nabs O (r /! len_scale) in
  if nltb O zero r then
    two *! hurst /! alpha *! noracle O ORA_EXPN [one +! two *! hurst /! alpha; npow O r alpha]
  else one.
(* TPLCovModel.var_factor *)
Definition tpl_var_factor (len_scale rescale len_low hurst : T) : T :=
  let lu := (len_low +! len_scale) /! rescale in
  let ll := len_low /! rescale in
  (npow O lu (two *! hurst) -! npow O ll (two *! hurst)) /! (two *! hurst).
(* TPLGaussian (alpha = 2), TPLExponential (alpha = 1), TPLStable .correlation *)
Definition tpl_correlation (len_scale rescale len_low hurst alpha r : T) : T :=
  let lu := (len_low +! len_scale) /! rescale in
  let ll := len_low /! rescale in
  if neqb O ll zero then tplstable_cor r (len_scale /! rescale) hurst alpha
  else (npow O lu (two *! hurst) *! tplstable_cor r lu hurst alpha
        -! npow O ll (two *! hurst) *! tplstable_cor r ll hurst alpha)
       /! (npow O lu (two *! hurst) -! npow O ll (two *! hurst)).
(* their .cor *)
Definition tpl_cor (hurst alpha h : T) : T := tplstable_cor h one hurst alpha.

(* ---------- calc_integral_scale closed forms (argument: len_rescaled) and default_rescale *)
Definition intscale_gaussian (lr : T) : T := lr *! nsqrt O (npi O) /! two.
Definition intscale_exponential (lr : T) : T := lr.
Definition intscale_stable (alpha lr : T) : T := lr *! noracle O ORA_GAMMA [one +! one /! alpha].
Definition intscale_matern (nu lr : T) : T := lr *! npi O /! nsqrt O nu /! noracle O ORA_BETA [nu; half].
Definition intscale_integral (nu lr : T) : T := lr *! nu *! nsqrt O (npi O) /! (two *! nu +! two).
Definition intscale_rational (alpha lr : T) : T :=
  lr *! nsqrt O (npi O *! alpha) *! noracle O ORA_GAMMA [alpha -! half] /! noracle O ORA_GAMMA [alpha] /! two.
Definition rescale_gaussian : T := nsqrt O (npi O) /! two.

(* integral_scale setter: [calc len_scale] is calc_integral_scale of the object with that len_scale.
   len_scale := 1; int_tmp := calc; len_scale := integral_scale / int_tmp;
   then the result is accepted iff isclose(calc, integral_scale, rtol = 1e-3) *)
Definition set_integral_scale (calc : T -> T) (target : T) : option T :=
  let int_tmp := calc one in
  let len := target /! int_tmp in
  if nleb O (nabs O (calc len -! target)) (atol +! lit 1 3 *! nabs O target) then Some len else None.

(* percentile_scale: the function handed to scipy.optimize.root and the admissibility test *)
Definition percentile_curve (correlation : T -> T) (per x : T) : T := one -! correlation x -! per.
Definition percentile_ok (per : T) : bool := nltb O zero per && nltb O per one.

(* default_arg_from_bounds; None = infinite bound *)
Definition default_arg_from_bounds (lo hi : option T) : T :=
  match lo, hi with
  | Some a, Some b => (a +! b) /! two
  | Some a, None => a +! one
  | None, Some b => b -! one
  | None, None => zero
  end.

(* ---------- user classes used by the correspondence: the same Gaussian-shaped model given through
   each of the four methods (the Python classes in harness/c03.py have exactly these bodies) *)
Definition user_gauss (var nugget lr : T) : userfns :=
  mkUser cor_gaussian
         (fun r => nexp O (nneg O (nsq (r /! lr))))
         (fun r => var *! nexp O (nneg O (nsq (r /! lr))))
         (fun r => var *! (one -! nexp O (nneg O (nsq (r /! lr)))) +! nugget).
Definition user_expo (var nugget lr : T) : userfns :=
  mkUser cor_exponential
         (fun r => nexp O (nneg O (nabs O r /! lr)))
         (fun r => var *! nexp O (nneg O (nabs O r /! lr)))
         (fun r => var *! (one -! nexp O (nneg O (nabs O r /! lr))) +! nugget).

(* ---------- class table (driver entry points): class code, up to three optional arguments, dimension.
   0 Gaussian 1 Exponential 2 Matern(nu) 3 Integral(nu) 4 Stable(alpha) 5 Rational(alpha) 6 Cubic 7 Linear
   8 Circular 9 Spherical 10 HyperSpherical 11 SuperSpherical(nu) 12 JBessel(nu)
   13 TPLGaussian(hurst, -, len_low) 14 TPLExponential(hurst, -, len_low) 15 TPLStable(hurst, alpha, len_low)
   16 TPLSimple(nu) *)
Definition is_tpl (cls : Z) : bool := (Z.leb 13 cls && Z.leb cls 15)%bool.
Definition tpl_alpha (cls : Z) (p2 : T) : T :=
  if Z.eqb cls 13 then two else if Z.eqb cls 14 then one else p2.
Definition cor_of (cls : Z) (p1 p2 : T) (dim : Z) (h : T) : T :=
  match cls with
  | 0%Z => cor_gaussian h | 1%Z => cor_exponential h | 2%Z => cor_matern p1 h | 3%Z => cor_integral p1 h
  | 4%Z => cor_stable p1 h | 5%Z => cor_rational p1 h | 6%Z => cor_cubic h | 7%Z => cor_linear h
  | 8%Z => cor_circular h | 9%Z => cor_spherical h | 10%Z => cor_hyperspherical dim h
  | 11%Z => cor_superspherical p1 h | 12%Z => cor_jbessel p1 h
  | 13%Z | 14%Z | 15%Z => tpl_cor p1 (tpl_alpha cls p2) h
  | _ => cor_tplsimple p1 h
  end.
(* the class as _init_subclass completes it, evaluated through the dispatch *)
Definition class_fn (cls : Z) (p1 p2 p3 : T) (dim : Z) (var len_scale nugget rescale : T) (f : fn) (x : T) : option T :=
  let lr := len_rescaled len_scale rescale in
  let d := mkDef true (is_tpl cls) false false in
  let u := mkUser (cor_of cls p1 p2 dim)
                  (tpl_correlation len_scale rescale p3 p1 (tpl_alpha cls p2))
                  (fun _ => zero) (fun _ => zero) in
  derive d u var nugget lr f x.
Definition get (o : option T) : T := match o with Some v => v | None => zero end.
Definition class_get cls p1 p2 p3 dim var len nug resc f x : T := get (class_fn cls p1 p2 p3 dim var len nug resc f x).
Definition intscale_of (cls : Z) (p1 lr : T) : option T :=
  match cls with
  | 0%Z => Some (intscale_gaussian lr) | 1%Z => Some (intscale_exponential lr) | 2%Z => Some (intscale_matern p1 lr)
  | 3%Z => Some (intscale_integral p1 lr) | 4%Z => Some (intscale_stable p1 lr) | 5%Z => Some (intscale_rational p1 lr)
  | _ => None
  end.
Definition set_intscale_of (cls : Z) (p1 rescale target : T) : option T :=
  match intscale_of cls p1 one with
  | None => None
  | Some _ => set_integral_scale (fun len => get (intscale_of cls p1 (len_rescaled len rescale))) target
  end.
(* hole-effect shapes (negative lobes): wave sin(h)/h (valid in 3D; the Python class fixes dim = 3) and the damped
   cosine exp(-a h) cos(h) with an optional argument a *)
Definition cor_wave (h : T) : T := if neqb O h zero then one else nsin O h /! h.
Definition cor_dampcos (a h : T) : T := nexp O (nneg O (a *! h)) *! ncos O h.
Definition user_from_cor (c : T -> T) (var nugget lr : T) : userfns :=
  mkUser c
         (fun r => c (nabs O r /! lr))
         (fun r => var *! c (nabs O r /! lr))
         (fun r => var *! (one -! c (nabs O r /! lr)) +! nugget).
Definition user_of (shape : Z) (a var nugget lr : T) : userfns :=
  if Z.eqb shape 0 then user_gauss var nugget lr
  else if Z.eqb shape 1 then user_expo var nugget lr
  else if Z.eqb shape 2 then user_from_cor cor_wave var nugget lr
  else user_from_cor (cor_dampcos a) var nugget lr.

(* ---------- the object as a parameter state: assignments only rewrite parameters, every derived quantity is
   computed from the CURRENT parameters (covmodel/base.py keeps no derived value between calls: the
   integral_scale getter recomputes, len_rescaled / sill / len_scale_vec are properties) *)
Record pstate := mkSt { s_var : T; s_len : T; s_nugget : T; s_rescale : T; s_p1 : T; s_p2 : T; s_p3 : T;
                        s_dim : Z; s_anis : list T }.
Inductive setop :=
  | SetVar (v : T) | SetLen (v : T) | SetNugget (v : T) | SetRescale (v : T)
  | SetOpt (slot : nat) (v : T) | SetDim (d : Z) | SetAnis (a : list T) | SetIntScale (target : T).
Definition construct (var len nug resc p1 p2 p3 : T) (dim : Z) (anis : list T) : pstate :=
  mkSt var len nug resc p1 p2 p3 dim anis.
Definition set_step (cls : Z) (st : pstate) (op : setop) : pstate :=
  match st with
  | mkSt var len nug resc p1 p2 p3 dim anis =>
    match op with
    | SetVar v => mkSt v len nug resc p1 p2 p3 dim anis
    | SetLen v => mkSt var v nug resc p1 p2 p3 dim anis
    | SetNugget v => mkSt var len v resc p1 p2 p3 dim anis
    | SetRescale v => mkSt var len nug (nabs O v) p1 p2 p3 dim anis
    | SetOpt 0%nat v => mkSt var len nug resc v p2 p3 dim anis
    | SetOpt 1%nat v => mkSt var len nug resc p1 v p3 dim anis
    | SetOpt _ v => mkSt var len nug resc p1 p2 v dim anis
    | SetDim d => mkSt var len nug resc p1 p2 p3 d anis
    | SetAnis a => mkSt var len nug resc p1 p2 p3 dim a
    | SetIntScale target =>
        match set_intscale_of cls p1 resc target with
        | Some l => mkSt var l nug resc p1 p2 p3 dim anis
        | None => st
        end
    end
  end.
Definition run_ops (cls : Z) (ops : list setop) (st : pstate) : pstate := fold_left (set_step cls) ops st.
(* what a caller can read: the three functions at a lag, sill, len_rescaled, len_scale_vec, integral scale *)
Record observed := mkObs { o_corr : T; o_cov : T; o_vario : T; o_sill : T; o_lr : T; o_lenvec : list T;
                           o_intscale : option T }.
Definition observe (cls : Z) (st : pstate) (r : T) : observed :=
  let f := class_get cls (s_p1 st) (s_p2 st) (s_p3 st) (s_dim st) (s_var st) (s_len st) (s_nugget st) (s_rescale st) in
  mkObs (f Correlation r) (f Covariance r) (f Variogram r) (sill (s_var st) (s_nugget st))
        (len_rescaled (s_len st) (s_rescale st)) (s_len st :: map (fun a => s_len st *! a) (s_anis st))
        (intscale_of cls (s_p1 st) (len_rescaled (s_len st) (s_rescale st))).

End Model.
