(* C03_Integral.v — the integral scale is the integral of the correlation over all lags (Coquelicot
   improper Riemann integral from 0 to +infinity), for Exponential (closed form reported by the class),
   Linear, Spherical, Cubic and TPLSimple with integral shape parameter (classes that report the
   quadrature of their correlation: the theorem gives the value the quadrature approximates). *)
From Coq Require Import Reals Lra Lia ZArith List Bool Psatz.
From Coquelicot Require Import Coquelicot.
From GS Require Import Num Loops RInst C03_Model C03_RInst C03_Proofs C03_Closed.
Import ListNotations.
Open Scope R_scope.

(* an improper integral from its proper ones *)
Lemma RInt_gen_from_primitive (f F : R -> R) (b0 L : R) :
  (forall b, b0 < b -> is_RInt f 0 b (F b)) ->
  is_lim F p_infty L ->
  is_RInt_gen f (at_point 0) (Rbar_locally p_infty) L.
Proof.
  intros HI HL P HP.
  assert (HF : Rbar_locally p_infty (fun b => P (F b))) by (apply HL; exact HP).
  assert (HB : Rbar_locally p_infty (fun b => b0 < b)) by (exists b0; auto).
  exists (fun x => x = 0) (fun b => b0 < b /\ P (F b)).
  - reflexivity.
  - apply filter_and; assumption.
  - intros x y -> [Hy HPy]. simpl. exists (F y). split; [apply HI; exact Hy|exact HPy].
Qed.

Lemma cancel_l (a y : R) : a <> 0 -> a * (/ a * y) = y.
Proof. intros. field. assumption. Qed.

Section Integral.
Variable ora : nat -> list R -> R.
Notation OR := (Rops3 ora).

(* ---------- Exponential *)
Lemma is_RInt_exp_decay lr b : 0 < lr -> 0 <= b ->
  is_RInt (fun r => exp (- (r / lr))) 0 b (lr - lr * exp (- (b / lr))).
Proof.
  intros Hl Hb.
  evar_last.
  apply (is_RInt_derive (fun r => - lr * exp (- (r / lr))) (fun r => exp (- (r / lr)))).
  - intros x _. auto_derive; [exact I|]. unfold Rdiv. field. lra.
  - intros x _. apply (ex_derive_continuous (fun r => exp (- (r / lr)))). auto_derive. exact I.
  - unfold minus, plus, opp; simpl. unfold Rdiv. rewrite Rmult_0_l, Ropp_0, exp_0. ring.
Qed.

Lemma integral_scale_exponential len resc :
  0 < len -> 0 < resc ->
  let lr := len_rescaled OR len resc in
  is_RInt_gen (correlation_of OR (cor_exponential OR) lr) (at_point 0) (Rbar_locally p_infty)
              (intscale_exponential lr).
Proof.
  intros Hl Hs lr. unfold intscale_exponential.
  assert (Hlr : 0 < lr). { unfold lr, len_rescaled. rsimp. apply Rmult_lt_0_compat; [lra|apply Rinv_0_lt_compat; lra]. }
  apply (RInt_gen_from_primitive _ (fun b => lr - lr * exp (- (b / lr))) 0).
  - intros b Hb. apply (is_RInt_ext (fun r => exp (- (r / lr)))).
    + intros x Hx. rewrite Rmin_left, Rmax_right in Hx by lra.
      unfold correlation_of, cor_exponential. rsimp. rewrite (Rabs_pos_eq x) by lra. reflexivity.
    + apply is_RInt_exp_decay; lra.
  - assert (Hinv : 0 < / lr) by (apply Rinv_0_lt_compat; lra).
    assert (E0 : is_lim (fun b => exp (- (b / lr))) p_infty 0).
    { apply is_lim_comp with m_infty.
      - apply is_lim_exp_m.
      - apply (is_lim_ext (fun b => (- / lr) * b)). { intros y. field. lra. }
        evar_last. apply is_lim_scal_l. apply is_lim_id.
        simpl. destruct (Rle_dec 0 (- / lr)) as [H|H]; [exfalso; lra|]. reflexivity.
      - exists 0. intros x _ E. discriminate E. }
    assert (E1 : is_lim (fun b => lr * exp (- (b / lr))) p_infty (lr * 0)).
    { apply (is_lim_scal_l (fun b => exp (- (b / lr))) lr p_infty (Finite 0)). exact E0. }
    replace lr with (lr - lr * 0) at 1 by ring.
    apply (is_lim_minus' (fun _ => lr) (fun b => lr * exp (- (b / lr))) p_infty lr (lr * 0)).
    + apply is_lim_const.
    + exact E1.
Qed.

(* ---------- compactly supported models: c = P on [0,1), 0 beyond; Q' = P on [0,1] *)
Lemma integral_scale_compact (c P : R -> R) (J : R) len resc :
  0 < len -> 0 < resc ->
  (forall h, 0 <= h < 1 -> c h = P h) -> (forall h, 1 <= h -> c h = 0) ->
  is_RInt P 0 1 J ->
  let lr := len_rescaled OR len resc in
  is_RInt_gen (correlation_of OR c lr) (at_point 0) (Rbar_locally p_infty) (lr * J).
Proof.
  intros Hl Hs HP H0 HJ lr.
  assert (Hlr : 0 < lr). { unfold lr, len_rescaled. rsimp. apply Rmult_lt_0_compat; [lra|apply Rinv_0_lt_compat; lra]. }
  apply (RInt_gen_from_primitive _ (fun _ => lr * J) lr); [|apply is_lim_const].
  intros b Hb.
  replace (lr * J) with (plus (lr * J) 0) by (unfold plus; simpl; ring).
  apply (is_RInt_Chasles (V:=R_NormedModule) _ 0 lr b (lr * J) 0).
  - (* [0, lr] : substitution h = r / lr *)
    apply (is_RInt_ext (fun r => lr * (/ lr * P (/ lr * r + 0)))).
    + intros x Hx. rewrite Rmin_left, Rmax_right in Hx by lra.
      unfold correlation_of. rsimp. rewrite (Rabs_pos_eq x) by lra. rewrite HP.
      * replace (/ lr * x + 0) with (x / lr) by (field; lra). apply cancel_l. lra.
      * split; [apply Rmult_le_pos; [lra|left; apply Rinv_0_lt_compat; lra]|].
        apply Rmult_lt_reg_r with lr; [lra|]. replace (x / lr * lr) with x by (field; lra). lra.
    + apply (is_RInt_scal (fun r => / lr * P (/ lr * r + 0)) 0 lr lr J).
      apply (is_RInt_comp_lin P (/ lr) 0 0 lr J).
      replace (/ lr * 0 + 0) with 0 by ring. replace (/ lr * lr + 0) with 1 by (field; lra). exact HJ.
  - (* [lr, b] : zero *)
    apply (is_RInt_ext (fun _ => 0)).
    + intros x Hx. rewrite Rmin_left, Rmax_right in Hx by lra.
      unfold correlation_of. rsimp. rewrite (Rabs_pos_eq x) by lra. symmetry. apply H0.
      apply Rmult_le_reg_r with lr; [lra|]. replace (x / lr * lr) with x by (field; lra). lra.
    + evar_last. apply (is_RInt_const (V:=R_NormedModule) lr b 0).
      unfold scal; simpl; unfold mult; simpl. apply Rmult_0_r.
Qed.

(* polynomial pieces: value of the integral over [0,1] from an explicit antiderivative *)
Lemma RInt_linear : is_RInt (fun h => 1 - h) 0 1 (/ 2).
Proof.
  replace (/ 2) with (minus ((fun h => h - h ^ 2 / 2) 1) ((fun h => h - h ^ 2 / 2) 0)) by (unfold minus, plus, opp; simpl; field).
  apply (is_RInt_derive (fun h => h - h ^ 2 / 2) (fun h => 1 - h)).
  - intros x _. auto_derive; [exact I|]. field.
  - intros x _. apply (ex_derive_continuous (fun h => 1 - h)). auto_derive. exact I.
Qed.

Lemma RInt_spherical : is_RInt (fun h => 1 - 3 / 2 * h + 1 / 2 * h ^ 3) 0 1 (3 / 8).
Proof.
  replace (3 / 8) with (minus ((fun h => h - 3 / 4 * h ^ 2 + 1 / 8 * h ^ 4) 1) ((fun h => h - 3 / 4 * h ^ 2 + 1 / 8 * h ^ 4) 0))
    by (unfold minus, plus, opp; simpl; field).
  apply (is_RInt_derive (fun h => h - 3 / 4 * h ^ 2 + 1 / 8 * h ^ 4) (fun h => 1 - 3 / 2 * h + 1 / 2 * h ^ 3)).
  - intros x _. auto_derive; [exact I|]. field.
  - intros x _. apply (ex_derive_continuous (fun h => 1 - 3 / 2 * h + 1 / 2 * h ^ 3)). auto_derive. exact I.
Qed.

Lemma RInt_cubic :
  is_RInt (fun h => 1 - 7 * h ^ 2 + 35 / 4 * h ^ 3 - 7 / 2 * h ^ 5 + 3 / 4 * h ^ 7) 0 1 (35 / 96).
Proof.
  set (Q := fun h : R => h - 7 / 3 * h ^ 3 + 35 / 16 * h ^ 4 - 7 / 12 * h ^ 6 + 3 / 32 * h ^ 8).
  replace (35 / 96) with (minus (Q 1) (Q 0)) by (unfold Q, minus, plus, opp; simpl; field).
  apply (is_RInt_derive Q (fun h => 1 - 7 * h ^ 2 + 35 / 4 * h ^ 3 - 7 / 2 * h ^ 5 + 3 / 4 * h ^ 7)).
  - intros x _. unfold Q. auto_derive; [exact I|]. field.
  - intros x _. apply (ex_derive_continuous (fun h => 1 - 7 * h ^ 2 + 35 / 4 * h ^ 3 - 7 / 2 * h ^ 5 + 3 / 4 * h ^ 7)). auto_derive. exact I.
Qed.

Lemma RInt_tplsimple (n : nat) : is_RInt (fun h => (1 - h) ^ n) 0 1 (/ INR (S n)).
Proof.
  set (Q := fun h : R => - ((1 - h) ^ S n) / INR (S n)).
  assert (Hn : INR (S n) <> 0) by (apply not_0_INR; lia).
  replace (/ INR (S n)) with (minus (Q 1) (Q 0)).
  2:{ unfold Q, minus, plus, opp; simpl. rewrite Rminus_0_r, Rminus_diag_eq by reflexivity.
      rewrite pow1, Rmult_0_l. field. destruct n; [simpl; lra|]. exact Hn. }
  apply (is_RInt_derive Q (fun h => (1 - h) ^ n)).
  - intros x _. unfold Q. auto_derive; [exact I|]. change (match n with 0%nat => 1 | S _ => INR n + 1 end) with (INR (S n)). unfold Rminus. field. exact Hn.
  - intros x _. apply (ex_derive_continuous (fun h => (1 - h) ^ n)). auto_derive. exact I.
Qed.

Section Scales.
Variables (len resc : R).
Hypotheses (Hl : 0 < len) (Hs : 0 < resc).
Let lr := len_rescaled OR len resc.

Lemma integral_scale_linear :
  is_RInt_gen (correlation_of OR (cor_linear OR) lr) (at_point 0) (Rbar_locally p_infty) (lr * / 2).
Proof.
  apply (integral_scale_compact (cor_linear OR) (fun h => 1 - h) (/ 2) len resc Hl Hs).
  - intros h [H0 H1]. rewrite cor_linear_doc by lra. unfold doc_linear. destruct (Rlt_dec h 1); lra.
  - intros h H1. rewrite cor_linear_doc by lra. unfold doc_linear. destruct (Rlt_dec h 1); lra.
  - exact RInt_linear.
Qed.

Lemma integral_scale_spherical :
  is_RInt_gen (correlation_of OR (cor_spherical OR) lr) (at_point 0) (Rbar_locally p_infty) (lr * (3 / 8)).
Proof.
  apply (integral_scale_compact (cor_spherical OR) (fun h => 1 - 3 / 2 * h + 1 / 2 * h ^ 3) (3 / 8) len resc Hl Hs).
  - intros h [H0 H1]. rewrite cor_spherical_doc by lra. unfold doc_spherical. destruct (Rlt_dec h 1); lra.
  - intros h H1. rewrite cor_spherical_doc by lra. unfold doc_spherical. destruct (Rlt_dec h 1); lra.
  - exact RInt_spherical.
Qed.

Lemma integral_scale_cubic :
  is_RInt_gen (correlation_of OR (cor_cubic OR) lr) (at_point 0) (Rbar_locally p_infty) (lr * (35 / 96)).
Proof.
  apply (integral_scale_compact (cor_cubic OR) (fun h => 1 - 7 * h ^ 2 + 35 / 4 * h ^ 3 - 7 / 2 * h ^ 5 + 3 / 4 * h ^ 7) (35 / 96) len resc Hl Hs).
  - intros h [H0 H1]. rewrite cor_cubic_doc by lra. unfold doc_cubic. destruct (Rlt_dec h 1); lra.
  - intros h H1. rewrite cor_cubic_doc by lra. unfold doc_cubic. destruct (Rlt_dec h 1); lra.
  - exact RInt_cubic.
Qed.

(* TPLSimple with an integral shape parameter nu = n >= 1 (the defaults (dim+1)/2 for dim = 1, 3) *)
Lemma integral_scale_tplsimple (n : nat) : (1 <= n)%nat ->
  is_RInt_gen (correlation_of OR (cor_tplsimple OR (IZR (Z.of_nat n))) lr) (at_point 0) (Rbar_locally p_infty)
              (lr * / (IZR (Z.of_nat n) + 1)).
Proof.
  intros Hn.
  replace (IZR (Z.of_nat n) + 1) with (INR (S n)) by (rewrite S_INR, INR_IZR_INZ; reflexivity).
  apply (integral_scale_compact (cor_tplsimple OR (IZR (Z.of_nat n))) (fun h => (1 - h) ^ n) (/ INR (S n)) len resc Hl Hs).
  - intros h [H0 H1]. unfold cor_tplsimple. rewrite nmax_R. rsimp. rewrite (Rabs_pos_eq h) by lra.
    destruct (Rle_dec 0 (1 - h)); [|lra]. apply Rpow0_nat.
  - intros h H1. unfold cor_tplsimple. rewrite nmax_R. rsimp. rewrite (Rabs_pos_eq h) by lra.
    destruct (Rle_dec 0 (1 - h)).
    + replace (1 - h) with 0 by lra. rewrite Rpow0_nat. apply pow_i. lia.
    + rewrite Rpow0_nat. apply pow_i. lia.
  - exact (RInt_tplsimple n).
Qed.
End Scales.

End Integral.
