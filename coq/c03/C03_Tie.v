(* C03_Tie.v — the hand model of C03 equals the formulas translated from the SOURCE on every run
   (coq/gen/Formulas_gen.v, tools/py2coq.py).  Generic ties (every number type) are syntactic; the others are
   proved at the real instance: the translation writes [x ** 2] as [npow x 2] where the model has [x * x]
   (numpy squares), uses the one-comparison [fmin]/[fmax] where the model has numpy's NaN-aware rule, and keeps
   JBessel's two masked assignments where the model has one if-then-else.  No side condition is needed at R
   (no NaN there; the orientation of min/max does not matter for equal arguments). *)
From Coq Require Import Reals Lra Lia ZArith List Bool FunctionalExtensionality.
From GS Require Import Num Loops Formulas Formulas_gen RInst C03_Model C03_RInst C03_Proofs C03_Closed.
Import ListNotations.
Open Scope R_scope.

(* ================================================================ every number type *)
Section GenericTie.
Context {T : Type} (O : NumOps T).

Lemma Exponential_cor_tie h : Formulas_gen.Exponential_cor O h = cor_exponential O h.
Proof. reflexivity. Qed.
Lemma Stable_cor_tie alpha h : Formulas_gen.Stable_cor O alpha h = cor_stable O alpha h.
Proof. reflexivity. Qed.
Lemma tplstable_cor_tie r len hurst alpha :
  Formulas_gen.tplstable_cor O r len hurst alpha = C03_Model.tplstable_cor O r len hurst alpha.
Proof. reflexivity. Qed.
(* the TPL classes: the source reads the properties len_low_rescaled, len_rescaled, len_up_rescaled *)
Lemma TPLStable_correlation_tie len resc len_low hurst alpha r :
  Formulas_gen.TPLStable_correlation O (ndiv O len_low resc) (ndiv O len resc) hurst alpha
      (ndiv O (nadd O len_low len) resc) r
  = tpl_correlation O len resc len_low hurst alpha r.
Proof. reflexivity. Qed.
Lemma TPLGaussian_correlation_tie len resc len_low hurst r :
  Formulas_gen.TPLGaussian_correlation O (ndiv O len_low resc) (ndiv O len resc) hurst
      (ndiv O (nadd O len_low len) resc) r
  = tpl_correlation O len resc len_low hurst (tpl_alpha O 13 (n0 O)) r.
Proof. reflexivity. Qed.
Lemma TPLExponential_correlation_tie len resc len_low hurst r :
  Formulas_gen.TPLExponential_correlation O (ndiv O len_low resc) (ndiv O len resc) hurst
      (ndiv O (nadd O len_low len) resc) r
  = tpl_correlation O len resc len_low hurst (tpl_alpha O 14 (n0 O)) r.
Proof. reflexivity. Qed.
(* closed-form integral scales and the Gaussian rescale factor *)
Lemma Gaussian_calc_integral_scale_tie lr : Formulas_gen.Gaussian_calc_integral_scale O lr = intscale_gaussian O lr.
Proof. reflexivity. Qed.
Lemma Exponential_calc_integral_scale_tie lr : @Formulas_gen.Exponential_calc_integral_scale T lr = intscale_exponential lr.
Proof. reflexivity. Qed.
Lemma Stable_calc_integral_scale_tie lr alpha : Formulas_gen.Stable_calc_integral_scale O lr alpha = intscale_stable O alpha lr.
Proof. reflexivity. Qed.
Lemma Matern_calc_integral_scale_tie lr nu : Formulas_gen.Matern_calc_integral_scale O lr nu = intscale_matern O nu lr.
Proof. reflexivity. Qed.
Lemma Integral_calc_integral_scale_tie lr nu : Formulas_gen.Integral_calc_integral_scale O lr nu = intscale_integral O nu lr.
Proof. reflexivity. Qed.
Lemma Rational_calc_integral_scale_tie lr alpha : Formulas_gen.Rational_calc_integral_scale O lr alpha = intscale_rational O alpha lr.
Proof. reflexivity. Qed.
Lemma Gaussian_default_rescale_tie : Formulas_gen.Gaussian_default_rescale O = rescale_gaussian O.
Proof. reflexivity. Qed.
Lemma great_circle_to_chordal_tie zeta geo : Formulas_gen.great_circle_to_chordal O zeta geo = chord O geo zeta.
Proof. reflexivity. Qed.
End GenericTie.

(* ================================================================ at R *)
Section RTie.
Variable ora : nat -> list R -> R.
Notation OR := (Rops3 ora).

Lemma npow2_R x : npow OR x (nlit OR 2 0) = x * x.
Proof. rewrite nlit0_R. rsimp. rewrite Rpow0_IZR. simpl. ring. Qed.
Lemma fmin_R a b : fmin OR a b = nmin OR a b.
Proof.
  unfold fmin. rewrite nmin_R. rsimp. unfold Rltb.
  destruct (Rlt_dec b a), (Rlt_dec a b); try reflexivity; lra.
Qed.
Lemma fmax_R a b : fmax OR a b = nmax OR a b.
Proof.
  unfold fmax. rewrite nmax_R. rsimp. unfold Rltb.
  destruct (Rlt_dec a b), (Rle_dec b a); try reflexivity; lra.
Qed.

Lemma Gaussian_cor_tie h : Formulas_gen.Gaussian_cor OR h = cor_gaussian OR h.
Proof. unfold Formulas_gen.Gaussian_cor, cor_gaussian, nsq. rewrite npow2_R. reflexivity. Qed.

Lemma Rational_cor_tie alpha h : Formulas_gen.Rational_cor OR alpha h = cor_rational OR alpha h.
Proof. unfold Formulas_gen.Rational_cor, cor_rational, nsq. rewrite npow2_R. reflexivity. Qed.

Lemma Integral_cor_tie nu h : Formulas_gen.Integral_cor OR nu h = cor_integral OR nu h.
Proof. unfold Formulas_gen.Integral_cor, cor_integral, nsq, half. rewrite npow2_R. reflexivity. Qed.

Lemma Cubic_cor_tie h : Formulas_gen.Cubic_cor OR h = cor_cubic OR h.
Proof.
  unfold Formulas_gen.Cubic_cor, cor_cubic, nsq, powz, lit. cbv zeta. rewrite fmin_R, npow2_R. reflexivity.
Qed.

Lemma Linear_cor_tie h : Formulas_gen.Linear_cor OR h = cor_linear OR h.
Proof. unfold Formulas_gen.Linear_cor, cor_linear. apply fmax_R. Qed.

Lemma Circular_cor_tie h : Formulas_gen.Circular_cor OR h = cor_circular OR h.
Proof. unfold Formulas_gen.Circular_cor, cor_circular, nsq, two. cbv zeta. rewrite npow2_R. reflexivity. Qed.

Lemma Spherical_cor_tie h : Formulas_gen.Spherical_cor OR h = cor_spherical OR h.
Proof. unfold Formulas_gen.Spherical_cor, cor_spherical, powz, lit, half. cbv zeta. rewrite fmin_R. reflexivity. Qed.

Lemma SuperSpherical_cor_tie nu h : Formulas_gen.SuperSpherical_cor OR nu h = cor_superspherical OR nu h.
Proof.
  unfold Formulas_gen.SuperSpherical_cor, cor_superspherical, nsq, half, lit. cbv zeta. rewrite npow2_R. reflexivity.
Qed.

(* the class attribute dim arrives as a number *)
Lemma HyperSpherical_cor_tie (dim : Z) h :
  Formulas_gen.HyperSpherical_cor OR (IZR dim) h = cor_hyperspherical OR dim h.
Proof.
  unfold Formulas_gen.HyperSpherical_cor, cor_hyperspherical, cor_superspherical, nsq, half, lit, two. cbv zeta.
  rewrite npow2_R. reflexivity.
Qed.

Lemma JBessel_cor_tie nu h : Formulas_gen.JBessel_cor OR nu h = cor_jbessel OR nu h.
Proof.
  unfold Formulas_gen.JBessel_cor, cor_jbessel, nsq, lit, two. cbv zeta. rewrite npow2_R.
  destruct (nltb OR (nabs OR h) (nlit OR 1 3)); reflexivity.
Qed.

Lemma TPLSimple_cor_tie nu h : Formulas_gen.TPLSimple_cor OR nu h = cor_tplsimple OR nu h.
Proof. unfold Formulas_gen.TPLSimple_cor, cor_tplsimple. rewrite fmax_R. reflexivity. Qed.

(* as functions (functional extensionality is among the axioms of the real numbers already) *)
Lemma Gaussian_cor_eq : Formulas_gen.Gaussian_cor OR = cor_gaussian OR.
Proof. apply functional_extensionality. apply Gaussian_cor_tie. Qed.
Lemma Cubic_cor_eq : Formulas_gen.Cubic_cor OR = cor_cubic OR.
Proof. apply functional_extensionality. apply Cubic_cor_tie. Qed.
Lemma Linear_cor_eq : Formulas_gen.Linear_cor OR = cor_linear OR.
Proof. apply functional_extensionality. apply Linear_cor_tie. Qed.
Lemma Circular_cor_eq : Formulas_gen.Circular_cor OR = cor_circular OR.
Proof. apply functional_extensionality. apply Circular_cor_tie. Qed.
Lemma Spherical_cor_eq : Formulas_gen.Spherical_cor OR = cor_spherical OR.
Proof. apply functional_extensionality. apply Spherical_cor_tie. Qed.
Lemma Rational_cor_eq a : Formulas_gen.Rational_cor OR a = cor_rational OR a.
Proof. apply functional_extensionality. apply Rational_cor_tie. Qed.
Lemma TPLSimple_cor_eq nu : Formulas_gen.TPLSimple_cor OR nu = cor_tplsimple OR nu.
Proof. apply functional_extensionality. apply TPLSimple_cor_tie. Qed.
End RTie.
