(* C05 — kriging estimates and variances solve the kriging equations.   Only statements; proofs in c05/.
   Model (c05/C05_Model.v, one definition generic in the number type, executed at floats against
   gstools.krige on every run):  S : KSys = the system fixed by set_condition (covariance block ks_C,
   measurement errors ks_err, unbiasedness flag, functional + external drift rows ks_drifts),
   kmat_entry S i j = entry of the matrix built by _get_krige_mat,  Q : KTgt = the target points
   (covariances kt_c0, distances kt_d0, drift values kt_drifts), rhs_entry S Q i t = entry of the
   right-hand side built by _get_krige_vecs, krige_raw = the chunk loop of Krige.__call__ around the
   kernels TRANSLATED from krigesum.pyx (gen/Krigesum_gen.v), krige_call = with data preparation, mean,
   normalizer, trend and variance clipping.  Kinv is whatever matrix the implementation obtained from
   LAPACK; theorems state what they assume about it.   mat_of / vec_of read lists as index functions. *)
From Coq Require Import Reals List Sorted.
From GS Require Import Num Loops Krigesum_gen C05_Mat C05_RInst C05_Model C05_History C05_Proofs C05_Examples.

(* the list-of-lists built by the model's _get_krige_mat has the entries the theorems speak about *)
Theorem C05_matrix_entries :
  forall (T : Type) (O : NumOps T) (S : KSys T) (i j : nat),
    (i < ks_size S)%nat -> (j < ks_size S)%nat ->
    aget2 (n0 O) (krige_matrix O S) i j = kmat_entry O S i j.
Proof. exact @krige_matrix_entries. Qed.
Print Assumptions C05_matrix_entries.

(* every number type (IEEE doubles included): any two chunk sizes >= 1 give identical results, and the
   return_var=False kernel gives the same field *)
Theorem C05_chunk_independent :
  forall (T : Type) (O : NumOps T) (S : KSys T) (Q : KTgt T) (Kinv : list (list T)) (cond : list T) (c1 c2 : nat),
    (1 <= c1)%nat -> (1 <= c2)%nat -> (0 < ks_size S)%nat -> shape0 Kinv = ks_size S ->
    krige_raw O S Q Kinv cond c1 = krige_raw O S Q Kinv cond c2 /\
    krige_raw_field O S Q Kinv cond c1 = fst (krige_raw O S Q Kinv cond c2).
Proof. exact @chunk_independent. Qed.
Print Assumptions C05_chunk_independent.

(* every number type: the values returned for a target depend on that target's own right-hand-side
   column only.  For any index map s (a permutation of the targets, a sub-selection, a repetition):
   if the columns of Q' are the s-images of the columns of Q, the results are the s-images *)
Theorem C05_target_perm_equivariant :
  forall (T : Type) (O : NumOps T) (S : KSys T) (Q Q' : KTgt T) (s : nat -> nat) (Kinv : list (list T))
         (cond : list T) (c c' : nat),
    (1 <= c)%nat -> (1 <= c')%nat -> (0 < ks_size S)%nat -> shape0 Kinv = ks_size S ->
    tgt_cols_related O S Q Q' s ->
    forall t : nat, (t < kt_m Q')%nat ->
      aget (n0 O) (fst (krige_raw O S Q' Kinv cond c')) t = aget (n0 O) (fst (krige_raw O S Q Kinv cond c)) (s t) /\
      aget (n0 O) (snd (krige_raw O S Q' Kinv cond c')) t = aget (n0 O) (snd (krige_raw O S Q Kinv cond c)) (s t).
Proof. exact @target_map_equivariant. Qed.
Print Assumptions C05_target_perm_equivariant.

(* structured meshes: generate_grid lists the cartesian product in C order; the value stored at flat
   index i*|rest|+j of a structured result belongs to the point (x_i, p_j) *)
Theorem C05_mesh_type :
  forall (T : Type) (a : list T) (rest : list (list T)) (i j : nat) (d0 : T),
    (i < length a)%nat -> (j < length (grid rest))%nat ->
    nth (i * length (grid rest) + j) (grid (a :: rest)) nil = nth i a d0 :: nth j (grid rest) nil.
Proof. exact @grid_index. Qed.
Print Assumptions C05_mesh_type.

Theorem C05_mesh_size :
  forall (T : Type) (axes : list (list T)),
    length (grid axes) = fold_right (fun (a : list T) (acc : nat) => (length a * acc)%nat) 1%nat axes.
Proof. exact @grid_length. Qed.
Print Assumptions C05_mesh_size.

(* over R: if K Kinv = I, the value returned for target t is d.lambda and the raw error term k.lambda for
   a lambda with K lambda = k (the kriging system); if also Kinv K = I this holds for EVERY solution of
   the system — the outputs equal those of solving the kriging equations directly *)
Theorem C05_solves_system :
  forall (S : KSys R) (Q : KTgt R) (Kinv : list (list R)),
    shape0 Kinv = ks_size S ->
    forall (cond : list R) (chunk : nat), (1 <= chunk)%nat -> (0 < ks_size S)%nat ->
    forall t : nat, (t < kt_m Q)%nat ->
      meq (ks_size S) (mmul (ks_size S) (kmat_entry Rops S) (mat_of Kinv)) delta ->
      exists lam : vec,
        veq (ks_size S) (mvec (ks_size S) (kmat_entry Rops S) lam) (rhs_col S Q t) /\
        aget 0%R (fst (krige_raw Rops S Q Kinv cond chunk)) t = dot (ks_size S) (vec_of cond) lam /\
        aget 0%R (snd (krige_raw Rops S Q Kinv cond chunk)) t = dot (ks_size S) (rhs_col S Q t) lam /\
        (meq (ks_size S) (mmul (ks_size S) (mat_of Kinv) (kmat_entry Rops S)) delta ->
         forall mu : vec, veq (ks_size S) (mvec (ks_size S) (kmat_entry Rops S) mu) (rhs_col S Q t) ->
           aget 0%R (fst (krige_raw Rops S Q Kinv cond chunk)) t = dot (ks_size S) (vec_of cond) mu /\
           aget 0%R (snd (krige_raw Rops S Q Kinv cond chunk)) t = dot (ks_size S) (rhs_col S Q t) mu).
Proof. exact solves_system. Qed.
Print Assumptions C05_solves_system.

(* the estimate is linear in the prepared (detrended, normalised, mean-free) data, for ANY Kinv *)
Theorem C05_linear_in_data :
  forall (S : KSys R) (Q : KTgt R) (Kinv : list (list R)),
    shape0 Kinv = ks_size S ->
    forall chunk : nat, (1 <= chunk)%nat -> (0 < ks_size S)%nat ->
    forall (c1 c2 c3 : list R) (a b : R) (t : nat), (t < kt_m Q)%nat ->
      (forall i : nat, (i < ks_size S)%nat -> vec_of c3 i = (a * vec_of c1 i + b * vec_of c2 i)%R) ->
      aget 0%R (fst (krige_raw Rops S Q Kinv c3 chunk)) t =
      (a * aget 0%R (fst (krige_raw Rops S Q Kinv c1 chunk)) t + b * aget 0%R (fst (krige_raw Rops S Q Kinv c2 chunk)) t)%R.
Proof. exact linear_in_data. Qed.
Print Assumptions C05_linear_in_data.

(* the error term (hence the kriging variance) does not depend on the data values *)
Theorem C05_variance_data_free :
  forall (S : KSys R) (Q : KTgt R) (Kinv : list (list R)),
    shape0 Kinv = ks_size S ->
    forall chunk : nat, (1 <= chunk)%nat -> (0 < ks_size S)%nat ->
    forall (c1 c2 : list R) (t : nat), (t < kt_m Q)%nat ->
      aget 0%R (snd (krige_raw Rops S Q Kinv c1 chunk)) t = aget 0%R (snd (krige_raw Rops S Q Kinv c2 chunk)) t.
Proof. exact error_data_free. Qed.
Print Assumptions C05_variance_data_free.

(* unbiased variants, K Kinv = I: prepared data that are constant c give the estimate c *)
Theorem C05_reproduces_constants_raw :
  forall (S : KSys R) (Q : KTgt R) (Kinv : list (list R)),
    shape0 Kinv = ks_size S ->
    forall chunk : nat, (1 <= chunk)%nat -> (0 < ks_size S)%nat ->
    forall (cond : list R) (t : nat) (c : R), (t < kt_m Q)%nat ->
      meq (ks_size S) (mmul (ks_size S) (kmat_entry Rops S) (mat_of Kinv)) delta ->
      ks_unb S = true ->
      (forall i : nat, (i < ks_n S)%nat -> vec_of cond i = c) ->
      (forall i : nat, (ks_n S <= i < ks_size S)%nat -> vec_of cond i = 0%R) ->
      aget 0%R (fst (krige_raw Rops S Q Kinv cond chunk)) t = c.
Proof. exact reproduces_constants_raw. Qed.
Print Assumptions C05_reproduces_constants_raw.

(* the same through the whole call: data that equal v after detrending, constant mean mu, a normalizer
   pair with dn (nr v) = v: the returned field is v + trend(target) *)
Theorem C05_reproduces_constants :
  forall (S : KSys R) (Q : KTgt R) (Kinv : list (list R)) (nr dn : R -> R)
         (val ctrend cmean tmean ttrend : list R) (chunk t : nat) (v mu : R),
    shape0 Kinv = ks_size S -> (1 <= chunk)%nat -> (t < kt_m Q)%nat ->
    meq (ks_size S) (mmul (ks_size S) (kmat_entry Rops S) (mat_of Kinv)) delta ->
    ks_unb S = true -> length val = ks_n S ->
    (forall i : nat, (i < ks_n S)%nat -> (aget 0 val i - aget 0 ctrend i = v)%R /\ aget 0%R cmean i = mu) ->
    aget 0%R tmean t = mu -> dn (nr v) = v ->
    aget 0%R (fst (krige_call Rops S Q Kinv nr dn val ctrend cmean tmean ttrend chunk)) t = (v + aget 0 ttrend t)%R.
Proof. exact reproduces_constants. Qed.
Print Assumptions C05_reproduces_constants.

(* K Kinv = I: prepared data equal to c times drift l (functional or external) at the conditioning points
   give c times drift l at the target *)
Theorem C05_reproduces_drifts :
  forall (S : KSys R) (Q : KTgt R) (Kinv : list (list R)),
    shape0 Kinv = ks_size S ->
    forall chunk : nat, (1 <= chunk)%nat -> (0 < ks_size S)%nat ->
    forall (cond : list R) (t l : nat) (c : R), (t < kt_m Q)%nat ->
      meq (ks_size S) (mmul (ks_size S) (kmat_entry Rops S) (mat_of Kinv)) delta ->
      (l < ks_p S)%nat ->
      (forall i : nat, (i < ks_n S)%nat -> vec_of cond i = (c * aget2 0 (ks_drifts S) l i)%R) ->
      (forall i : nat, (ks_n S <= i < ks_size S)%nat -> vec_of cond i = 0%R) ->
      aget 0%R (fst (krige_raw Rops S Q Kinv cond chunk)) t = (c * aget2 0 (kt_drifts Q) l t)%R.
Proof. exact reproduces_drifts. Qed.
Print Assumptions C05_reproduces_drifts.

(* order of the conditioning points: two systems whose matrices, right-hand sides and data are related by
   a bijection s of the index range (a reordering of the conditioning points), each solved with its own
   inverse, return the same estimate and error term *)
Theorem C05_cond_perm_invariant :
  forall (S S' : KSys R) (Q Q' : KTgt R) (Kinv Kinv' : list (list R)) (cond cond' : list R)
         (chunk chunk' : nat) (s s' : nat -> nat) (t t' : nat),
    let N := ks_size S in
    ks_size S' = N -> shape0 Kinv = N -> shape0 Kinv' = N -> (0 < N)%nat -> (1 <= chunk)%nat -> (1 <= chunk')%nat ->
    (t < kt_m Q)%nat -> (t' < kt_m Q')%nat ->
    (forall i, (i < N)%nat -> (s i < N)%nat /\ (s' i < N)%nat /\ s' (s i) = i /\ s (s' i) = i) ->
    (forall i j, (i < N)%nat -> (j < N)%nat -> kmat_entry Rops S' (s i) (s j) = kmat_entry Rops S i j) ->
    (forall i, (i < N)%nat -> rhs_entry Rops S' Q' (s i) t' = rhs_entry Rops S Q i t) ->
    (forall i, (i < N)%nat -> vec_of cond' (s i) = vec_of cond i) ->
    meq N (mmul N (kmat_entry Rops S) (mat_of Kinv)) delta ->
    meq N (mmul N (mat_of Kinv') (kmat_entry Rops S')) delta ->
    aget 0%R (fst (krige_raw Rops S' Q' Kinv' cond' chunk')) t' = aget 0%R (fst (krige_raw Rops S Q Kinv cond chunk)) t /\
    aget 0%R (snd (krige_raw Rops S' Q' Kinv' cond' chunk')) t' = aget 0%R (snd (krige_raw Rops S Q Kinv cond chunk)) t.
Proof. exact cond_perm_invariant. Qed.
Print Assumptions C05_cond_perm_invariant.

(* the same for the concrete operation: S', Q', cond' list the conditioning points of S, Q, cond in
   another order (cond_reordered: covariances, errors, drift values, right-hand sides and data carried
   along by the bijection sg of 0..n-1); each system solved with its own two-sided inverse *)
Theorem C05_cond_order_invariant :
  forall (S S' : KSys R) (Q Q' : KTgt R) (Kinv Kinv' : list (list R)) (cond cond' : list R)
         (chunk chunk' : nat) (sg sg' : nat -> nat) (t t' : nat),
    cond_reordered S S' Q Q' cond cond' sg sg' t t' ->
    shape0 Kinv = ks_size S -> shape0 Kinv' = ks_size S -> (0 < ks_size S)%nat ->
    (1 <= chunk)%nat -> (1 <= chunk')%nat -> (t < kt_m Q)%nat -> (t' < kt_m Q')%nat ->
    meq (ks_size S) (mmul (ks_size S) (kmat_entry Rops S) (mat_of Kinv)) delta ->
    meq (ks_size S) (mmul (ks_size S) (mat_of Kinv') (kmat_entry Rops S')) delta ->
    aget 0%R (fst (krige_raw Rops S' Q' Kinv' cond' chunk')) t' = aget 0%R (fst (krige_raw Rops S Q Kinv cond chunk)) t /\
    aget 0%R (snd (krige_raw Rops S' Q' Kinv' cond' chunk')) t' = aget 0%R (snd (krige_raw Rops S Q Kinv cond chunk)) t.
Proof. exact cond_order_invariant. Qed.
Print Assumptions C05_cond_order_invariant.

(* the polynomial drift basis of universal kriging ("linear", "quadratic", integer order): every basis
   function is a monomial of degree 1..order in coordinates below dim with non-decreasing indices
   (order and content of the list for 2-D quadratic: x, y, xx, xy, yy -- Example drift_basis_quadratic_2d) *)
Theorem C05_drift_basis :
  forall (dim order : nat) (sel : list nat), In sel (drift_selects dim order) ->
    (1 <= length sel <= order)%nat /\ Forall (fun i : nat => (i < dim)%nat) sel /\ Sorted.StronglySorted le sel.
Proof. exact drift_basis_spec. Qed.
Print Assumptions C05_drift_basis.

(* one Krige object as a state machine (c05/C05_History.v): version counters of model parameters, conditions and
   post-processing settings; _krige_pos and _krige_mat remember the versions they were computed from; ops = in-place
   model edit, set_drift_functions, set_condition (with / without new data), model assignment (other model or the
   same object again), mean / trend / normalizer setters, calls (new targets or the stored ones, return_var either way).
   In EVERY history each call that is not preceded by an un-refreshed in-place edit observes exactly what a fresh object
   built from the present settings observes (run lists (observed, fresh, dirty) per call) *)
Theorem C05_history_coherent :
  forall (ops : list Op) (s : KState) (d : bool), (d = false -> coherent s) ->
    Forall (fun r : Out * Out * bool => snd r = false -> fst (fst r) = snd (fst r)) (run s d ops).
Proof. exact history_coherent. Qed.
Print Assumptions C05_history_coherent.
