(* C07 — conditioned random fields honour the data and never reuse stale kriging results.
   Statements only; models in c07/C07_Model.v, proofs in c07/C07_Proofs.v and c07/C07_FormulaR.v. *)
From Coq Require Import Reals List Bool Arith ZArith.
From GS Require Import Num Loops C05_Mat C05_RInst C05_Model C05_Proofs C06_Proofs C07_Model C07_Proofs C07_FormulaR.
Import ListNotations.
Local Open Scope R_scope.

(* field = kriging estimate + unconditional field of the same seed scaled by sigma_kriging / sigma (no nugget) *)
Theorem C07_formula : forall nug var k kv r zn : R, nug <= 0 -> 0 < var ->
  cond_value Rops nug var k kv r zn = k + sqrt kv / sqrt var * r.
Proof. exact formula_no_nugget. Qed.
Print Assumptions C07_formula.

(* with a nugget: kriging variance above the nugget -> correlated part scaled, full nugget noise added *)
Theorem C07_formula_nugget_high : forall nug var k kv r zn : R, 0 < nug -> 0 < var -> nug <= kv ->
  cond_value Rops nug var k kv r zn = k + sqrt ((kv - nug) / var) * r + zn.
Proof. exact formula_nugget_high. Qed.
Print Assumptions C07_formula_nugget_high.

(* kriging variance below the nugget -> only (scaled) nugget noise *)
Theorem C07_formula_nugget_low : forall nug var k kv r zn : R, 0 < nug -> 0 < var -> 0 <= kv < nug ->
  cond_value Rops nug var k kv r zn = k + sqrt (kv / nug) * zn.
Proof. exact formula_nugget_low. Qed.
Print Assumptions C07_formula_nugget_low.

(* the added random part has exactly the kriging variance (unconditional field variance var, noise variance nug) *)
Theorem C07_scaling_variance : forall nug var kv : R, 0 <= nug -> 0 < var -> 0 <= kv ->
  let '(vs, ns) := scaling Rops nug var kv in vs * vs * var + ns * ns * nug = kv.
Proof. exact scaling_variance. Qed.
Print Assumptions C07_scaling_variance.

(* zero kriging variance: no randomness is added, whatever the seed, nugget and variance *)
Theorem C07_zero_variance_no_noise : forall nug var k r zn : R, cond_value Rops nug var k 0 r zn = k.
Proof. exact zero_variance_no_noise. Qed.
Print Assumptions C07_zero_variance_no_noise.

(* at a conditioning point without measurement error the conditioned field is the datum, for every
   unconditional field rs / nugget noise zs (every seed) — CondSRF.__call__ composed with the kriging model *)
Theorem C07_honours_data :
  forall (S : KSys R) (Q : KTgt R) (Kinv : list (list R)) (nr dn : R -> R)
         (val ctrend cmean tmean ttrend : list R) (chunk : nat) (nug var : R) (rs zs : list R) (t m : nat),
  shape0 Kinv = ks_size S -> (1 <= chunk)%nat -> (t < kt_m Q)%nat ->
  meq (ks_size S) (mmul (ks_size S) (mat_of Kinv) (kmat_entry Rops S)) delta ->
  at_data_point S Q t m -> length val = ks_n S ->
  aget 0 tmean t = aget 0 cmean m -> aget 0 ttrend t = aget 0 ctrend m ->
  dn (nr (aget 0 val m - aget 0 ctrend m)) = aget 0 val m - aget 0 ctrend m ->
  aget2 0 (ks_C S) m m + aget 0 (ks_err S) m = ks_sill S ->
  let cond := krige_cond Rops nr val ctrend cmean (ks_u S + ks_p S) in
  let fe := krige_raw Rops S Q Kinv cond chunk in
  let kv := map (clip_var Rops (ks_sill S)) (snd fe) in
  let raw := cond_field Rops nug var (fst fe) kv rs zs in
  aget 0 (post_field Rops dn raw tmean ttrend) t = aget 0 val m.
Proof. exact honours_data. Qed.
Print Assumptions C07_honours_data.

(* cache coherence over ALL histories of the current tree, with NO side condition: whatever operations came before —
   calls with any seed / position / mesh type / store names / raw-kriging storing / external drift, set_pos, set_condition,
   in-place model change, model replacement or re-assignment of the same edited object, mean / trend / normalizer
   re-assignment, set_generator, in-place edits of arrays the caller passed (positions, conditions), direct calls of the
   Krige object, csrf.pos = ..., calls of OTHER CondSRF objects sharing the same Krige object (the name key ns encodes
   the called object: obj_of ns = ns / 4) — a call made while the kriging setup is up to date returns the field a freshly
   built object returns for the present settings, target (positions, external drift) and the seed of the called object *)
Theorem C07_cache_coherent :
  forall (sd0 : nat) (ops : list Op) (p : option (Pos * bool)) (sd : option nat) (srk : bool) (ns xd : nat),
  let s := run repaired ops (init sd0) in
  forall s' o, step repaired s (Call p sd srk ns xd) = (s', RField o) -> refreshed s' ->
  same_field (RField o) (fresh_result s' (obj_of ns)).
Proof. exact cache_coherent. Qed.
Print Assumptions C07_cache_coherent.

(* the invariant itself: whenever the reuse branch is taken, the stored results were computed from the current
   positions, external drift, conditions, model and mean/trend/normalizer *)
Theorem C07_reuse_only_current :
  forall (sd0 : nat) (ops : list Op) (p : option (Pos * bool)) (sd : option nat) (srk : bool) (ns xd : nat),
  let s := run repaired ops (init sd0) in
  forall s' o, step repaired s (Call p sd srk ns xd) = (s', RField o) -> refreshed s' -> o_reuse o = true ->
  o_k o = cur_desc s' /\ o_v o = cur_desc s'.
Proof. exact reuse_only_current. Qed.
Print Assumptions C07_reuse_only_current.

(* the cache is not trivially dead (every version of the tree): after any successful call that stores the raw kriging
   field, a call under the same names and external drift without position (or with an equal one) and any seed takes the
   reuse branch and uses the same kriging results *)
Theorem C07_reuse_when_unchanged : forall (fx : Fix) (s : St) p sd ns xd (s1 : St) (o1 : Out),
  step fx s (Call p sd true ns xd) = (s1, RField o1) ->
  forall q sd2 srk, rkset srk ns = ns ->
  (q = None \/ exists c, q = Some (c, st_mesh s1) /\ pos_close fx (cur_pos s1) c = true) ->
  exists s2 o2, step fx s1 (Call q sd2 srk ns xd) = (s2, RField o2) /\ o_reuse o2 = true /\ o_k o2 = o_k o1 /\ o_v o2 = o_v o1.
Proof. exact reuse_when_unchanged. Qed.
Print Assumptions C07_reuse_when_unchanged.

(* the hypothesis [refreshed] is what the documentation asks for: set_condition (with or without arguments), a model
   replacement and the re-assignment of the same model object always establish it; only an in-place model change destroys it *)
Theorem C07_refreshed_characterised : forall s : St,
  (forall k, refreshed (fst (step repaired s (SetCond k)))) /\
  refreshed (fst (step repaired s SetModel)) /\
  refreshed (fst (step repaired s ReassignModel)) /\
  (forall op, refreshed s -> op <> ModelInplace -> refreshed (fst (step repaired s op))).
Proof. exact refreshed_characterised. Qed.
Print Assumptions C07_refreshed_characterised.

(* earlier versions of the tree violate coherence: witness histories ([stale fx seed history last_call]) *)
Theorem C07_cache_coherent_refuted_pinned_set_condition :
  stale pinned 7 [Call (Some (mkPos 0 0 0, false)) None true 0 0; SetCond NewVals] (Call None None true 0 0).
Proof. exact pinned_refuted_set_condition. Qed.
Print Assumptions C07_cache_coherent_refuted_pinned_set_condition.

Theorem C07_cache_coherent_refuted_pinned_mean :
  stale pinned 7 [Call (Some (mkPos 0 0 0, false)) None true 0 0; SetMean] (Call None None true 0 0).
Proof. exact pinned_refuted_mean. Qed.
Print Assumptions C07_cache_coherent_refuted_pinned_mean.

Theorem C07_cache_coherent_refuted_pinned_model :
  stale pinned 7 [Call (Some (mkPos 0 0 0, false)) None true 0 0; SetModel; SetCond Refresh] (Call None (Some 3%nat) true 0 0).
Proof. exact pinned_refuted_model. Qed.
Print Assumptions C07_cache_coherent_refuted_pinned_model.

Theorem C07_cache_coherent_refuted_pinned_inplace_refresh :
  stale pinned 7 [Call (Some (mkPos 0 0 0, false)) None true 0 0; ModelInplace; SetCond Refresh] (Call None None true 0 0).
Proof. exact pinned_refuted_inplace_refresh. Qed.
Print Assumptions C07_cache_coherent_refuted_pinned_inplace_refresh.

(* after 2a36b2f only: in-place edit of the passed position array; direct Krige call; csrf.pos = ...; raw_krige not stored *)
Theorem C07_cache_coherent_refuted_first_repair_mutate_pos :
  stale first_repair 7 [Call (Some (mkPos 0 0 0, false)) None true 0 0; MutatePos (mkPos 1 0 0)]
        (Call (Some (mkPos 1 0 0, false)) None true 0 0).
Proof. exact first_repair_refuted_mutate_pos. Qed.
Print Assumptions C07_cache_coherent_refuted_first_repair_mutate_pos.

Theorem C07_cache_coherent_refuted_first_repair_direct_krige :
  stale first_repair 7 [Call (Some (mkPos 0 0 0, false)) None true 0 0; KrigeCall (Some (mkPos 1 0 0, false))] (Call None None true 0 0).
Proof. exact first_repair_refuted_direct_krige. Qed.
Print Assumptions C07_cache_coherent_refuted_first_repair_direct_krige.

Theorem C07_cache_coherent_refuted_first_repair_assign_pos :
  stale first_repair 7 [Call (Some (mkPos 0 0 0, false)) None true 0 0; AssignPos (mkPos 1 0 0)] (Call None None true 0 0).
Proof. exact first_repair_refuted_assign_pos. Qed.
Print Assumptions C07_cache_coherent_refuted_first_repair_assign_pos.

Theorem C07_cache_coherent_refuted_first_repair_no_store :
  stale first_repair 7 [Call (Some (mkPos 0 0 0, false)) None true 0 0; SetCond NewVals; Call None None false 0 0]
        (Call None None true 0 0).
Proof. exact first_repair_refuted_no_store. Qed.
Print Assumptions C07_cache_coherent_refuted_first_repair_no_store.

(* one reference slot shared by all store names instead of one per raw-kriging name *)
Theorem C07_cache_coherent_refuted_shared_ref :
  stale shared_ref 7 [Call (Some (mkPos 0 0 0, false)) None true 0 0; SetCond NewVals; Call None None true 1 0]
        (Call None None true 0 0).
Proof. exact shared_ref_refuted. Qed.
Print Assumptions C07_cache_coherent_refuted_shared_ref.

(* conditioning arrays kept as views of the caller's arrays *)
Theorem C07_cache_coherent_refuted_aliased_cond :
  stale aliased_cond 7 [Call (Some (mkPos 0 0 0, false)) None true 0 0; MutateCond] (Call None None true 0 0).
Proof. exact aliased_cond_refuted. Qed.
Print Assumptions C07_cache_coherent_refuted_aliased_cond.

(* Field._pos_equal with np.allclose (before 1925c43): a position change below the tolerance keeps the stored results *)
Theorem C07_cache_coherent_refuted_allclose_pos :
  stale allclose_pos 7 [Call (Some (mkPos 0 0 0, false)) None true 0 0] (Call (Some (mkPos 0 1 0, false)) None true 0 0).
Proof. exact allclose_pos_refuted. Qed.
Print Assumptions C07_cache_coherent_refuted_allclose_pos.

(* reuse test ignoring the external drift given with the call (before 51cde63) *)
Theorem C07_cache_coherent_refuted_no_ext_token :
  stale no_ext_token 7 [Call (Some (mkPos 0 0 0, false)) None true 0 1] (Call None None true 0 2).
Proof. exact no_ext_token_refuted. Qed.
Print Assumptions C07_cache_coherent_refuted_no_ext_token.

(* the reference dict as a class attribute shared by all CondSRF objects (two objects on one Krige) *)
Theorem C07_cache_coherent_refuted_class_level_ref :
  stale class_level_ref 7 [Call (Some (mkPos 0 0 0, false)) None true 0 0; Call None None true 4 0; SetCond NewVals;
                           Call None None true 0 0] (Call None None true 4 0).
Proof. exact class_level_ref_refuted. Qed.
Print Assumptions C07_cache_coherent_refuted_class_level_ref.

(* far from the data under simple kriging (estimate 0, variance = sill): exactly the unconditional field *)
Theorem C07_far_field_limit_point : forall nug var r zn : R, 0 <= nug -> 0 < var ->
  cond_value Rops nug var 0 (var + nug) r zn = r + (if Rlt_dec 0 nug then zn else 0).
Proof. exact far_field_limit_point. Qed.
Print Assumptions C07_far_field_limit_point.

(* and quantitatively near that limit (model without nugget) *)
Theorem C07_far_field_bound : forall var k kv r zn : R, 0 < var -> 0 <= kv ->
  Rabs (cond_value Rops 0 var k kv r zn - r) <= Rabs k + Rabs r * Rabs (kv / var - 1).
Proof. exact far_field_bound. Qed.
Print Assumptions C07_far_field_bound.
