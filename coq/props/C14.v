(* C14 — model parameters form a consistent state independent of how it was reached.
   Only statements; proofs live in c14/*.v.

   Model (c14/C14_Model.v, hand model of covmodel/base.py, covmodel/tools.py, tools/geometric.py,
   tpl_models.py and the per-class tables; tied to /repo by executing the extracted model against
   the implementation on random assignment histories, harness/c14.py):
     State      the private parameter fields of a CovModel (dim, latlon, temporal, raw variance,
                main length scale, anisotropy ratios, angles, nugget, rescale, optional arguments,
                all bounds)
     construct  CovModel.__init__ with the bounds passed explicitly;  ctor = with the class defaults
     step       one public assignment (Op); Error exactly where the code raises
     run        a history: fold of step, stops at the first raising assignment
     args_of    the constructor arguments that describe a state (its own stored values)
   T and its operations O are arbitrary (IEEE doubles as they are included); the only laws used are
   the two stated premises: 0 < 1 in O's boolean order, and |·| idempotent.

   WF s  :=  1 <= dim, #ratios = dim-1, #angles = dim(dim-1)/2, every ratio > 0,
             lat-lon => dim = 3 + temporal, both spatial ratios = 1, all angles = 0,
             temporal => the space-time angles are 0, one bound per optional argument,
             rescale = |rescale|.
   InB c s := check_arg_bounds passes on s (every value inside its current bounds).
   keeps_in_bounds: every operation except the two documented as unchecked
             (set_arg_bounds(check_args=False), the *_bounds property setters) and except
             `rescale` on the truncated-power-law classes (their variance follows
             var_raw * var_factor(rescale, ...) and that setter does not re-check).
   plain_op: no bounds operation, and `dim` only for classes whose default bounds do not
             depend on the dimension. *)
From Coq Require Import List ZArith Bool QArith Reals.
From GS Require Import Num Loops Formulas Formulas_gen C14_Model C14_Proofs C14_Inst C14_Tie C14_Derived.
Import ListNotations.
Close Scope R_scope. Close Scope Q_scope.

(* 1. the invariant holds after EVERY history of successful assignments (induction over the
      operation list, all 12 kinds of operations, all argument values) *)
Theorem C14_invariant_all_histories :
  forall (T : Type) (O : NumOps T),
    nltb O (n0 O) (n1 O) = true -> (forall x : T, nabs O (nabs O x) = nabs O x) ->
  forall (c : Cls) (a : Args) (ops : list Op) (s0 s : State),
    construct O c a = Ok s0 -> run O c s0 ops = Ok s ->
    WF O s /\ (forallb (keeps_in_bounds c) ops = true -> InB O c s).
Proof. exact @reachable_invariant. Qed.
Print Assumptions C14_invariant_all_histories.

(* 2. reachable states are canonical: the state reached by any history equals the state the
      constructor builds from the reached state's own values *)
Theorem C14_reachable_canonical :
  forall (T : Type) (O : NumOps T),
    nltb O (n0 O) (n1 O) = true -> (forall x : T, nabs O (nabs O x) = nabs O x) ->
  forall (c : Cls) (a : Args) (ops : list Op) (s0 s : State),
    construct O c a = Ok s0 -> run O c s0 ops = Ok s ->
    forallb (keeps_in_bounds c) ops = true ->
    construct O c (args_of s) = Ok s.
Proof. exact @reachable_canonical. Qed.
Print Assumptions C14_reachable_canonical.

(* 3. the property as the user sees it: Cls(...) then any plain history = Cls(resulting values) *)
Theorem C14_reachable_equals_fresh :
  forall (T : Type) (O : NumOps T),
    nltb O (n0 O) (n1 O) = true -> (forall x : T, nabs O (nabs O x) = nabs O x) ->
  forall (c : Cls) (a : Args) (ops : list Op) (s0 s : State),
    ctor O c a = Ok s0 -> run O c s0 ops = Ok s -> forallb (plain_op c) ops = true ->
    ctor O c (args_of s) = Ok s.
Proof. exact @reachable_equals_fresh. Qed.
Print Assumptions C14_reachable_equals_fresh.

(* 4. after ANY history (unchecked bounds operations included) one successful value assignment
      makes the state canonical again, because every value setter ends with check_arg_bounds *)
Theorem C14_value_assignment_restores_canonical :
  forall (T : Type) (O : NumOps T),
    nltb O (n0 O) (n1 O) = true -> (forall x : T, nabs O (nabs O x) = nabs O x) ->
  forall (c : Cls) (a : Args) (ops : list Op) (op : Op) (s0 s s' : State),
    construct O c a = Ok s0 -> run O c s0 ops = Ok s -> value_setter op = true ->
    step O c s op = Ok s' -> construct O c (args_of s') = Ok s'.
Proof. exact @reachable_then_checked_canonical. Qed.
Print Assumptions C14_value_assignment_restores_canonical.

(* 5. frame conditions.  [frame O c op s s'] (c14/C14_Proofs.v) lists, per operation, the only
      fields that may differ:  var/var_raw -> raw variance;  nugget -> nugget;  len_scale and
      integral_scale -> main scale and ratios, and the ratios are UNCHANGED when a single value is
      assigned (this includes lat-lon + temporal models: the repaired setter);  anis -> ratios;
      angles -> angles;  rescale -> rescale;  dim -> dim, ratios = set_anis, angles =
      set_model_angles of the old ones;  optional argument i -> that argument;  unchecked bounds
      operations -> bounds only;  set_arg_bounds(check_args=True) -> never dim, flags, angles,
      rescale. *)
Theorem C14_frame :
  forall (T : Type) (O : NumOps T), nltb O (n0 O) (n1 O) = true ->
  forall (c : Cls) (s : State) (op : Op) (s' : State),
    WF O s -> step O c s op = Ok s' -> frame O c op s s'.
Proof. exact @frame_step. Qed.
Print Assumptions C14_frame.

(* 6. values outside their bounds are rejected (err_case is check_arg_in_bounds) *)
Theorem C14_bounds_reject_nugget :
  forall (T : Type) (O : NumOps T) (c : Cls) (s : State) (v : T),
    err_case O (b_nug s) [v] <> 0 -> exists e, step O c s (SetNugget v) = Error e.
Proof. exact @nugget_out_of_bounds_rejected. Qed.
Print Assumptions C14_bounds_reject_nugget.

Theorem C14_bounds_reject_var_raw :
  forall (T : Type) (O : NumOps T) (c : Cls) (s : State) (v : T),
    err_case O (b_var s) [nmul O v (var_factor O c s)] <> 0 -> exists e, step O c s (SetVarRaw v) = Error e.
Proof. exact @var_raw_out_of_bounds_rejected. Qed.
Print Assumptions C14_bounds_reject_var_raw.

Theorem C14_bounds_reject_len_scale :
  forall (T : Type) (O : NumOps T) (c : Cls) (s : State) (ls : list T),
    err_case O (b_len s) [hd (n0 O) (firstn (dim s) ls)] <> 0 -> exists e, step O c s (SetLenScale ls) = Error e.
Proof. exact @len_scale_out_of_bounds_rejected. Qed.
Print Assumptions C14_bounds_reject_len_scale.

Theorem C14_bounds_reject_opt_arg :
  forall (T : Type) (O : NumOps T) (c : Cls) (s : State) (i : nat) (v : T),
    i < length (b_opts s) ->
    err_case O (nth i (b_opts s) (mkBnd None None true true)) [v] <> 0 -> exists e, step O c s (SetOpt i v) = Error e.
Proof. exact @opt_out_of_bounds_rejected. Qed.
Print Assumptions C14_bounds_reject_opt_arg.

(* whatever a successful value assignment stores is inside ALL current bounds *)
Theorem C14_bounds_hold_after_value_assignment :
  forall (T : Type) (O : NumOps T), nltb O (n0 O) (n1 O) = true ->
  forall (c : Cls) (s : State) (op : Op) (s' : State),
    WF O s -> value_setter op = true -> step O c s op = Ok s' -> InB O c s'.
Proof. exact @value_setter_establishes_bounds. Qed.
Print Assumptions C14_bounds_hold_after_value_assignment.

(* assigning a parameter its own current value is the identity on reachable in-bounds states
   (the setters' normalisations are idempotent) *)
Theorem C14_self_assignment_identity :
  forall (T : Type) (O : NumOps T) (c : Cls) (s : State), WF O s -> InB O c s ->
    step O c s (SetVarRaw (var_raw s)) = Ok s /\ step O c s (SetNugget (nugget s)) = Ok s /\
    step O c s (SetLenScale [len_scale s]) = Ok s /\ step O c s (SetAnis (anis s)) = Ok s /\
    step O c s (SetAngles (angles s)) = Ok s /\ step O c s (SetDim (dim s)) = Ok s /\
    step O c s (SetRescale (Some (rescale s))) = Ok s /\
    (forall i, i < length (opts s) -> step O c s (SetOpt i (nth i (opts s) (n0 O))) = Ok s).
Proof. exact @self_assignment_identity. Qed.
Print Assumptions C14_self_assignment_identity.

(* 7. derived quantities *)
Theorem C14_derived :
  forall (T : Type) (O : NumOps T) (s : State), WF O s ->
    field_dim s = spatial_dim s + b2n (temporal s) /\
    length (len_scale_vec O s) = dim s /\ length (anis s) = dim s - 1 /\ length (angles s) = noa (dim s) /\
    (latlon s = true -> field_dim s + 1 = dim s /\ spatial_dim s = 2).
Proof. exact @derived_consistent. Qed.
Print Assumptions C14_derived.

(* at R (oracle = scipy gamma/beta, arbitrary): the variance getter returns what the setter got;
   the per-axis length scales determine the state *)
Theorem C14_var_roundtrip_R :
  forall (ora : nat -> list R -> R) (c : Cls) (s : State) (v : R) (s' : State),
    var_factor (Rops_with ora) c s <> 0%R ->
    step (Rops_with ora) c s (SetVar v) = Ok s' -> var_of (Rops_with ora) c s' = v.
Proof. exact var_roundtrip. Qed.
Print Assumptions C14_var_roundtrip_R.

Theorem C14_len_scale_vec_roundtrip_R :
  forall (ora : nat -> list R -> R) (c : Cls) (s : State),
    WF (Rops_with ora) s -> InB (Rops_with ora) c s -> len_scale s <> 0%R ->
    step (Rops_with ora) c s (SetLenScale (len_scale_vec (Rops_with ora) s)) = Ok s.
Proof. exact len_scale_vec_roundtrip. Qed.
Print Assumptions C14_len_scale_vec_roundtrip_R.

(* 8. witnesses (rationals, by computation).
   The len_scale setter of the pinned tree violates the frame condition on a lat-lon + temporal
   model (repaired in /repo by a fix: commit; [step] models the repaired code): *)
Theorem C14_frame_pinned_refuted :
  exists s0 s1, ctor Qops Gaussian q_args_latlon_t = Ok s0 /\ anis s0 = [1%Q; 1%Q; 3%Q] /\
                step_pinned Qops Gaussian s0 (SetLenScale [2%Q]) = Ok s1 /\ anis s1 = [1%Q; 1%Q; 1%Q].
Proof. exact pinned_len_scale_drops_temporal_ratio. Qed.
Print Assumptions C14_frame_pinned_refuted.

(* `dim` on a class with dimension-dependent default bounds: C14_reachable_equals_fresh cannot be
   extended to it — the constructor rejects the reached values (open finding) *)
Theorem C14_fresh_after_dim_refuted :
  exists s0 s1, ctor Qops SuperSpherical q_args_ss2 = Ok s0 /\
                step Qops SuperSpherical s0 (SetDim 3) = Ok s1 /\
                ctor Qops SuperSpherical (args_of s1) = Error (EBounds 4 1).
Proof. exact dim_assignment_keeps_stale_default_bounds. Qed.
Print Assumptions C14_fresh_after_dim_refuted.

(* 9. the premises are satisfiable: both laws hold at Q and at R; histories through every kind of
      operation exist; out-of-bounds values exist and are rejected with the code's error case *)
Theorem C14_hypotheses_satisfiable :
  (nltb Qops (n0 Qops) (n1 Qops) = true /\ forall x, nabs Qops (nabs Qops x) = nabs Qops x) /\
  (forall ora, nltb (Rops_with ora) (n0 (Rops_with ora)) (n1 (Rops_with ora)) = true /\
               forall x, nabs (Rops_with ora) (nabs (Rops_with ora) x) = nabs (Rops_with ora) x) /\
  (exists s0 s, ctor Qops Stable q_args_stable = Ok s0 /\ run Qops Stable s0 q_history = Ok s /\
                forallb (keeps_in_bounds Stable) q_history = true /\
                (dim s = 4 /\ length (anis s) = 3 /\ length (angles s) = 6)%nat) /\
  (exists s0 s, ctor Qops Stable q_args_stable = Ok s0 /\ run Qops Stable s0 (firstn 10 q_history) = Ok s /\
                forallb (plain_op Stable) (firstn 10 q_history) = true) /\
  (exists s0, ctor Qops Stable q_args_stable = Ok s0 /\
              step Qops Stable s0 (SetNugget (-1)%Q) = Error (EBounds 2 1) /\
              step Qops Stable s0 (SetOpt 0 (5#2)%Q) = Error (EBounds 4 3) /\
              step Qops Stable s0 (SetLenScale [0%Q]) = Error (EBounds 1 2) /\
              step Qops Stable s0 (SetAnis [(-1)%Q]) = Error EAnis).
Proof.
  exact (conj (conj Qops_one_pos Qops_abs_idem)
        (conj (fun ora => conj (Rops_one_pos ora) (Rops_abs_idem ora))
        (conj history_exists (conj plain_history_exists rejection_exists)))).
Qed.
Print Assumptions C14_hypotheses_satisfiable.

(* 10. ties by translation: the formula parts of the model ARE the definitions translated from /repo on this
   run (coq/gen/Formulas_gen.v, tools/py2coq.py); any number type, no side condition.
   TPLCovModel.var_factor with len_up_rescaled = (len_low + len_scale)/rescale, len_low_rescaled = len_low/rescale: *)
Theorem C14_tie_var_factor :
  forall (T : Type) (O : NumOps T) (s : State),
    var_factor O TPLGaussian s = TPL_var_factor O (len_up_rescaled O s (opt O s 1)) (opt O s 0) (len_low_rescaled O s (opt O s 1)) /\
    var_factor O TPLExponential s = TPL_var_factor O (len_up_rescaled O s (opt O s 1)) (opt O s 0) (len_low_rescaled O s (opt O s 1)) /\
    var_factor O TPLStable s = TPL_var_factor O (len_up_rescaled O s (opt O s 2)) (opt O s 0) (len_low_rescaled O s (opt O s 2)).
Proof. exact @var_factor_tie. Qed.
Print Assumptions C14_tie_var_factor.

(* Gaussian.default_rescale *)
Theorem C14_tie_default_rescale :
  forall (T : Type) (O : NumOps T), default_rescale O Gaussian = Gaussian_default_rescale O.
Proof. exact @default_rescale_tie. Qed.
Print Assumptions C14_tie_default_rescale.

(* calc_integral_scale of Gaussian, Exponential, Stable, Matern, Integral, Rational *)
Theorem C14_tie_calc_integral_scale :
  forall (T : Type) (O : NumOps T) (s : State),
    int_scale O Gaussian s = Some (Gaussian_calc_integral_scale O (len_rescaled O s)) /\
    int_scale O Exponential s = Some (Exponential_calc_integral_scale (len_rescaled O s)) /\
    int_scale O Stable s = Some (Stable_calc_integral_scale O (len_rescaled O s) (opt O s 0)) /\
    int_scale O Matern s = Some (Matern_calc_integral_scale O (len_rescaled O s) (opt O s 0)) /\
    int_scale O Integral s = Some (Integral_calc_integral_scale O (len_rescaled O s) (opt O s 0)) /\
    int_scale O Rational s = Some (Rational_calc_integral_scale O (len_rescaled O s) (opt O s 0)).
Proof. exact @int_scale_tie. Qed.
Print Assumptions C14_tie_calc_integral_scale.

(* 11. the constructor with integral_scale= : it IS the plain constructor followed by the two assignments it
   performs (integral_scale, then var once more because var_factor may depend on the new length scale);
   with var_raw= it is the unchecked build followed by the integral_scale assignment.  Its result is
   well-formed, in bounds and canonical.  (construct_int models __init__(..., integral_scale=ls) for the
   classes with a closed-form integral scale.) *)
Theorem C14_constructor_integral_scale_is_history :
  forall (T : Type) (O : NumOps T) (c : Cls) (a : Args) (ls : list T),
    construct_int O c a ls =
    if a_var_is_raw a then bind (build O c a) (fun s0 => run O c s0 [SetIntScale ls])
    else bind (construct O c a) (fun s0 => run O c s0 [SetIntScale ls; SetVar (a_var a)]).
Proof. exact @construct_int_is_history. Qed.
Print Assumptions C14_constructor_integral_scale_is_history.

Theorem C14_constructor_integral_scale_canonical :
  forall (T : Type) (O : NumOps T),
    nltb O (n0 O) (n1 O) = true -> (forall x : T, nabs O (nabs O x) = nabs O x) ->
  forall (c : Cls) (a : Args) (ls : list T) (s : State),
    construct_int O c a ls = Ok s -> WF O s /\ InB O c s /\ construct O c (args_of s) = Ok s.
Proof. exact @construct_int_canonical. Qed.
Print Assumptions C14_constructor_integral_scale_canonical.

(* 12. hidden derived state: the Hankel transform object model._sft (ndim = the dimension it was built
   for; used by spectrum / spectral_density of the classes without an analytic spectral density).  DState =
   primary parameters + sft_ndim; dconstruct / dstep: only the constructor and the `dim` assignment
   (tools.set_dim) rebuild it.  After EVERY history the derived component is the function of the present
   primary parameters that a fresh constructor call computes. *)
Theorem C14_hidden_state_coherent :
  forall (T : Type) (O : NumOps T),
    nltb O (n0 O) (n1 O) = true -> (forall x : T, nabs O (nabs O x) = nabs O x) ->
  forall (c : Cls) (a : Args) (ops : list Op) (d0 d : DState),
    dconstruct O c a = Ok d0 -> drun O c d0 ops = Ok d -> WF O (prim d) /\ sft_ndim d = dim (prim d).
Proof. exact @hidden_state_coherent. Qed.
Print Assumptions C14_hidden_state_coherent.

Theorem C14_hidden_state_equals_fresh :
  forall (T : Type) (O : NumOps T),
    nltb O (n0 O) (n1 O) = true -> (forall x : T, nabs O (nabs O x) = nabs O x) ->
  forall (c : Cls) (a : Args) (ops : list Op) (d0 d : DState),
    dconstruct O c a = Ok d0 -> drun O c d0 ops = Ok d -> forallb (keeps_in_bounds c) ops = true ->
    dconstruct O c (args_of (prim d)) = Ok d.
Proof. exact @hidden_state_equals_fresh. Qed.
Print Assumptions C14_hidden_state_equals_fresh.
