(* C20 — operations never modify caller arrays or previously stored results.
   Only statements; models and proofs live in c20/*.v.

   [state] is a heap of array buffers (contents: one abstract value of an arbitrary type V per buffer,
   so all sizes and contents are covered), local variables and object attributes referring to buffers.
   [program e c] is the effect program of public entry point e in configuration c (layout class of every
   array argument, every option that changes what happens to buffers); [valid_cfg (dims e) c] says that
   c is one of the finitely many configurations of e; [run interp p st] executes p where every
   computation is an arbitrary function [interp] of the contents it reads. *)
From Coq Require Import List Arith ZArith Bool.
From GS Require Import C20_Heap C20_Effects.
Import ListNotations.

(* every entry point, every configuration (198468 in total), every value type, contents, size, every
   binding and aliasing of arguments and attributes: all buffers that exist before the call (caller
   arrays, earlier stored/returned results) have the same contents after the call *)
Theorem C20_no_caller_write :
  forall e c, valid_cfg (dims e) c ->
  forall (V : Type) (interp : nat -> list V -> V) (st : state (V := V)) cell,
    cell < length (heap st) ->
    nth_error (heap (run interp (program e c) st)) cell = nth_error (heap st) cell.
Proof. exact no_caller_write. Qed.
Print Assumptions C20_no_caller_write.

(* stored state never aliases caller arrays: after any public call every attribute of the object refers to
   a buffer allocated by that call or to a buffer some attribute referred to before the call - never to a
   buffer that only the caller holds (so a later in-place edit by the caller cannot change stored state) *)
Theorem C20_no_caller_alias :
  forall e c, valid_cfg (dims e) c ->
  forall (V : Type) (interp : nat -> list V -> V) (st : state (V := V)) a cell,
    att (run interp (program e c) st) a = Some cell ->
    length (heap st) <= cell \/ exists a', att st a' = Some cell.
Proof. exact no_caller_alias. Qed.
Print Assumptions C20_no_caller_alias.

(* histories of any length: whatever exists after a prefix cs1 of calls is not altered by any continuation
   cs2 made of public entry points, whatever buffers the caller passes in (also earlier results) *)
Theorem C20_no_history_write :
  forall (V : Type) (interp : nat -> list V -> V) (cs1 cs2 : list (call (V := V))) (st : state (V := V)),
    Forall (fun cl => exists e c, valid_cfg (dims e) c /\ c_prog cl = program e c) cs2 ->
    forall cell, cell < length (heap (run_seq interp cs1 st)) ->
      nth_error (heap (run_seq interp (cs1 ++ cs2) st)) cell = nth_error (heap (run_seq interp cs1 st)) cell.
Proof. exact no_history_write. Qed.
Print Assumptions C20_no_history_write.

(* the static check is sound for ANY effect program: if every in-place write goes to a buffer the
   program allocated itself, no pre-existing buffer changes, and the write log names only new buffers *)
Theorem C20_static_check_sound :
  forall (V : Type) (interp : nat -> list V -> V) (p : list prim) (st : state (V := V)),
    safe0 p = true ->
    (forall cell, cell < length (heap st) -> nth_error (heap (run interp p st)) cell = nth_error (heap st) cell)
    /\ (wlog st = [] -> Forall (fun cell => length (heap st) <= cell) (wlog (run interp p st))).
Proof. intros V interp p st H. split; [apply run_frame; exact H|apply run_log; exact H]. Qed.
Print Assumptions C20_static_check_sound.

(* the prediction handed to the correspondence (canonical run, one buffer per argument / earlier result)
   lists no written caller or earlier buffer, in any configuration *)
Theorem C20_predicted_writes_empty :
  forall e c, valid_cfg (dims e) c -> written_initial true e c = [].
Proof. exact predicted_writes_empty. Qed.
Print Assumptions C20_predicted_writes_empty.

(* the configuration space: its size, and the enumeration used by the finite check is complete *)
Theorem C20_config_space :
  total_cfgs = 198468%Z
  /\ (forall e, Z.of_nat (length (all_cfgs (dims e))) = cfg_count e)
  /\ (forall e c, valid_cfg (dims e) c -> In c (all_cfgs (dims e)))
  /\ (forall e, In e entries).
Proof.
  exact (conj total_cfgs_value (conj cfg_count_spec (conj (fun e => all_cfgs_complete (dims e)) entries_complete))).
Qed.
Print Assumptions C20_config_space.

(* the effect programs (repaired and pinned-tree versions) never read a variable or attribute before it
   is bound, in any configuration *)
Theorem C20_programs_well_formed :
  forall e c, valid_cfg (dims e) c -> wf_entry true e c = true /\ wf_entry false e c = true.
Proof. exact program_wf. Qed.
Print Assumptions C20_programs_well_formed.

(* the pinned tree (before the four fix: commits) is refuted: its effect programs write the caller's
   bin_edges / mask / field array and the stored field; the repaired programs do not *)
Theorem C20_pinned_tree_refuted :
  written_initial false EVario cfg_vario_latlon = [3]
  /\ written_initial false EVarioAxis cfg_axis_mask = [1]
  /\ written_initial false EFieldCall cfg_field_call = [1]
  /\ written_initial false EPostField [0; 1; 0; 1] = [0]
  /\ written_initial false EApplyMNT [0; 0; 1; 0; 1; 0] = [1]
  /\ written_initial false ERemoveTNM [0; 0; 1; 0; 1; 0] = [1]
  /\ written_initial false ETransform cfg_transform = [3]
  /\ written_initial true EVario cfg_vario_latlon = []
  /\ written_initial true EVarioAxis cfg_axis_mask = []
  /\ written_initial true EFieldCall cfg_field_call = []
  /\ written_initial true ETransform cfg_transform = [].
Proof. exact pinned_tree_refuted. Qed.
Print Assumptions C20_pinned_tree_refuted.

Theorem C20_pinned_tree_changes_contents :
  let interp := fun (_ : nat) (l : list nat) => S (hd 0 l) in
  let st := mk [10; 11; 12; 13; 14; 15; 16] (fun v => if v <? 7 then Some v else None) (fun _ => None) [] [] false in
  nth_error (heap (run interp (old_program EVario cfg_vario_latlon) st)) 3 = Some 14
  /\ nth_error (heap (run interp (program EVario cfg_vario_latlon) st)) 3 = Some 13.
Proof. exact pinned_tree_changes_contents. Qed.
Print Assumptions C20_pinned_tree_changes_contents.

(* non-vacuity: the regression configurations are valid configurations *)
Theorem C20_configs_exist :
  valid_cfg (dims EVario) cfg_vario_latlon /\ valid_cfg (dims EVarioAxis) cfg_axis_mask
  /\ valid_cfg (dims EFieldCall) cfg_field_call /\ valid_cfg (dims ETransform) cfg_transform.
Proof. exact configs_exist. Qed.
Print Assumptions C20_configs_exist.
