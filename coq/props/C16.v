(* C16 — vector fields from isotropic models are incompressible.  Only statements; proofs in c16/*.v.
   [summate_incompr] is the Gallina translation of field/summator.pyx (gen/Summator_gen.v, regenerated
   on every run); [summate_incompr_spec], [vfield], [velocity] (c16/C16_Spec.v) are the closed forms:
     vfield ks z1 z2 x d   = sum_j (e1_d - k_dj k_0j / |k_j|^2) (z1_j cos<k_j,x> + z2_j sin<k_j,x>)
     velocity ... x d      = mean_u e1_d + mean_u sqrt(var / N) * vfield ... x d + 0      (IncomprRandMeth.__call__, nugget 0)
   [Rops ora] is the real-number instance of the number interface. *)
From Coq Require Import Reals List ZArith.
From Coquelicot Require Import Coquelicot.
From GS Require Import Num Loops RInst Summator_gen C15_KernelSpec C16_Spec C16_Refine C16_Div C16_Stat C16_Split C16_Linear.
Import ListNotations.
Open Scope R_scope.

(* the translated kernel equals the closed-form per-point specification: every number type (so also
   IEEE doubles, same operations in the same order), every shape *)
Theorem C16_summate_incompr_refines :
  forall (T : Type) (O : NumOps T) ks z1 z2 pos,
    summate_incompr O ks z1 z2 pos = summate_incompr_spec O ks z1 z2 pos.
Proof. exact @summate_incompr_refines. Qed.
Print Assumptions C16_summate_incompr_refines.

(* entry [d,i] of the kernel's result is the field function evaluated at the i-th column of pos *)
Theorem C16_kernel_pointwise :
  forall (T : Type) (O : NumOps T) ks z1 z2 pos d i, (d < shape0 pos)%nat -> (i < shape1 pos)%nat ->
    aget2 (n0 O) (summate_incompr O ks z1 z2 pos) d i = vfield O ks z1 z2 (acol (n0 O) pos i) d.
Proof. exact @summate_incompr_pointwise. Qed.
Print Assumptions C16_kernel_pointwise.

(* the modelled generator call (kernel spec followed by the affine map of IncomprRandMeth.__call__) entry by entry *)
Theorem C16_generate_pointwise :
  forall (T : Type) (O : NumOps T) mean_u var N ks z1 z2 pos nug d i, (d < shape0 pos)%nat -> (i < shape1 pos)%nat ->
    aget2 (n0 O) (incompr_generate O mean_u var N ks z1 z2 pos nug) d i
    = incompr_out O mean_u var N d (vfield O ks z1 z2 (acol (n0 O) pos i) d) (aget2 (n0 O) nug d i).
Proof. exact @incompr_generate_pointwise. Qed.
Print Assumptions C16_generate_pointwise.

(* sum_d k_d p_d(k) = 0 for every non-zero wave vector, any dimension >= 1 *)
Theorem C16_projector_orthogonal :
  forall ora (ks : list (list R)) j, (0 < shape0 ks)%nat ->
    (exists d, (d < shape0 ks)%nat /\ aget2 0 ks d j <> 0) ->
    Rsum (fun d => aget2 0 ks d j * proj_of (Rops ora) ks d j) (shape0 ks) = 0.
Proof. exact projector_orthogonal. Qed.
Print Assumptions C16_projector_orthogonal.

(* every partial derivative exists and the divergence vanishes at every point: any dimension >= 1,
   any number of modes with non-zero wave vectors, any amplitudes, any mean velocity and variance *)
Theorem C16_divergence_free :
  forall ora mean_u var N (ks : list (list R)) z1 z2 (x : list R),
    length x = shape0 ks -> (0 < shape0 ks)%nat ->
    (forall j, (j < shape1 ks)%nat -> exists d, (d < shape0 ks)%nat /\ aget2 0 ks d j <> 0) ->
    (forall c d, (d < length x)%nat ->
       ex_derive (fun t => velocity (Rops ora) mean_u var N ks z1 z2 (aupd x d t) c) (aget 0 x d)) /\
    Rsum (fun d => Derive (fun t => velocity (Rops ora) mean_u var N ks z1 z2 (aupd x d t) d) (aget 0 x d))
         (length x) = 0.
Proof. exact divergence_free. Qed.
Print Assumptions C16_divergence_free.

Theorem C16_divergence_free_2d :
  forall ora mean_u var N (ks : list (list R)) z1 z2 x0 x1, shape0 ks = 2%nat ->
    (forall j, (j < shape1 ks)%nat -> aget2 0 ks 0 j <> 0 \/ aget2 0 ks 1 j <> 0) ->
    Derive (fun t => velocity (Rops ora) mean_u var N ks z1 z2 [t; x1] 0) x0
    + Derive (fun t => velocity (Rops ora) mean_u var N ks z1 z2 [x0; t] 1) x1 = 0.
Proof. exact divergence_free_2d. Qed.
Print Assumptions C16_divergence_free_2d.

Theorem C16_divergence_free_3d :
  forall ora mean_u var N (ks : list (list R)) z1 z2 x0 x1 x2, shape0 ks = 3%nat ->
    (forall j, (j < shape1 ks)%nat -> aget2 0 ks 0 j <> 0 \/ aget2 0 ks 1 j <> 0 \/ aget2 0 ks 2 j <> 0) ->
    Derive (fun t => velocity (Rops ora) mean_u var N ks z1 z2 [t; x1; x2] 0) x0
    + Derive (fun t => velocity (Rops ora) mean_u var N ks z1 z2 [x0; t; x2] 1) x1
    + Derive (fun t => velocity (Rops ora) mean_u var N ks z1 z2 [x0; x1; t] 2) x2 = 0.
Proof. exact divergence_free_3d. Qed.
Print Assumptions C16_divergence_free_3d.

(* mean: for ANY linear expectation E, random wave vectors KS and amplitudes Z1, Z2 that are centred and
   uncorrelated with every function of the wave vectors, E[u_d(x)] = mean_u * e1_d at every point x *)
Theorem C16_mean :
  forall ora (Omega : Type) (E : (Omega -> R) -> R),
    (forall f g, (forall w, f w = g w) -> E f = E g) ->
    (forall f g, E (fun w => f w + g w) = E f + E g) ->
    (forall c f, E (fun w => c * f w) = c * E f) ->
    (forall c, E (fun _ => c) = c) ->
    forall (KS : Omega -> list (list R)) (Z1 Z2 : Omega -> list R) (Nm : nat),
    (forall w, shape1 (KS w) = Nm) ->
    (forall j (g : list (list R) -> R), (j < Nm)%nat -> E (fun w => aget 0 (Z1 w) j * g (KS w)) = 0) ->
    (forall j (g : list (list R) -> R), (j < Nm)%nat -> E (fun w => aget 0 (Z2 w) j * g (KS w)) = 0) ->
    forall mean_u var N x d,
    E (fun w => velocity (Rops ora) mean_u var N (KS w) (Z1 w) (Z2 w) x d) = mean_u * e1_of (Rops ora) d.
Proof. exact mean_velocity. Qed.
Print Assumptions C16_mean.

(* non-vacuity of the premises of C16_divergence_free and of the hypotheses of C16_mean / C16_variance *)
Theorem C16_premises_satisfiable :
  (let ks := [[1; 0]; [2; -3]] in let x := [5; 7] in
   length x = shape0 ks /\ (0 < shape0 ks)%nat /\
   (forall j, (j < shape1 ks)%nat -> exists d, (d < shape0 ks)%nat /\ aget2 0 ks d j <> 0)) /\
  (let E := fun f : bool * bool -> R => (f (true, true) + f (true, false) + f (false, true) + f (false, false)) / 4 in
   let KS := fun _ : bool * bool => [[1]; [0]] in
   let sg := fun b : bool => if b then 1 else -1 in
   let Z1 := fun w : bool * bool => [sg (fst w)] in
   let Z2 := fun w : bool * bool => [sg (snd w)] in
   (forall f g, (forall w, f w = g w) -> E f = E g) /\
   (forall f g, E (fun w => f w + g w) = E f + E g) /\
   (forall c f, E (fun w => c * f w) = c * E f) /\
   (forall c, E (fun _ => c) = c) /\
   (forall j l (g : list (list R) -> R), (j < 1)%nat -> (l < 1)%nat ->
      E (fun w => aget 0 (Z1 w) j * aget 0 (Z1 w) l * g (KS w)) = if Nat.eqb j l then E (fun w => g (KS w)) else 0) /\
   (forall j l (g : list (list R) -> R), (j < 1)%nat -> (l < 1)%nat ->
      E (fun w => aget 0 (Z2 w) j * aget 0 (Z2 w) l * g (KS w)) = if Nat.eqb j l then E (fun w => g (KS w)) else 0) /\
   (forall j l (g : list (list R) -> R), (j < 1)%nat -> (l < 1)%nat ->
      E (fun w => aget 0 (Z1 w) j * aget 0 (Z2 w) l * g (KS w)) = 0)).
Proof. exact (conj divergence_premises_satisfiable variance_hypotheses_satisfiable). Qed.
Print Assumptions C16_premises_satisfiable.

(* variance: for ANY linear expectation, amplitudes with unit variance, uncorrelated with each other and with every
   function of the wave vectors:  E[(u_d(x) - mean_u e1_d)^2] = (mean_u sqrt(var/N))^2 sum_j E[p_d(k_j)^2]  at every x *)
Theorem C16_variance :
  forall ora (Omega : Type) (E : (Omega -> R) -> R),
    (forall f g, (forall w, f w = g w) -> E f = E g) ->
    (forall f g, E (fun w => f w + g w) = E f + E g) ->
    (forall c f, E (fun w => c * f w) = c * E f) ->
    (forall c, E (fun _ => c) = c) ->
    forall (KS : Omega -> list (list R)) (Z1 Z2 : Omega -> list R) (Nm : nat),
    (forall w, shape1 (KS w) = Nm) ->
    (forall j l (g : list (list R) -> R), (j < Nm)%nat -> (l < Nm)%nat ->
       E (fun w => aget 0 (Z1 w) j * aget 0 (Z1 w) l * g (KS w)) = if Nat.eqb j l then E (fun w => g (KS w)) else 0) ->
    (forall j l (g : list (list R) -> R), (j < Nm)%nat -> (l < Nm)%nat ->
       E (fun w => aget 0 (Z2 w) j * aget 0 (Z2 w) l * g (KS w)) = if Nat.eqb j l then E (fun w => g (KS w)) else 0) ->
    (forall j l (g : list (list R) -> R), (j < Nm)%nat -> (l < Nm)%nat ->
       E (fun w => aget 0 (Z1 w) j * aget 0 (Z2 w) l * g (KS w)) = 0) ->
    forall mean_u var N x d,
    E (fun w => (velocity (Rops ora) mean_u var N (KS w) (Z1 w) (Z2 w) x d - mean_u * e1_of (Rops ora) d) ^ 2)
    = (incompr_amp (Rops ora) mean_u var N) ^ 2 * Rsum (fun j => E (fun w => (proj_of (Rops ora) (KS w) d j) ^ 2)) Nm.
Proof. exact variance_velocity. Qed.
Print Assumptions C16_variance.

(* identically distributed modes, mode_no = N > 0, var >= 0: component d carries q_d = E[p_d(k)^2] of mean_u^2 var *)
Theorem C16_variance_fraction :
  forall ora (Omega : Type) (E : (Omega -> R) -> R),
    (forall f g, (forall w, f w = g w) -> E f = E g) ->
    (forall f g, E (fun w => f w + g w) = E f + E g) ->
    (forall c f, E (fun w => c * f w) = c * E f) ->
    (forall c, E (fun _ => c) = c) ->
    forall (KS : Omega -> list (list R)) (Z1 Z2 : Omega -> list R) (Nm : nat),
    (forall w, shape1 (KS w) = Nm) ->
    (forall j l (g : list (list R) -> R), (j < Nm)%nat -> (l < Nm)%nat ->
       E (fun w => aget 0 (Z1 w) j * aget 0 (Z1 w) l * g (KS w)) = if Nat.eqb j l then E (fun w => g (KS w)) else 0) ->
    (forall j l (g : list (list R) -> R), (j < Nm)%nat -> (l < Nm)%nat ->
       E (fun w => aget 0 (Z2 w) j * aget 0 (Z2 w) l * g (KS w)) = if Nat.eqb j l then E (fun w => g (KS w)) else 0) ->
    (forall j l (g : list (list R) -> R), (j < Nm)%nat -> (l < Nm)%nat ->
       E (fun w => aget 0 (Z1 w) j * aget 0 (Z2 w) l * g (KS w)) = 0) ->
    forall mean_u var x d q, (0 < Nm)%nat -> 0 <= var ->
    (forall j, (j < Nm)%nat -> E (fun w => (proj_of (Rops ora) (KS w) d j) ^ 2) = q) ->
    E (fun w => (velocity (Rops ora) mean_u var (Z.of_nat Nm) (KS w) (Z1 w) (Z2 w) x d - mean_u * e1_of (Rops ora) d) ^ 2)
    = mean_u ^ 2 * var * q.
Proof. exact variance_fraction. Qed.
Print Assumptions C16_variance_fraction.

(* the fractions for a uniformly distributed direction (parameterisations of RNG.sample_sphere), any radius r <> 0:
   2-D: 3/8, 1/8;  3-D: 8/15, 1/15, 1/15 *)
Theorem C16_variance_split_2d :
  forall ora r, r <> 0 ->
    RInt (fun t => (proj_of (Rops ora) (kdir2 r t) 0 0) ^ 2) 0 (2 * PI) / (2 * PI) = 3 / 8 /\
    RInt (fun t => (proj_of (Rops ora) (kdir2 r t) 1 0) ^ 2) 0 (2 * PI) / (2 * PI) = 1 / 8.
Proof. exact split_2d. Qed.
Print Assumptions C16_variance_split_2d.

Theorem C16_variance_split_3d :
  forall ora r, r <> 0 ->
    RInt (fun m => RInt (fun t => (proj_of (Rops ora) (kdir3 r m t) 0 0) ^ 2) 0 (2 * PI)) (-1) 1 / (4 * PI) = 8 / 15 /\
    RInt (fun m => RInt (fun t => (proj_of (Rops ora) (kdir3 r m t) 1 0) ^ 2) 0 (2 * PI)) (-1) 1 / (4 * PI) = 1 / 15 /\
    RInt (fun m => RInt (fun t => (proj_of (Rops ora) (kdir3 r m t) 2 0) ^ 2) 0 (2 * PI)) (-1) 1 / (4 * PI) = 1 / 15.
Proof. exact split_3d. Qed.
Print Assumptions C16_variance_split_3d.

(* positions through a linear map, components unchanged (what SRF does for rotated / anisotropic models: the positions are
   isometrized, the components are not turned back): w(x) = u(A x).  For EVERY matrix A, in the user's coordinates,
   div w(x) = amp * sum_j W'_j(<k_j, A x>) * sum_d p_d(k_j) (A^T k_j)_d *)
Theorem C16_divergence_linear_map :
  forall ora mean_u var N (A ks : list (list R)) z1 z2 (x : list R),
    (forall c d, (d < length x)%nat ->
       ex_derive (fun t => velocity (Rops ora) mean_u var N ks z1 z2 (mat_vec A (aupd x d t)) c) (aget 0 x d)) /\
    Rsum (fun d => Derive (fun t => velocity (Rops ora) mean_u var N ks z1 z2 (mat_vec A (aupd x d t)) d) (aget 0 x d)) (length x)
    = incompr_amp (Rops ora) mean_u var N *
      Rsum (fun j => (aget 0 z2 j * cos (Rphase ks (mat_vec A x) j) - aget 0 z1 j * sin (Rphase ks (mat_vec A x) j))
                     * map_coeff ora A ks (length x) j) (shape1 ks).
Proof. exact divergence_linear_map. Qed.
Print Assumptions C16_divergence_linear_map.

(* multiples of the identity keep the field divergence free *)
Theorem C16_divergence_scalar_map :
  forall ora mean_u var N lam (A ks : list (list R)) z1 z2 (x : list R),
    length x = shape0 ks -> (0 < shape0 ks)%nat -> scalar_matrix lam (shape0 ks) A ->
    (forall j, (j < shape1 ks)%nat -> exists d, (d < shape0 ks)%nat /\ aget2 0 ks d j <> 0) ->
    Rsum (fun d => Derive (fun t => velocity (Rops ora) mean_u var N ks z1 z2 (mat_vec A (aupd x d t)) d) (aget 0 x d)) (length x) = 0.
Proof. exact divergence_scalar_map. Qed.
Print Assumptions C16_divergence_scalar_map.

(* 2-D: the per-mode factor vanishes for every non-zero wave vector exactly for the multiples of the identity *)
Theorem C16_coeff_zero_iff_scalar_2d :
  forall ora a b c d,
    (forall k0 k1, k0 * k0 + k1 * k1 <> 0 -> map_coeff ora [[a; b]; [c; d]] [[k0]; [k1]] 2 0 = 0)
    <-> (b = 0 /\ c = 0 /\ a = d).
Proof. exact coeff_zero_iff_scalar_2d. Qed.
Print Assumptions C16_coeff_zero_iff_scalar_2d.

(* witnesses (one sine mode k = (1,1), mean_u = var = N = 1, origin): a quarter turn of the positions gives divergence 1,
   a stretch of the second axis by 2 gives divergence -1/2 — rotated or anisotropic evaluation without turning the
   components back is not solenoidal *)
Theorem C16_rotated_or_stretched_not_solenoidal :
  forall ora,
    Rsum (fun e => Derive (fun t => velocity (Rops ora) 1 1 1 [[1]; [1]] [0] [1] (mat_vec [[0; -1]; [1; 0]] (aupd [0; 0] e t)) e)
                          (aget 0 [0; 0] e)) 2 = 1 /\
    Rsum (fun e => Derive (fun t => velocity (Rops ora) 1 1 1 [[1]; [1]] [0] [1] (mat_vec [[1; 0]; [0; 2]] (aupd [0; 0] e t)) e)
                          (aget 0 [0; 0] e)) 2 = - (1 / 2).
Proof. exact (fun ora => conj (quarter_turn_not_solenoidal ora) (stretch_not_solenoidal ora)). Qed.
Print Assumptions C16_rotated_or_stretched_not_solenoidal.
