(* C02 — shipped covariance models are positive semi-definite where they claim validity.
   Statements only; proofs in c02/C02_Bochner.v, C02_BochnerInt.v (any dimension, any finite point set),
   c02/C02_Proofs.v (sign of the code's analytic spectra inside the bounds, |rho| <= 1), model in
   c02/C02_Model.v.  PARTIAL by design: that each spectral formula IS the Fourier transform of the
   correlation is property C04, and the nine models without analytic spectrum are explored only. *)
From Coq Require Import Reals ZArith List Bool.
From Coquelicot Require Import Coquelicot.
From GS Require Import Num Loops RInst C02_Bochner C02_BochnerInt C02_Model C02_RInst C02_Proofs C02_Linear.
Import ListNotations.
Open Scope R_scope.

(* 1. the cosine kernel: c^T C c is a sum of two squares, for every dimension d, wave vector k and
      finite weighted point set *)
Theorem C02_cos_kernel_psd : forall (d : nat) (k : vec) (pts : list (R * vec)),
  List.Forall (fun p => length (snd p) = d) pts ->
  qform (fun x y => cos (dot k (vsub x y))) pts
  = (Rsum (map (fun p => fst p * cos (dot k (snd p))) pts))²
    + (Rsum (map (fun p => fst p * sin (dot k (snd p))) pts))²
  /\ 0 <= qform (fun x y => cos (dot k (vsub x y))) pts.
Proof. intros d k pts H. split; [exact (cos_kernel_qform d k pts H)|exact (cos_kernel_psd d k pts H)]. Qed.
Print Assumptions C02_cos_kernel_psd.

(* 2. easy half of Bochner, discrete spectrum: non-negative weights w_j at wave vectors k_j *)
Theorem C02_easy_bochner_sum : forall (d : nat) (spec : list (R * vec)) (pts : list (R * vec)),
  List.Forall (fun wk => 0 <= fst wk) spec ->
  List.Forall (fun p => length (snd p) = d) pts ->
  0 <= qform (fun x y => Rsum (map (fun wk => fst wk * cos (dot (snd wk) (vsub x y))) spec)) pts.
Proof. intros d spec pts Hw Hd. exact (easy_bochner_sum d spec Hw pts Hd). Qed.
Print Assumptions C02_easy_bochner_sum.

(* 2b. continuous spectrum: C(h) = int_a^b w(t) cos<kappa t, h> dt with w >= 0 (Riemann integral) *)
Theorem C02_easy_bochner_int : forall (d : nat) (a b : R) (w : R -> R) (kappa : R -> vec) (C : vec -> R)
  (pts : list (R * vec)),
  a <= b -> (forall t, a < t < b -> 0 <= w t) ->
  (forall h, length h = d -> is_RInt (fun t => w t * cos (dot (kappa t) h)) a b (C h)) ->
  List.Forall (fun p => length (snd p) = d) pts ->
  0 <= qform (fun x y => C (vsub x y)) pts.
Proof. intros d a b w kappa C pts Hab Hw HI Hd. exact (easy_bochner_int d a b w kappa C Hab Hw HI pts Hd). Qed.
Print Assumptions C02_easy_bochner_int.

(* 2c. any non-negative Riemann mixture of valid kernels is valid (scale mixtures: truncated power laws;
       iterate for spectra over boxes) *)
Theorem C02_mixture_int_psd : forall (d : nat) (a b : R) (w : R -> R) (Kt : R -> vec -> vec -> R)
  (K : vec -> vec -> R),
  a <= b -> (forall t, a < t < b -> 0 <= w t) -> (forall t, a < t < b -> psd_on d (Kt t)) ->
  (forall x y, length x = d -> length y = d -> is_RInt (fun t => w t * Kt t x y) a b (K x y)) ->
  psd_on d K.
Proof. exact mixture_int_psd. Qed.
Print Assumptions C02_mixture_int_psd.

(* 2d. a class WITHOUT analytic spectrum, proved valid where it claims validity: the code's Linear.cor at any
       length scale is valid in 1-D (it is the overlap length of two unit intervals = a mixture of rank-one kernels) *)
Theorem C02_linear_model_valid_1d : forall ora (ell : R) (pts : list (R * vec)), 0 < ell ->
  List.Forall (fun p => length (snd p) = 1%nat) pts ->
  0 <= qform (fun x y => cor_linear (Rops02 ora) (nth 0 (vsub x y) 0 / ell)) pts.
Proof. intros ora ell pts Hl Hd. exact (linear_cor_valid_1d ora ell Hl pts Hd). Qed.
Print Assumptions C02_linear_model_valid_1d.

(* 3. validity is preserved by every linear map of the lag (anisotropy, rotation, space-time metric):
      cov_spatial evaluates the isotropic model at |M h| *)
Theorem C02_linear_map_psd : forall (d d' : nat) (M : list vec) (cov : R -> R),
  length M = d' ->
  (forall pts, List.Forall (fun p => length (snd p) = d') pts -> 0 <= qform (fun x y => cov (norm (vsub x y))) pts) ->
  forall pts, List.Forall (fun p => length (snd p) = d) pts ->
    0 <= qform (fun x y => cov (norm (matvec M (vsub x y)))) pts.
Proof. intros d d' M cov HM H. exact (isometrized_model_psd d d' M cov HM H). Qed.
Print Assumptions C02_linear_map_psd.

(* 4. lat-lon points are points of R^3; the Yadrenko lag 2 r sin(zeta / 2r) of the great-circle distance
      zeta = r * central angle is their Euclidean distance, so a model valid in R^3 is valid on the sphere *)
Theorem C02_yadrenko_psd : forall (r : R) (cov : R -> R), 0 < r ->
  (forall pts, List.Forall (fun p => length (snd p) = 3%nat) pts -> 0 <= qform (fun x y => cov (norm (vsub x y))) pts) ->
  (forall P Q : R * R,
     great_circle_to_chordal (r * central_angle P Q) r = norm (vsub (embed r P) (embed r Q)))
  /\ forall pts : list (R * (R * R)),
       0 <= qform (fun P Q => cov (great_circle_to_chordal (r * central_angle P Q) r)) pts.
Proof.
  intros r cov Hr H. split; [intros P Q; exact (yadrenko_lag_is_chord r P Q Hr)|exact (yadrenko_cov_psd r cov Hr H)].
Qed.
Print Assumptions C02_yadrenko_psd.

(* 5. a valid stationary function is bounded by its value at zero lag *)
Theorem C02_psd_implies_bounded : forall (d : nat) (C : vec -> R) (x y : vec),
  psd_on d (fun u v => C (vsub u v)) -> length x = d -> length y = d ->
  C (vsub x y) = C (vsub y x) -> C (vsub x x) = C (vsub y y) -> Rabs (C (vsub x y)) <= C (vsub x x).
Proof. exact psd_bounded_by_value_at_zero. Qed.
Print Assumptions C02_psd_implies_bounded.

(* 6. the dimension-dependent bounds of the model, as inequalities, and defaults inside bounds *)
Theorem C02_bounds_dimension_dependent : forall ora (dim : Z) (nu : R),
  (lookup Nu (opt_bounds (Rops02 ora) JBessel dim) = Some (cc (IZR dim / 2 - 1) 50)
   /\ (in_bounds (Rops02 ora) (cc (IZR dim / 2 - 1) 50) nu = true <-> IZR dim / 2 - 1 <= nu <= 50))
  /\ (lookup Nu (opt_bounds (Rops02 ora) SuperSpherical dim) = Some (cc ((IZR dim - 1) / 2) 50)
   /\ (in_bounds (Rops02 ora) (cc ((IZR dim - 1) / 2) 50) nu = true <-> (IZR dim - 1) / 2 <= nu <= 50))
  /\ (lookup Nu (opt_bounds (Rops02 ora) TPLSimple dim) = Some (cc ((IZR dim + 1) / 2) 50)
   /\ (in_bounds (Rops02 ora) (cc ((IZR dim + 1) / 2) 50) nu = true <-> (IZR dim + 1) / 2 <= nu <= 50)).
Proof.
  intros. split; [apply jbessel_bounds|split; [apply superspherical_bounds|apply tplsimple_bounds]].
Qed.
Print Assumptions C02_bounds_dimension_dependent.

Theorem C02_defaults_in_bounds : forall ora (c : cls) (dim : Z), (1 <= dim <= 99)%Z ->
  forall n v, In (n, v) (opt_default (Rops02 ora) c dim) ->
    exists b, lookup n (opt_bounds (Rops02 ora) c dim) = Some b /\ in_bounds (Rops02 ora) b v = true.
Proof. exact defaults_in_bounds. Qed.
Print Assumptions C02_defaults_in_bounds.

(* 7. the code's analytic spectral densities are non-negative for every wave number, every dimension
      and every parameter inside the bounds.  [ora] is scipy; only the displayed sign facts are assumed. *)
Theorem C02_spectrum_nonneg_Gaussian : forall ora (dim : Z) (ell k : R),
  0 < ell -> 0 <= sd_gaussian (Rops02 ora) dim ell k.
Proof. exact sd_gaussian_nonneg. Qed.
Print Assumptions C02_spectrum_nonneg_Gaussian.

Theorem C02_spectrum_nonneg_Exponential : forall ora (dim : Z) (ell k : R),
  (forall x, 0 < x -> 0 < ora ORA_GAMMA [x]) ->
  (1 <= dim)%Z -> 0 < ell -> 0 <= sd_exponential (Rops02 ora) dim ell k.
Proof. exact sd_exponential_nonneg. Qed.
Print Assumptions C02_spectrum_nonneg_Exponential.

Theorem C02_spectrum_nonneg_Matern : forall ora (dim : Z) (ell nu k : R),
  0 < ell -> 0 <= sd_matern (Rops02 ora) dim ell nu k.
Proof. exact sd_matern_nonneg. Qed.
Print Assumptions C02_spectrum_nonneg_Matern.

Theorem C02_spectrum_nonneg_Integral : forall ora (dim : Z) (ell nu k : R),
  (forall x, 0 < x -> 0 < ora ORA_GAMMA [x]) ->
  (forall s x, 0 < s -> 0 <= x -> 0 <= ora ORA_INCGAMMA_LOW [s; x]) ->
  (1 <= dim)%Z -> 0 < ell -> 0 < nu -> 0 <= sd_integral (Rops02 ora) dim ell nu k.
Proof. exact sd_integral_nonneg. Qed.
Print Assumptions C02_spectrum_nonneg_Integral.

Theorem C02_spectrum_nonneg_HyperSpherical : forall ora (dim : Z) (ell k : R),
  (forall x, 0 < x -> 0 < ora ORA_GAMMA [x]) ->
  (1 <= dim)%Z -> 0 < ell -> 0 <= k -> 0 <= sd_hyperspherical (Rops02 ora) dim ell k.
Proof. exact sd_hyperspherical_nonneg. Qed.
Print Assumptions C02_spectrum_nonneg_HyperSpherical.

(* JBessel: inside the dimension-dependent bound nu >= dim/2 - 1 (edge included) *)
Theorem C02_spectrum_nonneg_JBessel : forall ora (dim : Z) (ell nu k : R),
  (forall x, 0 < x -> 0 < ora ORA_GAMMA [x]) ->
  (1 <= dim)%Z -> in_bounds (Rops02 ora) (cc (IZR dim / 2 - 1) 50) nu = true ->
  0 < ell -> 0 <= k -> 0 <= sd_jbessel (Rops02 ora) dim ell nu k.
Proof.
  intros ora dim ell nu k HG Hd Hb Hl Hk. apply (in_bounds_cc ora) in Hb.
  apply sd_jbessel_nonneg; try assumption. apply Hb.
Qed.
Print Assumptions C02_spectrum_nonneg_JBessel.

Theorem C02_spectrum_nonneg_TPLExponential : forall ora (dim : Z) (ell hurst len_low k : R),
  (forall x, 0 < x -> 0 < ora ORA_GAMMA [x]) ->
  (forall a b c x, 0 < a -> 0 < b -> 0 < c -> 0 <= x < 1 -> 0 <= ora ORA_HYP2F1 [a; b; c; x]) ->
  (1 <= dim)%Z -> 0 < ell -> 0 < hurst -> len_low = 0 ->
  0 <= sd_tplexp (Rops02 ora) dim ell hurst len_low k.
Proof. exact sd_tplexp_nonneg. Qed.
Print Assumptions C02_spectrum_nonneg_TPLExponential.

Theorem C02_spectrum_nonneg_TPLGaussian : forall ora (dim : Z) (ell hurst len_low k : R),
  (forall x, 0 < x -> 0 < ora ORA_GAMMA [x]) ->
  (forall s x, 0 < s -> 0 <= x -> 0 <= ora ORA_INCGAMMA_LOW [s; x]) ->
  (1 <= dim)%Z -> 0 < ell -> 0 < hurst -> len_low = 0 ->
  0 <= sd_tplgau (Rops02 ora) dim ell hurst len_low k.
Proof. exact sd_tplgau_nonneg. Qed.
Print Assumptions C02_spectrum_nonneg_TPLGaussian.

(* 8. elementary correlations: 1 at zero lag, never above 1 in magnitude *)
Theorem C02_cor_at_zero_one : forall ora,
  let O := Rops02 ora in
  cor_gaussian O 0 = 1 /\ cor_exponential O 0 = 1 /\ (forall a, 0 < a -> cor_stable O a 0 = 1)
  /\ (forall a, a <> 0 -> cor_rational O a 0 = 1) /\ cor_cubic O 0 = 1 /\ cor_linear O 0 = 1
  /\ cor_spherical O 0 = 1 /\ cor_circular O 0 = 1 /\ (forall nu, cor_tplsimple O nu 0 = 1).
Proof. exact cor_at_zero_one. Qed.
Print Assumptions C02_cor_at_zero_one.

Theorem C02_cor_bounded_Gaussian : forall ora h, Rabs (cor_gaussian (Rops02 ora) h) <= 1.
Proof. exact cor_bounded_gaussian. Qed.
Print Assumptions C02_cor_bounded_Gaussian.
Theorem C02_cor_bounded_Exponential : forall ora h, 0 <= h -> Rabs (cor_exponential (Rops02 ora) h) <= 1.
Proof. exact cor_bounded_exponential. Qed.
Print Assumptions C02_cor_bounded_Exponential.
Theorem C02_cor_bounded_Stable : forall ora alpha h, 0 < alpha -> 0 <= h -> Rabs (cor_stable (Rops02 ora) alpha h) <= 1.
Proof. exact cor_bounded_stable. Qed.
Print Assumptions C02_cor_bounded_Stable.
Theorem C02_cor_bounded_Rational : forall ora alpha h, 0 < alpha -> Rabs (cor_rational (Rops02 ora) alpha h) <= 1.
Proof. exact cor_bounded_rational. Qed.
Print Assumptions C02_cor_bounded_Rational.
Theorem C02_cor_bounded_Cubic : forall ora h, Rabs (cor_cubic (Rops02 ora) h) <= 1.
Proof. exact cor_bounded_cubic. Qed.
Print Assumptions C02_cor_bounded_Cubic.
Theorem C02_cor_bounded_Linear : forall ora h, Rabs (cor_linear (Rops02 ora) h) <= 1.
Proof. exact cor_bounded_linear. Qed.
Print Assumptions C02_cor_bounded_Linear.
Theorem C02_cor_bounded_Spherical : forall ora h, Rabs (cor_spherical (Rops02 ora) h) <= 1.
Proof. exact cor_bounded_spherical. Qed.
Print Assumptions C02_cor_bounded_Spherical.
Theorem C02_cor_bounded_Circular : forall ora h, Rabs (cor_circular (Rops02 ora) h) <= 1.
Proof. exact cor_bounded_circular. Qed.
Print Assumptions C02_cor_bounded_Circular.
Theorem C02_cor_bounded_TPLSimple : forall ora nu h, 0 < nu -> Rabs (cor_tplsimple (Rops02 ora) nu h) <= 1.
Proof. exact cor_bounded_tplsimple. Qed.
Print Assumptions C02_cor_bounded_TPLSimple.
