(* C02 — shipped covariance models are positive semi-definite where they claim validity.
   Statements only; proofs in c02/C02_Bochner.v, C02_BochnerInt.v (any dimension, any finite point set),
   c02/C02_Proofs.v (sign of the code's analytic spectra inside the bounds, |rho| <= 1), model in
   c02/C02_Model.v.  PARTIAL by design: that each spectral formula IS the Fourier transform of the
   correlation is property C04, and the nine models without analytic spectrum are explored only. *)
From Coq Require Import Reals ZArith List Bool.
From Coquelicot Require Import Coquelicot.
From GS Require Import Num Loops Formulas RInst Formulas_gen C02_Bochner C02_BochnerInt C02_Model C02_RInst C02_Proofs C02_Linear C02_Tie.
Import ListNotations.
Open Scope R_scope.

(* 1. the cosine kernel: c^T C c is a sum of two squares, for every dimension d, wave vector k and
      finite weighted point set *)
Theorem C02_cos_kernel_psd : forall (d : nat) (k : vec) (pts : list (R * vec)),
  List.Forall (fun p => length (snd p) = d) pts ->
  qform (fun x y => cos (dot k (vsub x y))) pts
  = (Rsum (map (fun p => fst p * cos (dot k (snd p))) pts))²
    + (Rsum (map (fun p => fst p * sin (dot k (snd p))) pts))²
  /\ 0 <= qform (fun x y => cos (dot k (vsub x y))) pts.
Proof. intros d k pts H. split; [exact (cos_kernel_qform d k pts H)|exact (cos_kernel_psd d k pts H)]. Qed.
Print Assumptions C02_cos_kernel_psd.

(* 2. easy half of Bochner, discrete spectrum: non-negative weights w_j at wave vectors k_j *)
Theorem C02_easy_bochner_sum : forall (d : nat) (spec : list (R * vec)) (pts : list (R * vec)),
  List.Forall (fun wk => 0 <= fst wk) spec ->
  List.Forall (fun p => length (snd p) = d) pts ->
  0 <= qform (fun x y => Rsum (map (fun wk => fst wk * cos (dot (snd wk) (vsub x y))) spec)) pts.
Proof. intros d spec pts Hw Hd. exact (easy_bochner_sum d spec Hw pts Hd). Qed.
Print Assumptions C02_easy_bochner_sum.

(* 2b. continuous spectrum: C(h) = int_a^b w(t) cos<kappa t, h> dt with w >= 0 (Riemann integral) *)
Theorem C02_easy_bochner_int : forall (d : nat) (a b : R) (w : R -> R) (kappa : R -> vec) (C : vec -> R)
  (pts : list (R * vec)),
  a <= b -> (forall t, a < t < b -> 0 <= w t) ->
  (forall h, length h = d -> is_RInt (fun t => w t * cos (dot (kappa t) h)) a b (C h)) ->
  List.Forall (fun p => length (snd p) = d) pts ->
  0 <= qform (fun x y => C (vsub x y)) pts.
Proof. intros d a b w kappa C pts Hab Hw HI Hd. exact (easy_bochner_int d a b w kappa C Hab Hw HI pts Hd). Qed.
Print Assumptions C02_easy_bochner_int.

(* 2c. any non-negative Riemann mixture of valid kernels is valid (scale mixtures: truncated power laws;
       iterate for spectra over boxes) *)
Theorem C02_mixture_int_psd : forall (d : nat) (a b : R) (w : R -> R) (Kt : R -> vec -> vec -> R)
  (K : vec -> vec -> R),
  a <= b -> (forall t, a < t < b -> 0 <= w t) -> (forall t, a < t < b -> psd_on d (Kt t)) ->
  (forall x y, length x = d -> length y = d -> is_RInt (fun t => w t * Kt t x y) a b (K x y)) ->
  psd_on d K.
Proof. exact mixture_int_psd. Qed.
Print Assumptions C02_mixture_int_psd.

(* 2d. a class WITHOUT analytic spectrum, proved valid where it claims validity: the source's Linear.cor (as translated
       on this run, Formulas_gen.Linear_cor) at any
       length scale is valid in 1-D (it is the overlap length of two unit intervals = a mixture of rank-one kernels) *)
Theorem C02_linear_model_valid_1d : forall ora (ell : R) (pts : list (R * vec)), 0 < ell ->
  List.Forall (fun p => length (snd p) = 1%nat) pts ->
  0 <= qform (fun x y => Linear_cor (Rops02 ora) (nth 0 (vsub x y) 0 / ell)) pts.
Proof. intros ora ell pts Hl Hd. exact (linear_cor_valid_1d ora ell Hl pts Hd). Qed.
Print Assumptions C02_linear_model_valid_1d.

(* 3. validity is preserved by every linear map of the lag (anisotropy, rotation, space-time metric):
      cov_spatial evaluates the isotropic model at |M h| *)
Theorem C02_linear_map_psd : forall (d d' : nat) (M : list vec) (cov : R -> R),
  length M = d' ->
  (forall pts, List.Forall (fun p => length (snd p) = d') pts -> 0 <= qform (fun x y => cov (norm (vsub x y))) pts) ->
  forall pts, List.Forall (fun p => length (snd p) = d) pts ->
    0 <= qform (fun x y => cov (norm (matvec M (vsub x y)))) pts.
Proof. intros d d' M cov HM H. exact (isometrized_model_psd d d' M cov HM H). Qed.
Print Assumptions C02_linear_map_psd.

(* 4. lat-lon points are points of R^3; the Yadrenko lag 2 r sin(zeta / 2r) of the great-circle distance
      zeta = r * central angle is their Euclidean distance, so a model valid in R^3 is valid on the sphere *)
Theorem C02_yadrenko_psd : forall (r : R) (cov : R -> R), 0 < r ->
  (forall pts, List.Forall (fun p => length (snd p) = 3%nat) pts -> 0 <= qform (fun x y => cov (norm (vsub x y))) pts) ->
  (forall P Q : R * R,
     great_circle_to_chordal (r * central_angle P Q) r = norm (vsub (embed r P) (embed r Q)))
  /\ forall pts : list (R * (R * R)),
       0 <= qform (fun P Q => cov (great_circle_to_chordal (r * central_angle P Q) r)) pts.
Proof.
  intros r cov Hr H. split; [intros P Q; exact (yadrenko_lag_is_chord r P Q Hr)|exact (yadrenko_cov_psd r cov Hr H)].
Qed.
Print Assumptions C02_yadrenko_psd.

(* 5. a valid stationary function is bounded by its value at zero lag *)
Theorem C02_psd_implies_bounded : forall (d : nat) (C : vec -> R) (x y : vec),
  psd_on d (fun u v => C (vsub u v)) -> length x = d -> length y = d ->
  C (vsub x y) = C (vsub y x) -> C (vsub x x) = C (vsub y y) -> Rabs (C (vsub x y)) <= C (vsub x x).
Proof. exact psd_bounded_by_value_at_zero. Qed.
Print Assumptions C02_psd_implies_bounded.

(* 6. the dimension-dependent bounds of the model, as inequalities, and defaults inside bounds *)
Theorem C02_bounds_dimension_dependent : forall ora (dim : Z) (nu : R),
  (lookup Nu (opt_bounds (Rops02 ora) JBessel dim) = Some (cc (IZR dim / 2 - 1) 50)
   /\ (in_bounds (Rops02 ora) (cc (IZR dim / 2 - 1) 50) nu = true <-> IZR dim / 2 - 1 <= nu <= 50))
  /\ (lookup Nu (opt_bounds (Rops02 ora) SuperSpherical dim) = Some (cc ((IZR dim - 1) / 2) 50)
   /\ (in_bounds (Rops02 ora) (cc ((IZR dim - 1) / 2) 50) nu = true <-> (IZR dim - 1) / 2 <= nu <= 50))
  /\ (lookup Nu (opt_bounds (Rops02 ora) TPLSimple dim) = Some (cc ((IZR dim + 1) / 2) 50)
   /\ (in_bounds (Rops02 ora) (cc ((IZR dim + 1) / 2) 50) nu = true <-> (IZR dim + 1) / 2 <= nu <= 50)).
Proof.
  intros. split; [apply jbessel_bounds|split; [apply superspherical_bounds|apply tplsimple_bounds]].
Qed.
Print Assumptions C02_bounds_dimension_dependent.

Theorem C02_defaults_in_bounds : forall ora (c : cls) (dim : Z), (1 <= dim <= 99)%Z ->
  forall n v, In (n, v) (opt_default (Rops02 ora) c dim) ->
    exists b, lookup n (opt_bounds (Rops02 ora) c dim) = Some b /\ in_bounds (Rops02 ora) b v = true.
Proof. exact defaults_in_bounds. Qed.
Print Assumptions C02_defaults_in_bounds.

(* 7. TIE: the hand model (c02/C02_Model.v, executed against /repo) equals, for every number type, the formulas
      translated from the source on this run (gen/Formulas_gen.v).  [dim] is instantiated with nofZ O dim. *)
Theorem C02_tie_Gaussian_cor : forall T (O : NumOps T) h, Gaussian_cor O h = cor_gaussian O h.
Proof. exact @Gaussian_cor_tie. Qed.
Print Assumptions C02_tie_Gaussian_cor.
Theorem C02_tie_Exponential_cor : forall T (O : NumOps T) h, Exponential_cor O h = cor_exponential O h.
Proof. exact @Exponential_cor_tie. Qed.
Print Assumptions C02_tie_Exponential_cor.
Theorem C02_tie_Stable_cor : forall T (O : NumOps T) alpha h, Stable_cor O alpha h = cor_stable O alpha h.
Proof. exact @Stable_cor_tie. Qed.
Print Assumptions C02_tie_Stable_cor.
Theorem C02_tie_Rational_cor : forall T (O : NumOps T) alpha h, Rational_cor O alpha h = cor_rational O alpha h.
Proof. exact @Rational_cor_tie. Qed.
Print Assumptions C02_tie_Rational_cor.
Theorem C02_tie_Cubic_cor : forall T (O : NumOps T) h, Cubic_cor O h = cor_cubic O h.
Proof. exact @Cubic_cor_tie. Qed.
Print Assumptions C02_tie_Cubic_cor.
Theorem C02_tie_Linear_cor : forall T (O : NumOps T) h, Linear_cor O h = cor_linear O h.
Proof. exact @Linear_cor_tie. Qed.
Print Assumptions C02_tie_Linear_cor.
Theorem C02_tie_Circular_cor : forall T (O : NumOps T) h, Circular_cor O h = cor_circular O h.
Proof. exact @Circular_cor_tie. Qed.
Print Assumptions C02_tie_Circular_cor.
Theorem C02_tie_Spherical_cor : forall T (O : NumOps T) h, Spherical_cor O h = cor_spherical O h.
Proof. exact @Spherical_cor_tie. Qed.
Print Assumptions C02_tie_Spherical_cor.
Theorem C02_tie_TPLSimple_cor : forall T (O : NumOps T) nu h, TPLSimple_cor O nu h = cor_tplsimple O nu h.
Proof. exact @TPLSimple_cor_tie. Qed.
Print Assumptions C02_tie_TPLSimple_cor.
Theorem C02_tie_Gaussian_spectral_density : forall T (O : NumOps T) dim ell k,
  Gaussian_spectral_density O ell (nofZ O dim) k = sd_gaussian O dim ell k.
Proof. exact @Gaussian_spectral_density_tie. Qed.
Print Assumptions C02_tie_Gaussian_spectral_density.
Theorem C02_tie_Exponential_spectral_density : forall T (O : NumOps T) dim ell k,
  Exponential_spectral_density O ell (nofZ O dim) k = sd_exponential O dim ell k.
Proof. exact @Exponential_spectral_density_tie. Qed.
Print Assumptions C02_tie_Exponential_spectral_density.
Theorem C02_tie_Matern_spectral_density : forall T (O : NumOps T) dim ell nu k,
  Matern_spectral_density O ell nu (nofZ O dim) k = sd_matern O dim ell nu k.
Proof. exact @Matern_spectral_density_tie. Qed.
Print Assumptions C02_tie_Matern_spectral_density.
Theorem C02_tie_Integral_spectral_density : forall T (O : NumOps T) dim ell nu k,
  Integral_spectral_density O ell (nofZ O dim) nu k = sd_integral O dim ell nu k.
Proof. exact @Integral_spectral_density_tie. Qed.
Print Assumptions C02_tie_Integral_spectral_density.
Theorem C02_tie_HyperSpherical_spectral_density : forall T (O : NumOps T) dim ell k,
  HyperSpherical_spectral_density O ell (nofZ O dim) k = sd_hyperspherical O dim ell k.
Proof. exact @HyperSpherical_spectral_density_tie. Qed.
Print Assumptions C02_tie_HyperSpherical_spectral_density.
Theorem C02_tie_JBessel_spectral_density : forall T (O : NumOps T) dim ell nu k,
  JBessel_spectral_density O ell (nofZ O dim) nu k = sd_jbessel O dim ell nu k.
Proof. exact @JBessel_spectral_density_tie. Qed.
Print Assumptions C02_tie_JBessel_spectral_density.
Theorem C02_tie_tpl_exp_spec_dens : forall T (O : NumOps T) dim ell hurst len_low k,
  tpl_exp_spec_dens O k (nofZ O dim) ell hurst len_low = sd_tplexp O dim ell hurst len_low k
  /\ TPLExponential_spectral_density O (nofZ O dim) ell hurst len_low k = sd_tplexp O dim ell hurst len_low k.
Proof. intros. split; [apply tpl_exp_spec_dens_tie|apply TPLExponential_spectral_density_tie]. Qed.
Print Assumptions C02_tie_tpl_exp_spec_dens.
Theorem C02_tie_tpl_gau_spec_dens : forall T (O : NumOps T) dim ell hurst len_low k,
  tpl_gau_spec_dens O k (nofZ O dim) ell hurst len_low = sd_tplgau O dim ell hurst len_low k
  /\ TPLGaussian_spectral_density O (nofZ O dim) ell hurst len_low k = sd_tplgau O dim ell hurst len_low k.
Proof. intros. split; [apply tpl_gau_spec_dens_tie|apply TPLGaussian_spectral_density_tie]. Qed.
Print Assumptions C02_tie_tpl_gau_spec_dens.

(* 8. the SOURCE's analytic spectral densities (Formulas_gen.*, translated from /repo on this run) are non-negative for
      every wave number, every dimension and every parameter inside the bounds.  [ora] is scipy / gstools.tools.special;
      only the displayed sign facts are assumed of it. *)
Theorem C02_spectrum_nonneg_Gaussian : forall ora (dim : Z) (ell k : R),
  0 < ell -> 0 <= Gaussian_spectral_density (Rops02 ora) ell (IZR dim) k.
Proof. intros ora dim ell k. rewrite (Gaussian_spectral_density_tie (Rops02 ora) dim). apply sd_gaussian_nonneg. Qed.
Print Assumptions C02_spectrum_nonneg_Gaussian.

Theorem C02_spectrum_nonneg_Exponential : forall ora (dim : Z) (ell k : R),
  (forall x, 0 < x -> 0 < ora ORA_GAMMA [x]) ->
  (1 <= dim)%Z -> 0 < ell -> 0 <= Exponential_spectral_density (Rops02 ora) ell (IZR dim) k.
Proof. intros ora dim ell k. rewrite (Exponential_spectral_density_tie (Rops02 ora) dim). apply sd_exponential_nonneg. Qed.
Print Assumptions C02_spectrum_nonneg_Exponential.

Theorem C02_spectrum_nonneg_Matern : forall ora (dim : Z) (ell nu k : R),
  0 < ell -> 0 <= Matern_spectral_density (Rops02 ora) ell nu (IZR dim) k.
Proof. intros ora dim ell nu k. rewrite (Matern_spectral_density_tie (Rops02 ora) dim). apply sd_matern_nonneg. Qed.
Print Assumptions C02_spectrum_nonneg_Matern.

Theorem C02_spectrum_nonneg_Integral : forall ora (dim : Z) (ell nu k : R),
  (forall s x, 0 < s -> 0 <= x -> 0 <= ora ORA_INCGAMMA_LOW [s; x]) ->
  (1 <= dim)%Z -> 0 < ell -> 0 < nu -> 0 <= Integral_spectral_density (Rops02 ora) ell (IZR dim) nu k.
Proof. intros ora dim ell nu k. rewrite (Integral_spectral_density_tie (Rops02 ora) dim). apply sd_integral_nonneg. Qed.
Print Assumptions C02_spectrum_nonneg_Integral.

Theorem C02_spectrum_nonneg_HyperSpherical : forall ora (dim : Z) (ell k : R),
  (forall x, 0 < x -> 0 < ora ORA_GAMMA [x]) ->
  (1 <= dim)%Z -> 0 < ell -> 0 <= k -> 0 <= HyperSpherical_spectral_density (Rops02 ora) ell (IZR dim) k.
Proof. intros ora dim ell k. rewrite (HyperSpherical_spectral_density_tie (Rops02 ora) dim). apply sd_hyperspherical_nonneg. Qed.
Print Assumptions C02_spectrum_nonneg_HyperSpherical.

(* JBessel: inside the dimension-dependent bound nu >= dim/2 - 1 (edge included) *)
Theorem C02_spectrum_nonneg_JBessel : forall ora (dim : Z) (ell nu k : R),
  (forall x, 0 < x -> 0 < ora ORA_GAMMA [x]) ->
  (1 <= dim)%Z -> in_bounds (Rops02 ora) (cc (IZR dim / 2 - 1) 50) nu = true ->
  0 < ell -> 0 <= k -> 0 <= JBessel_spectral_density (Rops02 ora) ell (IZR dim) nu k.
Proof.
  intros ora dim ell nu k HG Hd Hb Hl Hk. apply (in_bounds_cc ora) in Hb.
  rewrite (JBessel_spectral_density_tie (Rops02 ora) dim).
  apply sd_jbessel_nonneg; try assumption. apply Hb.
Qed.
Print Assumptions C02_spectrum_nonneg_JBessel.

Theorem C02_spectrum_nonneg_TPLExponential : forall ora (dim : Z) (ell hurst len_low k : R),
  (forall x, 0 < x -> 0 < ora ORA_GAMMA [x]) ->
  (forall a b c x, 0 < a -> 0 < b -> 0 < c -> 0 <= x < 1 -> 0 <= ora ORA_HYP2F1 [a; b; c; x]) ->
  (1 <= dim)%Z -> 0 < ell -> 0 < hurst -> len_low = 0 ->
  0 <= TPLExponential_spectral_density (Rops02 ora) (IZR dim) ell hurst len_low k.
Proof.
  intros ora dim ell hurst len_low k. rewrite (TPLExponential_spectral_density_tie (Rops02 ora) dim). apply sd_tplexp_nonneg.
Qed.
Print Assumptions C02_spectrum_nonneg_TPLExponential.

Theorem C02_spectrum_nonneg_TPLGaussian : forall ora (dim : Z) (ell hurst len_low k : R),
  (forall s x, 0 < s -> 0 <= x -> 0 <= ora ORA_INCGAMMA_LOW [s; x]) ->
  (1 <= dim)%Z -> 0 < ell -> 0 < hurst -> len_low = 0 ->
  0 <= TPLGaussian_spectral_density (Rops02 ora) (IZR dim) ell hurst len_low k.
Proof.
  intros ora dim ell hurst len_low k. rewrite (TPLGaussian_spectral_density_tie (Rops02 ora) dim). apply sd_tplgau_nonneg.
Qed.
Print Assumptions C02_spectrum_nonneg_TPLGaussian.

(* 9. the source's elementary correlations: 1 at zero lag, never above 1 in magnitude *)
Theorem C02_cor_at_zero_one : forall ora,
  let O := Rops02 ora in
  Gaussian_cor O 0 = 1 /\ Exponential_cor O 0 = 1 /\ (forall a, 0 < a -> Stable_cor O a 0 = 1)
  /\ (forall a, a <> 0 -> Rational_cor O a 0 = 1) /\ Cubic_cor O 0 = 1 /\ Linear_cor O 0 = 1
  /\ Spherical_cor O 0 = 1 /\ Circular_cor O 0 = 1 /\ (forall nu, TPLSimple_cor O nu 0 = 1).
Proof. exact cor_at_zero_one. Qed.
Print Assumptions C02_cor_at_zero_one.

Theorem C02_cor_bounded_Gaussian : forall ora h, Rabs (Gaussian_cor (Rops02 ora) h) <= 1.
Proof. exact cor_bounded_gaussian. Qed.
Print Assumptions C02_cor_bounded_Gaussian.
Theorem C02_cor_bounded_Exponential : forall ora h, 0 <= h -> Rabs (Exponential_cor (Rops02 ora) h) <= 1.
Proof. exact cor_bounded_exponential. Qed.
Print Assumptions C02_cor_bounded_Exponential.
Theorem C02_cor_bounded_Stable : forall ora alpha h, 0 < alpha -> 0 <= h -> Rabs (Stable_cor (Rops02 ora) alpha h) <= 1.
Proof. exact cor_bounded_stable. Qed.
Print Assumptions C02_cor_bounded_Stable.
Theorem C02_cor_bounded_Rational : forall ora alpha h, 0 < alpha -> Rabs (Rational_cor (Rops02 ora) alpha h) <= 1.
Proof. exact cor_bounded_rational. Qed.
Print Assumptions C02_cor_bounded_Rational.
Theorem C02_cor_bounded_Cubic : forall ora h, Rabs (Cubic_cor (Rops02 ora) h) <= 1.
Proof. exact cor_bounded_cubic. Qed.
Print Assumptions C02_cor_bounded_Cubic.
Theorem C02_cor_bounded_Linear : forall ora h, Rabs (Linear_cor (Rops02 ora) h) <= 1.
Proof. exact cor_bounded_linear. Qed.
Print Assumptions C02_cor_bounded_Linear.
Theorem C02_cor_bounded_Spherical : forall ora h, Rabs (Spherical_cor (Rops02 ora) h) <= 1.
Proof. exact cor_bounded_spherical. Qed.
Print Assumptions C02_cor_bounded_Spherical.
Theorem C02_cor_bounded_Circular : forall ora h, Rabs (Circular_cor (Rops02 ora) h) <= 1.
Proof. exact cor_bounded_circular. Qed.
Print Assumptions C02_cor_bounded_Circular.
Theorem C02_cor_bounded_TPLSimple : forall ora nu h, 0 < nu -> Rabs (TPLSimple_cor (Rops02 ora) nu h) <= 1.
Proof. exact cor_bounded_tplsimple. Qed.
Print Assumptions C02_cor_bounded_TPLSimple.

(* 10. evenness: correlation / covariance / variogram of the nine elementary classes (the correlation_from_cor wrapper of
       covmodel/tools.py, modelled by hand and executed against /repo at signed lags) depend on |r| only *)
Theorem C02_functions_even : forall ora c p ell var nugget r,
  correlation_elem (Rops02 ora) c p ell (- r) = correlation_elem (Rops02 ora) c p ell r
  /\ covariance_elem (Rops02 ora) c p ell var (- r) = covariance_elem (Rops02 ora) c p ell var r
  /\ variogram_elem (Rops02 ora) c p ell var nugget (- r) = variogram_elem (Rops02 ora) c p ell var nugget r.
Proof. exact elem_functions_even. Qed.
Print Assumptions C02_functions_even.

(* 11. where validity is claimed: the bounds of the standard arguments (the constructor / setters / fit must reject the rest) *)
Theorem C02_base_bounds : forall ora v,
  let O := Rops02 ora in
  (in_bounds O (base_bound O BVar) v = true <-> 0 < v) /\ (in_bounds O (base_bound O BLenScale) v = true <-> 0 < v)
  /\ (in_bounds O (base_bound O BNugget) v = true <-> 0 <= v) /\ (in_bounds O (base_bound O BAnis) v = true <-> 0 < v).
Proof. exact base_bounds_meaning. Qed.
Print Assumptions C02_base_bounds.
