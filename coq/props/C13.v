(* C13 — geographic and spatio-temporal coordinates are consistent across modules.
   Only statements; proofs live in c13/*.v.  The model (c13/C13_Model.v) is generic in the number
   type; [RO ora] is its real instance with an arbitrary external-function oracle [ora]
   (c13/C13_RInst.v; atan2 and pow are DEFINED there and their characteristic properties proved).
   [dist_haversine] is the Gallina translation of variogram/estimator.pyx (gen/Estimator_gen.v,
   regenerated from /repo on every run).  Positions are one point per list: [lat; lon (; t)] in
   degrees, [x; y; z (; t)] after isometrize. *)
From Coq Require Import Reals List ZArith Bool.
From GS Require Import Num Loops Formulas Formulas_gen Estimator_gen C13_RInst C13_Model C13_Geo C13_Time C13_Tie.
Import ListNotations.
Local Open Scope R_scope.

Notation RO := Rops_with.

(* 1. positions map onto the sphere of radius geo_scale (with or without an appended time coordinate) *)
Theorem C13_on_sphere : forall ora r temporal ts la lo rest,
  let p := latlon2pos (RO ora) r temporal ts (la :: lo :: rest) in
  aget 0 p 0 * aget 0 p 0 + aget 0 p 1 * aget 0 p 1 + aget 0 p 2 * aget 0 p 2 = r * r
  /\ dist (RO ora) (firstn 3 p) [0; 0; 0] = Rabs r.
Proof. exact on_sphere. Qed.
Print Assumptions C13_on_sphere.

(* 2. squared chord = 4 r^2 * haversine argument, all latitudes / longitudes (poles, date line, any range) *)
Theorem C13_chord_is_haversine : forall ora r la1 lo1 la2 lo2,
  sqdist (RO ora) (latlon2pos (RO ora) r false 1 [la1; lo1]) (latlon2pos (RO ora) r false 1 [la2; lo2])
  = 4 * (r * r) *
    (let p1 := la1 * (PI / 180) in let l1 := lo1 * (PI / 180) in
     let p2 := la2 * (PI / 180) in let l2 := lo2 * (PI / 180) in
     sin ((p2 - p1) / 2) * sin ((p2 - p1) / 2) + cos p1 * cos p2 * (sin ((l2 - l1) / 2) * sin ((l2 - l1) / 2))).
Proof. exact chord_sq_haversine. Qed.
Print Assumptions C13_chord_is_haversine.

(* 3. the angle formula of the estimator: 2 atan2(sqrt a, sqrt(1-a)) = 2 asin(sqrt a) in [0, PI], and the chord
      of that angle is 2 sin(theta/2) = 2 sqrt a *)
Theorem C13_haversine_angle : forall a, 0 <= a <= 1 ->
  let theta := 2 * Ratan2 (sqrt a) (sqrt (1 - a)) in
  theta = 2 * asin (sqrt a) /\ 0 <= theta <= PI /\ sin (theta / 2) = sqrt a.
Proof. exact haversine_angle. Qed.
Print Assumptions C13_haversine_angle.

(* 4. cross-module: Euclidean distance of the isometrized points (what Krige/SRF/CondSRF feed to the covariance)
      = chordal distance of geo_scale * (the estimator's TRANSLATED great-circle distance); no range restriction *)
Theorem C13_estimator_distance_is_model_distance : forall ora r pos i j, 0 < r ->
  dist (RO ora) (latlon2pos (RO ora) r false 1 [aget2 0 pos 0 i; aget2 0 pos 1 i])
                (latlon2pos (RO ora) r false 1 [aget2 0 pos 0 j; aget2 0 pos 1 j])
  = great_circle_to_chordal (RO ora) (r * dist_haversine (RO ora) 2 pos i j) r
  /\ chordal_to_great_circle (RO ora)
       (dist (RO ora) (latlon2pos (RO ora) r false 1 [aget2 0 pos 0 i; aget2 0 pos 1 i])
                      (latlon2pos (RO ora) r false 1 [aget2 0 pos 0 j; aget2 0 pos 1 j])) r
     = r * dist_haversine (RO ora) 2 pos i j
  /\ 0 <= dist_haversine (RO ora) 2 pos i j <= PI.
Proof.
  intros ora r pos i j Hr.
  exact (conj (chord_is_haversine ora r pos i j Hr) (conj (great_circle_of_chord ora r pos i j Hr) (dist_haversine_range ora 2 pos i j))).
Qed.
Print Assumptions C13_estimator_distance_is_model_distance.

(* 5. the covariance the pipelines evaluate between two lat-lon points is the Yadrenko covariance of the
      estimator's great-circle distance, for every isotropic covariance function cf *)
Theorem C13_cov_is_yadrenko : forall ora (cf : R -> R) (m : geomodel (T := R)) la1 lo1 la2 lo2,
  g_latlon m = true -> g_temporal m = false -> 0 < g_geo_scale m ->
  cf (dist (RO ora) (isometrize (RO ora) m [la1; lo1]) (isometrize (RO ora) m [la2; lo2]))
  = cov_yadrenko (RO ora) cf (g_geo_scale m)
      (g_geo_scale m * dist_haversine (RO ora) 2 [[la1; la2]; [lo1; lo2]] 0 1).
Proof. exact cov_is_yadrenko. Qed.
Print Assumptions C13_cov_is_yadrenko.

(* 5b. bin membership: vario_estimate divides the user's bin edges by geo_scale and the kernel compares them with
       the angle; equivalently the great-circle distance geo_scale * angle (= chordal_to_great_circle of the model's
       chord, theorem 4) is compared with the user's edges *)
Theorem C13_bins_in_geo_scale_units : forall ora g lo hi theta, 0 < g ->
  in_bin (RO ora) (lo / g) (hi / g) theta = in_bin (RO ora) lo hi (g * theta).
Proof. exact bins_geo_scale. Qed.
Print Assumptions C13_bins_in_geo_scale_units.

(* 6. chordal <-> great-circle conversions are mutually inverse on their ranges (fit_variogram, standard_bins) *)
Theorem C13_chordal_great_circle_inverse : forall ora r, 0 < r ->
  (forall d, 0 <= d <= 2 * r ->
     great_circle_to_chordal (RO ora) (chordal_to_great_circle (RO ora) d r) r = d) /\
  (forall z, 0 <= z <= PI * r ->
     chordal_to_great_circle (RO ora) (great_circle_to_chordal (RO ora) z r) r = z).
Proof.
  intros ora r Hr. split; intros x Hx;
    [exact (chordal_great_circle_inverse ora r x Hr Hx) | exact (great_circle_chordal_inverse ora r x Hr Hx)].
Qed.
Print Assumptions C13_chordal_great_circle_inverse.

(* 7. latlon2pos o pos2latlon = id on the sphere, time coordinate included (time_scale <> 0) *)
Theorem C13_pos_latlon_pos : forall ora r x y z, 0 < r -> x * x + y * y + z * z = r * r ->
  latlon2pos (RO ora) r false 1 (pos2latlon (RO ora) r false 1 [x; y; z]) = [x; y; z] /\
  forall ts t, ts <> 0 ->
    latlon2pos (RO ora) r true ts (pos2latlon (RO ora) r true ts [x; y; z; t]) = [x; y; z; t].
Proof.
  intros ora r x y z Hr Hs. split; [exact (pos_latlon_pos ora r x y z Hr Hs)|].
  intros ts t Hts. exact (pos_latlon_pos_time ora r ts x y z t Hr Hts Hs).
Qed.
Print Assumptions C13_pos_latlon_pos.

(* 8. pos2latlon o latlon2pos = id for lat in (-90,90), lon in (-180,180]; latitude always recovered on [-90,90];
      longitudes modulo 360 give the same 3-D point; at the pole every longitude gives the same point (stated limit) *)
Theorem C13_latlon_pos_latlon : forall ora r, 0 < r ->
  (forall la lo, -90 < la < 90 -> -180 < lo <= 180 ->
     pos2latlon (RO ora) r false 1 (latlon2pos (RO ora) r false 1 [la; lo]) = [la; lo]) /\
  (forall la lo, -90 <= la <= 90 ->
     aget 0 (pos2latlon (RO ora) r false 1 (latlon2pos (RO ora) r false 1 [la; lo])) 0 = la) /\
  (forall la lo (k : Z),
     latlon2pos (RO ora) r false 1 [la; lo + 360 * IZR k] = latlon2pos (RO ora) r false 1 [la; lo]) /\
  (forall lo lo', latlon2pos (RO ora) r false 1 [90; lo] = latlon2pos (RO ora) r false 1 [90; lo']).
Proof.
  intros ora r Hr. repeat split.
  - intros la lo. exact (latlon_pos_latlon ora r la lo Hr).
  - intros la lo. exact (latlon_pos_lat ora r la lo Hr).
  - exact (longitude_periodic ora r).
  - exact (pole_longitude_lost ora r).
Qed.
Print Assumptions C13_latlon_pos_latlon.

(* 9. model state (every number type, so also IEEE doubles): a lat-lon model has dim 3 (+1 with time), exactly
      dim-1 ratios of which the two spatial ones are 1, all rotation angles 0, field_dim 2 (+1), spatial_dim 2;
      with scalar len_scale the only ratio kept is the time ratio *)
Theorem C13_latlon_model_state : forall (T : Type) (O : NumOps T) dim sdim temporal geo ls anis angles m,
  construct O dim sdim true temporal geo ls anis angles = Some m ->
  g_dim m = (3 + b2n temporal)%nat /\ g_latlon m = true /\ g_temporal m = temporal /\
  length (g_anis m) = (2 + b2n temporal)%nat /\ aget (n0 O) (g_anis m) 0 = n1 O /\ aget (n0 O) (g_anis m) 1 = n1 O /\
  g_angles m = repeat (n0 O) (no_of_angles (3 + b2n temporal)) /\
  field_dim m = (2 + b2n temporal)%nat /\ spatial_dim m = 2%nat.
Proof. exact @construct_latlon. Qed.
Print Assumptions C13_latlon_model_state.

Theorem C13_latlon_time_ratio : forall (T : Type) (O : NumOps T) dim sdim geo l a1 a2 a3 angles m,
  construct O dim sdim true true geo [l] [a1; a2; a3] angles = Some m ->
  g_anis m = [n1 O; n1 O; a3] /\ g_len_scale m = l.
Proof. exact @construct_latlon_time_ratio. Qed.
Print Assumptions C13_latlon_time_ratio.

(* 9b. the same invariants hold after EVERY history of len_scale / anis / angles / dim assignments (every number type;
       dim may go up or down): lat-lon: dim 3(+1), spatial ratios 1, all angles 0; metric temporal: angles of planes containing
       time are 0; list lengths dim-1 and no_of_angles dim; latlon / temporal / geo_scale never change, dim only by a dim assignment
       on a non-lat-lon model *)
Theorem C13_state_invariant_all_histories :
  forall (T : Type) (O : NumOps T) dim sdim latlon temporal geo ls anis angles m0 ops m,
  construct O dim sdim latlon temporal geo ls anis angles = Some m0 -> gsteps O m0 ops = Some m ->
  (1 <= g_dim m)%nat /\ length (g_anis m) = (g_dim m - 1)%nat /\ length (g_angles m) = no_of_angles (g_dim m) /\
  (g_latlon m = true ->
     g_dim m = (3 + b2n (g_temporal m))%nat /\ aget (n0 O) (g_anis m) 0 = n1 O /\ aget (n0 O) (g_anis m) 1 = n1 O /\
     g_angles m = repeat (n0 O) (no_of_angles (g_dim m))) /\
  (g_latlon m = false -> g_temporal m = true ->
     forall k, (no_of_angles (g_dim m - 1) <= k)%nat -> aget (n0 O) (g_angles m) k = n0 O) /\
  g_latlon m = latlon /\ g_temporal m = temporal /\ g_geo_scale m = g_geo_scale m0 /\
  (latlon = true -> g_dim m = g_dim m0).
Proof.
  intros T O dim sdim latlon temporal geo ls anis angles m0 ops m Hc Hs.
  destruct (construct_inv O _ _ _ _ _ _ _ _ _ Hc) as (Hi0 & El & Et).
  destruct (gsteps_inv O ops m0 m Hi0 Hs) as ((H1 & H2 & H3 & H4 & H5) & E2 & E3 & E4).
  rewrite <- El, <- Et. repeat (split; [assumption|]).
  intros Hl. destruct Hi0 as (_ & _ & _ & Hll0 & _). destruct (Hll0 Hl) as (D0 & _).
  rewrite <- E2 in Hl. destruct (H4 Hl) as (D & _). rewrite D, D0, E3. reflexivity.
Qed.
Print Assumptions C13_state_invariant_all_histories.

(* 9b'. consequence at the real instance, for a metric spatio-temporal model after ANY such history (dim >= 2 at the end):
        the isometrizing matrix is block diagonal at the time axis and a pure time lag is mapped to the last axis scaled by
        1 / anis[-1] (the time axis is never rotated into space, whatever was assigned before) *)
Theorem C13_time_axis_after_any_history :
  forall ora dim sdim geo ls anis angles m0 ops (m : geomodel (T := R)) (p : list R),
  construct (RO ora) dim sdim false true geo ls anis angles = Some m0 -> gsteps (RO ora) m0 ops = Some m ->
  (2 <= g_dim m)%nat ->
  let M := matrix_isometrize (RO ora) (g_dim m) (g_angles m) (g_anis m) in
  let tau := (g_dim m - 1)%nat in
  (forall i, (i < tau)%nat -> ent (RO ora) M i tau = 0 /\ ent (RO ora) M tau i = 0) /\
  ent (RO ora) M tau tau = 1 / last (g_anis m) 0 /\
  aget 0 (isometrize (RO ora) m p) tau = aget 0 p tau / last (g_anis m) 0.
Proof.
  intros ora dim sdim geo ls anis angles m0 ops m p Hc Hs H2.
  destruct (construct_inv (RO ora) _ _ _ _ _ _ _ _ _ Hc) as (Hi0 & El & Et).
  destruct (gsteps_inv (RO ora) ops m0 m Hi0 Hs) as (Hi & E2 & E3 & _).
  apply (time_axis_of_invariant_state ora m p Hi); [now rewrite E2 | now rewrite E3 | exact H2].
Qed.
Print Assumptions C13_time_axis_after_any_history.

(* 9c. assigning a scalar len_scale keeps every ratio — in particular the time ratio of a lat-lon + temporal model
       (this is the defect repaired by /repo commit b408ce8; the setter correspondence ties the model to the code) *)
Theorem C13_len_scale_keeps_time_ratio :
  forall (T : Type) (O : NumOps T) dim sdim latlon temporal geo ls anis angles m0 ops m l m',
  construct O dim sdim latlon temporal geo ls anis angles = Some m0 -> gsteps O m0 ops = Some m ->
  gstep O m (OpLen [l]) = Some m' -> g_anis m' = g_anis m /\ g_len_scale m' = l.
Proof.
  intros T O dim sdim latlon temporal geo ls anis angles m0 ops m l m' Hc Hs Hl.
  destruct (construct_inv O _ _ _ _ _ _ _ _ _ Hc) as (Hi0 & _ & _).
  destruct (gsteps_inv O ops m0 m Hi0 Hs) as (Hi & _).
  exact (len_scale_keeps_ratios O m l m' Hi Hl).
Qed.
Print Assumptions C13_len_scale_keeps_time_ratio.

(* 10. the time coordinate is appended and only divided / multiplied by the time scale (every number type) *)
Theorem C13_time_appended : forall (T : Type) (O : NumOps T) r ts ts' a b c t,
  latlon2pos O r true ts [a; b; t] = latlon2pos O r false ts' [a; b] ++ [ndiv O t ts] /\
  pos2latlon O r true ts [a; b; c; t] = pos2latlon O r false ts' [a; b; c] ++ [nmul O t ts].
Proof. intros. split; [apply latlon2pos_time_appended | apply pos2latlon_time_appended]. Qed.
Print Assumptions C13_time_appended.

(* 11. set_model_angles of a temporal model, EVERY dimension (every number type): the stored angle k is zeroed
       exactly when rotation plane k contains the time axis dim-1 (planes k >= no_of_angles (dim-1)); all other
       angles are the user's (padded) ones; and the plane list is the one of dim-1 followed by the time planes *)
Theorem C13_temporal_angles : forall (T : Type) (O : NumOps T) dim angles,
  length (set_model_angles O dim angles false true) = no_of_angles dim /\
  (forall k, (no_of_angles (dim - 1) <= k)%nat -> aget (n0 O) (set_model_angles O dim angles false true) k = n0 O) /\
  (forall k, (k < no_of_angles (dim - 1))%nat ->
     aget (n0 O) (set_model_angles O dim angles false true) k = aget (n0 O) (set_angles O dim angles) k).
Proof.
  intros T O dim angles. split; [apply set_model_angles_length|]. split; intros k Hk;
    [apply set_model_angles_temporal_zero | apply set_model_angles_temporal_keep]; exact Hk.
Qed.
Print Assumptions C13_temporal_angles.

Theorem C13_time_planes : forall m k, (k < no_of_angles (S (S m)))%nat ->
  length (rotation_planes (S (S m))) = no_of_angles (S (S m)) /\
  let pl := nth k (rotation_planes (S (S m))) (0, 0)%nat in
  if Nat.ltb k (no_of_angles (S m)) then (fst pl < snd pl)%nat /\ (snd pl < S m)%nat
  else snd pl = S m /\ fst pl = (k - no_of_angles (S m))%nat.
Proof. intros m k Hk. split; [apply rotation_planes_length | exact (time_planes m k Hk)]. Qed.
Print Assumptions C13_time_planes.

(* 12. hence the rotation and derotation matrices of a temporal model are block diagonal in EVERY dimension, for
       EVERY angle list: row and column of the time axis are those of the identity (time is never rotated into space) *)
Theorem C13_time_axis_never_rotated : forall ora dim angles, (1 <= dim)%nat ->
  let ang := set_model_angles (RO ora) dim angles false true in
  let tau := (dim - 1)%nat in
  forall M, M = matrix_rotate (RO ora) dim ang \/ M = matrix_derotate (RO ora) dim ang ->
    (forall i, (i < tau)%nat -> ent (RO ora) M i tau = 0 /\ ent (RO ora) M tau i = 0) /\ ent (RO ora) M tau tau = 1.
Proof.
  intros ora dim angles Hd ang tau M [-> | ->];
    [exact (rotate_time_block ora dim angles Hd) | exact (derotate_time_block ora dim angles Hd)].
Qed.
Print Assumptions C13_time_axis_never_rotated.

(* 13. and isometrize of a temporal model (dim >= 2, dim-1 ratios) maps the time coordinate to t / anis[-1] while
       no spatial output depends on t and the time output depends on no spatial input *)
Theorem C13_time_axis_scaled_by_last_ratio : forall ora dim angles anis (p : list R),
  (2 <= dim)%nat -> length anis = (dim - 1)%nat ->
  let M := matrix_isometrize (RO ora) dim (set_model_angles (RO ora) dim angles false true) anis in
  let tau := (dim - 1)%nat in
  (forall i, (i < tau)%nat -> ent (RO ora) M i tau = 0 /\ ent (RO ora) M tau i = 0) /\
  ent (RO ora) M tau tau = 1 / last anis 0 /\
  aget 0 (matvec (RO ora) dim M p) tau = aget 0 p tau / last anis 0.
Proof. exact isometrize_time_axis. Qed.
Print Assumptions C13_time_axis_scaled_by_last_ratio.

(* 14. rotations of the sphere: distances of (space-time) points are preserved, hence the kriging matrix and the
       right-hand sides (simple / ordinary kriging, any covariance functions, any measurement errors) are unchanged *)
Theorem C13_krige_rotation_invariant : forall ora (cf cfr : R -> R) unbiased cond_err Q n kpos tgt,
  orth3 ora Q -> (3 <= n)%nat ->
  Forall (fun p => length p = n) kpos -> Forall (fun p => length p = n) tgt ->
  krige_mat (RO ora) cf unbiased cond_err (map (rot ora Q) kpos) = krige_mat (RO ora) cf unbiased cond_err kpos /\
  krige_vecs (RO ora) cfr unbiased (map (rot ora Q) kpos) (map (rot ora Q) tgt) = krige_vecs (RO ora) cfr unbiased kpos tgt.
Proof. intros ora cf cfr unbiased cond_err Q n kpos tgt HQ. exact (krige_rotation_invariant ora cf cfr unbiased cond_err Q HQ n kpos tgt). Qed.
Print Assumptions C13_krige_rotation_invariant.

(* 15. in lat-lon terms (data and targets rotated ON the sphere: to 3-D, rotate, back to lat-lon(-time)): the system
       handed to the solver is identical, so every kriging output is, whatever the solver computes from it *)
Theorem C13_krige_sphere_rotation_invariant :
  forall ora (m : geomodel (T := R)) (cf cfr : R -> R) unbiased cond_err Q cond tgt
         (A : Type) (solve : list (list R) * list (list R) -> A),
  orth3 ora Q -> g_latlon m = true -> 0 < g_geo_scale m -> (g_temporal m = true -> last (g_anis m) 0 <> 0) ->
  Forall (fun p => length p = (2 + b2n (g_temporal m))%nat) cond ->
  Forall (fun p => length p = (2 + b2n (g_temporal m))%nat) tgt ->
  solve (krige_system (RO ora) m cf cfr unbiased cond_err (map (rot_latlon ora m Q) cond) (map (rot_latlon ora m Q) tgt))
  = solve (krige_system (RO ora) m cf cfr unbiased cond_err cond tgt).
Proof.
  intros ora m cf cfr unbiased cond_err Q cond tgt A solve HQ Hl Hg Ha Hc Ht. f_equal.
  exact (krige_sphere_rotation_invariant ora m cf cfr unbiased cond_err Q cond tgt HQ Hl Hg Ha Hc Ht).
Qed.
Print Assumptions C13_krige_sphere_rotation_invariant.

(* 16. the hypotheses above are satisfiable: every rotation about the z axis is an orth3, and a km-scaled
       lat-lon + time model with time ratio 1/2 constructs *)
Theorem C13_hypotheses_satisfiable : forall ora,
  (forall a, orth3 ora [[cos a; - sin a; 0]; [sin a; cos a; 0]; [0; 0; 1]]) /\
  (exists m, construct (RO ora) 2 None true true 6371 [1000] [1; 1; / 2] [] = Some m /\
             g_temporal m = true /\ 0 < g_geo_scale m /\ last (g_anis m) 0 <> 0).
Proof. intros ora. exact (conj (orth3_rotz ora) (construct_example ora)). Qed.
Print Assumptions C13_hypotheses_satisfiable.

(* 17. ties: the model's distance conversions are the formulas translated from tools/geometric.py on this run
       (gen/Formulas_gen.v), for every number type, no side condition (clipping included: one comparison each) *)
Theorem C13_tie_great_circle_to_chordal : forall (T : Type) (O : NumOps T) (dist radius : T),
  Formulas_gen.great_circle_to_chordal O dist radius = C13_Model.great_circle_to_chordal O dist radius.
Proof. exact great_circle_to_chordal_tie. Qed.
Print Assumptions C13_tie_great_circle_to_chordal.

Theorem C13_tie_chordal_to_great_circle : forall (T : Type) (O : NumOps T) (dist radius : T),
  Formulas_gen.chordal_to_great_circle O dist radius = C13_Model.chordal_to_great_circle O dist radius.
Proof. exact chordal_to_great_circle_tie. Qed.
Print Assumptions C13_tie_chordal_to_great_circle.

(* cov_yadrenko = covariance o (translated great_circle_to_chordal zeta geo_scale) *)
Theorem C13_tie_cov_yadrenko : forall (T : Type) (O : NumOps T) (cf : T -> T) geo zeta,
  cov_yadrenko O cf geo zeta = cf (Formulas_gen.great_circle_to_chordal O zeta geo).
Proof. exact gen_cov_yadrenko. Qed.
Print Assumptions C13_tie_cov_yadrenko.

(* 18. theorems 6 and 4 restated on the TRANSLATED source formulas (and the translated estimator kernel) *)
Theorem C13_source_chordal_great_circle_inverse : forall ora r, 0 < r ->
  (forall d, 0 <= d <= 2 * r ->
     Formulas_gen.great_circle_to_chordal (RO ora) (Formulas_gen.chordal_to_great_circle (RO ora) d r) r = d) /\
  (forall z, 0 <= z <= PI * r ->
     Formulas_gen.chordal_to_great_circle (RO ora) (Formulas_gen.great_circle_to_chordal (RO ora) z r) r = z).
Proof. exact gen_chordal_great_circle_inverse. Qed.
Print Assumptions C13_source_chordal_great_circle_inverse.

Theorem C13_source_estimator_distance_is_model_distance : forall ora r pos i j, 0 < r ->
  dist (RO ora) (latlon2pos (RO ora) r false 1 [aget2 0 pos 0 i; aget2 0 pos 1 i])
                (latlon2pos (RO ora) r false 1 [aget2 0 pos 0 j; aget2 0 pos 1 j])
  = Formulas_gen.great_circle_to_chordal (RO ora) (r * dist_haversine (RO ora) 2 pos i j) r
  /\ Formulas_gen.chordal_to_great_circle (RO ora)
       (dist (RO ora) (latlon2pos (RO ora) r false 1 [aget2 0 pos 0 i; aget2 0 pos 1 i])
                      (latlon2pos (RO ora) r false 1 [aget2 0 pos 0 j; aget2 0 pos 1 j])) r
     = r * dist_haversine (RO ora) 2 pos i j.
Proof. exact gen_estimator_distance_is_model_distance. Qed.
Print Assumptions C13_source_estimator_distance_is_model_distance.

(* 19. holders (Krige / CondSRF keep the isometrized conditioning positions): for EVERY operation history (model
       replacement, in-place changes of the held model, set_condition(), set_condition(new data)) whose last operation
       is not an in-place change, the system an evaluation hands to the solver is the one of a FRESH object built from
       the present model and data — every number type; a model replacement is the same as a fresh initialisation *)
Theorem C13_holder_history_is_fresh :
  forall (T : Type) (O : NumOps T) (h : holder (T := T)) ops op cf cfr unbiased cond_err tgt,
  refreshing op = true ->
  let h' := hrun O h (ops ++ [op]) in
  h_kpos h' = map (isometrize O (h_model h')) (h_cond h') /\
  holder_system O h' cf cfr unbiased cond_err tgt = krige_system O (h_model h') cf cfr unbiased cond_err (h_cond h') tgt.
Proof.
  intros T O h ops op cf cfr unbiased cond_err tgt Hr h'.
  pose proof (holder_history_coherent O h ops op Hr) as Hc.
  split; [exact Hc | exact (holder_system_is_fresh O h' cf cfr unbiased cond_err tgt Hc)].
Qed.
Print Assumptions C13_holder_history_is_fresh.

Theorem C13_holder_set_model_is_init : forall (T : Type) (O : NumOps T) (h : holder (T := T)) ops m,
  hrun O h (ops ++ [HSetModel m]) = hinit O m (h_cond (hrun O h ops)).
Proof. exact @holder_set_model_is_init. Qed.
Print Assumptions C13_holder_set_model_is_init.
