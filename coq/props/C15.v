(* C15 — compiled summation kernels equal their source semantics under every thread count.
   Only statements; proofs live in c15/*.v.  T and its operations are arbitrary: the theorems
   hold for IEEE doubles as they are (rounding, NaN, no algebraic law is used).
   [*_sched] are the Gallina translations of the .pyx kernels (gen/*.v, regenerated on every
   run) with the order in which prange iterations execute as a parameter; [is_sched s] says
   that s permutes the iteration list. *)
From Coq Require Import List ZArith.
From GS Require Import Num Loops Summator_gen Krigesum_gen Estimator_gen C15_KernelSpec C15_SummatorProofs C15_VarioSpec C15_VarioProofs C15_DirSpec C15_DirProofs.

Theorem C15_summate_any_schedule :
  forall (T : Type) (O : NumOps T) sched ks z1 z2 pos, is_sched sched ->
    summate_sched O sched ks z1 z2 pos = summate_spec O ks z1 z2 pos.
Proof. exact @summate_any_schedule. Qed.
Print Assumptions C15_summate_any_schedule.

Theorem C15_summate_fourier_any_schedule :
  forall (T : Type) (O : NumOps T) sched sf modes z1 z2 pos, is_sched sched ->
    summate_fourier_sched O sched sf modes z1 z2 pos = summate_fourier_spec O sf modes z1 z2 pos.
Proof. exact @summate_fourier_any_schedule. Qed.
Print Assumptions C15_summate_fourier_any_schedule.

Theorem C15_krige_any_schedule :
  forall (T : Type) (O : NumOps T) sched mat vecs cond, is_sched sched ->
    calc_field_krige_sched O sched mat vecs cond = krige_field_spec O mat vecs cond.
Proof. exact @krige_any_schedule. Qed.
Print Assumptions C15_krige_any_schedule.

Theorem C15_krige_var_any_schedule :
  forall (T : Type) (O : NumOps T) sched mat vecs cond, is_sched sched ->
    calc_field_krige_and_variance_sched O sched mat vecs cond
    = (krige_field_spec O mat vecs cond, krige_error_spec O mat vecs).
Proof. exact @krige_var_any_schedule. Qed.
Print Assumptions C15_krige_var_any_schedule.

(* variogram estimators: every bin / lag is the fold over ALL pairs in lexicographic order, whatever the
   order in which the parallel iterations ran (specs: c15/C15_VarioSpec.v) *)
Theorem C15_unstructured_any_schedule :
  forall (T : Type) (O : NumOps T) sched f edges pos et dt, is_sched sched ->
    unstructured_sched O sched f edges pos et dt = unstructured_spec O f edges pos et dt.
Proof. exact @unstructured_any_schedule. Qed.
Print Assumptions C15_unstructured_any_schedule.

Theorem C15_structured_any_schedule :
  forall (T : Type) (O : NumOps T) sched f et, (forall i j, is_sched (sched i j)) ->
    structured_sched O sched f et = structured_spec O f et.
Proof. exact @structured_any_schedule. Qed.
Print Assumptions C15_structured_any_schedule.

Theorem C15_ma_structured_any_schedule :
  forall (T : Type) (O : NumOps T) sched f mask et, (forall i j, is_sched (sched i j)) ->
    ma_structured_sched O sched f mask et = ma_structured_spec O f mask et.
Proof. exact @ma_structured_any_schedule. Qed.
Print Assumptions C15_ma_structured_any_schedule.

Theorem C15_directional_any_schedule :
  forall (T : Type) (O : NumOps T) sched f edges pos direction tol bw sep et, is_sched sched ->
    directional_sched O sched f edges pos direction tol bw sep et
    = directional_spec O f edges pos direction tol bw sep et.
Proof. exact @directional_any_schedule. Qed.
Print Assumptions C15_directional_any_schedule.

(* non-vacuity: reversing the iteration list is a schedule, and the spec is a plain value *)
Theorem C15_schedules_exist : is_sched (fun l => l) /\ is_sched (@rev nat).
Proof. exact (conj is_sched_id is_sched_rev). Qed.
Print Assumptions C15_schedules_exist.
