(* C10 — variogram fitting honours constraints.  Statements only; proofs in coq/c10/.
   FitBook (C10_Model.v) models fit_variogram's bookkeeping; scipy's curve_fit is an oracle: [evs] is the arbitrary finite list
   of argument vectors at which it evaluated the curve, [popt] what it returned.  No theorem needs any hypothesis on them.
   [fit_run O true ...] is the bookkeeping of the current (repaired) tree, [fit_run O false ...] that of the pinned tree. *)
From Coq Require Import Reals QArith List Arith.
From GS Require Import Num Loops RInst C10_Model C10_Proofs C10_RProofs C10_Fixed C10_Refute.
Import ListNotations.

(* 1. every number type (IEEE doubles included): the optimiser's path does not matter *)
Theorem C10_trace_independent :
  forall (T : Type) (O : NumOps T) (c : Cfg T) (nopt : nat) (sel : list (nat * Sel T)) (sill : SillSpec T) (anis : AnisSpec T)
         (isdir : bool) (evs1 evs2 : list (list T)) (popt : list T) (s0 : MState T) (r1 r2 : MState T * Dict T),
  length (m_opt s0) = nopt ->
  fit_run O true c nopt sel sill anis isdir evs1 popt s0 = Ok r1 ->
  fit_run O true c nopt sel sill anis isdir evs2 popt s0 = Ok r2 ->
  r1 = r2.
Proof. exact @trace_independent. Qed.
Print Assumptions C10_trace_independent.

(* 2. every number type: len_scale, nugget (no sill), optional arguments and anis that are deselected or fixed keep their values *)
Theorem C10_fixed_untouched :
  forall (T : Type) (O : NumOps T) (d0 : T) (c : Cfg T) (nopt : nat) (sel : list (nat * Sel T)) (sill : SillSpec T)
         (anis : AnisSpec T) (isdir : bool) (evs : list (list T)) (popt : list T) (s0 s' : MState T) (d : Dict T),
  length (m_opt s0) = nopt -> NoDup (map fst sel) ->
  fit_run O true c nopt sel sill anis isdir evs popt s0 = Ok (s', d) ->
  ((forall v, In (1%nat, SFixed v) sel -> m_len s' = v) /\ (In (1%nat, SDesel) sel -> m_len s' = m_len s0))
  /\ (sill = SillNone ->
      (forall v, In (2%nat, SFixed v) sel -> m_nug s' = v) /\ (In (2%nat, SDesel) sel -> m_nug s' = m_nug s0))
  /\ (forall j, (j < nopt)%nat ->
      (forall v, In ((3 + j)%nat, SFixed v) sel -> aget d0 (m_opt s') j = v)
      /\ (In ((3 + j)%nat, SDesel) sel -> aget d0 (m_opt s') j = aget d0 (m_opt s0) j))
  /\ match anis with
     | AFixed a => m_anis s' = norm_anis O c a
     | ATrue => isdir = false -> m_anis s' = m_anis s0
     | AFalse => m_anis s' = m_anis s0
     end.
Proof. exact @fixed_untouched. Qed.
Print Assumptions C10_fixed_untouched.

(* 3. at R: a fixed / deselected variance survives every rescaling of the raw variance by var_factor *)
Theorem C10_fixed_untouched_var :
  forall (ora : nat -> list R -> R), (forall args, ora ORA_VARFACTOR args <> 0%R) ->
  forall (c : Cfg R) (nopt : nat) (sel : list (nat * Sel R)) (anis : AnisSpec R) (isdir : bool) (evs : list (list R))
         (popt : list R) (s0 s' : MState R) (d : Dict R),
  length (m_opt s0) = nopt -> NoDup (map fst sel) ->
  fit_run (Rops ora) true c nopt sel SillNone anis isdir evs popt s0 = Ok (s', d) ->
  (forall v, In (0%nat, SFixed v) sel -> get_var (Rops ora) s' = v)
  /\ (In (0%nat, SDesel) sel -> get_var (Rops ora) s' = get_var (Rops ora) s0).
Proof. exact fixed_untouched_var. Qed.
Print Assumptions C10_fixed_untouched_var.

(* 4. at R: a prescribed sill is met exactly *)
Theorem C10_sill_exact :
  forall (ora : nat -> list R -> R), (forall args, ora ORA_VARFACTOR args <> 0%R) ->
  forall (c : Cfg R) (nopt : nat) (sel : list (nat * Sel R)) (anis : AnisSpec R) (isdir : bool) (evs : list (list R))
         (popt : list R) (s0 s' : MState R) (d : Dict R) (v : R),
  length (m_opt s0) = nopt ->
  fit_run (Rops ora) true c nopt sel (SillVal v) anis isdir evs popt s0 = Ok (s', d) ->
  (get_var (Rops ora) s' + m_nug s')%R = v.
Proof. exact sill_exact. Qed.
Print Assumptions C10_sill_exact.

(* 5. at R: sill=False keeps the sill the model has once the fixed values are applied *)
Theorem C10_sill_exact_current :
  forall (ora : nat -> list R -> R), (forall args, ora ORA_VARFACTOR args <> 0%R) ->
  forall (c : Cfg R) (nopt : nat) (sel : list (nat * Sel R)) (anis : AnisSpec R) (isdir : bool) (evs : list (list R))
         (popt : list R) (s0 s' t1 t2 : MState R) (d : Dict R),
  length (m_opt s0) = nopt ->
  apply_fixed (Rops ora) c nopt sel s0 = Ok t1 ->
  oset (set_var (Rops ora) c) (var_target (Rops ora) true sel s0) t1 = Ok t2 ->
  fit_run (Rops ora) true c nopt sel SillCurrent anis isdir evs popt s0 = Ok (s', d) ->
  (get_var (Rops ora) s' + m_nug s')%R = (get_var (Rops ora) t2 + m_nug t2)%R.
Proof. exact sill_exact_current. Qed.
Print Assumptions C10_sill_exact_current.

(* 6. at R: the returned dictionary equals the model state after the call *)
Theorem C10_dict_equals_state :
  forall (ora : nat -> list R -> R), (forall args, ora ORA_VARFACTOR args <> 0%R) ->
  forall (c : Cfg R) (nopt : nat) (sel : list (nat * Sel R)) (sill : SillSpec R) (anis : AnisSpec R) (isdir : bool)
         (evs : list (list R)) (popt : list R) (s0 s' : MState R) (d : Dict R),
  length (m_opt s0) = nopt ->
  fit_run (Rops ora) true c nopt sel sill anis isdir evs popt s0 = Ok (s', d) ->
  d_var d = get_var (Rops ora) s' /\ d_len d = m_len s' /\ d_nug d = m_nug s' /\ d_opt d = m_opt s'
  /\ d_anis d = (if isdir then Some (m_anis s') else None).
Proof. exact dict_equals_state. Qed.
Print Assumptions C10_dict_equals_state.

(* 7. every number type: all dictionary entries but the variance are read off the final state *)
Theorem C10_dict_equals_state_structural :
  forall (T : Type) (O : NumOps T) (c : Cfg T) (nopt : nat) (sel : list (nat * Sel T)) (sill : SillSpec T) (anis : AnisSpec T)
         (isdir : bool) (evs : list (list T)) (popt : list T) (s0 s' : MState T) (d : Dict T),
  length (m_opt s0) = nopt ->
  fit_run O true c nopt sel sill anis isdir evs popt s0 = Ok (s', d) ->
  d_len d = m_len s' /\ d_nug d = m_nug s' /\ d_opt d = m_opt s'
  /\ d_anis d = (if isdir then Some (m_anis s') else None).
Proof. exact @dict_structural. Qed.
Print Assumptions C10_dict_equals_state_structural.

(* 8. at R: after a successful call every parameter satisfies its declared (open / closed) bounds *)
Theorem C10_inside_bounds :
  forall (ora : nat -> list R -> R),
  forall (c : Cfg R) (nopt : nat) (sel : list (nat * Sel R)) (sill : SillSpec R) (anis : AnisSpec R) (isdir : bool)
         (evs : list (list R)) (popt : list R) (s0 s' : MState R) (d : Dict R),
  length (m_opt s0) = nopt -> check_ok (Rops ora) c s0 = true ->
  fit_run (Rops ora) true c nopt sel sill anis isdir evs popt s0 = Ok (s', d) ->
  in_bnd (c_bvar c) (get_var (Rops ora) s') /\ in_bnd (c_blen c) (m_len s') /\ in_bnd (c_bnug c) (m_nug s')
  /\ Forall (in_bnd (c_banis c)) (m_anis s')
  /\ (forall j b v, nth_error (c_bopt c) j = Some b -> nth_error (m_opt s') j = Some v -> in_bnd b v).
Proof. exact inside_bounds. Qed.
Print Assumptions C10_inside_bounds.

(* 9. at R: the fitted parameters are the optimum that curve_fit returned; the nugget that a sill determines is sill - var *)
Theorem C10_popt_applied :
  forall (ora : nat -> list R -> R), (forall args, ora ORA_VARFACTOR args <> 0%R) ->
  forall (c : Cfg R) (nopt : nat) (sel : list (nat * Sel R)) (sill : SillSpec R) (anis : AnisSpec R) (isdir : bool)
         (evs : list (list R)) (popt : list R) (s0 s1 s' : MState R) (para : Para) (so : option R) (af : bool) (d : Dict R),
  length (m_opt s0) = nopt ->
  pre_para (Rops ora) true c nopt sel sill anis s0 = Ok (s1, para, so, af) ->
  fit_run (Rops ora) true c nopt sel sill anis isdir evs popt s0 = Ok (s', d) ->
  let vs := vals_of (Rops ora) c para (af && isdir) popt in
  (forall v, v_var vs = Some v -> get_var (Rops ora) s' = v /\ (forall sv, so = Some sv -> m_nug s' = (sv - v)%R))
  /\ (forall v, v_len vs = Some v -> m_len s' = v)
  /\ (forall v, v_nug vs = Some v -> so = None -> m_nug s' = v)
  /\ m_opt s' = ov_opts (v_opt vs) 0 (m_opt s1)
  /\ (forall a, v_anis vs = Some a -> m_anis s' = norm_anis (Rops ora) c a).
Proof. exact popt_applied. Qed.
Print Assumptions C10_popt_applied.

(* 9b. at R: during the optimisation every evaluation of the curve leaves the model with the requested (fixed / deselected)
   variance, whatever len_scale / opt args the evaluation wrote (TPL models: var_factor changes); [fit_trace] is the list of
   model states after each evaluation, the last of which is the state _post_fitting starts from (C10_Proofs.evals_states_run) *)
Theorem C10_curve_restores_variance :
  forall (ora : nat -> list R -> R), (forall args, ora ORA_VARFACTOR args <> 0%R) ->
  forall (c : Cfg R) (nopt : nat) (sel : list (nat * Sel R)) (sill : SillSpec R) (anis : AnisSpec R) (isdir : bool)
         (evs : list (list R)) (s0 s1 : MState R) (para : Para) (so : option R) (af : bool) (l : list (MState R)),
  pre_para (Rops ora) true c nopt sel sill anis s0 = Ok (s1, para, so, af) ->
  p_var para = false ->
  fit_trace (Rops ora) true c nopt sel sill anis isdir evs s0 = Ok l ->
  Forall (fun s' => get_var (Rops ora) s' = get_var (Rops ora) s1) l.
Proof. exact trace_restores_variance. Qed.
Print Assumptions C10_curve_restores_variance.

(* 9c. at R: the decision table of a prescribed sill value ([t2] = the model right after the fixed values were applied):
   var and nugget both not fitted and var above the sill -> nugget = its lower bound, var = sill - that bound;
   var not fitted otherwise -> var kept, nugget = sill - var;  only the nugget not fitted -> nugget kept, var = sill - nugget *)
Theorem C10_sill_decision_table :
  forall (ora : nat -> list R -> R), (forall args, ora ORA_VARFACTOR args <> 0%R) ->
  forall (c : Cfg R) (nopt : nat) (sel : list (nat * Sel R)) (anis : AnisSpec R) (isdir : bool) (evs : list (list R))
         (popt : list R) (s0 s' t1 t2 : MState R) (d : Dict R) (v : R),
  length (m_opt s0) = nopt ->
  apply_fixed (Rops ora) c nopt sel s0 = Ok t1 ->
  oset (set_var (Rops ora) c) (var_target (Rops ora) true sel s0) t1 = Ok t2 ->
  fit_run (Rops ora) true c nopt sel (SillVal v) anis isdir evs popt s0 = Ok (s', d) ->
  (nf_in sel 0 = true -> nf_in sel 2 = true -> (v < get_var (Rops ora) t2)%R ->
     exists l, b_lo (c_bnug c) = Some l /\ m_nug s' = l /\ get_var (Rops ora) s' = (v - l)%R)
  /\ (nf_in sel 0 = true -> (nf_in sel 2 = true -> ~ (v < get_var (Rops ora) t2)%R) ->
     get_var (Rops ora) s' = get_var (Rops ora) t2 /\ m_nug s' = (v - get_var (Rops ora) t2)%R)
  /\ (nf_in sel 0 = false -> nf_in sel 2 = true ->
     m_nug s' = m_nug t2 /\ get_var (Rops ora) s' = (v - m_nug t2)%R).
Proof. exact sill_decision_table. Qed.
Print Assumptions C10_sill_decision_table.

(* 9d. at R: the r2 score (1 - ss_res/ss_tot of the fitted curve [vs] against the data [ys]) is at most 1, and it is 1
   exactly when the fitted curve passes through every data point ("recovers the generating curve") *)
Theorem C10_r2_le_1 :
  forall (ora : nat -> list R -> R) (ys vs : list R), (0 < ss_tot (Rops ora) ys)%R -> (r2_score (Rops ora) ys vs <= 1)%R.
Proof. exact r2_le_1. Qed.
Print Assumptions C10_r2_le_1.

Theorem C10_r2_eq_1_iff :
  forall (ora : nat -> list R -> R) (ys vs : list R), length ys = length vs -> (0 < ss_tot (Rops ora) ys)%R ->
  (r2_score (Rops ora) ys vs = 1%R <-> ys = vs).
Proof. exact r2_eq_1_iff. Qed.
Print Assumptions C10_r2_eq_1_iff.

(* 10-12. the bookkeeping of the PINNED tree violates the property (rationals, computed) *)
Theorem C10_sill_exact_refuted :
  exists (s' : MState Q) (d : Dict Q),
    check_ok (Qops false) cfg1 st1 = true /\
    fit_run (Qops false) false cfg1 0 [(1%nat, SDesel)] (SillVal 1) ATrue false [[1 # 2]; [3 # 4]] [1 # 2] st1 = Ok (s', d)
    /\ ~ (get_var (Qops false) s' + m_nug s' == 1)
    /\ get_var (Qops false) s' + m_nug s' == 3 # 4.
Proof. exact sill_refuted. Qed.
Print Assumptions C10_sill_exact_refuted.

Theorem C10_fixed_var_refuted :
  exists (s' : MState Q) (d : Dict Q),
    check_ok (Qops true) cfg1 st1 = true /\
    fit_run (Qops true) false cfg1 0 [(0%nat, SFixed 2); (2%nat, SDesel)] SillNone ATrue false [[2]; [3]] [2] st1 = Ok (s', d)
    /\ ~ (get_var (Qops true) s' == 2) /\ ~ (d_var d == get_var (Qops true) s').
Proof. exact fixed_var_refuted. Qed.
Print Assumptions C10_fixed_var_refuted.

Theorem C10_deselected_var_refuted :
  exists (s' : MState Q) (d : Dict Q),
    check_ok (Qops true) cfg1 st1 = true /\
    fit_run (Qops true) false cfg1 0 [(0%nat, SDesel); (1%nat, SFixed 2)] SillNone ATrue false [[1 # 3]] [1 # 3] st1 = Ok (s', d)
    /\ get_var (Qops true) st1 == 1 /\ ~ (get_var (Qops true) s' == 1).
Proof. exact desel_var_refuted. Qed.
Print Assumptions C10_deselected_var_refuted.
