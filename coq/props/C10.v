From Coq Require Import List.
From GS Require Import Num C10_Model.
Theorem C10_placeholder : forall (T : Type) (O : NumOps T) (c : Cfg T) (s : MState T), run_evals O c (mkPara true true true nil) None false (n0 O) nil s = Ok s.
Proof. reflexivity. Qed.
Print Assumptions C10_placeholder.
