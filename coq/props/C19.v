(* C19 — field transformations produce their documented target distributions.
   Only statements; proofs live in c19/*.v.

   [Rops erf erfinv] is the real-number instance of the model's number interface; erf / erfinv
   (scipy.special) are universally quantified and constrained only by [erf_hyps]
   (strictly increasing, odd, range (-1,1), mutually inverse).  [ncdf erf m v] is the cdf of
   N(m, v) written with erf: Phi((x-m)/sqrt v), Phi z = (1 + erf (z / sqrt 2)) / 2.
   "T pushes N(m,v) forward to the law with cdf F" is stated as: T strictly increasing and
   F (T x) = ncdf m v x for every real x. *)
From Coq Require Import Reals List ZArith.
From GS Require Import Num Loops Formulas Formulas_gen C19_Model C19_RInst C19_Proofs C19_Discrete C19_Final C19_Tie.
Open Scope R_scope.

(* the hypotheses on the oracle functions are satisfiable *)
Theorem C19_erf_hyps_satisfiable : exists erf erfinv, erf_hyps erf erfinv.
Proof. exact erf_hyps_satisfiable. Qed.
Print Assumptions C19_erf_hyps_satisfiable.

Theorem C19_uniform_pushforward :
  forall erf erfinv, erf_hyps erf erfinv -> forall m v low high, 0 < v -> low < high ->
    (forall x, cdf_uniform low high (to_uniform_elem (Rops erf erfinv) m v low high x) = ncdf erf m v x) /\
    (forall x, low < to_uniform_elem (Rops erf erfinv) m v low high x < high) /\
    (forall x y, x < y -> to_uniform_elem (Rops erf erfinv) m v low high x < to_uniform_elem (Rops erf erfinv) m v low high y).
Proof. exact F_uniform. Qed.
Print Assumptions C19_uniform_pushforward.

Theorem C19_lognormal_pushforward :
  forall erf erfinv m v,
    (forall x, cdf_lognormal erf m v (nexp (Rops erf erfinv) x) = ncdf erf m v x) /\
    (forall x, 0 < nexp (Rops erf erfinv) x) /\
    (forall x y, x < y -> nexp (Rops erf erfinv) x < nexp (Rops erf erfinv) y).
Proof. exact F_lognormal. Qed.
Print Assumptions C19_lognormal_pushforward.

Theorem C19_arcsine_pushforward :
  forall erf erfinv, erf_hyps erf erfinv -> forall m v a b, 0 < v -> a < b ->
    (forall x, cdf_arcsine a b (to_arcsin_elem (Rops erf erfinv) m v a b x) = ncdf erf m v x) /\
    (forall x, a < to_arcsin_elem (Rops erf erfinv) m v a b x < b) /\
    (forall x y, x < y -> to_arcsin_elem (Rops erf erfinv) m v a b x < to_arcsin_elem (Rops erf erfinv) m v a b y).
Proof. exact F_arcsine. Qed.
Print Assumptions C19_arcsine_pushforward.

Theorem C19_uquad_pushforward :
  forall erf erfinv, erf_hyps erf erfinv -> forall m v a b, 0 < v -> a < b ->
    (forall x, cdf_uquad a b (to_uquad_elem (Rops erf erfinv) m v a b x) = ncdf erf m v x) /\
    (forall x, a < to_uquad_elem (Rops erf erfinv) m v a b x < b) /\
    (forall x y, x < y -> to_uquad_elem (Rops erf erfinv) m v a b x < to_uquad_elem (Rops erf erfinv) m v a b y).
Proof. exact F_uquad. Qed.
Print Assumptions C19_uquad_pushforward.

(* default bounds of arcsine / U-quadratic keep mean and variance (and are a proper interval) *)
Theorem C19_default_bounds_moments :
  forall erf erfinv m v, 0 <= v ->
    let O := Rops erf erfinv in
    arcsine_mean (arcsin_default_a O m v) (arcsin_default_b O m v) = m /\
    arcsine_var (arcsin_default_a O m v) (arcsin_default_b O m v) = v /\
    uquad_mean (uquad_default_a O m v) (uquad_default_b O m v) = m /\
    uquad_var (uquad_default_a O m v) (uquad_default_b O m v) = v /\
    (0 < v -> arcsin_default_a O m v < arcsin_default_b O m v /\
              uquad_default_a O m v < uquad_default_b O m v).
Proof. exact F_default_bounds. Qed.
Print Assumptions C19_default_bounds_moments.

(* Zinn & Harvey: |x-m|/sigma (half-normal) is mapped monotonically to a standard normal quantile;
   "high" is the mirror image of "low", so the order of |x-m| is reversed *)
Theorem C19_zinnharvey_normal :
  forall erf erfinv, erf_hyps erf erfinv -> forall m v, 0 < v ->
    let O := Rops erf erfinv in
    (forall x, x <> m ->
       ncdf erf m v (zinnharvey_elem O false m v x) = halfnormal_cdf erf (Rabs ((x - m) / sqrt v)) /\
       ncdf erf m v (zinnharvey_elem O true m v x) = 1 - halfnormal_cdf erf (Rabs ((x - m) / sqrt v))) /\
    (forall x y, x <> m -> Rabs (x - m) < Rabs (y - m) ->
       zinnharvey_elem O false m v x < zinnharvey_elem O false m v y /\
       zinnharvey_elem O true m v y < zinnharvey_elem O true m v x) /\
    (forall x, zinnharvey_elem O true m v x - m = - (zinnharvey_elem O false m v x - m)).
Proof. exact F_zinnharvey. Qed.
Print Assumptions C19_zinnharvey_normal.

(* array_boxcox is the inverse of the BoxCox normalizer (and equals its denormalize) wherever it is not cut off *)
Theorem C19_boxcox_inverts_normalizer :
  forall erf erfinv lmbda shift x,
    let O := Rops erf erfinv in
    (isclose0 O lmbda = true ->
       0 < array_boxcox_elem O lmbda shift x /\
       boxcox_normalize O lmbda (array_boxcox_elem O lmbda shift x) = x + shift) /\
    (isclose0 O lmbda = false -> 0 < lmbda * (x + shift) + 1 ->
       0 < array_boxcox_elem O lmbda shift x /\
       boxcox_normalize O lmbda (array_boxcox_elem O lmbda shift x) = x + shift /\
       array_boxcox_elem O lmbda shift x = boxcox_denormalize O lmbda (x + shift)).
Proof. exact F_boxcox. Qed.
Print Assumptions C19_boxcox_inverts_normalizer.

(* array_boxcox is strictly increasing wherever it is not cut off: with the inverse-pair identity, a normal input
   N(m, v) becomes a field whose Box-Cox normalisation is N(m + shift, v) *)
Theorem C19_boxcox_increasing :
  forall erf erfinv lmbda shift x y, x < y ->
    let O := Rops erf erfinv in
    (isclose0 O lmbda = true -> array_boxcox_elem O lmbda shift x < array_boxcox_elem O lmbda shift y) /\
    (isclose0 O lmbda = false -> 0 < lmbda * (x + shift) + 1 -> 0 < lmbda * (y + shift) + 1 ->
       array_boxcox_elem O lmbda shift x < array_boxcox_elem O lmbda shift y).
Proof. exact boxcox_increasing. Qed.
Print Assumptions C19_boxcox_increasing.

(* force_moments: for every finite non-constant sample the output has EXACTLY the requested sample
   mean and (population) variance *)
Theorem C19_force_moments_exact :
  forall erf erfinv (field : list R) (mean var : R),
    field <> nil -> 0 < Rvar field -> 0 <= var ->
    let out := array_force_moments (Rops erf erfinv) field mean var in
    length out = length field /\ Rmean out = mean /\ Rvar out = var.
Proof. exact force_moments_exact. Qed.
Print Assumptions C19_force_moments_exact.

(* discrete: whenever array_discrete's set-up does not raise (any threshold mode), the cell receives the
   value of the unique class i with thr[i-1] < x <= thr[i], independently of the previous cell content
   (np.empty_like), and that value is one of the given values *)
Theorem C19_discrete_values_partition :
  forall erf erfinv field values mode mean var vals thr,
    let O := Rops erf erfinv in
    discrete_setup O field values mode mean var = Ok (vals, thr) ->
    (forall v, In v vals <-> In v values) /\ length vals = S (length thr) /\
    forall g x, exists i,
      in_class thr x i /\
      (forall j, in_class thr x j -> j = i) /\
      discrete_elem O vals thr g x = nth i vals 0 /\
      In (discrete_elem O vals thr g x) values.
Proof. exact discrete_values_partition. Qed.
Print Assumptions C19_discrete_values_partition.

Theorem C19_discrete_output_in_values :
  forall erf erfinv field values mode mean var g out,
    array_discrete (Rops erf erfinv) g field values mode mean var = Ok out ->
    length out = length field /\ Forall (fun y => In y values) out.
Proof. exact array_discrete_output. Qed.
Print Assumptions C19_discrete_output_in_values.

(* 'arithmetic': thresholds are the midpoints of the sorted values, so the class value is a value nearest to x *)
Theorem C19_discrete_arithmetic_nearest :
  forall erf erfinv field values mean var vals thr,
    let O := Rops erf erfinv in
    discrete_setup O field values ThrArith mean var = Ok (vals, thr) ->
    Permutation.Permutation vals values /\ Sorted.Sorted Rle vals /\
    (forall i, (i < length thr)%nat -> nth i thr 0 = (nth i vals 0 + nth (S i) vals 0) / 2) /\
    (forall g x v, In v values -> Rabs (x - discrete_elem O vals thr g x) <= Rabs (x - v)).
Proof. exact arithmetic_thresholds. Qed.
Print Assumptions C19_discrete_arithmetic_nearest.

(* 'equal': the thresholds are the i/n quantiles of N(m, v): ascending, and every class has probability 1/n *)
Theorem C19_discrete_equal_quantiles :
  forall erf erfinv, erf_hyps erf erfinv -> forall m v n, 0 < v ->
    let O := Rops erf erfinv in
    (forall i, (0 < i < n)%nat -> ncdf erf m v (equal_threshold O m v n i) = INR i / INR n) /\
    (forall i j, (0 < i)%nat -> (i < j)%nat -> (j < n)%nat ->
       equal_threshold O m v n i < equal_threshold O m v n j) /\
    (forall i, (0 < i)%nat -> (S i < n)%nat ->
       ncdf erf m v (equal_threshold O m v n (S i)) - ncdf erf m v (equal_threshold O m v n i) = 1 / INR n).
Proof. exact F_equal_thresholds. Qed.
Print Assumptions C19_discrete_equal_quantiles.

(* binary: lower for x <= divide, upper otherwise; the defaults split N(mean, sill) at its median into
   mean -+ sqrt(sill), a two-point law with the same mean and variance *)
Theorem C19_binary :
  forall erf erfinv, erf_hyps erf erfinv -> forall g divide upper lower mean sill data,
    let d := opt_or divide mean in
    let u := opt_or upper (mean + sqrt sill) in
    let l := opt_or lower (mean - sqrt sill) in
    array_fn (Rops erf erfinv) g (MBinary divide upper lower) mean sill data
      = Ok (map (fun x => if Rle_dec x d then l else u) data) /\
    (divide = None -> upper = None -> lower = None -> 0 < sill ->
       ncdf erf mean sill d = / 2 /\ (l + u) / 2 = mean /\ ((l - mean) ^ 2 + (u - mean) ^ 2) / 2 = sill).
Proof. exact F_binary. Qed.
Print Assumptions C19_binary.

(* Field.transform wrappers.  process=True: whatever keep_mean is, (value handed to the array function) -
   (mean handed to it) = (normal-space value of the stored datum) - (field mean), i.e. every push-forward
   theorem above applies with the FIELD's mean and the model's sill *)
Theorem C19_wrapper_standardised :
  forall erf erfinv (c : fcfg) keep_mean data i,
    let O := Rops erf erfinv in
    trend_ok c data -> (i < length data)%nat ->
    length (pre_process O c keep_mean data) = length data /\
    nth i (pre_process O c keep_mean data) 0 - mean_arg O c true keep_mean
    = c_nf c (nth i data 0 - trend_at c i) - c_mean c.
Proof. exact wrapper_standardised. Qed.
Print Assumptions C19_wrapper_standardised.

(* process=False: a transformation that uses the mean / variance only ever runs on a default-normal field
   (no normalizer, no trend) and is handed the field's mean and the model's sill *)
Theorem C19_wrapper_guard :
  forall erf erfinv (c : fcfg) g m keep_mean data out,
    let O := Rops erf erfinv in
    wrapper O g c m false keep_mean data = Ok out -> guarded m = true ->
    default_normal c = true /\ array_fn O g m (c_mean c) (c_sill c) data = Ok out.
Proof. exact wrapper_guard. Qed.
Print Assumptions C19_wrapper_guard.

(* processed uniform transformation, end to end: out = denormalize(shift + low + (high-low) Phi((z-mean)/sigma)) + trend,
   z the normal-space value, shift = 0 (keep_mean) or the field mean (keep_mean=False) *)
Theorem C19_wrapper_uniform_processed :
  forall erf erfinv (c : fcfg) g low high keep_mean data out i,
    let O := Rops erf erfinv in
    0 < c_sill c -> trend_ok c data -> (i < length data)%nat ->
    wrapper O g c (MUniform low high) true keep_mean data = Ok out ->
    let z := c_nf c (nth i data 0 - trend_at c i) in
    let u := ncdf erf (c_mean c) (c_sill c) z in
    length out = length data /\
    nth i out 0 = c_ni c ((if keep_mean then 0 else c_mean c) + (u * (high - low) + low)) + trend_at c i.
Proof. exact wrapper_uniform_processed. Qed.
Print Assumptions C19_wrapper_uniform_processed.

(* stored fields (any number type): the returned values are those of the wrapper on the named source field and do
   not depend on the store argument; they are stored under the selected name (the source name for store=True);
   no other stored field changes; store=False changes nothing *)
Theorem C19_transform_store :
  forall (T : Type) (O : NumOps T) g (c : fcfg) fs m field s process keep_mean fs' out,
    transform_step O g c fs m field s process keep_mean = Ok (fs', out) ->
    (exists data, lookup fs field = Some data /\ wrapper O g c m process keep_mean data = Ok out) /\
    let name := fst (store_config s field) in
    (s = StFalse -> fs' = fs) /\
    (s <> StFalse -> lookup fs' name = Some out /\ forall k, k <> name -> lookup fs' k = lookup fs k) /\
    (s = StTrue -> name = field).
Proof. exact @transform_store. Qed.
Print Assumptions C19_transform_store.

(* ---- ties: the hand model equals the formulas translated from /repo's sources on this run
   (coq/gen/Formulas_gen.v, regenerated by tools/py2coq.py).  No side conditions: over R there is no NaN, integer
   powers are defined for every base, and the masks y > 0 / y < 0 exclude each other. *)
Theorem C19_tie_array_to_lognormal :
  forall (T : Type) (O : NumOps T) (field : list T),
    map (Formulas_gen.array_to_lognormal O) field = C19_Model.array_to_lognormal O field.
Proof. exact @array_to_lognormal_tie. Qed.
Print Assumptions C19_tie_array_to_lognormal.

Theorem C19_tie_uniform_to_arcsin :
  forall erf erfinv field a b,
    Formulas_gen.uniform_to_arcsin (Rops erf erfinv) field a b = uniform_to_arcsin_elem (Rops erf erfinv) a b field.
Proof. exact uniform_to_arcsin_tie. Qed.
Print Assumptions C19_tie_uniform_to_arcsin.

Theorem C19_tie_uniform_to_uquad :
  forall erf erfinv field a b,
    Formulas_gen.uniform_to_uquad (Rops erf erfinv) field a b = uniform_to_uquad_elem (Rops erf erfinv) a b field.
Proof. exact uniform_to_uquad_tie. Qed.
Print Assumptions C19_tie_uniform_to_uquad.

Theorem C19_tie_BoxCox_normalize :
  forall erf erfinv lmbda data,
    Formulas_gen.BoxCox_normalize (Rops erf erfinv) lmbda data = boxcox_normalize (Rops erf erfinv) lmbda data.
Proof. exact BoxCox_normalize_tie. Qed.
Print Assumptions C19_tie_BoxCox_normalize.

Theorem C19_tie_BoxCox_denormalize :
  forall erf erfinv lmbda data,
    Formulas_gen.BoxCox_denormalize (Rops erf erfinv) lmbda data = boxcox_denormalize (Rops erf erfinv) lmbda data.
Proof. exact BoxCox_denormalize_tie. Qed.
Print Assumptions C19_tie_BoxCox_denormalize.

(* the quantile identities and the inverse-pair identity, stated on the translated source formulas *)
Theorem C19_source_quantile_identities :
  forall erf erfinv a b u, a < b ->
    let O := Rops erf erfinv in
    (0 < u < 1 -> cdf_arcsine a b (Formulas_gen.uniform_to_arcsin O u a b) = u) /\
    cdf_uquad a b (Formulas_gen.uniform_to_uquad O u a b) = u.
Proof. intros erf erfinv a b u Hab; split; [intros; now apply source_arcsine_ppf | now apply source_uquad_ppf]. Qed.
Print Assumptions C19_source_quantile_identities.

Theorem C19_source_boxcox_inverse :
  forall erf erfinv lmbda shift x,
    let O := Rops erf erfinv in
    isclose0 O lmbda = true \/ 0 < lmbda * (x + shift) + 1 ->
    Formulas_gen.BoxCox_normalize O lmbda (array_boxcox_elem O lmbda shift x) = x + shift.
Proof. exact source_boxcox_inverse. Qed.
Print Assumptions C19_source_boxcox_inverse.

(* ---- second batch of ties (translator now handles given optional arguments, string selectors, calls between table functions) *)
Theorem C19_tie_array_to_uniform :
  forall (T : Type) (O : NumOps T) (field mean var low high : T),
    Formulas_gen.array_to_uniform O field mean var low high = to_uniform_elem O mean var low high field.
Proof. exact @array_to_uniform_tie. Qed.
Print Assumptions C19_tie_array_to_uniform.

Theorem C19_tie_array_zinnharvey :
  forall (T : Type) (O : NumOps T) (field mean var : T),
    Formulas_gen.array_zinnharvey_low O field mean var = zinnharvey_elem O false mean var field /\
    Formulas_gen.array_zinnharvey_high O field mean var = zinnharvey_elem O true mean var field.
Proof. intros; split; [apply array_zinnharvey_low_tie | apply array_zinnharvey_high_tie]. Qed.
Print Assumptions C19_tie_array_zinnharvey.

Theorem C19_tie_array_to_arcsin :
  forall erf erfinv field mean var a b,
    let O := Rops erf erfinv in
    Formulas_gen.array_to_arcsin O field mean var a b = to_arcsin_elem O mean var a b field /\
    Formulas_gen.array_to_arcsin_default_bounds O field mean var a b
    = to_arcsin_elem O mean var (arcsin_default_a O mean var) (arcsin_default_b O mean var) field.
Proof. intros; split; [apply array_to_arcsin_tie | apply array_to_arcsin_default_bounds_tie]. Qed.
Print Assumptions C19_tie_array_to_arcsin.

Theorem C19_tie_array_to_uquad :
  forall erf erfinv field mean var a b,
    let O := Rops erf erfinv in
    Formulas_gen.array_to_uquad O field mean var a b = to_uquad_elem O mean var a b field /\
    Formulas_gen.array_to_uquad_default_bounds O field mean var a b
    = to_uquad_elem O mean var (uquad_default_a O mean var) (uquad_default_b O mean var) field.
Proof. intros; split; [apply array_to_uquad_tie | apply array_to_uquad_default_bounds_tie]. Qed.
Print Assumptions C19_tie_array_to_uquad.

Theorem C19_tie_array_boxcox :
  forall erf erfinv field lmbda shift,
    Formulas_gen.array_boxcox (Rops erf erfinv) field lmbda shift = array_boxcox_elem (Rops erf erfinv) lmbda shift field.
Proof. exact array_boxcox_tie. Qed.
Print Assumptions C19_tie_array_boxcox.

(* ---- the property theorems restated on the translated source terms (every function below is a Formulas_gen term) *)
Theorem C19_source_uniform_pushforward :
  forall erf erfinv, erf_hyps erf erfinv -> forall m v low high, 0 < v -> low < high ->
    let O := Rops erf erfinv in
    (forall x, cdf_uniform low high (Formulas_gen.array_to_uniform O x m v low high) = ncdf erf m v x) /\
    (forall x, low < Formulas_gen.array_to_uniform O x m v low high < high) /\
    (forall x y, x < y -> Formulas_gen.array_to_uniform O x m v low high < Formulas_gen.array_to_uniform O y m v low high).
Proof. exact source_uniform_pushforward. Qed.
Print Assumptions C19_source_uniform_pushforward.

Theorem C19_source_arcsine_pushforward :
  forall erf erfinv, erf_hyps erf erfinv -> forall m v a b, 0 < v -> a < b ->
    let O := Rops erf erfinv in
    (forall x, cdf_arcsine a b (Formulas_gen.array_to_arcsin O x m v a b) = ncdf erf m v x) /\
    (forall x, a < Formulas_gen.array_to_arcsin O x m v a b < b) /\
    (forall x y, x < y -> Formulas_gen.array_to_arcsin O x m v a b < Formulas_gen.array_to_arcsin O y m v a b).
Proof. exact source_arcsine_pushforward. Qed.
Print Assumptions C19_source_arcsine_pushforward.

Theorem C19_source_uquad_pushforward :
  forall erf erfinv, erf_hyps erf erfinv -> forall m v a b, 0 < v -> a < b ->
    let O := Rops erf erfinv in
    (forall x, cdf_uquad a b (Formulas_gen.array_to_uquad O x m v a b) = ncdf erf m v x) /\
    (forall x, a < Formulas_gen.array_to_uquad O x m v a b < b) /\
    (forall x y, x < y -> Formulas_gen.array_to_uquad O x m v a b < Formulas_gen.array_to_uquad O y m v a b).
Proof. exact source_uquad_pushforward. Qed.
Print Assumptions C19_source_uquad_pushforward.

(* default bounds (a = b = None): the source's own bounds are a proper interval whose law has mean m and variance v,
   and N(m, v) is pushed forward to that law (a0, b0 are the unused bound arguments of the translated term) *)
Theorem C19_source_arcsine_default_bounds :
  forall erf erfinv, erf_hyps erf erfinv -> forall m v, 0 < v ->
    let O := Rops erf erfinv in
    let a := m - sqrt (2 * v) in
    let b := m + sqrt (2 * v) in
    a < b /\ arcsine_mean a b = m /\ arcsine_var a b = v /\
    (forall x a0 b0, cdf_arcsine a b (Formulas_gen.array_to_arcsin_default_bounds O x m v a0 b0) = ncdf erf m v x) /\
    (forall x y a0 b0, x < y ->
       Formulas_gen.array_to_arcsin_default_bounds O x m v a0 b0 < Formulas_gen.array_to_arcsin_default_bounds O y m v a0 b0).
Proof. exact source_arcsine_default. Qed.
Print Assumptions C19_source_arcsine_default_bounds.

Theorem C19_source_uquad_default_bounds :
  forall erf erfinv, erf_hyps erf erfinv -> forall m v, 0 < v ->
    let O := Rops erf erfinv in
    let a := m - sqrt (5 / 3 * v) in
    let b := m + sqrt (5 / 3 * v) in
    a < b /\ uquad_mean a b = m /\ uquad_var a b = v /\
    (forall x a0 b0, cdf_uquad a b (Formulas_gen.array_to_uquad_default_bounds O x m v a0 b0) = ncdf erf m v x) /\
    (forall x y a0 b0, x < y ->
       Formulas_gen.array_to_uquad_default_bounds O x m v a0 b0 < Formulas_gen.array_to_uquad_default_bounds O y m v a0 b0).
Proof. exact source_uquad_default. Qed.
Print Assumptions C19_source_uquad_default_bounds.

Theorem C19_source_zinnharvey_normal :
  forall erf erfinv, erf_hyps erf erfinv -> forall m v, 0 < v ->
    let O := Rops erf erfinv in
    (forall x, x <> m ->
       ncdf erf m v (Formulas_gen.array_zinnharvey_low O x m v) = halfnormal_cdf erf (Rabs ((x - m) / sqrt v)) /\
       ncdf erf m v (Formulas_gen.array_zinnharvey_high O x m v) = 1 - halfnormal_cdf erf (Rabs ((x - m) / sqrt v))) /\
    (forall x y, x <> m -> Rabs (x - m) < Rabs (y - m) ->
       Formulas_gen.array_zinnharvey_low O x m v < Formulas_gen.array_zinnharvey_low O y m v /\
       Formulas_gen.array_zinnharvey_high O y m v < Formulas_gen.array_zinnharvey_high O x m v) /\
    (forall x, Formulas_gen.array_zinnharvey_high O x m v - m = - (Formulas_gen.array_zinnharvey_low O x m v - m)).
Proof. exact source_zinnharvey. Qed.
Print Assumptions C19_source_zinnharvey_normal.

(* Box-Cox round trip with BOTH sides translated from the source: BoxCox._normalize (array_boxcox x) = x + shift *)
Theorem C19_source_boxcox_roundtrip :
  forall erf erfinv lmbda shift x,
    let O := Rops erf erfinv in
    fisclose O lmbda (n0 O) = true \/ 0 < lmbda * (x + shift) + 1 ->
    Formulas_gen.BoxCox_normalize O lmbda (Formulas_gen.array_boxcox O x lmbda shift) = x + shift.
Proof. exact source_boxcox_roundtrip. Qed.
Print Assumptions C19_source_boxcox_roundtrip.
