(* C19 — field transformations produce their documented target distributions.
   Only statements; proofs live in c19/*.v.

   [Rops erf erfinv] is the real-number instance of the model's number interface; erf / erfinv
   (scipy.special) are universally quantified and constrained only by [erf_hyps]
   (strictly increasing, odd, range (-1,1), mutually inverse).  [ncdf erf m v] is the cdf of
   N(m, v) written with erf: Phi((x-m)/sqrt v), Phi z = (1 + erf (z / sqrt 2)) / 2.
   "T pushes N(m,v) forward to the law with cdf F" is stated as: T strictly increasing and
   F (T x) = ncdf m v x for every real x. *)
From Coq Require Import Reals List ZArith.
From GS Require Import Num Loops C19_Model C19_RInst C19_Proofs C19_Final.
Open Scope R_scope.

(* the hypotheses on the oracle functions are satisfiable *)
Theorem C19_erf_hyps_satisfiable : exists erf erfinv, erf_hyps erf erfinv.
Proof. exact erf_hyps_satisfiable. Qed.
Print Assumptions C19_erf_hyps_satisfiable.

Theorem C19_uniform_pushforward :
  forall erf erfinv, erf_hyps erf erfinv -> forall m v low high, 0 < v -> low < high ->
    (forall x, cdf_uniform low high (to_uniform_elem (Rops erf erfinv) m v low high x) = ncdf erf m v x) /\
    (forall x, low < to_uniform_elem (Rops erf erfinv) m v low high x < high) /\
    (forall x y, x < y -> to_uniform_elem (Rops erf erfinv) m v low high x < to_uniform_elem (Rops erf erfinv) m v low high y).
Proof. exact F_uniform. Qed.
Print Assumptions C19_uniform_pushforward.

Theorem C19_lognormal_pushforward :
  forall erf erfinv m v,
    (forall x, cdf_lognormal erf m v (nexp (Rops erf erfinv) x) = ncdf erf m v x) /\
    (forall x, 0 < nexp (Rops erf erfinv) x) /\
    (forall x y, x < y -> nexp (Rops erf erfinv) x < nexp (Rops erf erfinv) y).
Proof. exact F_lognormal. Qed.
Print Assumptions C19_lognormal_pushforward.

Theorem C19_arcsine_pushforward :
  forall erf erfinv, erf_hyps erf erfinv -> forall m v a b, 0 < v -> a < b ->
    (forall x, cdf_arcsine a b (to_arcsin_elem (Rops erf erfinv) m v a b x) = ncdf erf m v x) /\
    (forall x, a < to_arcsin_elem (Rops erf erfinv) m v a b x < b) /\
    (forall x y, x < y -> to_arcsin_elem (Rops erf erfinv) m v a b x < to_arcsin_elem (Rops erf erfinv) m v a b y).
Proof. exact F_arcsine. Qed.
Print Assumptions C19_arcsine_pushforward.

Theorem C19_uquad_pushforward :
  forall erf erfinv, erf_hyps erf erfinv -> forall m v a b, 0 < v -> a < b ->
    (forall x, cdf_uquad a b (to_uquad_elem (Rops erf erfinv) m v a b x) = ncdf erf m v x) /\
    (forall x, a < to_uquad_elem (Rops erf erfinv) m v a b x < b) /\
    (forall x y, x < y -> to_uquad_elem (Rops erf erfinv) m v a b x < to_uquad_elem (Rops erf erfinv) m v a b y).
Proof. exact F_uquad. Qed.
Print Assumptions C19_uquad_pushforward.

(* default bounds of arcsine / U-quadratic keep mean and variance (and are a proper interval) *)
Theorem C19_default_bounds_moments :
  forall erf erfinv m v, 0 <= v ->
    let O := Rops erf erfinv in
    arcsine_mean (arcsin_default_a O m v) (arcsin_default_b O m v) = m /\
    arcsine_var (arcsin_default_a O m v) (arcsin_default_b O m v) = v /\
    uquad_mean (uquad_default_a O m v) (uquad_default_b O m v) = m /\
    uquad_var (uquad_default_a O m v) (uquad_default_b O m v) = v /\
    (0 < v -> arcsin_default_a O m v < arcsin_default_b O m v /\
              uquad_default_a O m v < uquad_default_b O m v).
Proof. exact F_default_bounds. Qed.
Print Assumptions C19_default_bounds_moments.

(* Zinn & Harvey: |x-m|/sigma (half-normal) is mapped monotonically to a standard normal quantile;
   "high" is the mirror image of "low", so the order of |x-m| is reversed *)
Theorem C19_zinnharvey_normal :
  forall erf erfinv, erf_hyps erf erfinv -> forall m v, 0 < v ->
    let O := Rops erf erfinv in
    (forall x, x <> m ->
       ncdf erf m v (zinnharvey_elem O false m v x) = halfnormal_cdf erf (Rabs ((x - m) / sqrt v)) /\
       ncdf erf m v (zinnharvey_elem O true m v x) = 1 - halfnormal_cdf erf (Rabs ((x - m) / sqrt v))) /\
    (forall x y, x <> m -> Rabs (x - m) < Rabs (y - m) ->
       zinnharvey_elem O false m v x < zinnharvey_elem O false m v y /\
       zinnharvey_elem O true m v y < zinnharvey_elem O true m v x) /\
    (forall x, zinnharvey_elem O true m v x - m = - (zinnharvey_elem O false m v x - m)).
Proof. exact F_zinnharvey. Qed.
Print Assumptions C19_zinnharvey_normal.

(* array_boxcox is the inverse of the BoxCox normalizer (and equals its denormalize) wherever it is not cut off *)
Theorem C19_boxcox_inverts_normalizer :
  forall erf erfinv lmbda shift x,
    let O := Rops erf erfinv in
    (isclose0 O lmbda = true ->
       0 < array_boxcox_elem O lmbda shift x /\
       boxcox_normalize O lmbda (array_boxcox_elem O lmbda shift x) = x + shift) /\
    (isclose0 O lmbda = false -> 0 < lmbda * (x + shift) + 1 ->
       0 < array_boxcox_elem O lmbda shift x /\
       boxcox_normalize O lmbda (array_boxcox_elem O lmbda shift x) = x + shift /\
       array_boxcox_elem O lmbda shift x = boxcox_denormalize O lmbda (x + shift)).
Proof. exact F_boxcox. Qed.
Print Assumptions C19_boxcox_inverts_normalizer.
