(* C08 — empirical variogram estimates equal their mathematical definition.
   Statements only; proofs in c15/C15_VarioProofs.v (kernel = pair enumeration, generic number type,
   from the .pyx translated on every run) and c08/C08_Math.v (meaning of the enumeration over R). *)
From Coq Require Import Reals ZArith List Bool Permutation.
From GS Require Import Num Loops Cellwise RInst Estimator_gen C15_VarioSpec C15_VarioProofs C15_DirSpec C15_DirProofs C08_Math C08_Sep2D.
Import ListNotations.

(* 1. the kernels as run (identity schedule) ARE the enumeration of all pairs j<k, bin by bin;
      holds for every number type, hence for doubles with NaNs exactly as executed *)
Theorem C08_unstructured_is_pair_enumeration :
  forall (T : Type) (O : NumOps T) f edges pos et dt,
    unstructured O f edges pos et dt = unstructured_spec O f edges pos et dt.
Proof. intros. apply unstructured_any_schedule, is_sched_id. Qed.
Print Assumptions C08_unstructured_is_pair_enumeration.

Theorem C08_structured_is_lag_enumeration :
  forall (T : Type) (O : NumOps T) f et, structured O f et = structured_spec O f et.
Proof. intros. apply structured_any_schedule. intros; apply is_sched_id. Qed.
Print Assumptions C08_structured_is_lag_enumeration.

Theorem C08_ma_structured_is_lag_enumeration :
  forall (T : Type) (O : NumOps T) f mask et, ma_structured O f mask et = ma_structured_spec O f mask et.
Proof. intros. apply ma_structured_any_schedule. intros; apply is_sched_id. Qed.
Print Assumptions C08_ma_structured_is_lag_enumeration.

(* directional estimator: entry (d,i) is the fold over all pairs in bin i that are SELECTED for direction d
   (pass d's angle/bandwidth test and, for separated directions, no earlier direction's test) *)
Theorem C08_directional_is_pair_enumeration :
  forall (T : Type) (O : NumOps T) f edges pos direction tol bw sep et,
    directional O f edges pos direction tol bw sep et = directional_spec O f edges pos direction tol bw sep et.
Proof. intros. apply directional_any_schedule, is_sched_id. Qed.
Print Assumptions C08_directional_is_pair_enumeration.

(* the early break for separated directions changes nothing for a pair that passes at most one direction test *)
Theorem C08_break_harmless :
  forall (T : Type) (O : NumOps T) pos direction tol bw dist j k d,
    (forall d1 d2, d1 <> d2 -> passes O pos direction tol bw dist j k d1 = true ->
                   passes O pos direction tol bw dist j k d2 = false) ->
    selected O pos direction tol bw true dist j k d = selected O pos direction tol bw false dist j k d.
Proof. exact @break_harmless. Qed.
Print Assumptions C08_break_harmless.

(* in the plane the premise of C08_break_harmless follows from the separation test vario_estimate applies
   (arccos(min(|u1.u2|,1)) >= 2*angles_tol, 0 < angles_tol <= pi/2) for every pair of DISTINCT points; stated on the
   translated dir_test / dist_euclid at the real instance.  (Coincident points pass every direction test: that is the
   known finding; 3-D is probed only.) *)
Theorem C08_separated_2d : forall ora pos direction tol bw j k d1 d2,
  (0 < tol <= PI / 2)%R ->
  (aget2 0 direction d1 0 * aget2 0 direction d1 0 + aget2 0 direction d1 1 * aget2 0 direction d1 1 = 1)%R ->
  (aget2 0 direction d2 0 * aget2 0 direction d2 0 + aget2 0 direction d2 1 * aget2 0 direction d2 1 = 1)%R ->
  (2 * tol <= acos (Rmin (Rabs (aget2 0 direction d1 0 * aget2 0 direction d2 0
                               + aget2 0 direction d1 1 * aget2 0 direction d2 1)) 1))%R ->
  (0 < dist_euclid (Rops ora) 2 pos j k)%R ->
  dir_test (Rops ora) 2 pos (dist_euclid (Rops ora) 2 pos j k) direction tol bw k j d1 = true ->
  dir_test (Rops ora) 2 pos (dist_euclid (Rops ora) 2 pos j k) direction tol bw k j d2 = false.
Proof. exact separated_2d. Qed.
Print Assumptions C08_separated_2d.

(* 2. the enumerated list is exactly the set of unordered pairs *)
Theorem C08_pairs_are_all_pairs : forall n j k, In (j, k) (pairs n) <-> (j < k < n)%nat.
Proof. exact in_pairs. Qed.
Print Assumptions C08_pairs_are_all_pairs.

(* 3. over the reals: bins are half open, a bin holds the count (fields x pairs) and the sum of the
      estimator increments over exactly the pairs whose distance lies in [e_i, e_{i+1}) *)
Theorem C08_bins_half_open : forall ora edges i d,
  in_bin (Rops ora) edges i d = true <-> (aget 0 edges i <= d < aget 0 edges (i + 1))%R.
Proof. exact in_bin_half_open. Qed.
Print Assumptions C08_bins_half_open.

Theorem C08_bin_is_count_and_sum : forall ora dist f est edges n i,
  bin_acc (Rops ora) dist f est edges n i
  = ((Z.of_nat (shape0 f) * Z.of_nat (length (sel ora dist edges i (pairs n))))%Z,
     Rsum (map (fun jk => pair_term f est (fst jk) (snd jk)) (sel ora dist edges i (pairs n)))).
Proof. exact bin_acc_R. Qed.
Print Assumptions C08_bin_is_count_and_sum.

Theorem C08_selected_pairs : forall ora dist edges i n j k,
  In (j, k) (sel ora dist edges i (pairs n))
  <-> (j < k < n)%nat /\ (aget 0 edges i <= dist j k < aget 0 edges (i + 1))%R.
Proof. exact in_sel. Qed.
Print Assumptions C08_selected_pairs.

(* 4. enumerating the pairs in ANY order gives the same bin *)
Theorem C08_spec_order_free : forall ora dist f est edges n i l,
  Permutation l (pairs n) ->
  bin_fold ora dist f est edges i l (0%Z, 0%R) = bin_acc (Rops ora) dist f est edges n i.
Proof. exact bin_order_free. Qed.
Print Assumptions C08_spec_order_free.

(* 5. documented formulas *)
Theorem C08_matheron_increment : forall ora d, est_of (Rops ora) 109 d = (d * d)%R.
Proof. exact est_matheron. Qed.
Print Assumptions C08_matheron_increment.
Theorem C08_cressie_increment : forall ora et d, et <> 109%Z -> est_of (Rops ora) et d = sqrt (Rabs d).
Proof. exact est_cressie. Qed.
Print Assumptions C08_cressie_increment.
Theorem C08_matheron_normalisation : forall ora v c, (1 <= c)%Z -> norm1 (Rops ora) 109 v c = (v / (2 * IZR c))%R.
Proof. exact norm_matheron_R. Qed.
Print Assumptions C08_matheron_normalisation.
Theorem C08_cressie_normalisation : forall ora et v c, et <> 109%Z -> (1 <= c)%Z ->
  norm1 (Rops ora) et v c
  = ((1 / 2 * powerRZ (1 / IZR c * v) 4) / (457 / 1000 + (494 / 1000) / IZR c + (45 / 1000) / IZR (c ^ 2)))%R.
Proof. exact norm_cressie_R. Qed.
Print Assumptions C08_cressie_normalisation.
Theorem C08_empty_bin : forall ora v c, (c <= 0)%Z -> norm1 (Rops ora) 109 v c = (v / 2)%R.
Proof. exact norm_matheron_empty. Qed.
Print Assumptions C08_empty_bin.

Theorem C08_euclid_distance : forall ora dim pos i j,
  dist_euclid (Rops ora) dim pos i j
  = sqrt (Rsum (map (fun d => ((aget2 0 pos d i - aget2 0 pos d j) * (aget2 0 pos d i - aget2 0 pos d j))%R) (seq 0 dim))).
Proof. exact dist_euclid_R. Qed.
Print Assumptions C08_euclid_distance.

(* 6. masked axis estimator: a lag pair counts iff both cells are unmasked *)
Theorem C08_mask_is_filter : forall ora f mask est k,
  lag_acc (Rops ora) (fun i j k => andb (Z.eqb (aget2 0%Z mask i j) 0) (Z.eqb (aget2 0%Z mask (i + k) j) 0)) f est k
  = for_ 0 (shape0 f - 1) (fun i (acc : Z * R) => for_ 0 (shape1 f) (fun j (acc : Z * R) =>
      if andb (andb (Nat.leb 1 k) (Nat.ltb k (shape0 f - 1 + 1 - i)))
              (andb (Z.eqb (aget2 0%Z mask i j) 0) (Z.eqb (aget2 0%Z mask (i + k) j) 0))
      then ((fst acc + 1)%Z, (snd acc + est (aget2 0 f i j - aget2 0 f (i + k) j))%R) else acc) acc) (0%Z, 0%R).
Proof. exact mask_is_filter. Qed.
Print Assumptions C08_mask_is_filter.
