(* C17 — Fourier-generated fields are exactly periodic.  Only statements; proofs in c17/*.v.
   [summate_fourier_sched O sched sf modes z1 z2 pos] is the kernel translated from field/summator.pyx on every
   run, with [sched] the order in which the prange iterations execute (any permutation: [is_sched]); it returns
   the list of field values at the columns of the (dim, n) array [pos].  [grid_of O period mode_no anis],
   [shift_axis], [step], [init], [run] are the model C17_Model.v of gstools/field/generator.py class Fourier
   (the same definitions are extracted, run at floats and compared with the implementation on every check);
   [isometrize], [rotated_main_axes], [ratio] are C12's model of CovModel.isometrize.  [Rops ora] (lib/RInst.v)
   and [C12_Mat.Rops] are the real-number instances of the number interface. *)
From Coq Require Import Reals ZArith List Lia Lra.
From GS Require Import Num Loops Summator_gen C15_KernelSpec C17_Model C17_Proofs C17_State C17_History.
From GS Require RInst C12_Model C12_Mat C12_Bridge C12_Proofs2 C17_Axes.
Import ListNotations.
Open Scope R_scope.

(* 2 pi Z is a period group of cos and sin (the standard library has this for nat only) *)
Theorem C17_cos_sin_period_Z : forall (x : R) (k : Z),
  cos (x + 2 * IZR k * PI) = cos x /\ sin (x + 2 * IZR k * PI) = sin x.
Proof. intros x k. split; [apply cos_period_Z | apply sin_period_Z]. Qed.
Print Assumptions C17_cos_sin_period_Z.

(* ANY mode list (any length, any values) whose component along axis ax takes the shift s to a multiple of
   2 pi: the kernel's output is unchanged when every point moves by s along coordinate axis ax — every
   dimension, spectrum factor, amplitude, position and thread schedule *)
Theorem C17_periodic_modes : forall (ora : nat -> list R -> R) (sched : list nat -> list nat) (dim n : nat)
    (sf : list R) (modes : list (list R)) (z1 z2 : list R) (pos : list (list R)) (ax : nat) (s : R),
  is_sched sched -> wfpos dim n pos -> (ax < dim)%nat ->
  (forall j, (j < shape1 modes)%nat -> exists m : Z, aget2 0 modes ax j * s = 2 * IZR m * PI) ->
  summate_fourier_sched (RInst.Rops ora) sched sf modes z1 z2 (shift_axis (RInst.Rops ora) pos ax s)
  = summate_fourier_sched (RInst.Rops ora) sched sf modes z1 z2 pos.
Proof. exact periodic_kernel. Qed.
Print Assumptions C17_periodic_modes.

(* generate_grid: one row per axis, product-of-lengths columns, row d only holds entries of axis d (any type) *)
Theorem C17_grid_shape : forall (A : Type) (axes : list (list A)),
  length (generate_grid axes) = length axes /\
  Forall (fun row => length row = grid_size axes) (generate_grid axes) /\
  forall d, Forall (fun v => In v (nth d axes [])) (nth d (generate_grid axes) []).
Proof. intros A axes. destruct (grid_shape axes) as [H1 H2]. split; [exact H1|]. split; [exact H2|]. apply grid_entries. Qed.
Print Assumptions C17_grid_shape.

(* the generator's mode axes have exactly mode_no[d] entries, and for even counts every wave number component
   along axis d is an integer multiple of delta_k[d] = 2 pi / period[d] * ratio[d] *)
Theorem C17_grid_integer_multiples : forall (ora : nat -> list R -> R) (mode_no : list Z) (dk : list R) (d j : nat),
  length mode_no = length dk -> (d < length dk)%nat -> Forall (fun n => Z.even n = true) mode_no ->
  length (arange_modes (RInst.Rops ora) (nth d mode_no 0%Z) (nth d dk 0)) = Z.to_nat (nth d mode_no 0%Z) /\
  exists m : Z, aget2 0 (generate_grid (mode_axes (RInst.Rops ora) mode_no dk)) d j = IZR m * nth d dk 0.
Proof. intros. split; [apply arange_length | now apply grid_integer_multiples]. Qed.
Print Assumptions C17_grid_integer_multiples.

(* the generator in the isotropic coordinates it sums in: q periods along axis ax are q * period / ratio there *)
Theorem C17_periodic : forall (ora : nat -> list R -> R) (sched : list nat -> list nat) (dim n : nat)
    (period : list R) (mode_no : list Z) (anis sf z1 z2 : list R) (pos : list (list R)) (ax : nat) (q : Z),
  is_sched sched -> (0 < dim)%nat ->
  length period = dim -> length anis = (dim - 1)%nat -> length mode_no = dim ->
  Forall (fun k => Z.even k = true) mode_no ->
  wfpos dim n pos -> (ax < dim)%nat -> nth ax period 0 <> 0 -> nth ax (1 :: anis) 0 <> 0 ->
  let modes := grid_of (RInst.Rops ora) period mode_no anis in
  let s := IZR q * (nth ax period 0 / nth ax (1 :: anis) 0) in
  summate_fourier_sched (RInst.Rops ora) sched sf modes z1 z2 (shift_axis (RInst.Rops ora) pos ax s)
  = summate_fourier_sched (RInst.Rops ora) sched sf modes z1 z2 pos.
Proof. exact periodic_generator. Qed.
Print Assumptions C17_periodic.

(* in the user's coordinates: every point moved by q periods along the ax-th MAIN AXIS of the model (row ax of
   the rotated main axes), any rotation angles, any positive anisotropy ratios *)
Theorem C17_periodic_main_axes : forall (sched : list nat -> list nat) (dim n : nat) (angles anis period : list R)
    (mode_no : list Z) (sf z1 z2 : list R) (pos : list (list R)) (ax : nat) (q : Z),
  is_sched sched -> (0 < dim)%nat -> length period = dim -> length mode_no = dim ->
  Forall (fun k => Z.even k = true) mode_no ->
  length anis = (dim - 1)%nat -> Forall (fun a => 0 < a) anis ->
  C12_Bridge.wfm dim n pos -> (ax < dim)%nat -> nth ax period 0 <> 0 ->
  let RO := C12_Mat.Rops in
  let axis := arow (C12_Model.rotated_main_axes RO dim angles) ax in
  let modes := grid_of RO period mode_no anis in
  summate_fourier_sched RO sched sf modes z1 z2
    (C12_Model.isometrize RO dim angles anis (C17_Axes.move_along dim n pos axis (IZR q * nth ax period 0)))
  = summate_fourier_sched RO sched sf modes z1 z2 (C12_Model.isometrize RO dim angles anis pos).
Proof. exact C17_Axes.periodic_main_axes. Qed.
Print Assumptions C17_periodic_main_axes.

(* unrotated models: the main axes are the coordinate axes *)
Theorem C17_unrotated_axes : forall (sched : list nat -> list nat) (dim n : nat) (angles anis period : list R)
    (mode_no : list Z) (sf z1 z2 : list R) (pos : list (list R)) (ax : nat) (q : Z),
  is_sched sched -> (0 < dim)%nat -> length period = dim -> length mode_no = dim ->
  Forall (fun k => Z.even k = true) mode_no ->
  length anis = (dim - 1)%nat -> Forall (fun a => 0 < a) anis -> Forall (fun a => a = 0) angles ->
  C12_Bridge.wfm dim n pos -> (ax < dim)%nat -> nth ax period 0 <> 0 ->
  let RO := C12_Mat.Rops in
  let modes := grid_of RO period mode_no anis in
  summate_fourier_sched RO sched sf modes z1 z2
    (C12_Model.isometrize RO dim angles anis (shift_axis RO pos ax (IZR q * nth ax period 0)))
  = summate_fourier_sched RO sched sf modes z1 z2 (C12_Model.isometrize RO dim angles anis pos).
Proof. exact C17_Axes.periodic_unrotated. Qed.
Print Assumptions C17_unrotated_axes.

(* the update state machine (update / period, mode_no, model setters / SRF.__call__), EVERY number type:
   a successful update of a state whose grid is the grid of its settings ends in such a state, and the passed
   model reaches the generator unless np.isclose calls it equal to the copy already held *)
Theorem C17_after_update : forall (T : Type) (O : NumOps T) (st : fstate) (u : upd) (st' : fstate),
  Inv O st -> wf_upd u -> no_subtle O st u -> step O st u = (st', Ok) ->
  Inv O st' /\
  (forall m, u_model u = Some m ->
     f_model st' = Some m \/ (exists c, f_model st = Some c /\ model_close O c m = true /\ f_model st' = Some c)).
Proof. exact @step_inv. Qed.
Print Assumptions C17_after_update.

(* assignments that ALIAS the stored value (the period / mode_no getters return the stored array / list itself:
   gen.period *= c;  per = gen.period; per[i] = v; gen.period = per;  m = gen.mode_no; m[0] = 8; gen.mode_no = m).
   The in-place edit changes only the stored period (mode_no); the setter then always calls update, which rebuilds
   delta_k and the grid from the assigned value: the invariant holds again whatever the edit was (every number type) *)
Theorem C17_aliased_assignment : forall (T : Type) (O : NumOps T) (st st' : fstate) (seed_given : bool),
  Inv O st ->
  (forall p_edit pv, step O (edit_period st p_edit) (mkUpd None seed_given (Some pv) None) = (st', Ok) -> Inv O st') /\
  (forall mn_edit mv, step O (edit_mode_no st mn_edit) (mkUpd None seed_given None (Some mv)) = (st', Ok) -> Inv O st').
Proof.
  intros T O st st' sd HI. split.
  - intros pe pv H. exact (alias_period O st pe pv sd st' HI H).
  - intros me mv H. exact (alias_mode_no O st me mv sd st' HI H).
Qed.
Print Assumptions C17_aliased_assignment.

(* the model getter returns the stored copy itself: m = gen.model; m.anis = x; gen.model = m (or update(model=m, ...)
   with any of seed / period / mode_no) hands update the stored object; [step_gen true] = "model is self._model", which
   update treats as changed: whatever the in-place edit was, a successful step ends in the invariant with the edited model *)
Theorem C17_aliased_model : forall (T : Type) (O : NumOps T) (st : fstate) (m_edit : cmodel) (u : upd) (st' : fstate),
  Inv O st -> wf_model m_edit -> u_model u = Some m_edit ->
  step_gen O true (edit_model st m_edit) u = (st', Ok) -> Inv O st' /\ f_model st' = Some m_edit.
Proof. exact @alias_model. Qed.
Print Assumptions C17_aliased_model.

(* delta_k and the mode grid are a function of the PRESENT model copy, period and mode counts only: whatever the history,
   the state equals, in every component, the state of a generator freshly constructed from the present settings
   (every number type) *)
Theorem C17_equals_fresh : forall (T : Type) (O : NumOps T) (st st0 : fstate) (m : cmodel) (p : list T) (mn : list Z),
  Inv O st -> f_model st = Some m -> f_period st = Some p -> f_mode_no st = Some mn ->
  init O m p mn = (st0, Ok) -> st0 = st.
Proof. intros T O st st0 m p mn. exact (equals_fresh O st m p mn st0). Qed.
Print Assumptions C17_equals_fresh.

(* construction establishes the invariant; every history of successful updates keeps it (every number type) *)
Theorem C17_history_invariant : forall (T : Type) (O : NumOps T) (m0 : cmodel) (period0 : list T)
    (mode_no0 : list Z) (st0 : fstate) (us : list upd),
  wf_model m0 -> init O m0 period0 mode_no0 = (st0, Ok) -> good_history O st0 us ->
  f_model st0 = Some m0 /\ Inv O st0 /\ Inv O (run O st0 us).
Proof.
  intros T O m0 p0 n0 st0 us W Hi Hg. destruct (init_inv O m0 p0 n0 st0 W Hi) as [I M].
  repeat split; auto. now apply run_inv.
Qed.
Print Assumptions C17_history_invariant.

(* hence after any such history the field is periodic with the generator's CURRENT period, count and model *)
Theorem C17_periodic_after_history : forall (ora : nat -> list R -> R) (sched : list nat -> list nat)
    (m0 : cmodel) (period0 : list R) (mode_no0 : list Z) (st0 : fstate) (us : list upd),
  is_sched sched -> wf_model m0 -> init (RInst.Rops ora) m0 period0 mode_no0 = (st0, Ok) ->
  good_history (RInst.Rops ora) st0 us ->
  let st := run (RInst.Rops ora) st0 us in
  exists m p mn, f_model st = Some m /\ f_period st = Some p /\ f_mode_no st = Some mn /\
    length p = m_dim m /\ length mn = m_dim m /\ f_modes st = grid_of (RInst.Rops ora) p mn (m_anis m) /\
    forall n sf z1 z2 pos ax (q : Z), wfpos (m_dim m) n pos -> (ax < m_dim m)%nat ->
      nth ax p 0 <> 0 -> nth ax (1 :: m_anis m) 0 <> 0 ->
      summate_fourier_sched (RInst.Rops ora) sched sf (f_modes st) z1 z2
        (shift_axis (RInst.Rops ora) pos ax (IZR q * (nth ax p 0 / nth ax (1 :: m_anis m) 0)))
      = summate_fourier_sched (RInst.Rops ora) sched sf (f_modes st) z1 z2 pos.
Proof. exact periodic_after_history. Qed.
Print Assumptions C17_periodic_after_history.

(* why odd counts are rejected (and why a stored odd count is a defect): a 1-D field changes sign after one period *)
Theorem C17_odd_count_antiperiodic : forall (ora : nat -> list R -> R) (sched : list nat -> list nat)
    (nmodes : Z) (period : R) (sf z1 z2 xs : list R),
  is_sched sched -> Z.odd nmodes = true -> period <> 0 ->
  let modes := grid_of (RInst.Rops ora) [period] [nmodes] [] in
  summate_fourier_sched (RInst.Rops ora) sched sf modes z1 z2 (shift_axis (RInst.Rops ora) [xs] 0 period)
  = map Ropp (summate_fourier_sched (RInst.Rops ora) sched sf modes z1 z2 [xs]).
Proof. exact odd_count_antiperiodic. Qed.
Print Assumptions C17_odd_count_antiperiodic.

(* the hypotheses above are satisfiable: a 2-D model with ratio 7/10, periods (10, 8), 4 x 6 modes, two updates *)
Theorem C17_hypotheses_satisfiable :
  let O := RInst.Rops (fun _ _ => 0) in
  let m0 := mkCM 2 0%Z [1; 2] [7 / 10] in
  wf_model m0 /\ snd (init O m0 [10; 8] [4; 6]%Z) = Ok /\
  good_history O (fst (init O m0 [10; 8] [4; 6]%Z))
    [mkUpd None false (Some [5]) None; mkUpd None true None (Some [2; 8]%Z)] /\
  wfpos 2 3 [[1; 2; 3]; [4; 5; 6]] /\ C12_Bridge.wfm 2 3 [[1; 2; 3]; [4; 5; 6]] /\
  Forall (fun k => Z.even k = true) [4; 6]%Z /\ Forall (fun a => 0 < a) [7 / 10] /\ is_sched (@rev nat).
Proof.
  cbv zeta. repeat split; try reflexivity; try (repeat constructor; fail); try exact is_sched_rev.
  repeat constructor. lra.
Qed.
Print Assumptions C17_hypotheses_satisfiable.
