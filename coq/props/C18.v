(* C18 — normalizers are invertible monotone maps; the mean/norm/trend pipeline is exact.
   Only statements; proofs live in c18/*.v.  [normalize], [denormalize], [derivative], [*_raw], [norm_range],
   [denorm_range], [in_range], [apply_pt], ... are the Gallina model of gstools.normalizer (c18/C18_Model.v,
   generic over the number type, executed at floats against /repo on every check).  [Rops] is its real-number
   instance (Rpower, exp, ln; expm1 x = exp x - 1, log1p x = ln (1 + x)).  The kinds are the base Normalizer
   (identity), LogNormal, BoxCox, BoxCoxShift, YeoJohnson, Modulus, Manly; the parameter record carries lmbda
   and shift.  Every statement holds for EVERY parameter value: the coded branch tests
   np.isclose(lmbda, 0) (|lmbda| <= 1e-8) and np.isclose(lmbda, 2) (|lmbda - 2| <= 1e-8 + 2e-5) are part of
   the model. *)
From Coq Require Import Reals List Bool.
From Coquelicot Require Import Coquelicot.
From GS Require Import Num Loops C18_Model C18_RInst C18_Analysis C18_Proofs C18_Pipeline C18_Loglik C18_DerivNear C18_Examples C18_FitBook Formulas Formulas_gen C18_Tie C18_History.
Open Scope R_scope.

(* on the normalize range, normalize returns a number, that number lies in the coded denormalize range, and
   denormalize brings it back *)
Theorem C18_denorm_norm :
  forall (k : nkind) (p : npar R) (x : R), in_range Rops (norm_range Rops k p) x = true ->
    normalize Rops k p x = Some (normalize_raw Rops k p x) /\
    denormalize Rops k p (normalize_raw Rops k p x) = Some x.
Proof. exact denorm_norm. Qed.
Print Assumptions C18_denorm_norm.

Theorem C18_norm_denorm :
  forall (k : nkind) (p : npar R) (y : R), in_range Rops (denorm_range Rops k p) y = true ->
    denormalize Rops k p y = Some (denormalize_raw Rops k p y) /\
    normalize Rops k p (denormalize_raw Rops k p y) = Some y.
Proof. exact norm_denorm. Qed.
Print Assumptions C18_norm_denorm.

Theorem C18_strictly_increasing :
  forall (k : nkind) (p : npar R) (x1 x2 : R),
    in_range Rops (norm_range Rops k p) x1 = true -> in_range Rops (norm_range Rops k p) x2 = true ->
    x1 < x2 -> normalize_raw Rops k p x1 < normalize_raw Rops k p x2.
Proof. exact strictly_increasing. Qed.
Print Assumptions C18_strictly_increasing.

(* the image of the normalize range is exactly the coded denormalize range (after the fix: commits for Manly,
   YeoJohnson and Modulus; on the pinned tree this failed, see design/C18.md) *)
Theorem C18_ranges :
  forall (k : nkind) (p : npar R) (y : R),
    (exists x, in_range Rops (norm_range Rops k p) x = true /\ normalize_raw Rops k p x = y) <->
    in_range Rops (denorm_range Rops k p) y = true.
Proof. exact image_is_range. Qed.
Print Assumptions C18_ranges.

(* the reported derivative is the derivative, wherever the branch in force is the power branch or the
   parameter is exactly the special value (at x = 0 of YeoJohnson / Modulus included) *)
Theorem C18_derivative :
  forall (k : nkind) (p : npar R) (x : R), in_range Rops (norm_range Rops k p) x = true ->
    match k with
    | KBoxCox | KBoxCoxShift | KManly | KModulus => close0 Rops (lmbda p) = true -> lmbda p = 0
    | KYeoJohnson => (0 < x -> close0 Rops (lmbda p) = true -> lmbda p = 0) /\
                     (x < 0 -> close2 Rops (lmbda p) = true -> lmbda p = 2)
    | _ => True
    end ->
    is_derive (normalize_raw Rops k p) x (derivative_raw Rops k p x).
Proof. exact derivative_exact. Qed.
Print Assumptions C18_derivative.

(* for EVERY parameter value, also in the logarithmic branches with 0 < |lmbda| <= 1e-8 (or |lmbda - 2| <= 1e-8 + 2e-5
   on the negative side of YeoJohnson) where the code evaluates ln but reports the power-family derivative:
   reported = true derivative * exp e with |e| <= (1e-8 + 2e-5) * |u(x)|, u = ln x, ln (x + shift), ln (1 + |x|), x
   for BoxCox, BoxCoxShift, YeoJohnson/Modulus, Manly; e = 0 under the hypothesis of C18_derivative *)
Theorem C18_derivative_log_branch :
  forall (k : nkind) (p : npar R) (x : R), in_range Rops (norm_range Rops k p) x = true ->
    exists e, is_derive (normalize_raw Rops k p) x (derivative_raw Rops k p x * exp (- e)) /\
              (exact_branch k p x -> e = 0) /\
              Rabs e <= (1 / 100000000 + 2 / 100000) *
                        Rabs (match k with
                              | KBoxCox => ln x
                              | KBoxCoxShift => ln (x + shift p)
                              | KYeoJohnson | KModulus => ln (1 + Rabs x)
                              | KManly => x
                              | _ => 0
                              end).
Proof. exact derivative_near. Qed.
Print Assumptions C18_derivative_log_branch.

(* _check_input, for every number type (IEEE doubles included): NaN in, NaN out; otherwise the value of the
   raw formula exactly when the datum passes the range test *)
Theorem C18_nan_policy :
  forall (T : Type) (O : NumOps T) (k : nkind) (p : npar T) (x : T),
    (nisnan O x = true ->
       normalize O k p x = None /\ denormalize O k p x = None /\ derivative O k p x = None) /\
    (nisnan O x = false ->
       (normalize O k p x = if in_range O (norm_range O k p) x then Some (normalize_raw O k p x) else None) /\
       (derivative O k p x = if in_range O (norm_range O k p) x then Some (derivative_raw O k p x) else None) /\
       (denormalize O k p x = if in_range O (denorm_range O k p) x then Some (denormalize_raw O k p x) else None)).
Proof. exact @nan_policy. Qed.
Print Assumptions C18_nan_policy.

Theorem C18_loglik_ignores_invalid :
  forall (T : Type) (O : NumOps T) (k : nkind) (p : npar T) (data : list T),
    kernel_loglikelihood O k p (valid_data O k p data) = kernel_loglikelihood O k p data /\
    loglikelihood O k p (valid_data O k p data) = loglikelihood O k p data.
Proof. exact @loglik_ignores_invalid. Qed.
Print Assumptions C18_loglik_ignores_invalid.

(* the pipeline at one point: output = trend + denormalize (mean + raw), and removing trend, normalizer and
   mean gives the raw value back *)
Theorem C18_pipeline_roundtrip :
  forall (k : nkind) (p : npar R) (m t raw : R), in_range Rops (denorm_range Rops k p) (raw + m) = true ->
    apply_pt Rops k p m t raw = Some (denormalize_raw Rops k p (raw + m) + t) /\
    remove_pt Rops k p m t (denormalize_raw Rops k p (raw + m) + t) = Some raw.
Proof. exact pipeline_pt. Qed.
Print Assumptions C18_pipeline_roundtrip.

Theorem C18_pipeline_roundtrip_rev :
  forall (k : nkind) (p : npar R) (m t f : R), in_range Rops (norm_range Rops k p) (f - t) = true ->
    remove_pt Rops k p m t f = Some (normalize_raw Rops k p (f - t) - m) /\
    apply_pt Rops k p m t (normalize_raw Rops k p (f - t) - m) = Some f.
Proof. exact pipeline_pt_rev. Qed.
Print Assumptions C18_pipeline_roundtrip_rev.

(* whole fields with position-dependent mean and trend *)
Theorem C18_pipeline_field :
  forall (k : nkind) (p : npar R) (means trends raws : list R),
    length means = length raws -> length trends = length raws ->
    List.Forall (fun mtr => in_range Rops (denorm_range Rops k p) (snd mtr + fst (fst mtr)) = true) (zip3 means trends raws) ->
    exists outs,
      apply_field Rops k p means trends raws = map Some outs /\
      outs = map (fun mtr => denormalize_raw Rops k p (snd mtr + fst (fst mtr)) + snd (fst mtr)) (zip3 means trends raws) /\
      remove_field Rops k p means trends outs = map Some raws.
Proof. exact pipeline_field. Qed.
Print Assumptions C18_pipeline_field.

(* the log-likelihood of base.py is the Gaussian maximum-likelihood profile of the transformed data including the
   Jacobian: sum_i [ ln pdf_{N(mu, s2)}(normalize x_i) + ln max(1e-16, derivative x_i) ] at mu = mean, s2 = variance
   (np.var, ddof 0) of the normalized data ... *)
Theorem C18_loglik_definition :
  forall (k : nkind) (p : npar R) (d : list R), d <> nil -> 0 < nvar Rops (map (normalize_raw Rops k p) d) ->
    loglik_valid Rops k p d =
    rsum (map (fun x => gauss_logpdf (nmean Rops (map (normalize_raw Rops k p) d))
                                     (nvar Rops (map (normalize_raw Rops k p) d)) (normalize_raw Rops k p x)) d)
    + rsum (map (fun x => ln (nmax Rops (tiny Rops) (derivative_raw Rops k p x))) d).
Proof. exact loglik_profile. Qed.
Print Assumptions C18_loglik_definition.

(* ... and no other mean / variance gives a larger likelihood: it is the maximum over (mu, s2) *)
Theorem C18_loglik_maximal :
  forall (k : nkind) (p : npar R) (d : list R) (mu s2 : R),
    d <> nil -> 0 < nvar Rops (map (normalize_raw Rops k p) d) -> 0 < s2 ->
    rsum (map (fun x => gauss_logpdf mu s2 (normalize_raw Rops k p x)) d)
    + rsum (map (fun x => ln (nmax Rops (tiny Rops) (derivative_raw Rops k p x))) d)
    <= loglik_valid Rops k p d.
Proof. exact loglik_maximal. Qed.
Print Assumptions C18_loglik_maximal.

(* kernel_loglikelihood differs from loglikelihood by the constant -n/2 (ln 2 pi + 1): same maximiser in lmbda *)
Theorem C18_loglik_kernel_offset :
  forall (k : nkind) (p : npar R) (d : list R),
    loglik_valid Rops k p d = kernel_loglik_valid Rops k p d - INR (length d) / 2 * (ln (2 * PI) + 1).
Proof. exact loglik_kernel_offset. Qed.
Print Assumptions C18_loglik_kernel_offset.

(* non-vacuity: ranges are inhabited, both branches occur, data with positive variance exist *)
Theorem C18_hypotheses_satisfiable :
  (forall (k : nkind) (p : npar R), -1 < shift p ->
     in_range Rops (norm_range Rops k p) 1 = true /\
     in_range Rops (denorm_range Rops k p) (normalize_raw Rops k p 1) = true) /\
  (close0 Rops 0 = true /\ close0 Rops (1 / 1000000000) = true /\ close0 Rops (-1) = false /\ close0 Rops (1 / 2) = false /\
   close2 Rops 2 = true /\ close2 Rops (2 + 1 / 100000) = true /\ close2 Rops (5 / 2) = false) /\
  (forall p : npar R, (0 :: 1 :: nil) <> nil /\ 0 < nvar Rops (map (normalize_raw Rops KIdentity p) (0 :: 1 :: nil))).
Proof. exact (conj ranges_inhabited (conj branches_inhabited variance_positive)). Qed.
Print Assumptions C18_hypotheses_satisfiable.

(* Normalizer.fit bookkeeping, for every number type and ANY behaviour of the optimiser (any sequence of trial
   points written into the free parameters by the objective, any final point): parameters are held in sorted-name
   order, [skipm] marks the skipped ones.  Skipped parameters keep their values ... *)
Theorem C18_fit_skipped_untouched :
  forall (T : Type) (skipm : list bool) (trials : list (list T)) (xfinal st : list T) (d : T) (i : nat),
    nth i skipm false = true -> nth i (fst (fit_book skipm trials xfinal st)) d = nth i st d.
Proof. exact @fit_skipped_untouched. Qed.
Print Assumptions C18_fit_skipped_untouched.

(* ... the free parameters, in name order, hold exactly the optimiser's final point ... *)
Theorem C18_fit_free_hold_optimum :
  forall (T : Type) (skipm : list bool) (trials : list (list T)) (xfinal st : list T),
    length skipm = length st -> length xfinal = length (filter negb skipm) -> length (filter negb skipm) <> 0%nat ->
    gather skipm (fst (fit_book skipm trials xfinal st)) = xfinal.
Proof. exact @fit_free_hold_optimum. Qed.
Print Assumptions C18_fit_free_hold_optimum.

(* ... and the returned dict is the object state ({} and an untouched object when nothing is free) *)
Theorem C18_fit_dict_is_state :
  forall (T : Type) (skipm : list bool) (trials : list (list T)) (xfinal st : list T),
    (length (filter negb skipm) = 0%nat -> fit_book skipm trials xfinal st = (st, None)) /\
    (length (filter negb skipm) <> 0%nat ->
       snd (fit_book skipm trials xfinal st) = Some (fst (fit_book skipm trials xfinal st))) /\
    length (fst (fit_book skipm trials xfinal st)) = length st.
Proof. exact @fit_dict_is_state. Qed.
Print Assumptions C18_fit_dict_is_state.

(* ------------------------------------------------------------------------------------------------------------------
   Tie to the source: [LogNormal_normalize] ... [Manly_derivative] are the formulas of normalizer/methods.py translated
   to Gallina on every run (coq/gen/Formulas_gen.v).  They equal the hand model's maps: for every number type where the
   two terms coincide by unfolding, at the real instance (every lmbda, every datum, no side condition) for the six that
   use np.log1p / np.expm1 (translated as ln (1 + x) / exp x - 1; oracle functions in the hand model). *)
Theorem C18_tie_LogNormal_normalize :
  forall (T : Type) (O : NumOps T) (p : npar T) (x : T), LogNormal_normalize O x = normalize_raw O KLogNormal p x.
Proof. exact @LogNormal_normalize_tie. Qed.
Print Assumptions C18_tie_LogNormal_normalize.

Theorem C18_tie_LogNormal_denormalize :
  forall (T : Type) (O : NumOps T) (p : npar T) (x : T), LogNormal_denormalize O x = denormalize_raw O KLogNormal p x.
Proof. exact @LogNormal_denormalize_tie. Qed.
Print Assumptions C18_tie_LogNormal_denormalize.

Theorem C18_tie_LogNormal_derivative :
  forall (T : Type) (O : NumOps T) (p : npar T) (x : T), LogNormal_derivative O x = derivative_raw O KLogNormal p x.
Proof. exact @LogNormal_derivative_tie. Qed.
Print Assumptions C18_tie_LogNormal_derivative.

Theorem C18_tie_BoxCox_normalize :
  forall (T : Type) (O : NumOps T) (p : npar T) (x : T), BoxCox_normalize O (lmbda p) x = normalize_raw O KBoxCox p x.
Proof. exact @BoxCox_normalize_tie. Qed.
Print Assumptions C18_tie_BoxCox_normalize.

Theorem C18_tie_BoxCox_denormalize :
  forall (T : Type) (O : NumOps T) (p : npar T) (x : T), BoxCox_denormalize O (lmbda p) x = denormalize_raw O KBoxCox p x.
Proof. exact @BoxCox_denormalize_tie. Qed.
Print Assumptions C18_tie_BoxCox_denormalize.

Theorem C18_tie_BoxCox_derivative :
  forall (T : Type) (O : NumOps T) (p : npar T) (x : T), BoxCox_derivative O (lmbda p) x = derivative_raw O KBoxCox p x.
Proof. exact @BoxCox_derivative_tie. Qed.
Print Assumptions C18_tie_BoxCox_derivative.

Theorem C18_tie_BoxCoxShift_normalize :
  forall (T : Type) (O : NumOps T) (p : npar T) (x : T), BoxCoxShift_normalize O (lmbda p) (shift p) x = normalize_raw O KBoxCoxShift p x.
Proof. exact @BoxCoxShift_normalize_tie. Qed.
Print Assumptions C18_tie_BoxCoxShift_normalize.

Theorem C18_tie_BoxCoxShift_denormalize :
  forall (T : Type) (O : NumOps T) (p : npar T) (x : T), BoxCoxShift_denormalize O (lmbda p) (shift p) x = denormalize_raw O KBoxCoxShift p x.
Proof. exact @BoxCoxShift_denormalize_tie. Qed.
Print Assumptions C18_tie_BoxCoxShift_denormalize.

Theorem C18_tie_BoxCoxShift_derivative :
  forall (T : Type) (O : NumOps T) (p : npar T) (x : T), BoxCoxShift_derivative O (shift p) (lmbda p) x = derivative_raw O KBoxCoxShift p x.
Proof. exact @BoxCoxShift_derivative_tie. Qed.
Print Assumptions C18_tie_BoxCoxShift_derivative.

Theorem C18_tie_YeoJohnson_derivative :
  forall (T : Type) (O : NumOps T) (p : npar T) (x : T), YeoJohnson_derivative O (lmbda p) x = derivative_raw O KYeoJohnson p x.
Proof. exact @YeoJohnson_derivative_tie. Qed.
Print Assumptions C18_tie_YeoJohnson_derivative.

Theorem C18_tie_Modulus_derivative :
  forall (T : Type) (O : NumOps T) (p : npar T) (x : T), Modulus_derivative O (lmbda p) x = derivative_raw O KModulus p x.
Proof. exact @Modulus_derivative_tie. Qed.
Print Assumptions C18_tie_Modulus_derivative.

Theorem C18_tie_Manly_derivative :
  forall (T : Type) (O : NumOps T) (p : npar T) (x : T), Manly_derivative O (lmbda p) x = derivative_raw O KManly p x.
Proof. exact @Manly_derivative_tie. Qed.
Print Assumptions C18_tie_Manly_derivative.

Theorem C18_tie_YeoJohnson_normalize :
  forall (p : npar R) (x : R), YeoJohnson_normalize Rops (lmbda p) x = normalize_raw Rops KYeoJohnson p x.
Proof. exact YeoJohnson_normalize_tie. Qed.
Print Assumptions C18_tie_YeoJohnson_normalize.

Theorem C18_tie_YeoJohnson_denormalize :
  forall (p : npar R) (x : R), YeoJohnson_denormalize Rops (lmbda p) x = denormalize_raw Rops KYeoJohnson p x.
Proof. exact YeoJohnson_denormalize_tie. Qed.
Print Assumptions C18_tie_YeoJohnson_denormalize.

Theorem C18_tie_Modulus_normalize :
  forall (p : npar R) (x : R), Modulus_normalize Rops (lmbda p) x = normalize_raw Rops KModulus p x.
Proof. exact Modulus_normalize_tie. Qed.
Print Assumptions C18_tie_Modulus_normalize.

Theorem C18_tie_Modulus_denormalize :
  forall (p : npar R) (x : R), Modulus_denormalize Rops (lmbda p) x = denormalize_raw Rops KModulus p x.
Proof. exact Modulus_denormalize_tie. Qed.
Print Assumptions C18_tie_Modulus_denormalize.

Theorem C18_tie_Manly_normalize :
  forall (p : npar R) (x : R), Manly_normalize Rops (lmbda p) x = normalize_raw Rops KManly p x.
Proof. exact Manly_normalize_tie. Qed.
Print Assumptions C18_tie_Manly_normalize.

Theorem C18_tie_Manly_denormalize :
  forall (p : npar R) (x : R), Manly_denormalize Rops (lmbda p) x = denormalize_raw Rops KManly p x.
Proof. exact Manly_denormalize_tie. Qed.
Print Assumptions C18_tie_Manly_denormalize.

(* the translated range properties (lower, upper; None = infinite bound) equal the model's ranges, for every number type *)
Theorem C18_tie_BoxCox_denormalize_range :
  forall (T : Type) (O : NumOps T) (p : npar T), BoxCox_denormalize_range O (lmbda p) = denorm_range O KBoxCox p.
Proof. exact @BoxCox_denormalize_range_tie. Qed.
Print Assumptions C18_tie_BoxCox_denormalize_range.

Theorem C18_tie_BoxCoxShift_normalize_range :
  forall (T : Type) (O : NumOps T) (p : npar T), BoxCoxShift_normalize_range O (shift p) = norm_range O KBoxCoxShift p.
Proof. exact @BoxCoxShift_normalize_range_tie. Qed.
Print Assumptions C18_tie_BoxCoxShift_normalize_range.

Theorem C18_tie_BoxCoxShift_denormalize_range :
  forall (T : Type) (O : NumOps T) (p : npar T), BoxCoxShift_denormalize_range O (lmbda p) = denorm_range O KBoxCoxShift p.
Proof. exact @BoxCoxShift_denormalize_range_tie. Qed.
Print Assumptions C18_tie_BoxCoxShift_denormalize_range.

Theorem C18_tie_YeoJohnson_denormalize_range :
  forall (T : Type) (O : NumOps T) (p : npar T), YeoJohnson_denormalize_range O (lmbda p) = denorm_range O KYeoJohnson p.
Proof. exact @YeoJohnson_denormalize_range_tie. Qed.
Print Assumptions C18_tie_YeoJohnson_denormalize_range.

Theorem C18_tie_Modulus_denormalize_range :
  forall (T : Type) (O : NumOps T) (p : npar T), Modulus_denormalize_range O (lmbda p) = denorm_range O KModulus p.
Proof. exact @Modulus_denormalize_range_tie. Qed.
Print Assumptions C18_tie_Modulus_denormalize_range.

Theorem C18_tie_Manly_denormalize_range :
  forall (T : Type) (O : NumOps T) (p : npar T), Manly_denormalize_range O (lmbda p) = denorm_range O KManly p.
Proof. exact @Manly_denormalize_range_tie. Qed.
Print Assumptions C18_tie_Manly_denormalize_range.

(* The central theorems once more, now about the translated source formulas: [src_normalize k p], [src_denormalize k p],
   [src_derivative k p] select, by class, the generated definition instantiated at R with the parameters of p
   (c18/C18_Tie.v; the parameter-free base class is the identity).  [src_norm_range], [src_denorm_range] select the
   generated range properties (the plain class attributes (0.0, inf) of LogNormal / BoxCox normalize_range and the
   default (-inf, inf) are written out in C18_Tie.v and tied by execution). *)
Theorem C18_src_denorm_norm :
  forall (k : nkind) (p : npar R) (x : R), in_range Rops (src_norm_range Rops k p) x = true ->
    in_range Rops (src_denorm_range Rops k p) (src_normalize k p x) = true /\
    src_denormalize k p (src_normalize k p x) = x.
Proof. exact src_denorm_norm. Qed.
Print Assumptions C18_src_denorm_norm.

Theorem C18_src_norm_denorm :
  forall (k : nkind) (p : npar R) (y : R), in_range Rops (src_denorm_range Rops k p) y = true ->
    in_range Rops (src_norm_range Rops k p) (src_denormalize k p y) = true /\
    src_normalize k p (src_denormalize k p y) = y.
Proof. exact src_norm_denorm. Qed.
Print Assumptions C18_src_norm_denorm.

Theorem C18_src_strictly_increasing :
  forall (k : nkind) (p : npar R) (x1 x2 : R),
    in_range Rops (src_norm_range Rops k p) x1 = true -> in_range Rops (src_norm_range Rops k p) x2 = true ->
    x1 < x2 -> src_normalize k p x1 < src_normalize k p x2.
Proof. exact src_strictly_increasing. Qed.
Print Assumptions C18_src_strictly_increasing.

Theorem C18_src_ranges :
  forall (k : nkind) (p : npar R) (y : R),
    (exists x, in_range Rops (src_norm_range Rops k p) x = true /\ src_normalize k p x = y) <->
    in_range Rops (src_denorm_range Rops k p) y = true.
Proof. exact src_ranges. Qed.
Print Assumptions C18_src_ranges.

Theorem C18_src_derivative :
  forall (k : nkind) (p : npar R) (x : R), in_range Rops (src_norm_range Rops k p) x = true -> exact_branch k p x ->
    is_derive (src_normalize k p) x (src_derivative k p x).
Proof. exact src_derivative_exact. Qed.
Print Assumptions C18_src_derivative.

(* ------------------------------------------------------------------------------------------------------------------
   Holders of the pipeline (Krige and subclasses; Field / SRF / CondSRF without conditions) as a state machine over
   operation histories: setters of mean, trend, normalizer (also in-place parameter changes and refits), set_condition,
   new positions, evaluations.  [K] is the kriging operator as an oracle.  For every number type: an evaluation leaves no
   trace, so the result after any history is the result of the history with all earlier evaluations removed - a function
   of the present mean / normalizer / trend / conditions only. *)
Theorem C18_eval_leaves_no_trace :
  forall (T : Type) (O : NumOps T) (K : nat -> list (option T) -> list T) (ops1 ops2 : list (@hop T)) (s : @hstate T),
    run O K (ops1 ++ OEval :: ops2) s = run O K (ops1 ++ ops2) s.
Proof. exact @eval_leaves_no_trace. Qed.
Print Assumptions C18_eval_leaves_no_trace.

Theorem C18_result_is_function_of_setters :
  forall (T : Type) (O : NumOps T) (K : nat -> list (option T) -> list T) (ops : list (@hop T)) (s : @hstate T),
    snd (hstep O K (run O K ops s) OEval) = Some (heval O K (run O K (no_evals ops) s)).
Proof. exact @result_is_function_of_setters. Qed.
Print Assumptions C18_result_is_function_of_setters.

(* at R, after ANY history: an interpolator that is exact at the conditioning points returns the conditioning values
   when the present detrended data lie in the present normalize range (pipeline round trip with the present parameters) *)
Theorem C18_history_honours_data :
  forall (K : nat -> list (option R) -> list R) (ops : list (@hop R)) (s0 : @hstate R),
    let s := run Rops K ops s0 in
    length (h_mc s) = length (h_cond s) -> length (h_tc s) = length (h_cond s) ->
    h_mt s = h_mc s -> h_tt s = h_tc s ->
    K (h_setup s) (krige_cond Rops s) = strip (krige_cond Rops s) ->
    List.Forall (fun mtf => in_range Rops (norm_range Rops (h_kind s) (h_par s)) (snd mtf - snd (fst mtf)) = true)
           (zip3 (h_mc s) (h_tc s) (h_cond s)) ->
    heval Rops K s = map Some (h_cond s).
Proof. exact history_honours_data. Qed.
Print Assumptions C18_history_honours_data.

(* Krige.get_mean(post_process=True) = denormalize (raw mean + mean) (raw mean = 0 for simple kriging, the estimate of the
   kriging system for ordinary kriging); a field evaluated with only_mean=True is that value plus the trend, for every number
   type; at R the value normalizes back to raw mean + mean on the denormalize range *)
Theorem C18_only_mean_is_get_mean_plus_trend :
  forall (T : Type) (O : NumOps T) (k : nkind) (p : npar T) (m t rawm : T),
    apply_pt O k p m t rawm = option_map (fun v => nadd O v t) (get_mean O k p m rawm).
Proof. exact @only_mean_is_get_mean_plus_trend. Qed.
Print Assumptions C18_only_mean_is_get_mean_plus_trend.

Theorem C18_get_mean_roundtrip :
  forall (k : nkind) (p : npar R) (m rawm : R), in_range Rops (denorm_range Rops k p) (rawm + m) = true ->
    get_mean Rops k p m rawm = Some (denormalize_raw Rops k p (rawm + m)) /\
    normalize Rops k p (denormalize_raw Rops k p (rawm + m)) = Some (rawm + m).
Proof. exact get_mean_roundtrip. Qed.
Print Assumptions C18_get_mean_roundtrip.
