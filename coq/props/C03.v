(* C03 — model functions are mutually consistent and match their documented closed forms.
   Only statements; proofs live in c03/*.v.  [OR ora] is the real-number instance of the number interface
   with the special functions (scipy) an arbitrary function [ora]: every theorem is quantified over it.
   The model (c03/C03_Model.v) is written once for every number type and is the very term executed at
   floats against /repo in the correspondence stage of harness/c03.py. *)
From Coq Require Import Reals ZArith List Bool.
From Coquelicot Require Import Coquelicot.
From GS Require Import Num Loops Formulas Formulas_gen C03_Model C03_RInst C03_Proofs C03_Closed C03_Integral C03_Tie.
Import ListNotations.
Open Scope R_scope.
Notation OR := Rops3.

(* ------------------------------------------------------------------ method derivation (_init_subclass) *)
(* every number type: a class is rejected iff it provides none of the four methods; otherwise every one of
   the four public functions is defined (the mutual calls terminate) *)
Theorem C03_complete_iff_not_abstract :
  forall (T : Type) (O : NumOps T) d u var nug lr f x,
    derive O d u var nug lr f x = None <-> abstract d = true.
Proof. exact @derive_none_iff. Qed.
Print Assumptions C03_complete_iff_not_abstract.

(* every number type: the shipped classes (only [cor] defined) get exactly these three functions *)
Theorem C03_shipped_dispatch :
  forall (T : Type) (O : NumOps T) cor uc uv ug var nug lr x,
    let d := mkDef true false false false in
    let u := mkUser cor uc uv ug in
    derive O d u var nug lr Correlation x = Some (cor (ndiv O (nabs O x) lr)) /\
    derive O d u var nug lr Covariance x = Some (nmul O var (cor (ndiv O (nabs O x) lr))) /\
    derive O d u var nug lr Variogram x
      = Some (nadd O (nsub O var (nmul O var (cor (ndiv O (nabs O x) lr)))) nug) /\
    derive O d u var nug lr Cor x = Some (cor x).
Proof. exact @derive_cor_only. Qed.
Print Assumptions C03_shipped_dispatch.

(* every number type: the TPL classes (cor and correlation defined) *)
Theorem C03_tpl_dispatch :
  forall (T : Type) (O : NumOps T) cor corr uv ug var nug lr x,
    let d := mkDef true true false false in
    let u := mkUser cor corr uv ug in
    derive O d u var nug lr Correlation x = Some (corr x) /\
    derive O d u var nug lr Covariance x = Some (nmul O var (corr x)) /\
    derive O d u var nug lr Variogram x = Some (nadd O (nsub O var (nmul O var (corr x))) nug).
Proof. exact @derive_cor_correlation. Qed.
Print Assumptions C03_tpl_dispatch.

(* the three identities, for ANY normalised correlation function *)
Theorem C03_identities :
  forall ora (cor : R -> R) var nug len resc r, resc <> 0 -> len <> 0 ->
    let lr := len_rescaled (OR ora) len resc in
    variogram_of (OR ora) cor var nug lr r = var + nug - covariance_of (OR ora) cor var lr r /\
    covariance_of (OR ora) cor var lr r = var * correlation_of (OR ora) cor lr r /\
    correlation_of (OR ora) cor lr r = cor (resc * Rabs r / len).
Proof. exact identities. Qed.
Print Assumptions C03_identities.

(* a class given through ANY non-empty subset of cor / correlation / covariance / variogram, each provided
   method being the canonical one for the normalised correlation c, has all four canonical functions *)
Theorem C03_derive_canonical :
  forall ora c var nug lr d u f x,
    var <> 0 -> 0 < lr -> abstract d = false -> consistent c var nug lr d u -> (f = Cor -> 0 <= x) ->
    derive (OR ora) d u var nug lr f x =
    Some (match f with
          | Cor => c x
          | Correlation => c (Rabs x / lr)
          | Covariance => var * c (Rabs x / lr)
          | Variogram => var - var * c (Rabs x / lr) + nug
          end).
Proof. exact derive_canonical. Qed.
Print Assumptions C03_derive_canonical.

Theorem C03_four_definitions_agree :
  forall ora c var nug lr d1 u1 d2 u2 f x,
    var <> 0 -> 0 < lr -> abstract d1 = false -> abstract d2 = false ->
    consistent c var nug lr d1 u1 -> consistent c var nug lr d2 u2 -> (f = Cor -> 0 <= x) ->
    derive (OR ora) d1 u1 var nug lr f x = derive (OR ora) d2 u2 var nug lr f x /\
    derive (OR ora) d1 u1 var nug lr f x <> None.
Proof. exact four_definitions_agree. Qed.
Print Assumptions C03_four_definitions_agree.

(* the hypotheses of the two theorems above are satisfiable: the hand-written Gaussian-shaped user classes
   used by the correspondence are consistent, for every subset of provided methods *)
Theorem C03_consistent_example :
  forall ora var nug lr d, 0 < lr ->
    consistent (cor_gaussian (OR ora)) var nug lr d (user_gauss (OR ora) var nug lr).
Proof. exact user_gauss_consistent. Qed.
Print Assumptions C03_consistent_example.

(* ------------------------------------------------------------------ variants *)
(* along the transversal axis k+1 all three functions are the isotropic ones with length scale len * anis_k *)
Theorem C03_variants_axis :
  forall ora cor var nug len resc anis k r,
    let a := nth k anis 1 in
    0 < a -> resc <> 0 -> len <> 0 ->
    axis_variant (OR ora) (correlation_of (OR ora) cor (len_rescaled (OR ora) len resc)) anis (S k) r
      = correlation_of (OR ora) cor (len_rescaled (OR ora) (len * a) resc) r /\
    axis_variant (OR ora) (covariance_of (OR ora) cor var (len_rescaled (OR ora) len resc)) anis (S k) r
      = covariance_of (OR ora) cor var (len_rescaled (OR ora) (len * a) resc) r /\
    axis_variant (OR ora) (variogram_of (OR ora) cor var nug (len_rescaled (OR ora) len resc)) anis (S k) r
      = variogram_of (OR ora) cor var nug (len_rescaled (OR ora) (len * a) resc) r.
Proof.
  intros ora cor var nug len resc anis k r a Ha Hs Hl. split.
  - exact (axis_transversal ora cor len resc anis k r Ha Hs Hl).
  - exact (axis_transversal_all ora cor var nug len resc anis k r Ha Hs Hl).
Qed.
Print Assumptions C03_variants_axis.

(* Yadrenko: the lag is the chord between two points of the sphere a great-circle distance zeta apart;
   the three identities carry over *)
Theorem C03_variants_yadrenko :
  forall ora cor var nug lr geo zeta,
    (0 < geo -> 0 <= zeta <= 2 * PI * geo ->
       chord (OR ora) geo zeta
       = sqrt ((geo - geo * cos (zeta / geo)) ^ 2 + (0 - geo * sin (zeta / geo)) ^ 2)) /\
    yadrenko_variant (OR ora) (variogram_of (OR ora) cor var nug lr) geo zeta
      = var + nug - yadrenko_variant (OR ora) (covariance_of (OR ora) cor var lr) geo zeta /\
    yadrenko_variant (OR ora) (covariance_of (OR ora) cor var lr) geo zeta
      = var * yadrenko_variant (OR ora) (correlation_of (OR ora) cor lr) geo zeta /\
    yadrenko_variant (OR ora) (correlation_of (OR ora) cor lr) geo zeta
      = cor (Rabs (chord (OR ora) geo zeta) / lr).
Proof.
  intros. split; [intros; apply chord_is_euclid; assumption | apply yadrenko_identities].
Qed.
Print Assumptions C03_variants_yadrenko.

(* spatial variants in 2D (M = matrix_isometrize(2, angle, anis) written out): the isotropic lag is the
   distance in the rotated, transversally shrunk frame; along the rotated main axes the spatial variant
   is the axis variant *)
Theorem C03_variants_spatial_2d :
  forall ora (f : R -> R) angle anis x y t, 0 < anis ->
    iso_rad (OR ora) (isometrize2 (OR ora) angle anis) [x; y]
      = sqrt ((cos angle * x + sin angle * y) ^ 2 + ((- sin angle * x + cos angle * y) / anis) ^ 2) /\
    spatial_variant (OR ora) f (isometrize2 (OR ora) angle anis) [t * cos angle; t * sin angle]
      = axis_variant (OR ora) f [anis] 0 (Rabs t) /\
    spatial_variant (OR ora) f (isometrize2 (OR ora) angle anis) [t * - sin angle; t * cos angle]
      = axis_variant (OR ora) f [anis] 1 t.
Proof.
  intros ora f angle anis x y t Ha. split.
  - apply iso_rad2. apply Rgt_not_eq. exact Ha.
  - apply spatial_along_axes. exact Ha.
Qed.
Print Assumptions C03_variants_spatial_2d.

(* nugget variants: outside the isclose window |r| <= 1e-8 they ARE the plain functions, inside they are 0
   and the sill; they always add up to the sill *)
Theorem C03_nugget_variants :
  forall ora cor var nug lr r,
    let vario := variogram_of (OR ora) cor var nug lr in
    let cov := covariance_of (OR ora) cor var lr in
    (1 / 100000000 < Rabs r ->
       vario_nugget (OR ora) vario r = vario r /\ cov_nugget (OR ora) cov var nug r = cov r) /\
    (Rabs r <= 1 / 100000000 ->
       vario_nugget (OR ora) vario r = 0 /\ cov_nugget (OR ora) cov var nug r = var + nug) /\
    vario_nugget (OR ora) vario r + cov_nugget (OR ora) cov var nug r = var + nug.
Proof. exact nugget_variants_model. Qed.
Print Assumptions C03_nugget_variants.

(* the same for arbitrary (user) variogram / covariance functions *)
Theorem C03_nugget_variants_any :
  forall ora (vario cov : R -> R) var nug r,
    (1 / 100000000 < Rabs r ->
       vario_nugget (OR ora) vario r = vario (Rabs r) /\ cov_nugget (OR ora) cov var nug r = cov (Rabs r)) /\
    (Rabs r <= 1 / 100000000 ->
       vario_nugget (OR ora) vario r = 0 /\ cov_nugget (OR ora) cov var nug r = var + nug).
Proof. exact nugget_variants. Qed.
Print Assumptions C03_nugget_variants_any.

(* ------------------------------------------------------------------ documented closed forms
   stated about the formulas TRANSLATED FROM THE SOURCE on this run (Formulas_gen.*_cor, coq/gen/Formulas_gen.v);
   the ties C03_tie_* below connect them to the hand model that the correspondence executes *)
Theorem C03_closed_form_Gaussian :
  forall ora var nug len resc r, 0 < len -> 0 < resc -> 0 <= r ->
    variogram_of (OR ora) (Formulas_gen.Gaussian_cor (OR ora)) var nug (len_rescaled (OR ora) len resc) r
    = var * (1 - exp (- (resc * r / len) ^ 2)) + nug.
Proof. intros ora. rewrite Gaussian_cor_eq. exact (closed_gaussian ora). Qed.
Print Assumptions C03_closed_form_Gaussian.

Theorem C03_closed_form_Exponential :
  forall ora var nug len resc r, 0 < len -> 0 < resc -> 0 <= r ->
    variogram_of (OR ora) (Formulas_gen.Exponential_cor (OR ora)) var nug (len_rescaled (OR ora) len resc) r
    = var * (1 - exp (- (resc * r / len))) + nug.
Proof. exact closed_exponential. Qed.
Print Assumptions C03_closed_form_Exponential.

Theorem C03_closed_form_Stable :
  forall ora len resc r, 0 < len -> 0 < resc -> 0 <= r -> forall alpha, 0 < alpha ->
    correlation_of (OR ora) (Formulas_gen.Stable_cor (OR ora) alpha) (len_rescaled (OR ora) len resc) r
    = let h := resc * r / len in if Req_EM_T h 0 then 1 else exp (- Rpower h alpha).
Proof. intros ora len resc r. exact (closed_stable ora 0 0 len resc r). Qed.
Print Assumptions C03_closed_form_Stable.

Theorem C03_closed_form_Rational :
  forall ora len resc r, 0 < len -> 0 < resc -> 0 <= r -> forall alpha, 0 < alpha ->
    correlation_of (OR ora) (Formulas_gen.Rational_cor (OR ora) alpha) (len_rescaled (OR ora) len resc) r
    = Rpower (1 + / alpha * (resc * r / len) ^ 2) (- alpha).
Proof. intros ora len resc r Hl Hs Hr alpha Ha. rewrite Rational_cor_eq. exact (closed_rational ora 0 0 len resc r Hl Hs Hr alpha Ha). Qed.
Print Assumptions C03_closed_form_Rational.

Theorem C03_closed_form_Cubic :
  forall ora len resc r, 0 < len -> 0 < resc -> 0 <= r ->
    correlation_of (OR ora) (Formulas_gen.Cubic_cor (OR ora)) (len_rescaled (OR ora) len resc) r
    = let h := resc * r / len in
      if Rlt_dec r (len / resc) then 1 - 7 * h ^ 2 + 35 / 4 * h ^ 3 - 7 / 2 * h ^ 5 + 3 / 4 * h ^ 7 else 0.
Proof.
  intros ora len resc r Hl Hs Hr. rewrite Cubic_cor_eq. rewrite (closed_cubic ora 0 0 len resc r Hl Hs Hr). unfold doc_cubic. cbv zeta.
  pose proof (range_edge len resc r Hl Hs) as E.
  destruct (Rlt_dec (resc * r / len) 1), (Rlt_dec r (len / resc)); tauto.
Qed.
Print Assumptions C03_closed_form_Cubic.

Theorem C03_closed_form_Linear :
  forall ora len resc r, 0 < len -> 0 < resc -> 0 <= r ->
    correlation_of (OR ora) (Formulas_gen.Linear_cor (OR ora)) (len_rescaled (OR ora) len resc) r
    = if Rlt_dec r (len / resc) then 1 - resc * r / len else 0.
Proof.
  intros ora len resc r Hl Hs Hr. rewrite Linear_cor_eq. rewrite (closed_linear ora 0 0 len resc r Hl Hs Hr). unfold doc_linear.
  pose proof (range_edge len resc r Hl Hs) as E.
  destruct (Rlt_dec (resc * r / len) 1), (Rlt_dec r (len / resc)); tauto.
Qed.
Print Assumptions C03_closed_form_Linear.

Theorem C03_closed_form_Circular :
  forall ora len resc r, 0 < len -> 0 < resc -> 0 <= r ->
    correlation_of (OR ora) (Formulas_gen.Circular_cor (OR ora)) (len_rescaled (OR ora) len resc) r
    = let h := resc * r / len in
      if Rlt_dec r (len / resc) then 2 / PI * (acos h - h * sqrt (1 - h ^ 2)) else 0.
Proof.
  intros ora len resc r Hl Hs Hr. rewrite Circular_cor_eq. rewrite (closed_circular ora 0 0 len resc r Hl Hs Hr). unfold doc_circular. cbv zeta.
  pose proof (range_edge len resc r Hl Hs) as E.
  destruct (Rlt_dec (resc * r / len) 1), (Rlt_dec r (len / resc)); tauto.
Qed.
Print Assumptions C03_closed_form_Circular.

Theorem C03_closed_form_Spherical :
  forall ora len resc r, 0 < len -> 0 < resc -> 0 <= r ->
    correlation_of (OR ora) (Formulas_gen.Spherical_cor (OR ora)) (len_rescaled (OR ora) len resc) r
    = let h := resc * r / len in
      if Rlt_dec r (len / resc) then 1 - 3 / 2 * h + 1 / 2 * h ^ 3 else 0.
Proof.
  intros ora len resc r Hl Hs Hr. rewrite Spherical_cor_eq. rewrite (closed_spherical ora 0 0 len resc r Hl Hs Hr). unfold doc_spherical. cbv zeta.
  pose proof (range_edge len resc r Hl Hs) as E.
  destruct (Rlt_dec (resc * r / len) 1), (Rlt_dec r (len / resc)); tauto.
Qed.
Print Assumptions C03_closed_form_Spherical.

Theorem C03_closed_form_TPLSimple :
  forall ora len resc r nu, 0 < len -> 0 < resc -> 0 <= r -> 0 < nu ->
    correlation_of (OR ora) (Formulas_gen.TPLSimple_cor (OR ora) nu) (len_rescaled (OR ora) len resc) r
    = if Rlt_dec r (len / resc) then Rpower (1 - resc * r / len) nu else 0.
Proof.
  intros ora len resc r nu Hl Hs Hr Hn. rewrite TPLSimple_cor_eq. rewrite (closed_tplsimple ora 0 0 len resc r Hl Hs Hr nu Hn). unfold doc_tplsimple.
  pose proof (range_edge len resc r Hl Hs) as E.
  destruct (Rlt_dec (resc * r / len) 1), (Rlt_dec r (len / resc)); tauto.
Qed.
Print Assumptions C03_closed_form_TPLSimple.

(* correlation 1 at lag 0 for all elementary models (plain variogram(0) = nugget, covariance(0) = var) *)
Theorem C03_cor_at_zero :
  forall ora,
    Formulas_gen.Gaussian_cor (OR ora) 0 = 1 /\ Formulas_gen.Exponential_cor (OR ora) 0 = 1 /\
    Formulas_gen.Cubic_cor (OR ora) 0 = 1 /\ Formulas_gen.Linear_cor (OR ora) 0 = 1 /\
    Formulas_gen.Circular_cor (OR ora) 0 = 1 /\ Formulas_gen.Spherical_cor (OR ora) 0 = 1 /\
    (forall a, 0 < a -> Formulas_gen.Stable_cor (OR ora) a 0 = 1) /\
    (forall a, 0 < a -> Formulas_gen.Rational_cor (OR ora) a 0 = 1) /\
    (forall nu, 0 < nu -> Formulas_gen.TPLSimple_cor (OR ora) nu 0 = 1).
Proof.
  intros ora. rewrite Gaussian_cor_eq, Cubic_cor_eq, Linear_cor_eq, Circular_cor_eq, Spherical_cor_eq.
  destruct (cor_at_zero ora) as (A & B & C & D & E & F & G & H & K).
  split; [exact A|]. split; [exact B|]. split; [exact C|]. split; [exact D|]. split; [exact E|]. split; [exact F|].
  split; [exact G|]. split.
  - intros a Ha. rewrite Rational_cor_eq. exact (H a Ha).
  - intros nu Hn. rewrite TPLSimple_cor_eq. exact (K nu Hn).
Qed.
Print Assumptions C03_cor_at_zero.

(* Matern: the branch structure around the oracle values (nu > 20 is the documented Gaussian limit) *)
Theorem C03_matern_structure :
  forall ora nu h,
    (20 < nu -> cor_matern (OR ora) nu h = exp (- (Rabs h / 2) ^ 2)) /\
    (nu <= 20 -> h = 0 -> cor_matern (OR ora) nu h = 1) /\
    0 <= cor_matern (OR ora) nu h.
Proof. exact matern_structure. Qed.
Print Assumptions C03_matern_structure.

(* ------------------------------------------------------------------ integral scale = integral of the correlation *)
Theorem C03_integral_scale_Exponential :
  forall ora len resc, 0 < len -> 0 < resc ->
    let lr := len_rescaled (OR ora) len resc in
    is_RInt_gen (correlation_of (OR ora) (Formulas_gen.Exponential_cor (OR ora)) lr) (at_point 0) (Rbar_locally p_infty)
                (Formulas_gen.Exponential_calc_integral_scale lr).
Proof. exact integral_scale_exponential. Qed.
Print Assumptions C03_integral_scale_Exponential.

Theorem C03_integral_scale_Linear :
  forall ora len resc, 0 < len -> 0 < resc ->
    is_RInt_gen (correlation_of (OR ora) (Formulas_gen.Linear_cor (OR ora)) (len_rescaled (OR ora) len resc))
                (at_point 0) (Rbar_locally p_infty) (len_rescaled (OR ora) len resc * / 2).
Proof. intros ora. rewrite Linear_cor_eq. exact (integral_scale_linear ora). Qed.
Print Assumptions C03_integral_scale_Linear.

Theorem C03_integral_scale_Spherical :
  forall ora len resc, 0 < len -> 0 < resc ->
    is_RInt_gen (correlation_of (OR ora) (Formulas_gen.Spherical_cor (OR ora)) (len_rescaled (OR ora) len resc))
                (at_point 0) (Rbar_locally p_infty) (len_rescaled (OR ora) len resc * (3 / 8)).
Proof. intros ora. rewrite Spherical_cor_eq. exact (integral_scale_spherical ora). Qed.
Print Assumptions C03_integral_scale_Spherical.

Theorem C03_integral_scale_Cubic :
  forall ora len resc, 0 < len -> 0 < resc ->
    is_RInt_gen (correlation_of (OR ora) (Formulas_gen.Cubic_cor (OR ora)) (len_rescaled (OR ora) len resc))
                (at_point 0) (Rbar_locally p_infty) (len_rescaled (OR ora) len resc * (35 / 96)).
Proof. intros ora. rewrite Cubic_cor_eq. exact (integral_scale_cubic ora). Qed.
Print Assumptions C03_integral_scale_Cubic.

(* partial: shape parameter an integer n >= 1 (covers the defaults (dim+1)/2 of dim 1 and 3) *)
Theorem C03_integral_scale_TPLSimple_partial :
  forall ora len resc, 0 < len -> 0 < resc -> forall n : nat, (1 <= n)%nat ->
    is_RInt_gen (correlation_of (OR ora) (Formulas_gen.TPLSimple_cor (OR ora) (IZR (Z.of_nat n))) (len_rescaled (OR ora) len resc))
                (at_point 0) (Rbar_locally p_infty) (len_rescaled (OR ora) len resc * / (IZR (Z.of_nat n) + 1)).
Proof. intros ora len resc Hl Hs n Hn. rewrite TPLSimple_cor_eq. exact (integral_scale_tplsimple ora len resc Hl Hs n Hn). Qed.
Print Assumptions C03_integral_scale_TPLSimple_partial.

(* prescribing the integral scale: for every class whose integral scale is len_rescaled * kappa *)
Theorem C03_integral_scale_setter :
  forall ora kappa resc target, kappa <> 0 -> resc <> 0 ->
    let calc := fun len => len_rescaled (OR ora) len resc * kappa in
    exists len, set_integral_scale (OR ora) calc target = Some len /\ calc len = target /\
                len = target * resc / kappa.
Proof. exact integral_scale_setter. Qed.
Print Assumptions C03_integral_scale_setter.

(* percentile scale: at any root of the curve handed to the root finder the variogram is nugget + per * var *)
Theorem C03_percentile_scale_meaning :
  forall ora cor var nug lr per x,
    percentile_curve (OR ora) (correlation_of (OR ora) cor lr) per x = 0 ->
    variogram_of (OR ora) cor var nug lr x = nug + per * var.
Proof. exact percentile_scale_meaning. Qed.
Print Assumptions C03_percentile_scale_meaning.

Theorem C03_default_arg_inside :
  forall ora lo hi, (forall a b, lo = Some a -> hi = Some b -> a < b) ->
    let v := default_arg_from_bounds (OR ora) lo hi in
    (forall a, lo = Some a -> a < v) /\ (forall b, hi = Some b -> v < b).
Proof. exact default_arg_inside. Qed.
Print Assumptions C03_default_arg_inside.

(* ------------------------------------------------------------------ no history dependence *)
(* every number type: whatever sequence of assignments (var, len_scale, nugget, rescale, optional arguments, dim,
   anis, integral_scale) produced the object, everything a caller can read (the three functions at any lag, sill,
   len_rescaled, len_scale_vec, integral scale) is what a freshly constructed object with the current parameters gives *)
Theorem C03_derived_from_current_state :
  forall (T : Type) (O : NumOps T) cls ops st0 r,
    let st := run_ops O cls ops st0 in
    observe O cls st r
    = observe O cls (construct (s_var st) (s_len st) (s_nugget st) (s_rescale st) (s_p1 st) (s_p2 st) (s_p3 st)
                               (s_dim st) (s_anis st)) r.
Proof. exact @observe_fresh. Qed.
Print Assumptions C03_derived_from_current_state.

Theorem C03_history_free :
  forall (T : Type) (O : NumOps T) cls ops1 ops2 st1 st2 r,
    run_ops O cls ops1 st1 = run_ops O cls ops2 st2 ->
    observe O cls (run_ops O cls ops1 st1) r = observe O cls (run_ops O cls ops2 st2) r.
Proof. exact @observe_history_free. Qed.
Print Assumptions C03_history_free.

(* an assignment rewrites its own parameter only *)
Theorem C03_assignment_frame :
  forall (T : Type) (O : NumOps T) cls st op,
    let st' := set_step O cls st op in
    ((forall v, op <> SetVar v) -> s_var st' = s_var st) /\
    ((forall v, op <> SetNugget v) -> s_nugget st' = s_nugget st) /\
    ((forall d, op <> SetDim d) -> s_dim st' = s_dim st) /\
    ((forall k v, op <> SetOpt k v) -> s_p1 st' = s_p1 st /\ s_p2 st' = s_p2 st /\ s_p3 st' = s_p3 st) /\
    ((forall v, op <> SetLen v) -> (forall t, op <> SetIntScale t) -> s_len st' = s_len st).
Proof. exact @set_step_frame. Qed.
Print Assumptions C03_assignment_frame.

(* ------------------------------------------------------------------ hand model = formula translated from the source
   (coq/gen/Formulas_gen.v is regenerated from /repo on every run; a changed formula breaks these) *)
Theorem C03_tie_Exponential_cor :
  forall (T : Type) (O : NumOps T) h, Formulas_gen.Exponential_cor O h = cor_exponential O h.
Proof. exact @Exponential_cor_tie. Qed.
Print Assumptions C03_tie_Exponential_cor.

Theorem C03_tie_Stable_cor :
  forall (T : Type) (O : NumOps T) alpha h, Formulas_gen.Stable_cor O alpha h = cor_stable O alpha h.
Proof. exact @Stable_cor_tie. Qed.
Print Assumptions C03_tie_Stable_cor.

Theorem C03_tie_tplstable_cor :
  forall (T : Type) (O : NumOps T) r len hurst alpha, Formulas_gen.tplstable_cor O r len hurst alpha = C03_Model.tplstable_cor O r len hurst alpha.
Proof. exact @tplstable_cor_tie. Qed.
Print Assumptions C03_tie_tplstable_cor.

Theorem C03_tie_TPLStable_correlation :
  forall (T : Type) (O : NumOps T) len resc len_low hurst alpha r,
    Formulas_gen.TPLStable_correlation O (ndiv O len_low resc) (ndiv O len resc) hurst alpha (ndiv O (nadd O len_low len) resc) r
    = tpl_correlation O len resc len_low hurst alpha r.
Proof. exact @TPLStable_correlation_tie. Qed.
Print Assumptions C03_tie_TPLStable_correlation.

Theorem C03_tie_TPLGaussian_correlation :
  forall (T : Type) (O : NumOps T) len resc len_low hurst r,
    Formulas_gen.TPLGaussian_correlation O (ndiv O len_low resc) (ndiv O len resc) hurst (ndiv O (nadd O len_low len) resc) r
    = tpl_correlation O len resc len_low hurst (nlit O 2 0) r.
Proof. exact @TPLGaussian_correlation_tie. Qed.
Print Assumptions C03_tie_TPLGaussian_correlation.

Theorem C03_tie_TPLExponential_correlation :
  forall (T : Type) (O : NumOps T) len resc len_low hurst r,
    Formulas_gen.TPLExponential_correlation O (ndiv O len_low resc) (ndiv O len resc) hurst (ndiv O (nadd O len_low len) resc) r
    = tpl_correlation O len resc len_low hurst (n1 O) r.
Proof. exact @TPLExponential_correlation_tie. Qed.
Print Assumptions C03_tie_TPLExponential_correlation.

Theorem C03_tie_Gaussian_calc_integral_scale :
  forall (T : Type) (O : NumOps T) lr, Formulas_gen.Gaussian_calc_integral_scale O lr = intscale_gaussian O lr.
Proof. exact @Gaussian_calc_integral_scale_tie. Qed.
Print Assumptions C03_tie_Gaussian_calc_integral_scale.

Theorem C03_tie_Exponential_calc_integral_scale :
  forall (T : Type) (lr : T), Formulas_gen.Exponential_calc_integral_scale lr = intscale_exponential lr.
Proof. exact @Exponential_calc_integral_scale_tie. Qed.
Print Assumptions C03_tie_Exponential_calc_integral_scale.

Theorem C03_tie_Stable_calc_integral_scale :
  forall (T : Type) (O : NumOps T) lr alpha, Formulas_gen.Stable_calc_integral_scale O lr alpha = intscale_stable O alpha lr.
Proof. exact @Stable_calc_integral_scale_tie. Qed.
Print Assumptions C03_tie_Stable_calc_integral_scale.

Theorem C03_tie_Matern_calc_integral_scale :
  forall (T : Type) (O : NumOps T) lr nu, Formulas_gen.Matern_calc_integral_scale O lr nu = intscale_matern O nu lr.
Proof. exact @Matern_calc_integral_scale_tie. Qed.
Print Assumptions C03_tie_Matern_calc_integral_scale.

Theorem C03_tie_Integral_calc_integral_scale :
  forall (T : Type) (O : NumOps T) lr nu, Formulas_gen.Integral_calc_integral_scale O lr nu = intscale_integral O nu lr.
Proof. exact @Integral_calc_integral_scale_tie. Qed.
Print Assumptions C03_tie_Integral_calc_integral_scale.

Theorem C03_tie_Rational_calc_integral_scale :
  forall (T : Type) (O : NumOps T) lr alpha, Formulas_gen.Rational_calc_integral_scale O lr alpha = intscale_rational O alpha lr.
Proof. exact @Rational_calc_integral_scale_tie. Qed.
Print Assumptions C03_tie_Rational_calc_integral_scale.

Theorem C03_tie_Gaussian_default_rescale :
  forall (T : Type) (O : NumOps T), Formulas_gen.Gaussian_default_rescale O = rescale_gaussian O.
Proof. exact @Gaussian_default_rescale_tie. Qed.
Print Assumptions C03_tie_Gaussian_default_rescale.

Theorem C03_tie_great_circle_to_chordal :
  forall (T : Type) (O : NumOps T) zeta geo, Formulas_gen.great_circle_to_chordal O zeta geo = chord O geo zeta.
Proof. exact @great_circle_to_chordal_tie. Qed.
Print Assumptions C03_tie_great_circle_to_chordal.

(* at R (x ** 2 is np.square in the model and pow in the translation; fmin/fmax vs numpy's NaN-aware rule; masks) *)
Theorem C03_tie_Gaussian_cor :
  forall ora h, Formulas_gen.Gaussian_cor (OR ora) h = cor_gaussian (OR ora) h.
Proof. exact Gaussian_cor_tie. Qed.
Print Assumptions C03_tie_Gaussian_cor.

Theorem C03_tie_Rational_cor :
  forall ora alpha h, Formulas_gen.Rational_cor (OR ora) alpha h = cor_rational (OR ora) alpha h.
Proof. exact Rational_cor_tie. Qed.
Print Assumptions C03_tie_Rational_cor.

Theorem C03_tie_Integral_cor :
  forall ora nu h, Formulas_gen.Integral_cor (OR ora) nu h = cor_integral (OR ora) nu h.
Proof. exact Integral_cor_tie. Qed.
Print Assumptions C03_tie_Integral_cor.

Theorem C03_tie_Cubic_cor :
  forall ora h, Formulas_gen.Cubic_cor (OR ora) h = cor_cubic (OR ora) h.
Proof. exact Cubic_cor_tie. Qed.
Print Assumptions C03_tie_Cubic_cor.

Theorem C03_tie_Linear_cor :
  forall ora h, Formulas_gen.Linear_cor (OR ora) h = cor_linear (OR ora) h.
Proof. exact Linear_cor_tie. Qed.
Print Assumptions C03_tie_Linear_cor.

Theorem C03_tie_Circular_cor :
  forall ora h, Formulas_gen.Circular_cor (OR ora) h = cor_circular (OR ora) h.
Proof. exact Circular_cor_tie. Qed.
Print Assumptions C03_tie_Circular_cor.

Theorem C03_tie_Spherical_cor :
  forall ora h, Formulas_gen.Spherical_cor (OR ora) h = cor_spherical (OR ora) h.
Proof. exact Spherical_cor_tie. Qed.
Print Assumptions C03_tie_Spherical_cor.

Theorem C03_tie_SuperSpherical_cor :
  forall ora nu h, Formulas_gen.SuperSpherical_cor (OR ora) nu h = cor_superspherical (OR ora) nu h.
Proof. exact SuperSpherical_cor_tie. Qed.
Print Assumptions C03_tie_SuperSpherical_cor.

Theorem C03_tie_HyperSpherical_cor :
  forall ora (dim : Z) h, Formulas_gen.HyperSpherical_cor (OR ora) (IZR dim) h = cor_hyperspherical (OR ora) dim h.
Proof. exact HyperSpherical_cor_tie. Qed.
Print Assumptions C03_tie_HyperSpherical_cor.

Theorem C03_tie_JBessel_cor :
  forall ora nu h, Formulas_gen.JBessel_cor (OR ora) nu h = cor_jbessel (OR ora) nu h.
Proof. exact JBessel_cor_tie. Qed.
Print Assumptions C03_tie_JBessel_cor.

Theorem C03_tie_TPLSimple_cor :
  forall ora nu h, Formulas_gen.TPLSimple_cor (OR ora) nu h = cor_tplsimple (OR ora) nu h.
Proof. exact TPLSimple_cor_tie. Qed.
Print Assumptions C03_tie_TPLSimple_cor.

(* ------------------------------------------------------------------ scale equivariance *)
(* multiplying len_scale and every lag by lam > 0 changes only the unit: correlation, the percentile curve (hence its
   roots: percentile_scale scales with lam), len_rescaled and every closed-form integral scale (nu = the shape argument) *)
Theorem C03_scale_equivariance :
  forall ora (c : R -> R) lam lr len resc per r nu, 0 < lam -> lr <> 0 ->
    correlation_of (OR ora) c (lam * lr) (lam * r) = correlation_of (OR ora) c lr r /\
    percentile_curve (OR ora) (correlation_of (OR ora) c (lam * lr)) per (lam * r)
      = percentile_curve (OR ora) (correlation_of (OR ora) c lr) per r /\
    len_rescaled (OR ora) (lam * len) resc = lam * len_rescaled (OR ora) len resc /\
    Formulas_gen.Gaussian_calc_integral_scale (OR ora) (lam * lr) = lam * Formulas_gen.Gaussian_calc_integral_scale (OR ora) lr /\
    Formulas_gen.Exponential_calc_integral_scale (lam * lr) = lam * Formulas_gen.Exponential_calc_integral_scale lr /\
    Formulas_gen.Stable_calc_integral_scale (OR ora) (lam * lr) nu = lam * Formulas_gen.Stable_calc_integral_scale (OR ora) lr nu /\
    Formulas_gen.Matern_calc_integral_scale (OR ora) (lam * lr) nu = lam * Formulas_gen.Matern_calc_integral_scale (OR ora) lr nu /\
    Formulas_gen.Integral_calc_integral_scale (OR ora) (lam * lr) nu = lam * Formulas_gen.Integral_calc_integral_scale (OR ora) lr nu /\
    Formulas_gen.Rational_calc_integral_scale (OR ora) (lam * lr) nu = lam * Formulas_gen.Rational_calc_integral_scale (OR ora) lr nu.
Proof. exact scale_equivariance. Qed.
Print Assumptions C03_scale_equivariance.

(* prescribing the integral scale, ANY class (calc = its integral scale as a function of len_scale, proportional or not):
   the setter tries len = target / calc 1 and accepts it iff the resulting scale is within 1e-8 + 1e-3 |target| of the
   prescribed one (np.isclose(rtol=1e-3)); otherwise it refuses (the documented ValueError) *)
Theorem C03_integral_scale_setter_accepts_iff :
  forall ora (calc : R -> R) target,
    let len := target / calc 1 in
    (set_integral_scale (OR ora) calc target = Some len /\
       Rabs (calc len - target) <= 1 / 100000000 + 1 / 1000 * Rabs target) \/
    (set_integral_scale (OR ora) calc target = None /\
       1 / 100000000 + 1 / 1000 * Rabs target < Rabs (calc len - target)).
Proof. exact integral_scale_setter_accepts_iff. Qed.
Print Assumptions C03_integral_scale_setter_accepts_iff.

(* the derivation theorems (C03_derive_canonical, C03_four_definitions_agree) assume NO positivity of the correlation: the
   user classes of the correspondence built from ANY normalised correlation c are consistent for every subset of provided
   methods, in particular the hole-effect shapes sin(h)/h and exp(-a h) cos(h); the wave shape does take negative values *)
Theorem C03_consistent_any_shape :
  forall ora (c : R -> R) var nug lr d,
    consistent c var nug lr d (user_from_cor (OR ora) c var nug lr) /\
    cor_wave (OR ora) (3 * PI / 2) < 0.
Proof. intros. split; [apply user_from_cor_consistent | apply wave_negative_lobe]. Qed.
Print Assumptions C03_consistent_any_shape.
