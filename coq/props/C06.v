(* C06 — kriging interpolates exactly and its variance is non-negative and bounded.  Only statements;
   proofs in c05/C06_Proofs.v (same model as C05, see props/C05.v for the vocabulary).
   at_data_point S Q t m : target t sits on conditioning point m (same covariances and drift values as
   point m; in exact mode the distance to m is within numpy's isclose window 1e-8 and every other
   conditioning point is outside it) and point m carries no measurement error (exact mode: C_mm + err_m
   = sill; otherwise err_m = 0). *)
From Coq Require Import Reals List.
From GS Require Import Num Loops Krigesum_gen C05_Mat C05_RInst C05_Model C05_Proofs C06_Proofs C05_Examples.

(* at a conditioning point the right-hand side is the corresponding column of the kriging matrix *)
Theorem C06_rhs_is_column :
  forall (S : KSys R) (Q : KTgt R) (t m : nat), at_data_point S Q t m ->
    forall i : nat, (i < ks_size S)%nat -> rhs_entry Rops S Q i t = kmat_entry Rops S i m.
Proof. exact rhs_is_column. Qed.
Print Assumptions C06_rhs_is_column.

(* Kinv K = I: the estimate at a conditioning point is the conditioning value and the variance is 0,
   for every variant (the unbiasedness and drift rows are part of K), through normalizer (dn (nr x) = x at
   the datum), mean and trend *)
Theorem C06_exact_at_data :
  forall (S : KSys R) (Q : KTgt R) (Kinv : list (list R)) (nr dn : R -> R)
         (val ctrend cmean tmean ttrend : list R) (chunk t m : nat),
    shape0 Kinv = ks_size S -> (1 <= chunk)%nat -> (t < kt_m Q)%nat ->
    meq (ks_size S) (mmul (ks_size S) (mat_of Kinv) (kmat_entry Rops S)) delta ->
    at_data_point S Q t m -> length val = ks_n S ->
    aget 0%R tmean t = aget 0%R cmean m -> aget 0%R ttrend t = aget 0%R ctrend m ->
    dn (nr (aget 0 val m - aget 0 ctrend m)%R) = (aget 0 val m - aget 0 ctrend m)%R ->
    (aget2 0 (ks_C S) m m + aget 0 (ks_err S) m)%R = ks_sill S ->
    let r := krige_call Rops S Q Kinv nr dn val ctrend cmean tmean ttrend chunk in
    aget 0%R (fst r) t = aget 0%R val m /\ aget 0%R (snd r) t = 0%R.
Proof. exact exact_at_data. Qed.
Print Assumptions C06_exact_at_data.

(* without the no-nugget condition: the raw error term at a conditioning point is K_mm *)
Theorem C06_exact_raw :
  forall (S : KSys R) (Q : KTgt R) (Kinv : list (list R)),
    shape0 Kinv = ks_size S ->
    forall chunk : nat, (1 <= chunk)%nat ->
    forall (cond : list R) (t m : nat), (t < kt_m Q)%nat ->
      meq (ks_size S) (mmul (ks_size S) (mat_of Kinv) (kmat_entry Rops S)) delta ->
      at_data_point S Q t m ->
      aget 0%R (fst (krige_raw Rops S Q Kinv cond chunk)) t = vec_of cond m /\
      aget 0%R (snd (krige_raw Rops S Q Kinv cond chunk)) t = (aget2 0 (ks_C S) m m + aget 0 (ks_err S) m)%R.
Proof. exact exact_raw. Qed.
Print Assumptions C06_exact_raw.

(* the returned variance is never negative: all inputs, any Kinv *)
Theorem C06_variance_nonneg :
  forall (S : KSys R) (Q : KTgt R) (Kinv : list (list R)) (nr dn : R -> R)
         (val ctrend cmean tmean ttrend : list R) (chunk : nat),
    Forall (fun v : R => (0 <= v)%R) (snd (krige_call Rops S Q Kinv nr dn val ctrend cmean tmean ttrend chunk)).
Proof. exact variance_nonneg. Qed.
Print Assumptions C06_variance_nonneg.

(* K Kinv = I and a kriging matrix with non-negative quadratic form: variance <= sill *)
Theorem C06_variance_le_sill :
  forall (S : KSys R) (Q : KTgt R) (Kinv : list (list R)) (nr dn : R -> R)
         (val ctrend cmean tmean ttrend : list R) (chunk t : nat),
    shape0 Kinv = ks_size S -> (1 <= chunk)%nat -> (0 < ks_size S)%nat -> (t < kt_m Q)%nat ->
    meq (ks_size S) (mmul (ks_size S) (kmat_entry Rops S) (mat_of Kinv)) delta ->
    (forall v : vec, (0 <= quad (ks_size S) (kmat_entry Rops S) v)%R) -> (0 <= ks_sill S)%R ->
    (aget 0 (snd (krige_call Rops S Q Kinv nr dn val ctrend cmean tmean ttrend chunk)) t <= ks_sill S)%R.
Proof. exact variance_le_sill. Qed.
Print Assumptions C06_variance_le_sill.

(* simple kriging: a positive semi-definite covariance block (valid model, C02) and non-negative
   measurement errors suffice *)
Theorem C06_simple_variance_le_sill :
  forall (S : KSys R) (Q : KTgt R) (Kinv : list (list R)) (nr dn : R -> R)
         (val ctrend cmean tmean ttrend : list R) (chunk t : nat),
    ks_unb S = false -> ks_p S = 0%nat ->
    shape0 Kinv = ks_size S -> (1 <= chunk)%nat -> (0 < ks_n S)%nat -> (t < kt_m Q)%nat ->
    meq (ks_size S) (mmul (ks_size S) (kmat_entry Rops S) (mat_of Kinv)) delta ->
    (forall v : vec, (0 <= quad (ks_n S) (mat_of (ks_C S)) v)%R) ->
    (forall i : nat, (i < ks_n S)%nat -> (0 <= aget 0 (ks_err S) i)%R) -> (0 <= ks_sill S)%R ->
    (aget 0 (snd (krige_call Rops S Q Kinv nr dn val ctrend cmean tmean ttrend chunk)) t <= ks_sill S)%R.
Proof. exact simple_variance_le_sill. Qed.
Print Assumptions C06_simple_variance_le_sill.

(* duplicated conditioning points, Moore-Penrose pseudo-inverse (Penrose equations 2 and 4 as hypotheses):
   coincident columns a, b of K receive equal weights ... *)
Theorem C06_duplicates_equal_weights :
  forall (S : KSys R) (Q : KTgt R) (Kinv : list (list R)),
    meq (ks_size S) (mmul (ks_size S) (mmul (ks_size S) (mat_of Kinv) (kmat_entry Rops S)) (mat_of Kinv)) (mat_of Kinv) ->
    (forall i j : nat, (i < ks_size S)%nat -> (j < ks_size S)%nat ->
       mmul (ks_size S) (mat_of Kinv) (kmat_entry Rops S) i j = mmul (ks_size S) (mat_of Kinv) (kmat_entry Rops S) j i) ->
    forall t a b : nat, (a < ks_size S)%nat -> (b < ks_size S)%nat ->
      (forall j : nat, (j < ks_size S)%nat -> kmat_entry Rops S j a = kmat_entry Rops S j b) ->
      lam_at S Q Kinv t a = lam_at S Q Kinv t b.
Proof. exact equal_weights. Qed.
Print Assumptions C06_duplicates_equal_weights.

(* ... so the estimate depends on the two data values only through their sum (the pair acts as one point
   carrying their mean).  Partial: equality with the system in which the pair is merged into a single
   point is probed on the implementation, not proved. *)
Theorem C06_duplicates_pinv_partial :
  forall (S : KSys R) (Q : KTgt R) (Kinv : list (list R)),
    shape0 Kinv = ks_size S ->
    meq (ks_size S) (mmul (ks_size S) (mmul (ks_size S) (mat_of Kinv) (kmat_entry Rops S)) (mat_of Kinv)) (mat_of Kinv) ->
    (forall i j : nat, (i < ks_size S)%nat -> (j < ks_size S)%nat ->
       mmul (ks_size S) (mat_of Kinv) (kmat_entry Rops S) i j = mmul (ks_size S) (mat_of Kinv) (kmat_entry Rops S) j i) ->
    forall chunk : nat, (1 <= chunk)%nat ->
    forall (cond cond' : list R) (t a b : nat),
      (t < kt_m Q)%nat -> (a < ks_size S)%nat -> (b < ks_size S)%nat -> a <> b ->
      (forall j : nat, (j < ks_size S)%nat -> kmat_entry Rops S j a = kmat_entry Rops S j b) ->
      (forall i : nat, (i < ks_size S)%nat -> i <> a -> i <> b -> vec_of cond i = vec_of cond' i) ->
      (vec_of cond a + vec_of cond b = vec_of cond' a + vec_of cond' b)%R ->
      aget 0%R (fst (krige_raw Rops S Q Kinv cond chunk)) t = aget 0%R (fst (krige_raw Rops S Q Kinv cond' chunk)) t.
Proof. exact duplicates_pinv. Qed.
Print Assumptions C06_duplicates_pinv_partial.

(* which lag counts as zero in exact mode: numpy.isclose(r, 0) with its default tolerances, |r| <= 1e-8 *)
Theorem C06_zero_lag_window :
  forall r : R, isclose0 Rops r = true <-> (Rabs r <= 1 / 100000000)%R.
Proof. exact isclose0_true. Qed.
Print Assumptions C06_zero_lag_window.

(* the cond_err guard (set_cond_err models the setter all three routes end in): with exact = true only "nugget" is
   accepted, and then every point carries the model nugget *)
Theorem C06_exact_guard :
  forall (exact : bool) (n : nat) (nugget : R) (ce : option (bool * list R)) (e : list R) (m : nat),
    set_cond_err Rops exact n nugget ce = Some e -> exact = true -> (m < n)%nat ->
    aget 0%R e m = nugget /\ ce = None.
Proof. exact accepted_exact_err. Qed.
Print Assumptions C06_exact_guard.

(* every ACCEPTED exact setup (measurement errors produced by the guarded setter, covariance block with C_mm = var,
   sill = var + nugget) reproduces the conditioning value with zero variance at a target on conditioning point m *)
Theorem C06_exact_accepted :
  forall (S : KSys R) (Q : KTgt R) (Kinv : list (list R)) (nr dn : R -> R)
         (val ctrend cmean tmean ttrend : list R) (chunk t m : nat) (var nugget : R) (ce : option (bool * list R)),
    set_cond_err Rops (ks_exact S) (ks_n S) nugget ce = Some (ks_err S) -> ks_exact S = true ->
    aget2 0%R (ks_C S) m m = var -> ks_sill S = (var + nugget)%R ->
    shape0 Kinv = ks_size S -> (1 <= chunk)%nat -> (t < kt_m Q)%nat ->
    meq (ks_size S) (mmul (ks_size S) (mat_of Kinv) (kmat_entry Rops S)) delta ->
    (m < ks_n S)%nat -> kt_only_mean Q = false ->
    (forall i, (i < ks_n S)%nat -> aget2 0%R (kt_c0 Q) i t = aget2 0%R (ks_C S) i m) ->
    (forall l, (l < ks_p S)%nat -> aget2 0%R (kt_drifts Q) l t = aget2 0%R (ks_drifts S) l m) ->
    (Rabs (aget2 0 (kt_d0 Q) m t) <= 1 / 100000000)%R ->
    (forall i, (i < ks_n S)%nat -> i <> m -> (1 / 100000000 < Rabs (aget2 0 (kt_d0 Q) i t))%R) ->
    length val = ks_n S ->
    aget 0%R tmean t = aget 0%R cmean m -> aget 0%R ttrend t = aget 0%R ctrend m ->
    dn (nr (aget 0 val m - aget 0 ctrend m)%R) = (aget 0 val m - aget 0 ctrend m)%R ->
    let r := krige_call Rops S Q Kinv nr dn val ctrend cmean tmean ttrend chunk in
    aget 0%R (fst r) t = aget 0%R val m /\ aget 0%R (snd r) t = 0%R.
Proof. exact exact_accepted. Qed.
Print Assumptions C06_exact_accepted.
