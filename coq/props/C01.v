(* C01 — generated random fields reproduce the model covariance.   PARTIAL by design (DESIGN section 5, C01).
   Only statements; proofs live in c01/*.v.

   The field values are what the code's formulas return: [rm_field] = entry i of [randmeth_call] (RandMeth.__call__:
   sqrt(var / mode_no) * summate(...) + nugget) and [fo_field] = entry i of [fourier_call] (Fourier.__call__), both
   built on the kernels translated from summator.pyx on every run (replaced by their defining sums through the C15
   refinement theorems).  The random inputs live on an abstract sample space Om with an abstract expectation functional
   E; everything assumed of them is an explicit hypothesis:
     H0_normalised   E[1] = 1                      H1_linear   E is linear
     H2_amplitudes   E[Z_{a,i} Z_{b,j} G(k)] = delta_ab delta_ij E[G(k)],  E[Z_{a,i} G(k)] = 0   for bounded G
                     (independent standard normal amplitudes, independent of the wave vectors)
     H3_spectral     E[cos<k_j, h>] = rho(h)      (wave vectors follow the normalised spectral density: Bochner)
     H4_nugget       nugget noise: zero mean, unit variance, uncorrelated between points and with the modes
     modes_shape     every outcome has N modes
   These hypotheses are NOT proved of numpy's RandomState, emcee or the Hankel transform: the statistical probes of
   harness/c01.py are their only coverage.  [C01_*_hypotheses_satisfiable] shows they are jointly satisfiable. *)
From Coq Require Import Reals List ZArith Bool.
From GS Require Import Num Loops RInst C12_Model C01_Model C01_Prob C01_Inst C01_Sampling C01_Sphere C01_Srf C01_Upscale.
Import ListNotations.
Open Scope R_scope.

Theorem C01_randmeth_mean_zero :
  forall (Om : Type) (E : (Om -> R) -> R) (ora : nat -> list R -> R) (N P : nat)
         (KS : Om -> list (list R)) (Z1 Z2 W : Om -> list R),
    H0_normalised E -> H1_linear E -> H2_amplitudes E N KS Z1 Z2 -> H4_nugget E N P KS Z1 Z2 W ->
    modes_shape N KS ->
    forall pos : list (list R), shape1 pos = P ->
    forall (var nugget : R) (i : nat), (i < P)%nat ->
      E (rm_field ora var N nugget KS Z1 Z2 W pos i) = 0.
Proof. exact randmeth_mean_zero. Qed.
Print Assumptions C01_randmeth_mean_zero.

Theorem C01_randmeth_covariance :
  forall (Om : Type) (E : (Om -> R) -> R) (ora : nat -> list R -> R) (N P : nat)
         (KS : Om -> list (list R)) (Z1 Z2 W : Om -> list R),
    H0_normalised E -> H1_linear E -> H2_amplitudes E N KS Z1 Z2 -> H4_nugget E N P KS Z1 Z2 W ->
    modes_shape N KS ->
    forall pos : list (list R), shape1 pos = P ->
    forall rho : list R -> R, H3_spectral E N (shape0 pos) KS rho ->
    forall var nugget : R, 0 <= var -> 0 <= nugget -> (1 <= N)%nat ->
    forall i i' : nat, (i < P)%nat -> (i' < P)%nat ->
      E (fun w => rm_field ora var N nugget KS Z1 Z2 W pos i w * rm_field ora var N nugget KS Z1 Z2 W pos i' w)
      = var * rho (lag pos i i') + (if Nat.eqb i i' then nugget else 0).
Proof. exact randmeth_covariance. Qed.
Print Assumptions C01_randmeth_covariance.

Theorem C01_pointwise_variance :
  forall (Om : Type) (E : (Om -> R) -> R) (ora : nat -> list R -> R) (N P : nat)
         (KS : Om -> list (list R)) (Z1 Z2 W : Om -> list R),
    H0_normalised E -> H1_linear E -> H2_amplitudes E N KS Z1 Z2 -> H4_nugget E N P KS Z1 Z2 W ->
    modes_shape N KS ->
    forall pos : list (list R), shape1 pos = P ->
    forall rho : list R -> R, H3_spectral E N (shape0 pos) KS rho ->
    forall var nugget : R, 0 <= var -> 0 <= nugget -> (1 <= N)%nat ->
    forall i : nat, (i < P)%nat ->
      E (fun w => rm_field ora var N nugget KS Z1 Z2 W pos i w * rm_field ora var N nugget KS Z1 Z2 W pos i w)
      = var + nugget.
Proof. exact randmeth_pointwise_variance. Qed.
Print Assumptions C01_pointwise_variance.

(* the SRF pipeline (SRF.__call__: generator at model.isometrize(pos), + mean): anisotropy and rotation.
   [srf_field] = entry i of [srf_randmeth];  M = matrix_isometrize dim angles anis (C12: diag(1, 1/anis) * R^T);
   [matvec M h] = M h.  The covariance between two locations is var * rho(M (x_i - x_i')) *)
Theorem C01_srf_mean :
  forall (ora : nat -> list R -> R) (Om : Type) (E : (Om -> R) -> R) (N P : nat)
         (KS : Om -> list (list R)) (Z1 Z2 W : Om -> list R),
    H0_normalised E -> H1_linear E -> H2_amplitudes E N KS Z1 Z2 -> H4_nugget E N P KS Z1 Z2 W ->
    modes_shape N KS ->
    forall (dim : nat) (angles anis : list R) (mean var nugget : R) (pos : list (list R)) (i : nat),
      shape1 pos = P -> (i < P)%nat ->
      E (srf_field ora Om N KS Z1 Z2 W dim angles anis mean var nugget pos i) = mean.
Proof. exact srf_randmeth_mean. Qed.
Print Assumptions C01_srf_mean.

Theorem C01_srf_covariance_anisotropic :
  forall (ora : nat -> list R -> R) (Om : Type) (E : (Om -> R) -> R) (N P : nat)
         (KS : Om -> list (list R)) (Z1 Z2 W : Om -> list R),
    H0_normalised E -> H1_linear E -> H2_amplitudes E N KS Z1 Z2 -> H4_nugget E N P KS Z1 Z2 W ->
    modes_shape N KS ->
    forall (dim : nat) (angles anis : list R) (mean var nugget : R) (pos : list (list R)) (rho : list R -> R),
      shape1 pos = P ->
      H3_spectral E N (shape0 (matrix_isometrize (Rops ora) dim angles anis)) KS rho ->
      0 <= var -> 0 <= nugget -> (1 <= N)%nat ->
      forall i i' : nat, (i < P)%nat -> (i' < P)%nat ->
        E (fun w => (srf_field ora Om N KS Z1 Z2 W dim angles anis mean var nugget pos i w - mean)
                  * (srf_field ora Om N KS Z1 Z2 W dim angles anis mean var nugget pos i' w - mean))
        = var * rho (matvec (matrix_isometrize (Rops ora) dim angles anis) (lag pos i i'))
          + (if Nat.eqb i i' then nugget else 0).
Proof. exact srf_randmeth_covariance. Qed.
Print Assumptions C01_srf_covariance_anisotropic.

Theorem C01_fourier_mean_zero :
  forall (Om : Type) (E : (Om -> R) -> R) (ora : nat -> list R -> R) (N P : nat)
         (KS : Om -> list (list R)) (Z1 Z2 W : Om -> list R),
    H0_normalised E -> H1_linear E -> H2_amplitudes E N KS Z1 Z2 -> H4_nugget E N P KS Z1 Z2 W ->
    forall pos : list (list R), shape1 pos = P ->
    forall modes : list (list R), (forall w, KS w = modes) -> shape1 modes = N ->
    forall (spec dk : list R) (nugget : R) (i : nat), (i < P)%nat ->
      E (fo_field ora nugget (fourier_spectrum_factor (Rops ora) spec dk) modes Z1 Z2 W pos i) = 0.
Proof. exact fourier_mean_zero. Qed.
Print Assumptions C01_fourier_mean_zero.

(* the covariance of the Fourier field is the Riemann sum  sum_j S(|k_j|) prod(dk) cos<k_j, x - y>  of the Bochner integral *)
Theorem C01_fourier_covariance :
  forall (Om : Type) (E : (Om -> R) -> R) (ora : nat -> list R -> R) (N P : nat)
         (KS : Om -> list (list R)) (Z1 Z2 W : Om -> list R),
    H0_normalised E -> H1_linear E -> H2_amplitudes E N KS Z1 Z2 -> H4_nugget E N P KS Z1 Z2 W ->
    forall pos : list (list R), shape1 pos = P ->
    forall modes : list (list R), (forall w, KS w = modes) -> shape1 modes = N ->
    forall (spec dk : list R) (nugget : R), 0 <= nugget -> length spec = N ->
    (forall j, (j < N)%nat -> 0 <= aget 0 spec j * prod_list (Rops ora) dk) ->
    forall i i' : nat, (i < P)%nat -> (i' < P)%nat ->
      E (fun w => fo_field ora nugget (fourier_spectrum_factor (Rops ora) spec dk) modes Z1 Z2 W pos i w
                * fo_field ora nugget (fourier_spectrum_factor (Rops ora) spec dk) modes Z1 Z2 W pos i' w)
      = rsum N (fun j => aget 0 spec j * prod_list (Rops ora) dk * cos (kdot (shape0 pos) modes j (lag pos i i')))
        + (if Nat.eqb i i' then nugget else 0).
Proof. exact fourier_covariance. Qed.
Print Assumptions C01_fourier_covariance.

(* the hypotheses are jointly satisfiable (finite sample space of five fair coins; rho(h) = cos(kappa h)) *)
Theorem C01_randmeth_hypotheses_satisfiable :
  forall kappa : R, exists (Om : Type) (E : (Om -> R) -> R) (KS : Om -> list (list R)) (Z1 Z2 W : Om -> list R)
                           (rho : list R -> R),
    H0_normalised E /\ H1_linear E /\ H2_amplitudes E 1 KS Z1 Z2 /\ H3_spectral E 1 1 KS rho
    /\ H4_nugget E 1 2 KS Z1 Z2 W /\ modes_shape 1 KS.
Proof.
  intros kappa. exists Om5, E5, (KS_5 (kpm kappa)), Z1_5, Z2_5, W_5, (rho_cos kappa).
  exact (randmeth_hypotheses_satisfiable kappa).
Qed.
Print Assumptions C01_randmeth_hypotheses_satisfiable.

Theorem C01_fourier_hypotheses_satisfiable :
  forall kappa : R, exists (Om : Type) (E : (Om -> R) -> R) (KS : Om -> list (list R)) (Z1 Z2 W : Om -> list R),
    H0_normalised E /\ H1_linear E /\ H2_amplitudes E 1 KS Z1 Z2 /\ H4_nugget E 1 2 KS Z1 Z2 W /\ modes_shape 1 KS
    /\ (forall w, KS w = [[kappa]]) /\ shape1 [[kappa]] = 1%nat.
Proof.
  intros kappa. exists Om5, E5, (KS_5 (fun _ => kappa)), Z1_5, Z2_5, W_5.
  exact (fourier_hypotheses_satisfiable kappa).
Qed.
Print Assumptions C01_fourier_hypotheses_satisfiable.

(* ... and the covariance theorem applied to that instance *)
Theorem C01_instance_covariance :
  forall (ora : nat -> list R -> R) (kappa var nugget x0 x1 : R), 0 <= var -> 0 <= nugget ->
    E5 (fun w => rm_field ora var 1 nugget (KS_5 (kpm kappa)) Z1_5 Z2_5 W_5 [[x0; x1]] 0 w
               * rm_field ora var 1 nugget (KS_5 (kpm kappa)) Z1_5 Z2_5 W_5 [[x0; x1]] 1 w)
    = var * cos (kappa * (x0 - x1)).
Proof. exact instance_covariance. Qed.
Print Assumptions C01_instance_covariance.

(* inverse-transform sampling: for a strictly increasing cdf with right inverse ppf,  ppf u <= r  <->  u <= cdf r *)
Theorem C01_inversion_sampling :
  forall cdf ppf : R -> R,
    (forall r s, 0 <= r -> r < s -> cdf r < cdf s) ->
    (forall u, 0 <= u < 1 -> 0 <= ppf u /\ cdf (ppf u) = u) ->
    forall u r, 0 <= u < 1 -> 0 <= r -> (ppf u <= r <-> u <= cdf r).
Proof. exact inversion_sampling. Qed.
Print Assumptions C01_inversion_sampling.

(* the analytic pairs of covmodel/models.py satisfy it (l = len_rescaled > 0) *)
Theorem C01_inversion_gaussian_2d :
  forall (ora : nat -> list R -> R) (l : R), 0 < l -> forall u r, 0 <= u < 1 -> 0 <= r ->
    (gau2_ppf (Rops ora) l u <= r <-> u <= gau2_cdf (Rops ora) l r).
Proof. exact gau2_inversion. Qed.
Print Assumptions C01_inversion_gaussian_2d.

Theorem C01_inversion_exponential_1d :
  forall (ora : nat -> list R -> R) (l : R), 0 < l -> forall u r, 0 <= u < 1 -> 0 <= r ->
    (exp1_ppf (Rops ora) l u <= r <-> u <= exp1_cdf (Rops ora) l r).
Proof. exact exp1_inversion. Qed.
Print Assumptions C01_inversion_exponential_1d.

Theorem C01_inversion_exponential_2d :
  forall (ora : nat -> list R -> R) (l : R), 0 < l -> forall u r, 0 <= u < 1 -> 0 <= r ->
    (exp2_ppf (Rops ora) l u <= r <-> u <= exp2_cdf (Rops ora) l r).
Proof. exact exp2_inversion. Qed.
Print Assumptions C01_inversion_exponential_2d.

(* sample_sphere returns unit vectors (dim 2 for every angle, dim 3 for every angle and every ang2 in [-1, 1]) *)
Theorem C01_sphere2_unit : forall a : R, cos a * cos a + sin a * sin a = 1.
Proof. exact sphere2_unit. Qed.
Print Assumptions C01_sphere2_unit.

Theorem C01_sphere3_unit :
  forall (ora : nat -> list R -> R) (a1 a2 : R), -1 <= a2 <= 1 ->
    let '(x, y, z) := sphere3_point (Rops ora) a1 a2 in x * x + y * y + z * z = 1.
Proof. exact sphere3_unit. Qed.
Print Assumptions C01_sphere3_unit.

(* ... and their first and second moments under the uniform draws sample_sphere uses are those of the uniform
   distribution on the sphere: E[s_a] = 0, E[s_a s_b] = delta_ab / d.   mean2 f = (1 / 2 pi) int_0^{2 pi} f(a) da;
   mean3 f = (1 / 4 pi) int_{-1}^{1} int_0^{2 pi} f(a, z) da dz   (Coquelicot Riemann integrals);
   sx, sy, sz are the three components of [sphere3_point a z] *)
Theorem C01_sphere_sampling_2d :
  mean2 cos = 0 /\ mean2 sin = 0
  /\ mean2 (fun a => cos a * cos a) = 1 / 2 /\ mean2 (fun a => sin a * sin a) = 1 / 2
  /\ mean2 (fun a => cos a * sin a) = 0.
Proof. exact sphere2_moments. Qed.
Print Assumptions C01_sphere_sampling_2d.

Theorem C01_sphere_sampling_3d :
  forall ora : nat -> list R -> R,
    (mean3 (sx ora) = 0 /\ mean3 (sy ora) = 0 /\ mean3 (sz ora) = 0)
    /\ (mean3 (fun a z => sx ora a z * sx ora a z) = 1 / 3 /\ mean3 (fun a z => sy ora a z * sy ora a z) = 1 / 3
        /\ mean3 (fun a z => sz ora a z * sz ora a z) = 1 / 3
        /\ mean3 (fun a z => sx ora a z * sy ora a z) = 0 /\ mean3 (fun a z => sx ora a z * sz ora a z) = 0
        /\ mean3 (fun a z => sy ora a z * sz ora a z) = 0).
Proof. intros ora. exact (conj (sphere3_first_moments ora) (sphere3_second_moments ora)). Qed.
Print Assumptions C01_sphere_sampling_3d.

(* ---- variance upscaling entry of SRF.__call__ (point_volumes given): field *= sqrt(upscaling_func(model, V) / sill).
   "no_scaling" (the default) is the identity whatever the nugget; with c = sqrt(scaled_var / sill) the pointwise variance of
   the upscaled field is scaled_var; coarse graining gives 0 < scaled_var <= sill for every edge length, = sill at edge 0 *)
Theorem C01_no_scaling_identity :
  forall (ora : nat -> list R -> R) (var nugget x : R), 0 < var + nugget ->
    x * upscale_factor (Rops ora) (var_no_scaling (Rops ora) var nugget) var nugget = x.
Proof. exact no_scaling_identity. Qed.
Print Assumptions C01_no_scaling_identity.

Theorem C01_upscaled_variance :
  forall (Om : Type) (E : (Om -> R) -> R) (ora : nat -> list R -> R) (N P : nat)
         (KS : Om -> list (list R)) (Z1 Z2 W : Om -> list R),
    H0_normalised E -> H1_linear E -> H2_amplitudes E N KS Z1 Z2 -> H4_nugget E N P KS Z1 Z2 W ->
    modes_shape N KS ->
    forall (pos : list (list R)) (rho : list R -> R) (var nugget sv : R) (i : nat),
      shape1 pos = P -> H3_spectral E N (shape0 pos) KS rho ->
      0 <= var -> 0 <= nugget -> 0 < var + nugget -> (1 <= N)%nat -> 0 <= sv -> (i < P)%nat ->
      E (fun w => (rm_field ora var N nugget KS Z1 Z2 W pos i w * upscale_factor (Rops ora) sv var nugget)
                * (rm_field ora var N nugget KS Z1 Z2 W pos i w * upscale_factor (Rops ora) sv var nugget)) = sv.
Proof. exact randmeth_upscaled_variance. Qed.
Print Assumptions C01_upscaled_variance.

Theorem C01_coarse_graining_bounds :
  forall (ora : nat -> list R -> R) (dim : Z) (l edge var nugget : R), (1 <= dim)%Z -> 0 < l -> 0 < var + nugget ->
    0 < sill_of (Rops ora) var nugget * cg_factor (Rops ora) dim l edge <= sill_of (Rops ora) var nugget
    /\ cg_factor (Rops ora) dim l 0 = 1.
Proof.
  intros ora dim l edge var nugget Hd Hl Hs.
  exact (conj (coarse_graining_bounds ora dim l edge var nugget Hd Hl Hs) (coarse_graining_zero_edge ora dim l Hd Hl)).
Qed.
Print Assumptions C01_coarse_graining_bounds.

(* ---- exact scale equivariance: wave vectors k / L on positions L x give the very same field (every L <> 0, every draw);
   wave vectors following the spectral measure of rho, divided by L, follow that of h |-> rho(h / L)  [S_L(k) = L^d S_1(L k)];
   the analytic radial distributions satisfy cdf_{L l}(r / L) = cdf_l(r), ppf_{L l}(u) = ppf_l(u) / L *)
Theorem C01_randmeth_scale_equivariant :
  forall (ora : nat -> list R -> R) (L var : R) (N : Z) (nugget : R) (ks : list (list R)) (z1 z2 : list R)
         (pos : list (list R)) (noise : list R), L <> 0 ->
    randmeth_call (Rops ora) var N nugget (scale_mat (/ L) ks) z1 z2 (scale_mat L pos) noise
    = randmeth_call (Rops ora) var N nugget ks z1 z2 pos noise.
Proof. exact randmeth_scale_equivariant. Qed.
Print Assumptions C01_randmeth_scale_equivariant.

Theorem C01_spectral_scaling :
  forall (Om : Type) (E : (Om -> R) -> R) (N dim : nat) (KS : Om -> list (list R)) (rho : list R -> R) (L : R), L <> 0 ->
    H3_spectral E N dim KS rho ->
    H3_spectral E N dim (fun w => scale_mat (/ L) (KS w)) (fun h => rho (map (Rmult (/ L)) h)).
Proof. intros Om E N dim KS rho L. exact (spectral_scaling E N dim KS rho L). Qed.
Print Assumptions C01_spectral_scaling.

Theorem C01_radial_distribution_scaling :
  forall (ora : nat -> list R -> R) (L l r u : R), L <> 0 -> l <> 0 ->
    (gau2_cdf (Rops ora) (L * l) (r / L) = gau2_cdf (Rops ora) l r /\ gau2_ppf (Rops ora) (L * l) u = gau2_ppf (Rops ora) l u / L)
    /\ (exp1_cdf (Rops ora) (L * l) (r / L) = exp1_cdf (Rops ora) l r /\ exp1_ppf (Rops ora) (L * l) u = exp1_ppf (Rops ora) l u / L)
    /\ (exp2_cdf (Rops ora) (L * l) (r / L) = exp2_cdf (Rops ora) l r /\ exp2_ppf (Rops ora) (L * l) u = exp2_ppf (Rops ora) l u / L).
Proof.
  intros ora L l r u HL Hl.
  exact (conj (gau2_scaling ora L l r u HL Hl) (conj (exp1_scaling ora L l r u HL Hl) (exp2_scaling ora L l r u HL Hl))).
Qed.
Print Assumptions C01_radial_distribution_scaling.

(* ---- exact VALUE-scale equivariance: the model with (s var, s nugget) gives sqrt(s) x the field of the model with (var, nugget)
   for the same draws, for EVERY s > 0 (tiny SI-unit variances and nuggets included); the Fourier weights likewise *)
Theorem C01_randmeth_value_scale :
  forall (ora : nat -> list R -> R) (s var : R) (N : Z) (nugget : R) (ks : list (list R)) (z1 z2 : list R)
         (pos : list (list R)) (noise : list R), 0 < s ->
    randmeth_call (Rops ora) (s * var) N (s * nugget) ks z1 z2 pos noise
    = map (Rmult (sqrt s)) (randmeth_call (Rops ora) var N nugget ks z1 z2 pos noise).
Proof. exact randmeth_value_scale. Qed.
Print Assumptions C01_randmeth_value_scale.

Theorem C01_fourier_weights_value_scale :
  forall (ora : nat -> list R -> R) (s : R) (spec dk : list R), 0 < s ->
    fourier_spectrum_factor (Rops ora) (map (Rmult s) spec) dk
    = map (Rmult (sqrt s)) (fourier_spectrum_factor (Rops ora) spec dk).
Proof. exact fourier_weights_value_scale. Qed.
Print Assumptions C01_fourier_weights_value_scale.
