(* C04 — spectral representation is the Fourier pair of the covariance (PARTIAL, see design/C04.md).
   [Rops ora] is the real-number instance of the model's number interface; [ora] stands for the
   scipy / gstools.tools.special functions (gamma, loggamma, jv, hyp2f1, erf, erfinv, inc_gamma_low) and
   is universally quantified: only the hypotheses written in a statement are assumed of it.
   l = len_scale / rescale throughout.  Statements only; proofs in coq/c04/. *)
From Coq Require Import Reals ZArith List.
From Coquelicot Require Import Coquelicot.
From GS Require Import Num Loops Formulas RInst Formulas_gen C04_Model C04_Proofs C04_Analysis C04_Tie C04_More.
Import ListNotations.
Open Scope R_scope.

(* the code's radial pdf (abs, mask at r ~ 0, isfinite, clip) is the surface factor of the |r|-sphere
   times |density| on its unmasked branch: every r in 1D, |r| > 1e-8 in 2D / 3D — for ANY density *)
Theorem C04_pdf_is_radfac_times_density : forall ora (d : Z) (dens : R -> R) (r : R),
  (1 <= d <= 3)%Z -> (d = 1%Z \/ tol8 < Rabs r) ->
  spectral_rad_pdf (Rops ora) d dens r = rad_fac (Rops ora) d (Rabs r) * Rabs (dens (Rabs r)).
Proof. exact pdf_unmasked. Qed.
Print Assumptions C04_pdf_is_radfac_times_density.

(* on the masked branch (2D / 3D, |r| <= 1e-8) the code returns 0; the formula it replaces is at most
   4 pi 1e-8 |density| there *)
Theorem C04_pdf_masked_branch : forall ora (d : Z) (dens : R -> R) (r : R),
  (2 <= d <= 3)%Z -> Rabs r <= tol8 ->
  spectral_rad_pdf (Rops ora) d dens r = 0 /\
  Rabs (rad_fac (Rops ora) d (Rabs r) * Rabs (dens (Rabs r)) - 0) <= 4 * PI * tol8 * Rabs (dens (Rabs r)).
Proof. exact pdf_masked. Qed.
Print Assumptions C04_pdf_masked_branch.

(* the general-dimension surface factor d r^(d-1) sqrt(pi)^d / Gamma(d/2+1) agrees with 2, 2 pi r, 4 pi r^2 *)
Theorem C04_rad_fac_general_agrees : forall ora (r : R),
  ora ORA_GAMMA [1 / 2 + 1] = sqrt PI / 2 -> ora ORA_GAMMA [2 / 2 + 1] = 1 ->
  ora ORA_GAMMA [3 / 2 + 1] = 3 * sqrt PI / 4 -> 0 < r ->
  forall d, (1 <= d <= 3)%Z ->
    IZR d * Rpow r (IZR (d - 1)) * Rpow (sqrt PI) (IZR d) / ora ORA_GAMMA [IZR d / 2 + 1]
    = rad_fac (Rops ora) d r.
Proof. exact rad_fac_general_agrees. Qed.
Print Assumptions C04_rad_fac_general_agrees.

(* every analytic density (8 classes, every dimension d, every special-function oracle) depends on
   len_scale and rescale through l = len_scale / rescale only and satisfies S_l(k) = l^d S_1(l k) — the
   scaling of the d-dimensional Fourier transform of rho(r / l).  [scal_ok]: the code's masks around
   k = 0 select the same branch for k and l k (Integral, HyperSpherical); hurst > 0, len_low >= 0 (TPL).
   [ref_cls]: a TPL lower cut-off scales along (len_low / len_scale). *)
Theorem C04_spectrum_scaling : forall ora (m : cls) (d : Z) (len_scale rescale k : R),
  0 < len_scale -> 0 < rescale -> scal_ok m (len_scale / rescale) k ->
  spectral_density (Rops ora) m d len_scale rescale k
  = Rpow (len_scale / rescale) (IZR d)
    * spectral_density (Rops ora) (ref_cls m len_scale) d 1 1 ((len_scale / rescale) * k).
Proof. exact spectrum_scaling. Qed.
Print Assumptions C04_spectrum_scaling.

Theorem C04_scaling_conditions_satisfiable : forall m : cls,
  (match m with TPLGaussian h low | TPLExponential h low => 0 < h /\ 0 <= low | _ => True end) ->
  scal_ok m (2 / 1) 1.
Proof. exact scal_ok_example. Qed.
Print Assumptions C04_scaling_conditions_satisfiable.

(* for every number type: where a class says it has a cdf / ppf the method returns a value, and a ppf is
   offered only together with a cdf *)
Theorem C04_offered_cdf_ppf_defined : forall T (O : NumOps T) (m : cls) (d : Z) (ls rs x : T),
  (has_cdf m d = true -> spectral_rad_cdf O m d ls rs x <> None) /\
  (has_ppf m d = true -> spectral_rad_ppf O m d ls rs x <> None) /\
  (has_ppf m d = true -> has_cdf m d = true).
Proof. intros T O. exact (offered_defined O). Qed.
Print Assumptions C04_offered_cdf_ppf_defined.

(* d/dr cdf = rad_fac * density: Exponential d = 1,2,3 and Gaussian d = 2 (elementary), Gaussian d = 1,3
   under the hypothesis that scipy's erf has derivative 2/sqrt(pi) exp(-x^2); Gamma(1), Gamma(3/2), Gamma(2)
   are hypotheses on scipy's gamma *)
Theorem C04_cdf_derivative : forall ora (ls rs : R), 0 < ls -> 0 < rs -> forall (m : cls) (d : Z),
  gamma_hyps ora -> elementary m d \/ (via_erf m d /\ erf_derive_hyp ora) ->
  forall r, is_derive (cdfR ora m d ls rs) r (pdfR ora m d ls rs r).
Proof. exact cdf_derivative. Qed.
Print Assumptions C04_cdf_derivative.

(* cdf(0) = 0 and cdf -> 1 at infinity (Gaussian d = 1,3: from erf(0) = 0, erf -> 1) *)
Theorem C04_cdf_limits : forall ora (ls rs : R), 0 < ls -> 0 < rs -> forall (m : cls) (d : Z),
  elementary m d \/ (via_erf m d /\ erf_limit_hyps ora) ->
  cdfR ora m d ls rs 0 = 0 /\ is_lim (cdfR ora m d ls rs) p_infty 1.
Proof. exact cdf_limits. Qed.
Print Assumptions C04_cdf_limits.

(* the radial pdf rad_fac * density integrates to one over [0, oo) *)
Theorem C04_pdf_integrates_to_one : forall ora (ls rs : R), 0 < ls -> 0 < rs -> forall (m : cls) (d : Z),
  gamma_hyps ora -> elementary m d \/ (via_erf m d /\ erf_derive_hyp ora /\ erf_limit_hyps ora) ->
  is_RInt_gen (pdfR ora m d ls rs) (at_point 0) (Rbar_locally p_infty) 1.
Proof. exact pdf_integrates_to_one. Qed.
Print Assumptions C04_pdf_integrates_to_one.

(* the hypotheses on gamma and on erf's derivative / value at 0 are satisfiable (erf := 2/sqrt(pi) times the
   integral of exp(-t^2)); erf -> 1 is the Gaussian integral, which the installed libraries do not contain *)
Theorem C04_hypotheses_satisfiable :
  gamma_hyps ora_example /\ erf_derive_hyp ora_example /\ ora_example ORA_ERF [0] = 0.
Proof. split; [exact gamma_hyps_satisfiable|exact erf_derive_hyp_satisfiable]. Qed.
Print Assumptions C04_hypotheses_satisfiable.

(* ppf inverts cdf *)
Theorem C04_ppf_inverts_cdf_gaussian_2d : forall ora (ls rs : R), 0 < ls -> 0 < rs ->
  (forall u, 0 <= u < 1 -> exists p, spectral_rad_ppf (Rops ora) Gaussian 2 ls rs u = Some p /\ 0 <= p /\
                                     spectral_rad_cdf (Rops ora) Gaussian 2 ls rs p = Some u) /\
  (forall r, 0 <= r -> exists u, spectral_rad_cdf (Rops ora) Gaussian 2 ls rs r = Some u /\ 0 <= u < 1 /\
                                 spectral_rad_ppf (Rops ora) Gaussian 2 ls rs u = Some r).
Proof. intros ora ls rs Hl Hs. split; [exact (gau2_cdf_ppf ora ls rs Hl Hs)|exact (gau2_ppf_cdf ora ls rs Hl Hs)]. Qed.
Print Assumptions C04_ppf_inverts_cdf_gaussian_2d.

Theorem C04_ppf_inverts_cdf_gaussian_1d : forall ora (ls rs : R), 0 < ls -> 0 < rs ->
  (forall x, ora ORA_ERFINV [ora ORA_ERF [x]] = x) ->
  forall r, exists u, spectral_rad_cdf (Rops ora) Gaussian 1 ls rs r = Some u /\
                      spectral_rad_ppf (Rops ora) Gaussian 1 ls rs u = Some r.
Proof. intros ora ls rs Hl Hs Hinv r. exact (gau1_ppf_cdf ora ls rs Hl Hs r Hinv). Qed.
Print Assumptions C04_ppf_inverts_cdf_gaussian_1d.

Theorem C04_ppf_inverts_cdf_exponential_1d : forall ora (ls rs : R), 0 < ls -> 0 < rs ->
  (forall u, 0 <= u < 1 -> exists p, spectral_rad_ppf (Rops ora) Exponential 1 ls rs u = Some p /\
                                     spectral_rad_cdf (Rops ora) Exponential 1 ls rs p = Some u) /\
  (forall r, exists u, spectral_rad_cdf (Rops ora) Exponential 1 ls rs r = Some u /\
                       spectral_rad_ppf (Rops ora) Exponential 1 ls rs u = Some r).
Proof. intros ora ls rs Hl Hs. split; [exact (exp1_cdf_ppf ora ls rs Hl Hs)|exact (exp1_ppf_cdf ora ls rs Hl Hs)]. Qed.
Print Assumptions C04_ppf_inverts_cdf_exponential_1d.

(* 2D Exponential: outside the code's mask |1 - u| <= 1e-8 (where it returns inf) *)
Theorem C04_ppf_inverts_cdf_exponential_2d : forall ora (ls rs : R), 0 < ls -> 0 < rs ->
  (forall u, 0 <= u -> tol8 < 1 - u ->
     exists p, spectral_rad_ppf (Rops ora) Exponential 2 ls rs u = Some p /\ 0 <= p /\
               spectral_rad_cdf (Rops ora) Exponential 2 ls rs p = Some u) /\
  (forall r, 0 <= r -> tol8 < 1 / sqrt (1 + (r * (ls / rs)) * (r * (ls / rs))) ->
     exists u, spectral_rad_cdf (Rops ora) Exponential 2 ls rs r = Some u /\ 0 <= u < 1 /\
               spectral_rad_ppf (Rops ora) Exponential 2 ls rs u = Some r).
Proof. intros ora ls rs Hl Hs. split; [exact (exp2_cdf_ppf ora ls rs Hl Hs)|exact (exp2_ppf_cdf ora ls rs Hl Hs)]. Qed.
Print Assumptions C04_ppf_inverts_cdf_exponential_2d.

(* Fourier pair, Exponential model, d = 1:  (1/pi) int_0^oo exp(-(r/l)) cos(k r) dr  =  the code's
   spectral_density, for every wave number k (Gamma(1) = 1 assumed of scipy's gamma).
   exp_cor h = exp(-h) is Exponential.cor; correlation(r) = cor(r / l). *)
Theorem C04_fourier_pair_exponential_1d : forall ora (ls rs : R), 0 < ls -> 0 < rs -> forall k,
  ora ORA_GAMMA [1] = 1 ->
  is_RInt_gen (fun r => / PI * (exp_cor (r / (ls / rs)) * cos (k * r))) (at_point 0) (Rbar_locally p_infty)
              (spectral_density (Rops ora) Exponential 1 ls rs k).
Proof. exact fourier_pair_exponential_1d. Qed.
Print Assumptions C04_fourier_pair_exponential_1d.

(* ====================================================================== tie to the translated source *)
(* coq/gen/Formulas_gen.v is re-translated from /repo's current sources on every run (tools/py2coq.py).  The hand model
   equals the translated formula for every oracle, dimension d : Z (the int attribute dim arrives as IZR d), length
   l = len_rescaled and argument, WITHOUT side condition (x ** 2 = x * x over R; no NaN in R).  A changed
   coefficient / exponent / branch condition in the source breaks these proofs. *)
Theorem C04_tie_rad_fac : forall ora (d : Z) r,
  Formulas_gen.rad_fac (Rops ora) (IZR d) r = C04_Model.rad_fac (Rops ora) d r.
Proof. exact rad_fac_tie. Qed.
Print Assumptions C04_tie_rad_fac.
Theorem C04_tie_Gaussian_spectral_density : forall ora (d : Z) l k,
  Formulas_gen.Gaussian_spectral_density (Rops ora) l (IZR d) k = gau_density (Rops ora) d l k.
Proof. exact Gaussian_spectral_density_tie. Qed.
Print Assumptions C04_tie_Gaussian_spectral_density.
Theorem C04_tie_Gaussian_spectral_rad_cdf : forall ora (d : Z) l r,
  Formulas_gen.Gaussian_spectral_rad_cdf (Rops ora) (IZR d) l r = gau_cdf (Rops ora) d l r.
Proof. exact Gaussian_spectral_rad_cdf_tie. Qed.
Print Assumptions C04_tie_Gaussian_spectral_rad_cdf.
Theorem C04_tie_Gaussian_spectral_rad_ppf : forall ora (d : Z) l u,
  Formulas_gen.Gaussian_spectral_rad_ppf (Rops ora) (IZR d) l u = gau_ppf (Rops ora) d l u.
Proof. exact Gaussian_spectral_rad_ppf_tie. Qed.
Print Assumptions C04_tie_Gaussian_spectral_rad_ppf.
Theorem C04_tie_Exponential_spectral_density : forall ora (d : Z) l k,
  Formulas_gen.Exponential_spectral_density (Rops ora) l (IZR d) k = exp_density (Rops ora) d l k.
Proof. exact Exponential_spectral_density_tie. Qed.
Print Assumptions C04_tie_Exponential_spectral_density.
Theorem C04_tie_Exponential_spectral_rad_cdf : forall ora (d : Z) l r,
  Formulas_gen.Exponential_spectral_rad_cdf (Rops ora) (IZR d) l r = exp_cdf (Rops ora) d l r.
Proof. exact Exponential_spectral_rad_cdf_tie. Qed.
Print Assumptions C04_tie_Exponential_spectral_rad_cdf.
Theorem C04_tie_Exponential_spectral_rad_ppf : forall ora (d : Z) l u,
  Formulas_gen.Exponential_spectral_rad_ppf (Rops ora) (IZR d) l u = exp_ppf (Rops ora) d l u.
Proof. exact Exponential_spectral_rad_ppf_tie. Qed.
Print Assumptions C04_tie_Exponential_spectral_rad_ppf.
Theorem C04_tie_Matern_spectral_density : forall ora (d : Z) l nu k,
  Formulas_gen.Matern_spectral_density (Rops ora) l nu (IZR d) k = mat_density (Rops ora) d l nu k.
Proof. exact Matern_spectral_density_tie. Qed.
Print Assumptions C04_tie_Matern_spectral_density.
Theorem C04_tie_Integral_spectral_density : forall ora (d : Z) l nu k,
  Formulas_gen.Integral_spectral_density (Rops ora) l (IZR d) nu k = int_density (Rops ora) d l nu k.
Proof. exact Integral_spectral_density_tie. Qed.
Print Assumptions C04_tie_Integral_spectral_density.
Theorem C04_tie_JBessel_spectral_density : forall ora (d : Z) l nu k,
  Formulas_gen.JBessel_spectral_density (Rops ora) l (IZR d) nu k = jb_density (Rops ora) d l nu k.
Proof. exact JBessel_spectral_density_tie. Qed.
Print Assumptions C04_tie_JBessel_spectral_density.

Theorem C04_tie_HyperSpherical_spectral_density : forall ora (d : Z) l k,
  Formulas_gen.HyperSpherical_spectral_density (Rops ora) l (IZR d) k = hyp_density (Rops ora) d l k.
Proof. exact HyperSpherical_spectral_density_tie. Qed.
Print Assumptions C04_tie_HyperSpherical_spectral_density.
Theorem C04_tie_tpl_exp_spec_dens_base : forall ora (d : Z) l h k,
  Formulas_gen.tpl_exp_spec_dens_base (Rops ora) k (IZR d) l h = tplexp0 (Rops ora) d l h k.
Proof. exact tpl_exp_spec_dens_base_tie. Qed.
Print Assumptions C04_tie_tpl_exp_spec_dens_base.
(* the 12-term series of the source's for loop, unrolled by the translator, is the model's fold *)
Theorem C04_tie_tpl_gau_spec_dens_base : forall ora (d : Z) l h k,
  Formulas_gen.tpl_gau_spec_dens_base (Rops ora) k (IZR d) l h = tplgau0 (Rops ora) d l h k.
Proof. exact tpl_gau_spec_dens_base_tie. Qed.
Print Assumptions C04_tie_tpl_gau_spec_dens_base.
Theorem C04_tie_tpl_exp_spec_dens : forall ora (d : Z) l h low k,
  Formulas_gen.tpl_exp_spec_dens (Rops ora) k (IZR d) l h low = tplexp_density (Rops ora) d l h low k.
Proof. exact tpl_exp_spec_dens_tie. Qed.
Print Assumptions C04_tie_tpl_exp_spec_dens.
Theorem C04_tie_tpl_gau_spec_dens : forall ora (d : Z) l h low k,
  Formulas_gen.tpl_gau_spec_dens (Rops ora) k (IZR d) l h low = tplgau_density (Rops ora) d l h low k.
Proof. exact tpl_gau_spec_dens_tie. Qed.
Print Assumptions C04_tie_tpl_gau_spec_dens.
(* the classes' argument plumbing (dim, len_rescaled, hurst, len_low_rescaled) *)
Theorem C04_tie_TPLGaussian_spectral_density : forall ora (d : Z) l h lowr k,
  Formulas_gen.TPLGaussian_spectral_density (Rops ora) (IZR d) l h lowr k = tplgau_density (Rops ora) d l h lowr k.
Proof. exact TPLGaussian_spectral_density_tie. Qed.
Print Assumptions C04_tie_TPLGaussian_spectral_density.
Theorem C04_tie_TPLExponential_spectral_density : forall ora (d : Z) l h lowr k,
  Formulas_gen.TPLExponential_spectral_density (Rops ora) (IZR d) l h lowr k = tplexp_density (Rops ora) d l h lowr k.
Proof. exact TPLExponential_spectral_density_tie. Qed.
Print Assumptions C04_tie_TPLExponential_spectral_density.

(* class level: [gen_density / gen_cdf / gen_ppf ora m d ls rs] = the translated formula of class m applied to
   len_rescaled = ls / rs, IZR d and (truncated power laws) len_low / rs — for ALL eight analytic classes;
   [gen_pdf] = translated rad_fac * gen_density *)
Theorem C04_tie_classes : forall ora (m : cls) (d : Z) (ls rs x : R),
  gen_density ora m d ls rs x = spectral_density (Rops ora) m d ls rs x /\
  gen_cdf ora m d ls rs x = spectral_rad_cdf (Rops ora) m d ls rs x /\
  gen_ppf ora m d ls rs x = spectral_rad_ppf (Rops ora) m d ls rs x.
Proof. intros. split; [apply gen_density_tie|split; [apply gen_cdf_tie|apply gen_ppf_tie]]. Qed.
Print Assumptions C04_tie_classes.

(* ---------- the theorems above, about what the source says now *)
Theorem C04_spectrum_scaling_generated : forall ora (m : cls) (d : Z) (ls rs k : R),
  0 < ls -> 0 < rs -> scal_ok m (ls / rs) k ->
  gen_density ora m d ls rs k = Rpow (ls / rs) (IZR d) * gen_density ora (ref_cls m ls) d 1 1 ((ls / rs) * k).
Proof. exact spectrum_scaling_gen. Qed.
Print Assumptions C04_spectrum_scaling_generated.

Theorem C04_cdf_derivative_generated : forall ora (ls rs : R) (m : cls) (d : Z), 0 < ls -> 0 < rs ->
  gamma_hyps ora -> elementary m d \/ (via_erf m d /\ erf_derive_hyp ora) ->
  forall r, is_derive (fun r => getv (gen_cdf ora m d ls rs r)) r (gen_pdf ora m d ls rs r).
Proof. exact cdf_derivative_gen. Qed.
Print Assumptions C04_cdf_derivative_generated.

Theorem C04_cdf_limits_generated : forall ora (ls rs : R) (m : cls) (d : Z), 0 < ls -> 0 < rs ->
  elementary m d \/ (via_erf m d /\ erf_limit_hyps ora) ->
  getv (gen_cdf ora m d ls rs 0) = 0 /\ is_lim (fun r => getv (gen_cdf ora m d ls rs r)) p_infty 1.
Proof. exact cdf_limits_gen. Qed.
Print Assumptions C04_cdf_limits_generated.

Theorem C04_pdf_integrates_to_one_generated : forall ora (ls rs : R) (m : cls) (d : Z), 0 < ls -> 0 < rs ->
  gamma_hyps ora -> elementary m d \/ (via_erf m d /\ erf_derive_hyp ora /\ erf_limit_hyps ora) ->
  is_RInt_gen (gen_pdf ora m d ls rs) (at_point 0) (Rbar_locally p_infty) 1.
Proof. exact pdf_integrates_to_one_gen. Qed.
Print Assumptions C04_pdf_integrates_to_one_generated.

Theorem C04_ppf_inverts_cdf_generated : forall ora (ls rs : R), 0 < ls -> 0 < rs ->
  (forall u, 0 <= u < 1 -> exists p, gen_ppf ora Gaussian 2 ls rs u = Some p /\ 0 <= p /\ gen_cdf ora Gaussian 2 ls rs p = Some u) /\
  (forall r, 0 <= r -> exists u, gen_cdf ora Gaussian 2 ls rs r = Some u /\ 0 <= u < 1 /\ gen_ppf ora Gaussian 2 ls rs u = Some r) /\
  ((forall x, ora ORA_ERFINV [ora ORA_ERF [x]] = x) ->
   forall r, exists u, gen_cdf ora Gaussian 1 ls rs r = Some u /\ gen_ppf ora Gaussian 1 ls rs u = Some r) /\
  (forall u, 0 <= u < 1 -> exists p, gen_ppf ora Exponential 1 ls rs u = Some p /\ gen_cdf ora Exponential 1 ls rs p = Some u) /\
  (forall r, exists u, gen_cdf ora Exponential 1 ls rs r = Some u /\ gen_ppf ora Exponential 1 ls rs u = Some r) /\
  (forall u, 0 <= u -> tol8 < 1 - u ->
     exists p, gen_ppf ora Exponential 2 ls rs u = Some p /\ 0 <= p /\ gen_cdf ora Exponential 2 ls rs p = Some u) /\
  (forall r, 0 <= r -> tol8 < 1 / sqrt (1 + (r * (ls / rs)) * (r * (ls / rs))) ->
     exists u, gen_cdf ora Exponential 2 ls rs r = Some u /\ 0 <= u < 1 /\ gen_ppf ora Exponential 2 ls rs u = Some r).
Proof. exact ppf_inverts_cdf_gen. Qed.
Print Assumptions C04_ppf_inverts_cdf_generated.

(* translated Exponential.cor and translated Exponential.spectral_density are a Fourier pair in one dimension *)
Theorem C04_fourier_pair_exponential_1d_generated : forall ora (ls rs k : R), 0 < ls -> 0 < rs ->
  ora ORA_GAMMA [1] = 1 ->
  is_RInt_gen (fun r => / PI * (Formulas_gen.Exponential_cor (Rops ora) (r / (ls / rs)) * cos (k * r)))
              (at_point 0) (Rbar_locally p_infty)
              (Formulas_gen.Exponential_spectral_density (Rops ora) (ls / rs) (IZR 1) k).
Proof. exact fourier_pair_exponential_1d_gen. Qed.
Print Assumptions C04_fourier_pair_exponential_1d_generated.

(* ====================================================================== further classes / dimensions *)
(* the 2D Matern radial pdf (translated rad_fac * translated Matern.spectral_density) integrates to one for EVERY nu > 0:
   log-gamma branch (nu <= 20) under loggamma(nu + 1) - loggamma(nu) = ln nu (i.e. Gamma(nu+1) = nu Gamma(nu)) assumed of
   scipy's loggamma, Gaussian-limit branch (nu > 20) unconditionally *)
Theorem C04_matern_2d_pdf_integrates_to_one : forall ora (ls rs nu : R), 0 < ls -> 0 < rs -> 0 < nu ->
  (nu <= 20 -> ora ORA_LOGGAMMA [nu + 2 / 2] - ora ORA_LOGGAMMA [nu] = ln nu) ->
  is_RInt_gen (gen_pdf ora (Matern nu) 2 ls rs) (at_point 0) (Rbar_locally p_infty) 1.
Proof. exact matern_2d_normalised. Qed.
Print Assumptions C04_matern_2d_pdf_integrates_to_one.
Theorem C04_matern_loggamma_hypothesis_satisfiable : forall nu, exists ora : nat -> list R -> R,
  ora ORA_LOGGAMMA [nu + 2 / 2] - ora ORA_LOGGAMMA [nu] = ln nu.
Proof. exact matern_loggamma_hyp_satisfiable. Qed.
Print Assumptions C04_matern_loggamma_hypothesis_satisfiable.

(* Fourier pair, Exponential model, d = 3, with the translated cor and the translated spectral_density:
   1/(2 pi^2 k) int_0^oo exp(-(r/l)) r sin(k r) dr = spectral_density(k) for every k <> 0 (radial form of the 3D
   transform of a radial function, taken as its definition; Gamma(2) = 1 assumed of scipy's gamma) *)
Theorem C04_fourier_pair_exponential_3d_generated : forall ora (ls rs k : R), 0 < ls -> 0 < rs -> k <> 0 ->
  ora ORA_GAMMA [2] = 1 ->
  is_RInt_gen (fun r => / (2 * (PI * PI) * k) * (Formulas_gen.Exponential_cor (Rops ora) (r / (ls / rs)) * r * sin (k * r)))
              (at_point 0) (Rbar_locally p_infty)
              (Formulas_gen.Exponential_spectral_density (Rops ora) (ls / rs) (IZR 3) k).
Proof. exact fourier_pair_exponential_3d_gen. Qed.
Print Assumptions C04_fourier_pair_exponential_3d_generated.

(* the translated rad_fac is the surface of the (d-1)-sphere, 2 pi^(d/2) / Gamma(d/2) r^(d-1)  (pi^(d/2) = sqrt(pi)^d):
   d = 1, 2, 3 from three Gamma values; EVERY d >= 4 (general branch: 3D + time, lat-lon + time, ...) from the recurrence
   Gamma(d/2 + 1) = d/2 Gamma(d/2) assumed of scipy's gamma at that d *)
Theorem C04_rad_fac_is_sphere_surface_dim_1_2_3 : forall ora (d : Z) r, (1 <= d <= 3)%Z -> 0 < r ->
  ora ORA_GAMMA [1 / 2] = sqrt PI -> ora ORA_GAMMA [2 / 2] = 1 -> ora ORA_GAMMA [3 / 2] = sqrt PI / 2 ->
  Formulas_gen.rad_fac (Rops ora) (IZR d) r = 2 * Rpow (sqrt PI) (IZR d) / ora ORA_GAMMA [IZR d / 2] * Rpow r (IZR (d - 1)).
Proof. exact rad_fac_sphere_surface_low. Qed.
Print Assumptions C04_rad_fac_is_sphere_surface_dim_1_2_3.
Theorem C04_rad_fac_is_sphere_surface_general_dim : forall ora (d : Z) r, (4 <= d)%Z ->
  ora ORA_GAMMA [IZR d / 2 + 1] = IZR d / 2 * ora ORA_GAMMA [IZR d / 2] -> ora ORA_GAMMA [IZR d / 2] <> 0 ->
  Formulas_gen.rad_fac (Rops ora) (IZR d) r = 2 * Rpow (sqrt PI) (IZR d) / ora ORA_GAMMA [IZR d / 2] * Rpow r (IZR (d - 1)).
Proof. exact rad_fac_sphere_surface_general. Qed.
Print Assumptions C04_rad_fac_is_sphere_surface_general_dim.
