(* C11 — seeded field generation is deterministic and local.  Only statements; proofs in c11/*.v.

   Part 1 (locality; generic number type T with arbitrary operations, so the statements hold for IEEE
   doubles bit for bit; [*_sched] are the .pyx kernels translated on every run, with the order in which
   the prange iterations run as a parameter; [is_sched s]: s permutes the iteration list):
   [rm_field] / [fo_field] are RandMeth.__call__ / Fourier.__call__ (nugget-free) on the position array
   of a list of points, [rm_value] / [fo_value] the value at ONE location.

   Part 2 (histories): the update / reset_seed / setter logic of RandMeth (= IncomprRandMeth), of
   SRF.__call__ on top of it and of Fourier as state machines; RNG, spectral sampling, spectrum and
   arange are oracles the theorems quantify over; [meq] is CovModel.__eq__. *)
From Coq Require Import List ZArith Bool.
From GS Require Import Num Loops Summator_gen C15_KernelSpec C11_Pointwise C11_Main C11_Incompr C11_GenState C11_Inst.
Import ListNotations.

(* ------------------------------------------------------------------ Part 1 *)
Theorem C11_pointwise_randmeth :
  forall (T : Type) (O : NumOps T) sched var mode_no ks z1 z2 dim pts,
    is_sched sched -> 0 < dim -> wf_pts dim pts ->
    rm_field O sched var mode_no ks z1 z2 dim pts = map (rm_value O var mode_no ks z1 z2) pts.
Proof. intros. now apply rm_field_is_map. Qed.
Print Assumptions C11_pointwise_randmeth.

Theorem C11_pointwise_fourier :
  forall (T : Type) (O : NumOps T) sched sf modes z1 z2 dim pts,
    is_sched sched -> 0 < dim -> wf_pts dim pts ->
    fo_field O sched sf modes z1 z2 dim pts = map (fo_value O sf modes z1 z2) pts.
Proof. intros. now apply fo_field_is_map. Qed.
Print Assumptions C11_pointwise_fourier.

(* the kernels themselves: entry i is a function of column i of the position array only *)
Theorem C11_pointwise_kernels :
  forall (T : Type) (O : NumOps T) sched sf ks z1 z2 dim pts,
    is_sched sched -> 0 < dim -> wf_pts dim pts ->
    summate_sched O sched ks z1 z2 (pos_of O dim pts) = map (rm_point O ks z1 z2) pts
    /\ summate_fourier_sched O sched sf ks z1 z2 (pos_of O dim pts) = map (fo_point O sf ks z1 z2) pts.
Proof. intros. split; [now apply summate_pointwise | now apply summate_fourier_pointwise]. Qed.
Print Assumptions C11_pointwise_kernels.

(* permutations, subsets, repetitions of the requested points (and any two thread schedules):
   evaluating the selected points = selecting from the evaluation of all points *)
Theorem C11_perm_subset_randmeth :
  forall (T : Type) (O : NumOps T) s1 s2 var n ks z1 z2 dim pts idx,
    is_sched s1 -> is_sched s2 -> 0 < dim -> wf_pts dim pts -> Forall (fun i => i < length pts) idx ->
    rm_field O s1 var n ks z1 z2 dim (map (fun i => nth i pts []) idx)
    = map (fun i => nth i (rm_field O s2 var n ks z1 z2 dim pts) (n0 O)) idx.
Proof. exact @rm_field_select. Qed.
Print Assumptions C11_perm_subset_randmeth.

Theorem C11_perm_subset_fourier :
  forall (T : Type) (O : NumOps T) s1 s2 sf modes z1 z2 dim pts idx,
    is_sched s1 -> is_sched s2 -> 0 < dim -> wf_pts dim pts -> Forall (fun i => i < length pts) idx ->
    fo_field O s1 sf modes z1 z2 dim (map (fun i => nth i pts []) idx)
    = map (fun i => nth i (fo_field O s2 sf modes z1 z2 dim pts) (n0 O)) idx.
Proof. exact @fo_field_select. Qed.
Print Assumptions C11_perm_subset_fourier.

(* batching: one call on all points = the calls on the batches, concatenated *)
Theorem C11_split_randmeth :
  forall (T : Type) (O : NumOps T) sched var n ks z1 z2 dim batches,
    is_sched sched -> 0 < dim -> Forall (wf_pts dim) batches ->
    rm_field O sched var n ks z1 z2 dim (concat batches) = concat (map (rm_field O sched var n ks z1 z2 dim) batches).
Proof. exact @rm_field_concat. Qed.
Print Assumptions C11_split_randmeth.

Theorem C11_split_fourier :
  forall (T : Type) (O : NumOps T) sched sf modes z1 z2 dim batches,
    is_sched sched -> 0 < dim -> Forall (wf_pts dim) batches ->
    fo_field O sched sf modes z1 z2 dim (concat batches) = concat (map (fo_field O sched sf modes z1 z2 dim) batches).
Proof. exact @fo_field_concat. Qed.
Print Assumptions C11_split_fourier.

(* structured evaluation: entry (i, j, ...) of the field on the grid (C order, [grid_points] = columns of
   generate_grid) is the unstructured evaluation at the single point (x_i, y_j, ...) *)
Theorem C11_structured_equals_unstructured_randmeth :
  forall (T : Type) (O : NumOps T) sched var n ks z1 z2 axes idx,
    is_sched sched -> 0 < length axes -> valid_idx axes idx ->
    [nth (flat_index (map (@length T) axes) idx) (rm_field O sched var n ks z1 z2 (length axes) (grid_points axes)) (n0 O)]
    = rm_field O sched var n ks z1 z2 (length axes) [point_at (n0 O) axes idx].
Proof. exact @rm_field_structured. Qed.
Print Assumptions C11_structured_equals_unstructured_randmeth.

Theorem C11_structured_equals_unstructured_fourier :
  forall (T : Type) (O : NumOps T) sched sf modes z1 z2 axes idx,
    is_sched sched -> 0 < length axes -> valid_idx axes idx ->
    [nth (flat_index (map (@length T) axes) idx) (fo_field O sched sf modes z1 z2 (length axes) (grid_points axes)) (n0 O)]
    = fo_field O sched sf modes z1 z2 (length axes) [point_at (n0 O) axes idx].
Proof. exact @fo_field_structured. Qed.
Print Assumptions C11_structured_equals_unstructured_fourier.

(* IncomprRandMeth: the translated sequential kernel summate_incompr (scratch vector proj included) and the
   vector field built on it are, row d / column i, a function of location i only ([ic_point], [ic_value]);
   hence the same selection / batching / structured statements hold for every component d *)
Theorem C11_pointwise_incompr :
  forall (T : Type) (O : NumOps T) mean_u var n ks z1 z2 dim pts, 0 < dim -> wf_pts dim pts ->
    summate_incompr O ks z1 z2 (pos_of O dim pts) = map (fun d => map (ic_point O ks z1 z2 dim d) pts) (seq 0 dim)
    /\ incompr_call O mean_u var n ks z1 z2 (pos_of O dim pts)
       = map (fun d => map (ic_value O mean_u var n ks z1 z2 dim d) pts) (seq 0 dim).
Proof. intros. split; [now apply summate_incompr_pointwise | now apply incompr_call_pointwise]. Qed.
Print Assumptions C11_pointwise_incompr.

Theorem C11_perm_subset_incompr :
  forall (T : Type) (O : NumOps T) mean_u var n ks z1 z2 dim d pts idx,
    0 < dim -> d < dim -> wf_pts dim pts -> Forall (fun i => i < length pts) idx ->
    ic_field O mean_u var n ks z1 z2 dim d (map (fun i => nth i pts []) idx)
    = map (fun i => nth i (ic_field O mean_u var n ks z1 z2 dim d pts) (n0 O)) idx.
Proof. exact @ic_field_select. Qed.
Print Assumptions C11_perm_subset_incompr.

Theorem C11_split_incompr :
  forall (T : Type) (O : NumOps T) mean_u var n ks z1 z2 dim d batches,
    0 < dim -> d < dim -> Forall (wf_pts dim) batches ->
    ic_field O mean_u var n ks z1 z2 dim d (concat batches) = concat (map (ic_field O mean_u var n ks z1 z2 dim d) batches).
Proof. exact @ic_field_concat. Qed.
Print Assumptions C11_split_incompr.

Theorem C11_structured_equals_unstructured_incompr :
  forall (T : Type) (O : NumOps T) mean_u var n ks z1 z2 axes d idx,
    0 < length axes -> d < length axes -> valid_idx axes idx ->
    [nth (flat_index (map (@length T) axes) idx) (ic_field O mean_u var n ks z1 z2 (length axes) d (grid_points axes)) (n0 O)]
    = ic_field O mean_u var n ks z1 z2 (length axes) d [point_at (n0 O) axes idx].
Proof. exact @ic_field_structured. Qed.
Print Assumptions C11_structured_equals_unstructured_incompr.

(* ------------------------------------------------------------------ Part 2 *)
(* after ANY sequence of update / seed / reset_seed / mode_no / call operations the modes are
   modes_of (the seed the RNG really has, the present model copy, the present mode number),
   and that seed is the stored seed value *)
Theorem C11_modes_fresh :
  forall (Model : Type) (meq : Model -> Model -> bool) (nugget_pos : Model -> bool) (Modes : Type)
         (modes_of : eseed -> Model -> nat -> Modes) (mode_draws : Model -> nat) (same : seedarg -> sseed -> bool)
         m n s ops,
    let st := rm_run Model meq nugget_pos Modes modes_of mode_draws same (rm_init Model Modes modes_of mode_draws m n s) ops in
    rm_modes _ _ st = modes_of (rm_eseed _ _ st) (rm_model _ _ st) (rm_mode_no _ _ st)
    /\ seed_agrees (rm_seed _ _ st) (rm_eseed _ _ st).
Proof. intros. apply rm_modes_fresh. Qed.
Print Assumptions C11_modes_fresh.

(* ... i.e. with an integer seed, literally the modes of a freshly constructed generator *)
Theorem C11_modes_as_fresh_generator :
  forall (Model : Type) (meq : Model -> Model -> bool) (nugget_pos : Model -> bool) (Modes : Type)
         (modes_of : eseed -> Model -> nat -> Modes) (mode_draws : Model -> nat) (same : seedarg -> sseed -> bool)
         m n s ops st v t,
    st = rm_run Model meq nugget_pos Modes modes_of mode_draws same (rm_init Model Modes modes_of mode_draws m n s) ops ->
    rm_seed _ _ st = KInt v t ->
    rm_modes _ _ st = rm_modes _ _ (rm_init Model Modes modes_of mode_draws (rm_model _ _ st) (rm_mode_no _ _ st) (SInt v t)).
Proof. exact rm_modes_as_fresh_generator. Qed.
Print Assumptions C11_modes_as_fresh_generator.

(* SRF level: after any history of in-place model changes, calls and generator operations, a call
   srf(pos, seed=s) returns the field made of modes_of (present seed, the generator's model copy gm,
   present mode number), and gm is the field's model or compares equal to it *)
Theorem C11_srf_call_fresh :
  forall (Model : Type) (meq : Model -> Model -> bool) (nugget_pos : Model -> bool) (Modes : Type)
         (modes_of : eseed -> Model -> nat -> Modes) (mode_draws : Model -> nat) (same : seedarg -> sseed -> bool)
         (Name : Type) (name_eqb : Name -> Name -> bool) m0 n0 s0 ops s shape store,
    let st := srf_run Model meq nugget_pos Modes modes_of mode_draws same Name name_eqb
                (srf_init Model Modes modes_of mode_draws Name m0 n0 s0) ops in
    let r := srf_step Model meq nugget_pos Modes modes_of mode_draws same Name name_eqb st (FCall _ _ s shape store) in
    exists md gm n noise,
      snd r = OField _ _ md gm n noise
      /\ (exists e, md = modes_of e gm n /\ seed_agrees (rm_seed _ _ (f_gen _ _ _ (fst r))) e)
      /\ (gm = f_model _ _ _ st \/ meq gm (f_model _ _ _ st) = true)
      /\ n = rm_mode_no _ _ (f_gen _ _ _ (fst r)).
Proof. intros. apply srf_call_fresh. Qed.
Print Assumptions C11_srf_call_fresh.

(* with an exact model comparison the copy IS the field's model: history-free output *)
Theorem C11_srf_call_fresh_exact :
  forall (Model : Type) (meq : Model -> Model -> bool) (nugget_pos : Model -> bool) (Modes : Type)
         (modes_of : eseed -> Model -> nat -> Modes) (mode_draws : Model -> nat) (same : seedarg -> sseed -> bool)
         (Name : Type) (name_eqb : Name -> Name -> bool) m0 n0 s0 ops s shape store,
    (forall a b, meq a b = true -> a = b) ->
    let st := srf_run Model meq nugget_pos Modes modes_of mode_draws same Name name_eqb
                (srf_init Model Modes modes_of mode_draws Name m0 n0 s0) ops in
    exists md n noise e,
      snd (srf_step Model meq nugget_pos Modes modes_of mode_draws same Name name_eqb st (FCall _ _ s shape store))
        = OField _ _ md (f_model _ _ _ st) n noise
      /\ md = modes_of e (f_model _ _ _ st) n.
Proof. intros. now apply srf_call_fresh_exact. Qed.
Print Assumptions C11_srf_call_fresh_exact.

(* KNOWN FINDING (c), in the model: whenever compare conflates two different models there is a history
   after which every call still uses the old one ... *)
Theorem C11_isclose_stale_refuted :
  forall (Model : Type) (meq : Model -> Model -> bool) (nugget_pos : Model -> bool) (Modes : Type)
         (modes_of : eseed -> Model -> nat -> Modes) (mode_draws : Model -> nat) (same : seedarg -> sseed -> bool)
         (Name : Type) (name_eqb : Name -> Name -> bool) m1 m2 n s,
    meq m1 m2 = true -> m1 <> m2 ->
    exists ops, let st := srf_run Model meq nugget_pos Modes modes_of mode_draws same Name name_eqb
                            (srf_init Model Modes modes_of mode_draws Name m1 n s) ops in
      forall s' shape store, exists md k noise,
        snd (srf_step Model meq nugget_pos Modes modes_of mode_draws same Name name_eqb st (FCall _ _ s' shape store))
          = OField _ _ md m1 k noise
        /\ f_model _ _ _ st = m2.
Proof. intros. now apply srf_isclose_stale. Qed.
Print Assumptions C11_isclose_stale_refuted.

(* ... and the modelled compare (np.isclose, rtol 1e-5, atol 1e-8) does conflate
   Gaussian(len_scale=2) with Gaussian(len_scale=2.00001), but not with len_scale=2.001 *)
Theorem C11_compare_conflates :
  compare Qops11 qm_a qm_b = true /\ qm_a <> qm_b /\ compare Qops11 qm_a qm_c = false.
Proof. exact (conj (proj1 compare_conflates) (conj (proj2 compare_conflates) compare_sees_larger_change)). Qed.
Print Assumptions C11_compare_conflates.

(* the store name does not influence what is generated: histories that differ only in store names
   (or in storing at all) return the same outputs *)
Theorem C11_store_name_irrelevant :
  forall (Model : Type) (meq : Model -> Model -> bool) (nugget_pos : Model -> bool) (Modes : Type)
         (modes_of : eseed -> Model -> nat -> Modes) (mode_draws : Model -> nat) (same : seedarg -> sseed -> bool)
         (Name : Type) (name_eqb : Name -> Name -> bool) st ops1 ops2,
    map (drop_store Model Name) ops1 = map (drop_store Model Name) ops2 ->
    srf_outs Model meq nugget_pos Modes modes_of mode_draws same Name name_eqb st ops1
    = srf_outs Model meq nugget_pos Modes modes_of mode_draws same Name name_eqb st ops2.
Proof. intros. now apply srf_store_name_irrelevant. Qed.
Print Assumptions C11_store_name_irrelevant.

(* with the seed setter comparing by VALUE, two histories that differ only in which objects hold the
   seed values give the same outputs, including which noise sub-stream every call draws:
   equal histories => equal nugget noise *)
Theorem C11_seed_identity_irrelevant :
  forall (Model : Type) (meq : Model -> Model -> bool) (nugget_pos : Model -> bool) (Modes : Type)
         (modes_of : eseed -> Model -> nat -> Modes) (mode_draws : Model -> nat) st1 st2 ops1 ops2,
    strip_rm Model Modes st1 = strip_rm Model Modes st2 -> map (strip_op Model) ops1 = map (strip_op Model) ops2 ->
    rm_outs Model meq nugget_pos Modes modes_of mode_draws same_value st1 ops1
    = rm_outs Model meq nugget_pos Modes modes_of mode_draws same_value st2 ops2.
Proof. exact seed_identity_irrelevant. Qed.
Print Assumptions C11_seed_identity_irrelevant.

(* defect (a) (repaired in /repo): with comparison by object identity that statement is false *)
Theorem C11_identity_compare_refuted :
  map (strip_op nat) hist_same = map (strip_op nat) hist_other
  /\ toy_outs (toy_init 7 10 (SInt 100000 1)) hist_same <> toy_outs (toy_init 7 10 (SInt 100000 1)) hist_other.
Proof. exact identity_compare_refuted. Qed.
Print Assumptions C11_identity_compare_refuted.

(* Fourier: after any history of operations that do not raise, delta_k, the mode grid, the random
   amplitudes and the spectrum factor are those computed from the PRESENT model copy, period, mode
   numbers and seed (model comparison taken as exact; arange(-n/2 dk, n/2 dk, dk) has n entries) *)
Theorem C11_fourier_fresh :
  forall (Model : Type) (meq : Model -> Model -> bool) (nugget_pos : Model -> bool) (mdim : Model -> nat)
         (Per Delta Grid ZS SF : Type) (delta_of : list Per -> Model -> Delta) (grid_of : list nat -> Delta -> nat -> Grid)
         (glens : Grid -> list nat) (zs_of : eseed -> nat -> ZS) (sf_of : Model -> Grid -> Delta -> SF)
         (same : seedarg -> sseed -> bool),
    (forall n dl dim, length n = dim -> glens (grid_of n dl dim) = n) ->
    (forall a b, meq a b = true -> a = b) ->
    forall m per mn s st0 ops st,
      fo_init Model mdim Per Delta Grid ZS SF delta_of grid_of glens zs_of sf_of m per mn s = Some st0 ->
      fo_run Model meq nugget_pos mdim Per Delta Grid ZS SF delta_of grid_of glens zs_of sf_of same st0 ops = Some st ->
      length (fo_period _ _ _ _ _ _ st) = mdim (fo_model _ _ _ _ _ _ st)
      /\ length (fo_mode_no _ _ _ _ _ _ st) = mdim (fo_model _ _ _ _ _ _ st)
      /\ fo_delta _ _ _ _ _ _ st = delta_of (fo_period _ _ _ _ _ _ st) (fo_model _ _ _ _ _ _ st)
      /\ fo_grid _ _ _ _ _ _ st = grid_of (fo_mode_no _ _ _ _ _ _ st) (fo_delta _ _ _ _ _ _ st) (mdim (fo_model _ _ _ _ _ _ st))
      /\ fo_zs _ _ _ _ _ _ st = zs_of (fo_eseed _ _ _ _ _ _ st) (prodn (fo_mode_no _ _ _ _ _ _ st))
      /\ fo_sf _ _ _ _ _ _ st = sf_of (fo_model _ _ _ _ _ _ st) (fo_grid _ _ _ _ _ _ st) (fo_delta _ _ _ _ _ _ st)
      /\ seed_agrees (fo_seed _ _ _ _ _ _ st) (fo_eseed _ _ _ _ _ _ st).
Proof.
  intros Model meq nugget_pos mdim Per Delta Grid ZS SF delta_of grid_of glens zs_of sf_of same Hg He m per mn s st0 ops st Hi Hr.
  destruct (fo_modes_fresh Model meq nugget_pos mdim Per Delta Grid ZS SF delta_of grid_of glens zs_of sf_of same Hg He
              m per mn s st0 ops st Hi Hr) as [P1 P2 P3 P4 P5 P6 P7 P8].
  repeat split; assumption.
Qed.
Print Assumptions C11_fourier_fresh.

(* ... i.e. the state of a freshly constructed Fourier(model, period, mode_no, seed) *)
Theorem C11_fourier_as_fresh_generator :
  forall (Model : Type) (meq : Model -> Model -> bool) (nugget_pos : Model -> bool) (mdim : Model -> nat),
    (forall m, 0 < mdim m) ->
  forall (Per Delta Grid ZS SF : Type) (delta_of : list Per -> Model -> Delta) (grid_of : list nat -> Delta -> nat -> Grid)
         (glens : Grid -> list nat) (zs_of : eseed -> nat -> ZS) (sf_of : Model -> Grid -> Delta -> SF)
         (same : seedarg -> sseed -> bool),
    (forall n dl dim, length n = dim -> glens (grid_of n dl dim) = n) ->
    (forall a b, meq a b = true -> a = b) ->
    forall m per mn s st0 ops st v t,
      fo_init Model mdim Per Delta Grid ZS SF delta_of grid_of glens zs_of sf_of m per mn s = Some st0 ->
      fo_run Model meq nugget_pos mdim Per Delta Grid ZS SF delta_of grid_of glens zs_of sf_of same st0 ops = Some st ->
      fo_seed _ _ _ _ _ _ st = KInt v t ->
      exists st', fo_init Model mdim Per Delta Grid ZS SF delta_of grid_of glens zs_of sf_of
                    (fo_model _ _ _ _ _ _ st) (fo_period _ _ _ _ _ _ st) (fo_mode_no _ _ _ _ _ _ st) (SInt v t) = Some st'
                  /\ fo_core _ _ _ _ _ _ st' = fo_core _ _ _ _ _ _ st.
Proof. exact fo_as_fresh_generator. Qed.
Print Assumptions C11_fourier_as_fresh_generator.

(* non-vacuity: schedules exist, the symbolic grid satisfies the arange hypothesis, exact comparisons exist *)
Theorem C11_hypotheses_satisfiable :
  is_sched (fun l => l) /\ is_sched (@rev nat)
  /\ (forall (T : Type) n (dl : list T) dim, length n = dim -> sym_glens (sym_grid_of n dl dim) = n)
  /\ (exists meq : nat -> nat -> bool, forall a b, meq a b = true -> a = b).
Proof. exact (conj is_sched_id (conj is_sched_rev (conj (@sym_glens_grid) exact_compare_exists))). Qed.
Print Assumptions C11_hypotheses_satisfiable.
